import RV.Proofs.CacheAcctConf
import RV.Proofs.CacheAcctInv
/-!
# C13: every disagreement between the capacity accounting and the map is explained

`accounted s h`: hash `h` is charged by the policy; `stored s h`: the map holds `h`.
`ReasonA s h` lists the in-flight situations that excuse "accounted but not stored",
`ReasonB s h` those that excuse "stored but not accounted".  `Expl s` (with four auxiliary
clauses about the applier's local state and `Clear`'s progress) holds in every state reachable
by a collision-free run (`ReachC`).
-/
namespace RV.Cache
open RV Gen.Cache

def accounted (s : State) (h : Hash) : Bool := (s.pol.costs.lookup h).isSome
def stored (s : State) (h : Hash) : Bool := (s.store.lookup h).isSome

/-- a tombstone (`Del` item) for hash `h` -/
def BufElem.isTomb (h : Hash) : BufElem → Bool
  | .item i => i.flag == .del && i.key == h
  | .marker _ => false

/-- client-side excuses for "accounted, not stored": inside `Del(h)` after the map delete and before
the tombstone is sent; or inside `Clear` between the stop handshake and `policy.Clear` -/
def CPc.rA (h : Hash) : CPc → Bool
  | .delExit h' _ _ => h' == h
  | .delSend h' _ => h' == h
  | .clrDrain _ => true
  | .clrPolicy _ => true
  | _ => false

/-- applier-side excuses for "accounted, not stored" -/
def APc.rA (h : Hash) : APc → Bool
  | .added i _ true => i.key == h
  | .item i => i.flag == .del && i.key == h
  | .costed i => i.flag == .del && i.key == h
  | .swStoreDel _ k _ _ _ _ => k == h
  | _ => false

/-- a tombstone for `h` sits in the write buffer or with a blocked sender -/
def chanTomb (s : State) (h : Hash) : Bool :=
  s.buf.any (·.isTomb h) || s.sendq.any (fun p => p.2.isTomb h)

/-- `Clear` is about to clear shard `k` (shards `< k` are done) -/
def CPc.shardK : CPc → Option Nat
  | .clrShard _ k => some k
  | _ => none

/-- applier-side excuses for "stored, not accounted": pending victims, tombstone between policy and map -/
def APc.rB (h : Hash) : APc → Bool
  | .added _ vs _ => vs.any (·.1 == h)
  | .victims vs => vs.any (·.1 == h)
  | .victimEvict _ _ _ _ rest => rest.any (·.1 == h)
  | .tombPolicy i => i.key == h
  | _ => false

def ReasonA (s : State) (h : Hash) : Prop :=
  (∃ t, (s.cl t).rA h = true) ∨ s.app.rA h = true ∨ chanTomb s h = true

def ReasonB (s : State) (h : Hash) : Prop :=
  (∃ t k, (s.cl t).shardK = some k ∧ k ≤ shardIdx h) ∨ s.app.rB h = true

structure Expl (s : State) : Prop where
  ea : ∀ h, accounted s h = true → stored s h = false → ReasonA s h
  eb : ∀ h, stored s h = true → accounted s h = false → ReasonB s h
  /-- shards below `Clear`'s cursor are empty -/
  w : ∀ t k, (s.cl t).shardK = some k → ∀ h, shardIdx h < k → stored s h = false
  /-- pending victims and the tombstone being applied are no longer accounted -/
  vt : ∀ h, s.app.rB h = true → accounted s h = false
  /-- the admitted newcomer is accounted -/
  d : ∀ i vs, s.app = .added i vs true → accounted s i.key = true
  /-- the key the sweep removed from the map is not stored -/
  sw : ∀ now k c expr v bs, s.app = .swStoreDel now k c expr v bs → stored s k = false

@[simp] theorem unblockedPc_rA (h : Hash) (pc : CPc) : (unblockedPc pc).rA h = pc.rA h := by cases pc <;> rfl
@[simp] theorem unblockedPc_shardK (pc : CPc) : (unblockedPc pc).shardK = pc.shardK := by cases pc <;> rfl

theorem reasonA_mono {s s' : State} {h : Hash} (hcl : ∀ t, (s.cl t).rA h = true → (s'.cl t).rA h = true)
    (happ : s.app.rA h = true → s'.app.rA h = true ∨ chanTomb s' h = true)
    (hch : chanTomb s h = true → chanTomb s' h = true ∨ s'.app.rA h = true ∨ ∃ t, (s'.cl t).rA h = true)
    (hr : ReasonA s h) : ReasonA s' h := by
  rcases hr with ⟨t, ht⟩ | ha | hc
  · exact Or.inl ⟨t, hcl t ht⟩
  · rcases happ ha with h1 | h1
    · exact Or.inr (Or.inl h1)
    · exact Or.inr (Or.inr h1)
  · rcases hch hc with h1 | h1 | h1
    · exact Or.inr (Or.inr h1)
    · exact Or.inr (Or.inl h1)
    · exact Or.inl h1

theorem reasonB_mono {s s' : State} {h : Hash} (hcl : ∀ t, (s'.cl t).shardK = (s.cl t).shardK)
    (happ : s.app.rB h = true → s'.app.rB h = true) (hr : ReasonB s h) : ReasonB s' h := by
  rcases hr with ⟨t, k, ht, hk⟩ | ha
  · exact Or.inl ⟨t, k, by rw [hcl]; exact ht, hk⟩
  · exact Or.inr (happ ha)

/-- thread-local monotonicity of the client excuses -/
theorem rA_mono_of {s s' : State} {t : Tid} (hne : ∀ t', t' ≠ t → s'.cl t' = s.cl t')
    (ht : ∀ h, (s.cl t).rA h = true → (s'.cl t).rA h = true) :
    ∀ h t', (s.cl t').rA h = true → (s'.cl t').rA h = true := by
  intro h t' hr
  by_cases e : t' = t
  · subst e; exact ht h hr
  · rw [hne t' e]; exact hr

/-- General frame: map and accounting keep their key sets, the applier's pc is unchanged, the
clients' excuses and the channel contents only grow, `Clear`'s cursor is unchanged. -/
theorem expl_frame {s s' : State} (h : Expl s) (hst : ∀ h, stored s' h = stored s h)
    (hpol : ∀ h, accounted s' h = accounted s h) (happ : s'.app = s.app)
    (hch : ∀ h, chanTomb s h = true → chanTomb s' h = true)
    (hrA : ∀ h t, (s.cl t).rA h = true → (s'.cl t).rA h = true)
    (hK : ∀ t, (s'.cl t).shardK = (s.cl t).shardK) : Expl s' := by
  refine ⟨?_, ?_, ?_, ?_, ?_, ?_⟩
  · intro x ha hs
    rw [hpol] at ha; rw [hst] at hs
    exact reasonA_mono (hrA x) (fun h1 => Or.inl (by rw [happ]; exact h1)) (fun h1 => Or.inl (hch x h1)) (h.ea x ha hs)
  · intro x hs ha
    rw [hpol] at ha; rw [hst] at hs
    exact reasonB_mono hK (fun h1 => by rw [happ]; exact h1) (h.eb x hs ha)
  · intro t k hk x hx
    rw [hst]; rw [hK] at hk; exact h.w t k hk x hx
  · intro x hx
    rw [happ] at hx; rw [hpol]; exact h.vt x hx
  · intro i vs hi
    rw [happ] at hi; rw [hpol]; exact h.d i vs hi
  · intro now k c expr v bs hi
    rw [happ] at hi; rw [hst]; exact h.sw now k c expr v bs hi

theorem chanTomb_append_buf {s : State} {h : Hash} (e : BufElem) (hc : chanTomb s h = true) :
    chanTomb { s with buf := s.buf ++ [e] } h = true := by
  unfold chanTomb at hc ⊢
  simp only [Bool.or_eq_true, List.any_append] at hc ⊢
  rcases hc with hc | hc
  · exact Or.inl (Or.inl hc)
  · exact Or.inr hc

/-- a receive: the received element leaves the channel, everything else stays -/
theorem chanTomb_recv {s s1 : State} {x : BufElem} (hr : recvBuf s = some (x, s1)) {h : Hash}
    (hc : chanTomb s h = true) : x.isTomb h = true ∨ chanTomb s1 h = true := by
  obtain ⟨rest, hb, hcase⟩ := recvBuf_cases hr
  unfold chanTomb at hc
  rw [hb] at hc
  simp only [List.any_cons, Bool.or_eq_true] at hc
  rcases hcase with ⟨hq, rfl⟩ | ⟨t0, e0, q, hq, rfl⟩
  · rcases hc with (hc | hc) | hc
    · exact Or.inl hc
    · exact Or.inr (by unfold chanTomb; simp [hc])
    · exact Or.inr (by unfold chanTomb; simp [hc])
  · rw [hq] at hc
    simp only [List.any_cons, Bool.or_eq_true] at hc
    rcases hc with (hc | hc) | (hc | hc)
    · exact Or.inl hc
    · exact Or.inr (by unfold chanTomb; simp [hc])
    · exact Or.inr (by unfold chanTomb; simp [hc])
    · exact Or.inr (by unfold chanTomb; simp [hc])

open Lean in
/-- `expl_cl stX`: a client step that touches neither the map, the policy, the applier nor the channels -/
macro "expl_cl " f:ident : tactic => do
  let n := f.getId
  let clne := mkIdent (n.appendAfter "_cl_ne")
  let st := mkIdent (n.appendAfter "_store")
  let pol := mkIdent (n.appendAfter "_pol")
  let buf := mkIdent (n.appendAfter "_buf")
  let sq := mkIdent (n.appendAfter "_sendq")
  let app := mkIdent (n.appendAfter "_app")
  `(tactic| (refine expl_frame ‹Expl _› (fun _ => by unfold stored; rw [$st:ident]) (fun _ => by unfold accounted; rw [$pol:ident]) (by rw [$app:ident]) (fun _ hc => by unfold chanTomb at hc ⊢; rw [$buf:ident, $sq:ident]; exact hc) (rA_mono_of (fun _ hne => $clne (hne := hne) ..) ?_) (cls_congr CPc.shardK (fun _ hne => $clne (hne := hne) ..) ?_); all_goals (try intro x hx); all_goals (unfold $f; try dsimp only); all_goals (repeat' split); all_goals simp_all [CPc.rA, CPc.shardK]))

section client
variable {conf : Hash → Conf} {cfg : Cfg} {s s' : State} {t : Tid} {ch : Choice}

theorem expl_clientStep_frames (h : Expl s) (hs : clientStep cfg s t ch = some s')
    (hpc : ∀ i, s.cl t = .setUpd i → Expl (stSetUpd cfg s t i))
    (hpc2 : ∀ i, s.cl t = .setSend i → Expl (stSetSend cfg s t i))
    (hpc3 : ∀ h c, s.cl t = .delStart h c → Expl (stDelStart s t h c))
    (hpc4 : ∀ h c, s.cl t = .delSend h c → Expl (stDelSend cfg s t h c))
    (hpc5 : s.cl t = .waitSend → Expl (stWaitSend cfg s t))
    (hpc6 : ∀ b, s.cl t = .clrDrain b → Expl (stClrDrain s t b))
    (hpc7 : ∀ b, s.cl t = .clrPolicy b → Expl (stClrPolicy s t b))
    (hpc8 : ∀ b k, s.cl t = .clrShard b k → stClrShard s t b k ch = some s' → Expl s')
    (hpc9 : ∀ b, s.cl t = .clrRestart b → Expl (stClrRestart s t b))
    (hpc10 : s.cl t = .clsFinish → Expl (stClsFinish s t)) : Expl s' := by
  apply clientStep_cases hs (motive := Expl)
  case setStart => intros; expl_cl stSetStart
  case setExit => intros; expl_cl stSetExit
  case setRetTrue => intros; expl_cl stSetRetTrue
  case setRetDrop => intros; expl_cl stSetRetDrop
  case delExit => intros; expl_cl stDelExit
  case delSent => intros; expl_cl stDelSent
  case waitStart => intros; expl_cl stWaitStart
  case waitDone => intros; expl_cl stWaitDone
  case getRead => intros; expl_cl stGetRead
  case getCheck => intros; expl_cl stGetCheck
  case getMetric => intros; expl_cl stGetMetric
  case ttlRead => intros; expl_cl stTtlRead
  case ttlCheck => intros; expl_cl stTtlCheck
  case ttlExp => intros; expl_cl stTtlExp
  case ttlNow => intros; expl_cl stTtlNow
  case ttlUntil => intros; expl_cl stTtlUntil
  case iterStart => intros; expl_cl stIterStart
  case clrStart => intros; expl_cl stClrStart
  case clrEm => intros; expl_cl stClrEm
  case clrMetrics => intros; expl_cl stClrMetrics
  case readMax => intros; expl_cl stReadMax
  case readRem => intros; expl_cl stReadRem
  case updMax =>
    intro m hpc' _
    refine expl_frame h (fun _ => rfl) (fun _ => rfl) rfl (fun _ hc => hc)
      (rA_mono_of (fun _ hne => stUpdMax_cl_ne (hne := hne) ..) (by intro x hx; simp [hpc', CPc.rA] at hx))
      (cls_congr CPc.shardK (fun _ hne => stUpdMax_cl_ne (hne := hne) ..) (by simp [stUpdMax, hpc', CPc.shardK]))
  case waitRecv =>
    intro id hpc' _ hr
    refine expl_frame h (fun _ => by unfold stored; rw [stWaitRecv_store _ _ _ hr])
      (fun _ => by unfold accounted; rw [stWaitRecv_pol _ _ _ hr]) (stWaitRecv_app _ _ _ hr)
      (fun _ hc => by unfold chanTomb at hc ⊢; rw [stWaitRecv_buf _ _ _ hr, stWaitRecv_sendq _ _ _ hr]; exact hc)
      (rA_mono_of (fun _ hne => stWaitRecv_cl_ne _ _ _ hr hne) (by intro x hx; simp [hpc', CPc.rA] at hx))
      (cls_congr CPc.shardK (fun _ hne => stWaitRecv_cl_ne _ _ _ hr hne) ?_)
    unfold stWaitRecv at hr; split at hr
    · simp only [Option.some.injEq] at hr; subst hr; simp [hpc', CPc.shardK]
    · simp at hr
  case getStart =>
    intro h' c hpc' hr
    have hne := (stGetStart_frame hr).1
    have hra : ∀ x, (s.cl t).rA x = true → (s'.cl t).rA x = true := by intro x hx; simp [hpc', CPc.rA] at hx
    rcases stGetStart_cases hr with ⟨_, rfl⟩ | ⟨_, rfl⟩ | ⟨_, kept, n, _, _, rfl⟩
    · exact expl_frame h (fun _ => rfl) (fun _ => rfl) rfl (fun _ hc => hc) (rA_mono_of hne hra)
        (cls_congr CPc.shardK hne (by simp [hpc', CPc.shardK]))
    · exact expl_frame h (fun _ => rfl) (fun _ => rfl) rfl (fun _ hc => hc) (rA_mono_of hne hra)
        (cls_congr CPc.shardK hne (by simp [hpc', CPc.shardK]))
    · exact expl_frame h (fun _ => by simp [stored]) (fun _ => by simp [accounted]) (by simp)
        (fun _ hc => by simpa [chanTomb] using hc) (rA_mono_of hne hra)
        (cls_congr CPc.shardK hne (by simp [hpc', CPc.shardK]))
  case iterShard =>
    intro k n seen hpc' hr
    have hne := (stIterShard_frame hr).1
    have hra : ∀ x, (s.cl t).rA x = true → (s'.cl t).rA x = true := by intro x hx; simp [hpc', CPc.rA] at hx
    obtain ⟨ks, _, _, _, hcase⟩ := stIterShard_cases hr
    rcases hcase with ⟨_, rfl⟩ | ⟨_, rfl⟩
    · exact expl_frame h (fun _ => rfl) (fun _ => rfl) rfl (fun _ hc => hc) (rA_mono_of hne hra)
        (cls_congr CPc.shardK hne (by simp [hpc', CPc.shardK]))
    · exact expl_frame h (fun _ => rfl) (fun _ => rfl) rfl (fun _ hc => hc) (rA_mono_of hne hra)
        (cls_congr CPc.shardK hne (by simp [hpc', CPc.shardK]))
  case setUpd => intro i hpc' _; exact hpc i hpc'
  case setSend => intro i hpc' _; exact hpc2 i hpc'
  case delStart => intro h' c hpc' _; exact hpc3 h' c hpc'
  case delSend => intro h' c hpc' _; exact hpc4 h' c hpc'
  case waitSend => intro hpc' _; exact hpc5 hpc'
  case clrDrain => intro b hpc' _; exact hpc6 b hpc'
  case clrPolicy => intro b hpc' _; exact hpc7 b hpc'
  case clrShard => intro b k hpc' hr; exact hpc8 b k hpc' hr
  case clrRestart => intro b hpc' _; exact hpc9 b hpc'
  case clsFinish => intro hpc' _; exact hpc10 hpc'
end client

/-- The map loses keys, the accounting keeps its key set. -/
theorem expl_shrink {s s' : State} (h : Expl s) (hsub : ∀ x, stored s' x = true → stored s x = true)
    (hpol : ∀ x, accounted s' x = accounted s x)
    (hnew : ∀ x, stored s x = true → stored s' x = false → accounted s x = true → ReasonA s' x)
    (hA : ∀ x, ReasonA s x → ReasonA s' x ∨ accounted s' x = false ∨ stored s' x = true)
    (hB : ∀ x, ReasonB s x → ReasonB s' x ∨ stored s' x = false)
    (hK : ∀ t k, (s'.cl t).shardK = some k → (s.cl t).shardK = some k)
    (hvt : ∀ x, s'.app.rB x = true → s.app.rB x = true)
    (hd : ∀ i vs, s'.app = .added i vs true → s.app = .added i vs true)
    (hsw : ∀ now k c expr v bs, s'.app = .swStoreDel now k c expr v bs →
      s.app = .swStoreDel now k c expr v bs ∨ stored s' k = false) : Expl s' := by
  have hsub' : ∀ x, stored s x = false → stored s' x = false := by
    intro x hx
    cases h1 : stored s' x
    · rfl
    · rw [hsub x h1] at hx; cases hx
  refine ⟨?_, ?_, ?_, ?_, ?_, ?_⟩
  · intro x ha hs
    cases h1 : stored s x
    · rcases hA x (h.ea x (by rw [← hpol]; exact ha) h1) with h2 | h2 | h2
      · exact h2
      · rw [h2] at ha; cases ha
      · rw [h2] at hs; cases hs
    · exact hnew x h1 hs (by rw [← hpol]; exact ha)
  · intro x hs ha
    rcases hB x (h.eb x (hsub x hs) (by rw [← hpol]; exact ha)) with h2 | h2
    · exact h2
    · rw [h2] at hs; cases hs
  · intro t k hk x hx
    exact hsub' x (h.w t k (hK t k hk) x hx)
  · intro x hx
    rw [hpol]; exact h.vt x (hvt x hx)
  · intro i vs hi
    rw [hpol]; exact h.d i vs (hd i vs hi)
  · intro now k c expr v bs hi
    rcases hsw now k c expr v bs hi with h1 | h1
    · exact hsub' k (h.sw now k c expr v bs h1)
    · exact h1

section client2
variable {conf : Hash → Conf} {cfg : Cfg} {s : State} {t : Tid}

theorem expl_setUpd (h : Expl s) {i : Item} (hpc : s.cl t = .setUpd i) : Expl (stSetUpd cfg s t i) := by
  refine expl_frame h (fun x => ?_) (fun _ => by unfold accounted; rw [stSetUpd_pol]) (by rw [stSetUpd_app])
    (fun _ hc => by unfold chanTomb at hc ⊢; rw [stSetUpd_buf, stSetUpd_sendq]; exact hc)
    (rA_mono_of (fun _ hne => stSetUpd_cl_ne (hne := hne) ..) (by intro x hx; simp [hpc, CPc.rA] at hx))
    (cls_congr CPc.shardK (fun _ hne => stSetUpd_cl_ne (hne := hne) ..) ?_)
  · unfold stored stSetUpd; dsimp only
    split <;> exact storeUpdate_isSome cfg s.store s.em i x
  · unfold stSetUpd; dsimp only; split <;> simp [hpc, CPc.shardK]

theorem expl_setSend (h : Expl s) {i : Item} (hpc : s.cl t = .setSend i) : Expl (stSetSend cfg s t i) := by
  have hra : ∀ x, (s.cl t).rA x = true → ((stSetSend cfg s t i).cl t).rA x = true := by
    intro x hx; simp [hpc, CPc.rA] at hx
  refine expl_frame h (fun _ => by unfold stored; rw [stSetSend_store]) (fun _ => by unfold accounted; rw [stSetSend_pol])
    (by rw [stSetSend_app]) ?_ (rA_mono_of (fun _ hne => stSetSend_cl_ne (hne := hne) ..) hra)
    (cls_congr CPc.shardK (fun _ hne => stSetSend_cl_ne (hne := hne) ..) ?_)
  · intro x hc
    unfold stSetSend; split
    · exact chanTomb_append_buf (.item i) hc
    · exact hc
  · unfold stSetSend; split <;> simp [hpc, CPc.shardK]

theorem sendBlocking_chan {s : State} (t : Tid) (e : BufElem) (sent blocked : CPc) {x : Hash}
    (hc : chanTomb s x = true ∨ e.isTomb x = true) : chanTomb (sendBlocking cfg s t e sent blocked) x = true := by
  unfold sendBlocking chanTomb at *
  split
  · simp only [setCl_buf, setCl_sendq, List.any_append, List.any_cons, List.any_nil, Bool.or_false, Bool.or_eq_true] at hc ⊢
    rcases hc with (hc | hc) | hc
    · exact Or.inl (Or.inl hc)
    · exact Or.inr hc
    · exact Or.inl (Or.inr hc)
  · simp only [setCl_buf, setCl_sendq, List.any_append, List.any_cons, List.any_nil, Bool.or_false, Bool.or_eq_true] at hc ⊢
    rcases hc with (hc | hc) | hc
    · exact Or.inl hc
    · exact Or.inr (Or.inl hc)
    · exact Or.inr (Or.inr hc)

theorem sendBlocking_cl_ne' (s : State) (t : Tid) (e : BufElem) (sent blocked : CPc) {t' : Tid} (hne : t' ≠ t) :
    (sendBlocking cfg s t e sent blocked).cl t' = s.cl t' := by
  unfold sendBlocking; split <;> simp [setCl_cl_ne _ _ _ hne]

theorem sendBlocking_store (s : State) (t : Tid) (e : BufElem) (sent blocked : CPc) :
    (sendBlocking cfg s t e sent blocked).store = s.store := by unfold sendBlocking; split <;> rfl
theorem sendBlocking_pol (s : State) (t : Tid) (e : BufElem) (sent blocked : CPc) :
    (sendBlocking cfg s t e sent blocked).pol = s.pol := by unfold sendBlocking; split <;> rfl
theorem sendBlocking_app (s : State) (t : Tid) (e : BufElem) (sent blocked : CPc) :
    (sendBlocking cfg s t e sent blocked).app = s.app := by unfold sendBlocking; split <;> rfl

/-- a blocking send: the sender's own excuse (if any) is taken over by the element now in the channel -/
theorem expl_sendBlocking (h : Expl s) (e : BufElem) (sent blocked : CPc)
    (hra : ∀ x, (s.cl t).rA x = true → e.isTomb x = true) (hk0 : (s.cl t).shardK = none)
    (hk1 : sent.shardK = none) (hk2 : blocked.shardK = none) : Expl (sendBlocking cfg s t e sent blocked) := by
  have hst : ∀ x, stored (sendBlocking cfg s t e sent blocked) x = stored s x := fun _ => by unfold stored; rw [sendBlocking_store]
  have hpol : ∀ x, accounted (sendBlocking cfg s t e sent blocked) x = accounted s x := fun _ => by unfold accounted; rw [sendBlocking_pol]
  have happ := sendBlocking_app (cfg := cfg) s t e sent blocked
  have hK : ∀ t', ((sendBlocking cfg s t e sent blocked).cl t').shardK = (s.cl t').shardK := by
    refine cls_congr CPc.shardK (fun _ hne => sendBlocking_cl_ne' s t e sent blocked hne) ?_
    rw [hk0]; unfold sendBlocking; split <;> simp [hk1, hk2]
  refine ⟨?_, ?_, ?_, ?_, ?_, ?_⟩
  · intro x ha hs
    rw [hpol] at ha; rw [hst] at hs
    rcases h.ea x ha hs with ⟨t', ht'⟩ | h1 | h1
    · by_cases e' : t' = t
      · subst e'; exact Or.inr (Or.inr (sendBlocking_chan t' e sent blocked (Or.inr (hra x ht'))))
      · exact Or.inl ⟨t', by rw [sendBlocking_cl_ne' s t e sent blocked e']; exact ht'⟩
    · exact Or.inr (Or.inl (by rw [happ]; exact h1))
    · exact Or.inr (Or.inr (sendBlocking_chan t e sent blocked (Or.inl h1)))
  · intro x hs ha
    rw [hpol] at ha; rw [hst] at hs
    exact reasonB_mono hK (fun h1 => by rw [happ]; exact h1) (h.eb x hs ha)
  · intro t' k hk x hx
    rw [hst]; rw [hK] at hk; exact h.w t' k hk x hx
  · intro x hx
    rw [happ] at hx; rw [hpol]; exact h.vt x hx
  · intro i vs hi
    rw [happ] at hi; rw [hpol]; exact h.d i vs hi
  · intro now k c expr v bs hi
    rw [happ] at hi; rw [hst]; exact h.sw now k c expr v bs hi

theorem expl_delSend (h : Expl s) {h0 : Hash} {c : Conf} (hpc : s.cl t = .delSend h0 c) :
    Expl (stDelSend cfg s t h0 c) := by
  unfold stDelSend
  refine expl_sendBlocking h _ _ _ ?_ (by simp [hpc, CPc.shardK]) rfl rfl
  intro x hx
  simpa [hpc, CPc.rA, BufElem.isTomb] using hx

theorem expl_waitSend (h : Expl s) (hpc : s.cl t = .waitSend) : Expl (stWaitSend cfg s t) := by
  unfold stWaitSend
  have hb : Expl { s with nextMarker := s.nextMarker + 1 } := ⟨h.ea, h.eb, h.w, h.vt, h.d, h.sw⟩
  refine expl_sendBlocking hb _ _ _ ?_ (by simp [hpc, CPc.shardK]) rfl rfl
  intro x hx
  simp [hpc, CPc.rA] at hx

theorem expl_delStart (h : Expl s) {h0 : Hash} {c : Conf} (hpc : s.cl t = .delStart h0 c) :
    Expl (stDelStart s t h0 c) := by
  have hra : ∀ (pc' : CPc) x, (s.cl t).rA x = true → pc'.rA x = true := by intro pc' x hx; simp [hpc, CPc.rA] at hx
  unfold stDelStart
  split
  · exact expl_frame h (fun _ => rfl) (fun _ => rfl) rfl (fun _ hc => hc)
      (rA_mono_of (fun _ hne => setCl_cl_ne _ _ _ hne) (by simpa using hra _))
      (cls_congr (t := t) CPc.shardK (fun _ hne => setCl_cl_ne _ _ _ hne) (by simp [hpc, CPc.shardK]))
  · have hrA := rA_mono_of (s := s)
      (s' := setCl { s with store := (storeDel s.store s.em h0 c).1, em := (storeDel s.store s.em h0 c).2.1 } t
        (.delExit h0 c (storeDel s.store s.em h0 c).2.2.2)) (t := t) (fun _ hne => setCl_cl_ne _ _ _ hne)
      (by simpa using hra _)
    have hK : ∀ t', ((setCl { s with store := (storeDel s.store s.em h0 c).1, em := (storeDel s.store s.em h0 c).2.1 } t
        (.delExit h0 c (storeDel s.store s.em h0 c).2.2.2)).cl t').shardK = (s.cl t').shardK :=
      cls_congr (t := t) CPc.shardK (fun _ hne => setCl_cl_ne _ _ _ hne) (by simp [hpc, CPc.shardK])
    refine expl_shrink h ?_ (fun _ => rfl) ?_ ?_ ?_ (fun t' k hk => by rw [← hK]; exact hk) (fun _ hx => hx)
      (fun _ _ hi => hi) (fun _ _ _ _ _ _ hi => Or.inl hi)
    · intro x hx
      unfold stored at hx ⊢
      simp only [setCl_store] at hx
      cases hl : (storeDel s.store s.em h0 c).1.lookup x with
      | none => rw [hl] at hx; cases hx
      | some e => rw [storeDel_sub _ _ _ _ hl]; rfl
    · intro x h1 h2 _
      have hx : x = h0 := by
        apply Classical.byContradiction
        intro hne
        unfold stored at h1 h2
        simp only [setCl_store] at h2
        rw [storeDel_lookup_ne _ _ _ _ hne] at h2
        rw [h1] at h2; cases h2
      exact Or.inl ⟨t, by simp [hx, CPc.rA]⟩
    · intro x hr
      exact Or.inl (reasonA_mono (hrA x) (fun h1 => Or.inl h1) (fun h1 => Or.inl h1) hr)
    · intro x hr
      exact Or.inl (reasonB_mono hK (fun h1 => h1) hr)

end client2

/-- Map and accounting keep their key sets; reasons persist (given directly). -/
theorem expl_same {s s' : State} (h : Expl s) (hst : ∀ x, stored s' x = stored s x)
    (hpol : ∀ x, accounted s' x = accounted s x)
    (hA : ∀ x, ReasonA s x → ReasonA s' x) (hB : ∀ x, ReasonB s x → ReasonB s' x)
    (hK : ∀ t k, (s'.cl t).shardK = some k → (s.cl t).shardK = some k)
    (hvt : ∀ x, s'.app.rB x = true → s.app.rB x = true)
    (hd : ∀ i vs, s'.app = .added i vs true → s.app = .added i vs true)
    (hsw : ∀ now k c expr v bs, s'.app = .swStoreDel now k c expr v bs → s.app = .swStoreDel now k c expr v bs) :
    Expl s' :=
  expl_shrink h (fun x hx => by rw [← hst]; exact hx) hpol
    (fun x h1 h2 _ => by rw [hst, h1] at h2; cases h2) (fun x hr => Or.inl (hA x hr)) (fun x hr => Or.inl (hB x hr))
    hK hvt hd (fun now k c expr v bs hi => Or.inl (hsw now k c expr v bs hi))

theorem shardIdx_lt (x : Hash) : shardIdx x < 256 := by
  unfold shardIdx shardOf
  rw [BitVec.toNat_umod]
  exact Nat.mod_lt _ (by decide)

section clear
variable {cfg : Cfg} {s : State} {t : Tid}

theorem expl_clrDrain (h : Expl s) {closing : Bool} (hpc : s.cl t = .clrDrain closing) :
    Expl (stClrDrain s t closing) := by
  -- in every outcome thread `t` is still between the handshake and `policy.Clear`
  have key : ∀ s' : State, (∀ x, stored s' x = stored s x) → (∀ x, accounted s' x = accounted s x) → s'.app = s.app →
      (∀ t', (s'.cl t').shardK = (s.cl t').shardK) → (∀ x, (s'.cl t).rA x = true) → Expl s' := by
    intro s' hst hpol happ hK ht
    exact expl_same h hst hpol (fun x _ => Or.inl ⟨t, ht x⟩) (fun x hr => reasonB_mono hK (fun h1 => by rw [happ]; exact h1) hr)
      (fun t' k hk => by rw [← hK]; exact hk) (fun x hx => by rw [← happ]; exact hx)
      (fun i vs hi => by rw [← happ]; exact hi) (fun now k c expr v bs hi => by rw [← happ]; exact hi)
  have hrecv : ∀ {x : BufElem} {s1 : State}, recvBuf s = some (x, s1) → ∀ x', (s1.cl t).rA x' = true := by
    intro x s1 hr x'
    rcases recvBuf_cl hr t with e | e <;> rw [e] <;> simp [hpc, CPc.rA, unblockedPc]
  rcases stClrDrain_cases s t closing with ⟨_, e⟩ | ⟨id, s1, hr, e⟩ | ⟨i, s1, hr, _, e⟩ | ⟨i, s1, hr, _, e⟩ <;> rw [e]
  · exact key _ (fun _ => rfl) (fun _ => rfl) rfl
      (cls_congr (t := t) CPc.shardK (fun _ hne => setCl_cl_ne _ _ _ hne) (by simp [hpc, CPc.shardK]))
      (fun x => by simp [CPc.rA])
  · exact key _ (fun _ => by simp [stored, recvBuf_store hr]) (fun _ => by simp [accounted, recvBuf_pol hr])
      (by simp [recvBuf_app hr]) (cls_recv (s1 := s1) _ unblockedPc_shardK hr) (hrecv (s1 := s1) hr)
  · exact key _ (fun _ => by simp [stored, recvBuf_store hr]) (fun _ => by simp [accounted, recvBuf_pol hr])
      (by simp [recvBuf_app hr]) (by simpa using cls_recv (s1 := s1) _ unblockedPc_shardK hr) (by simpa using hrecv (s1 := s1) hr)
  · exact key _ (fun _ => by simp [stored, recvBuf_store hr]) (fun _ => by simp [accounted, recvBuf_pol hr])
      (recvBuf_app hr) (cls_recv (s1 := s1) _ unblockedPc_shardK hr) (hrecv hr)

theorem expl_clrPolicy (hh : Handshake s) (h : Expl s) {closing : Bool} (hpc : s.cl t = .clrPolicy closing) :
    Expl (stClrPolicy s t closing) := by
  have hdead : s.app = .dead := hh.busy t (by simp [hpc, CPc.busy])
  have hacc : ∀ x, accounted (stClrPolicy s t closing) x = false := fun x => by simp [accounted, stClrPolicy]
  refine ⟨?_, ?_, ?_, ?_, ?_, ?_⟩
  · intro x ha; rw [hacc] at ha; cases ha
  · intro x _ _
    exact Or.inl ⟨t, 0, by simp [stClrPolicy, CPc.shardK], Nat.zero_le _⟩
  · intro t' k hk x hx
    by_cases e : t' = t
    · subst e
      simp [stClrPolicy, CPc.shardK] at hk
      omega
    · rw [stClrPolicy_cl_ne _ _ _ e] at hk
      exact h.w t' k hk x hx
  · intro x _; exact hacc x
  · intro i vs hi
    rw [stClrPolicy_app, hdead] at hi; cases hi
  · intro now k c expr v bs hi
    rw [stClrPolicy_app, hdead] at hi; cases hi

theorem expl_clrShard (hh : Handshake s) (ha : Acct cfg s) (h : Expl s) {closing : Bool} {k : Nat} {ch : Choice}
    {s' : State} (hpc : s.cl t = .clrShard closing k) (hr : stClrShard s t closing k ch = some s') : Expl s' := by
  obtain ⟨ks, _, hk, ho, rfl⟩ := stClrShard_cases hr
  have hdead : s.app = .dead := hh.busy t (by simp [hpc, CPc.busy])
  have hempty : ∀ x, accounted s x = false := by
    intro x
    have := (ha.win ⟨t, by simp [hpc, CPc.inWin]⟩).1
    simp [accounted, this]
  have hst : ∀ x, stored (setCl { evictAll s s.store ks with store := eraseAll (evictAll s s.store ks).store ks } t
      (if k + 1 = numShards.toNat then .clrEm closing else .clrShard closing (k + 1))) x =
      (if x ∈ ks then false else stored s x) := by
    intro x
    simp only [stored, setCl_store, evictAll_store, eraseAll_lookup]
    split <;> rfl
  have hacc : ∀ x, accounted (setCl { evictAll s s.store ks with store := eraseAll (evictAll s s.store ks).store ks } t
      (if k + 1 = numShards.toNat then .clrEm closing else .clrShard closing (k + 1))) x = false := by
    intro x
    simp only [accounted, setCl_pol, evictAll_pol]
    exact hempty x
  have happ : (setCl { evictAll s s.store ks with store := eraseAll (evictAll s s.store ks).store ks } t
      (if k + 1 = numShards.toNat then .clrEm closing else .clrShard closing (k + 1))).app = .dead := by
    simp only [setCl_app, evictAll_app]; exact hdead
  have h256 : numShards.toNat = 256 := by decide
  refine ⟨?_, ?_, ?_, ?_, ?_, ?_⟩
  · intro x hax; rw [hacc] at hax; cases hax
  · intro x hs _
    rw [hst] at hs
    split at hs
    · cases hs
    · rename_i hnot
      -- `x` is stored, not in shard `k`, and was excused by the cursor
      have hidx : shardIdx x ≠ k := fun e => hnot (isShardOrder_mem ho hs e)
      rcases h.eb x hs (hempty x) with ⟨t', k', hk', hle⟩ | hb
      · by_cases e : t' = t
        · subst e
          rw [hpc] at hk'
          simp only [CPc.shardK, Option.some.injEq] at hk'
          have hlt := shardIdx_lt x
          refine Or.inl ⟨t', k + 1, ?_, by omega⟩
          simp only [setCl_cl_self]
          rw [if_neg (by omega)]
          rfl
        · exact Or.inl ⟨t', k', by simp only [setCl_cl_ne _ _ _ e, evictAll_cl]; exact hk', hle⟩
      · rw [hdead] at hb; cases hb
  · intro t' k' hk' x hx
    rw [hst]
    split
    · rfl
    · rename_i hnot
      by_cases e : t' = t
      · subst e
        simp only [setCl_cl_self] at hk'
        split at hk'
        · cases hk'
        · simp only [CPc.shardK, Option.some.injEq] at hk'
          subst hk'
          by_cases hlt : shardIdx x < k
          · exact h.w t' k (by rw [hpc]; rfl) x hlt
          · have hidx : shardIdx x = k := by omega
            cases hs : stored s x
            · rfl
            · exact absurd (isShardOrder_mem ho hs hidx) hnot
      · simp only [setCl_cl_ne _ _ _ e, evictAll_cl] at hk'
        exact h.w t' k' hk' x hx
  · intro x _; exact hacc x
  · intro i vs hi; rw [happ] at hi; cases hi
  · intro now k' c expr v bs hi; rw [happ] at hi; cases hi

theorem expl_clrRestart (hh : Handshake s) (h : Expl s) {closing : Bool} (hpc : s.cl t = .clrRestart closing) :
    Expl (stClrRestart s t closing) := by
  have hdead : s.app = .dead := hh.busy t (by simp [hpc, CPc.busy])
  have happ : (stClrRestart s t closing).app = .idle := by unfold stClrRestart; dsimp only; split <;> rfl
  have hK : ∀ t', ((stClrRestart s t closing).cl t').shardK = (s.cl t').shardK := by
    refine cls_congr CPc.shardK (fun _ hne => stClrRestart_cl_ne (hne := hne) ..) ?_
    unfold stClrRestart; dsimp only; split <;> simp [hpc, CPc.shardK]
  have hrA := rA_mono_of (s := s) (s' := stClrRestart s t closing) (t := t)
    (fun _ hne => stClrRestart_cl_ne (hne := hne) ..) (by intro x hx; simp [hpc, CPc.rA] at hx)
  refine expl_same h (fun _ => by unfold stored; rw [stClrRestart_store]) (fun _ => by unfold accounted; rw [stClrRestart_pol])
    ?_ ?_ (fun t' k hk => by rw [← hK]; exact hk) ?_ ?_ ?_
  · intro x hr
    refine reasonA_mono (hrA x) (fun h1 => by rw [hdead] at h1; cases h1) (fun h1 => Or.inl ?_) hr
    unfold chanTomb at h1 ⊢; rw [stClrRestart_buf, stClrRestart_sendq]; exact h1
  · intro x hr
    exact reasonB_mono hK (fun h1 => by rw [hdead] at h1; cases h1) hr
  · intro x hx; rw [happ] at hx; cases hx
  · intro i vs hi; rw [happ] at hi; cases hi
  · intro now k c expr v bs hi; rw [happ] at hi; cases hi

theorem expl_clsFinish (hh : Handshake s) (h : Expl s) (hpc : s.cl t = .clsFinish) : Expl (stClsFinish s t) := by
  have hdead : s.app = .dead := hh.busy t (by simp [hpc, CPc.busy])
  have happ : (stClsFinish s t).app = .dead := rfl
  have hK : ∀ t', ((stClsFinish s t).cl t').shardK = (s.cl t').shardK :=
    cls_congr CPc.shardK (fun _ hne => stClsFinish_cl_ne (hne := hne) ..) (by simp [stClsFinish, hpc, CPc.shardK])
  have hrA := rA_mono_of (s := s) (s' := stClsFinish s t) (t := t)
    (fun _ hne => stClsFinish_cl_ne (hne := hne) ..) (by intro x hx; simp [hpc, CPc.rA] at hx)
  refine expl_same h (fun _ => rfl) (fun _ => rfl) ?_ ?_ (fun t' k hk => by rw [← hK]; exact hk) ?_ ?_ ?_
  · intro x hr
    exact reasonA_mono (hrA x) (fun h1 => by rw [hdead] at h1; cases h1) (fun h1 => Or.inl h1) hr
  · intro x hr
    exact reasonB_mono hK (fun h1 => by rw [hdead] at h1; cases h1) hr
  · intro x hx; rw [happ] at hx; cases hx
  · intro i vs hi; rw [happ] at hi; cases hi
  · intro now k c expr v bs hi; rw [happ] at hi; cases hi

end clear

/-- The accounting changes its key set, the map keeps its own. -/
theorem expl_pol {s s' : State} (h : Expl s) (hst : ∀ x, stored s' x = stored s x)
    (hea : ∀ x, accounted s' x = true → stored s x = false →
      (accounted s x = true ∧ (ReasonA s x → ReasonA s' x)) ∨ ReasonA s' x)
    (heb : ∀ x, stored s x = true → accounted s' x = false →
      (accounted s x = false ∧ (ReasonB s x → ReasonB s' x)) ∨ ReasonB s' x)
    (hK : ∀ t k, (s'.cl t).shardK = some k → (s.cl t).shardK = some k)
    (hvt : ∀ x, s'.app.rB x = true → accounted s' x = false)
    (hd : ∀ i vs, s'.app = .added i vs true → accounted s' i.key = true)
    (hsw : ∀ now k c expr v bs, s'.app = .swStoreDel now k c expr v bs → stored s k = false) : Expl s' := by
  refine ⟨?_, ?_, ?_, hvt, hd, ?_⟩
  · intro x ha hs
    rw [hst] at hs
    rcases hea x ha hs with ⟨h1, h2⟩ | h1
    · exact h2 (h.ea x h1 hs)
    · exact h1
  · intro x hs ha
    rw [hst] at hs
    rcases heb x hs ha with ⟨h1, h2⟩ | h1
    · exact h2 (h.eb x hs h1)
    · exact h1
  · intro t k hk x hx
    rw [hst]; exact h.w t k (hK t k hk) x hx
  · intro now k c expr v bs hi
    rw [hst]; exact hsw now k c expr v bs hi

theorem afterVictims_rB (vs : List (Hash × Int)) (x : Hash) : (afterVictims vs).rB x = vs.any (·.1 == x) := by
  unfold afterVictims
  split
  · rename_i he
    have : vs = [] := by simpa using he
    subst this; rfl
  · rfl

theorem afterVictims_rA (vs : List (Hash × Int)) (x : Hash) : (afterVictims vs).rA x = false := by
  unfold afterVictims; split <;> rfl

theorem afterVictims_ne_added (vs : List (Hash × Int)) (i : Item) (vs' : List (Hash × Int)) (b : Bool) :
    afterVictims vs ≠ .added i vs' b := by
  unfold afterVictims; split <;> intro h <;> cases h

theorem afterVictims_ne_sw (vs : List (Hash × Int)) now k c expr v bs :
    afterVictims vs ≠ .swStoreDel now k c expr v bs := by
  unfold afterVictims; split <;> intro h <;> cases h

section applier
variable {conf : Hash → Conf} {cfg : Cfg} {s : State}

/-- applier steps that only move the applier's pc between pcs whose excuses are given -/
theorem expl_app_only {s' : State} (h : Expl s) (hst : ∀ x, stored s' x = stored s x)
    (hpol : ∀ x, accounted s' x = accounted s x) (hcl : s'.cl = s.cl)
    (hA : ∀ x, s.app.rA x = true ∨ chanTomb s x = true → s'.app.rA x = true ∨ chanTomb s' x = true)
    (hB : ∀ x, s'.app.rB x = s.app.rB x)
    (hd : ∀ i vs, s'.app ≠ .added i vs true) (hsw : ∀ now k c expr v bs, s'.app ≠ .swStoreDel now k c expr v bs) :
    Expl s' := by
  refine expl_same h hst hpol ?_ ?_ (fun t k hk => by rw [← hcl]; exact hk) (fun x hx => by rw [← hB]; exact hx)
    (fun i vs hi => absurd hi (hd i vs)) (fun now k c expr v bs hi => absurd hi (hsw now k c expr v bs))
  · intro x hr
    rcases hr with ⟨t, ht⟩ | h1 | h1
    · exact Or.inl ⟨t, by rw [hcl]; exact ht⟩
    · exact Or.inr (hA x (Or.inl h1))
    · exact Or.inr (hA x (Or.inr h1))
  · intro x hr
    rcases hr with ⟨t, k, ht, hk⟩ | h1
    · exact Or.inl ⟨t, k, by rw [hcl]; exact ht, hk⟩
    · exact Or.inr (by rw [hB]; exact h1)

/-- a receive by the applier -/
theorem expl_recv {s1 : State} {e : BufElem} (h : Expl s) (hidle : s.app = .idle) (hr : recvBuf s = some (e, s1))
    (pc : APc) (hpcA : ∀ x, e.isTomb x = true → pc.rA x = true) (hpcB : ∀ x, pc.rB x = false)
    (hd : ∀ i vs, pc ≠ .added i vs true) (hsw : ∀ now k c expr v bs, pc ≠ .swStoreDel now k c expr v bs) :
    Expl { s1 with app := pc } := by
  refine expl_same h (fun _ => by simp [stored, recvBuf_store hr]) (fun _ => by simp [accounted, recvBuf_pol hr])
    ?_ ?_ (fun t k hk => by rw [← cls_recv (s1 := s1) _ unblockedPc_shardK hr t]; exact hk)
    (fun x hx => by rw [hpcB] at hx; cases hx) (fun i vs hi => absurd hi (hd i vs))
    (fun now k c expr v bs hi => absurd hi (hsw now k c expr v bs))
  · intro x hr'
    rcases hr' with ⟨t, ht⟩ | h1 | h1
    · exact Or.inl ⟨t, by rw [cls_recv (s1 := s1) (fun pc => pc.rA x) (unblockedPc_rA x) hr t]; exact ht⟩
    · rw [hidle] at h1; cases h1
    · rcases chanTomb_recv hr h1 with h2 | h2
      · exact Or.inr (Or.inl (hpcA x h2))
      · exact Or.inr (Or.inr h2)
  · intro x hr'
    rcases hr' with ⟨t, k, ht, hk⟩ | h1
    · exact Or.inl ⟨t, k, by rw [cls_recv (s1 := s1) _ unblockedPc_shardK hr t]; exact ht, hk⟩
    · rw [hidle] at h1; cases h1

theorem expl_apIdle {s' : State} {ch : Choice} (h : Expl s) (hidle : s.app = .idle) (hr : apIdle s ch = some s') :
    Expl s' := by
  rcases apIdle_cases hr with ⟨id, s1, _, hrecv, rfl⟩ | ⟨i, s1, _, hrecv, rfl⟩ | ⟨_, rfl⟩ | ⟨t, _, hstop⟩
  · exact expl_recv h hidle hrecv _ (fun x hx => by simp [BufElem.isTomb] at hx) (fun _ => rfl)
      (fun _ _ hc => by cases hc) (fun _ _ _ _ _ _ hc => by cases hc)
  · exact expl_recv h hidle hrecv _ (fun x hx => by simpa [BufElem.isTomb, APc.rA] using hx) (fun _ => rfl)
      (fun _ _ hc => by cases hc) (fun _ _ _ _ _ _ hc => by cases hc)
  · exact expl_app_only h (fun _ => rfl) (fun _ => rfl) rfl
      (fun x hx => by rw [hidle] at hx; rcases hx with h1 | h1; cases h1; exact Or.inr h1)
      (fun _ => by rw [hidle]; rfl) (fun _ _ hc => by cases hc) (fun _ _ _ _ _ _ hc => by cases hc)
  · have key : ∀ pc', pc'.rA = (fun _ => false) → pc'.shardK = none → (s.cl t).shardK = none →
        (∀ x, (s.cl t).rA x = false) → Expl (setCl { s with app := .stopAck } t pc') := by
      intro pc' h1 h2 h3 h4
      have hK : ∀ t', ((setCl { s with app := .stopAck } t pc').cl t').shardK = (s.cl t').shardK :=
        cls_congr (t := t) CPc.shardK (fun _ hne => setCl_cl_ne _ _ _ hne) (by simp [h2, h3])
      refine expl_same h (fun _ => rfl) (fun _ => rfl) ?_ ?_ (fun t' k hk => by rw [← hK]; exact hk)
        (fun x hx => by cases hx) (fun _ _ hc => by cases hc) (fun _ _ _ _ _ _ hc => by cases hc)
      · intro x hr'
        refine reasonA_mono (s := s) (rA_mono_of (s := s) (t := t) (fun _ hne => setCl_cl_ne _ _ _ hne)
          (fun y hy => by rw [h4 y] at hy; cases hy) x) (fun h1 => by rw [hidle] at h1; cases h1) (fun h1 => Or.inl h1) hr'
      · intro x hr'
        exact reasonB_mono (s := s) hK (fun h1 => by rw [hidle] at h1; cases h1) hr'
    rcases apSelStop_cases hstop with ⟨closing, hpc', rfl⟩ | ⟨hpc', rfl⟩
    · exact key _ rfl rfl (by rw [hpc']; rfl) (fun _ => by rw [hpc']; rfl)
    · exact key _ rfl rfl (by rw [hpc']; rfl) (fun _ => by rw [hpc']; rfl)

theorem expl_apCosted {s' : State} {i : Item} {ch : Choice} (h : Expl s) (hpc : s.app = .costed i)
    (hr : apCosted cfg s i ch = some s') : Expl s' := by
  rcases apCosted_cases hr with ⟨vs, added, pm, hf, _, hp, rfl⟩ | ⟨hf, _, rfl⟩ | ⟨hf, _, rfl⟩
  · -- new item: policy.Add
    have hrA0 : ∀ x, s.app.rA x = false := fun x => by rw [hpc]; simp [APc.rA, hf]
    have hrB0 : ∀ x, s.app.rB x = false := fun x => by rw [hpc]; rfl
    -- reasons that do not come from the applier persist
    have keepA : ∀ x, ReasonA s x → ReasonA { s with pol := pm.1, met := pm.2, app := .added i vs added } x := by
      intro x hr'
      exact reasonA_mono (s := s) (fun t ht => ht) (fun h1 => by rw [hrA0] at h1; cases h1) (fun h1 => Or.inl h1) hr'
    have keepB : ∀ x, ReasonB s x → ReasonB { s with pol := pm.1, met := pm.2, app := .added i vs added } x := by
      intro x hr'
      exact reasonB_mono (s := s) (fun _ => rfl) (fun h1 => by rw [hrB0] at h1; cases h1) hr'
    have same : (∀ x, (pm.1.costs.lookup x).isSome = (s.pol.costs.lookup x).isSome) → vs = [] → added = false →
        Expl { s with pol := pm.1, met := pm.2, app := .added i vs added } := by
      intro hacc hv hadd
      subst hv; subst hadd
      exact expl_same h (fun _ => rfl) (fun x => hacc x) keepA keepB (fun _ _ hk => hk)
        (fun x hx => by simp [APc.rB] at hx) (fun _ _ hc => by cases hc) (fun _ _ _ _ _ _ hc => by cases hc)
    have anyT : ∀ x, x ∈ vs.map (·.1) → vs.any (·.1 == x) = true := by
      intro x e2
      simp only [List.mem_map] at e2
      obtain ⟨v, hv, rfl⟩ := e2
      exact List.any_eq_true.mpr ⟨v, hv, by simp⟩
    have anyF : ∀ x, x ∉ vs.map (·.1) → vs.any (·.1 == x) = false := by
      intro x e2
      rw [Bool.eq_false_iff]
      intro hany
      obtain ⟨v, hv, hv2⟩ := List.any_eq_true.mp hany
      exact e2 (List.mem_map.mpr ⟨v, hv, by simpa using hv2⟩)
    -- `accounted` of the post-state is a lookup in `pm.1`
    have hacc0 : ∀ x, accounted { s with pol := pm.1, met := pm.2, app := .added i vs added } x =
        (pm.1.costs.lookup x).isSome := fun _ => rfl
    rcases polAdd_cases hp with ⟨_, hv, ha, hpm⟩ | ⟨_, _, hv, ha, hpm⟩ | ⟨_, hn, _, hv, ha, hpm⟩ |
      ⟨_, hn, _, ha, _, _, hvic, hpm⟩ | ⟨_, hn, _, ha, hvic, hpm⟩
    · exact same (fun _ => by rw [hpm]) hv ha
    · exact same (fun x => by rw [hpm]; exact polUpdate_lookup _ _ _ _ _ x) hv ha
    · -- fits: the key becomes accounted
      subst hv; subst ha
      have hacc : ∀ x, (pm.1.costs.lookup x).isSome = (decide (x = i.key) || accounted s x) := by
        intro x
        rw [hpm]
        simp only [accounted, polAddKey, AMap.lookup_insert]
        by_cases e : x = i.key <;> simp [e]
      refine expl_pol h (fun _ => rfl) ?_ ?_ (fun _ _ hk => hk) (fun x hx => by simp [APc.rB] at hx) ?_
        (fun _ _ _ _ _ _ hc => by cases hc)
      · intro x hax hs
        rw [hacc0, hacc] at hax
        by_cases e : x = i.key
        · exact Or.inr (Or.inr (Or.inl (by simp [APc.rA, e])))
        · exact Or.inl ⟨by simpa [e] using hax, keepA x⟩
      · intro x hs hax
        rw [hacc0, hacc] at hax
        exact Or.inl ⟨by simp at hax; exact hax.2, keepB x⟩
      · intro i' vs' hi
        simp only [APc.added.injEq] at hi
        rw [hacc0, hacc, ← hi.1]; simp
    · -- victims evicted, newcomer admitted
      subst ha
      have hacc : ∀ x, (pm.1.costs.lookup x).isSome =
          (decide (x = i.key) || (!(vs.any (·.1 == x)) && accounted s x)) := by
        intro x
        rw [hpm]
        simp only [accounted, polAddKey, AMap.lookup_insert, polDelAll_lookup]
        by_cases e : x = i.key
        · simp [e]
        · by_cases e2 : x ∈ vs.map (·.1)
          · rw [anyT x e2]; simp [e, e2]
          · rw [anyF x e2]; simp [e, e2]
      have hkv : vs.any (·.1 == i.key) = false := by
        rw [Bool.eq_false_iff]
        intro hany
        obtain ⟨v, hv, hv2⟩ := List.any_eq_true.mp hany
        have := hvic v hv
        have e : v.1 = i.key := by simpa using hv2
        rw [e, hn] at this; cases this
      refine expl_pol h (fun _ => rfl) ?_ ?_ (fun _ _ hk => hk) ?_ ?_ (fun _ _ _ _ _ _ hc => by cases hc)
      · intro x hax hs
        rw [hacc0, hacc] at hax
        by_cases e : x = i.key
        · exact Or.inr (Or.inr (Or.inl (by simp [APc.rA, e])))
        · exact Or.inl ⟨by simp [e] at hax; exact hax.2, keepA x⟩
      · intro x hs hax
        rw [hacc0, hacc] at hax
        simp only [Bool.or_eq_false_iff, Bool.and_eq_false_iff, Bool.not_eq_false'] at hax
        rcases hax.2 with h1 | h1
        · exact Or.inr (Or.inr (by simpa [APc.rB] using h1))
        · exact Or.inl ⟨h1, keepB x⟩
      · intro x hx
        have hx' : vs.any (·.1 == x) = true := by simpa [APc.rB] using hx
        rw [hacc0, hacc, hx']
        have : x ≠ i.key := by
          intro e; rw [e, hkv] at hx'; cases hx'
        simp [this]
      · intro i' vs' hi
        simp only [APc.added.injEq] at hi
        rw [hacc0, hacc, ← hi.1]; simp
    · -- victims evicted, newcomer rejected
      subst ha
      have hacc : ∀ x, (pm.1.costs.lookup x).isSome = (!(vs.any (·.1 == x)) && accounted s x) := by
        intro x
        rw [hpm]
        simp only [accounted, polDelAll_lookup]
        by_cases e2 : x ∈ vs.map (·.1)
        · rw [anyT x e2]; simp [e2]
        · rw [anyF x e2]; simp [e2]
      refine expl_pol h (fun _ => rfl) ?_ ?_ (fun _ _ hk => hk) ?_ (fun _ _ hc => by cases hc)
        (fun _ _ _ _ _ _ hc => by cases hc)
      · intro x hax hs
        rw [hacc0, hacc] at hax
        exact Or.inl ⟨by simp at hax; exact hax.2, keepA x⟩
      · intro x hs hax
        rw [hacc0, hacc] at hax
        simp only [Bool.and_eq_false_iff, Bool.not_eq_false'] at hax
        rcases hax with h1 | h1
        · exact Or.inr (Or.inr (by simpa [APc.rB] using h1))
        · exact Or.inl ⟨h1, keepB x⟩
      · intro x hx
        have hx' : vs.any (·.1 == x) = true := by simpa [APc.rB] using hx
        rw [hacc0, hacc, hx']; rfl
  · -- update item: policy.Update keeps the key set
    refine expl_same h (fun _ => rfl) (fun x => polUpdate_lookup _ _ _ _ _ x) ?_ ?_ (fun _ _ hk => hk)
      (fun x hx => by simp [apCostedUpd, APc.rB] at hx) (fun _ _ hc => by simp [apCostedUpd] at hc)
      (fun _ _ _ _ _ _ hc => by simp [apCostedUpd] at hc)
    · intro x hr'
      exact reasonA_mono (s := s) (fun t ht => ht) (fun h1 => by rw [hpc] at h1; simp [APc.rA, hf] at h1) (fun h1 => Or.inl h1) hr'
    · intro x hr'
      exact reasonB_mono (s := s) (fun _ => rfl) (fun h1 => by rw [hpc] at h1; cases h1) hr'
  · -- tombstone: policy.Del
    have hacc : ∀ x, accounted (apCostedDel cfg s i) x = (!decide (x = i.key) && accounted s x) := by
      intro x
      simp only [accounted, apCostedDel, polDel_lookup]
      by_cases e : x = i.key <;> simp [e]
    refine expl_pol h (fun _ => rfl) ?_ ?_ (fun _ _ hk => hk) ?_ (fun _ _ hc => by simp [apCostedDel] at hc)
      (fun _ _ _ _ _ _ hc => by simp [apCostedDel] at hc)
    · intro x hax hs
      rw [hacc] at hax
      simp only [Bool.and_eq_true, Bool.not_eq_true', decide_eq_false_iff_not] at hax
      refine Or.inl ⟨hax.2, fun hr' => ?_⟩
      exact reasonA_mono (s := s) (fun t ht => ht)
        (fun h1 => by rw [hpc] at h1; simp only [APc.rA, Bool.and_eq_true, beq_iff_eq] at h1; exact absurd h1.2.symm hax.1)
        (fun h1 => Or.inl h1) hr'
    · intro x hs hax
      rw [hacc] at hax
      simp only [Bool.and_eq_false_iff, Bool.not_eq_false', decide_eq_true_eq] at hax
      rcases hax with h1 | h1
      · exact Or.inr (Or.inr (by simp [apCostedDel, APc.rB, h1]))
      · exact Or.inl ⟨h1, fun hr' => reasonB_mono (s := s) (fun _ => rfl) (fun h2 => by rw [hpc] at h2; cases h2) hr'⟩
    · intro x hx
      have : i.key = x := by simpa [apCostedDel, APc.rB] using hx
      rw [hacc, ← this]; simp

/-- no `Clear` cursor exists while the applier runs -/
theorem no_cursor (hh : Handshake s) (hrun : s.app ≠ .dead) (t : Tid) : (s.cl t).shardK = none := by
  cases hk : (s.cl t).shardK with
  | none => rfl
  | some k =>
    have hb : (s.cl t).busy = true := by
      cases hpc : s.cl t <;> simp [hpc, CPc.shardK] at hk <;> rfl
    exact absurd (hh.busy t hb) hrun

theorem expl_apAdded (hh : Handshake s) (h : Expl s) {i : Item} {vs : List (Hash × Int)} {ok : Bool}
    (hpc : s.app = .added i vs ok) : Expl (apAdded cfg s i vs ok) := by
  have hK := no_cursor hh (by rw [hpc]; intro hc; cases hc)
  have happ : (apAdded cfg s i vs ok).app = afterVictims vs := by unfold apAdded; split <;> rfl
  have hcl : (apAdded cfg s i vs ok).cl = s.cl := apAdded_cl ..
  have hpol : ∀ x, accounted (apAdded cfg s i vs ok) x = accounted s x := fun _ => by unfold accounted; rw [apAdded_pol]
  have hbuf : ∀ x, chanTomb (apAdded cfg s i vs ok) x = chanTomb s x := fun _ => by
    unfold chanTomb; rw [apAdded_buf, apAdded_sendq]
  have hst : ∀ x, stored (apAdded cfg s i vs ok) x = (stored s x || (ok && decide (x = i.key))) := by
    intro x
    unfold apAdded stored
    split
    · rename_i hok; simp only [metAdd_store, hok, Bool.true_and]; exact storeSet_isSome cfg s.store s.em i x
    · rename_i hok; simp [hok]
  refine ⟨?_, ?_, ?_, ?_, ?_, ?_⟩
  · intro x ha hs
    rw [hpol] at ha; rw [hst] at hs
    simp only [Bool.or_eq_false_iff] at hs
    rcases h.ea x ha hs.1 with ⟨t, ht⟩ | h1 | h1
    · exact Or.inl ⟨t, by rw [hcl]; exact ht⟩
    · -- the applier's own excuse: the newcomer, which is now stored
      rw [hpc] at h1
      cases ok
      · simp [APc.rA] at h1
      · have : i.key = x := by simpa [APc.rA] using h1
        simp [this] at hs
    · exact Or.inr (Or.inr (by rw [hbuf]; exact h1))
  · intro x hs ha
    rw [hpol] at ha; rw [hst] at hs
    have hsx : stored s x = true := by
      cases h1 : stored s x
      · rw [h1] at hs
        simp only [Bool.false_or, Bool.and_eq_true, decide_eq_true_eq] at hs
        obtain ⟨hok, hx⟩ := hs
        subst hok
        have := h.d i vs hpc
        rw [← hx, ha] at this; cases this
      · rfl
    rcases h.eb x hsx ha with ⟨t, k, ht, _⟩ | h1
    · rw [hK t] at ht; cases ht
    · refine Or.inr ?_
      rw [happ, afterVictims_rB]
      rw [hpc] at h1; exact h1
  · intro t k hk
    rw [hcl, hK t] at hk; cases hk
  · intro x hx
    rw [happ, afterVictims_rB] at hx
    rw [hpol]; exact h.vt x (by rw [hpc]; exact hx)
  · intro i' vs' hi
    rw [happ] at hi; exact absurd hi (afterVictims_ne_added _ _ _ _)
  · intro now k c expr v bs hi
    rw [happ] at hi; exact absurd hi (afterVictims_ne_sw _ _ _ _ _ _ _)

theorem expl_apVictims (h : Expl s) {vs : List (Hash × Int)} {s' : State} (hpc : s.app = .victims vs)
    (hr : apVictims s vs = some s') : Expl s' := by
  obtain ⟨h0, cost, rest, hvs, rfl⟩ := apVictims_cases hr
  subst hvs
  have hgone : (storeDel s.store s.em h0 0#64).1.lookup h0 = none := storeDel_gone _ _ _ _ (fun _ _ => Or.inl rfl)
  refine expl_shrink h ?_ (fun _ => rfl) ?_ ?_ ?_ (fun _ _ hk => hk) ?_ (fun _ _ hc => by cases hc)
    (fun _ _ _ _ _ _ hc => by cases hc)
  · intro x hx
    unfold stored at hx ⊢
    cases hl : (storeDel s.store s.em h0 0#64).1.lookup x with
    | none => simp only [hl] at hx; cases hx
    | some e => rw [storeDel_sub _ _ _ _ hl]; rfl
  · intro x h1 h2 h3
    have hx : x = h0 := by
      apply Classical.byContradiction
      intro hne
      unfold stored at h1 h2
      simp only [storeDel_lookup_ne _ _ _ _ hne] at h2
      rw [h1] at h2; cases h2
    have := h.vt x (by rw [hpc, hx]; simp [APc.rB])
    rw [this] at h3; cases h3
  · intro x hr'
    exact Or.inl (reasonA_mono (s := s) (fun t ht => ht) (fun h1 => by rw [hpc] at h1; cases h1) (fun h1 => Or.inl h1) hr')
  · intro x hr'
    rcases hr' with ⟨t, k, ht, hk⟩ | h1
    · exact Or.inl (Or.inl ⟨t, k, ht, hk⟩)
    · rw [hpc] at h1
      simp only [APc.rB, List.any_cons, Bool.or_eq_true, beq_iff_eq] at h1
      rcases h1 with h1 | h1
      · exact Or.inr (by unfold stored; simp only [← h1]; rw [hgone]; rfl)
      · exact Or.inl (Or.inr (by simpa [APc.rB] using h1))
  · intro x hx
    rw [hpc]
    simp only [APc.rB] at hx ⊢
    simp [hx]

theorem expl_apTombPolicy (hc : ConfInv conf s) (h : Expl s) {i : Item} (hpc : s.app = .tombPolicy i) :
    Expl (apTombPolicy s i) := by
  have hi : i.conflict = conf i.key := by have := hc.app; rw [hpc] at this; exact this
  have hgone : (storeDel s.store s.em i.key i.conflict).1.lookup i.key = none :=
    storeDel_gone _ _ _ _ (fun e he => Or.inr (by rw [hi, hc.store _ e he]))
  refine expl_shrink h ?_ (fun _ => rfl) ?_ ?_ ?_ (fun _ _ hk => hk) (fun x hx => by simp [apTombPolicy, APc.rB] at hx)
    (fun _ _ hc => by simp [apTombPolicy] at hc) (fun _ _ _ _ _ _ hc => by simp [apTombPolicy] at hc)
  · intro x hx
    unfold stored apTombPolicy at hx
    unfold stored
    cases hl : (storeDel s.store s.em i.key i.conflict).1.lookup x with
    | none => simp only [hl] at hx; cases hx
    | some e => rw [storeDel_sub _ _ _ _ hl]; rfl
  · intro x h1 h2 h3
    have hx : x = i.key := by
      apply Classical.byContradiction
      intro hne
      unfold stored apTombPolicy at h2
      unfold stored at h1
      simp only [storeDel_lookup_ne _ _ _ _ hne] at h2
      rw [h1] at h2; cases h2
    have := h.vt x (by rw [hpc, hx]; simp [APc.rB])
    rw [this] at h3; cases h3
  · intro x hr'
    exact Or.inl (reasonA_mono (s := s) (fun t ht => ht) (fun h1 => by rw [hpc] at h1; cases h1) (fun h1 => Or.inl h1) hr')
  · intro x hr'
    rcases hr' with ⟨t, k, ht, hk⟩ | h1
    · exact Or.inl (Or.inl ⟨t, k, ht, hk⟩)
    · rw [hpc] at h1
      have : i.key = x := by simpa [APc.rB] using h1
      exact Or.inr (by unfold stored apTombPolicy; simp only [← this]; rw [hgone]; rfl)

theorem expl_apSwKey (h : Expl s) {now : Time} {k : Hash} {c : Conf} {bs : List (AMap Hash Conf)}
    (hpc : s.app = .swKey now k c bs) : Expl (apSwKey s now k c bs) := by
  unfold apSwKey; dsimp only
  split
  · rename_i hrem
    have hst : (storeDelExpired s.store s.em k c now).1 = s.store.erase k := storeDelExpired_removed _ _ _ _ _ hrem
    refine expl_shrink h ?_ (fun _ => rfl) ?_ ?_ ?_ (fun _ _ hk => hk) (fun x hx => by cases hx)
      (fun _ _ hc => by cases hc) ?_
    · intro x hx
      unfold stored at hx ⊢
      simp only [hst, AMap.lookup_erase] at hx
      split at hx
      · cases hx
      · exact hx
    · intro x h1 h2 _
      have hx : x = k := by
        apply Classical.byContradiction
        intro hne
        unfold stored at h1 h2
        simp only [hst, AMap.lookup_erase, if_neg hne] at h2
        rw [h1] at h2; cases h2
      exact Or.inr (Or.inl (by simp [APc.rA, hx]))
    · intro x hr'
      exact Or.inl (reasonA_mono (s := s) (fun t ht => ht) (fun h1 => by rw [hpc] at h1; cases h1) (fun h1 => Or.inl h1) hr')
    · intro x hr'
      exact Or.inl (reasonB_mono (s := s) (fun _ => rfl) (fun h1 => by rw [hpc] at h1; cases h1) hr')
    · intro now' k' c' expr v bs' hi
      simp only [APc.swStoreDel.injEq] at hi
      refine Or.inr ?_
      unfold stored
      simp only [hst, ← hi.2.1, AMap.lookup_erase_self]; rfl
  · exact expl_app_only h (fun _ => rfl) (fun _ => rfl) rfl
      (fun x hx => by rw [hpc] at hx; rcases hx with h1 | h1; cases h1; exact Or.inr h1)
      (fun _ => by rw [hpc]; rfl) (fun _ _ hc => by cases hc) (fun _ _ _ _ _ _ hc => by cases hc)

theorem expl_apSwStoreDel (h : Expl s) {now : Time} {k : Hash} {c : Conf} {expr : Time} {v : Val}
    {bs : List (AMap Hash Conf)} (hpc : s.app = .swStoreDel now k c expr v bs) :
    Expl (apSwStoreDel cfg s now k c expr v bs) := by
  have hsk := h.sw now k c expr v bs hpc
  have hacc : ∀ x, accounted (apSwStoreDel cfg s now k c expr v bs) x = (!decide (x = k) && accounted s x) := by
    intro x
    simp only [accounted, apSwStoreDel, polDel_lookup]
    by_cases e : x = k <;> simp [e]
  refine expl_pol h (fun _ => rfl) ?_ ?_ (fun _ _ hk => hk) (fun x hx => by simp [apSwStoreDel, APc.rB] at hx)
    (fun _ _ hc => by simp [apSwStoreDel] at hc) (fun _ _ _ _ _ _ hc => by simp [apSwStoreDel] at hc)
  · intro x hax hs
    rw [hacc] at hax
    simp only [Bool.and_eq_true, Bool.not_eq_true', decide_eq_false_iff_not] at hax
    refine Or.inl ⟨hax.2, fun hr' => ?_⟩
    exact reasonA_mono (s := s) (fun t ht => ht)
      (fun h1 => by rw [hpc] at h1; simp only [APc.rA, beq_iff_eq] at h1; exact absurd h1.symm hax.1)
      (fun h1 => Or.inl h1) hr'
  · intro x hs hax
    rw [hacc] at hax
    simp only [Bool.and_eq_false_iff, Bool.not_eq_false', decide_eq_true_eq] at hax
    rcases hax with h1 | h1
    · rw [h1, hsk] at hs; cases hs
    · exact Or.inl ⟨h1, fun hr' => reasonB_mono (s := s) (fun _ => rfl) (fun h2 => by rw [hpc] at h2; cases h2) hr'⟩

theorem expl_applierStep (hh : Handshake s) (hc : ConfInv conf s) (h : Expl s) {ch : Choice} {s' : State}
    (hs : applierStep cfg s ch = some s') : Expl s' := by
  apply applierStep_cases hs (motive := Expl)
  case idle => intro hpc hr; exact expl_apIdle h hpc hr
  case marker =>
    intro id hpc _
    exact expl_app_only h (fun _ => rfl) (fun _ => rfl) rfl
      (fun x hx => by rw [hpc] at hx; rcases hx with h1 | h1; cases h1; exact Or.inr h1)
      (fun _ => by rw [hpc]; rfl) (fun _ _ hc => by simp [apMarker] at hc) (fun _ _ _ _ _ _ hc => by simp [apMarker] at hc)
  case item =>
    intro i hpc _
    exact expl_app_only h (fun _ => rfl) (fun _ => rfl) rfl
      (fun x hx => by rw [hpc] at hx; rcases hx with h1 | h1; exact Or.inl h1; exact Or.inr h1)
      (fun _ => by rw [hpc]; rfl) (fun _ _ hc => by simp [apItem] at hc) (fun _ _ _ _ _ _ hc => by simp [apItem] at hc)
  case costed => intro i hpc hr; exact expl_apCosted h hpc hr
  case added => intro i vs ok hpc _; exact expl_apAdded hh h hpc
  case victims => intro vs hpc _ hr; exact expl_apVictims h hpc hr
  case victimEvict =>
    intro h0 cost c v rest hpc _
    have happ : (apVictimEvict s h0 cost c v rest).app = afterVictims rest := rfl
    exact expl_app_only h (fun _ => rfl) (fun _ => rfl) rfl
      (fun x hx => by rw [hpc] at hx; rcases hx with h1 | h1; cases h1; exact Or.inr h1)
      (fun x => by rw [happ, afterVictims_rB, hpc]; rfl)
      (fun _ _ hc => by rw [happ] at hc; exact absurd hc (afterVictims_ne_added _ _ _ _))
      (fun _ _ _ _ _ _ hc => by rw [happ] at hc; exact absurd hc (afterVictims_ne_sw _ _ _ _ _ _ _))
  case tombPolicy => intro i hpc _; exact expl_apTombPolicy hc h hpc
  case tombStore =>
    intro v hpc _
    exact expl_app_only h (fun _ => rfl) (fun _ => rfl) rfl
      (fun x hx => by rw [hpc] at hx; rcases hx with h1 | h1; cases h1; exact Or.inr h1)
      (fun _ => by rw [hpc]; rfl) (fun _ _ hc => by simp [apTombStore] at hc) (fun _ _ _ _ _ _ hc => by simp [apTombStore] at hc)
  case tick =>
    intro hpc _
    exact expl_app_only h (fun _ => rfl) (fun _ => rfl) rfl
      (fun x hx => by rw [hpc] at hx; rcases hx with h1 | h1; cases h1; exact Or.inr h1)
      (fun _ => by rw [hpc]; rfl) (fun _ _ hc => by simp [apTick] at hc) (fun _ _ _ _ _ _ hc => by simp [apTick] at hc)
  case sweep =>
    intro now bs hpc hr
    rcases apSweep_cases hr with ⟨_, rfl⟩ | ⟨b, rest, k, c, _, _, rfl⟩
    · exact expl_app_only h (fun _ => rfl) (fun _ => rfl) rfl
        (fun x hx => by rw [hpc] at hx; rcases hx with h1 | h1; cases h1; exact Or.inr h1)
        (fun _ => by rw [hpc]; rfl) (fun _ _ hc => by cases hc) (fun _ _ _ _ _ _ hc => by cases hc)
    · exact expl_app_only h (fun _ => rfl) (fun _ => rfl) rfl
        (fun x hx => by rw [hpc] at hx; rcases hx with h1 | h1; cases h1; exact Or.inr h1)
        (fun _ => by rw [hpc]; rfl) (fun _ _ hc => by cases hc) (fun _ _ _ _ _ _ hc => by cases hc)
  case swKey => intro now k c bs hpc _; exact expl_apSwKey h hpc
  case swStoreDel => intro now k c expr v bs hpc _; exact expl_apSwStoreDel h hpc
  case swPolDel =>
    intro now k c expr cost v bs hpc _
    exact expl_app_only h (fun _ => rfl) (fun _ => rfl) rfl
      (fun x hx => by rw [hpc] at hx; rcases hx with h1 | h1; cases h1; exact Or.inr h1)
      (fun _ => by rw [hpc]; rfl) (fun _ _ hc => by simp [apSwPolDel] at hc) (fun _ _ _ _ _ _ hc => by simp [apSwPolDel] at hc)

end applier

theorem expl_clientStep {cfg : Cfg} {s s' : State} {t : Tid} {ch : Choice}
    (hh : Handshake s) (ha : Acct cfg s) (h : Expl s) (hs : clientStep cfg s t ch = some s') : Expl s' :=
  expl_clientStep_frames h hs (fun _ hpc => expl_setUpd h hpc) (fun _ hpc => expl_setSend h hpc)
    (fun _ _ hpc => expl_delStart h hpc) (fun _ _ hpc => expl_delSend h hpc) (fun hpc => expl_waitSend h hpc)
    (fun _ hpc => expl_clrDrain h hpc) (fun _ hpc => expl_clrPolicy hh h hpc)
    (fun _ _ hpc hr => expl_clrShard hh ha h hpc hr) (fun _ hpc => expl_clrRestart hh h hpc)
    (fun hpc => expl_clsFinish hh h hpc)

theorem expl_init (cfg : Cfg) (now : Time) : Expl (init cfg now) := by
  refine ⟨?_, ?_, ?_, ?_, ?_, ?_⟩
  · intro x ha; simp [accounted, init] at ha
  · intro x hs; simp [stored, init] at hs
  · intro t k hk; simp [init, CPc.shardK] at hk
  · intro x hx; simp [init, APc.rB] at hx
  · intro i vs hi; simp [init] at hi
  · intro now' k c expr v bs hi; simp [init] at hi

theorem expl_step {conf : Hash → Conf} {cfg : Cfg} {s s' : State} {a : Action} (hh : Handshake s) (ha : Acct cfg s)
    (hc : ConfInv conf s) (h : Expl s) (hs : step cfg s a = some s') : Expl s' := by
  cases a with
  | spawn t c =>
    have hs' : spawnStep s t c = some s' := hs
    have hidle := spawnStep_idle hs'
    refine expl_frame h (fun _ => by unfold stored; rw [spawnStep_store _ _ _ hs'])
      (fun _ => by unfold accounted; rw [spawnStep_pol _ _ _ hs']) (spawnStep_app _ _ _ hs')
      (fun _ hc' => by unfold chanTomb at hc' ⊢; rw [spawnStep_buf _ _ _ hs', spawnStep_sendq _ _ _ hs']; exact hc')
      (rA_mono_of (fun _ hne => spawnStep_cl_ne _ _ _ hs' hne) (by intro x hx; simp [hidle, CPc.rA] at hx))
      (cls_congr CPc.shardK (fun _ hne => spawnStep_cl_ne _ _ _ hs' hne) ?_)
    rw [hidle]
    unfold spawnStep at hs'; rw [hidle] at hs'; dsimp only at hs'
    split at hs' <;> (simp only [Option.some.injEq] at hs'; subst hs'; simp [CPc.shardK])
  | client t ch => exact expl_clientStep hh ha h hs
  | applier ch => exact expl_applierStep hh hc h hs
  | done t =>
    have hs' : doneStep s t = some s' := hs
    obtain ⟨happ, hcase⟩ := doneStep_cases hs'
    have key : ∀ pc0 pc', s.cl t = pc0 → (∀ x, pc0.rA x = false) → pc0.shardK = none → pc'.shardK = none →
        Expl (setCl { s with app := .dead } t pc') := by
      intro pc0 pc' hpc h1 h2 h3
      have hK : ∀ t', ((setCl { s with app := .dead } t pc').cl t').shardK = (s.cl t').shardK :=
        cls_congr (t := t) CPc.shardK (fun _ hne => setCl_cl_ne _ _ _ hne) (by simp [hpc, h2, h3])
      refine expl_same h (fun _ => rfl) (fun _ => rfl) ?_ ?_ (fun t' k hk => by rw [← hK]; exact hk)
        (fun x hx => by cases hx) (fun _ _ hc' => by cases hc') (fun _ _ _ _ _ _ hc' => by cases hc')
      · intro x hr'
        refine reasonA_mono (s := s) (rA_mono_of (s := s) (t := t) (fun _ hne => setCl_cl_ne _ _ _ hne)
          (fun y hy => by rw [hpc, h1 y] at hy; cases hy) x) (fun h1 => by rw [happ] at h1; cases h1) (fun h1 => Or.inl h1) hr'
      · intro x hr'
        exact reasonB_mono (s := s) hK (fun h1 => by rw [happ] at h1; cases h1) hr'
    rcases hcase with ⟨closing, hpc, rfl⟩ | ⟨hpc, rfl⟩
    · exact key _ _ hpc (fun _ => rfl) rfl rfl
    · exact key _ _ hpc (fun _ => rfl) rfl rfl
  | tick d =>
    simp only [step, Option.some.injEq] at hs; subst hs
    exact ⟨h.ea, h.eb, h.w, h.vt, h.d, h.sw⟩

/-- `Expl` holds in every state reachable by a collision-free run. -/
theorem expl_reachC {conf : Hash → Conf} {cfg : Cfg} {s : State} (h : ReachC cfg conf s) : Expl s := by
  induction h with
  | init now => exact expl_init cfg now
  | step hr _ hs ih =>
    exact expl_step (handshake_reach hr.reach) (acct_reach hr.reach) (conf_reachC hr) ih hs

end RV.Cache
