import RV.Proofs.TreeIter
/-!
# The page invariant: every allocated page is live exactly once or free exactly once

`PidInv t`: counted with multiplicity, the page ids of the reachable nodes together with the
free list are exactly the pages `1 … nextPage-1`.  Hence live ids are distinct, below the
frontier, disjoint from the duplicate-free free list, and no page is leaked.
-/
namespace RV.Tree
open Gen.Tree

def PidInv (t : Tree) : Prop :=
  1 ≤ t.a.nextPage ∧
  ∀ x, List.count x (pids t.root) + List.count x t.a.free = List.count x (List.range' 1 (t.a.nextPage - 1))

theorem PidInv.step {t t' : Tree} (h : PidInv t) (hc : Cons t.a t'.a (pids t.root) (pids t'.root)) : PidInv t' := by
  refine ⟨by have := h.1; have := hc.1; omega, fun x => ?_⟩
  have e1 := h.2 x
  have e2 := hc.2 x
  have hs : t'.a.nextPage - 1 = (t.a.nextPage - 1) + (t'.a.nextPage - t.a.nextPage) := by
    have := h.1; have := hc.1; omega
  have hs2 : 1 + (t.a.nextPage - 1) = t.a.nextPage := by have := h.1; omega
  rw [hs, count_range'_split, hs2]
  omega

theorem PidInv.count_le_one {t : Tree} (h : PidInv t) (x : Nat) :
    List.count x (pids t.root ++ t.a.free) ≤ 1 := by
  rw [List.count_append, h.2 x]
  exact List.nodup_iff_count.mp (List.nodup_range' (s := 1) (n := t.a.nextPage - 1)) x

/-- live page ids are pairwise distinct and disjoint from the duplicate-free free list -/
theorem PidInv.nodup {t : Tree} (h : PidInv t) : (pids t.root ++ t.a.free).Nodup :=
  List.nodup_iff_count.mpr h.count_le_one

/-- exactly the pages below the frontier are live or free (nothing leaked, nothing beyond) -/
theorem PidInv.mem_iff {t : Tree} (h : PidInv t) (p : Nat) :
    p ∈ pids t.root ++ t.a.free ↔ 1 ≤ p ∧ p < t.a.nextPage := by
  rw [← List.count_pos_iff, List.count_append, h.2 p, List.count_pos_iff, List.mem_range'_1]
  have := h.1
  omega

theorem PidInv.posPid {t : Tree} (h : PidInv t) (hn : t.a.nextPage ≤ 2 ^ 64) : ∀ p ∈ pids t.root, PosPid p := by
  intro p hp
  have := (h.mem_iff p).mp (List.mem_append_left _ hp)
  exact ⟨by omega, by omega⟩

/-- `initRootNode` from an empty allocator: pages 1 (root) and 2 (the first leaf) -/
theorem initRoot_pidInv {cfg : Cfg} (hc : CfgOk cfg) (a : Alloc) (h1 : a.nextPage = 1) (h2 : a.free = [])
    (ha : a.fault = none) : PidInv (initRoot cfg a) := by
  obtain ⟨_, _, hcons⟩ := initRoot_spec hc a ha
  refine ⟨by have := hcons.1; omega, fun x => ?_⟩
  have := hcons.2 x
  rw [h1, h2] at this
  simpa using this

theorem reset_pidInv {cfg : Cfg} (hc : CfgOk cfg) (curSz : Nat) : PidInv (reset cfg curSz) :=
  initRoot_pidInv hc _ rfl rfl rfl

theorem newTreeFile_pidInv {cfg : Cfg} (hc : CfgOk cfg) : PidInv (newTreeFile cfg) :=
  initRoot_pidInv hc _ rfl rfl rfl

theorem set_pidInv {cfg : Cfg} (hc : CfgOk cfg) (t : Tree) (k : Key) (v : Val) (hinv : TreeInv cfg t)
    (hk : setKeyPanic k = false) (hp : PidInv t) : PidInv (set cfg t k v) :=
  hp.step (set_spec hc t k v hinv hk).2.2

theorem deleteBelow_pidInv {cfg : Cfg} (hc : CfgOk cfg) (t : Tree) (ts : Val) (hinv : TreeInv cfg t)
    (hp : PidInv t) (hn : t.a.nextPage ≤ 2 ^ 64) : PidInv (deleteBelow t ts) :=
  hp.step (deleteBelow_spec hc t hinv (hp.posPid hn) ts).2.2.2.1

theorem iterateKV_pidInv {cfg : Cfg} (t : Tree) (f : Key → Val → Val) (hinv : TreeInv cfg t) (hp : PidInv t) :
    PidInv (iterateKV t f) := by
  obtain ⟨_, _, _, h4⟩ := iterateKV_spec t hinv f
  have ha : (iterateKV t f).a.nextPage = t.a.nextPage ∧ (iterateKV t f).a.free = t.a.free := by
    have hf : ∀ (a : Alloc) (m : String), (a.fail m).nextPage = a.nextPage ∧ (a.fail m).free = a.free := by
      intro a m; unfold Alloc.fail; split <;> exact ⟨rfl, rfl⟩
    unfold iterateKV
    constructor <;> (dsimp only; split <;> first | rfl | exact (hf _ _).1 | exact (hf _ _).2)
  refine ⟨by rw [ha.1]; exact hp.1, fun x => ?_⟩
  rw [h4, ha.1, ha.2]; exact hp.2 x

end RV.Tree
