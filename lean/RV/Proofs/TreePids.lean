import RV.Proofs.TreeIter
/-!
# The page invariant: every allocated page is live exactly once or free exactly once

`PidInv t`: counted with multiplicity, the page ids of the reachable nodes together with the
free list are exactly the pages `1 … nextPage-1`.  Hence live ids are distinct, below the
frontier, disjoint from the duplicate-free free list, and no page is leaked.
-/
namespace RV.Tree
open Gen.Tree

def PidInv (t : Tree) : Prop :=
  1 ≤ t.a.nextPage ∧
  ∀ x, List.count x (pids t.root) + List.count x t.a.free = List.count x (List.range' 1 (t.a.nextPage - 1))

theorem PidInv.step {t t' : Tree} (h : PidInv t) (hc : Cons t.a t'.a (pids t.root) (pids t'.root)) : PidInv t' := by
  refine ⟨by have := h.1; have := hc.1; omega, fun x => ?_⟩
  have e1 := h.2 x
  have e2 := hc.2 x
  have hs : t'.a.nextPage - 1 = (t.a.nextPage - 1) + (t'.a.nextPage - t.a.nextPage) := by
    have := h.1; have := hc.1; omega
  have hs2 : 1 + (t.a.nextPage - 1) = t.a.nextPage := by have := h.1; omega
  rw [hs, count_range'_split, hs2]
  omega

theorem PidInv.count_le_one {t : Tree} (h : PidInv t) (x : Nat) :
    List.count x (pids t.root ++ t.a.free) ≤ 1 := by
  rw [List.count_append, h.2 x]
  exact List.nodup_iff_count.mp (List.nodup_range' (s := 1) (n := t.a.nextPage - 1)) x

/-- live page ids are pairwise distinct and disjoint from the duplicate-free free list -/
theorem PidInv.nodup {t : Tree} (h : PidInv t) : (pids t.root ++ t.a.free).Nodup :=
  List.nodup_iff_count.mpr h.count_le_one

/-- exactly the pages below the frontier are live or free (nothing leaked, nothing beyond) -/
theorem PidInv.mem_iff {t : Tree} (h : PidInv t) (p : Nat) :
    p ∈ pids t.root ++ t.a.free ↔ 1 ≤ p ∧ p < t.a.nextPage := by
  rw [← List.count_pos_iff, List.count_append, h.2 p, List.count_pos_iff, List.mem_range'_1]
  have := h.1
  omega

theorem PidInv.posPid {t : Tree} (h : PidInv t) (hn : t.a.nextPage ≤ 2 ^ 64) : ∀ p ∈ pids t.root, PosPid p := by
  intro p hp
  have := (h.mem_iff p).mp (List.mem_append_left _ hp)
  exact ⟨by omega, by omega⟩

/-- `initRootNode` from an empty allocator: pages 1 (root) and 2 (the first leaf) -/
theorem initRoot_pidInv {cfg : Cfg} (hc : CfgOk cfg) (a : Alloc) (h1 : a.nextPage = 1) (h2 : a.free = [])
    (ha : a.fault = none) : PidInv (initRoot cfg a) := by
  obtain ⟨_, _, hcons, _⟩ := initRoot_spec hc a ha
  refine ⟨by have := hcons.1; omega, fun x => ?_⟩
  have := hcons.2 x
  rw [h1, h2] at this
  simpa using this

theorem reset_pidInv {cfg : Cfg} (hc : CfgOk cfg) (curSz : Nat) : PidInv (reset cfg curSz) :=
  initRoot_pidInv hc _ rfl rfl rfl

theorem newTreeFile_pidInv {cfg : Cfg} (hc : CfgOk cfg) : PidInv (newTreeFile cfg) :=
  initRoot_pidInv hc _ rfl rfl rfl

theorem set_pidInv {cfg : Cfg} (hc : CfgOk cfg) (t : Tree) (k : Key) (v : Val) (hinv : TreeInv cfg t)
    (hk : setKeyPanic k = false) (hp : PidInv t) : PidInv (set cfg t k v) :=
  hp.step (set_spec hc t k v hinv hk).2.2.1

theorem deleteBelow_pidInv {cfg : Cfg} (hc : CfgOk cfg) (t : Tree) (ts : Val) (hinv : TreeInv cfg t)
    (hp : PidInv t) (hn : t.a.nextPage ≤ 2 ^ 64) : PidInv (deleteBelow t ts) :=
  hp.step (deleteBelow_spec hc t hinv (hp.posPid hn) ts).2.2.2.1

theorem iterateKV_pidInv {cfg : Cfg} (t : Tree) (f : Key → Val → Val) (hinv : TreeInv cfg t) (hp : PidInv t) :
    PidInv (iterateKV t f) := by
  obtain ⟨_, _, _, h4, _, h6⟩ := iterateKV_spec t hinv f
  refine ⟨by rw [h6]; exact hp.1, fun x => ?_⟩
  rw [h4, h6]; exact hp.2 x

/-! ## statistics and the root page -/

/-- the maintained statistics agree with the structure (what `reinit` recounts) -/
def StatsOk (t : Tree) : Prop :=
  t.a.leafKeys = countLeafKeys t.root ∧ t.a.pagesFree = t.a.free.length

theorem newNode_first (cfg : Cfg) (a : Alloc) (h1 : a.nextPage = 1) (h2 : a.free = []) : (newNode cfg a).1 = 1 := by
  unfold newNode Alloc.freeHead
  rw [h2]
  have : newNodeUseFree (w 0) = false := by decide
  simp only [this, Bool.false_eq_true, if_false, h1]

theorem initRoot_stats {cfg : Cfg} (hc : CfgOk cfg) (a : Alloc) (h1 : a.nextPage = 1) (h2 : a.free = [])
    (h3 : a.leafKeys = 0) (h4 : a.pagesFree = 0) (ha : a.fault = none) :
    StatsOk (initRoot cfg a) ∧ (initRoot cfg a).root.pid = 1 := by
  obtain ⟨_, _, hcons, hl, hcnt, hpid, _⟩ := initRoot_spec hc a ha
  refine ⟨⟨by rw [hl, hcnt, h3]; rfl, ?_⟩, by rw [hpid]; exact newNode_first cfg a h1 h2⟩
  have := hcons.3
  rw [h2, h4] at this
  simp at this; omega

theorem reset_stats {cfg : Cfg} (hc : CfgOk cfg) (curSz : Nat) :
    StatsOk (reset cfg curSz) ∧ (reset cfg curSz).root.pid = 1 :=
  initRoot_stats hc _ rfl rfl rfl rfl rfl

theorem newTreeFile_stats {cfg : Cfg} (hc : CfgOk cfg) :
    StatsOk (newTreeFile cfg) ∧ (newTreeFile cfg).root.pid = 1 :=
  initRoot_stats hc _ rfl rfl rfl rfl rfl

theorem set_stats {cfg : Cfg} (hc : CfgOk cfg) (t : Tree) (k : Key) (v : Val) (hinv : TreeInv cfg t)
    (hk : setKeyPanic k = false) (hs : StatsOk t) :
    StatsOk (set cfg t k v) ∧ (set cfg t k v).root.pid = t.root.pid := by
  obtain ⟨_, _, hcons, hlk, hpid, _⟩ := set_spec hc t k v hinv hk
  refine ⟨⟨?_, ?_⟩, hpid⟩
  · have := hs.1; omega
  · have := hcons.3; have := hs.2; omega

theorem deleteBelow_stats {cfg : Cfg} (hc : CfgOk cfg) (t : Tree) (ts : Val) (hinv : TreeInv cfg t)
    (hp : ∀ p ∈ pids t.root, PosPid p) (hs : StatsOk t) :
    StatsOk (deleteBelow t ts) ∧ (deleteBelow t ts).root.pid = t.root.pid := by
  obtain ⟨_, _, _, hcons, _, hlk, hpid, _⟩ := deleteBelow_spec hc t hinv hp ts
  refine ⟨⟨hlk, ?_⟩, hpid⟩
  have := hcons.3; have := hs.2; omega

theorem iterateKV_stats {cfg : Cfg} (t : Tree) (f : Key → Val → Val) (hinv : TreeInv cfg t) (hs : StatsOk t) :
    StatsOk (iterateKV t f) ∧ (iterateKV t f).root.pid = t.root.pid := by
  obtain ⟨hinv', _, _, h4, h5, h6⟩ := iterateKV_spec t hinv f
  refine ⟨⟨by rw [h6, h5]; exact hs.1, by rw [h6]; exact hs.2⟩, ?_⟩
  have h1 := pid_mem_pids (okNode_ne_null hinv'.ok)
  have h2 := pid_mem_pids (okNode_ne_null hinv.ok)
  have e1 : (pids (iterateKV t f).root).head? = some (iterateKV t f).root.pid := by
    cases hr : (iterateKV t f).root with
    | null => exact absurd hr (okNode_ne_null hinv'.ok)
    | leaf p es => simp [pids, Node.pid]
    | inner p es => simp [pids, Node.pid]
  have e2 : (pids t.root).head? = some t.root.pid := by
    cases hr : t.root with
    | null => exact absurd hr (okNode_ne_null hinv.ok)
    | leaf p es => simp [pids, Node.pid]
    | inner p es => simp [pids, Node.pid]
  rw [h4, e2] at e1
  injection e1 with e1
  exact e1.symm

/-! ## the pages in use fit the buffer / file -/

theorem set_fits {cfg : Cfg} (hc : CfgOk cfg) (t : Tree) (k : Key) (v : Val) (hinv : TreeInv cfg t)
    (hk : setKeyPanic k = false) (hf : AllocFits cfg t.a) (hb : Bounded cfg (set cfg t k v).a) :
    AllocFits cfg (set cfg t k v).a :=
  (set_spec hc t k v hinv hk).2.2.2.2.2.fits hb hf

theorem deleteBelow_fits {cfg : Cfg} (hc : CfgOk cfg) (t : Tree) (ts : Val) (hinv : TreeInv cfg t)
    (hp : ∀ p ∈ pids t.root, PosPid p) (hf : AllocFits cfg t.a) : AllocFits cfg (deleteBelow t ts).a := by
  obtain ⟨_, _, _, _, h5, _, _, h8, h9⟩ := deleteBelow_spec hc t hinv hp ts
  unfold AllocFits at *
  rw [h5, h8, h9]; exact hf

theorem iterateKV_fits {cfg : Cfg} (t : Tree) (f : Key → Val → Val) (hinv : TreeInv cfg t)
    (hf : AllocFits cfg t.a) : AllocFits cfg (iterateKV t f).a := by
  obtain ⟨_, _, _, _, _, h6⟩ := iterateKV_spec t hinv f
  rw [h6]; exact hf

/-- a fresh persistent tree: the 1 MiB file holds the first pages (`pageSize ≤ 2^19`) -/
theorem newTreeFile_fits {cfg : Cfg} (hc : CfgOk cfg) (hps : cfg.pageSize ≤ 2 ^ 19)
    (hb : Bounded cfg (newTreeFile cfg).a) : AllocFits cfg (newTreeFile cfg).a := by
  have h0 : AllocFits cfg (Alloc.mk 1 [] 0 0 (minSize.toNat - 8) minSize.toNat none) := by
    unfold AllocFits
    have : minSize.toNat = 1048576 := by decide
    simp only [this]; omega
  exact (initRoot_spec hc _ rfl).2.2.2.2.2.2.fits hb h0

end RV.Tree
