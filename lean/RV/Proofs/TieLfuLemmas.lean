import RV.GenLfu
/-!
Generic facts about the constructs of `RV/GenLfu.lean` (`GenL.rd`, `wr`, `forL`, `idxs`) used by the
equivalence proofs `RV/Props/TieSketch.lean`, `TieTinyLFU.lean`, `TiePolicyAdd.lean`.  Core Lean only.
-/
namespace RV.TieL
open GenL

theorem rd_ok {α} [Inhabited α] (a : Array α) (i : BitVec 64) (h : i.toNat < a.size) :
    rd a i = .ok a[i.toNat]! := by
  simp [rd, h]

theorem rd_ok' {α} (a : Array α) (i : BitVec 64) (v : α) (h : a[i.toNat]? = some v) :
    rd a i = .ok v := by
  simp [rd, h]

theorem rd_panic {α} (a : Array α) (i : BitVec 64) (h : a.size ≤ i.toNat) : rd a i = .panic := by
  simp [rd, h]

theorem wr_ok {α} (a : Array α) (i : BitVec 64) (v : α) (h : i.toNat < a.size) :
    wr a i v = .ok (a.set! i.toNat v) := by
  simp [wr, h]

theorem wr_panic {α} (a : Array α) (i : BitVec 64) (v : α) (h : a.size ≤ i.toNat) : wr a i v = .panic := by
  simp [wr]; omega

theorem idxs_succ (n : Nat) : idxs (n + 1) = idxs n ++ [BitVec.ofNat 64 n] := by
  simp [idxs, List.range_succ]

theorem ofNat_toNat_lt {k n : Nat} (hk : k < n) (hn : n ≤ 2 ^ 64) : (BitVec.ofNat 64 k).toNat = k := by
  simp [BitVec.toNat_ofNat]; omega

theorem mapIdx_rows {α β} (f : Nat → α → β) (a : Array α) : a.mapIdx f = (a.toList.mapIdx f).toArray := by
  apply Array.ext'; simp

theorem and_mask_le (a m : BitVec 64) : (a &&& m).toNat ≤ m.toNat := by
  rw [BitVec.toNat_and]; exact Nat.and_le_right

/-- Hoare rule for jump-free loops over `0 … n-1`. -/
theorem forL_idxs_inv {σ : Type} (n : Nat) (body : BitVec 64 → σ → Res σ) (P : Nat → σ → Prop) (s0 : σ)
    (h0 : P 0 s0)
    (hstep : ∀ k s, k < n → P k s → ∃ s', body (BitVec.ofNat 64 k) s = .ok s' ∧ P (k + 1) s') :
    ∃ s', forL (idxs n) body s0 = .ok s' ∧ P n s' := by
  induction n with
  | zero => exact ⟨s0, rfl, h0⟩
  | succ n ih =>
    obtain ⟨s1, h1, p1⟩ := ih (fun k s hk hp => hstep k s (by omega) hp)
    obtain ⟨s2, h2, p2⟩ := hstep n s1 (by omega) p1
    refine ⟨s2, ?_, p2⟩
    rw [idxs_succ, forL_append, h1]
    simp [h2]

/-- loops of the shape `for i := range a { a[i] = … }`: the result is `res` as soon as `res` is the
fold of `step` (the shape go2lean's KFunc gives to the same loop) and one round is one `step`. -/
theorem forL_idxs_foldl {α : Type} (a : Array α) (body : BitVec 64 → Array α → Res (Array α))
    (step : Array α → Nat → Array α) (res : Array α) (hres : res = (List.range a.size).foldl step a)
    (hsize : ∀ s k, (step s k).size = s.size)
    (hbody : ∀ k s, k < a.size → s.size = a.size → body (BitVec.ofNat 64 k) s = .ok (step s k)) :
    forL (idxs a.size) body a = .ok res := by
  obtain ⟨s', h, p⟩ := forL_idxs_inv a.size body
    (fun k s => s = (List.range k).foldl step a ∧ s.size = a.size) a ⟨rfl, rfl⟩
    (fun k s hk ⟨hs, hsz⟩ => ⟨step s k, hbody k s hk hsz, by
      subst hs; simp [List.range_succ, hsize] at *; exact hsz⟩)
  rw [h, p.1, hres]

/-- loops of the shape `for i := range s.rows { s.rows[i] = F i s.rows[i] }` on a state `σ` that
holds the row array (`rowsOf` / `setRows`). -/
theorem forL_rows {σ α : Type} (rowsOf : σ → Array α) (setRows : σ → Array α → σ)
    (hid : ∀ s, setRows s (rowsOf s) = s)
    (g : σ) (body : BitVec 64 → σ → Res σ) (F : Nat → α → α)
    (hbody : ∀ k rs (row : α), k < (rowsOf g).size → rs.size = (rowsOf g).size → rs[k]? = some row →
      (rowsOf g)[k]? = some row →
      body (BitVec.ofNat 64 k) (setRows g rs) = .ok (setRows g (rs.set! k (F k row)))) :
    forL (idxs (rowsOf g).size) body g = .ok (setRows g ((rowsOf g).mapIdx F)) := by
  obtain ⟨s', h, p⟩ := forL_idxs_inv (rowsOf g).size body
    (fun k s => ∃ rs : Array α, s = setRows g rs ∧ rs.size = (rowsOf g).size ∧
      ∀ j, rs[j]? = if j < k then ((rowsOf g)[j]?).map (F j) else (rowsOf g)[j]?) g
    ⟨rowsOf g, (hid g).symm, rfl, by intro j; simp⟩
    (by
      intro k s hk ⟨rs, hs, hsz, hel⟩
      have hk' : k < rs.size := by omega
      have hrow : rs[k]? = some (rowsOf g)[k] := by rw [hel k]; simp [hk]
      refine ⟨setRows g (rs.set! k (F k (rowsOf g)[k])), ?_, rs.set! k (F k (rowsOf g)[k]), rfl, by simp [hsz], ?_⟩
      · rw [hs]; exact hbody k rs _ hk hsz hrow (by simp [hk])
      · intro j
        by_cases hjk : j = k
        · subst hjk; simp [hk', hk]
        · have : ¬ k = j := fun e => hjk e.symm
          simp only [Array.set!_eq_setIfInBounds, Array.getElem?_setIfInBounds, this, if_false, hel j]
          by_cases h1 : j < k
          · simp [h1, Nat.lt_succ_of_lt h1]
          · have : ¬ j < k + 1 := by omega
            simp [h1, this])
  obtain ⟨rs, hs, hsz, hel⟩ := p
  rw [h, hs]
  congr 2
  apply Array.ext_getElem?
  intro j
  rw [hel j]
  by_cases hj : j < (rowsOf g).size
  · simp [hj]
  · simp [hj]

/-- `forL` over a list whose every round succeeds is a fold -/
theorem forL_ok_foldl {ι σ : Type} (xs : List ι) (body : ι → σ → Res σ) (f : σ → ι → σ) (P : σ → Prop)
    (s : σ) (hs : P s) (hP : ∀ s x, P s → P (f s x)) (hbody : ∀ s x, P s → body x s = .ok (f s x)) :
    forL xs body s = .ok (xs.foldl f s) := by
  induction xs generalizing s with
  | nil => rfl
  | cons x xs ih =>
    rw [forL_cons, hbody s x hs, Res.bind_ok, ih _ (hP s x hs)]
    rfl

end RV.TieL
