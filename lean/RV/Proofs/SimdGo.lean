import RV.Proofs.SimdAsm
namespace RV.SimdProofs
open RV.Simd Gen.Simd

theorem toNat_ofNat64 (a : Nat) (h : a < 2^63) : (BitVec.ofNat 64 a).toNat = a := by
  simp [BitVec.toNat_ofNat]; omega

theorem toInt_ofNat64 (a : Nat) (h : a < 2^63) : (BitVec.ofNat 64 a).toInt = (a : Int) := by
  rw [BitVec.toInt_eq_toNat_of_lt (by rw [toNat_ofNat64 a h]; omega), toNat_ofNat64 a h]

theorem slt_ofNat (a b : Nat) (ha : a < 2^63) (hb : b < 2^63) :
    BitVec.slt (BitVec.ofNat 64 a) (BitVec.ofNat 64 b) = decide (a < b) := by
  rw [BitVec.slt_eq_decide, toInt_ofNat64 a ha, toInt_ofNat64 b hb]
  simp

theorem sdiv2_ofNat (a : Nat) (ha : a < 2^63) :
    BitVec.sdiv (BitVec.ofNat 64 a) 2#64 = BitVec.ofNat 64 (a / 2) := by
  apply BitVec.eq_of_toInt_eq
  rw [BitVec.toInt_sdiv, toInt_ofNat64 a ha, toInt_ofNat64 (a/2) (by omega)]
  have : (2#64 : BitVec 64).toInt = 2 := by decide
  rw [this]
  have h2 : (a : Int).tdiv 2 = ((a / 2 : Nat) : Int) := by
    rw [Int.tdiv_eq_ediv_of_nonneg (by omega)]; omega
  rw [h2]
  apply Int.bmod_eq_of_le <;> omega

theorem setWidth16_ofNat64 (j : Nat) : (BitVec.ofNat 64 j).setWidth 16 = BitVec.ofNat 16 j := by
  apply BitVec.eq_of_toNat_eq
  simp


theorem signExtend_ofNat16 (j : Nat) (hj : j < 2^15) :
    BitVec.signExtend 64 (BitVec.ofNat 16 j) = BitVec.ofNat 64 j := by
  apply BitVec.eq_of_toInt_eq
  rw [BitVec.toInt_signExtend_of_le (by decide), toInt_ofNat64 j (by omega)]
  rw [BitVec.toInt_eq_toNat_of_lt (by simp; omega)]
  simp; omega

theorem land_mask8 (a : Nat) (ha : a < 2^64) : a &&& (2^64 - 8) = a - a % 8 := by
  have h1 : (a &&& (2^64 - 8)) % 2^3 = 0 := by
    rw [Nat.and_mod_two_pow]
    have : (2^64 - 8) % 2^3 = 0 := by decide
    rw [this, Nat.and_zero]
  have h2 : (a &&& (2^64 - 8)) / 2^3 = a / 2^3 := by
    rw [Nat.and_div_two_pow]
    have : (2^64 - 8) / 2^3 = 2^61 - 1 := by decide
    rw [this, Nat.and_two_pow_sub_one_eq_mod]
    apply Nat.mod_eq_of_lt
    omega
  omega

theorem and_not7_ofNat (a : Nat) (ha : a < 2^63) :
    (BitVec.ofNat 64 a &&& ~~~7#64) = BitVec.ofNat 64 (a - a % 8) := by
  apply BitVec.eq_of_toNat_eq
  rw [toNat_ofNat64 _ (by omega)]
  have h7 : (~~~7#64 : BitVec 64).toNat = 2^64 - 8 := by decide
  rw [BitVec.toNat_and, h7, toNat_ofNat64 a ha]
  exact land_mask8 a (by omega)

/-- the same prefix length spelled `n - n&7` -/
theorem sub_and7_ofNat (a : Nat) (ha : a < 2^63) :
    (BitVec.ofNat 64 a - (BitVec.ofNat 64 a &&& 7#64)) = BitVec.ofNat 64 (a - a % 8) := by
  apply BitVec.eq_of_toNat_eq
  have h1 : (BitVec.ofNat 64 a).toNat = a := by simp; omega
  have h7 : (BitVec.ofNat 64 a &&& 7#64).toNat = a % 8 := by
    rw [BitVec.toNat_and, h1]
    have : (7#64 : BitVec 64).toNat = 2^3 - 1 := by decide
    rw [this, Nat.and_two_pow_sub_one_eq_mod]
  rw [BitVec.toNat_sub, h1, h7]
  have h2 : (BitVec.ofNat 64 (a - a % 8)).toNat = a - a % 8 := by simp; omega
  rw [h2]; omega

theorem srem8_ofNat (a : Nat) (ha : a < 2^63) :
    BitVec.srem (BitVec.ofNat 64 a) 8#64 = BitVec.ofNat 64 (a % 8) := by
  apply BitVec.eq_of_toInt_eq
  rw [BitVec.toInt_srem, toInt_ofNat64 a ha, toInt_ofNat64 (a % 8) (by omega)]
  have : (8#64 : BitVec 64).toInt = 8 := by decide
  rw [this, Int.tmod_eq_emod_of_nonneg (by omega)]
  omega


theorem ofNat64_add (a b : Nat) : BitVec.ofNat 64 a + BitVec.ofNat 64 b = BitVec.ofNat 64 (a + b) :=
  (BitVec.ofNat_add a b).symm

/-! ### uniqueness of the specification -/

theorem isFirst_unique {f : Nat → BitVec 64} {m : Nat} {k : BitVec 64} {j1 j2 : Nat}
    (h1 : IsFirst f m k j1) (h2 : IsFirst f m k j2) : j1 = j2 := by
  obtain ⟨a1, b1, c1⟩ := h1
  obtain ⟨a2, b2, c2⟩ := h2
  rcases Nat.lt_trichotomy j1 j2 with h | h | h
  · have := b2 j1 h
    have := c1 (by omega)
    exact absurd ‹f (2 * j1) < k› (BitVec.not_lt.mpr ‹k ≤ f (2 * j1)›)
  · exact h
  · have := b1 j2 h
    have := c2 (by omega)
    exact absurd ‹f (2 * j2) < k› (BitVec.not_lt.mpr ‹k ≤ f (2 * j2)›)

/-- the specification only looks at the first `2m` words -/
theorem isFirst_congr {f g : Nat → BitVec 64} {m : Nat} {k : BitVec 64} {j : Nat}
    (hfg : ∀ i, i < 2 * m → f i = g i) (h : IsFirst f m k j) : IsFirst g m k j := by
  obtain ⟨a, b, c⟩ := h
  refine ⟨a, fun j' hj' => ?_, fun hj => ?_⟩
  · rw [← hfg _ (by omega)]; exact b j' hj'
  · rw [← hfg _ (by omega)]; exact c hj

/-! ### `Naive` -/

/-- the slice as a function (what `IsFirst` talks about) -/
def at! (xs : Words) : Nat → BitVec 64 := fun i => xs[i]!

theorem naiveGo_spec (xs : Words) (k : BitVec 64) (hs : (xs.size + 1) / 2 < 2 ^ 15) :
    ∀ fuel a, a % 2 = 0 → a ≤ xs.size + 1 → (xs.size + 1 - a) / 2 < fuel →
      (∀ j, 2 * j < a → at! xs (2 * j) < k) →
      ∃ j, naiveGo xs k fuel (BitVec.ofNat 64 a) = some (BitVec.ofNat 16 j) ∧
        IsFirst (at! xs) ((xs.size + 1) / 2) k j := by
  intro fuel
  induction fuel with
  | zero => intro a _ _ h; omega
  | succ fuel ih =>
    intro a ha hle hfuel inv
    have hcond : naiveLoopCond (BitVec.ofNat 64 a) xs = decide (a < xs.size) := by
      unfold naiveLoopCond; rw [slt_ofNat _ _ (by omega) (by omega)]
    have hidx : (BitVec.ofNat 64 a).toNat = a := toNat_ofNat64 a (by omega)
    unfold naiveGo
    rw [hcond]
    by_cases hlt : a < xs.size
    · simp only [hlt, decide_true, ↓reduceIte, hidx]
      by_cases hge : naiveGe (naiveLoad xs (BitVec.ofNat 64 a)) k = true
      · simp only [hge, ↓reduceIte]
        refine ⟨a / 2, ?_, by omega, fun j' hj' => inv j' (by omega), fun _ => ?_⟩
        · unfold naiveRet; rw [sdiv2_ofNat a (by omega), setWidth16_ofNat64]
        · have : 2 * (a / 2) = a := by omega
          rw [this]
          unfold naiveGe naiveLoad at hge
          rw [hidx] at hge
          exact BitVec.ule_iff_le.mp hge
      · simp only [hge, Bool.false_eq_true, ↓reduceIte]
        have hstep : naiveLoopStep (BitVec.ofNat 64 a) = BitVec.ofNat 64 (a + 2) := by
          unfold naiveLoopStep; exact ofNat64_add a 2
        rw [hstep]
        apply ih (a + 2) (by omega) (by omega) (by omega)
        intro j hj
        by_cases h' : 2 * j < a
        · exact inv j h'
        · have : 2 * j = a := by omega
          rw [this]
          unfold naiveGe naiveLoad at hge
          rw [hidx] at hge
          exact BitVec.not_le.mp (fun hc => hge (BitVec.ule_iff_le.mpr hc))
    · simp only [hlt, decide_false, Bool.false_eq_true, ↓reduceIte]
      refine ⟨a / 2, ?_, by omega, fun j' hj' => inv j' (by omega), fun h => by omega⟩
      unfold naiveEnd; rw [sdiv2_ofNat a (by omega), setWidth16_ofNat64]

theorem naive_isFirst (xs : Words) (k : BitVec 64) (hs : (xs.size + 1) / 2 < 2 ^ 15) :
    ∃ j, naive xs k = some (BitVec.ofNat 16 j) ∧ IsFirst (at! xs) ((xs.size + 1) / 2) k j := by
  unfold naive naiveLoopInit
  exact naiveGo_spec xs k hs (xs.size + 1) 0 rfl (by omega) (by omega) (fun j hj => by omega)



/-! ### the tail loop of the amd64 wrapper -/

theorem tailGo_spec (xs : Words) (k : BitVec 64) (hs : xs.size / 2 < 2 ^ 15) (heven : xs.size % 2 = 0) :
    ∀ fuel a, a % 2 = 0 → a ≤ xs.size → (xs.size - a) / 2 < fuel →
      (∀ j, 2 * j < a → at! xs (2 * j) < k) →
      ∃ j, tailGo xs k fuel (BitVec.ofNat 64 a) = some (BitVec.ofNat 16 j) ∧
        IsFirst (at! xs) (xs.size / 2) k j := by
  intro fuel
  induction fuel with
  | zero => intro a _ _ h; omega
  | succ fuel ih =>
    intro a ha hle hfuel inv
    have hcond : wrapTailCond (BitVec.ofNat 64 a) xs = decide (a < xs.size) := by
      unfold wrapTailCond; rw [slt_ofNat _ _ (by omega) (by omega)]
    have hidx : (BitVec.ofNat 64 a).toNat = a := toNat_ofNat64 a (by omega)
    unfold tailGo
    rw [hcond]
    by_cases hlt : a < xs.size
    · simp only [hlt, decide_true, ↓reduceIte, hidx]
      by_cases hge : wrapGe xs (BitVec.ofNat 64 a) k = true
      · simp only [hge, ↓reduceIte]
        refine ⟨a / 2, ?_, by omega, fun j' hj' => inv j' (by omega), fun _ => ?_⟩
        · unfold wrapRet; rw [sdiv2_ofNat a (by omega), setWidth16_ofNat64]
        · have : 2 * (a / 2) = a := by omega
          rw [this]
          unfold wrapGe at hge
          rw [hidx] at hge
          exact BitVec.ule_iff_le.mp hge
      · simp only [hge, Bool.false_eq_true, ↓reduceIte]
        have hstep : wrapTailStep (BitVec.ofNat 64 a) = BitVec.ofNat 64 (a + 2) := by
          unfold wrapTailStep; exact ofNat64_add a 2
        rw [hstep]
        apply ih (a + 2) (by omega) (by omega) (by omega)
        intro j hj
        by_cases h' : 2 * j < a
        · exact inv j h'
        · have : 2 * j = a := by omega
          rw [this]
          unfold wrapGe at hge
          rw [hidx] at hge
          exact BitVec.not_le.mp (fun hc => hge (BitVec.ule_iff_le.mpr hc))
    · simp only [hlt, decide_false, Bool.false_eq_true, ↓reduceIte]
      have : a = xs.size := by omega
      subst this
      refine ⟨xs.size / 2, ?_, Nat.le_refl _, fun j' hj' => inv j' (by omega), fun h => by omega⟩
      unfold wrapNone; rw [sdiv2_ofNat _ (by omega), setWidth16_ofNat64]

theorem memOf_lt (xs : Words) (tail : Nat → BitVec 64) (i : Nat) (h : i < xs.size) :
    memOf xs tail i = at! xs i := by
  simp [memOf, at!, h]



/-! ### the amd64 wrapper -/

theorem search_spec (e : Env) (xs : Words) (k : BitVec 64) (heven : xs.size % 2 = 0)
    (hs : xs.size / 2 < 2 ^ 15) (hcap : xs.size ≤ e.cap.toNat) :
    ∃ j, search e xs k = some (BitVec.ofNat 16 j) ∧ IsFirst (at! xs) (xs.size / 2) k j := by
  have hN : wrapN xs = BitVec.ofNat 64 (xs.size - xs.size % 8) := by
    unfold wrapN
    first
      | exact and_not7_ofNat xs.size (by omega)
      | exact sub_and7_ofNat xs.size (by omega)
  have hpre : wrapHasPrefix (BitVec.ofNat 64 (xs.size - xs.size % 8)) = decide (0 < xs.size - xs.size % 8) := by
    unfold wrapHasPrefix
    rw [show (0#64 : BitVec 64) = BitVec.ofNat 64 0 from rfl, slt_ofNat _ _ (by omega) (by omega)]
  unfold search
  simp only [hN, hpre]
  unfold wrapTailInit
  by_cases hpos : 0 < xs.size - xs.size % 8
  · simp only [hpos, decide_true, ↓reduceIte]
    have hule : BitVec.ule (BitVec.ofNat 64 (xs.size - xs.size % 8)) e.cap = true := by
      rw [BitVec.ule_eq_decide, toNat_ofNat64 _ (by omega)]
      simp only [decide_eq_true_eq]; omega
    simp only [hule, ↓reduceIte]
    obtain ⟨j, hj, hfirst, _⟩ := asm_spec e (memOf xs e.tail) (xs.size - xs.size % 8) k (by omega) hpos (by omega)
    rw [hj]
    obtain ⟨hjle, hbelow, hat⟩ := hfirst
    have hfound : wrapFound (BitVec.ofNat 16 j) (BitVec.ofNat 64 (xs.size - xs.size % 8)) =
        decide (j < (xs.size - xs.size % 8) / 2) := by
      unfold wrapFound
      rw [signExtend_ofNat16 j (by omega), sdiv2_ofNat _ (by omega), slt_ofNat _ _ (by omega) (by omega)]
    simp only [hfound]
    by_cases hlt : j < (xs.size - xs.size % 8) / 2
    · simp only [hlt, decide_true, ↓reduceIte]
      refine ⟨j, rfl, by omega, fun j' hj' => ?_, fun _ => ?_⟩
      · rw [← memOf_lt xs e.tail _ (by omega)]; exact hbelow j' hj'
      · rw [← memOf_lt xs e.tail _ (by omega)]; exact hat hlt
    · simp only [hlt, decide_false, Bool.false_eq_true, ↓reduceIte]
      apply tailGo_spec xs k hs heven (xs.size + 1) (xs.size - xs.size % 8) (by omega) (by omega) (by omega)
      intro j' hj'
      rw [← memOf_lt xs e.tail _ (by omega)]
      exact hbelow j' (by omega)
  · simp only [hpos, decide_false, Bool.false_eq_true, ↓reduceIte]
    have h0 : xs.size - xs.size % 8 = 0 := by omega
    rw [h0]
    exact tailGo_spec xs k hs heven (xs.size + 1) 0 rfl (by omega) (by omega) (fun j hj => by omega)



/-! ### the portable `Search` (search.go) -/

theorem portableGe0_eq (l0 l1 l2 l3 k : BitVec 64) :
    portableGe0 #[l0, l1, l2, l3] #[k, k, k, k] = BitVec.ule k l0 := rfl
theorem portableGe1_eq (l0 l1 l2 l3 k : BitVec 64) :
    portableGe1 #[l0, l1, l2, l3] #[k, k, k, k] = BitVec.ule k l1 := rfl
theorem portableGe2_eq (l0 l1 l2 l3 k : BitVec 64) :
    portableGe2 #[l0, l1, l2, l3] #[k, k, k, k] = BitVec.ule k l2 := rfl
theorem portableGe3_eq (l0 l1 l2 l3 k : BitVec 64) :
    portableGe3 #[l0, l1, l2, l3] #[k, k, k, k] = BitVec.ule k l3 := rfl

theorem portableLoad_eq (xs : Words) (a : Nat) (ha : a + 6 < 2 ^ 63) :
    portableLoad0 xs (BitVec.ofNat 64 a) = at! xs a ∧ portableLoad1 xs (BitVec.ofNat 64 a) = at! xs (a + 2) ∧
    portableLoad2 xs (BitVec.ofNat 64 a) = at! xs (a + 4) ∧ portableLoad3 xs (BitVec.ofNat 64 a) = at! xs (a + 6) := by
  unfold portableLoad0 portableLoad1 portableLoad2 portableLoad3 at!
  rw [show (2#64 : BitVec 64) = BitVec.ofNat 64 2 from rfl, show (4#64 : BitVec 64) = BitVec.ofNat 64 4 from rfl,
    show (6#64 : BitVec 64) = BitVec.ofNat 64 6 from rfl]
  simp only [ofNat64_add]
  rw [toNat_ofNat64 a (by omega), toNat_ofNat64 (a + 2) (by omega), toNat_ofNat64 (a + 4) (by omega),
    toNat_ofNat64 (a + 6) (by omega)]
  exact ⟨rfl, rfl, rfl, rfl⟩

theorem portableRet_eq (a : Nat) (ha : a + 6 < 2 ^ 63) :
    portableRet0 (BitVec.ofNat 64 a) = BitVec.ofNat 16 (a / 2) ∧
    portableRet1 (BitVec.ofNat 64 a) = BitVec.ofNat 16 ((a + 2) / 2) ∧
    portableRet2 (BitVec.ofNat 64 a) = BitVec.ofNat 16 ((a + 4) / 2) ∧
    portableRet3 (BitVec.ofNat 64 a) = BitVec.ofNat 16 ((a + 6) / 2) := by
  unfold portableRet0 portableRet1 portableRet2 portableRet3
  rw [show (2#64 : BitVec 64) = BitVec.ofNat 64 2 from rfl, show (4#64 : BitVec 64) = BitVec.ofNat 64 4 from rfl,
    show (6#64 : BitVec 64) = BitVec.ofNat 64 6 from rfl]
  simp only [ofNat64_add]
  rw [sdiv2_ofNat a (by omega), sdiv2_ofNat (a + 2) (by omega), sdiv2_ofNat (a + 4) (by omega),
    sdiv2_ofNat (a + 6) (by omega)]
  simp only [setWidth16_ofNat64, and_self]

theorem portableGo_spec (xs : Words) (k : BitVec 64) (hs : xs.size / 2 < 2 ^ 15) (h8 : xs.size % 8 = 0) :
    ∀ fuel a, a % 8 = 0 → a ≤ xs.size → (xs.size - a) / 8 < fuel →
      (∀ j, 2 * j < a → at! xs (2 * j) < k) →
      ∃ j, portableGo xs k fuel (BitVec.ofNat 64 a) = some (BitVec.ofNat 16 j) ∧
        IsFirst (at! xs) (xs.size / 2) k j := by
  intro fuel
  induction fuel with
  | zero => intro a _ _ h; omega
  | succ fuel ih =>
    intro a ha hle hfuel inv
    have hcond : portableLoopCond (BitVec.ofNat 64 a) xs = decide (a < xs.size) := by
      unfold portableLoopCond; rw [slt_ofNat _ _ (by omega) (by omega)]
    have hidx : (BitVec.ofNat 64 a).toNat = a := toNat_ofNat64 a (by omega)
    unfold portableGo
    rw [hcond]
    by_cases hlt : a < xs.size
    · have hb : a + 6 < xs.size ∧ a + 6 < 2 ^ 63 := by omega
      obtain ⟨l0, l1, l2, l3⟩ := portableLoad_eq xs a (by omega)
      obtain ⟨r0, r1, r2, r3⟩ := portableRet_eq a (by omega)
      simp only [hlt, decide_true, ↓reduceIte, hidx, hb, and_self, portableGe0_eq, portableGe1_eq, portableGe2_eq,
        portableGe3_eq, l0, l1, l2, l3, r0, r1, r2, r3]
      have found : ∀ p, a ≤ p → p < a + 8 → p % 2 = 0 → (∀ q, a ≤ q → q < p → q % 2 = 0 → at! xs q < k) →
          k ≤ at! xs p → IsFirst (at! xs) (xs.size / 2) k (p / 2) := by
        intro p h1 h2 h3 hbetween hge
        refine ⟨by omega, fun j' hj' => ?_, fun _ => ?_⟩
        · by_cases h : 2 * j' < a
          · exact inv j' h
          · exact hbetween (2 * j') (by omega) (by omega) (by omega)
        · have : 2 * (p / 2) = p := by omega
          rw [this]; exact hge
      by_cases h0 : k ≤ at! xs a
      · simp only [BitVec.ule_iff_le.mpr h0, ↓reduceIte]
        exact ⟨a / 2, rfl, found a (by omega) (by omega) (by omega) (fun q _ _ _ => by omega) h0⟩
      have n0 : BitVec.ule k (at! xs a) = false := by
        rw [Bool.eq_false_iff]; exact fun h => h0 (BitVec.ule_iff_le.mp h)
      by_cases h1 : k ≤ at! xs (a + 2)
      · simp only [n0, BitVec.ule_iff_le.mpr h1, Bool.false_eq_true, ↓reduceIte]
        refine ⟨(a + 2) / 2, rfl, found (a + 2) (by omega) (by omega) (by omega) (fun q q1 q2 q3 => ?_) h1⟩
        have : q = a := by omega
        subst this; exact BitVec.not_le.mp h0
      have n1 : BitVec.ule k (at! xs (a + 2)) = false := by
        rw [Bool.eq_false_iff]; exact fun h => h1 (BitVec.ule_iff_le.mp h)
      by_cases h2 : k ≤ at! xs (a + 4)
      · simp only [n0, n1, BitVec.ule_iff_le.mpr h2, Bool.false_eq_true, ↓reduceIte]
        refine ⟨(a + 4) / 2, rfl, found (a + 4) (by omega) (by omega) (by omega) (fun q q1 q2 q3 => ?_) h2⟩
        have : q = a ∨ q = a + 2 := by omega
        rcases this with rfl | rfl
        · exact BitVec.not_le.mp h0
        · exact BitVec.not_le.mp h1
      have n2 : BitVec.ule k (at! xs (a + 4)) = false := by
        rw [Bool.eq_false_iff]; exact fun h => h2 (BitVec.ule_iff_le.mp h)
      by_cases h3 : k ≤ at! xs (a + 6)
      · simp only [n0, n1, n2, BitVec.ule_iff_le.mpr h3, Bool.false_eq_true, ↓reduceIte]
        refine ⟨(a + 6) / 2, rfl, found (a + 6) (by omega) (by omega) (by omega) (fun q q1 q2 q3 => ?_) h3⟩
        have : q = a ∨ q = a + 2 ∨ q = a + 4 := by omega
        rcases this with rfl | rfl | rfl
        · exact BitVec.not_le.mp h0
        · exact BitVec.not_le.mp h1
        · exact BitVec.not_le.mp h2
      have n3 : BitVec.ule k (at! xs (a + 6)) = false := by
        rw [Bool.eq_false_iff]; exact fun h => h3 (BitVec.ule_iff_le.mp h)
      simp only [n0, n1, n2, n3, Bool.false_eq_true, ↓reduceIte]
      have hstep : portableLoopStep (BitVec.ofNat 64 a) = BitVec.ofNat 64 (a + 8) := by
        unfold portableLoopStep; exact ofNat64_add a 8
      rw [hstep]
      apply ih (a + 8) (by omega) (by omega) (by omega)
      intro j hj
      by_cases h' : 2 * j < a
      · exact inv j h'
      · have : 2 * j = a ∨ 2 * j = a + 2 ∨ 2 * j = a + 4 ∨ 2 * j = a + 6 := by omega
        rcases this with h | h | h | h <;> rw [h]
        · exact BitVec.not_le.mp h0
        · exact BitVec.not_le.mp h1
        · exact BitVec.not_le.mp h2
        · exact BitVec.not_le.mp h3
    · simp only [hlt, decide_false, Bool.false_eq_true, ↓reduceIte]
      have : a = xs.size := by omega
      subst this
      refine ⟨xs.size / 2, ?_, Nat.le_refl _, fun j' hj' => inv j' (by omega), fun h => by omega⟩
      unfold portableNone; rw [sdiv2_ofNat _ (by omega), setWidth16_ofNat64]

theorem portableUseNaive_eq (xs : Words) (hs : xs.size < 2 ^ 63) :
    portableUseNaive xs = decide (xs.size < 8 ∨ xs.size % 8 ≠ 0) := by
  unfold portableUseNaive
  rw [show (8#64 : BitVec 64) = BitVec.ofNat 64 8 from rfl, slt_ofNat _ _ hs (by omega),
    show (BitVec.ofNat 64 8 : BitVec 64) = 8#64 from rfl, srem8_ofNat _ hs]
  have : (BitVec.ofNat 64 (xs.size % 8) != 0#64) = decide (xs.size % 8 ≠ 0) := by
    rw [bne, show (0#64 : BitVec 64) = BitVec.ofNat 64 0 from rfl]
    by_cases h : xs.size % 8 = 0
    · simp [h]
    · have : BitVec.ofNat 64 (xs.size % 8) ≠ BitVec.ofNat 64 0 := by
        intro hc
        have := congrArg BitVec.toNat hc
        rw [toNat_ofNat64 _ (by omega), toNat_ofNat64 _ (by omega)] at this
        exact h this
      simp [h, this]
  rw [this, Bool.decide_or]

theorem portable_spec (xs : Words) (k : BitVec 64) (hs : (xs.size + 1) / 2 < 2 ^ 15) :
    ∃ j, portable xs k = some (BitVec.ofNat 16 j) ∧ IsFirst (at! xs) ((xs.size + 1) / 2) k j := by
  unfold portable
  rw [portableUseNaive_eq xs (by omega)]
  by_cases h : xs.size < 8 ∨ xs.size % 8 ≠ 0
  · simp only [h, decide_true, ↓reduceIte]
    exact naive_isFirst xs k hs
  · simp only [h, decide_false, Bool.false_eq_true, ↓reduceIte]
    have h8 : xs.size % 8 = 0 := by omega
    have hm : (xs.size + 1) / 2 = xs.size / 2 := by omega
    rw [hm]
    unfold portableLoopInit
    exact portableGo_spec xs k (by omega) h8 (xs.size + 1) 0 rfl (by omega) (by omega) (fun j hj => by omega)

end RV.SimdProofs
