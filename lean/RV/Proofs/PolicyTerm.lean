import RV.Proofs.PolicyAdd
/-!
Termination of the eviction loop of `defaultPolicy.Add` under admissible enumerations:
with `6 · |keyCosts|` enumerations available the model never reports `stuck`.

Measure: `6 · |keyCosts| + #stale sample entries`.  A real eviction removes a key (and the
sample has at most 4 entries afterwards); a phantom eviction removes one stale entry from the
sample, and an admissible refill only appends live entries.  When nothing is accounted,
`used = 0` and the newcomer (`cost ≤ maxCost`) fits.
-/
namespace RV.Policy

theorem countP_take_last {α : Type} (P : α → Bool) (l : List α) (h : 0 < l.length) :
    (l.take (l.length - 1)).countP P + (if P (l[l.length - 1]'(by omega)) then 1 else 0) = l.countP P := by
  have h1 : l.length - 1 < l.length := by omega
  conv => rhs; rw [← List.take_append_drop (l.length - 1) l]
  rw [List.countP_append, List.drop_eq_getElem_cons h1]
  have : l.length - 1 + 1 = l.length := by omega
  rw [this, List.drop_length]
  simp [List.countP_cons]

/-- the swap-remove removes exactly the entry at `i` (as a multiset) -/
theorem countP_swapRemove (P : KC → Bool) {s s' : List KC} {i : Nat} (hi : i < s.length)
    (hlen : s.length < 2 ^ 63) (h : swapRemove s i = some s') :
    s'.countP P + (if P s[i] then 1 else 0) = s.countP P := by
  obtain ⟨x, hx, he⟩ := swapRemove_eq hi hlen
  rw [he] at h
  injection h with h
  subst h
  have hn : 0 < s.length := by omega
  have hxl : x = s[s.length - 1] := by
    rw [List.getElem?_eq_getElem (by omega)] at hx; injection hx with hx; exact hx.symm
  have hl : (s.set i x).length = s.length := by simp
  have h1 := countP_take_last P (s.set i x) (by rw [hl]; exact hn)
  have hlast : (s.set i x)[(s.set i x).length - 1]'(by rw [hl]; omega) = x := by
    simp only [hl]
    rw [List.getElem_set]
    split
    · rfl
    · exact hxl.symm
  rw [hlast] at h1
  simp only [hl] at h1
  have h2 := List.countP_set (p := P) (a := x) hi
  have h3 : (if P s[i] = true then 1 else 0) ≤ s.countP P := by
    have := List.boole_getElem_le_countP (p := P) hi
    exact this
  omega

/-- sample entries whose key is not accounted (any more) -/
def stale (kcs s : List KC) : Nat := s.countP (fun x => (lookup kcs x.1).isNone)

def loopMeasure (p : Pol) (carry : List KC) : Nat := 6 * p.keyCosts.length + stale p.keyCosts carry

theorem stale_le (kcs s : List KC) : stale kcs s ≤ s.length := List.countP_le_length

theorem length_erase_lt {kcs : List KC} {k : Hash} {c : Int} (h : lookup kcs k = some c) :
    (erase kcs k).length < kcs.length := by
  induction kcs with
  | nil => simp [lookup] at h
  | cons kc rest ih =>
    simp only [lookup] at h
    have hle : ∀ l : List KC, (erase l k).length ≤ l.length := by
      intro l
      induction l with
      | nil => simp [erase]
      | cons a l ihl => simp only [erase]; split <;> simp <;> omega
    by_cases hk : kc.1 = k
    · simp only [erase, hk, if_true, List.length_cons]
      have := hle rest; omega
    · simp only [hk, if_false] at h
      simp only [erase, hk, if_false, List.length_cons]
      have := ih h; omega

theorem stale_fill {kcs carry enum : List KC} (hnd : (keys kcs).Nodup) (hlen : carry.length < 2 ^ 63)
    (hadm : Admissible kcs carry enum) : stale kcs (fillSample carry enum) = stale kcs carry := by
  rw [fillSample_eq_take carry enum hlen]
  unfold stale
  rw [List.countP_append]
  have : (enum.take (Gen.Policy.lfuSample.toNat - carry.length)).countP (fun x => (lookup kcs x.1).isNone) = 0 := by
    rw [List.countP_eq_zero]
    intro x hx
    have hm := hadm.2.1 x (List.mem_of_mem_take hx)
    rw [lookup_of_mem hnd hm]; simp
  omega

theorem loop_not_stuck {est : Hash → Int} (hest : EstOK est) (key : Hash) (cost : Int) {inc : Int}
    (hinc : IncOK inc) (enums : List (List KC)) (p : Pol) (carry : List KC) (hwf : p.wf)
    (hno : p.NoOvf cost) (hle : cost ≤ p.maxCost) (hlen : carry.length ≤ Gen.Policy.lfuSample.toNat)
    (hadm : ∀ r ∈ (evictLoop est key cost inc enums p carry).rounds, Admissible r.before.keyCosts r.carry r.enum)
    (hn : loopMeasure p carry ≤ enums.length) :
    (evictLoop est key cost inc enums p carry).status ≠ .stuck := by
  have h5 := lfuSample_eq
  have hempty : ∀ q : Pol, q.wf → q.NoOvf cost → cost ≤ q.maxCost → q.keyCosts = [] →
      needRoom (roomLeft q.maxCost q.used cost) = false := by
    intro q hq hnq hlq he
    rw [needRoom_roomLeft hq hnq]
    have : q.used = 0 := by rw [hq.2, he]; rfl
    simp only [decide_eq_false_iff_not]; omega
  induction enums generalizing p carry with
  | nil =>
    have hk : p.keyCosts = [] := by
      unfold loopMeasure at hn
      simp only [List.length_nil] at hn
      exact List.length_eq_zero_iff.1 (by omega)
    rw [evictLoop_done est key cost inc [] p carry (hempty p hwf hno hle hk)]
    simp
  | cons enum rest ih =>
    cases hnr : needRoom (roomLeft p.maxCost p.used cost) with
    | false => rw [evictLoop_done est key cost inc _ p carry hnr]; simp
    | true =>
      cases hr : incLess inc (scan est (fillSample carry enum)).hits with
      | true => rw [evictLoop_reject est key cost inc enum rest p carry hnr hr]; simp
      | false =>
        have hcl : carry.length < 2 ^ 63 := by omega
        have hsl : (fillSample carry enum).length ≤ Gen.Policy.lfuSample.toNat := by
          rw [length_fillSample carry enum hcl]; omega
        obtain ⟨hne, s', hs'⟩ := round_not_rejected hest hinc (by omega) hr
        have hsp := scan_spec hest hne
        rw [evictLoop_continue est key cost inc enum rest p carry s' hnr hr hs'] at hadm ⊢
        simp only [List.mem_cons, forall_eq_or_imp] at hadm
        have hl' := length_swapRemove hsp.1 (by omega) hs'
        have hcnt := countP_swapRemove (fun x => (lookup p.keyCosts x.1).isNone) hsp.1 (by omega) hs'
        have hfill := stale_fill hwf.1 hcl hadm.1
        have hget : (fillSample carry enum)[(scan est (fillSample carry enum)).id] =
            ((scan est (fillSample carry enum)).key, (scan est (fillSample carry enum)).cost) := by
          have := hsp.2.1
          rw [List.getElem?_eq_getElem hsp.1] at this
          injection this
        have hmaxc : (p.del (scan est (fillSample carry enum)).key).maxCost = p.maxCost := Pol.del_maxCost _ _
        have hmeas : loopMeasure (p.del (scan est (fillSample carry enum)).key) s' ≤ rest.length := by
          simp only [List.length_cons] at hn
          cases hl : lookup p.keyCosts (scan est (fillSample carry enum)).key with
          | none =>
            rw [Pol.del_none hl]
            unfold loopMeasure stale at hn ⊢
            unfold stale at hfill
            rw [hget] at hcnt
            simp only [hl, Option.isNone_none, if_true] at hcnt
            omega
          | some c =>
            unfold loopMeasure at hn ⊢
            rw [Pol.del_keyCosts]
            have h1 := length_erase_lt hl
            have h2 := stale_le (erase p.keyCosts (scan est (fillSample carry enum)).key) s'
            omega
        have IH := ih (p.del (scan est (fillSample carry enum)).key) s'
          (Pol.wf_del _ hwf hno) (Pol.noOvf_del _ hno) (by rw [hmaxc]; exact hle) (by omega) hadm.2 hmeas
        simpa using IH

end RV.Policy
