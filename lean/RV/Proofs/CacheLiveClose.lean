import RV.Proofs.CacheLiveClear
/-!
# C15: `Close` that is not overlapped by other calls leaves an empty, inert cache

`ExclClose`: a `Close` call is spawned only when every client is idle, and while a client is
inside `Close` no call is spawned (C08/C15: `Close` is excluded from concurrency).  Under it
(`ReachX`) a closed cache has an empty store, empty buffer, empty policy accounting, empty
expiry index, zeroed metrics (when on) — so the calls without a closed check (`GetTTL`,
`MaxCost`, …) are harmless — and only inert pcs occur.
-/
namespace RV.Cache
open Gen.Cache

def ExclClose : State → Action → Prop := fun s a =>
  match a with
  | .spawn _ c => (∀ t', (s.cl t').closing = false) ∧ (c = .close → ∀ t', s.cl t' = .idle)
  | _ => True

/-- reachable with `Close` never overlapped by another call -/
abbrev ReachX (cfg : Cfg) (s : State) : Prop := ReachBy cfg ExclClose s

/-- the shared state holds nothing -/
structure Empty (cfg : Cfg) (s : State) : Prop where
  buf : s.buf = []
  sendq : s.sendq = []
  costs : s.pol.costs = AMap.empty
  used : s.pol.used = 0
  store : s.store = AMap.empty
  buckets : s.em.buckets = AMap.empty
  met : cfg.metricsOn = true → s.met = {}

theorem empty_congr {cfg : Cfg} {s s' : State} (h : Empty cfg s) (hb : s'.buf = s.buf) (hq : s'.sendq = s.sendq)
    (hc : s'.pol.costs = s.pol.costs) (hu : s'.pol.used = s.pol.used) (hst : s'.store = s.store)
    (hbk : s'.em.buckets = s.em.buckets) (hm : s'.met = s.met) : Empty cfg s' :=
  ⟨by rw [hb]; exact h.buf, by rw [hq]; exact h.sendq, by rw [hc]; exact h.costs, by rw [hu]; exact h.used,
    by rw [hst]; exact h.store, by rw [hbk]; exact h.buckets, by rw [hm]; exact h.met⟩

/-- applier pcs that can occur between the restart inside `Close` and the second stop when
nothing is buffered and the expiry index is empty -/
def APc.calm : APc → Bool
  | .idle => true | .tick => true | .sweep _ [] => true | .stopAck => true | .dead => true | _ => false

/-- pcs that can occur on a closed cache -/
def CPc.inert : CPc → Bool
  | .idle => true | .setStart .. => true | .getStart .. => true | .ttlRead .. => true | .ttlCheck .. => true
  | .ttlExp .. => true | .ttlNow .. => true | .ttlUntil .. => true | .delStart .. => true | .waitStart => true
  | .clrStart _ => true | .iterStart _ => true | .updMax _ => true | .readMax => true | .readRem => true
  | _ => false

def CPc.cls : CPc → Bool
  | .clsStop => true | .clsDone => true | .clsFinish => true | _ => false

theorem grab_empty (em : Em) (now : Time) (h : em.buckets = AMap.empty) :
    (em.grab now).1.buckets = AMap.empty ∧ (em.grab now).2 = [] := by
  unfold Em.grab
  simp [h, AMap.toList, AMap.empty]
  rfl

structure XInv (cfg : Cfg) (s : State) : Prop where
  alone : ∀ t, (s.cl t).closing = true → ∀ t', t' ≠ t → s.cl t' = .idle
  phase : ∀ t, (s.cl t).closing = true → (s.cl t).busy = true → (s.cl t).cls = false → ClrFacts cfg s (s.cl t)
  cls : ∀ t, (s.cl t).cls = true → Empty cfg s ∧ s.app.calm = true
  closedE : s.closed = true → Empty cfg s ∧ ∀ t, (s.cl t).inert = true

theorem startPc_inert (c : Call) : (startPc c).inert = true := by cases c <;> rfl

/-- a client step on a closed cache: from an inert pc to an inert pc, shared state untouched
(only `UpdateMaxCost` writes the capacity word) -/
theorem closed_client_step {cfg : Cfg} {s s' : State} {t : Tid} {ch : Choice} (hc : s.closed = true)
    (hi : (s.cl t).inert = true) (hs : clientStep cfg s t ch = some s') :
    s'.buf = s.buf ∧ s'.sendq = s.sendq ∧ s'.pol.costs = s.pol.costs ∧ s'.pol.used = s.pol.used ∧
      s'.store = s.store ∧ s'.em = s.em ∧ s'.met = s.met ∧ s'.app = s.app ∧ s'.closed = s.closed ∧
      (∀ t', t' ≠ t → s'.cl t' = s.cl t') ∧ (s'.cl t).inert = true := by
  cases hpc : s.cl t <;> rw [hpc] at hi <;> first | cases hi | skip
  all_goals (unfold clientStep at hs; rw [hpc] at hs; dsimp only at hs)
  case idle => simp at hs
  case getStart h c =>
    simp only [stGetStart, hc, if_true, Option.some.injEq] at hs; subst hs
    exact ⟨rfl, rfl, rfl, rfl, rfl, rfl, rfl, rfl, rfl, fun t' hne => by simp [setCl_cl_ne _ _ _ hne], by simp; rfl⟩
  all_goals (obtain ⟨-, hs⟩ := needNone_some hs; simp only [Option.some.injEq] at hs; subst hs)
  case setStart h c v cost ttl =>
    rw [show stSetStart s t h c v cost ttl = logEv (setCl s t .idle) (.setRet t v false) from by simp [stSetStart, hc]]
    exact ⟨rfl, rfl, rfl, rfl, rfl, rfl, rfl, rfl, rfl, fun t' hne => by simp [setCl_cl_ne _ _ _ hne], by simp; rfl⟩
  case delStart h c =>
    rw [show stDelStart s t h c = logEv (setCl s t .idle) (.delRet t h) from by simp [stDelStart, hc]]
    exact ⟨rfl, rfl, rfl, rfl, rfl, rfl, rfl, rfl, rfl, fun t' hne => by simp [setCl_cl_ne _ _ _ hne], by simp; rfl⟩
  case waitStart =>
    rw [show stWaitStart s t = logEv (setCl s t .idle) (.waitRet t) from by simp [stWaitStart, hc]]
    exact ⟨rfl, rfl, rfl, rfl, rfl, rfl, rfl, rfl, rfl, fun t' hne => by simp [setCl_cl_ne _ _ _ hne], by simp; rfl⟩
  case clrStart c =>
    rw [show stClrStart s t c = logEv (setCl s t .idle) (if c then .closeRet t else .clearRet t) from by simp [stClrStart, hc]]
    exact ⟨rfl, rfl, rfl, rfl, rfl, rfl, rfl, rfl, rfl, fun t' hne => by simp [setCl_cl_ne _ _ _ hne], by simp; rfl⟩
  case iterStart n =>
    rw [show stIterStart s t n = logEv (setCl s t .idle) (.iterRet t []) from by simp [stIterStart, hc]]
    exact ⟨rfl, rfl, rfl, rfl, rfl, rfl, rfl, rfl, rfl, fun t' hne => by simp [setCl_cl_ne _ _ _ hne], by simp; rfl⟩
  case ttlRead h c =>
    exact ⟨rfl, rfl, rfl, rfl, rfl, rfl, rfl, rfl, rfl, fun t' hne => stTtlRead_cl_ne s t h c hne,
      by simp [stTtlRead]; rfl⟩
  case ttlCheck h c e =>
    refine ⟨stTtlCheck_buf .., stTtlCheck_sendq .., by rw [stTtlCheck_pol], by rw [stTtlCheck_pol],
      stTtlCheck_store .., stTtlCheck_em .., stTtlCheck_met .., stTtlCheck_app .., stTtlCheck_closed ..,
      fun t' hne => stTtlCheck_cl_ne s t h c e hne, ?_⟩
    unfold stTtlCheck; split <;> simp <;> rfl
  case ttlExp h c =>
    refine ⟨stTtlExp_buf .., stTtlExp_sendq .., by rw [stTtlExp_pol], by rw [stTtlExp_pol],
      stTtlExp_store .., stTtlExp_em .., stTtlExp_met .., stTtlExp_app .., stTtlExp_closed ..,
      fun t' hne => stTtlExp_cl_ne s t h c hne, ?_⟩
    unfold stTtlExp; dsimp only; split <;> simp <;> rfl
  case ttlNow h c exp =>
    refine ⟨stTtlNow_buf .., stTtlNow_sendq .., by rw [stTtlNow_pol], by rw [stTtlNow_pol],
      stTtlNow_store .., stTtlNow_em .., stTtlNow_met .., stTtlNow_app .., stTtlNow_closed ..,
      fun t' hne => stTtlNow_cl_ne s t h c exp hne, ?_⟩
    unfold stTtlNow; split <;> simp <;> rfl
  case ttlUntil h c exp =>
    exact ⟨rfl, rfl, rfl, rfl, rfl, rfl, rfl, rfl, rfl, fun t' hne => stTtlUntil_cl_ne s t h c exp hne,
      by simp [stTtlUntil]; rfl⟩
  case updMax m =>
    exact ⟨rfl, rfl, rfl, rfl, rfl, rfl, rfl, rfl, rfl, fun t' hne => stUpdMax_cl_ne s t m hne,
      by simp [stUpdMax]; rfl⟩
  case readMax =>
    exact ⟨rfl, rfl, rfl, rfl, rfl, rfl, rfl, rfl, rfl, fun t' hne => stReadMax_cl_ne s t hne,
      by simp [stReadMax]; rfl⟩
  case readRem =>
    exact ⟨rfl, rfl, rfl, rfl, rfl, rfl, rfl, rfl, rfl, fun t' hne => stReadRem_cl_ne s t hne,
      by simp [stReadRem]; rfl⟩

theorem xinv_init (cfg : Cfg) (now : Time) : XInv cfg (init cfg now) := by
  refine ⟨fun t h => ?_, fun t h => ?_, fun t h => ?_, fun h => ?_⟩ <;> simp [init, CPc.closing, CPc.cls] at h

theorem cls_closing {pc : CPc} (h : pc.cls = true) : pc.closing = true := by
  cases pc <;> first | rfl | cases h

theorem own_cls {pc pc' : CPc} (h : OwnTr pc pc') (hc : pc'.cls = true) :
    pc = .clrRestart true ∧ pc' = .clsStop := by
  cases h <;> first | exact ⟨rfl, rfl⟩ | cases hc

theorem ext_cls {pc pc' : CPc} (h : Ext pc pc') (hne : pc ≠ .idle) (hc : pc'.cls = true) : pc.cls = true := by
  cases h with
  | @spawn call _ he => exact absurd rfl hne
  | _ => first | rfl | cases hc

theorem inert_not_active {pc : CPc} (h : pc.inert = true) : pc.busy = false ∧ pc.cls = false := by
  cases pc <;> first | exact ⟨rfl, rfl⟩ | cases h


theorem own_from_cls {pc pc' : CPc} (h : OwnTr pc pc') (hc : pc.cls = true) : pc' = .idle := by
  cases h <;> first | rfl | (cases hc; done)

theorem ext_cls_to {pc pc' : CPc} (h : Ext pc pc') (hc : pc.cls = true) : pc'.cls = true := by
  cases h <;> first | rfl | (cases hc; done)

theorem own_nonbusy {pc pc' : CPc} (h : OwnTr pc pc') (hb : pc.busy = false) : pc'.busy = false := by
  cases h <;> first | rfl | (cases hb; done)

theorem ext_to_busy {pc pc' : CPc} (h : Ext pc pc') (hne : pc ≠ .idle) (hb' : pc'.busy = true)
    (hc' : pc'.cls = false) : ∃ c, pc' = .clrDrain c := by
  cases h <;> first | exact ⟨_, rfl⟩ | (cases hb'; done) | (cases hc'; done) | exact absurd rfl hne

/-- idle clients stay idle unless spawned -/
theorem idle_stays {cfg : Cfg} {s s' : State} {a : Action} (hs : step cfg s a = some s') {t : Tid}
    (hi : s.cl t = .idle) (hns : ∀ c, a ≠ .spawn t c) : s'.cl t = .idle := by
  rcases step_cl hs t with e | ⟨c, e, _, _⟩ | ⟨_, _, e⟩ | ⟨e, _⟩
  · rw [e]; exact hi
  · exact absurd e (hns c)
  · rw [hi] at e; exact absurd rfl (own_not_idle e)
  · exact absurd hi e

theorem xinv_step {cfg : Cfg} {s s' : State} {a : Action} (hr : Reach cfg s) (hcap : 1 ≤ cfg.bufCap)
    (hx : XInv cfg s) (hok : ExclClose s a) (hs : step cfg s a = some s') : XInv cfg s' := by
  have hh := handshake_reach hr
  -- somebody is inside Close: no spawn happens
  have hnospawn : ∀ t, (s.cl t).closing = true → a.isSpawn = false := by
    intro t ht
    cases a with
    | spawn t0 c0 => have := hok.1 t; rw [ht] at this; cases this
    | _ => rfl
  have halone' : ∀ t, (s.cl t).closing = true → ∀ t', t' ≠ t → s'.cl t' = .idle := by
    intro t ht t' hne
    refine idle_stays hs (hx.alone t ht t' hne) (fun c e => ?_)
    have := hnospawn t ht; rw [e] at this; cases this
  -- who is closing after the step was closing before, or has just been spawned with everybody idle
  have hclosing : ∀ t, (s'.cl t).closing = true →
      (s.cl t).closing = true ∨ (a = .spawn t .close ∧ ∀ t', s.cl t' = .idle) := by
    intro t ht
    rcases step_cl hs t with e | ⟨c, e, _, e2⟩ | ⟨_, _, e⟩ | ⟨hne, e⟩
    · rw [e] at ht; exact Or.inl ht
    · rw [e2] at ht
      have := startPc_closing c ht; subst this
      right; refine ⟨e, ?_⟩
      rw [e] at hok; exact hok.2 rfl
    · exact Or.inl (own_closing e ht)
    · exact Or.inl (ext_closing e hne ht)
  refine ⟨?_, ?_, ?_, ?_⟩
  · -- alone
    intro t ht t' hne
    rcases hclosing t ht with h0 | ⟨ea, hall⟩
    · exact halone' t h0 t' hne
    · subst ea
      have hs' : spawnStep s t .close = some s' := hs
      rw [spawnStep_cl_ne s t .close hs' hne]; exact hall t'
  · -- phase
    intro t ht hb hncls
    rcases hclosing t ht with h0 | ⟨ea, hall⟩
    · by_cases hb0 : (s.cl t).busy = true
      · by_cases hc0 : (s.cl t).cls = true
        · -- from the cls part the next pc is idle (not busy) or again in the cls part
          exfalso
          rcases step_cl hs t with e | ⟨c, e, e1, _⟩ | ⟨_, _, e⟩ | ⟨hne, e⟩
          · rw [e, hc0] at hncls; cases hncls
          · rw [e1] at hc0; cases hc0
          · rw [own_from_cls e hc0] at hb; cases hb
          · rw [ext_cls_to e hc0] at hncls; cases hncls
        · have hc0' : (s.cl t).cls = false := by cases h : (s.cl t).cls <;> simp_all
          have hinv : ClrInv cfg t true s.pol.maxCost s :=
            ⟨fun t' hne => by rw [hx.alone t h0 t' hne]; rfl, rfl, h0, hx.phase t h0 hb0 hc0'⟩
          rcases clr_step hr hcap hinv (hnospawn t h0) hs with h1 | ⟨_, h2⟩
          · exact h1.facts
          · subst h2
            have : (stClrRestart s t true).cl t = .clsStop := by simp [stClrRestart]
            rw [this] at hncls; cases hncls
      · -- t was closing but not busy: clrStart/clrStop/clrDone; it becomes busy only via `done`: clrDrain
        have hb0' : (s.cl t).busy = false := by cases h : (s.cl t).busy <;> simp_all
        rcases step_cl hs t with e | ⟨c, e, e1, _⟩ | ⟨_, _, e⟩ | ⟨hne, e⟩
        · rw [e, hb0'] at hb; cases hb
        · rw [e1] at h0; cases h0
        · rw [own_nonbusy e hb0'] at hb; cases hb
        · obtain ⟨c, hc⟩ := ext_to_busy e hne hb hncls
          rw [hc]; trivial
    · subst ea
      have hs' : spawnStep s t .close = some s' := hs
      rw [(spawn_shape hs').2] at hb; cases hb
  · -- cls
    intro t ht
    have hcl := cls_closing ht
    have h0 : (s.cl t).closing = true := by
      rcases hclosing t hcl with h0 | ⟨ea, hall⟩
      · exact h0
      · exfalso
        subst ea
        have hs' : spawnStep s t .close = some s' := hs
        rw [(spawn_shape hs').2] at ht; cases ht
    have hothers : ∀ t', t' ≠ t → s.cl t' = .idle := hx.alone t h0
    by_cases hc0 : (s.cl t).cls = true
    · -- already in the cls part
      obtain ⟨he, hcalm⟩ := hx.cls t hc0
      cases a with
      | spawn t0 c0 => have := hnospawn t h0; cases this
      | tick d =>
        simp only [step, Option.some.injEq] at hs; subst hs
        exact ⟨empty_congr he rfl rfl rfl rfl rfl rfl rfl, hcalm⟩
      | done t0 =>
        have hs' : doneStep s t0 = some s' := hs
        obtain ⟨_, h1, _⟩ := done_shape hs'
        exact ⟨empty_congr he (doneStep_buf _ _ hs') (doneStep_sendq _ _ hs') (by rw [doneStep_pol _ _ hs'])
          (by rw [doneStep_pol _ _ hs']) (doneStep_store _ _ hs') (by rw [doneStep_em _ _ hs'])
          (doneStep_met _ _ hs'), by rw [h1]; rfl⟩
      | client t0 ch =>
        have hs' : clientStep cfg s t0 ch = some s' := hs
        by_cases e : t0 = t
        · subst e
          cases hpc : s.cl t0 <;> rw [hpc] at hc0 <;> first | cases hc0 | skip
          · simp [clientStep, hpc] at hs'
          · simp [clientStep, hpc] at hs'
          · unfold clientStep at hs'; rw [hpc] at hs'; dsimp only at hs'
            obtain ⟨_, hs'⟩ := needNone_some hs'
            simp only [Option.some.injEq] at hs'; subst hs'
            simp [stClsFinish, CPc.cls] at ht
        · have := hothers t0 e
          simp [clientStep, this] at hs'
      | applier ch =>
        have hs' : applierStep cfg s ch = some s' := hs
        cases happ : s.app with
        | idle =>
          unfold applierStep at hs'; rw [happ] at hs'; dsimp only at hs'
          unfold apIdle at hs'
          split at hs'
          · unfold apSelItem at hs'
            have : recvBuf s = none := (recvBuf_none_iff s).mpr he.buf
            rw [this] at hs'; simp at hs'
          · simp only [Option.some.injEq] at hs'; subst hs'
            exact ⟨empty_congr he rfl rfl rfl rfl rfl rfl rfl, rfl⟩
          · rename_i t0
            obtain ⟨h1, _, _⟩ := selStop_shape hs'
            exact ⟨empty_congr he (apSelStop_buf _ _ hs') (apSelStop_sendq _ _ hs') (by rw [apSelStop_pol _ _ hs'])
              (by rw [apSelStop_pol _ _ hs']) (apSelStop_store _ _ hs') (by rw [apSelStop_em _ _ hs'])
              (apSelStop_met _ _ hs'), by rw [h1]; rfl⟩
          · simp at hs'
        | tick =>
          unfold applierStep at hs'; rw [happ] at hs'; dsimp only at hs'
          obtain ⟨-, hs'⟩ := needNone_some hs'
          simp only [Option.some.injEq] at hs'; subst hs'
          have hg := grab_empty s.em s.clock he.buckets
          refine ⟨empty_congr he rfl rfl rfl rfl rfl ?_ rfl, ?_⟩
          · simp only [apTick]; rw [hg.1, he.buckets]
          · simp only [apTick]; rw [hg.2]; rfl
        | sweep now bs =>
          unfold applierStep at hs'; rw [happ] at hs'; dsimp only at hs'
          rw [happ] at hcalm
          cases bs with
          | nil =>
            simp only [apSweep, firstNonEmpty] at hs'
            cases ch <;> simp at hs'
            subst hs'
            exact ⟨empty_congr he rfl rfl rfl rfl rfl rfl rfl, rfl⟩
          | cons b rest => cases hcalm
        | stopAck => unfold applierStep at hs'; rw [happ] at hs'; simp at hs'
        | dead => unfold applierStep at hs'; rw [happ] at hs'; simp at hs'
        | _ => rw [happ] at hcalm; cases hcalm
    · -- entering the cls part: the restart step of the Clear inside Close
      have hc0' : (s.cl t).cls = false := by cases h : (s.cl t).cls <;> simp_all
      rcases step_cl hs t with e | ⟨c, e, e1, _⟩ | ⟨ch, ea, e⟩ | ⟨hne, e⟩
      · rw [e, hc0'] at ht; cases ht
      · rw [e1] at h0; cases h0
      · obtain ⟨hpc, _⟩ := own_cls e ht
        subst ea
        have hs' : clientStep cfg s t ch = some s' := hs
        have hf := hx.phase t h0 (by rw [hpc]; rfl) hc0'
        rw [hpc] at hf
        have hf' : s.buf = [] ∧ s.sendq = [] ∧ s.pol.costs = AMap.empty ∧ s.pol.used = 0 ∧
            s.store = AMap.empty ∧ (s.em.buckets = AMap.empty ∧ ∃ now, s.em.lastCleaned = cleanupOf now) ∧
            (cfg.metricsOn = true → s.met = {}) := hf
        unfold clientStep at hs'; rw [hpc] at hs'; dsimp only at hs'
        obtain ⟨_, hs'⟩ := needNone_some hs'
        simp only [Option.some.injEq] at hs'; subst hs'
        exact ⟨⟨by rw [stClrRestart_buf]; exact hf'.1, by rw [stClrRestart_sendq]; exact hf'.2.1,
          by rw [stClrRestart_pol]; exact hf'.2.2.1, by rw [stClrRestart_pol]; exact hf'.2.2.2.1,
          by rw [stClrRestart_store]; exact hf'.2.2.2.2.1, by rw [stClrRestart_em]; exact hf'.2.2.2.2.2.1.1,
          by rw [stClrRestart_met]; exact hf'.2.2.2.2.2.2⟩, by simp [stClrRestart]; rfl⟩
      · have := ext_cls e hne ht; rw [hc0'] at this; cases this
  · -- closedE
    intro hc'
    rcases step_closed hs with e | ⟨⟨t, ht⟩, _⟩
    · -- was closed already
      rw [e] at hc'
      obtain ⟨he, hin⟩ := hx.closedE hc'
      have hdead := (hh.closed hc').1
      cases a with
      | spawn t0 c0 =>
        have hs' : spawnStep s t0 c0 = some s' := hs
        refine ⟨empty_congr he (spawnStep_buf _ _ _ hs') (spawnStep_sendq _ _ _ hs') (by rw [spawnStep_pol _ _ _ hs'])
          (by rw [spawnStep_pol _ _ _ hs']) (spawnStep_store _ _ _ hs') (by rw [spawnStep_em _ _ _ hs'])
          (spawnStep_met _ _ _ hs'), fun t => ?_⟩
        by_cases e : t = t0
        · subst e; rw [(spawn_shape hs').2]; exact startPc_inert c0
        · rw [spawnStep_cl_ne _ _ _ hs' e]; exact hin t
      | tick d =>
        simp only [step, Option.some.injEq] at hs; subst hs
        exact ⟨empty_congr he rfl rfl rfl rfl rfl rfl rfl, hin⟩
      | done t0 =>
        have hs' : doneStep s t0 = some s' := hs
        have := (done_shape hs').1; rw [hdead] at this; cases this
      | applier ch =>
        have hs' : applierStep cfg s ch = some s' := hs
        unfold applierStep at hs'; rw [hdead] at hs'; simp at hs'
      | client t0 ch =>
        have hs' : clientStep cfg s t0 ch = some s' := hs
        obtain ⟨h1, h2, h3, h4, h5, h6, h7, _, _, hne, hi'⟩ := closed_client_step hc' (hin t0) hs'
        refine ⟨empty_congr he h1 h2 h3 h4 h5 (by rw [h6]) h7, fun t => ?_⟩
        by_cases e : t = t0
        · subst e; exact hi'
        · rw [hne t e]; exact hin t
    · -- the closing step `clsFinish`
      obtain ⟨he, _⟩ := hx.cls t (by rw [ht]; rfl)
      have hothers := hx.alone t (by rw [ht]; rfl)
      cases a with
      | client t0 ch =>
        have hs' : clientStep cfg s t0 ch = some s' := hs
        by_cases e : t0 = t
        · subst e
          unfold clientStep at hs'; rw [ht] at hs'; dsimp only at hs'
          obtain ⟨_, hs'⟩ := needNone_some hs'
          simp only [Option.some.injEq] at hs'; subst hs'
          refine ⟨empty_congr he rfl rfl rfl rfl rfl rfl rfl, fun t' => ?_⟩
          by_cases e' : t' = t0
          · subst e'; simp [stClsFinish]; rfl
          · rw [stClsFinish_cl_ne s t0 e', hothers t' e']; rfl
        · have := hothers t0 e
          simp [clientStep, this] at hs'
      | spawn t0 c0 =>
        have := hnospawn t (by rw [ht]; rfl); cases this
      | tick d =>
        -- a tick does not close
        simp only [step, Option.some.injEq] at hs; subst hs
        have hcl : s.closed = true := hc'
        have := (hh.closed hcl).2 t
        rw [ht] at this; simp [CPc.active, CPc.busy] at this
      | done t0 =>
        have hs' : doneStep s t0 = some s' := hs
        have hcl : s.closed = true := by rw [← doneStep_closed _ _ hs']; exact hc'
        have := (hh.closed hcl).2 t
        rw [ht] at this; simp [CPc.active, CPc.busy] at this
      | applier ch =>
        have hs' : applierStep cfg s ch = some s' := hs
        have hdead : s.app = .dead := hh.busy t (by rw [ht]; rfl)
        unfold applierStep at hs'; rw [hdead] at hs'; simp at hs'

theorem xinv_reach {cfg : Cfg} {s : State} (hcap : 1 ≤ cfg.bufCap) (h : ReachX cfg s) : XInv cfg s := by
  induction h with
  | init now => exact xinv_init cfg now
  | step hr hok hs ih => exact xinv_step hr.reach hcap ih hok hs

/-- **C15 (4), invariant.**  After an un-overlapped `Close` the cache holds nothing, the
applier is gone, and every client is idle or in a call that returns inertly. -/
theorem closed_empty {cfg : Cfg} {s : State} (hcap : 1 ≤ cfg.bufCap) (h : ReachX cfg s)
    (hc : s.closed = true) : Empty cfg s ∧ s.app = .dead ∧ ∀ t, (s.cl t).inert = true :=
  ⟨((xinv_reach hcap h).closedE hc).1, ((handshake_reach h.reach).closed hc).1, ((xinv_reach hcap h).closedE hc).2⟩

end RV.Cache
