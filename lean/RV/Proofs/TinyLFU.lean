import RV.Model.TinyLFU
import RV.Proofs.SketchSize
import RV.Proofs.Bloom
/-!
TinyLFU lemmas (C18): the estimate is `sketch + doorkeeper bit`; one recorded access raises the
key's estimate by one up to 16 and lowers nobody's; reset / clear; the reset period as an
invariant `0 ≤ incrs < resetAt` on the int64 words.
-/
namespace RV.TinyLFU
open Gen.TinyLFU

/-- the shape `newTinyLFU` produces and every operation keeps -/
structure WF (t : TinyLFU) : Prop where
  freq : RV.Sketch.WF t.freq
  door : RV.Bloom.InRange t.door
  locs : t.door.setLocs ≠ 0#64

/-- `Estimate` as a natural number -/
def est (t : TinyLFU) (k : BitVec 64) : Nat := (estimate t k).toNat

theorem est_eq {t : TinyLFU} (w : WF t) (k : BitVec 64) :
    est t k = (RV.Sketch.estimate t.freq k).toNat + (if RV.Bloom.has t.door k then 1 else 0) := by
  have h15 := RV.Sketch.estimate_le_15 w.freq k
  unfold est estimate
  simp only
  cases RV.Bloom.has t.door k
  · simp [BitVec.toNat_setWidth]; omega
  · simp [BitVec.toNat_setWidth, BitVec.toNat_add]; omega

theorem est_upper {t : TinyLFU} (w : WF t) (k : BitVec 64) : est t k ≤ 16 := by
  have h15 := RV.Sketch.estimate_le_15 w.freq k
  rw [est_eq w]; split <;> omega

theorem touch_wf {t : TinyLFU} (w : WF t) (h : BitVec 64) : WF (touch t h) := by
  unfold touch
  simp only [RV.Bloom.addIfNotHas_flag, RV.Bloom.addIfNotHas_state]
  cases hh : RV.Bloom.has t.door h
  · exact ⟨by simpa using w.freq, by simpa using RV.Bloom.inRange_add _ w.door h,
      by simpa [(RV.Bloom.add_fields t.door h).2.2.1] using w.locs⟩
  · exact ⟨by simpa using RV.Sketch.WF_increment w.freq h, by simpa using w.door, by simpa using w.locs⟩

/-- recording an access of `h` lowers no key's estimate -/
theorem touch_mono {t : TinyLFU} (w : WF t) (h k : BitVec 64) : est t k ≤ est (touch t h) k := by
  rw [est_eq w, est_eq (touch_wf w h)]
  unfold touch
  simp only [RV.Bloom.addIfNotHas_flag, RV.Bloom.addIfNotHas_state]
  cases hh : RV.Bloom.has t.door h
  · -- doorkeeper bit set, sketch untouched
    simp only [Bool.not_false, if_true, Bool.false_eq_true, if_false]
    cases hk : RV.Bloom.has t.door k
    · simp
    · rw [RV.Bloom.add_monotone _ w.door h k hk]; simp
  · -- sketch incremented, doorkeeper untouched
    simp only [Bool.not_true, Bool.false_eq_true, if_false, if_true]
    have := RV.Sketch.estimate_increment_ge w.freq h k
    omega

/-- recording an access of `k` raises its estimate by one, up to the ceiling 16 -/
theorem touch_self {t : TinyLFU} (w : WF t) (k : BitVec 64) : min (est t k + 1) 16 ≤ est (touch t k) k := by
  rw [est_eq w, est_eq (touch_wf w k)]
  unfold touch
  simp only [RV.Bloom.addIfNotHas_flag, RV.Bloom.addIfNotHas_state]
  cases hh : RV.Bloom.has t.door k
  · simp only [Bool.not_false, if_true, Bool.false_eq_true, if_false]
    rw [RV.Bloom.has_after_add _ w.door k]; simp; omega
  · simp only [Bool.not_true, Bool.false_eq_true, if_false, if_true, hh]
    rw [RV.Sketch.estimate_increment_self w.freq k, RV.Sketch.satIncr_toNat]
    split <;> omega

theorem fires_eq (t : TinyLFU) (k : BitVec 64) : fires t = resetCond (touch t k).incrs (touch t k).resetAt := rfl

theorem increment_quiet (t : TinyLFU) (k : BitVec 64) (h : fires t = false) : increment t k = touch t k := by
  have h' := h; rw [fires_eq t k] at h'
  simp only [increment, h']; simp

theorem increment_fires (t : TinyLFU) (k : BitVec 64) (h : fires t = true) : increment t k = reset (touch t k) := by
  have h' := h; rw [fires_eq t k] at h'
  simp only [increment, h']; simp

theorem reset_wf {t : TinyLFU} (w : WF t) : WF (reset t) :=
  ⟨RV.Sketch.WF_reset w.freq, by simpa [reset, RV.Bloom.InRange, RV.Bloom.clear] using w.door, w.locs⟩

theorem clear_wf {t : TinyLFU} (w : WF t) : WF (clear t) :=
  ⟨RV.Sketch.WF_clear w.freq, by simpa [clear, RV.Bloom.InRange, RV.Bloom.clear] using w.door, w.locs⟩

theorem increment_wf {t : TinyLFU} (w : WF t) (k : BitVec 64) : WF (increment t k) := by
  cases h : fires t
  · rw [increment_quiet t k h]; exact touch_wf w k
  · rw [increment_fires t k h]; exact reset_wf (touch_wf w k)

/-- no `Increment` of the sequence ends with the aging reset -/
def quiet (t : TinyLFU) : List (BitVec 64) → Prop
  | [] => True
  | k :: ks => fires t = false ∧ quiet (increment t k) ks

theorem est_lower_aux {t : TinyLFU} (w : WF t) (k : BitVec 64) (ks : List (BitVec 64)) (q : quiet t ks) :
    min (est t k + ks.count k) 16 ≤ est (push t ks) k := by
  induction ks generalizing t with
  | nil => simp [push]; omega
  | cons a ks ih =>
    obtain ⟨q1, q2⟩ := q
    have ih' := ih (increment_wf w a) q2
    have hstep : push t (a :: ks) = push (increment t a) ks := rfl
    rw [hstep]
    rw [increment_quiet t a q1] at ih' ⊢
    by_cases hak : a = k
    · subst hak
      have := touch_self w a
      simp only [List.count_cons_self]
      omega
    · have := touch_mono w a k
      have hc : (a :: ks).count k = ks.count k := by
        rw [List.count_cons]; simp [hak]
      rw [hc]; omega
/-! ### reset / clear -/
theorem est_reset {t : TinyLFU} (w : WF t) (k : BitVec 64) :
    est (reset t) k = (RV.Sketch.estimate t.freq k).toNat / 2 := by
  rw [est_eq (reset_wf w)]
  have h1 : RV.Bloom.has (reset t).door k = false := RV.Bloom.has_clear t.door w.locs k
  have h2 : RV.Sketch.estimate (reset t).freq k = RV.Sketch.estimate t.freq k >>> 1 :=
    RV.Sketch.estimate_reset w.freq k
  rw [h1, h2]
  simp [BitVec.toNat_ushiftRight, Nat.shiftRight_eq_div_pow]

theorem est_clear {t : TinyLFU} (w : WF t) (k : BitVec 64) : est (clear t) k = 0 := by
  rw [est_eq (clear_wf w)]
  have h1 : RV.Bloom.has (clear t).door k = false := RV.Bloom.has_clear t.door w.locs k
  have h2 : RV.Sketch.estimate (clear t).freq k = 0#8 := RV.Sketch.estimate_clear w.freq k
  rw [h1, h2]; simp

/-! ### the reset period -/

/-- `0 ≤ incrs < resetAt` as int64 values -/
def Counting (t : TinyLFU) : Prop := 0 ≤ t.incrs.toInt ∧ t.incrs.toInt < t.resetAt.toInt

theorem toInt_succ (c : BitVec 64) (r : BitVec 64) (h0 : 0 ≤ c.toInt) (h1 : c.toInt < r.toInt) :
    (c + 1#64).toInt = c.toInt + 1 := by
  have hr := @BitVec.toInt_lt 64 r
  rw [BitVec.toInt_add, BitVec.toInt_one (by omega)]
  simp only [Int.bmod]
  omega

/-- the reset fires exactly when the increment being recorded is the `resetAt`-th -/
theorem fires_iff {t : TinyLFU} (c : Counting t) : fires t = decide (t.incrs.toInt + 1 = t.resetAt.toInt) := by
  unfold fires resetCond
  rw [BitVec.sle_eq_decide, toInt_succ _ _ c.1 c.2]
  have := c.2
  simp only [decide_eq_decide]; omega

theorem increment_incrs {t : TinyLFU} (c : Counting t) (k : BitVec 64) :
    (increment t k).resetAt = t.resetAt ∧
    (increment t k).incrs.toInt = (if fires t then 0 else t.incrs.toInt + 1) ∧ Counting (increment t k) := by
  have hf := fires_iff c
  cases h : fires t
  · rw [increment_quiet t k h]
    have e : (touch t k).incrs.toInt = t.incrs.toInt + 1 := toInt_succ _ _ c.1 c.2
    rw [h] at hf
    have hne : ¬ (t.incrs.toInt + 1 = t.resetAt.toInt) := by simpa using hf.symm
    refine ⟨rfl, by simpa using e, ?_⟩
    unfold Counting
    rw [e]; show 0 ≤ t.incrs.toInt + 1 ∧ t.incrs.toInt + 1 < t.resetAt.toInt
    have := c.1; have := c.2; omega
  · rw [increment_fires t k h]
    refine ⟨rfl, by simp [reset], ?_⟩
    unfold Counting
    show 0 ≤ (0#64).toInt ∧ (0#64).toInt < t.resetAt.toInt
    have := c.1; have := c.2
    simp; omega

theorem push_counting {t : TinyLFU} (c : Counting t) (ks : List (BitVec 64))
    (hlen : t.incrs.toInt + ks.length < t.resetAt.toInt) :
    quiet t ks ∧ Counting (push t ks) ∧ (push t ks).resetAt = t.resetAt ∧
      (push t ks).incrs.toInt = t.incrs.toInt + ks.length := by
  induction ks generalizing t with
  | nil => simp [quiet, push]; exact c
  | cons a ks ih =>
    have hf : fires t = false := by
      rw [fires_iff c]; simp only [List.length_cons] at hlen; simp; omega
    have ⟨h1, h2, h3⟩ := increment_incrs c a
    rw [hf] at h2
    simp only [Bool.false_eq_true, if_false] at h2
    have := ih h3 (by rw [h1, h2]; simp only [List.length_cons] at hlen; omega)
    refine ⟨⟨hf, this.1⟩, this.2.1, ?_, ?_⟩
    · show (push (increment t a) ks).resetAt = _
      rw [this.2.2.1, h1]
    · show (push (increment t a) ks).incrs.toInt = _
      rw [this.2.2.2, h2]; simp only [List.length_cons]; omega


/-! ### newTinyLFU -/
theorem new_wf (n : BitVec 64) (seed : Array (BitVec 64)) (de dl : BitVec 64)
    (hs : seed.size = Gen.Sketch.cmDepth.toNat) (h1 : 2 ≤ n.toNat) (h2 : n.toNat ≤ 2 ^ 62)
    (hde : de.toNat ≤ 2 ^ 63) (hdl : dl ≠ 0#64) :
    WF (new n seed de dl) ∧ Counting (new n seed de dl) := by
  refine ⟨⟨RV.Sketch.new_wf n seed hs h1 h2, (RV.Bloom.new_wf de dl hde).inRange, ?_⟩, ?_⟩
  · show (RV.Bloom.new de dl).setLocs ≠ 0#64
    unfold RV.Bloom.new; exact hdl
  · unfold Counting
    show 0 ≤ (0#64).toInt ∧ (0#64).toInt < n.toInt
    have : n.toInt = n.toNat := by
      rw [BitVec.toInt_eq_toNat_cond]; split <;> omega
    rw [this]; simp; omega

end RV.TinyLFU
