import RV.Proofs.NodeFlatBase
/-!
# Flat pages: the meta word (`numKeys` / `setNumKeys` / `setBit` / `bits` / `isLeaf`)

The generated whole functions against the hand-written reading of the meta word
(`nkeys` = low 32 bits, `kindBits` = top byte, `leafBit` = bit 63).
-/
namespace RV.NodeFlat
open RV.Tree (Key Val w w_toNat w_toInt w_slt w_sle w_beq)

/-! ## bit arithmetic on naturals -/

theorem testBit_hi32 (i : Nat) :
    (18446744069414584320 : Nat).testBit i = (decide (32 ≤ i) && decide (i < 64)) := by
  have e : (18446744069414584320 : Nat) = (2 ^ 32 - 1) <<< 32 := by decide
  rw [e, Nat.testBit_shiftLeft, Nat.testBit_two_pow_sub_one]
  by_cases h : 32 ≤ i <;> simp [h] <;> omega

theorem and_hi32 (x : Nat) (hx : x < 2 ^ 64) : x &&& 18446744069414584320 = x / 2 ^ 32 * 2 ^ 32 := by
  apply Nat.eq_of_testBit_eq
  intro i
  rw [Nat.testBit_and, testBit_hi32, ← Nat.shiftRight_eq_div_pow, ← Nat.shiftLeft_eq, Nat.testBit_shiftLeft,
    Nat.testBit_shiftRight]
  by_cases h : 32 ≤ i
  · have e : 32 + (i - 32) = i := by omega
    by_cases h2 : i < 64
    · simp [h, h2, e]
    · have : x.testBit i = false := Nat.testBit_lt_two_pow (by
        calc x < 2 ^ 64 := hx
          _ ≤ 2 ^ i := Nat.pow_le_pow_right (by omega) (by omega))
      simp [h, h2, e, this]
  · simp [h]

theorem hi_or_lo (a n : Nat) (hn : n < 2 ^ 32) : a * 2 ^ 32 ||| n = a * 2 ^ 32 + n := by
  have := Nat.shiftLeft_add_eq_or_of_lt (i := 32) hn a
  rw [Nat.shiftLeft_eq] at this
  exact this.symm

theorem testBit_top8 (i : Nat) :
    (18374686479671623680 : Nat).testBit i = (decide (56 ≤ i) && decide (i < 64)) := by
  have e : (18374686479671623680 : Nat) = (2 ^ 8 - 1) <<< 56 := by decide
  rw [e, Nat.testBit_shiftLeft, Nat.testBit_two_pow_sub_one]
  by_cases h : 56 ≤ i <;> simp [h] <;> omega

theorem and_top8 (x : Nat) (hx : x < 2 ^ 64) : x &&& 18374686479671623680 = x / 2 ^ 56 * 2 ^ 56 := by
  apply Nat.eq_of_testBit_eq
  intro i
  rw [Nat.testBit_and, testBit_top8, ← Nat.shiftRight_eq_div_pow, ← Nat.shiftLeft_eq, Nat.testBit_shiftLeft,
    Nat.testBit_shiftRight]
  by_cases h : 56 ≤ i
  · have e : 56 + (i - 56) = i := by omega
    by_cases h2 : i < 64
    · simp [h, h2, e]
    · have : x.testBit i = false := Nat.testBit_lt_two_pow (by
        calc x < 2 ^ 64 := hx
          _ ≤ 2 ^ i := Nat.pow_le_pow_right (by omega) (by omega))
      simp [h, h2, e, this]
  · simp [h]

/-! ## the generated functions -/

section
variable {mk : Nat} {p : Page}

theorem kindBits_eq (mk : Nat) (p : Page) : kindBits mk p = (metaW mk p).toNat / 2 ^ 56 := rfl

theorem kindBits_lt (mk : Nat) (p : Page) : kindBits mk p < 2 ^ 8 := by
  have := (metaW mk p).isLt
  rw [kindBits_eq]; omega

/-- `setNumKeys(n)`: only the meta word changes; its low half becomes `n`, its high half stays. -/
theorem setNumKeys_w (hs : p.size = 2 * (mk + 1)) (h64 : p.size ≤ 2 ^ 64) {n : Nat} (hn : n < 2 ^ 32) :
    ∃ p', Gen.Node.setNumKeys p (w mk) (w n) = some p' ∧ p'.size = p.size ∧
      (metaW mk p').toNat = (metaW mk p).toNat / 2 ^ 32 * 2 ^ 32 + n ∧
      ∀ j, j ≠ 2 * mk + 1 → p'[j]! = p[j]! := by
  have hidx : 2 * mk + 1 < p.size := by omega
  unfold Gen.Node.setNumKeys
  simp only [valOffset_w, rd_w hidx h64, Option.bind_some, wr_w _ hidx h64]
  refine ⟨_, rfl, RV.size_set! _ _ _, ?_, fun j hj => RV.get!_set!_ne _ _ _ _ (Ne.symm hj)⟩
  unfold metaW
  rw [RV.get!_set!_self _ _ _ hidx, BitVec.toNat_or, BitVec.toNat_and, w_toNat (show n < 2 ^ 64 by omega)]
  have := and_hi32 (p[2 * mk + 1]!).toNat (p[2 * mk + 1]!).isLt
  simp only [BitVec.toNat_ofNat] at this ⊢
  rw [this]
  exact hi_or_lo _ _ hn

theorem nkeys_of_meta {p' : Page} {x n : Nat} (h : (metaW mk p').toNat = x / 2 ^ 32 * 2 ^ 32 + n) (hn : n < 2 ^ 32) :
    nkeys mk p' = n := by
  unfold nkeys; rw [h]; omega

theorem kindBits_of_meta {p' : Page} {n : Nat} (h : (metaW mk p').toNat = (metaW mk p).toNat / 2 ^ 32 * 2 ^ 32 + n)
    (hn : n < 2 ^ 32) : kindBits mk p' = kindBits mk p := by
  rw [kindBits_eq, kindBits_eq, h]; omega

theorem leafBit_of_meta {p' : Page} {n : Nat} (h : (metaW mk p').toNat = (metaW mk p).toNat / 2 ^ 32 * 2 ^ 32 + n)
    (hn : n < 2 ^ 32) : leafBit mk p' = leafBit mk p := by
  unfold leafBit; rw [h]
  have := (metaW mk p).isLt
  congr 1
  apply propext
  constructor <;> intro <;> omega

/-- `bits()`: the top byte of the meta word, in place. -/
theorem bits_w (hs : p.size = 2 * (mk + 1)) (h64 : p.size ≤ 2 ^ 64) :
    Gen.Node.bits p (w mk) = some (w (kindBits mk p * 2 ^ 56)) := by
  unfold Gen.Node.bits
  rw [val_w (by omega) h64]
  simp only [Option.bind_some]
  congr 1
  apply BitVec.eq_of_toNat_eq
  have hk := kindBits_lt mk p
  rw [BitVec.toNat_and, w_toNat (show kindBits mk p * 2 ^ 56 < 2 ^ 64 by omega)]
  have := and_top8 (valW p mk).toNat (valW p mk).isLt
  simp only [BitVec.toNat_ofNat] at this ⊢
  rw [this]
  rfl

/-- `x != 0` and `0 < x` are the same test on an unsigned word (either spelling of the source
is normalised to the second before the proof below looks at it) -/
theorem bne_zero_eq_ult (x : BitVec 64) : (x != 0#64) = BitVec.ult 0#64 x := by
  by_cases h : x = 0#64
  · subst h; decide
  · have hx : x.toNat ≠ 0 := fun h0 => h (BitVec.eq_of_toNat_eq (by simpa using h0))
    have h1 : (x != 0#64) = true := by simp [bne, h]
    have h2 : BitVec.ult 0#64 x = true := by
      rw [BitVec.ult]; simp; omega
    rw [h1, h2]

/-- `isLeaf()`: bit 63 of the meta word. -/
theorem isLeaf_w (hs : p.size = 2 * (mk + 1)) (h64 : p.size ≤ 2 ^ 64) :
    Gen.Node.isLeaf p (w mk) = some (leafBit mk p) := by
  unfold Gen.Node.isLeaf
  rw [bits_w hs h64]
  simp only [Option.bind_some]
  try simp only [bne_zero_eq_ult]
  congr 1
  have hlt := (metaW mk p).isLt
  have hkl := kindBits_lt mk p
  have hke := kindBits_eq mk p
  generalize kindBits mk p = kb at *
  have hk : kb * 2 ^ 56 < 2 ^ 64 := by omega
  unfold leafBit
  rw [BitVec.ult, BitVec.toNat_and, w_toNat hk]
  simp only [BitVec.toNat_ofNat]
  by_cases h : 2 ^ 63 ≤ (metaW mk p).toNat
  · have h1 : 2 ^ 63 ≤ kb * 2 ^ 56 := by omega
    have := RV.Tree.and_bit63_ge (kb * 2 ^ 56) h1 hk
    simp [h]; omega
  · have h1 : kb * 2 ^ 56 < 2 ^ 63 := by omega
    have := RV.Tree.and_bit63_lt (kb * 2 ^ 56) h1
    simp [h, this]

/-- `setBit(b)` for a kind word `b` (low 32 bits clear): the count stays, the high half becomes `b`. -/
theorem setBit_w (hs : p.size = 2 * (mk + 1)) (h64 : p.size ≤ 2 ^ 64) (b : BitVec 64) (hb : b.toNat % 2 ^ 32 = 0) :
    ∃ p', Gen.Node.setBit p (w mk) b = some p' ∧ p'.size = p.size ∧
      (metaW mk p').toNat = b.toNat + (metaW mk p).toNat % 2 ^ 32 ∧
      ∀ j, j ≠ 2 * mk + 1 → p'[j]! = p[j]! := by
  have hidx : 2 * mk + 1 < p.size := by omega
  unfold Gen.Node.setBit
  simp only [valOffset_w, rd_w hidx h64, Option.bind_some, wr_w _ hidx h64]
  refine ⟨_, rfl, RV.size_set! _ _ _, ?_, fun j hj => RV.get!_set!_ne _ _ _ _ (Ne.symm hj)⟩
  unfold metaW
  rw [RV.get!_set!_self _ _ _ hidx, BitVec.toNat_or, and_mask32_w,
    w_toNat (show (p[2 * mk + 1]!).toNat % 2 ^ 32 < 2 ^ 64 by omega), Nat.or_comm]
  have e : b.toNat = b.toNat / 2 ^ 32 * 2 ^ 32 := by omega
  rw [e, hi_or_lo _ _ (by omega)]

end

end RV.NodeFlat
