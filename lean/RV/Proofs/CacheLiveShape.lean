import RV.Proofs.CacheLiveBase
/-!
# `client_shape` / `applier_shape` / `step_cl` (see `CacheLiveBase.lean`)
-/
namespace RV.Cache
open Gen.Cache

open Lean in
/-- `plain_frame stX`: the generated frame lemmas of `stX` give every field of `Plain`
except the pc transition, which is left as the goal. -/
macro "plain_frame " f:ident hpc:ident : tactic => do
  let n := f.getId
  let mk (suf : String) := mkIdent (n.appendAfter suf)
  `(tactic| refine ⟨$(mk "_buf") .., $(mk "_sendq") .., $(mk "_closedMarkers") .., $(mk "_nextMarker") ..,
      $(mk "_app") .., $(mk "_closed") .., (fun _ hne => $(mk "_cl_ne") (hne := hne) ..), (by rw [$hpc:ident]; rfl), ?_⟩)

/-- the special (non-plain) client steps -/
inductive CSpecial (cfg : Cfg) (s : State) (t : Tid) (s' : State) : Prop
  | setSend (i : Item) : s.cl t = .setSend i → s' = stSetSend cfg s t i → CSpecial cfg s t s'
  | delSend (h : Hash) (c : Conf) : s.cl t = .delSend h c → s' = stDelSend cfg s t h c → CSpecial cfg s t s'
  | waitSend : s.cl t = .waitSend → s' = stWaitSend cfg s t → CSpecial cfg s t s'
  | drain (c : Bool) : s.cl t = .clrDrain c → s' = stClrDrain s t c → CSpecial cfg s t s'
  | restart (c : Bool) : s.cl t = .clrRestart c → s' = stClrRestart s t c → CSpecial cfg s t s'
  | finish : s.cl t = .clsFinish → s' = stClsFinish s t → CSpecial cfg s t s'

theorem evictAll_buf_lv (s : State) (st : Store) (ks : List Hash) : (evictAll s st ks).buf = s.buf := by
  induction ks generalizing s with
  | nil => rfl
  | cons k rest ih => unfold evictAll; split <;> simp [ih]
theorem evictAll_sendq_lv (s : State) (st : Store) (ks : List Hash) : (evictAll s st ks).sendq = s.sendq := by
  induction ks generalizing s with
  | nil => rfl
  | cons k rest ih => unfold evictAll; split <;> simp [ih]
theorem evictAll_closedMarkers (s : State) (st : Store) (ks : List Hash) :
    (evictAll s st ks).closedMarkers = s.closedMarkers := by
  induction ks generalizing s with
  | nil => rfl
  | cons k rest ih => unfold evictAll; split <;> simp [ih]
theorem evictAll_nextMarker (s : State) (st : Store) (ks : List Hash) :
    (evictAll s st ks).nextMarker = s.nextMarker := by
  induction ks generalizing s with
  | nil => rfl
  | cons k rest ih => unfold evictAll; split <;> simp [ih]
theorem evictAll_store_lv (s : State) (st : Store) (ks : List Hash) : (evictAll s st ks).store = s.store := by
  induction ks generalizing s with
  | nil => rfl
  | cons k rest ih => unfold evictAll; split <;> simp [ih]
theorem evictAll_em (s : State) (st : Store) (ks : List Hash) : (evictAll s st ks).em = s.em := by
  induction ks generalizing s with
  | nil => rfl
  | cons k rest ih => unfold evictAll; split <;> simp [ih]
theorem evictAll_pol_lv (s : State) (st : Store) (ks : List Hash) : (evictAll s st ks).pol = s.pol := by
  induction ks generalizing s with
  | nil => rfl
  | cons k rest ih => unfold evictAll; split <;> simp [ih]
theorem evictAll_met_lv (s : State) (st : Store) (ks : List Hash) : (evictAll s st ks).met = s.met := by
  induction ks generalizing s with
  | nil => rfl
  | cons k rest ih => unfold evictAll; split <;> simp [ih]
theorem evictAll_clock (s : State) (st : Store) (ks : List Hash) : (evictAll s st ks).clock = s.clock := by
  induction ks generalizing s with
  | nil => rfl
  | cons k rest ih => unfold evictAll; split <;> simp [ih]
theorem evictAll_ringPending_lv (s : State) (st : Store) (ks : List Hash) :
    (evictAll s st ks).ringPending = s.ringPending := by
  induction ks generalizing s with
  | nil => rfl
  | cons k rest ih => unfold evictAll; split <;> simp [ih]

theorem client_shape {cfg : Cfg} {s s' : State} {t : Tid} {ch : Choice}
    (hs : clientStep cfg s t ch = some s') : Plain s t s' ∨ CSpecial cfg s t s' := by
  apply clientStep_cases hs (motive := fun s' => Plain s t s' ∨ CSpecial cfg s t s')
  case setSend => intro i hpc _; exact Or.inr (.setSend i hpc rfl)
  case delSend => intro h c hpc _; exact Or.inr (.delSend h c hpc rfl)
  case waitSend => intro hpc _; exact Or.inr (.waitSend hpc rfl)
  case clrDrain => intro c hpc _; exact Or.inr (.drain c hpc rfl)
  case clrRestart => intro c hpc _; exact Or.inr (.restart c hpc rfl)
  case clsFinish => intro hpc _; exact Or.inr (.finish hpc rfl)
  case setStart =>
    intro h c v cost ttl hpc _; left; plain_frame stSetStart hpc
    rw [hpc]; unfold stSetStart; (repeat' split) <;> simp <;> constructor
  case setUpd =>
    intro i hpc _; left; plain_frame stSetUpd hpc
    rw [hpc]; unfold stSetUpd; dsimp only; split <;> simp <;> constructor
  case setExit =>
    intro i p hpc _; left; plain_frame stSetExit hpc
    rw [hpc]; unfold stSetExit; simp; constructor
  case setRetTrue =>
    intro i hpc _; left; plain_frame stSetRetTrue hpc
    rw [hpc]; unfold stSetRetTrue; simp; constructor
  case setRetDrop =>
    intro i hpc _; left; plain_frame stSetRetDrop hpc
    rw [hpc]; unfold stSetRetDrop; split <;> simp <;> constructor
  case delStart =>
    intro h c hpc _; left; plain_frame stDelStart hpc
    rw [hpc]; unfold stDelStart; split <;> simp <;> constructor
  case delExit =>
    intro h c p hpc _; left; plain_frame stDelExit hpc
    rw [hpc]; unfold stDelExit; simp; constructor
  case delSent =>
    intro h hpc _; left; plain_frame stDelSent hpc
    rw [hpc]; unfold stDelSent; simp; constructor
  case waitStart =>
    intro hpc _; left; plain_frame stWaitStart hpc
    rw [hpc]; unfold stWaitStart; split <;> simp <;> constructor
  case waitDone =>
    intro hpc _; left; plain_frame stWaitDone hpc
    rw [hpc]; unfold stWaitDone; simp; constructor
  case getRead =>
    intro h c hpc _; left; plain_frame stGetRead hpc
    rw [hpc]; unfold stGetRead; simp; constructor
  case getCheck =>
    intro h c e hpc _; left; plain_frame stGetCheck hpc
    rw [hpc]; unfold stGetCheck; simp; constructor
  case getMetric =>
    intro h c r hpc _; left; plain_frame stGetMetric hpc
    rw [hpc]; unfold stGetMetric; simp; constructor
  case ttlRead =>
    intro h c hpc _; left; plain_frame stTtlRead hpc
    rw [hpc]; unfold stTtlRead; simp; constructor
  case ttlCheck =>
    intro h c e hpc _; left; plain_frame stTtlCheck hpc
    rw [hpc]; unfold stTtlCheck; split <;> simp <;> constructor
  case ttlExp =>
    intro h c hpc _; left; plain_frame stTtlExp hpc
    rw [hpc]; unfold stTtlExp; dsimp only; split <;> simp <;> constructor
  case ttlNow =>
    intro h c exp hpc _; left; plain_frame stTtlNow hpc
    rw [hpc]; unfold stTtlNow; split <;> simp <;> constructor
  case ttlUntil =>
    intro h c exp hpc _; left; plain_frame stTtlUntil hpc
    rw [hpc]; unfold stTtlUntil; simp; constructor
  case iterStart =>
    intro n hpc _; left; plain_frame stIterStart hpc
    rw [hpc]; unfold stIterStart; split <;> simp <;> constructor
  case clrStart =>
    intro c hpc _; left; plain_frame stClrStart hpc
    rw [hpc]; unfold stClrStart; split <;> simp <;> constructor
  case clrPolicy =>
    intro c hpc _; left; plain_frame stClrPolicy hpc
    rw [hpc]; unfold stClrPolicy; simp; constructor
  case clrEm =>
    intro c hpc _; left; plain_frame stClrEm hpc
    rw [hpc]; unfold stClrEm; simp; constructor
  case clrMetrics =>
    intro c hpc _; left; plain_frame stClrMetrics hpc
    rw [hpc]; unfold stClrMetrics; simp; constructor
  case updMax =>
    intro m hpc _; left; plain_frame stUpdMax hpc
    rw [hpc]; unfold stUpdMax; simp; constructor
  case readMax =>
    intro hpc _; left; plain_frame stReadMax hpc
    rw [hpc]; unfold stReadMax; simp; constructor
  case readRem =>
    intro hpc _; left; plain_frame stReadRem hpc
    rw [hpc]; unfold stReadRem; simp; constructor
  case waitRecv =>
    intro id hpc _ hr; left
    refine ⟨stWaitRecv_buf _ _ _ hr, stWaitRecv_sendq _ _ _ hr, stWaitRecv_closedMarkers _ _ _ hr,
      stWaitRecv_nextMarker _ _ _ hr, stWaitRecv_app _ _ _ hr, stWaitRecv_closed _ _ _ hr,
      fun _ hne => stWaitRecv_cl_ne _ _ _ hr hne, by rw [hpc]; rfl, ?_⟩
    unfold stWaitRecv at hr
    split at hr
    · simp only [Option.some.injEq] at hr; subst hr; rw [hpc]; simp; constructor
    · simp at hr
  case getStart =>
    intro h c hpc hr; left
    unfold stGetStart at hr
    dsimp only at hr
    split at hr
    · simp only [Option.some.injEq] at hr; subst hr
      exact ⟨rfl, rfl, rfl, rfl, rfl, rfl, fun _ hne => by simp [setCl_cl_ne _ _ _ hne], by rw [hpc]; rfl, by rw [hpc]; simp; constructor⟩
    · split at hr
      · simp only [Option.some.injEq] at hr; subst hr
        exact ⟨rfl, rfl, rfl, rfl, rfl, rfl, fun _ hne => by simp [setCl_cl_ne _ _ _ hne], by rw [hpc]; rfl, by rw [hpc]; simp; constructor⟩
      · split at hr
        · simp at hr
        · simp only [Option.some.injEq] at hr; subst hr
          exact ⟨by simp, by simp, by simp, by simp, by simp, by simp,
            fun _ hne => by simp [setCl_cl_ne _ _ _ hne], by rw [hpc]; rfl, by rw [hpc]; simp; constructor⟩
      · simp at hr
  case iterShard =>
    intro k n seen hpc hr; left
    unfold stIterShard at hr
    dsimp only at hr
    split at hr
    · split at hr
      · simp at hr
      · rename_i hk
        split at hr
        · simp at hr
        · split at hr
          · simp only [Option.some.injEq] at hr; subst hr
            exact ⟨rfl, rfl, rfl, rfl, rfl, rfl, fun _ hne => by simp [setCl_cl_ne _ _ _ hne], by rw [hpc]; rfl, by rw [hpc]; simp; constructor⟩
          · rename_i hne1
            simp only [Option.some.injEq] at hr; subst hr
            refine ⟨rfl, rfl, rfl, rfl, rfl, rfl, fun _ hne => by simp [setCl_cl_ne _ _ _ hne], by rw [hpc]; rfl, ?_⟩
            rw [hpc]; simp only [setCl_cl_self]
            exact .iterShard_next (by simp only [not_or] at hne1; omega)
    · simp at hr
  case clrShard =>
    intro c k hpc hr; left
    unfold stClrShard at hr
    split at hr
    · split at hr
      · simp at hr
      · rename_i hk
        split at hr
        · simp at hr
        · simp only [Option.some.injEq] at hr; subst hr
          refine ⟨by simp [evictAll_buf_lv], by simp [evictAll_sendq_lv], by simp [evictAll_closedMarkers],
            by simp [evictAll_nextMarker], by simp [evictAll_app], by simp [evictAll_closed],
            fun _ hne => by simp [setCl_cl_ne _ _ _ hne, evictAll_cl], by rw [hpc]; rfl, ?_⟩
          rw [hpc]; simp only [setCl_cl_self]
          split
          · exact .clrShard_done
          · rename_i hne1; exact .clrShard_next (by omega)
    · simp at hr

/-! ### applier -/

inductive ASpecial (s s' : State) : Prop
  | selItem : s.app = .idle → apSelItem s = some s' → ASpecial s s'
  | selStop (t : Tid) : s.app = .idle → apSelStop s t = some s' → ASpecial s s'
  | marker (id : Nat) : s.app = .marker id → s' = apMarker s id → ASpecial s s'

theorem afterVictims_running (vs : List (Hash × Int)) : (afterVictims vs).running = true := by
  unfold afterVictims; split <;> rfl
theorem afterVictims_marker (vs : List (Hash × Int)) : (afterVictims vs).marker? = none := by
  unfold afterVictims; split <;> rfl
theorem afterVictims_wf (vs : List (Hash × Int)) : (afterVictims vs).wf = true := by
  unfold afterVictims; split
  · rfl
  · rename_i h; simp [APc.wf]; simpa using h

theorem applier_shape {cfg : Cfg} {s s' : State} {ch : Choice}
    (hs : applierStep cfg s ch = some s') : APlain s s' ∨ ASpecial s s' := by
  apply applierStep_cases hs (motive := fun s' => APlain s s' ∨ ASpecial s s')
  case idle =>
    intro hpc hr
    unfold apIdle at hr
    split at hr
    · exact Or.inr (.selItem hpc hr)
    · simp only [Option.some.injEq] at hr; subst hr
      left; exact ⟨rfl, rfl, rfl, rfl, rfl, rfl, by simp [hpc, APc.running], rfl, by simp [hpc, APc.marker?], rfl, rfl⟩
    · exact Or.inr (.selStop _ hpc hr)
    · simp at hr
  case marker => intro id hpc _; exact Or.inr (.marker id hpc rfl)
  case item =>
    intro i hpc _; left
    exact ⟨rfl, rfl, rfl, rfl, rfl, rfl, by simp [hpc, APc.running], rfl, by simp [hpc, APc.marker?], rfl, rfl⟩
  case costed =>
    intro i hpc hr; left
    unfold apCosted at hr
    split at hr
    · unfold apCostedNew at hr
      split at hr
      · split at hr
        · simp at hr
        · simp only [Option.some.injEq] at hr; subst hr
          exact ⟨rfl, rfl, rfl, rfl, rfl, rfl, by simp [hpc, APc.running], rfl, by simp [hpc, APc.marker?], rfl, rfl⟩
      · simp at hr
    · obtain ⟨_, hr⟩ := needNone_some hr
      simp only [Option.some.injEq] at hr; subst hr
      exact ⟨rfl, rfl, rfl, rfl, rfl, rfl, by simp [hpc, APc.running], rfl, by simp [hpc, APc.marker?], rfl, rfl⟩
    · obtain ⟨_, hr⟩ := needNone_some hr
      simp only [Option.some.injEq] at hr; subst hr
      exact ⟨rfl, rfl, rfl, rfl, rfl, rfl, by simp [hpc, APc.running], rfl, by simp [hpc, APc.marker?], rfl, rfl⟩
  case added =>
    intro i victims ok hpc _; left
    refine ⟨apAdded_buf .., apAdded_sendq .., apAdded_closedMarkers .., apAdded_nextMarker .., apAdded_closed ..,
      apAdded_cl .., by simp [hpc, APc.running], ?_, by simp [hpc, APc.marker?], ?_, ?_⟩
    all_goals (unfold apAdded; split <;> simp [afterVictims_running, afterVictims_marker, afterVictims_wf])
  case victims =>
    intro vs hpc _ hr; left
    unfold apVictims at hr
    split at hr
    · simp at hr
    · simp only [Option.some.injEq] at hr; subst hr
      exact ⟨rfl, rfl, rfl, rfl, rfl, rfl, by simp [hpc, APc.running], rfl, by simp [hpc, APc.marker?], rfl, rfl⟩
  case victimEvict =>
    intro h cost c v rest hpc _; left
    exact ⟨rfl, rfl, rfl, rfl, rfl, rfl, by simp [hpc, APc.running], by simp [apVictimEvict, afterVictims_running],
      by simp [hpc, APc.marker?], by simp [apVictimEvict, afterVictims_marker], by simp [apVictimEvict, afterVictims_wf]⟩
  case tombPolicy =>
    intro i hpc _; left
    exact ⟨rfl, rfl, rfl, rfl, rfl, rfl, by simp [hpc, APc.running], rfl, by simp [hpc, APc.marker?], rfl, rfl⟩
  case tombStore =>
    intro v hpc _; left
    exact ⟨rfl, rfl, rfl, rfl, rfl, rfl, by simp [hpc, APc.running], rfl, by simp [hpc, APc.marker?], rfl, rfl⟩
  case tick =>
    intro hpc _; left
    exact ⟨rfl, rfl, rfl, rfl, rfl, rfl, by simp [hpc, APc.running], rfl, by simp [hpc, APc.marker?], rfl, rfl⟩
  case sweep =>
    intro now bs hpc hr; left
    unfold apSweep at hr
    split at hr
    · simp only [Option.some.injEq] at hr; subst hr
      exact ⟨rfl, rfl, rfl, rfl, rfl, rfl, by simp [hpc, APc.running], rfl, by simp [hpc, APc.marker?], rfl, rfl⟩
    · split at hr
      · simp at hr
      · simp only [Option.some.injEq] at hr; subst hr
        exact ⟨rfl, rfl, rfl, rfl, rfl, rfl, by simp [hpc, APc.running], rfl, by simp [hpc, APc.marker?], rfl, rfl⟩
    · simp at hr
  case swKey =>
    intro now k c bs hpc _; left
    refine ⟨apSwKey_buf .., apSwKey_sendq .., apSwKey_closedMarkers .., apSwKey_nextMarker .., apSwKey_closed ..,
      apSwKey_cl .., by simp [hpc, APc.running], ?_, by simp [hpc, APc.marker?], ?_, ?_⟩
    all_goals (unfold apSwKey; dsimp only; split <;> rfl)
  case swStoreDel =>
    intro now k c expr v bs hpc _; left
    exact ⟨rfl, rfl, rfl, rfl, rfl, rfl, by simp [hpc, APc.running], rfl, by simp [hpc, APc.marker?], rfl, rfl⟩
  case swPolDel =>
    intro now k c expr cost v bs hpc _; left
    exact ⟨rfl, rfl, rfl, rfl, rfl, rfl, by simp [hpc, APc.running], rfl, by simp [hpc, APc.marker?], rfl, rfl⟩

end RV.Cache
