import RV.Proofs.CacheFairStep
/-!
# Progress lemmas under fairness

* `client_progress` — a client at a non-blocking pc eventually takes its own step there;
* `applier_returns` — the running applier is back at its `select` after finitely many steps;
* `eventually_idle_or` — the stop/done handshake always completes: the applier is at its `select`
  again, unless the drain loop of the active `Clear` goes on (parameter `G`);
* `recv_happens` — a non-empty `setBuf` is eventually received from (applier or drain loop);
* `sender_released`, `marker_closes` — a blocked sender is released, a `Wait` marker is closed;
* `stop_taken` — an offered `stop` is eventually taken (if drain loops end).
-/
namespace RV.Cache
open Gen.Cache

variable {cfg : Cfg}

theorem blockedAt_mono {s s' : State} {pc : CPc} (hcm : ∀ id, id ∈ s.closedMarkers → id ∈ s'.closedMarkers)
    (h : BlockedAt s' pc) : BlockedAt s pc := by
  cases pc <;> first | exact h | skip
  exact fun hin => h (hcm _ hin)

theorem selfMoved_of_not_blocked {s : State} {pc : CPc} (hmid : pc ≠ .idle) (hnb : ¬ BlockedAt s pc) :
    pc.selfMoved = true := by
  cases pc <;> first | rfl | exact absurd rfl hmid | exact absurd trivial hnb

/-- **clients, non-blocking pcs.**  A client at a pc at which it is not blocked eventually takes
its own step from that pc. -/
theorem client_progress {e : Exec cfg} (hf : WeakFair e) {t : Tid} {pc : CPc} {i : Nat}
    (hpc : (e.st i).cl t = pc) (hmid : pc ≠ .idle) (hnb : ¬ BlockedAt (e.st i) pc) :
    ∃ j ch, i ≤ j ∧ (e.st j).cl t = pc ∧ ¬ BlockedAt (e.st j) pc ∧ e.act j = .client t ch := by
  obtain ⟨j, hij, ⟨hj1, hj2⟩, hown⟩ := wf_rule hf (.client t) (fun s => s.cl t = pc ∧ ¬ BlockedAt s pc)
    (fun s hr ⟨h1, h2⟩ => by
      obtain ⟨ch, s', hs⟩ := client_enabled (cfg := cfg) ((live_reach hr.reach).pcwf t) (by rw [h1]; exact hmid)
        (by rw [h1]; exact h2)
      exact ⟨.client t ch, s', by simp [Actor.owns], hs⟩)
    (fun s x s' hr ⟨h1, h2⟩ hs hno => by
      have hsm : (s.cl t).selfMoved = true := by rw [h1]; exact selfMoved_of_not_blocked hmid h2
      refine ⟨by rw [other_step_cl_self hs hno hsm]; exact h1, fun hb => h2 ?_⟩
      exact blockedAt_mono (fun id hid => closedMarkers_mono (handshake_reach hr.reach) hs hid) hb)
    (i := i) ⟨hpc, hnb⟩
  cases hx : e.act j with
  | client t0 ch =>
    rw [hx] at hown
    have : t0 = t := by simpa [Actor.owns] using hown
    subst this
    exact ⟨j, ch, hij, hj1, hj2, hx⟩
  | done t0 =>
    rw [hx] at hown
    have : t0 = t := by simpa [Actor.owns] using hown
    subst this
    have hs := e.next j
    rw [hx] at hs
    obtain ⟨_, _, (⟨c, h0, _⟩ | ⟨h0, _⟩)⟩ := done_shape (show doneStep (e.st j) t0 = some _ from hs)
    · rw [hj1] at h0; subst h0; exact absurd trivial hj2
    · rw [hj1] at h0; subst h0; exact absurd trivial hj2
  | spawn t0 c => rw [hx] at hown; simp [Actor.owns] at hown
  | applier ch => rw [hx] at hown; simp [Actor.owns] at hown
  | tick d => rw [hx] at hown; simp [Actor.owns] at hown

/-! ### the applier -/

theorem applier_step_running {s s' : State} {ch : Choice} (hni : s.app ≠ .idle)
    (hs : applierStep cfg s ch = some s') : s'.app.running = true := by
  rcases applier_shape hs with hp | hsp
  · exact hp.run1
  · cases hsp with
    | selItem hidle _ => exact absurd hidle hni
    | selStop t0 hidle _ => exact absurd hidle hni
    | marker id _ he => subst he; rfl

/-- **the applier.**  Once it has taken an element or a tick, the applier is back at its `select`
after finitely many of its own steps, and it takes them (weak fairness). -/
theorem applier_returns {e : Exec cfg} (hf : WeakFair e) {i : Nat} (hrun : (e.st i).app.running = true) :
    ∃ j, i ≤ j ∧ (e.st j).app = .idle := by
  have key : ∀ r : Nat × Nat, ∀ i, rankA (e.st i).app = r → (e.st i).app.running = true →
      ∃ j, i ≤ j ∧ (e.st j).app = .idle := by
    intro r
    induction r using lexLt_wf.induction with
    | _ r ih =>
      intro i hr hrun
      by_cases hidle : (e.st i).app = .idle
      · exact ⟨i, Nat.le_refl _, hidle⟩
      · obtain ⟨j, hij, hj, hown⟩ := wf_rule hf .applier (fun s => s.app = (e.st i).app)
          (fun s hr h => by
            obtain ⟨ch, s', hs⟩ := applier_mid_enabled (cfg := cfg) (live_reach hr.reach).appwf
              (by rw [h]; exact hrun) (by rw [h]; exact hidle)
            exact ⟨.applier ch, s', rfl, hs⟩)
          (fun s x s' hr h hs hno => by
            rw [app_stable (handshake_reach hr.reach) hs (by rw [h]; exact hrun) hno]; exact h)
          (i := i) rfl
        cases hx : e.act j with
        | applier ch =>
          have hs := e.next j
          rw [hx] at hs
          have hs' : applierStep cfg (e.st j) ch = some (e.st (j + 1)) := hs
          have hni : (e.st j).app ≠ .idle := by rw [hj]; exact hidle
          have hdec := applier_step_decreases hni hs'
          rw [hj, hr] at hdec
          obtain ⟨j', h1, h2⟩ := ih _ hdec (j + 1) rfl (applier_step_running hni hs')
          exact ⟨j', by omega, h2⟩
        | client t0 ch => rw [hx] at hown; simp [Actor.owns] at hown
        | done t0 => rw [hx] at hown; simp [Actor.owns] at hown
        | spawn t0 c => rw [hx] at hown; simp [Actor.owns] at hown
        | tick d => rw [hx] at hown; simp [Actor.owns] at hown
  exact key _ i rfl hrun

/-! ### the stop/done handshake -/

theorem waitingDone_active {pc : CPc} (h : pc.waitingDone = true) : pc.active = true := by
  simp [CPc.active, h]

theorem busy_active {pc : CPc} (h : pc.busy = true) : pc.active = true := by
  simp [CPc.active, h]

/-- while client `u` waits for `done`, only the `done` rendezvous with `u` moves the applier -/
theorem stopAck_stable {s s' : State} {x : Action} {u : Tid} (hh : Handshake s)
    (hs : step cfg s x = some s') (happ : s.app = .stopAck) (hu : (s.cl u).waitingDone = true)
    (hno : (Actor.client u).owns x = false) : s'.app = .stopAck := by
  have hnd : s.app ≠ .dead := by rw [happ]; simp
  cases x with
  | spawn t0 c => rw [spawnStep_app s t0 c hs]; exact happ
  | tick d => simp only [step, Option.some.injEq] at hs; subst hs; exact happ
  | done t0 =>
    have hne := owns_client_done hno
    obtain ⟨_, _, (⟨c, h0, _⟩ | ⟨h0, _⟩)⟩ := done_shape (show doneStep s t0 = some s' from hs)
    · exact absurd (hh.unique u t0 (waitingDone_active hu) (by rw [h0]; rfl)) hne
    · exact absurd (hh.unique u t0 (waitingDone_active hu) (by rw [h0]; rfl)) hne
  | applier ch =>
    have hs' : applierStep cfg s ch = some s' := hs
    simp [applierStep, happ] at hs'
  | client t0 ch =>
    have hs' : clientStep cfg s t0 ch = some s' := hs
    rcases client_shape hs' with hp | hsp
    · rw [hp.app]; exact happ
    · cases hsp with
      | setSend i hpc he => subst he; rw [stSetSend_app]; exact happ
      | delSend h c hpc he => subst he; rw [stDelSend_app]; exact happ
      | waitSend hpc he => subst he; rw [stWaitSend_app]; exact happ
      | drain c hpc he => exact absurd (hh.busy t0 (by rw [hpc]; rfl)) hnd
      | restart c hpc he => exact absurd (hh.busy t0 (by rw [hpc]; rfl)) hnd
      | finish hpc he => exact absurd (hh.busy t0 (by rw [hpc]; rfl)) hnd

/-- `clrDone`: the `done` rendezvous happens -/
theorem done_progress {e : Exec cfg} (hf : WeakFair e) {u : Tid} {c : Bool} {i : Nat}
    (hpc : (e.st i).cl u = .clrDone c) :
    ∃ j, i ≤ j ∧ (e.st j).cl u = .clrDrain c ∧ (e.st j).app = .dead := by
  obtain ⟨j, hij, ⟨hj1, hj2⟩, hown⟩ := wf_rule hf (.client u)
    (fun s => s.app = .stopAck ∧ s.cl u = .clrDone c)
    (fun s hr ⟨h1, h2⟩ => by
      obtain ⟨s', hs⟩ := done_enabled h1 (show (s.cl u).waitingDone = true by rw [h2]; rfl)
      exact ⟨.done u, s', by simp [Actor.owns], hs⟩)
    (fun s x s' hr ⟨h1, h2⟩ hs hno => by
      refine ⟨stopAck_stable (handshake_reach hr.reach) hs h1 (by rw [h2]; rfl) hno, ?_⟩
      rw [other_step_cl_self hs hno (by rw [h2]; rfl)]; exact h2)
    (i := i) ⟨(e.handshake i).wd u (by rw [hpc]; rfl), hpc⟩
  cases hx : e.act j with
  | client t0 ch =>
    rw [hx] at hown
    have : t0 = u := by simpa [Actor.owns] using hown
    subst this
    have hs := e.next j
    rw [hx] at hs
    have hs' : clientStep cfg (e.st j) t0 ch = some (e.st (j + 1)) := hs
    simp [clientStep, hj2] at hs'
  | done t0 =>
    rw [hx] at hown
    have : t0 = u := by simpa [Actor.owns] using hown
    subst this
    have hs := e.next j
    rw [hx] at hs
    obtain ⟨_, hdead, (⟨c', h0, h1⟩ | ⟨h0, _⟩)⟩ := done_shape (show doneStep (e.st j) t0 = some _ from hs)
    · rw [hj2] at h0; cases h0
      exact ⟨j + 1, by omega, h1, hdead⟩
    · rw [hj2] at h0; cases h0
  | spawn t0 c => rw [hx] at hown; simp [Actor.owns] at hown
  | applier ch => rw [hx] at hown; simp [Actor.owns] at hown
  | tick d => rw [hx] at hown; simp [Actor.owns] at hown

theorem cspecial_special {s s' : State} {t : Tid} (h : CSpecial cfg s t s') : (s.cl t).special = true := by
  cases h <;> (rename_i hpc _; rw [hpc]; rfl)

/-- the busy pcs of `Clear` -/
theorem busy_cases {pc : CPc} (h : pc.busy = true) (hc : pc.closing = false) :
    pc = .clrDrain false ∨ pc = .clrRestart false ∨
      (pc.special = false ∧ ∀ pc', OwnTr pc pc' → pc'.busy = true ∧ pc'.closing = false) := by
  cases pc <;> first | cases h | skip
  case clrDrain c => left; simp [CPc.closing] at hc; subst hc; rfl
  case clrRestart c => right; left; simp [CPc.closing] at hc; subst hc; rfl
  case clsFinish => cases hc
  all_goals
    right; right
    rename_i c
    simp [CPc.closing] at hc; subst hc
    refine ⟨rfl, fun pc' ho => ?_⟩
    cases ho <;> exact ⟨rfl, rfl⟩

theorem restart_app {s s' : State} {t : Tid} {ch : Choice} {c : Bool} (hpc : s.cl t = .clrRestart c)
    (hs : clientStep cfg s t ch = some s') : s'.app = .idle := by
  unfold clientStep at hs
  rw [hpc] at hs
  obtain ⟨_, hs⟩ := needNone_some hs
  simp only [Option.some.injEq] at hs; subst hs
  unfold stClrRestart; dsimp only; split <;> rfl

theorem drain_step_eq {s s' : State} {t : Tid} {ch : Choice} {c : Bool} (hpc : s.cl t = .clrDrain c)
    (hs : clientStep cfg s t ch = some s') : s' = stClrDrain s t c := by
  unfold clientStep at hs
  rw [hpc] at hs
  obtain ⟨_, hs⟩ := needNone_some hs
  simp only [Option.some.injEq] at hs; exact hs.symm

/-- from a busy pc of `Clear`, the client restarts the applier — unless its drain loop goes on:
`HD` says that from any drain state `G` happens or the drain loop is left -/
theorem busy_progress {e : Exec cfg} (hf : WeakFair e) (G : Nat → Prop)
    (HD : ∀ k u c, (e.st k).cl u = .clrDrain c → ∃ j, k ≤ j ∧ (G j ∨ (e.st j).cl u ≠ .clrDrain c)) :
    ∀ r k u, ((e.st k).cl u).busy = true → rankN 0 ((e.st k).cl u) ≤ r →
      ∃ j, k ≤ j ∧ (G j ∨ (e.st j).app = .idle) := by
  intro r
  induction r with
  | zero =>
    intro k u hb hr
    exfalso
    have h256 : numShards.toNat = 256 := by decide
    cases hpc : (e.st k).cl u <;> rw [hpc] at hb hr <;> first | cases hb | skip
    all_goals (simp only [rankN, restRank] at hr; try split at hr) <;> try omega
    all_goals
      have := (e.live k).pcwf u
      rw [hpc] at this
      simp [CPc.wf] at this
      omega
  | succ r ih =>
    intro k u hb hr
    have hcl := (e.nc k).closing u
    rcases busy_cases hb hcl with hd | hre | ⟨hsp, hown⟩
    · -- the drain loop
      obtain ⟨j, hkj, hj⟩ := HD k u false hd
      rcases hj with hg | hne
      · exact ⟨j, hkj, Or.inl hg⟩
      · obtain ⟨m, hkm, _, hm0, hm1⟩ := first_change hkj hd hne
        have hwf := (e.live m).pcwf u
        have hrank := change_rank (t := u) (e.next m) hwf (by rw [hm0]; simp) (by rw [hm0]; exact hm1)
        have hbusy : ((e.st (m + 1)).cl u).busy = true := by
          rcases step_cl (e.next m) u with h | ⟨c, _, h, _⟩ | ⟨ch, _, h⟩ | ⟨_, h⟩
          · rw [hm0] at h; exact absurd h hm1
          · rw [hm0] at h; cases h
          · rw [hm0] at h
            generalize (e.st (m + 1)).cl u = pc' at h hm1 ⊢
            cases h with
            | clrDrain_loop => exact absurd rfl hm1
            | clrDrain_done => rfl
          · rw [hm0] at h
            generalize (e.st (m + 1)).cl u = pc' at h
            cases h
        rw [hm0, ← hd] at hrank
        obtain ⟨j', h1, h2⟩ := ih (m + 1) u hbusy (by omega)
        exact ⟨j', by omega, h2⟩
    · -- the restart
      obtain ⟨j, ch, hkj, hj, _, hact⟩ := client_progress hf hre (by simp) (fun h => h)
      have hs := e.next j
      rw [hact] at hs
      exact ⟨j + 1, by omega, Or.inr (restart_app hj hs)⟩
    · -- policy, shards, expiry index, metrics
      obtain ⟨hnb, hmid⟩ := busy_not_blocked (e.st k) hb
      obtain ⟨j, ch, hkj, hj, _, hact⟩ := client_progress hf rfl hmid hnb
      have hs := e.next j
      rw [hact] at hs
      have hs' : clientStep cfg (e.st j) u ch = some (e.st (j + 1)) := hs
      rcases client_shape hs' with hp | hsp'
      · have ho := hp.succ
        rw [hj] at ho
        obtain ⟨hb', _⟩ := hown _ ho
        have hwf := (e.live j).pcwf u
        rw [hj] at hwf
        have hrank := own_rank (n := 0) ho hwf (fun c hc => by rw [hc] at hsp; cases hsp)
        obtain ⟨j', h1, h2⟩ := ih (j + 1) u hb' (by omega)
        exact ⟨j', by omega, h2⟩
      · have := cspecial_special hsp'
        rw [hj, hsp] at this; cases this

/-- **the handshake completes.**  At any time, later the applier is at its `select` — or `G`
happens, where `G` is what the drain loop of an active `Clear` guarantees (`HD`). -/
theorem eventually_idle_or {e : Exec cfg} (hf : WeakFair e) (G : Nat → Prop)
    (HD : ∀ k u c, (e.st k).cl u = .clrDrain c → ∃ j, k ≤ j ∧ (G j ∨ (e.st j).cl u ≠ .clrDrain c))
    (k : Nat) : ∃ j, k ≤ j ∧ (G j ∨ (e.st j).app = .idle) := by
  by_cases hrun : (e.st k).app.running = true
  · obtain ⟨j, h1, h2⟩ := applier_returns hf hrun
    exact ⟨j, h1, Or.inr h2⟩
  · have hcases : (e.st k).app = .stopAck ∨ (e.st k).app = .dead := by
      cases hpc : (e.st k).app <;> rw [hpc] at hrun <;>
        first | exact absurd rfl hrun | exact Or.inl rfl | exact Or.inr rfl
    have hdead : ∀ k, (e.st k).app = .dead → ∃ j, k ≤ j ∧ (G j ∨ (e.st j).app = .idle) := by
      intro k ha
      rcases (e.handshake k).dead ha with hc | ⟨u, hu⟩
      · rw [(e.nc k).closed] at hc; cases hc
      · exact busy_progress hf G HD _ k u hu (Nat.le_refl _)
    rcases hcases with ha | ha
    · obtain ⟨u, hu⟩ := (e.handshake k).ack ha
      have hcl := (e.nc k).closing u
      have : ∃ c, (e.st k).cl u = .clrDone c := by
        cases hpc : (e.st k).cl u <;> rw [hpc] at hu hcl <;> first | exact ⟨_, rfl⟩ | (cases hcl; done) | (cases hu; done)
      obtain ⟨c, hpc⟩ := this
      obtain ⟨j, hkj, _, hj⟩ := done_progress hf hpc
      obtain ⟨j', h1, h2⟩ := hdead j hj
      exact ⟨j', by omega, h2⟩
    · exact hdead k ha

/-- one iteration of the drain loop: it receives, or the loop is left -/
theorem drain_recv_or_leaves {e : Exec cfg} (hf : WeakFair e) (k : Nat) (u : Tid) (c : Bool)
    (hpc : (e.st k).cl u = .clrDrain c) :
    ∃ j, k ≤ j ∧ (IsRecv (e.st j) (e.st (j + 1)) ∨ (e.st j).cl u ≠ .clrDrain c) := by
  obtain ⟨j, ch, hkj, hj, _, hact⟩ := client_progress hf hpc (by simp) (fun h => h)
  have hs := e.next j
  rw [hact] at hs
  have he := drain_step_eq hj hs
  rcases drain_shape (e.st j) u c with ⟨_, h2⟩ | ⟨x, s1, hrecv, hcl, hbuf, hq, _, _, _, _, _, _, _, _, hx⟩
  · refine ⟨j + 1, by omega, Or.inr ?_⟩
    rw [he, h2]; simp
  · refine ⟨j, hkj, Or.inl ⟨x, s1, hrecv, by rw [he]; exact hbuf, by rw [he]; exact hq, by rw [he]; exact hcl, ?_, ?_⟩⟩
    · intro id hid
      rw [he]
      rcases hx with ⟨id', _, e2, _⟩ | ⟨i, _, e2, _⟩ <;> rw [e2]
      · exact List.mem_cons_of_mem _ hid
      · exact hid
    · intro id hid
      rw [he]
      rcases hx with ⟨id', e1, e2, _⟩ | ⟨i, e1, _, _⟩
      · rw [e1] at hid; cases hid; exact Or.inr (by rw [e2]; simp)
      · rw [e1] at hid; cases hid

/-- at any time, later the applier is at its `select` or a receive from `setBuf` happens -/
theorem idle_or_recv {e : Exec cfg} (hf : WeakFair e) (k : Nat) :
    ∃ j, k ≤ j ∧ (IsRecv (e.st j) (e.st (j + 1)) ∨ (e.st j).app = .idle) :=
  eventually_idle_or hf (fun j => IsRecv (e.st j) (e.st (j + 1))) (drain_recv_or_leaves hf) k

/-- **receives happen.**  A non-empty `setBuf` is eventually received from: by the applier
(strong fairness of the `setBuf` branch of its `select`) or by the drain loop of a `Clear`. -/
theorem recv_happens {e : Exec cfg} (hf : Fair e) {i : Nat} (hb : (e.st i).buf ≠ []) :
    ∃ j, i ≤ j ∧ IsRecv (e.st j) (e.st (j + 1)) := by
  apply Classical.byContradiction
  intro hno
  have hno' : ∀ j, i ≤ j → ¬ IsRecv (e.st j) (e.st (j + 1)) := fun j hij h => hno ⟨j, hij, h⟩
  have hbuf : ∀ d, (e.st (i + d)).buf ≠ [] := by
    intro d
    induction d with
    | zero => exact hb
    | succ d ih =>
      rcases recv_or_keeps (e.handshake (i + d)) (e.next (i + d)) with h | h
      · exact absurd h (hno' _ (by omega))
      · exact h.buf ih
  have hready : ReadyInfOften e (.applier .selItem) i := by
    intro k hik
    obtain ⟨j, hkj, hj⟩ := idle_or_recv hf.weak k
    rcases hj with h | h
    · exact absurd h (hno' _ (by omega))
    · have hbj : (e.st j).buf ≠ [] := by
        have := hbuf (j - i)
        rwa [show i + (j - i) = j by omega] at this
      exact ⟨j, hkj, idle_recv_enabled h hbj⟩
  obtain ⟨j, hij, hj⟩ := hf.select.item i hready
  have hs := e.next j
  rw [hj] at hs
  exact hno' j hij (selItem_isRecv hs)

theorem buf_ne_of_chan {s : State} (hl : LiveInv cfg s) (hcap : 1 ≤ cfg.bufCap) (h : chan s ≠ []) : s.buf ≠ [] := by
  intro hbe
  have hq : s.sendq ≠ [] := by intro hq; apply h; simp [chan, hbe, hq]
  have := hl.full hq
  rw [hbe] at this; simp at this; omega

/-! ### blocked senders -/

theorem unblockedPc_ne {pc : CPc} (h : pc.sendBlocked = true) : unblockedPc pc ≠ pc := by
  cases pc <;> first | (cases h; done) | simp [unblockedPc]

/-- **blocked senders are released.**  FIFO: every receive moves a queued sender one place
forward, nobody overtakes it, and receives keep happening. -/
theorem sender_released {e : Exec cfg} (hf : Fair e) (hcap : 1 ≤ cfg.bufCap) {t : Tid} {i : Nat}
    (hb : ((e.st i).cl t).sendBlocked = true) : ∃ j, i ≤ j ∧ (e.st j).cl t ≠ (e.st i).cl t := by
  apply Classical.byContradiction
  intro hno
  have hall : ∀ j, i ≤ j → (e.st j).cl t = (e.st i).cl t :=
    fun j hij => Classical.byContradiction fun h => hno ⟨j, hij, h⟩
  have key : ∀ p k, i ≤ k → t ∈ tids (e.st k) → (tids (e.st k)).idxOf t = p → False := by
    intro p
    induction p with
    | zero =>
      intro k hik ht hidx
      have hq : (e.st k).sendq ≠ [] := by
        intro hq; simp [tids, hq] at ht
      have hbuf : (e.st k).buf ≠ [] := by
        intro hbe
        have := (e.live k).full hq
        rw [hbe] at this; simp at this; omega
      obtain ⟨j, hkj, hj⟩ := recv_happens hf hbuf
      obtain ⟨m, hkm, _, ⟨hm1, hm2⟩, x, s1, hrecv, _, hq', hcl', _⟩ :=
        until_rule (e := e) (fun s => t ∈ tids s ∧ (tids s).idxOf t = 0)
          (fun m => IsRecv (e.st m) (e.st (m + 1)))
          (fun m ⟨h1, h2⟩ hne => by
            rcases recv_or_keeps (e.handshake m) (e.next m) with h | h
            · exact absurd h hne
            · obtain ⟨l, hl⟩ := h.tids
              rw [hl]
              exact ⟨List.mem_append_left _ h1, by rw [List.idxOf_append]; simp [h1, h2]⟩)
          hkj ⟨ht, hidx⟩ hj
      rcases recv_sender_progress hrecv hm1 with ⟨_, h2⟩ | ⟨_, h2⟩
      · have h3 : (e.st (m + 1)).cl t = unblockedPc ((e.st m).cl t) := by rw [hcl']; exact h2
        rw [hall (m + 1) (by omega), hall m (by omega)] at h3
        exact unblockedPc_ne hb h3.symm
      · omega
    | succ p ih =>
      intro k hik ht hidx
      have hq : (e.st k).sendq ≠ [] := by
        intro hq; simp [tids, hq] at ht
      have hbuf : (e.st k).buf ≠ [] := by
        intro hbe
        have := (e.live k).full hq
        rw [hbe] at this; simp at this; omega
      obtain ⟨j, hkj, hj⟩ := recv_happens hf hbuf
      obtain ⟨m, hkm, _, ⟨hm1, hm2⟩, x, s1, hrecv, _, hq', hcl', _⟩ :=
        until_rule (e := e) (fun s => t ∈ tids s ∧ (tids s).idxOf t = p + 1)
          (fun m => IsRecv (e.st m) (e.st (m + 1)))
          (fun m ⟨h1, h2⟩ hne => by
            rcases recv_or_keeps (e.handshake m) (e.next m) with h | h
            · exact absurd h hne
            · obtain ⟨l, hl⟩ := h.tids
              rw [hl]
              exact ⟨List.mem_append_left _ h1, by rw [List.idxOf_append]; simp [h1, h2]⟩)
          hkj ⟨ht, hidx⟩ hj
      have htids : tids (e.st (m + 1)) = tids s1 := by simp [tids, hq']
      rcases recv_sender_progress hrecv hm1 with ⟨h1, _⟩ | ⟨h1, h2⟩
      · omega
      · exact ih (m + 1) (by omega) (by rw [htids]; exact h1) (by rw [htids]; omega)
  obtain ⟨el, hel⟩ := (e.live i).blocked t hb
  have ht : t ∈ tids (e.st i) := by
    simp only [tids, List.mem_map]; exact ⟨(t, el), hel, rfl⟩
  exact key _ i (Nat.le_refl _) ht rfl

/-! ### `Wait` markers -/

/-- the applier closes the marker it holds -/
theorem held_marker_closes {e : Exec cfg} (hf : WeakFair e) {id : Nat} {i : Nat}
    (h : (e.st i).app = .marker id) : ∃ j, i ≤ j ∧ id ∈ (e.st j).closedMarkers := by
  obtain ⟨j, hij, hj, hown⟩ := wf_rule hf .applier (fun s => s.app = .marker id)
    (fun s hr h => by
      obtain ⟨ch, s', hs⟩ := applier_mid_enabled (cfg := cfg) (live_reach hr.reach).appwf
        (by rw [h]; rfl) (by rw [h]; simp)
      exact ⟨.applier ch, s', rfl, hs⟩)
    (fun s x s' hr h hs hno => by
      rw [app_stable (handshake_reach hr.reach) hs (by rw [h]; rfl) hno]; exact h)
    (i := i) h
  cases hx : e.act j with
  | applier ch =>
    have hs := e.next j
    rw [hx] at hs
    exact ⟨j + 1, by omega, applier_closes_marker hj hs⟩
  | client t0 ch => rw [hx] at hown; simp [Actor.owns] at hown
  | done t0 => rw [hx] at hown; simp [Actor.owns] at hown
  | spawn t0 c => rw [hx] at hown; simp [Actor.owns] at hown
  | tick d => rw [hx] at hown; simp [Actor.owns] at hown

/-- **`Wait` markers get closed.**  A marker in the channel moves one place forward with every
receive; when it is received, the drain loop closes it at once and the applier in its next step. -/
theorem marker_closes {e : Exec cfg} (hf : Fair e) (hcap : 1 ≤ cfg.bufCap) {id : Nat} {i : Nat}
    (h : id ∈ (e.st i).closedMarkers ∨ .marker id ∈ chan (e.st i) ∨ (e.st i).app = .marker id) :
    ∃ j, i ≤ j ∧ id ∈ (e.st j).closedMarkers := by
  have key : ∀ p k, .marker id ∈ chan (e.st k) → (chan (e.st k)).idxOf (.marker id) = p →
      ∃ j, k ≤ j ∧ id ∈ (e.st j).closedMarkers := by
    intro p
    induction p using Nat.strongRecOn with
    | _ p ih =>
      intro k hm hidx
      have hbuf : (e.st k).buf ≠ [] := buf_ne_of_chan (e.live k) hcap (List.ne_nil_of_mem hm)
      obtain ⟨j, hkj, hj⟩ := recv_happens hf hbuf
      obtain ⟨m, hkm, _, ⟨hm1, hm2⟩, x, s1, hrecv, hb', hq', _, hcm', hx'⟩ :=
        until_rule (e := e) (fun s => .marker id ∈ chan s ∧ (chan s).idxOf (.marker id) = p)
          (fun m => IsRecv (e.st m) (e.st (m + 1)))
          (fun m ⟨h1, h2⟩ hne => by
            rcases recv_or_keeps (e.handshake m) (e.next m) with h | h
            · exact absurd h hne
            · obtain ⟨l, hl⟩ := h.chan
              rw [hl]
              exact ⟨List.mem_append_left _ h1, by rw [List.idxOf_append]; simp [h1, h2]⟩)
          hkj ⟨hm, hidx⟩ hj
      have hchan : chan (e.st (m + 1)) = chan s1 := by simp [chan, hb', hq']
      rcases recv_marker_progress hrecv hm1 with h1 | ⟨h1, h2⟩
      · rcases hx' id h1 with h2 | h2
        · obtain ⟨j', h3, h4⟩ := held_marker_closes hf.weak h2
          exact ⟨j', by omega, h4⟩
        · exact ⟨m + 1, by omega, h2⟩
      · obtain ⟨j', h3, h4⟩ := ih ((chan s1).idxOf (.marker id)) (by omega) (m + 1)
          (by rw [hchan]; exact h1) (by rw [hchan])
        exact ⟨j', by omega, h4⟩
  rcases h with h | h | h
  · exact ⟨i, Nat.le_refl _, h⟩
  · exact key _ i h rfl
  · exact held_marker_closes hf.weak h

/-! ### the `stop` rendezvous -/

/-- every drain loop of a `Clear` is eventually left -/
def DrainsEnd (e : Exec cfg) : Prop :=
  ∀ k u c, (e.st k).cl u = .clrDrain c → ∃ j, k ≤ j ∧ (e.st j).cl u ≠ .clrDrain c

/-- if drain loops end, the applier is at its `select` again and again -/
theorem idle_again {e : Exec cfg} (hf : WeakFair e) (hd : DrainsEnd e) (k : Nat) :
    ∃ j, k ≤ j ∧ (e.st j).app = .idle := by
  obtain ⟨j, h1, h2⟩ := eventually_idle_or hf (fun _ => False)
    (fun k u c h => by obtain ⟨j, h1, h2⟩ := hd k u c h; exact ⟨j, h1, Or.inr h2⟩) k
  rcases h2 with h | h
  · exact absurd h id
  · exact ⟨j, h1, h⟩

/-- **an offered `stop` is taken** (strong fairness of the `stop` branch for this client; the
applier is at its `select` again and again because the `Clear`s of other clients complete). -/
theorem stop_taken {e : Exec cfg} (hf : Fair e) (hd : DrainsEnd e) {t : Tid} {c : Bool} {i : Nat}
    (_hpc : (e.st i).cl t = .clrStop c) : ∃ j, i ≤ j ∧ (e.st j).cl t ≠ .clrStop c := by
  apply Classical.byContradiction
  intro hno
  have hall : ∀ j, i ≤ j → (e.st j).cl t = .clrStop c :=
    fun j hij => Classical.byContradiction fun h => hno ⟨j, hij, h⟩
  have hready : ReadyInfOften e (.applier (.selStop t)) i := by
    intro k hik
    obtain ⟨j, hkj, hj⟩ := idle_again hf.weak hd k
    exact ⟨j, hkj, idle_stop_enabled hj (hall j (by omega))⟩
  obtain ⟨j, hij, hj⟩ := hf.select.stop t i hready
  have hs := e.next j
  rw [hj] at hs
  obtain ⟨_, hr⟩ := selStop_at_idle (show applierStep cfg (e.st j) (.selStop t) = some _ from hs)
  obtain ⟨_, _, (⟨c', _, h1⟩ | ⟨_, h1⟩)⟩ := selStop_shape hr
  · have := hall (j + 1) (by omega)
    rw [h1] at this; cases this
  · have := hall (j + 1) (by omega)
    rw [h1] at this; cases this

end RV.Cache
