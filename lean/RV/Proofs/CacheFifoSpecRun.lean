import RV.Proofs.CacheFifoSpecApplier
/-!
# C06: the refinement — every single-client run of the model is a run of the reference with the
same observable history
-/
namespace RV.Cache
open Gen.Cache

/-- the actions of a single-client run: client `t0` issues only the five map calls; everything
else (applier, clock) is unrestricted -/
def ActOk (t0 : Tid) : Action → Prop
  | .spawn t c => t = t0 ∧ c.isMapCall = true
  | .client t _ => t = t0
  | _ => True

theorem sim_step {cfg : Cfg} {t0 : Tid} {s s' : State} {sp : Spec} {a : Action}
    (hsu : cfg.shouldUpdate = none) (hr : Reach cfg s) (hR : SimR t0 s sp) (hroom : RoomAt s)
    (hact : ActOk t0 a) (hs : step cfg s a = some s') :
    ∃ sp' evs, SpecStep t0 sp evs sp' ∧ SimR t0 s' sp' ∧ obsOf s'.log = evs ++ obsOf s.log := by
  cases a with
  | spawn t c =>
    obtain ⟨rfl, hc⟩ := hact
    obtain ⟨sp', evs, hidle, hcall, hR', hobs⟩ := sim_spawn hR (show spawnStep s t c = some s' from hs) hc
    exact ⟨sp', evs, .call sp sp' c evs hidle hcall, hR', hobs⟩
  | client t ch =>
    have ht : t = t0 := hact
    subst ht
    obtain ⟨enq, sp', evs, hcl, hR', hobs⟩ := sim_client hsu hr hR (show clientStep cfg s t ch = some s' from hs)
    exact ⟨sp', evs, .client sp sp' enq evs hcl, hR', hobs⟩
  | applier ch =>
    obtain ⟨sp', hst, hR', hobs⟩ := sim_applier hsu hr hR hroom (show applierStep cfg s ch = some s' from hs)
    exact ⟨sp', [], hst, hR', by simpa using hobs⟩
  | done t =>
    exfalso
    have hs' : doneStep s t = some s' := hs
    unfold doneStep at hs'
    by_cases ht : t = t0
    · subst ht
      have := hR.callPc
      split at hs'
      · rename_i closing _ hpc; rw [hpc] at this; exact callPc_elim this rfl
      · rename_i _ hpc; rw [hpc] at this; exact callPc_elim this rfl
      · simp at hs'
    · have := hR.others t ht
      split at hs' <;> simp_all
  | tick d =>
    simp only [step, Option.some.injEq] at hs; subst hs
    refine ⟨{ sp with clock := sp.clock + d }, [], .tick sp d, ?_, by simp⟩
    exact ⟨hR.map, hR.pend, by show sp.clock + d = s.clock + d; rw [hR.clock], hR.nm, hR.cl, hR.callPc, hR.others, hR.opn,
      hR.acct, hR.added, hR.swd, hR.appOk⟩

/-- **Refinement.**  For every run of the model from its initial state in which a single client
issues `Set`/`SetWithTTL`/`Get`/`GetTTL`/`Del`/`Wait` calls (sequentially — the model only lets an
idle client start a call), with arbitrary interleaving of the applier, the sweep and the clock,
with `ShouldUpdate` unset and every new-item fitting into the remaining capacity when the applier
offers it to the policy: there is a run of the reference (`Spec`: map + accounted set + FIFO of
pending writes) with exactly the same history of calls and returned results, ending in a state
related to the model's by `SimR` (same map, same pending sequence, same clock). -/
theorem sim_run {cfg : Cfg} {t0 : Tid} {now : Time} {s : State} {acts : List Action}
    (hsu : cfg.shouldUpdate = none) (hacts : ∀ a ∈ acts, ActOk t0 a)
    (hr : run cfg (init cfg now) acts = some s)
    (hroom : ∀ as1 as2 s1, acts = as1 ++ as2 → run cfg (init cfg now) as1 = some s1 → RoomAt s1) :
    ∃ sp, SpecRun t0 (Spec.init now) (obsOf s.log) sp ∧ SimR t0 s sp := by
  refine run_induction_mid (P := fun s => ∃ sp, SpecRun t0 (Spec.init now) (obsOf s.log) sp ∧ SimR t0 s sp)
    (Reach.of_init cfg now) ⟨Spec.init now, .nil _, simR_init cfg t0 now⟩ ?_ hr
  intro pre a rest s1 s2 hsplit hpre hrs ⟨sp, hrun, hR⟩ hs _
  obtain ⟨sp', evs, hst, hR', hobs⟩ := sim_step hsu hrs hR (hroom pre (a :: rest) s1 hsplit hpre)
    (hacts a (by rw [hsplit]; simp)) hs
  exact ⟨sp', by rw [hobs]; exact .snoc _ sp sp' _ evs hrun hst, hR'⟩

/-! ### decidable forms of the hypotheses, for concrete runs -/

def actOkB (t0 : Tid) : Action → Bool
  | .spawn t c => t == t0 && c.isMapCall
  | .client t _ => t == t0
  | _ => true

theorem actOk_of_B {t0 : Tid} {a : Action} (h : actOkB t0 a = true) : ActOk t0 a := by
  cases a <;> simp_all [actOkB, ActOk]

def roomB (s : State) : Bool :=
  match s.app with
  | .costed i => !(i.flag == .new) || (decide (i.cost ≤ s.pol.maxCost) && decide (s.pol.used + i.cost ≤ s.pol.maxCost))
  | _ => true

theorem room_of_B {s : State} (h : roomB s = true) : RoomAt s := by
  intro i ha hf
  simp only [roomB, ha, hf, beq_self_eq_true, Bool.not_true, Bool.false_or, Bool.and_eq_true, decide_eq_true_eq] at h
  exact h

end RV.Cache
