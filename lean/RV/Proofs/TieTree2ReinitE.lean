import RV.Proofs.TieTree2ReinitD
import RV.Model.TreeFile
/-!
# The tree on flat memory: `Tree.reinit` (generated whole), part E: what the marking walk computes

`ri_fold_spec`: the fold of `ri_G` marks exactly the visited pages and adds the key counts of the
visited leaf pages; `ri_sum`: over `pids n` of a represented node that sum is `countLeafKeys n`.
-/
namespace RV.TreeFlat
open RV.Tree RV.NodeFlat Gen.TreeM

/-- the contribution of page `p` to `NumLeafKeys` -/
def ri_lk (cfg : Cfg) (d : Words) (p : Nat) : Nat :=
  if leafBit cfg.maxKeys (pageOf cfg d p) then nkeys cfg.maxKeys (pageOf cfg d p) else 0

theorem ri_fold_spec (cfg : Cfg) (d : Words) : ∀ (ps : List Nat) (s : St) (tp : Array Bool),
    (∀ p ∈ ps, 1 ≤ p ∧ p ≤ tp.size) →
    (ps.foldl (ri_G cfg d) (s, tp)).1 =
        { s with numLeafKeys := s.numLeafKeys + w ((ps.map (ri_lk cfg d)).sum) } ∧
      (ps.foldl (ri_G cfg d) (s, tp)).2.size = tp.size ∧
      ∀ i, i < tp.size → ((ps.foldl (ri_G cfg d) (s, tp)).2[i]! = true ↔ (tp[i]! = true ∨ (i + 1) ∈ ps))
  | [], s, tp, _ => by
    simp only [List.foldl_nil, List.map_nil, List.sum_nil]
    refine ⟨?_, trivial, ?_⟩
    · rw [show w 0 = 0#64 from rfl, BitVec.add_zero]
    · intro i _; simp
  | p :: ps, s, tp, h => by
    obtain ⟨hp1, hp2⟩ := h p (by simp)
    have hsz1 : (tp.set! (p - 1) true).size = tp.size := size_set! _ _ _
    have hG : ∀ s1, ri_G cfg d (s, tp) p = (s1, tp.set! (p - 1) true) →
        s1 = { s with numLeafKeys := s.numLeafKeys + w (ri_lk cfg d p) } →
        ((p :: ps).foldl (ri_G cfg d) (s, tp)).1 =
          { s with numLeafKeys := s.numLeafKeys + w (((p :: ps).map (ri_lk cfg d)).sum) } ∧
        ((p :: ps).foldl (ri_G cfg d) (s, tp)).2.size = tp.size ∧
        ∀ i, i < tp.size → (((p :: ps).foldl (ri_G cfg d) (s, tp)).2[i]! = true ↔ (tp[i]! = true ∨ (i + 1) ∈ p :: ps)) := by
      intro s1 e1 e2
      have ih := ri_fold_spec cfg d ps s1 (tp.set! (p - 1) true)
        (fun q hq => by rw [hsz1]; exact h q (by simp [hq]))
      rw [List.foldl_cons, e1]
      obtain ⟨i1, i2, i3⟩ := ih
      refine ⟨?_, by rw [i2, hsz1], ?_⟩
      · rw [i1, e2]
        simp only [List.map_cons, List.sum_cons]
        rw [← NodeFlat.w_add, ← BitVec.add_assoc]
      · intro i hi
        rw [i3 i (by rw [hsz1]; exact hi)]
        by_cases hip : p - 1 = i
        · rw [hip, get!_set!_self _ _ _ hi]
          have : i + 1 = p := by omega
          simp [this]
        · rw [get!_set!_ne _ _ _ _ hip]
          have : ¬ (i + 1 = p) := by omega
          simp [this]
    cases hl : leafBit cfg.maxKeys (pageOf cfg d p) with
    | true =>
      exact hG { s with numLeafKeys := s.numLeafKeys + w (nkeys cfg.maxKeys (pageOf cfg d p)) }
        (by unfold ri_G; simp only [hl, if_true]) (by unfold ri_lk; simp only [hl, if_true])
    | false =>
      exact hG s (by unfold ri_G; simp only [hl, Bool.false_eq_true, if_false])
        (by unfold ri_lk; simp only [hl, Bool.false_eq_true, if_false]
            rw [show w 0 = 0#64 from rfl, BitVec.add_zero])

mutual
theorem ri_sum {cfg : Cfg} (hc : CfgFlat cfg) (d : Words) : ∀ (n : Node), TreeFlat.Repr cfg d n →
    ((pids n).map (ri_lk cfg d)).sum = countLeafKeys n
  | .null, _ => by simp [pids, countLeafKeys]
  | .leaf p es, hr => by
    have hp := repr_leaf hr
    have hmk := hc.mkLt
    have hnk : nkeys cfg.maxKeys (pageOf cfg d p) = es.length := by rw [← ents_length, hp.ents]
    have hle := hp.ok.2.1
    simp only [pids, List.map_cons, List.map_nil, List.sum_cons, List.sum_nil, countLeafKeys, ri_lk,
      hp.isLeaf, if_true, Nat.add_zero]
    rw [Node.numKeys_eq _ (by simp only [Node.len]; omega), hnk]
    simp only [Node.len]
  | .inner p es, hr => by
    obtain ⟨hp, hre⟩ := repr_inner hr
    simp only [pids, List.map_cons, List.sum_cons, countLeafKeys, ri_lk, hp.isLeaf, Bool.false_eq_true,
      if_false, Nat.zero_add]
    exact ri_sumEnts hc d es hre
theorem ri_sumEnts {cfg : Cfg} (hc : CfgFlat cfg) (d : Words) : ∀ (es : List (Key × Node)), ReprEnts cfg d es →
    ((pidsEnts es).map (ri_lk cfg d)).sum = countLeafKeysEnts es
  | [], _ => by simp [pidsEnts, countLeafKeysEnts]
  | (k, c) :: rest, hre => by
    rw [ReprEnts] at hre
    simp only [pidsEnts, List.map_append, List.sum_append, countLeafKeysEnts]
    rw [ri_sum hc d c hre.1, ri_sumEnts hc d rest hre.2]
end

end RV.TreeFlat
