import RV.Proofs.CacheProv
import RV.Proofs.CacheOwnLog
/-!
# Ownership: the places a value can be, and how many of them hold it (C02, C04)
-/
namespace RV.Cache
open Gen.Cache

/-- the value an item owns: update items carry a value that is (also) in the store -/
def Item.own (i : Item) : Val := if i.flag = .upd then 0 else i.value

def BufElem.own : BufElem → Val
  | .item i => i.own
  | .marker _ => 0

/-- client-local values: a new value not yet anywhere else, or a value in limbo (removed from the
store, `OnExit` not yet called) -/
def CPc.own : CPc → Val
  | .setStart _ _ v _ _ => v
  | .setUpd i => i.value
  | .setExit _ prev => prev
  | .setSend i => i.own
  | .setRetDrop i => i.own
  | .delExit _ _ prev => prev
  | _ => 0

/-- applier-local values: the new item being processed, or a value in limbo -/
def APc.own : APc → Val
  | .item i => i.own
  | .costed i => i.own
  | .added i _ _ => i.value
  | .victimEvict _ _ _ v _ => v
  | .tombStore v => v
  | .swStoreDel _ _ _ _ v _ => v
  | .swPolDel _ _ _ _ _ v _ => v
  | _ => 0

/-- the value an event declares gone for good: passed to `OnExit`, or refused by `Set` (returned false) -/
def Ev.dead : Ev → Val
  | .exit v => v
  | .setRet _ v false => v
  | _ => 0

def bufCnt (v : Val) (buf : List BufElem) : Nat := (buf.map BufElem.own).count v
def sqCnt (v : Val) (q : List (Tid × BufElem)) : Nat := (q.map fun p => p.2.own).count v
def appCnt (v : Val) (pc : APc) : Nat := if pc.own = v then 1 else 0
def clCnt (v : Val) (pc : CPc) : Nat := if pc.own = v then 1 else 0
def storeCnt (v : Val) (st : Store) : Nat :=
  match st with
  | [] => 0
  | (_, e) :: rest => (if e.value = v then 1 else 0) + storeCnt v rest
def deadCnt (v : Val) (log : List Ev) : Nat := (log.map Ev.dead).count v

/-- the number of places other than client threads that hold `v`, with multiplicity: buffered and
blocked new items, the applier, store entries, `exit v` and `setRet _ v false` events -/
def View.cnt (w : View) (v : Val) : Nat :=
  bufCnt v w.buf + sqCnt v w.sendq + appCnt v w.app + storeCnt v w.store + deadCnt v w.log

/-- `v` occupies at most one place: either at most one counted place and no client thread, or exactly
one client thread and no counted place. -/
def Own (v : Val) (w : View) : Prop :=
  w.cnt v ≤ 1 ∧ ∀ t, (w.cl t).own = v → w.cnt v = 0 ∧ ∀ t', (w.cl t').own = v → t' = t

@[simp] theorem bufCnt_nil (v : Val) : bufCnt v [] = 0 := rfl
@[simp] theorem bufCnt_cons (v : Val) (x : BufElem) (l : List BufElem) :
    bufCnt v (x :: l) = (if x.own = v then 1 else 0) + bufCnt v l := by
  simp only [bufCnt, List.map_cons, List.count_cons, beq_iff_eq]; omega
@[simp] theorem bufCnt_append (v : Val) (l1 l2 : List BufElem) : bufCnt v (l1 ++ l2) = bufCnt v l1 + bufCnt v l2 := by
  simp [bufCnt, List.count_append]
@[simp] theorem sqCnt_nil (v : Val) : sqCnt v [] = 0 := rfl
@[simp] theorem sqCnt_cons (v : Val) (x : Tid × BufElem) (l : List (Tid × BufElem)) :
    sqCnt v (x :: l) = (if x.2.own = v then 1 else 0) + sqCnt v l := by
  simp only [sqCnt, List.map_cons, List.count_cons, beq_iff_eq]; omega
@[simp] theorem sqCnt_append (v : Val) (l1 l2 : List (Tid × BufElem)) : sqCnt v (l1 ++ l2) = sqCnt v l1 + sqCnt v l2 := by
  simp [sqCnt, List.count_append]
@[simp] theorem deadCnt_nil (v : Val) : deadCnt v [] = 0 := rfl
@[simp] theorem deadCnt_cons (v : Val) (x : Ev) (l : List Ev) :
    deadCnt v (x :: l) = (if x.dead = v then 1 else 0) + deadCnt v l := by
  simp only [deadCnt, List.map_cons, List.count_cons, beq_iff_eq]; omega
@[simp] theorem deadCnt_append (v : Val) (l1 l2 : List Ev) : deadCnt v (l1 ++ l2) = deadCnt v l1 + deadCnt v l2 := by
  simp [deadCnt, List.count_append]

/-! ### counting in the store -/

theorem storeCnt_erase_le (v : Val) (st : Store) (k : Hash) : storeCnt v (st.erase k) ≤ storeCnt v st := by
  induction st with
  | nil => exact Nat.le_refl _
  | cons p rest ih =>
    obtain ⟨k', e⟩ := p
    by_cases hk : k' = k
    · simp only [AMap.erase, hk, ↓reduceIte, storeCnt]; omega
    · simp only [AMap.erase, hk, ↓reduceIte, storeCnt]; omega

theorem storeCnt_erase_lookup (v : Val) {st : Store} {k : Hash} {e : Entry} (h : st.lookup k = some e) :
    storeCnt v (st.erase k) + (if e.value = v then 1 else 0) ≤ storeCnt v st := by
  induction st with
  | nil => simp [AMap.lookup] at h
  | cons p rest ih =>
    obtain ⟨k', e'⟩ := p
    by_cases hk : k' = k
    · simp only [AMap.lookup, hk, ↓reduceIte, Option.some.injEq] at h
      subst h
      have := storeCnt_erase_le v rest k
      simp only [AMap.erase, hk, ↓reduceIte, storeCnt]; omega
    · simp only [AMap.lookup, hk, ↓reduceIte] at h
      have := ih h
      simp only [AMap.erase, hk, ↓reduceIte, storeCnt]; omega

theorem storeCnt_insert (v : Val) (st : Store) (k : Hash) (e : Entry) :
    storeCnt v (st.insert k e) = (if e.value = v then 1 else 0) + storeCnt v (st.erase k) := by
  simp only [AMap.insert, storeCnt]

theorem storeCnt_pos_of_lookup {v : Val} {st : Store} {k : Hash} {e : Entry} (h : st.lookup k = some e)
    (hv : e.value = v) : 1 ≤ storeCnt v st := by
  have := storeCnt_erase_lookup v h
  rw [if_pos hv] at this; omega

theorem exists_lookup_of_storeCnt {v : Val} {st : Store} (hn : AMap.NodupKeys st) (h : 1 ≤ storeCnt v st) :
    ∃ k e, st.lookup k = some e ∧ e.value = v := by
  induction st with
  | nil => simp [storeCnt] at h
  | cons p rest ih =>
    obtain ⟨k', e'⟩ := p
    have hc : k' ∉ AMap.keys rest ∧ (AMap.keys rest).Nodup := by
      simpa [AMap.NodupKeys, AMap.keys] using hn
    by_cases hv : e'.value = v
    · exact ⟨k', e', by simp [AMap.lookup], hv⟩
    · simp only [storeCnt, hv, ↓reduceIte, Nat.zero_add] at h
      obtain ⟨k, e, hl, he⟩ := ih hc.2 h
      refine ⟨k, e, ?_, he⟩
      have hk : k' ≠ k := by
        intro hk; subst hk
        exact hc.1 (AMap.mem_keys_of_lookup hl)
      simp only [AMap.lookup, hk, ↓reduceIte]; exact hl

/-! ### `Clear`'s shard step: enumeration orders have no duplicates -/

theorem nodup_of_cover {α : Type} [DecidableEq α] {l1 : List α} (h1 : l1.Nodup) :
    ∀ {l2 : List α}, (∀ a ∈ l1, a ∈ l2) → l2.length ≤ l1.length → l2.Nodup := by
  induction l1 with
  | nil =>
    intro l2 _ hlen
    have : l2 = [] := List.eq_nil_of_length_eq_zero (by simpa using hlen)
    subst this; exact List.nodup_nil
  | cons a l1' ih =>
    intro l2 hsub hlen
    obtain ⟨ha, h1'⟩ := List.nodup_cons.mp h1
    have hal2 : a ∈ l2 := hsub a (by simp)
    have hperm := List.perm_cons_erase hal2
    have hlen2 : (l2.erase a).length + 1 = l2.length := by
      have := hperm.length_eq; simp at this; omega
    have hsub' : ∀ b ∈ l1', b ∈ l2.erase a := by
      intro b hb
      have hne : b ≠ a := fun e => ha (e ▸ hb)
      exact (List.mem_erase_of_ne hne).mpr (hsub b (by simp [hb]))
    have hnd : (l2.erase a).Nodup := ih h1' hsub' (by simp at hlen; omega)
    have hna : a ∉ l2.erase a := by
      intro hmem
      have hsub'' : l1' ⊆ (l2.erase a).erase a := by
        intro b hb
        have hne : b ≠ a := fun e => ha (e ▸ hb)
        exact (List.mem_erase_of_ne hne).mpr (hsub' b hb)
      have h3 := List.Nodup.length_le_of_subset h1' hsub''
      have h4 : ((l2.erase a).erase a).length + 1 = (l2.erase a).length := by
        have := (List.perm_cons_erase hmem).length_eq; simp at this; omega
      simp at hlen; omega
    exact hperm.nodup_iff.mpr (List.nodup_cons.mpr ⟨hna, hnd⟩)

theorem shardOrder_nodup {st : Store} (hn : AMap.NodupKeys st) {k : Nat} {ks : List Hash}
    (h : isShardOrder st k ks = true) : ks.Nodup := by
  unfold isShardOrder at h
  simp only [Bool.and_eq_true, beq_iff_eq, List.all_eq_true, List.contains_iff_mem] at h
  obtain ⟨⟨hlen, _⟩, hcov⟩ := h
  have hnd : (shardKeys st k).Nodup := by
    unfold shardKeys
    exact List.Nodup.sublist List.filter_sublist hn
  exact nodup_of_cover hnd hcov (by omega)

theorem evLog_erase_ne (st : Store) (k : Hash) (ks : List Hash) (hk : k ∉ ks) : evLog (st.erase k) ks = evLog st ks := by
  induction ks with
  | nil => rfl
  | cons a rest ih =>
    have ha : a ≠ k := fun e => hk (by simp [e])
    unfold evLog
    rw [ih (fun hm => hk (List.mem_cons_of_mem _ hm)), AMap.lookup_erase_ne st ha]

theorem clear_cnt {v : Val} (hv : v ≠ 0) (st : Store) (ks : List Hash) (hnd : ks.Nodup) :
    deadCnt v (evLog st ks) + storeCnt v (eraseAll st ks) ≤ storeCnt v st := by
  induction ks generalizing st with
  | nil => simp [evLog, eraseAll]
  | cons k rest ih =>
    obtain ⟨hk, hnd'⟩ := List.nodup_cons.mp hnd
    have h1 := ih (st.erase k) hnd'
    rw [evLog_erase_ne st k rest hk] at h1
    unfold evLog eraseAll
    rw [deadCnt_append]
    split
    · have := storeCnt_erase_le v st k
      simp only [deadCnt_nil]; omega
    · rename_i e he
      have := storeCnt_erase_lookup v he
      have h0 : ¬ (0 = v) := fun e => hv e.symm
      by_cases hev : e.value = v <;>
        simp only [deadCnt_cons, Ev.dead, deadCnt_nil, h0, hev, ↓reduceIte] at this ⊢ <;> omega

theorem nodup_eraseAll {st : Store} (hn : AMap.NodupKeys st) (ks : List Hash) : AMap.NodupKeys (eraseAll st ks) := by
  induction ks generalizing st with
  | nil => exact hn
  | cons k rest ih => exact ih (AMap.nodup_erase hn k)

/-- the store's key list is duplicate-free along every abstract step -/
theorem nodup_step {w w' : View} (h : AStep w w') (hn : AMap.NodupKeys w.store) : AMap.NodupKeys w'.store := by
  cases h with
  | setUpdOk => exact AMap.nodup_insert hn _ _
  | delOk => exact AMap.nodup_erase hn _
  | drainMarker t closing id w1 hpc hr => cases hr <;> exact hn
  | drainItem t closing i w1 hpc hr => cases hr <;> exact hn
  | selItem x w1 happ hr => cases hr <;> exact hn
  | clrShard => exact nodup_eraseAll hn _
  | addedOk i vs st' happ hst =>
    rcases hst with rfl | rfl
    · exact hn
    · exact AMap.nodup_insert hn _ _
  | victims h cost rest st' c v happ hd => cases hd with
    | none => exact hn
    | some e he hc => exact AMap.nodup_erase hn _
  | tombPolicy i st' c v happ hd => cases hd with
    | none => exact hn
    | some e he hc => exact AMap.nodup_erase hn _
  | swKeyDel => exact AMap.nodup_erase hn _
  | _ => exact hn

theorem nodup_reach {cfg : Cfg} {s : State} (h : Reach cfg s) : AMap.NodupKeys s.store :=
  Reach.induction (P := fun s => AMap.NodupKeys s.store) (fun _ => AMap.nodup_empty)
    (fun _ _ _ _ hp hs => nodup_step (astep_of_step hs) hp) h

end RV.Cache
