import RV.Proofs.AllocSafe
/-! Allocator (C12): what `TrimTo` does to the chunk table. -/
namespace RV.Alloc
open Gen.Alloc

/-- number of leading non-empty slots -/
def nonEmptyPrefix : List Nat → Nat
  | [] => 0
  | c :: cs => if c = 0 then 0 else nonEmptyPrefix cs + 1

theorem trimStop_iff (c : Nat) (hc : c < 2 ^ 63) : trimStop (bufOfLen c) = decide (c = 0) := by
  have := slotEmpty_iff c hc
  simpa [trimStop, growSlotEmpty] using this

theorem trimFrom_all_freed (mx : W) (cs : List Nat) (a : W) (ha : a.toNat + cs.sum < 2 ^ 63)
    (hge : BitVec.slt a mx = false) (i : Nat) :
    chunkLen (trimFrom mx cs a) i = if i < nonEmptyPrefix cs then 0 else chunkLen cs i := by
  induction cs generalizing a i with
  | nil => simp [trimFrom, nonEmptyPrefix]
  | cons c cs ih =>
    simp only [List.sum_cons] at ha
    simp only [trimFrom, nonEmptyPrefix]
    rw [trimStop_iff c (by omega)]
    by_cases hc : c = 0
    · simp [hc]
    · simp only [hc, decide_false, Bool.false_eq_true, ↓reduceIte]
      have hsum : (a + BitVec.ofNat 64 c).toNat = a.toNat + c := by
        simp only [BitVec.toNat_add, BitVec.toNat_ofNat]; omega
      have hge' : BitVec.slt (a + BitVec.ofNat 64 c) mx = false := by
        simp only [BitVec.slt, BitVec.toInt, decide_eq_false_iff_not] at hge ⊢
        rw [hsum]
        have := mx.isLt
        split at hge <;> split <;> split <;> omega
      simp only [trimKeep, hge', Bool.false_eq_true, ↓reduceIte]
      cases i with
      | zero => simp [chunkLen_cons_zero]
      | succ i =>
        simp only [chunkLen_cons_succ]
        rw [ih _ (by rw [hsum]; omega) hge' i]
        simp

/-- `TrimTo` keeps a prefix of the chunks and empties every later non-empty slot. -/
theorem trimFrom_suffix (mx : W) (cs : List Nat) (a : W) (ha : a.toNat + cs.sum < 2 ^ 63) :
    ∃ k, k ≤ nonEmptyPrefix cs ∧ ∀ i, chunkLen (trimFrom mx cs a) i =
      if i < k then chunkLen cs i else if i < nonEmptyPrefix cs then 0 else chunkLen cs i := by
  induction cs generalizing a with
  | nil => exact ⟨0, by simp [nonEmptyPrefix], by simp [trimFrom, nonEmptyPrefix]⟩
  | cons c cs ih =>
    simp only [List.sum_cons] at ha
    simp only [trimFrom, nonEmptyPrefix]
    rw [trimStop_iff c (by omega)]
    by_cases hc : c = 0
    · exact ⟨0, by simp [hc], by simp [hc]⟩
    · simp only [hc, decide_false, Bool.false_eq_true, ↓reduceIte]
      have hsum : (a + BitVec.ofNat 64 c).toNat = a.toNat + c := by
        simp only [BitVec.toNat_add, BitVec.toNat_ofNat]; omega
      by_cases hk : trimKeep (a + BitVec.ofNat 64 c) mx = true
      · simp only [hk, ↓reduceIte]
        obtain ⟨k, hk1, hk2⟩ := ih (a + BitVec.ofNat 64 c) (by rw [hsum]; omega)
        refine ⟨k + 1, by omega, fun i => ?_⟩
        cases i with
        | zero => simp [chunkLen_cons_zero]
        | succ i =>
          simp only [chunkLen_cons_succ, hk2 i]
          simp
      · have hk' : BitVec.slt (a + BitVec.ofNat 64 c) mx = false := by simpa [trimKeep] using hk
        simp only [hk, Bool.false_eq_true, ↓reduceIte]
        refine ⟨0, by omega, fun i => ?_⟩
        cases i with
        | zero => simp [chunkLen_cons_zero]
        | succ i =>
          simp only [chunkLen_cons_succ]
          rw [trimFrom_all_freed mx cs _ (by rw [hsum]; omega) hk' i]
          simp

end RV.Alloc
