import RV.Proofs.CacheFifoSide
/-!
# (g) `set_then_wait_visible`

A `Set` of a key `k` that is neither resident, nor accounted, nor pending, whose item was
enqueued (the `Set` returns true) and is admitted by the policy, is resident with exactly its
value once a `Wait` called afterwards has returned — for every lag of the applier and every
concurrent activity on other keys — provided nobody `Set`s/`Del`etes `k` or `Clear`s meanwhile,
`k` is not chosen as a victim, and the TTL has not elapsed.

Ghost predicates: `PendN` (the new-item `N` is pending, nothing else of `k` is, `k` is not
resident) and `AppliedK` (`k` is resident with `N`'s value and nothing of `k` is pending).
-/
namespace RV.Cache
open Gen.Cache

/-- the new-item under consideration, up to its cost (which the applier pre-processes) -/
def IsN (k : Hash) (c : Conf) (v : Val) (exp : Time) : BufElem → Prop
  | .item i => i.flag = .new ∧ i.key = k ∧ i.conflict = c ∧ i.value = v ∧ i.exp = exp
  | .marker _ => False

def PendN (k : Hash) (c : Conf) (v : Val) (exp : Time) (Q : List BufElem → Prop) (s : State) : Prop :=
  ∃ f N back, pending s = f ++ N :: back ∧ IsN k c v exp N ∧ NoItemK k f ∧ NoItemK k back ∧ Q back ∧
    s.store.lookup k = none ∧
    (s.pol.costs.lookup k = none ∨ (f = [] ∧ ∃ i vs, s.app = .added i vs true ∧ N = .item i))

def AppliedK (k : Hash) (c : Conf) (v : Val) (exp : Time) (s : State) : Prop :=
  s.store.lookup k = some ⟨c, v, exp⟩ ∧ NoItemK k (pending s)

/-- what the run must guarantee in each of its states: the policy admits `k`'s new-item and never
picks `k` as a victim -/
structure Calm (k : Hash) (s : State) : Prop where
  admitted : ∀ i vs ok, s.app = .added i vs ok → i.key = k → ok = true
  notVictim : ∀ cost rest, s.app ≠ .victims ((k, cost) :: rest)

theorem pushSrc_notK {k : Hash} {s : State} {e : BufElem} (hns : NoSetK k s) (hnd : NoDelK k s)
    (h : PushSrc s e) : ¬ isItemK k e := by
  rcases h with ⟨t, i, hpc, rfl⟩ | ⟨t, h', c, hpc, rfl⟩ | rfl
  · intro e; exact hns t (by rw [hpc]; exact e)
  · intro e; exact hnd t (by rw [hpc]; exact e)
  · intro e; exact e

theorem noItemK_kstep {k : Hash} {s s' : State} (hns : NoSetK k s) (hnd : NoDelK k s)
    (h : NoItemK k (pending s)) (hk : KStep k s s') : NoItemK k (pending s') := by
  cases hk with
  | quiet hp _ _ => rw [hp]; exact h
  | push e _ hsrc hp _ _ => rw [hp]; exact h.append (pushSrc_notK hns hnd hsrc)
  | recost i c r hp hp' _ _ =>
    rw [hp'] ; rw [hp] at h
    intro e he
    rcases List.mem_cons.mp he with rfl | h1
    · exact h (.item i) (by simp)
    · exact h e (List.mem_cons_of_mem _ h1)
  | popNonTomb x hp _ _ _ => rw [hp] at h; exact h.sub (fun _ he => List.mem_cons_of_mem _ he)
  | popTomb x hp _ _ _ _ => rw [hp] at h; exact h.sub (fun _ he => List.mem_cons_of_mem _ he)
  | drained x t closing hp _ _ _ => rw [hp] at h; exact h.sub (fun _ he => List.mem_cons_of_mem _ he)
  | drainEnd t closing hp _ _ _ _ => rw [hp]; exact h
  | clrPolicy t closing hp _ _ _ _ _ => rw [hp]; exact h
  | clrShard t closing j hp _ _ _ _ _ _ => rw [hp]; exact h

/-- `AppliedK` is stable: the entry stays (by `stays_until`) and nothing of `k` gets pending -/
theorem applied_step {cfg : Cfg} {k : Hash} {c : Conf} {v : Val} {exp : Time} {s s' : State} {a : Action}
    (hr : Reach cfg s) (hns : NoSetK k s) (hnd : NoDelK k s) (hnc : NoClr s) (hconf : ConfAgree k s.log)
    (hcalm : Calm k s) (httl : exp = Gen.zeroTime ∨ s.clock < exp)
    (hs : step cfg s a = some s') (h : AppliedK k c v exp s) : AppliedK k c v exp s' := by
  obtain ⟨h1, h2⟩ := h
  refine ⟨?_, noItemK_kstep hns hnd h2 (kstep k hr hns hconf hs)⟩
  refine Classical.byContradiction fun hne => ?_
  have held : ∀ i, appElem s.app = some (.item i) → i.key ≠ k := by
    intro i hi hk
    exact h2 (.item i) (by simp [pending, hi]) hk
  cases stays_until hr hs h1 hne with
  | overwrite t i _ hpc hk _ => exact hns t (by rw [hpc]; exact hk)
  | del t c' _ hpc _ => exact hnd t (by rw [hpc]; rfl)
  | tomb i _ hpc hk _ => exact held i (by rw [hpc]; rfl) hk
  | readmit i vs _ hpc hk _ => exact held i (by rw [hpc]; rfl) hk
  | evicted cost rest _ hpc _ => exact hcalm.notVictim cost rest hpc
  | cleared t closing j hpc _ => exact clr_elim (by rw [hpc]; rfl) (hnc t)
  | expired now c' bs _ hpc hexp hle hnow _ =>
    rcases httl with e | e
    · exact hexp e
    · have : exp ≤ s.clock := Int.le_trans hle hnow
      exact absurd (Int.lt_of_le_of_lt this e) (Int.lt_irrefl _)

/-- an applier step while the applier holds nothing: the pending sequence is unchanged and absent
stays absent -/
theorem applier_nohold {cfg : Cfg} {k : Hash} {s s' : State} {ch : Choice}
    (hs : applierStep cfg s ch = some s') (hnone : appElem s.app = none) :
    pending s' = pending s ∧ (s.store.lookup k = none → s'.store.lookup k = none) ∧
    (s.pol.costs.lookup k = none → s'.pol.costs.lookup k = none) := by
  apply applierStep_cases hs (motive := fun s' => pending s' = pending s ∧
    (s.store.lookup k = none → s'.store.lookup k = none) ∧ (s.pol.costs.lookup k = none → s'.pol.costs.lookup k = none))
  case marker => intro id hpc; rw [hpc] at hnone; cases hnone
  case item => intro i hpc; rw [hpc] at hnone; cases hnone
  case costed => intro i hpc; rw [hpc] at hnone; cases hnone
  case added => intro i vs ok hpc; rw [hpc] at hnone; cases hnone
  case tombPolicy => intro i hpc; rw [hpc] at hnone; cases hnone
  case idle =>
    intro hpc hr
    unfold apIdle at hr
    split at hr
    · unfold apSelItem at hr
      split at hr
      · simp at hr
      · rename_i id s1 hrecv
        simp only [Option.some.injEq] at hr; subst hr
        exact ⟨pending_recv hnone hrecv rfl rfl rfl, fun h => by rw [show (_ : State).store = s.store from recvBuf_store hrecv]; exact h,
          fun h => by rw [show (_ : State).pol = s.pol from recvBuf_pol hrecv]; exact h⟩
      · rename_i i s1 hrecv
        simp only [Option.some.injEq] at hr; subst hr
        exact ⟨pending_recv hnone hrecv rfl rfl rfl, fun h => by rw [show (_ : State).store = s.store from recvBuf_store hrecv]; exact h,
          fun h => by rw [show (_ : State).pol = s.pol from recvBuf_pol hrecv]; exact h⟩
    · simp only [Option.some.injEq] at hr; subst hr
      exact ⟨pending_congr (by simp [hpc, appElem]) rfl rfl, id, id⟩
    · rename_i t
      refine ⟨pending_congr ?_ (apSelStop_buf s t hr) (apSelStop_sendq s t hr), fun h => by rw [apSelStop_store s t hr]; exact h,
        fun h => by rw [apSelStop_pol s t hr]; exact h⟩
      unfold apSelStop at hr
      split at hr <;> first | (simp only [Option.some.injEq] at hr; subst hr; simp [hpc, appElem]) | simp at hr
    · simp at hr
  case victims =>
    intro vs hpc _ hr
    unfold apVictims at hr
    split at hr
    · simp at hr
    · simp only [Option.some.injEq] at hr; subst hr
      exact ⟨pending_congr (by simp [hpc, appElem]) rfl rfl, fun h => storeDel_none h, id⟩
  case victimEvict =>
    intro h' cost c v rest hpc _
    have happ : appElem (apVictimEvict s h' cost c v rest).app = none := by
      unfold apVictimEvict afterVictims; split <;> simp [appElem]
    exact ⟨pending_congr (by rw [happ, hpc]; rfl) (by simp) (by simp), fun h => by simpa using h, fun h => by simpa using h⟩
  case tombStore =>
    intro v hpc _
    exact ⟨pending_congr (by simp [hpc, apTombStore, appElem]) rfl rfl, id, id⟩
  case tick =>
    intro hpc _
    exact ⟨pending_congr (by simp [hpc, apTick, appElem]) rfl rfl, id, id⟩
  case sweep =>
    intro now bs hpc hr
    refine ⟨pending_congr ?_ (apSweep_buf s now bs ch hr) (apSweep_sendq s now bs ch hr),
      fun h => by rw [apSweep_store s now bs ch hr]; exact h, fun h => by rw [apSweep_pol s now bs ch hr]; exact h⟩
    unfold apSweep at hr
    split at hr
    · simp only [Option.some.injEq] at hr; subst hr; simp [hpc, appElem]
    · split at hr
      · simp at hr
      · simp only [Option.some.injEq] at hr; subst hr; simp [hpc, appElem]
    · simp at hr
  case swKey =>
    intro now k' c bs hpc _
    have happ : appElem (apSwKey s now k' c bs).app = none := by
      unfold apSwKey; dsimp only; split <;> simp [appElem]
    refine ⟨pending_congr (by rw [happ, hpc]; rfl) (by simp) (by simp), fun h => ?_, fun h => by simpa using h⟩
    unfold apSwKey; dsimp only; split
    · exact storeDelExpired_none h
    · exact h
  case swStoreDel =>
    intro now k' c expr v bs hpc _
    exact ⟨pending_congr (by simp [hpc, apSwStoreDel, appElem]) rfl rfl, id,
      fun h => by simp only [apSwStoreDel]; exact polDel_none_f h⟩
  case swPolDel =>
    intro now k' c expr cost v bs hpc _
    exact ⟨pending_congr (by simp [hpc, apSwPolDel, appElem]) rfl rfl, id, id⟩

theorem isItemK_of_setK {k : Hash} {e : BufElem} (h : e.isSetK k) : isItemK k e := by
  cases e with
  | item i => exact h.1
  | marker id => exact h

/-- one step from `PendN`: still `PendN`, or the applier has just applied `N` -/
theorem pendN_step {cfg : Cfg} {k : Hash} {c : Conf} {v : Val} {exp : Time} {Q : List BufElem → Prop}
    {s s' : State} {a : Action} (hQ : PushStable Q)
    (hr : Reach cfg s) (hns : NoSetK k s) (hnd : NoDelK k s) (hnc : NoClr s) (hconf : ConfAgree k s.log)
    (hcalm : Calm k s) (hcalm' : Calm k s') (hs : step cfg s a = some s') (h : PendN k c v exp Q s) :
    PendN k c v exp Q s' ∨ AppliedK k c v exp s' := by
  obtain ⟨f, N, back, hp, hN, hf, hb, hq, hst, hco⟩ := h
  by_cases happl : ∃ ch, a = .applier ch
  · obtain ⟨ch, rfl⟩ := happl
    have hs' : applierStep cfg s ch = some s' := hs
    cases hheld : appElem s.app with
    | none =>
      obtain ⟨h1, h2, h3⟩ := applier_nohold (k := k) hs' hheld
      have hco1 : s.pol.costs.lookup k = none := by
        rcases hco with h | ⟨_, i, vs, ha, _⟩
        · exact h
        · rw [ha] at hheld; cases hheld
      exact Or.inl ⟨f, N, back, by rw [h1]; exact hp, hN, hf, hb, hq, h2 hst, Or.inl (h3 hco1)⟩
    | some e0 =>
      have hpe : pending s = e0 :: queue s := by simp [pending, hheld]
      cases f with
      | nil =>
        -- the applier holds `N`
        have heq : e0 = N ∧ queue s = back := by
          rw [hpe] at hp; simpa using hp
        obtain ⟨rfl, hqb⟩ := heq
        cases e0 with
        | marker id => exact hN.elim
        | item i =>
          have hik : i.key = k := hN.2.1
          cases happ : s.app <;> simp [happ, appElem] at hheld
          case item i' =>
            subst hheld
            simp only [applierStep, happ] at hs'
            obtain ⟨_, hs'⟩ := needNone_some hs'
            simp only [Option.some.injEq] at hs'; subst hs'
            have hco1 : s.pol.costs.lookup k = none := by
              rcases hco with h | ⟨_, i2, vs, ha, _⟩
              · exact h
              · rw [ha] at happ; cases happ
            refine Or.inl ⟨[], .item { i' with cost := itemCost cfg i' }, back, ?_, hN, hf, hb, hq, hst, Or.inl hco1⟩
            simp [pending, apItem, appElem, queue] at hqb ⊢
            exact hqb
          case costed i' =>
            subst hheld
            have hco1 : s.pol.costs.lookup k = none := by
              rcases hco with h | ⟨_, i2, vs, ha, _⟩
              · exact h
              · rw [ha] at happ; cases happ
            simp only [applierStep, happ] at hs'
            unfold apCosted at hs'
            rw [hN.1] at hs'
            simp only at hs'
            unfold apCostedNew at hs'
            split at hs'
            · rename_i vs added
              split at hs'
              · simp at hs'
              · rename_i pm _
                simp only [Option.some.injEq] at hs'; subst hs'
                have hadd : added = true := hcalm'.admitted i' vs added rfl hik
                subst hadd
                refine Or.inl ⟨[], .item i', back, ?_, hN, hf, hb, hq, hst, Or.inr ⟨rfl, i', vs, rfl, rfl⟩⟩
                simp [pending, appElem, queue] at hqb ⊢
                exact hqb
            · simp at hs'
          case added i' vs ok =>
            subst hheld
            have hok : ok = true := hcalm.admitted i' vs ok happ hik
            subst hok
            simp only [applierStep, happ] at hs'
            obtain ⟨_, hs'⟩ := needNone_some hs'
            simp only [Option.some.injEq] at hs'; subst hs'
            have happ' : appElem (apAdded cfg s i' vs true).app = none := by
              unfold apAdded afterVictims; split <;> split <;> simp [appElem]
            refine Or.inr ⟨?_, ?_⟩
            · have : (apAdded cfg s i' vs true).store = (storeSet cfg s.store s.em i').1 := by
                simp [apAdded]
              rw [this, ← hik, storeSet_absent cfg s.store s.em i' (by rw [hik]; exact hst)]
              obtain ⟨_, _, h3, h4, h5⟩ := hN
              rw [h3, h4, h5]
            · have : pending (apAdded cfg s i' vs true) = back := by
                rw [pending, happ']; simp [queue] at hqb ⊢; exact hqb
              rw [this]; exact hb
          case tombPolicy i' =>
            subst hheld
            have := ((item_inv hr).tomb_del i' happ).1
            rw [hN.1] at this; cases this
      | cons x f' =>
        -- the applier holds an element of another key
        have hx : e0 = x ∧ queue s = f' ++ N :: back := by
          rw [hpe] at hp; simpa using hp
        obtain ⟨rfl, _⟩ := hx
        have hnotk : ¬ isItemK k e0 := hf e0 (by simp)
        have hheldk : HeldNotSetK k s := by
          intro e he hs
          rw [hheld] at he; cases he
          exact hnotk (isItemK_of_setK hs)
        have hco1 : s.pol.costs.lookup k = none := by
          rcases hco with h | ⟨h, _⟩
          · exact h
          · cases h
        have hks := kstep k hr hns hconf hs
        have hnc' : NoClr s' := noClr_step (queue_inv hr) hnc (by simp [Action.isSpawnClear]) hs
        cases hks with
        | quiet hp' hk _ =>
          exact Or.inl ⟨e0 :: f', N, back, by rw [hp']; exact hp, hN, hf, hb, hq, (hk hheldk).1 hst, Or.inl ((hk hheldk).2 hco1)⟩
        | push e _ hsrc hp' hk _ =>
          exact Or.inl ⟨e0 :: f', N, back ++ [e], by rw [hp', hp]; simp, hN, hf,
            hb.append (pushSrc_notK hns hnd hsrc), hQ _ _ hq, (hk hheldk).1 hst, Or.inl ((hk hheldk).2 hco1)⟩
        | recost i0 c0 r hp1 hp2 hk _ =>
          rw [hp] at hp1
          simp only [List.cons_append, List.cons.injEq] at hp1
          obtain ⟨rfl, rfl⟩ := hp1
          refine Or.inl ⟨.item { i0 with cost := c0 } :: f', N, back, by rw [hp2]; simp, hN, ?_, hb, hq,
            (hk hheldk).1 hst, Or.inl ((hk hheldk).2 hco1)⟩
          intro e he
          rcases List.mem_cons.mp he with rfl | h1
          · exact hnotk
          · exact hf e (List.mem_cons_of_mem _ h1)
        | popNonTomb x hp1 _ hk _ =>
          rw [hp] at hp1
          simp only [List.cons_append, List.cons.injEq] at hp1
          obtain ⟨_, hp1⟩ := hp1
          exact Or.inl ⟨f', N, back, hp1.symm, hN, hf.sub (fun _ he => List.mem_cons_of_mem _ he), hb, hq,
            (hk hheldk).1 hst, Or.inl ((hk hheldk).2 hco1)⟩
        | popTomb x hp1 hx _ _ _ =>
          exfalso
          rw [hp] at hp1
          simp only [List.cons_append, List.cons.injEq] at hp1
          obtain ⟨rfl, _⟩ := hp1
          apply hnotk
          cases e0 with
          | item i => exact hx.1
          | marker id => exact hx
        | drained x t closing _ _ hpc _ => exact (clr_elim (by rw [hpc]; rfl) (hnc' t)).elim
        | drainEnd t closing _ _ hpc _ _ => exact (clr_elim (by rw [hpc]; rfl) (hnc t)).elim
        | clrPolicy t closing _ _ _ hpc _ _ => exact (clr_elim (by rw [hpc]; rfl) (hnc t)).elim
        | clrShard t closing j _ _ _ _ hpc _ _ => exact (clr_elim (by rw [hpc]; rfl) (hnc t)).elim
  · have hna : ∀ ch, a ≠ .applier ch := fun ch e => happl ⟨ch, e⟩
    obtain ⟨h1, h2, h3, h4⟩ := side_step k hns hnd hnc hs hna
    have hco' : s'.pol.costs.lookup k = none ∨ (f = [] ∧ ∃ i vs, s'.app = .added i vs true ∧ N = .item i) := by
      rcases hco with h | ⟨hf0, i, vs, ha, hn⟩
      · exact Or.inl (by rw [h3]; exact h)
      · exact Or.inr ⟨hf0, i, vs, by rw [h1]; exact ha, hn⟩
    rcases h4 with e | ⟨e, e1, e2⟩
    · exact Or.inl ⟨f, N, back, by rw [e]; exact hp, hN, hf, hb, hq, by rw [h2]; exact hst, hco'⟩
    · exact Or.inl ⟨f, N, back ++ [e], by rw [e1, hp]; simp, hN, hf, hb.append e2, hQ _ _ hq,
        by rw [h2]; exact hst, hco'⟩

def VisQ (k : Hash) (c : Conf) (v : Val) (exp : Time) (Q : List BufElem → Prop) (s : State) : Prop :=
  PendN k c v exp Q s ∨ AppliedK k c v exp s

theorem VisQ.mono {k : Hash} {c : Conf} {v : Val} {exp : Time} {Q Q' : List BufElem → Prop} {s : State}
    (h : VisQ k c v exp Q s) (hq : ∀ b, Q b → Q' b) : VisQ k c v exp Q' s := by
  rcases h with ⟨f, N, back, h1, h2, h3, h4, h5, h6⟩ | h
  · exact Or.inl ⟨f, N, back, h1, h2, h3, h4, hq _ h5, h6⟩
  · exact Or.inr h

/-- what every state of the run satisfies by hypothesis -/
structure RunHyp (cfg : Cfg) (k : Hash) (exp : Time) (s : State) : Prop where
  reach : Reach cfg s
  nos : NoSetK k s
  nod : NoDelK k s
  noc : NoClr s
  conf : ConfAgree k s.log
  calm : Calm k s
  ttl : exp = Gen.zeroTime ∨ s.clock < exp
  opn : s.closed = false

theorem visQ_step {cfg : Cfg} {k : Hash} {c : Conf} {v : Val} {exp : Time} {Q : List BufElem → Prop}
    {s s' : State} {a : Action} (hQ : PushStable Q) (hh : RunHyp cfg k exp s) (hcalm' : Calm k s')
    (hs : step cfg s a = some s') (h : VisQ k c v exp Q s) : VisQ k c v exp Q s' := by
  rcases h with h | h
  · exact pendN_step hQ hh.reach hh.nos hh.nod hh.noc hh.conf hh.calm hcalm' hs h
  · exact Or.inr (applied_step hh.reach hh.nos hh.nod hh.noc hh.conf hh.calm hh.ttl hs h)

/-- a `waitRet tw` logged after a `waitCall tw` (both in the appended part of the log) -/
def WaitCycle : List Ev → Prop
  | [] => False
  | ev :: l => WaitCycle l ∨ ∃ tw, ev = .waitRet tw ∧ .waitCall tw ∈ l

theorem WaitCycle.of_append {evs l : List Ev} (h : WaitCycle (evs ++ l)) :
    WaitCycle l ∨ ∃ tw, .waitRet tw ∈ evs ∧ .waitCall tw ∈ evs ++ l := by
  induction evs with
  | nil => exact Or.inl h
  | cons e r ih =>
    rcases h with h | ⟨tw, rfl, hc⟩
    · rcases ih h with h1 | ⟨tw, h1, h2⟩
      · exact Or.inl h1
      · exact Or.inr ⟨tw, List.mem_cons_of_mem _ h1, List.mem_cons_of_mem _ h2⟩
    · exact Or.inr ⟨tw, by simp, List.mem_cons_of_mem _ hc⟩

theorem WaitCycle.of_shape {tw : Tid} {l2 l1 l0 : List Ev} :
    WaitCycle (l2 ++ .waitRet tw :: (l1 ++ .waitCall tw :: l0)) := by
  induction l2 with
  | nil => exact Or.inr ⟨tw, rfl, by simp⟩
  | cons e r ih => exact Or.inl ih

theorem last_in_back {α : Type} {l f back : List α} {m N : α} (h : l ++ [m] = f ++ N :: back) (hne : N ≠ m) :
    m ∈ back := by
  have h2 := congrArg List.reverse h
  simp only [List.reverse_append, List.reverse_cons, List.reverse_nil, List.nil_append, List.singleton_append] at h2
  cases hb : back.reverse with
  | nil =>
    rw [hb] at h2; simp at h2
    exact absurd h2.1.symm hne
  | cons x r =>
    rw [hb] at h2; simp at h2
    have : x ∈ back.reverse := by rw [hb]; simp
    rw [← h2.1] at this
    exact List.mem_reverse.mp this

/-- the phase invariant for the `Wait` that follows the `Set` -/
structure VisPhase (k : Hash) (c : Conf) (v : Val) (exp : Time) (s : State) (new : List Ev) : Prop where
  base : VisQ k c v exp (fun _ => True) s
  w3 : ∀ tw id, (s.cl tw = .waitBlocked id ∨ s.cl tw = .waitRecv id) → .waitCall tw ∈ new →
    VisQ k c v exp (fun b => .marker id ∈ b) s
  w4 : ∀ tw, s.cl tw = .waitDone → .waitCall tw ∈ new → AppliedK k c v exp s
  w5 : WaitCycle new → AppliedK k c v exp s

theorem visQ_marker_closed {cfg : Cfg} {k : Hash} {c : Conf} {v : Val} {exp : Time} {s : State} {id : Nat}
    (hq : QueueInv cfg s) (hc : id ∈ s.closedMarkers) (h : VisQ k c v exp (fun b => .marker id ∈ b) s) :
    AppliedK k c v exp s := by
  rcases h with ⟨f, N, back, h1, _, _, _, h5, _⟩ | h
  · exfalso
    refine hq.mk_open id (mem_markerIds.mpr ?_) hc
    rw [h1]; simp [h5]
  · exact h

theorem VisPhase.step {cfg : Cfg} {k : Hash} {c : Conf} {v : Val} {exp : Time} {s s' : State} {a : Action}
    {new evs : List Ev} (hh : RunHyp cfg k exp s) (hcalm' : Calm k s') (hs : step cfg s a = some s')
    (hal : ∀ e ∈ evs, Allowed s a e) (h : VisPhase k c v exp s new) :
    VisPhase k c v exp s' (evs ++ new) := by
  have hq := queue_inv hh.reach
  have stab : ∀ {Q : List BufElem → Prop}, PushStable Q → VisQ k c v exp Q s → VisQ k c v exp Q s' :=
    fun hQ hv => visQ_step hQ hh hcalm' hs hv
  have stabA : AppliedK k c v exp s → AppliedK k c v exp s' :=
    fun ha => applied_step hh.reach hh.nos hh.nod hh.noc hh.conf hh.calm hh.ttl hs ha
  have hcall_wait : ∀ tw, .waitCall tw ∈ evs → a = .spawn tw .wait := fun tw hm => hal _ hm
  have spawn_pc : ∀ t c, a = .spawn t c → (s'.cl t).blocked = false ∧
      (∀ id, s'.cl t ≠ .waitRecv id) ∧ s'.cl t ≠ .waitDone := by
    intro t c e; subst e
    obtain ⟨h1, h2⟩ := spawn_next (show spawnStep s t c = some s' from hs)
    rw [h2]
    cases c <;> simp [CPc.blocked]
  constructor
  · exact stab pushStable_true h.base
  · intro tw id hpc hw
    have hw' : .waitCall tw ∈ new := by
      rcases List.mem_append.mp hw with h1 | h1
      · exfalso
        obtain ⟨hb, hr', _⟩ := spawn_pc tw _ (hcall_wait tw h1)
        rcases hpc with e | e
        · rw [e] at hb; simp [CPc.blocked] at hb
        · exact hr' id e
      · exact h1
    by_cases hown : a.owner tw
    · rcases owner_cases hs hown with ⟨ch, rfl, hn⟩ | hcore | ⟨c', rfl, _⟩
      · obtain ⟨hpc0, rfl⟩ := next_waitSent hn hpc
        have hs' : clientStep cfg s tw ch = some s' := hs
        simp only [clientStep, hpc0] at hs'
        obtain ⟨_, hs'⟩ := needNone_some hs'
        simp only [Option.some.injEq] at hs'; subst hs'
        rcases stab pushStable_true h.base with ⟨f, N, back, h1, h2, h3, h4, _, h6⟩ | ha
        · refine Or.inl ⟨f, N, back, h1, h2, h3, h4, ?_, h6⟩
          rw [marker_enqueued] at h1
          refine last_in_back h1 ?_
          intro e; rw [e] at h2; exact h2
        · exact Or.inr ha
      · exfalso
        rcases hpc with e | e <;> (rw [e] at hcore; exact core_true_ne hcore rfl)
      · exfalso
        obtain ⟨hb, hr', _⟩ := spawn_pc tw c' rfl
        rcases hpc with e | e
        · rw [e] at hb; simp [CPc.blocked] at hb
        · exact hr' id e
    · apply stab (pushStable_mem _)
      rcases step_cl_f hq hs tw hown with e | ⟨hb, e⟩
      · rw [e] at hpc; exact h.w3 tw id hpc hw'
      · refine h.w3 tw id (Or.inl ?_) hw'
        rw [e] at hpc
        cases hpc0 : s.cl tw <;> simp [hpc0, CPc.blocked, unblockedPc] at hb hpc ⊢
        exact hpc
  · intro tw hpc hw
    have hw' : .waitCall tw ∈ new := by
      rcases List.mem_append.mp hw with h1 | h1
      · exfalso
        obtain ⟨_, _, hd⟩ := spawn_pc tw _ (hcall_wait tw h1)
        exact hd hpc
      · exact h1
    by_cases hown : a.owner tw
    · rcases owner_cases hs hown with ⟨ch, rfl, hn⟩ | hcore | ⟨c', rfl, _⟩
      · rw [hpc] at hn
        obtain ⟨id, hpc0, hcl⟩ := next_waitDone hn
        exact stabA (visQ_marker_closed hq hcl (h.w3 tw id (Or.inr hpc0) hw'))
      · exfalso; rw [hpc] at hcore; exact core_true_ne hcore rfl
      · exfalso
        obtain ⟨_, _, hd⟩ := spawn_pc tw c' rfl
        exact hd hpc
    · apply stabA
      rcases step_cl_f hq hs tw hown with e | ⟨hb, e⟩
      · rw [e] at hpc; exact h.w4 tw hpc hw'
      · exfalso
        rw [e] at hpc
        cases hpc0 : s.cl tw <;> simp [hpc0, CPc.blocked, unblockedPc] at hb hpc
  · intro hd
    rcases hd.of_append with h1 | ⟨tw, h1, h2⟩
    · exact stabA (h.w5 h1)
    · have hA := hal _ h1
      simp only [Allowed] at hA
      obtain ⟨ch, rfl, hpc⟩ := hA
      have hw' : .waitCall tw ∈ new := by
        rcases List.mem_append.mp h2 with h3 | h3
        · have := hcall_wait tw h3; cases this
        · exact h3
      apply stabA
      rcases hpc with hpc | ⟨hpc, hcl⟩
      · exact h.w4 tw hpc hw'
      · rw [hh.opn] at hcl; cases hcl

/-- `closed` stays false while no `Clear`/`Close` is in progress -/
theorem open_step {cfg : Cfg} {s s' : State} {a : Action} (hnc : NoClr s) (ho : s.closed = false)
    (hs : step cfg s a = some s') : s'.closed = false := by
  cases hc : s'.closed
  · rfl
  · rcases (step_mono hs).2.2 hc with h | ⟨t, h⟩
    · rw [ho] at h; cases h
    · exact (clr_elim (by rw [h]; rfl) (hnc t)).elim

/-- induction along a run that knows the prefix already executed and the rest still to come -/
theorem run_induction_mid {cfg : Cfg} {P : State → Prop} {s0 sfin : State} {acts : List Action}
    (h0 : Reach cfg s0) (hp : P s0)
    (hstep : ∀ pre a rest s s', acts = pre ++ a :: rest → run cfg s0 pre = some s → Reach cfg s → P s →
      step cfg s a = some s' → run cfg s' rest = some sfin → P s')
    (hr : run cfg s0 acts = some sfin) : P sfin := by
  have aux : ∀ (rest pre : List Action) (s : State), Reach cfg s → run cfg s0 pre = some s → P s →
      acts = pre ++ rest → run cfg s rest = some sfin → P sfin := by
    intro rest
    induction rest with
    | nil => intro pre s _ _ hps _ hrr; simp [Cache.run] at hrr; subst hrr; exact hps
    | cons a as ih =>
      intro pre s hrs hpre hps hacts hrr
      simp only [Cache.run] at hrr
      cases hs : step cfg s a with
      | none => simp [hs] at hrr
      | some s1 =>
        simp only [hs] at hrr
        refine ih (pre ++ [a]) s1 (hrs.of_step hs) ?_ (hstep pre a as s s1 hacts hpre hrs hps hs hrr)
          (by rw [hacts]; simp) hrr
        rw [run_append, hpre]; simp [Cache.run, hs]
  exact aux acts [] s0 h0 rfl hp rfl hr

/-- (g) `set_then_wait_visible`.  Client `t` is about to send the new-item `N` of its `Set` of
`k` (`k` is not resident, not accounted, nothing of `k` is pending, the buffer has room, the cache
is open); nobody else is inside a `Set`/`Del` of `k` or a `Clear`/`Close`, and none is issued
during the run; in every state of the run the policy admits `k`'s item and does not pick `k` as
a victim (`Calm`); the TTL (if any) has not elapsed at the end; `CollisionFree`.  Then, if the
run's log shows a `waitRet tw` after a `waitCall tw`, `k` is resident with exactly `N`'s value
and expiration, and nothing of `k` is pending. -/
theorem set_then_wait_visible {cfg : Cfg} {k : Hash} {c : Conf} {v : Val} {exp : Time} {s0 s2 : State} {t : Tid}
    {N : Item} {acts : List Action} {new : List Ev}
    (h0 : Reach cfg s0) (hpc : s0.cl t = .setSend N)
    (hN : N.flag = .new ∧ N.key = k ∧ N.conflict = c ∧ N.value = v ∧ N.exp = exp)
    (hroom : s0.buf.length < cfg.bufCap ∧ s0.sendq = []) (hopen : s0.closed = false)
    (hnr : s0.store.lookup k = none) (hna : s0.pol.costs.lookup k = none) (hnp : NoItemK k (pending s0))
    (hothers : ∀ t', t' ≠ t → ¬ (s0.cl t').inSetK k) (hnd : NoDelK k s0) (hnc : NoClr s0)
    (hacts : ∀ a ∈ acts, ¬ a.isSpawnSet k ∧ ¬ a.isSpawnDel k ∧ ¬ a.isSpawnClear)
    (hr : run cfg (stSetSend cfg s0 t N) acts = some s2)
    (hcalm : ∀ as1 as2 s, acts = as1 ++ as2 → run cfg (stSetSend cfg s0 t N) as1 = some s → Calm k s)
    (httl : exp = Gen.zeroTime ∨ s2.clock < exp) (hconf : ConfAgree k s2.log)
    (hlog : s2.log = new ++ (stSetSend cfg s0 t N).log) (hwait : WaitCycle new) :
    (s2.store.lookup k = some ⟨c, v, exp⟩ ∧ NoItemK k (pending s2)) ∧
    NoSetK k s2 ∧ NoDelK k s2 ∧ NoClr s2 ∧ s2.closed = false := by
  have hstep : step cfg s0 (.client t .none) = some (stSetSend cfg s0 t N) := by
    simp [step, clientStep, hpc, needNone]
  have h1 : Reach cfg (stSetSend cfg s0 t N) := h0.of_step hstep
  have hsend : stSetSend cfg s0 t N = setCl { s0 with buf := s0.buf ++ [.item N] } t (.setRetTrue N) := by
    unfold stSetSend; rw [if_pos hroom]
  have hp1 : pending (stSetSend cfg s0 t N) = pending s0 ++ [.item N] := by
    rw [hsend]; simp [pending, queue, hroom.2]
  -- the invariant
  have key : ∃ new', s2.log = new' ++ (stSetSend cfg s0 t N).log ∧ RunHyp cfg k exp s2 ∧ VisPhase k c v exp s2 new' := by
    refine run_induction_mid (P := fun s => ∃ new', s.log = new' ++ (stSetSend cfg s0 t N).log ∧
      (NoSetK k s ∧ NoDelK k s ∧ NoClr s ∧ s.closed = false) ∧ VisPhase k c v exp s new') h1 ?_ ?_ hr |>.imp
      (fun new' ⟨hl, ⟨a1, a2, a3, a4⟩, hv⟩ => ⟨hl, ⟨h1.run hr, a1, a2, a3, hconf, hcalm acts [] s2 (by simp) hr, httl, a4⟩, hv⟩)
    · refine ⟨[], rfl, ⟨?_, ?_, ?_, ?_⟩, ?_⟩
      · intro t' hin
        by_cases e : t' = t
        · subst e; rw [hsend] at hin; simp [CPc.inSetK] at hin
        · rw [stSetSend_cl_ne (hne := e)] at hin; exact hothers t' e hin
      · intro t' hin
        by_cases e : t' = t
        · subst e; rw [hsend] at hin; simp [CPc.inDelK] at hin
        · rw [stSetSend_cl_ne (hne := e)] at hin; exact hnd t' hin
      · intro t'
        by_cases e : t' = t
        · subst e; rw [hsend]; simp; rfl
        · rw [stSetSend_cl_ne (hne := e)]; exact hnc t'
      · simpa using hopen
      · have hb : VisQ k c v exp (fun _ => True) (stSetSend cfg s0 t N) :=
          Or.inl ⟨pending s0, .item N, [], (by rw [hp1]), hN, hnp, (fun _ he => by cases he), trivial,
            (by simpa using hnr), Or.inl (by simpa using hna)⟩
        exact ⟨hb, (fun _ _ _ hm => by cases hm), (fun _ _ hm => by cases hm), fun h => h.elim⟩
    · intro pre a rest s s' hsplit hpre hrs ⟨new', hl, ⟨a1, a2, a3, a4⟩, hv⟩ hs hrest
      obtain ⟨evs, hl2, hal⟩ := step_log hs
      obtain ⟨n2, hl3⟩ := run_log hrest
      have hconf1 : ConfAgree k s.log := by
        rw [hl3, hl2, ← List.append_assoc] at hconf
        exact hconf.of_append
      have ha := hacts a (by rw [hsplit]; simp)
      have hq := queue_inv hrs
      have hclock : s.clock ≤ s2.clock := Int.le_trans (step_clock hs) (run_clock hrest)
      have httl1 : exp = Gen.zeroTime ∨ s.clock < exp := httl.imp id (fun h => Int.lt_of_le_of_lt hclock h)
      have hh : RunHyp cfg k exp s :=
        ⟨hrs, a1, a2, a3, hconf1, hcalm pre (a :: rest) s hsplit hpre, httl1, a4⟩
      have hcalm' : Calm k s' := by
        refine hcalm (pre ++ [a]) rest s' (by rw [hsplit]; simp) ?_
        rw [run_append, hpre]; simp [Cache.run, hs]
      exact ⟨evs ++ new', by rw [hl2, hl]; simp,
        ⟨noSetK_step hq a1 ha.1 hs, noDelK_step hq a2 ha.2.1 hs, noClr_step hq a3 ha.2.2 hs, open_step a3 a4 hs⟩,
        hv.step hh hcalm' hs hal⟩
  obtain ⟨new', hl', hh, hv⟩ := key
  have : new' = new := by rw [hlog] at hl'; exact (List.append_cancel_right hl').symm
  subst this
  exact ⟨hv.w5 hwait, hh.nos, hh.nod, hh.noc, hh.opn⟩

/-- With room to spare the policy's answer is forced: a new key is admitted, nobody is evicted;
an accounted key is only re-costed. -/
theorem polAdd_room {on : Bool} {p : Pol} {m : Met} {k : Hash} {cost : Int} {vs : List (Hash × Int)} {added : Bool}
    {pm : Pol × Met} (h : polAdd on p m k cost vs added = some pm)
    (hfit : cost ≤ p.maxCost) (hroom : p.used + cost ≤ p.maxCost) :
    vs = [] ∧ (p.costs.lookup k = none → added = true ∧ pm.1.costs.lookup k = some cost) ∧
    (∀ c0, p.costs.lookup k = some c0 → added = false) := by
  unfold polAdd at h
  rw [if_neg (by omega)] at h
  cases hl : p.costs.lookup k with
  | none =>
    have hu : polUpdate on p m k cost = (p, m, false) := by simp [polUpdate, hl]
    rw [hu] at h
    simp only at h
    rw [if_pos (by omega)] at h
    split at h
    · rename_i hc
      simp only [Option.some.injEq] at h; subst h
      simp only [Bool.and_eq_true, List.isEmpty_iff] at hc
      exact ⟨hc.1, fun _ => ⟨hc.2, by simp [polAddKey]⟩, fun c0 h0 => by cases h0⟩
    · simp at h
  | some c0 =>
    have hu : (polUpdate on p m k cost).2.2 = true := by simp [polUpdate, hl]
    split at h
    · rename_i p1 m1 _
      split at h
      · rename_i hc
        simp only [Bool.and_eq_true, List.isEmpty_iff, Bool.not_eq_eq_eq_not, Bool.not_true] at hc
        exact ⟨hc.1, (fun h0 => by cases h0), fun _ _ => hc.2⟩
      · simp at h
    · rename_i heq
      rw [heq] at hu; cases hu

/-! ### checking a state predicate along a concrete run -/

/-- `p` holds in every state of the run (decidable, for concrete runs) -/
def runAllB (cfg : Cfg) (p : State → Bool) : State → List Action → Bool
  | s, [] => p s
  | s, a :: as => p s && match step cfg s a with
    | none => true
    | some s' => runAllB cfg p s' as

theorem runAllB_spec {cfg : Cfg} {p : State → Bool} {s : State} {acts : List Action}
    (h : runAllB cfg p s acts = true) :
    ∀ as1 as2 s1, acts = as1 ++ as2 → run cfg s as1 = some s1 → p s1 = true := by
  induction acts generalizing s with
  | nil =>
    intro as1 as2 s1 hsplit hr
    have : as1 = [] := by
      cases as1 with
      | nil => rfl
      | cons x r => simp at hsplit
    subst this
    simp [Cache.run] at hr; subst hr; exact h
  | cons a as ih =>
    intro as1 as2 s1 hsplit hr
    simp only [runAllB, Bool.and_eq_true] at h
    cases as1 with
    | nil => simp [Cache.run] at hr; subst hr; exact h.1
    | cons x r =>
      simp only [List.cons_append, List.cons.injEq] at hsplit
      obtain ⟨rfl, hsplit⟩ := hsplit
      simp only [Cache.run] at hr
      cases hs : step cfg s a with
      | none => simp [hs] at hr
      | some s' =>
        simp only [hs] at hr
        have h2 := h.2
        simp only [hs] at h2
        exact ih h2 r as2 s1 hsplit hr

/-- decidable form of `Calm` -/
def calmB (k : Hash) (s : State) : Bool :=
  match s.app with
  | .added i _ ok => !(i.key == k) || ok
  | .victims ((h, _) :: _) => !(h == k)
  | _ => true

theorem calm_of_calmB {k : Hash} {s : State} (h : calmB k s = true) : Calm k s := by
  constructor
  · intro i vs ok ha hk
    simp only [calmB, ha, Bool.or_eq_true, Bool.not_eq_eq_eq_not, Bool.not_true, beq_eq_false_iff_ne] at h
    rcases h with h | h
    · exact absurd hk h
    · exact h
  · intro cost rest ha
    simp [calmB, ha] at h

end RV.Cache
