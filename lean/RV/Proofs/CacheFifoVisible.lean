import RV.Proofs.CacheFifoSide
/-!
# (g) `set_then_wait_visible`

A `Set` of a key `k` that is neither resident, nor accounted, nor pending, whose item was
enqueued (the `Set` returns true) and is admitted by the policy, is resident with exactly its
value once a `Wait` called afterwards has returned — for every lag of the applier and every
concurrent activity on other keys — provided nobody `Set`s/`Del`etes `k` or `Clear`s meanwhile,
`k` is not chosen as a victim, and the TTL has not elapsed.

Ghost predicates: `PendN` (the new-item `N` is pending, nothing else of `k` is, `k` is not
resident) and `AppliedK` (`k` is resident with `N`'s value and nothing of `k` is pending).
-/
namespace RV.Cache
open Gen.Cache

/-- the new-item under consideration, up to its cost (which the applier pre-processes) -/
def IsN (k : Hash) (c : Conf) (v : Val) (exp : Time) : BufElem → Prop
  | .item i => i.flag = .new ∧ i.key = k ∧ i.conflict = c ∧ i.value = v ∧ i.exp = exp
  | .marker _ => False

def PendN (k : Hash) (c : Conf) (v : Val) (exp : Time) (Q : List BufElem → Prop) (s : State) : Prop :=
  ∃ f N back, pending s = f ++ N :: back ∧ IsN k c v exp N ∧ NoItemK k f ∧ NoItemK k back ∧ Q back ∧
    s.store.lookup k = none ∧
    (s.pol.costs.lookup k = none ∨ (f = [] ∧ ∃ i vs, s.app = .added i vs true ∧ N = .item i))

def AppliedK (k : Hash) (c : Conf) (v : Val) (exp : Time) (s : State) : Prop :=
  s.store.lookup k = some ⟨c, v, exp⟩ ∧ NoItemK k (pending s)

/-- what the run must guarantee in each of its states: the policy admits `k`'s new-item and never
picks `k` as a victim -/
structure Calm (k : Hash) (s : State) : Prop where
  admitted : ∀ i vs ok, s.app = .added i vs ok → i.key = k → ok = true
  notVictim : ∀ cost rest, s.app ≠ .victims ((k, cost) :: rest)

theorem pushSrc_notK {k : Hash} {s : State} {e : BufElem} (hns : NoSetK k s) (hnd : NoDelK k s)
    (h : PushSrc s e) : ¬ isItemK k e := by
  rcases h with ⟨t, i, hpc, rfl⟩ | ⟨t, h', c, hpc, rfl⟩ | rfl
  · intro e; exact hns t (by rw [hpc]; exact e)
  · intro e; exact hnd t (by rw [hpc]; exact e)
  · intro e; exact e

theorem noItemK_kstep {k : Hash} {s s' : State} (hns : NoSetK k s) (hnd : NoDelK k s)
    (h : NoItemK k (pending s)) (hk : KStep k s s') : NoItemK k (pending s') := by
  cases hk with
  | quiet hp _ _ => rw [hp]; exact h
  | push e _ hsrc hp _ _ => rw [hp]; exact h.append (pushSrc_notK hns hnd hsrc)
  | recost i c r hp hp' _ _ =>
    rw [hp'] ; rw [hp] at h
    intro e he
    rcases List.mem_cons.mp he with rfl | h1
    · exact h (.item i) (by simp)
    · exact h e (List.mem_cons_of_mem _ h1)
  | popNonTomb x hp _ _ _ => rw [hp] at h; exact h.sub (fun _ he => List.mem_cons_of_mem _ he)
  | popTomb x hp _ _ _ _ => rw [hp] at h; exact h.sub (fun _ he => List.mem_cons_of_mem _ he)
  | drained x t closing hp _ _ _ => rw [hp] at h; exact h.sub (fun _ he => List.mem_cons_of_mem _ he)
  | drainEnd t closing hp _ _ _ _ => rw [hp]; exact h
  | clrPolicy t closing hp _ _ _ _ _ => rw [hp]; exact h
  | clrShard t closing j hp _ _ _ _ _ _ => rw [hp]; exact h

/-- `AppliedK` is stable: the entry stays (by `stays_until`) and nothing of `k` gets pending -/
theorem applied_step {cfg : Cfg} {k : Hash} {c : Conf} {v : Val} {exp : Time} {s s' : State} {a : Action}
    (hr : Reach cfg s) (hns : NoSetK k s) (hnd : NoDelK k s) (hnc : NoClr s) (hconf : ConfAgree k s.log)
    (hcalm : Calm k s) (httl : exp = Gen.zeroTime ∨ s.clock < exp)
    (hs : step cfg s a = some s') (h : AppliedK k c v exp s) : AppliedK k c v exp s' := by
  obtain ⟨h1, h2⟩ := h
  refine ⟨?_, noItemK_kstep hns hnd h2 (kstep k hr hns hconf hs)⟩
  refine Classical.byContradiction fun hne => ?_
  have held : ∀ i, appElem s.app = some (.item i) → i.key ≠ k := by
    intro i hi hk
    exact h2 (.item i) (by simp [pending, hi]) hk
  cases stays_until hr hs h1 hne with
  | overwrite t i _ hpc hk _ => exact hns t (by rw [hpc]; exact hk)
  | del t c' _ hpc _ => exact hnd t (by rw [hpc]; rfl)
  | tomb i _ hpc hk _ => exact held i (by rw [hpc]; rfl) hk
  | readmit i vs _ hpc hk _ => exact held i (by rw [hpc]; rfl) hk
  | evicted cost rest _ hpc _ => exact hcalm.notVictim cost rest hpc
  | cleared t closing j hpc _ => exact clr_elim (by rw [hpc]; rfl) (hnc t)
  | expired now c' bs _ hpc hexp hle hnow _ =>
    rcases httl with e | e
    · exact hexp e
    · have : exp ≤ s.clock := Int.le_trans hle hnow
      exact absurd (Int.lt_of_le_of_lt this e) (Int.lt_irrefl _)

/-- an applier step while the applier holds nothing: the pending sequence is unchanged and absent
stays absent -/
theorem applier_nohold {cfg : Cfg} {k : Hash} {s s' : State} {ch : Choice}
    (hs : applierStep cfg s ch = some s') (hnone : appElem s.app = none) :
    pending s' = pending s ∧ (s.store.lookup k = none → s'.store.lookup k = none) ∧
    (s.pol.costs.lookup k = none → s'.pol.costs.lookup k = none) := by
  apply applierStep_cases hs (motive := fun s' => pending s' = pending s ∧
    (s.store.lookup k = none → s'.store.lookup k = none) ∧ (s.pol.costs.lookup k = none → s'.pol.costs.lookup k = none))
  case marker => intro id hpc; rw [hpc] at hnone; cases hnone
  case item => intro i hpc; rw [hpc] at hnone; cases hnone
  case costed => intro i hpc; rw [hpc] at hnone; cases hnone
  case added => intro i vs ok hpc; rw [hpc] at hnone; cases hnone
  case tombPolicy => intro i hpc; rw [hpc] at hnone; cases hnone
  case idle =>
    intro hpc hr
    unfold apIdle at hr
    split at hr
    · unfold apSelItem at hr
      split at hr
      · simp at hr
      · rename_i id s1 hrecv
        simp only [Option.some.injEq] at hr; subst hr
        exact ⟨pending_recv hnone hrecv rfl rfl rfl, fun h => by rw [show (_ : State).store = s.store from recvBuf_store hrecv]; exact h,
          fun h => by rw [show (_ : State).pol = s.pol from recvBuf_pol hrecv]; exact h⟩
      · rename_i i s1 hrecv
        simp only [Option.some.injEq] at hr; subst hr
        exact ⟨pending_recv hnone hrecv rfl rfl rfl, fun h => by rw [show (_ : State).store = s.store from recvBuf_store hrecv]; exact h,
          fun h => by rw [show (_ : State).pol = s.pol from recvBuf_pol hrecv]; exact h⟩
    · simp only [Option.some.injEq] at hr; subst hr
      exact ⟨pending_congr (by simp [hpc, appElem]) rfl rfl, id, id⟩
    · rename_i t
      refine ⟨pending_congr ?_ (apSelStop_buf s t hr) (apSelStop_sendq s t hr), fun h => by rw [apSelStop_store s t hr]; exact h,
        fun h => by rw [apSelStop_pol s t hr]; exact h⟩
      unfold apSelStop at hr
      split at hr <;> first | (simp only [Option.some.injEq] at hr; subst hr; simp [hpc, appElem]) | simp at hr
    · simp at hr
  case victims =>
    intro vs hpc _ hr
    unfold apVictims at hr
    split at hr
    · simp at hr
    · simp only [Option.some.injEq] at hr; subst hr
      exact ⟨pending_congr (by simp [hpc, appElem]) rfl rfl, fun h => storeDel_none h, id⟩
  case victimEvict =>
    intro h' cost c v rest hpc _
    have happ : appElem (apVictimEvict s h' cost c v rest).app = none := by
      unfold apVictimEvict afterVictims; split <;> simp [appElem]
    exact ⟨pending_congr (by rw [happ, hpc]; rfl) (by simp) (by simp), fun h => by simpa using h, fun h => by simpa using h⟩
  case tombStore =>
    intro v hpc _
    exact ⟨pending_congr (by simp [hpc, apTombStore, appElem]) rfl rfl, id, id⟩
  case tick =>
    intro hpc _
    exact ⟨pending_congr (by simp [hpc, apTick, appElem]) rfl rfl, id, id⟩
  case sweep =>
    intro now bs hpc hr
    refine ⟨pending_congr ?_ (apSweep_buf s now bs ch hr) (apSweep_sendq s now bs ch hr),
      fun h => by rw [apSweep_store s now bs ch hr]; exact h, fun h => by rw [apSweep_pol s now bs ch hr]; exact h⟩
    unfold apSweep at hr
    split at hr
    · simp only [Option.some.injEq] at hr; subst hr; simp [hpc, appElem]
    · split at hr
      · simp at hr
      · simp only [Option.some.injEq] at hr; subst hr; simp [hpc, appElem]
    · simp at hr
  case swKey =>
    intro now k' c bs hpc _
    have happ : appElem (apSwKey s now k' c bs).app = none := by
      unfold apSwKey; dsimp only; split <;> simp [appElem]
    refine ⟨pending_congr (by rw [happ, hpc]; rfl) (by simp) (by simp), fun h => ?_, fun h => by simpa using h⟩
    unfold apSwKey; dsimp only; split
    · exact storeDelExpired_none h
    · exact h
  case swStoreDel =>
    intro now k' c expr v bs hpc _
    exact ⟨pending_congr (by simp [hpc, apSwStoreDel, appElem]) rfl rfl, id,
      fun h => by simp only [apSwStoreDel]; exact polDel_none_f h⟩
  case swPolDel =>
    intro now k' c expr cost v bs hpc _
    exact ⟨pending_congr (by simp [hpc, apSwPolDel, appElem]) rfl rfl, id, id⟩

end RV.Cache
