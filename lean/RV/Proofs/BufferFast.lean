import RV.Proofs.BufferMerge
/-!
An *efficient executable form* of the sorter for the trace validator.

The model's `merge` runs in place on the whole buffer (as the code does), which on the
model's `List` representation costs `O(buffer)` per merged slice.  `mergeFast` computes the
same result with the pure loop whenever the offsets are in range (else it falls back to the
model), and `sortSliceBetweenFast_eq` proves — unconditionally — that the fast sorter *is*
the model's sorter.  The validator calls the fast one.
-/
namespace RV.Buffer
open Gen.Buffer

theorem split_regions (d : Bytes) (a b c : Nat) (h1 : a ≤ b) (h2 : b ≤ c) (h3 : c ≤ d.length) :
    d = d.take a ++ region d a b ++ region d b c ++ d.drop c ∧
      (d.take a).length = a ∧ (region d a b).length = b - a ∧ (region d b c).length = c - b := by
  unfold region
  refine ⟨?_, by rw [List.length_take]; omega, by rw [List.length_take, List.length_drop]; omega,
    by rw [List.length_take, List.length_drop]; omega⟩
  have e1 : d.drop b = (d.drop b).take (c - b) ++ d.drop c := by
    conv => lhs; rw [← List.take_append_drop (c - b) (d.drop b)]
    rw [List.drop_drop]; congr 2; omega
  have e2 : d.drop a = (d.drop a).take (b - a) ++ d.drop b := by
    conv => lhs; rw [← List.take_append_drop (b - a) (d.drop a)]
    rw [List.drop_drop]; congr 2; omega
  conv => lhs; rw [← List.take_append_drop a d, e2, e1]
  simp

def mergeFast (less : Bytes → Bytes → Bool) (d : Bytes) (loff moff hoff : Nat) : Except Fault Bytes :=
  let left := region d loff moff
  let right := region d moff hoff
  if left.length == 0 || right.length == 0 then .ok d
  else if loff ≤ moff ∧ moff ≤ hoff ∧ hoff ≤ d.length ∧ hoff < 2 ^ 62 then
    match mergeLoop less hoff (left.length + right.length + 1) loff left right with
    | .ok out => .ok (d.take loff ++ out ++ d.drop hoff)
    | .error f => .error f
  else merge less d loff moff hoff

theorem mergeFast_eq (less : Bytes → Bytes → Bool) (d : Bytes) (loff moff hoff : Nat) :
    mergeFast less d loff moff hoff = merge less d loff moff hoff := by
  unfold mergeFast merge
  simp only
  split
  · rfl
  · split
    · rename_i hc
      obtain ⟨h1, h2, h3, h4⟩ := hc
      obtain ⟨hd, l1, l2, l3⟩ := split_regions d loff moff hoff h1 h2 h3
      have key := mergeInPlace_eq less ((region d loff moff).length + (region d moff hoff).length + 1)
        (d.take loff) (region d loff moff) (region d moff hoff) (d.drop hoff) (region d loff moff) rfl
        (by rw [l1, l2, l3]; omega)
      rw [← hd, l1, l2, l3] at key
      rw [show loff + (moff - loff) + (hoff - moff) = hoff by omega, show loff + (moff - loff) = moff by omega] at key
      rw [l2, l3]
      exact key.symm
    · rfl

/-- `sortRec` with the fast merge -/
def sortRecFast (less : Bytes → Bytes → Bool) (offsets : List Nat) : Nat → Bytes → Nat → Nat → Except Fault Bytes
  | 0, _, _, _ => .error .fuel
  | fuel + 1, d, lo, hi =>
    if !sortAssert (w lo) (w hi) then .error .assertFail
    else
      let mid := (sortMid (w lo) (w hi)).toNat
      match offsets[lo]?, offsets[hi]? with
      | some loff, some hoff =>
        if sortLeaf (w lo) (w mid) then .ok d
        else
          match sortRecFast less offsets fuel d lo mid with
          | .error f => .error f
          | .ok d1 =>
            match sortRecFast less offsets fuel d1 mid hi with
            | .error f => .error f
            | .ok d2 =>
              match offsets[mid]? with
              | none => .error .bounds
              | some moff =>
                if loff ≤ moff ∧ moff ≤ hoff ∧ hoff ≤ d2.length then mergeFast less d2 loff moff hoff
                else .error .bounds
      | _, _ => .error .bounds

theorem sortRecFast_eq (less : Bytes → Bytes → Bool) (offsets : List Nat) :
    ∀ (fuel : Nat) (d : Bytes) (lo hi : Nat),
      sortRecFast less offsets fuel d lo hi = sortRec less offsets fuel d lo hi := by
  intro fuel
  induction fuel with
  | zero => intro d lo hi; rfl
  | succ f ih =>
    intro d lo hi
    unfold sortRecFast sortRec
    simp only [ih, mergeFast_eq]
    rfl

/-- `sortSliceBetween` with the fast recursive sort -/
def sortSliceBetweenFast (sortFn : SortFn) (less : Bytes → Bytes → Bool) (b : Buf) (start end_ : Nat) :
    Except Fault Buf :=
  if sortEmptyRange (w start) (w end_) then .ok b
  else if sortStartZero (w start) then .error .startZero
  else
    match chunkOffsets b end_ (b.offset + 2) (some start) 0 with
    | .error f => .error f
    | .ok offs =>
      match offs.getLast? with
      | none => .error .assertFail
      | some last =>
        let offsets := if last != end_ then offs ++ [end_] else offs
        match sortSmallAll sortFn less b offsets with
        | .error f => .error f
        | .ok b1 =>
          match sortRecFast less offsets (offsets.length + 1) b1.data 0 (offsets.length - 1) with
          | .error f => .error f
          | .ok d => .ok { b1 with data := d }

theorem sortSliceBetweenFast_eq (sortFn : SortFn) (less : Bytes → Bytes → Bool) (b : Buf) (start end_ : Nat) :
    sortSliceBetweenFast sortFn less b start end_ = sortSliceBetween sortFn less b start end_ := by
  unfold sortSliceBetweenFast sortSliceBetween
  simp only [sortRecFast_eq]
  rfl

end RV.Buffer
