import RV.Gen.AllocM
import RV.Model.Alloc
import RV.Proofs.AllocBasic
/-!
# Tie of the whole-function translation of z/allocator.go (`RV/Gen/AllocM.lean`) to the model
`RV/Model/Alloc.lean`: abstraction and lemmas about the primitives of `RV/GenAlloc.lean`.

The model keeps the chunk table as the list of the lengths of the slots; the generated code keeps
`a.buffers : Array Bytes`.  `chunksOf` is the abstraction; `WfA` says that every slot is a whole
block as made by `Calloc` (offset 0, cap = len) or nil, and that lengths and the number of slots
fit a Go `int`.
-/
namespace RV.TieAlloc
open Gen.AM Gen.AllocM Gen.Alloc RV.Alloc

/-- the model's chunk table of a generated allocator -/
def chunksOf (a : Allocator) : List Nat := a.buffers.toList.map (·.len)

theorem default_bytes : (default : Bytes) = ⟨0, 0, 0⟩ := rfl

theorem chunkLen_chunksOf (a : Allocator) (i : Nat) :
    chunkLen (chunksOf a) i = (a.buffers[i]!).len := by
  unfold chunkLen chunksOf
  rw [getElem!_def]
  simp [List.getD_eq_getElem?_getD, List.getElem?_map]
  cases h : a.buffers[i]? <;> simp [default_bytes]

theorem length_chunksOf (a : Allocator) : (chunksOf a).length = a.buffers.size := by
  simp [chunksOf]

/-- every slot is nil or a whole block; sizes fit a Go int -/
structure WfA (a : Allocator) : Prop where
  size_lt : a.buffers.size < 2 ^ 63
  whole : ∀ i : Nat, (a.buffers[i]!).off = 0 ∧ (a.buffers[i]!).cap = (a.buffers[i]!).len ∧
    (a.buffers[i]!).len < 2 ^ 63

/-- executable form of `WfA` (for concrete allocators) -/
def wfB (a : Allocator) : Bool :=
  decide (a.buffers.size < 2 ^ 63) &&
    a.buffers.toList.all fun b => b.off == 0 && b.cap == b.len && decide (b.len < 2 ^ 63)

theorem wfA_of_wfB {a : Allocator} (h : wfB a = true) : WfA a := by
  unfold wfB at h
  simp only [Bool.and_eq_true, decide_eq_true_eq, List.all_eq_true, beq_iff_eq] at h
  refine ⟨h.1, fun i => ?_⟩
  rw [getElem!_def]
  by_cases hi : i < a.buffers.size
  · simp only [hi, getElem?_pos]
    have := h.2 a.buffers[i] (by simp)
    exact ⟨this.1.1, this.1.2, this.2⟩
  · simp [hi, default_bytes]

theorem toInt_ofNat_small (n : Nat) (h : n < 2 ^ 63) : (BitVec.ofNat 64 n).toInt = n := by
  rw [BitVec.toInt_eq_toNat_cond]
  simp
  omega

theorem toNat_ofNat_small (n : Nat) (h : n < 2 ^ 63) : (BitVec.ofNat 64 n).toNat = n := by
  simp; omega

theorem slt_iff (x y : W) : (x.slt y = true) ↔ x.toInt < y.toInt := by simp [BitVec.slt]

theorem sle_iff (x y : W) : (x.sle y = true) ↔ x.toInt ≤ y.toInt := by simp [BitVec.sle]

theorem toNat_of_toInt_nonneg (x : W) (h : 0 ≤ x.toInt) : x.toInt = x.toNat := by
  rw [BitVec.toInt_eq_toNat_cond] at *
  split at h <;> omega

theorem toInt_of_toNat_small (x : W) (h : x.toNat < 2 ^ 63) : x.toInt = x.toNat := by
  rw [BitVec.toInt_eq_toNat_cond]
  split <;> omega

theorem slice_ok {σ : Type} (s : σ) (b : Bytes) (lo hi : W)
    (h : 0 ≤ lo.toInt ∧ lo.toInt ≤ hi.toInt ∧ hi.toInt ≤ (b.cap : Int)) :
    slice s b lo hi = .ok ⟨b.off + lo.toNat, hi.toNat - lo.toNat, b.cap - lo.toNat⟩ := by
  unfold slice; rw [if_pos h]

theorem slice_panic {σ : Type} (s : σ) (b : Bytes) (lo hi : W)
    (h : ¬ (0 ≤ lo.toInt ∧ lo.toInt ≤ hi.toInt ∧ hi.toInt ≤ (b.cap : Int))) :
    slice s b lo hi = .panic .bounds s := by
  unfold slice; rw [if_neg h]

theorem rd_ok {σ α : Type} [Inhabited α] (s : σ) (arr : Array α) (i : W) (h : i.toNat < arr.size) :
    rd s arr i = .ok arr[i.toNat]! := by
  unfold rd; rw [if_pos h]

theorem rd_panic {σ α : Type} [Inhabited α] (s : σ) (arr : Array α) (i : W) (h : ¬ i.toNat < arr.size) :
    rd s arr i = .panic .bounds s := by
  unfold rd; rw [if_neg h]

theorem wr_ok {σ α : Type} [Inhabited α] (s : σ) (arr : Array α) (i : W) (v : α) (h : i.toNat < arr.size) :
    wr s arr i v = .ok (arr.set! i.toNat v) := by
  unfold wr; rw [if_pos h]

@[simp] theorem bind_ok {σ α β : Type} (x : α) (k : α → Res σ β) : (Res.ok x : Res σ α).bind k = k x := rfl
@[simp] theorem bind_panic {σ α β : Type} (f : Fault) (s : σ) (k : α → Res σ β) :
    (Res.panic f s : Res σ α).bind k = .panic f s := rfl
@[simp] theorem bind_spin {σ α β : Type} (s : σ) (k : α → Res σ β) :
    (Res.spin s : Res σ α).bind k = .spin s := rfl
@[simp] theorem bind_blocked {σ α β : Type} (s : σ) (k : α → Res σ β) :
    (Res.blocked s : Res σ α).bind k = .blocked s := rfl
@[simp] theorem lift_ok {σ α : Type} (s : σ) (x : α) : Res.lift s (Res.ok x : Res Unit α) = .ok x := rfl

/-- chunk table after a slot is overwritten -/
theorem chunksOf_set (a : Allocator) (i : Nat) (v : Bytes) :
    chunksOf { a with buffers := a.buffers.set! i v } = (chunksOf a).set i v.len := by
  simp [chunksOf, Array.set!, Array.toList_setIfInBounds, List.map_set]

theorem get!_set!_eq {α : Type} [Inhabited α] (arr : Array α) (i : Nat) (v : α) (h : i < arr.size) :
    (arr.set! i v)[i]! = v := by
  simp [Array.set!, h]

theorem get!_set!_ne' {α : Type} [Inhabited α] (arr : Array α) (i j : Nat) (v : α) (h : i ≠ j) :
    (arr.set! i v)[j]! = arr[j]! := by
  rw [getElem!_def, getElem!_def]
  simp [Array.set!, Array.getElem?_setIfInBounds_ne h]

theorem wfA_set {a : Allocator} (hw : WfA a) (i : Nat) (n : Nat) (hn : n < 2 ^ 63) :
    WfA { a with buffers := a.buffers.set! i ⟨0, n, n⟩ } := by
  constructor
  · simpa [Array.set!] using hw.size_lt
  · intro j
    by_cases hij : i = j
    · subst hij
      by_cases hi : i < a.buffers.size
      · rw [get!_set!_eq _ _ _ hi]
        exact ⟨rfl, rfl, hn⟩
      · have : a.buffers.set! i ⟨0, n, n⟩ = a.buffers := by
          simp [Array.set!, Array.setIfInBounds, hi]
        simp only [this]
        exact hw.whole i
    · simp only [get!_set!_ne' _ _ _ _ hij]
      exact hw.whole j

theorem wfA_congr {a a' : Allocator} (hw : WfA a) (h : a'.buffers = a.buffers) : WfA a' := by
  constructor
  · rw [h]; exact hw.size_lt
  · intro i; rw [h]; exact hw.whole i

theorem chunksOf_getElem (a : Allocator) (i : Nat) (h : i < (chunksOf a).length) :
    (chunksOf a)[i] = (a.buffers[i]!).len := by
  have := chunkLen_chunksOf a i
  unfold chunkLen at this
  rw [List.getD_eq_getElem?_getD, List.getElem?_eq_getElem h] at this
  simpa using this

theorem ofNat_toNat_lt (i : Nat) (h : i < 2 ^ 64) : (BitVec.ofNat 64 i).toNat = i := by
  simp; omega

end RV.TieAlloc
