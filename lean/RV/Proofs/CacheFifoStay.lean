import RV.Proofs.CacheFifoEx
/-!
# (g) `stays_until`: every step that can erase or replace a store entry

* `stays_until`: if a step changes `store.lookup k = some e`, the step is one of seven kinds:
  overwrite by a `Set` (`stSetUpd`), `Del`'s immediate delete (`stDelStart`), a tombstone's
  delete (`apTombPolicy`), a second new-item of the same key being applied (`apAdded`), eviction as
  a victim (`apVictims`), `Clear`/`Close` (`stClrShard`), or the sweep — and the sweep only when
  the entry has a TTL that has elapsed (`e.exp ≤ now ≤ clock`).
* `side_step`: what a non-applier step does to key `k` when no client is inside a `Set`/`Del` of
  `k` or inside a `Clear`: nothing (it may append an element of another key to the queue).
-/
namespace RV.Cache
open Gen.Cache

/-! ### the sweep's clock read is in the past -/

def APc.now? : APc → Option Time
  | .sweep now _ => some now
  | .swKey now .. => some now
  | .swStoreDel now .. => some now
  | .swPolDel now .. => some now
  | _ => none

def SweepNow (s : State) : Prop := ∀ n, s.app.now? = some n → n ≤ s.clock

theorem sweepNow_of {s s' : State} (h : SweepNow s) (hc : s.clock ≤ s'.clock)
    (ha : s'.app = s.app ∨ s'.app.now? = none ∨ s'.app.now? = s.app.now? ∨ s'.app.now? = some s.clock) : SweepNow s' := by
  intro n hn
  rcases ha with e | e | e | e
  · rw [e] at hn; exact Int.le_trans (h n hn) hc
  · rw [e] at hn; cases hn
  · rw [e] at hn; exact Int.le_trans (h n hn) hc
  · rw [e] at hn; cases hn; exact hc

theorem evictAll_clock_f (s : State) (st : Store) (ks : List Hash) : (evictAll s st ks).clock = s.clock := by
  induction ks generalizing s with
  | nil => rfl
  | cons k rest ih => unfold evictAll; split <;> simp [ih]

theorem sweepNow_clientStep {cfg : Cfg} {s s' : State} {t : Tid} {ch : Choice}
    (hs : clientStep cfg s t ch = some s') :
    s'.clock = s.clock ∧ (s'.app = s.app ∨ s'.app.now? = none) := by
  apply clientStep_cases hs (motive := fun s' => s'.clock = s.clock ∧ (s'.app = s.app ∨ s'.app.now? = none))
  case waitRecv => intro id _ _ hr; exact ⟨stWaitRecv_clock s t id hr, Or.inl (stWaitRecv_app s t id hr)⟩
  case getStart =>
    intro h c _ hr
    unfold stGetStart at hr; dsimp only at hr
    split at hr
    · simp only [Option.some.injEq] at hr; subst hr; exact ⟨rfl, Or.inl rfl⟩
    · split at hr
      · simp only [Option.some.injEq] at hr; subst hr; exact ⟨rfl, Or.inl rfl⟩
      · split at hr
        · simp at hr
        · simp only [Option.some.injEq] at hr; subst hr; exact ⟨by simp, Or.inl (by simp)⟩
      · simp at hr
  case iterShard =>
    intro k n seen _ hr
    unfold stIterShard at hr; dsimp only at hr
    split at hr
    · split at hr
      · simp at hr
      · split at hr
        · simp at hr
        · split at hr <;> (simp only [Option.some.injEq] at hr; subst hr; exact ⟨rfl, Or.inl rfl⟩)
    · simp at hr
  case clrShard =>
    intro closing k _ hr
    unfold stClrShard at hr
    split at hr
    · split at hr
      · simp at hr
      · split at hr
        · simp at hr
        · simp only [Option.some.injEq] at hr; subst hr
          exact ⟨by simp [evictAll_clock_f], Or.inl (by simp [evictAll_app])⟩
    · simp at hr
  case clrDrain =>
    intro closing _ _
    unfold stClrDrain
    split
    · exact ⟨rfl, Or.inl rfl⟩
    · rename_i hr; exact ⟨(recvBuf_clock hr :), Or.inl (recvBuf_app hr :)⟩
    · rename_i hr
      split
      · exact ⟨by simp [recvBuf_clock hr], Or.inl (by simp [recvBuf_app hr])⟩
      · exact ⟨recvBuf_clock hr, Or.inl (recvBuf_app hr)⟩
  case clrRestart =>
    intro closing _ _
    refine ⟨by simp, Or.inr ?_⟩
    unfold stClrRestart; dsimp only; split <;> rfl
  case clsFinish => intros; exact ⟨by simp, Or.inr rfl⟩
  all_goals (intros; exact ⟨by simp, Or.inl (by simp)⟩)

theorem sweepNow_applierStep {cfg : Cfg} {s s' : State} {ch : Choice} (hs : applierStep cfg s ch = some s') :
    s'.clock = s.clock ∧ (s'.app.now? = none ∨ s'.app.now? = s.app.now? ∨ s'.app.now? = some s.clock) := by
  apply applierStep_cases hs (motive := fun s' => s'.clock = s.clock ∧
    (s'.app.now? = none ∨ s'.app.now? = s.app.now? ∨ s'.app.now? = some s.clock))
  case idle =>
    intro hpc hr
    unfold apIdle at hr
    split at hr
    · unfold apSelItem at hr
      split at hr
      · simp at hr
      · rename_i hrecv; simp only [Option.some.injEq] at hr; subst hr; exact ⟨(recvBuf_clock hrecv :), Or.inl rfl⟩
      · rename_i hrecv; simp only [Option.some.injEq] at hr; subst hr; exact ⟨(recvBuf_clock hrecv :), Or.inl rfl⟩
    · simp only [Option.some.injEq] at hr; subst hr; exact ⟨rfl, Or.inl rfl⟩
    · rename_i t
      unfold apSelStop at hr
      split at hr <;> first | (simp only [Option.some.injEq] at hr; subst hr; exact ⟨rfl, Or.inl rfl⟩) | simp at hr
    · simp at hr
  case marker => intros; exact ⟨rfl, Or.inl rfl⟩
  case item => intros; exact ⟨rfl, Or.inl rfl⟩
  case costed =>
    intro i hpc hr
    unfold apCosted at hr
    split at hr
    · unfold apCostedNew at hr
      split at hr
      · split at hr
        · simp at hr
        · simp only [Option.some.injEq] at hr; subst hr; exact ⟨rfl, Or.inl rfl⟩
      · simp at hr
    · obtain ⟨_, hr⟩ := needNone_some hr
      simp only [Option.some.injEq] at hr; subst hr; exact ⟨rfl, Or.inl rfl⟩
    · obtain ⟨_, hr⟩ := needNone_some hr
      simp only [Option.some.injEq] at hr; subst hr; exact ⟨rfl, Or.inl rfl⟩
  case added =>
    intro i vs ok hpc _
    refine ⟨by simp, Or.inl ?_⟩
    unfold apAdded afterVictims; split <;> split <;> rfl
  case victims =>
    intro vs hpc _ hr
    unfold apVictims at hr
    split at hr
    · simp at hr
    · simp only [Option.some.injEq] at hr; subst hr; exact ⟨rfl, Or.inl rfl⟩
  case victimEvict =>
    intro h cost c v rest hpc _
    refine ⟨by simp, Or.inl ?_⟩
    unfold apVictimEvict afterVictims; split <;> rfl
  case tombPolicy => intros; exact ⟨rfl, Or.inl rfl⟩
  case tombStore => intros; exact ⟨rfl, Or.inl rfl⟩
  case tick => intros; exact ⟨rfl, Or.inr (Or.inr rfl)⟩
  case sweep =>
    intro now bs hpc hr
    unfold apSweep at hr
    split at hr
    · simp only [Option.some.injEq] at hr; subst hr; exact ⟨rfl, Or.inl rfl⟩
    · split at hr
      · simp at hr
      · simp only [Option.some.injEq] at hr; subst hr; exact ⟨rfl, Or.inr (Or.inl (by rw [hpc]; rfl))⟩
    · simp at hr
  case swKey =>
    intro now k c bs hpc _
    refine ⟨by simp, Or.inr (Or.inl ?_)⟩
    rw [hpc]; unfold apSwKey; dsimp only; split <;> rfl
  case swStoreDel => intro now k c expr v bs hpc _; exact ⟨rfl, Or.inr (Or.inl (by rw [hpc]; rfl))⟩
  case swPolDel => intro now k c expr cost v bs hpc _; exact ⟨rfl, Or.inr (Or.inl (by rw [hpc]; rfl))⟩

/-- the clock never goes back -/
theorem step_clock {cfg : Cfg} {s s' : State} {a : Action} (hs : step cfg s a = some s') : s.clock ≤ s'.clock := by
  cases a with
  | spawn t c => rw [spawnStep_clock s t c hs]; exact Int.le_refl _
  | client t ch => rw [(sweepNow_clientStep hs).1]; exact Int.le_refl _
  | applier ch => rw [(sweepNow_applierStep hs).1]; exact Int.le_refl _
  | done t => rw [doneStep_clock s t hs]; exact Int.le_refl _
  | tick d =>
    simp only [step, Option.some.injEq] at hs; subst hs
    exact Int.le_add_of_nonneg_right (Int.natCast_nonneg d)

theorem run_clock {cfg : Cfg} {s s' : State} {acts : List Action} (hr : run cfg s acts = some s') :
    s.clock ≤ s'.clock := by
  induction acts generalizing s with
  | nil => simp [Cache.run] at hr; subst hr; exact Int.le_refl _
  | cons a as ih =>
    simp only [Cache.run] at hr
    cases hs : step cfg s a with
    | none => simp [hs] at hr
    | some s1 => simp only [hs] at hr; exact Int.le_trans (step_clock hs) (ih hr)

theorem sweepNow_step {cfg : Cfg} {s s' : State} {a : Action} (h : SweepNow s) (hs : step cfg s a = some s') :
    SweepNow s' := by
  have hc := step_clock hs
  cases a with
  | spawn t c => exact sweepNow_of h hc (Or.inl (spawnStep_app s t c hs))
  | client t ch =>
    rcases (sweepNow_clientStep hs).2 with e | e
    · exact sweepNow_of h hc (Or.inl e)
    · exact sweepNow_of h hc (Or.inr (Or.inl e))
  | applier ch => exact sweepNow_of h hc (Or.inr (sweepNow_applierStep hs).2)
  | done t =>
    refine sweepNow_of h hc (Or.inr (Or.inl ?_))
    have hs' : doneStep s t = some s' := hs
    unfold doneStep at hs'
    split at hs' <;> first | (simp only [Option.some.injEq] at hs'; subst hs'; rfl) | simp at hs'
  | tick d => simp only [step, Option.some.injEq] at hs; subst hs; exact sweepNow_of h hc (Or.inl rfl)

theorem sweep_now {cfg : Cfg} {s : State} (h : Reach cfg s) : SweepNow s :=
  Reach.induction (fun now n hn => by simp [init, APc.now?] at hn) (fun _ _ _ _ hp hs => sweepNow_step hp hs) h

/-! ### `stays_until` -/

/-- why a step made `store.lookup k = some e` false -/
inductive EraseCause (cfg : Cfg) (s : State) (a : Action) (s' : State) (k : Hash) (e : Entry) : Prop
  /-- `Set` of `k` overwrote the entry at once (`lockedMap.Update`) -/
  | overwrite (t : Tid) (i : Item) (ha : a = .client t .none) (hpc : s.cl t = .setUpd i) (hk : i.key = k)
      (hs : s'.store.lookup k = some ⟨i.conflict, i.value, i.exp⟩)
  /-- `Del k`'s immediate delete -/
  | del (t : Tid) (c : Conf) (ha : a = .client t .none) (hpc : s.cl t = .delStart k c) (hs : s'.store.lookup k = none)
  /-- the applier's delete for a tombstone of `k` -/
  | tomb (i : Item) (ha : a = .applier .none) (hpc : s.app = .tombPolicy i) (hk : i.key = k)
      (hs : s'.store.lookup k = none)
  /-- the applier applies another admitted new-item of `k` (`lockedMap.Set` overwrites) -/
  | readmit (i : Item) (vs : List (Hash × Int)) (ha : a = .applier .none) (hpc : s.app = .added i vs true)
      (hk : i.key = k) (hs : s'.store.lookup k = some ⟨i.conflict, i.value, i.exp⟩)
  /-- eviction as a victim of some admission -/
  | evicted (cost : Int) (rest : List (Hash × Int)) (ha : a = .applier .none) (hpc : s.app = .victims ((k, cost) :: rest))
      (hs : s'.store.lookup k = none)
  /-- `Clear` / `Close` -/
  | cleared (t : Tid) (closing : Bool) (j : Nat) (hpc : s.cl t = .clrShard closing j) (hs : s'.store.lookup k = none)
  /-- the sweep, only for an entry with a TTL that has elapsed -/
  | expired (now : Time) (c : Conf) (bs : List (AMap Hash Conf)) (ha : a = .applier .none)
      (hpc : s.app = .swKey now k c bs) (hexp : e.exp ≠ Gen.zeroTime) (hle : e.exp ≤ now) (hnow : now ≤ s.clock)
      (hs : s'.store.lookup k = none)

theorem stays_clientStep {cfg : Cfg} {s s' : State} {t : Tid} {ch : Choice} {k : Hash} {e : Entry}
    (hs : clientStep cfg s t ch = some s') (he : s.store.lookup k = some e) (hne : s'.store.lookup k ≠ some e) :
    EraseCause cfg s (.client t ch) s' k e := by
  revert hne
  apply clientStep_cases hs (motive := fun s' => s'.store.lookup k ≠ some e → EraseCause cfg s (.client t ch) s' k e)
  case setUpd =>
    intro i hpc hch hne
    subst hch
    by_cases hk : k = i.key
    · subst hk
      cases h' : (stSetUpd cfg s t i).store.lookup i.key with
      | none =>
        exfalso
        rw [stSetUpd_store] at h'
        have := storeUpdate_lookup_ne cfg s.store s.em i (k := i.key)
        cases hh : (storeUpdate cfg s.store s.em i).1.lookup i.key with
        | none =>
          -- `Update` never removes a key
          unfold storeUpdate at hh
          rw [he] at hh
          dsimp only at hh
          split at hh
          · rw [he] at hh; cases hh
          · split at hh
            · rw [he] at hh; cases hh
            · simp at hh
        | some e' => rw [hh] at h'; cases h'
      | some e' =>
        have h2 := h'
        rw [stSetUpd_store] at h2
        rcases storeUpdate_some cfg s.store s.em i h2 with h3 | ⟨_, h3, _⟩
        · rw [he] at h3; cases h3; exact absurd h' hne
        · subst h3; exact .overwrite t i rfl hpc rfl h'
    · exfalso; apply hne
      rw [stSetUpd_store, storeUpdate_lookup_ne cfg s.store s.em i hk]; exact he
  case delStart =>
    intro h c hpc hch hne
    subst hch
    rcases stDelStart_store s t h c with e1 | e1
    · exfalso; apply hne; rw [e1]; exact he
    · rcases storeDel_lookup_f s.store s.em h c k with h1 | ⟨rfl, h1, _⟩
      · exfalso; apply hne; rw [e1, h1]; exact he
      · exact .del t c rfl hpc (by rw [e1]; exact h1)
  case clrShard =>
    intro closing j hpc hr hne
    obtain ⟨ks, _, _, _, _, _, _, _, h6, _, _, _, _⟩ := stClrShard_q hr
    rw [h6, eraseAll_lookup_f] at hne
    split at hne
    · exact .cleared t closing j hpc (by rw [h6, eraseAll_lookup_f]; simp [*])
    · exact absurd he hne
  case waitRecv => intro id _ _ hr hne; exact absurd (by rw [stWaitRecv_store s t id hr]; exact he) hne
  case getStart => intro h c _ hr hne; exact absurd (by rw [(stGetStart_q hr).2.2.2.2.2.1]; exact he) hne
  case iterShard => intro j n seen _ hr hne; exact absurd (by rw [(stIterShard_q hr).2.2.2.2.2.1]; exact he) hne
  case clrDrain =>
    intro closing _ _ hne
    exfalso; apply hne
    unfold stClrDrain
    split
    · exact he
    · rename_i hr; show (_ : State).store.lookup k = _; rw [show (_ : State).store = s.store from recvBuf_store hr]; exact he
    · rename_i hr
      split
      · simp only [cbEvict_store]; rw [recvBuf_store hr]; exact he
      · rw [recvBuf_store hr]; exact he
  all_goals (intros; rename_i hne; exact absurd (by simpa using he) hne)

theorem stays_applierStep {cfg : Cfg} {s s' : State} {ch : Choice} {k : Hash} {e : Entry} (hsw : SweepNow s)
    (hs : applierStep cfg s ch = some s') (he : s.store.lookup k = some e) (hne : s'.store.lookup k ≠ some e) :
    EraseCause cfg s (.applier ch) s' k e := by
  revert hne
  apply applierStep_cases hs (motive := fun s' => s'.store.lookup k ≠ some e → EraseCause cfg s (.applier ch) s' k e)
  case idle =>
    intro hpc hr hne
    exfalso; apply hne
    unfold apIdle at hr
    split at hr
    · unfold apSelItem at hr
      split at hr
      · simp at hr
      · rename_i hrecv; simp only [Option.some.injEq] at hr; subst hr
        show (_ : State).store.lookup k = _; rw [show (_ : State).store = s.store from recvBuf_store hrecv]; exact he
      · rename_i hrecv; simp only [Option.some.injEq] at hr; subst hr
        show (_ : State).store.lookup k = _; rw [show (_ : State).store = s.store from recvBuf_store hrecv]; exact he
    · simp only [Option.some.injEq] at hr; subst hr; exact he
    · rename_i t; rw [apSelStop_store s t hr]; exact he
    · simp at hr
  case costed =>
    intro i hpc hr hne
    exfalso; apply hne
    unfold apCosted at hr
    split at hr
    · rw [apCostedNew_store cfg s i ch hr]; exact he
    · obtain ⟨_, hr⟩ := needNone_some hr
      simp only [Option.some.injEq] at hr; subst hr; simpa using he
    · obtain ⟨_, hr⟩ := needNone_some hr
      simp only [Option.some.injEq] at hr; subst hr; simpa using he
  case added =>
    intro i vs ok hpc hch hne
    subst hch
    unfold apAdded at hne ⊢
    split at hne
    · rename_i hok
      simp only [metAdd_store] at hne
      by_cases hk : k = i.key
      · cases h' : (storeSet cfg s.store s.em i).1.lookup k with
        | none =>
          exfalso
          -- `Set` never removes a key
          subst hk
          unfold storeSet at h'
          rw [he] at h'
          dsimp only at h'
          split at h'
          · rw [he] at h'; cases h'
          · split at h'
            · rw [he] at h'; cases h'
            · simp at h'
        | some e' =>
          rcases storeSet_some cfg s.store s.em i h' with h3 | ⟨_, h3⟩
          · rw [he] at h3; cases h3; exact absurd h' hne
          · subst h3
            refine .readmit i vs rfl (by rw [hpc, hok]) hk.symm ?_
            rw [if_pos hok]; simpa using h'
      · exfalso; apply hne; rw [storeSet_lookup_ne cfg s.store s.em i hk]; exact he
    · exfalso; apply hne; simpa using he
  case victims =>
    intro vs hpc hch hr hne
    subst hch
    unfold apVictims at hr
    split at hr
    · simp at hr
    · rename_i h cost rest
      simp only [Option.some.injEq] at hr; subst hr
      rcases storeDel_lookup_f s.store s.em h 0#64 k with h1 | ⟨rfl, h1, _⟩
      · exfalso; apply hne; show (storeDel s.store s.em h 0#64).1.lookup k = _; rw [h1]; exact he
      · exact .evicted cost rest rfl hpc h1
  case tombPolicy =>
    intro i hpc hch hne
    subst hch
    rcases storeDel_lookup_f s.store s.em i.key i.conflict k with h1 | ⟨rfl, h1, _⟩
    · exfalso; apply hne; show (storeDel s.store s.em i.key i.conflict).1.lookup k = _; rw [h1]; exact he
    · exact .tomb i rfl hpc rfl h1
  case sweep =>
    intro now bs hpc hr hne
    exact absurd (by rw [apSweep_store s now bs ch hr]; exact he) hne
  case swKey =>
    intro now k' c bs hpc hch hne
    subst hch
    have hnow : now ≤ s.clock := hsw now (by rw [hpc]; rfl)
    unfold apSwKey at hne ⊢
    dsimp only at hne ⊢
    split at hne
    · rename_i hrem
      rcases storeDelExpired_lookup s.store s.em k' c now k with h1 | ⟨rfl, h1, e', he', hsk⟩
      · exact absurd (by rw [h1]; exact he) hne
      · rw [he] at he'; cases he'
        simp only [sweepSkip, Bool.or_eq_false_iff, beq_eq_false_iff_ne, decide_eq_false_iff_not] at hsk
        rw [if_pos hrem]
        exact .expired now c bs rfl hpc hsk.1 (Int.not_lt.mp hsk.2) hnow h1
    · exact absurd he hne
  all_goals (intros; rename_i hne; exact absurd (by simpa using he) hne)

/-- (g) `stays_until`: a store entry only disappears or changes by an overwriting `Set`, `Del`
(immediate or tombstone), a re-admission of the same key, eviction as a victim, `Clear`/`Close`,
or the sweep once its TTL has elapsed (`exp ≠ 0 ∧ exp ≤ now ≤ clock`). -/
theorem stays_until {cfg : Cfg} {s s' : State} {a : Action} {k : Hash} {e : Entry} (hr : Reach cfg s)
    (hs : step cfg s a = some s') (he : s.store.lookup k = some e) (hne : s'.store.lookup k ≠ some e) :
    EraseCause cfg s a s' k e := by
  cases a with
  | spawn t c => exact absurd (by rw [spawnStep_store s t c hs]; exact he) hne
  | client t ch => exact stays_clientStep hs he hne
  | applier ch => exact stays_applierStep (sweep_now hr) hs he hne
  | done t => exact absurd (by rw [doneStep_store s t hs]; exact he) hne
  | tick d => simp only [step, Option.some.injEq] at hs; subst hs; exact absurd he hne

end RV.Cache
