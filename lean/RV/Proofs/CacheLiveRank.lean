import RV.Proofs.CacheLiveRelease
/-!
# C08 (3): ranking functions — every call returns in a bounded number of steps

* `rankC s pc` — number of own steps a client at `pc` still needs before it returns (blocking
  points excluded); `client_step_decreases`: every own step strictly decreases it.  For
  `IterValues`/`Clear` the bound involves `numShards`, for the drain loop of `Clear` also the
  current channel content `|buf| + |sendq|`.
* `rankA pc` — applier-local rank (lexicographic pair: the outcome of `policy.Add` and the sweep
  grab are unbounded choices in the model, after them the number of pending victims / keys counts
  down); `applier_step_decreases`: every applier step taken outside `idle` strictly decreases it,
  so the applier is back at its `select` after finitely many of its own steps.
* blocking points: `sendDist` (position of a blocked sender in `sendq`) and `waitDist` (position
  of a `Wait` marker in the channel, then applier, then closed) never increase and strictly
  decrease with every receive from the channel (`selItem` of the idle applier, a drain iteration
  of `Clear`) resp. with the applier's `close(marker)`; they are bounded by `|buf| + |sendq| + 2`;
  at `0` the client is released.
Fair infinite executions and the termination theorem built on these ranking lemmas are in
`CacheFair*.lean` / `RV/Props/C08Fair.lean`.
-/
namespace RV.Cache
open Gen.Cache

/-! ### clients -/

/-- own steps left after the restart of the applier: `Clear` returns, `Close` goes on -/
def restRank (c : Bool) : Nat := if c then 4 else 1

def rankN (n : Nat) : CPc → Nat
  | .idle => 0
  | .setStart .. => 5 | .setUpd _ => 4 | .setExit .. => 3 | .setSend _ => 2 | .setRetTrue _ => 1
  | .setRetDrop _ => 1
  | .delStart .. => 5 | .delExit .. => 4 | .delSend .. => 3 | .delBlocked _ => 2 | .delSent _ => 1
  | .waitStart => 5 | .waitSend => 4 | .waitBlocked _ => 3 | .waitRecv _ => 2 | .waitDone => 1
  | .getStart .. => 4 | .getRead .. => 3 | .getCheck .. => 2 | .getMetric .. => 1
  | .ttlRead .. => 5 | .ttlCheck .. => 4 | .ttlExp .. => 3 | .ttlNow .. => 2 | .ttlUntil .. => 1
  | .iterStart _ => numShards.toNat + 1
  | .iterShard k _ _ => numShards.toNat - k
  | .clrStart c => n + numShards.toNat + restRank c + 7
  | .clrStop c => n + numShards.toNat + restRank c + 6
  | .clrDone c => n + numShards.toNat + restRank c + 5
  | .clrDrain c => n + numShards.toNat + restRank c + 4
  | .clrPolicy c => numShards.toNat + restRank c + 3
  | .clrShard c k => (numShards.toNat - k) + restRank c + 2
  | .clrEm c => restRank c + 2
  | .clrMetrics c => restRank c + 1
  | .clrRestart c => restRank c
  | .clsStop => 3 | .clsDone => 2 | .clsFinish => 1
  | .updMax _ => 1 | .readMax => 1 | .readRem => 1

/-- own steps left until the call returns, in state `s` -/
def rankC (s : State) (pc : CPc) : Nat := rankN (s.buf.length + s.sendq.length) pc

theorem own_rank {n : Nat} {pc pc' : CPc} (h : OwnTr pc pc') (hwf : pc.wf = true)
    (hnd : ∀ c, pc ≠ .clrDrain c) : rankN n pc' < rankN n pc := by
  have h256 : numShards.toNat = 256 := by decide
  cases h
  case clrDrain_loop c => exact absurd rfl (hnd c)
  case clrDrain_done c => exact absurd rfl (hnd c)
  case iterShard_ret k m seen =>
    have : k < numShards.toNat := by simpa [CPc.wf] using hwf
    simp only [rankN]; omega
  case iterShard_next k m seen seen' hk => simp only [rankN]; omega
  case clrShard_next c k hk => simp only [rankN]; omega
  case clrShard_done c k =>
    have : k < numShards.toNat := by simpa [CPc.wf] using hwf
    simp only [rankN]; omega
  case clrRestart_ret => simp [rankN, restRank]
  case clrRestart_close => simp [rankN, restRank]
  all_goals (simp only [rankN]; omega)

/-- **C08 (3), clients.**  Every enabled own step of a client strictly decreases `rankC`. -/
theorem client_step_decreases {cfg : Cfg} {s s' : State} {t : Tid} {ch : Choice}
    (hwf : (s.cl t).wf = true) (hs : clientStep cfg s t ch = some s') :
    rankC s' (s'.cl t) < rankC s (s.cl t) := by
  rcases client_shape hs with hp | hsp
  · unfold rankC
    rw [hp.buf, hp.sendq]
    refine own_rank hp.succ hwf (fun c e => ?_)
    have := hp.src; rw [e] at this; cases this
  · cases hsp with
    | setSend i hpc he =>
      subst he
      unfold stSetSend; split <;> simp [rankC, rankN, hpc]
    | delSend h c hpc he =>
      subst he
      unfold stDelSend sendBlocking; split <;> simp [rankC, rankN, hpc]
    | waitSend hpc he =>
      subst he
      unfold stWaitSend sendBlocking; split <;> simp [rankC, rankN, hpc]
    | drain c hpc he =>
      subst he
      rcases drain_shape s t c with ⟨_, he⟩ | ⟨x, s1, hrecv, hcl, hbuf, hq, _⟩
      · rw [he]; simp [rankC, rankN, hpc]; omega
      · have hself : (stClrDrain s t c).cl t = .clrDrain c := by
          rw [hcl]
          rcases recvBuf_cl hrecv t with e | e <;> rw [e, hpc] <;> rfl
        have hlen : (stClrDrain s t c).buf.length + (stClrDrain s t c).sendq.length + 1 =
            s.buf.length + s.sendq.length := by
          rw [hbuf, hq]
          obtain ⟨rest, hb, (⟨hsq, rfl⟩ | ⟨t0, e0, q, hsq, rfl⟩)⟩ := recvBuf_cases hrecv
          · simp [hb, hsq]
          · simp [hb, hsq]; omega
        rw [hself, hpc]
        simp only [rankC, rankN]; omega
    | restart c hpc he =>
      subst he
      unfold stClrRestart; dsimp only
      cases c <;> simp [rankC, rankN, hpc, restRank]
    | finish hpc he =>
      subst he
      simp [rankC, rankN, hpc, stClsFinish]

/-! ### the applier -/

def sizeSum : List (AMap Hash Conf) → Nat
  | [] => 0
  | b :: rest => b.toList.length + sizeSum rest

def rankA : APc → Nat × Nat
  | .idle => (0, 0)
  | .marker _ => (0, 1)
  | .item _ => (1, 2)
  | .costed _ => (1, 1)
  | .added _ vs _ => (0, 2 * vs.length + 1)
  | .victims vs => (0, 2 * vs.length)
  | .victimEvict _ _ _ _ rest => (0, 2 * rest.length + 1)
  | .tombPolicy _ => (0, 2)
  | .tombStore _ => (0, 1)
  | .tick => (1, 0)
  | .sweep _ bs => (0, 4 * sizeSum bs + 1)
  | .swKey _ _ _ bs => (0, 4 * sizeSum bs + 4)
  | .swStoreDel _ _ _ _ _ bs => (0, 4 * sizeSum bs + 3)
  | .swPolDel _ _ _ _ _ _ bs => (0, 4 * sizeSum bs + 2)
  | .stopAck => (0, 0)
  | .dead => (0, 0)

abbrev LexLt (p q : Nat × Nat) : Prop := Prod.Lex (· < ·) (· < ·) p q

theorem lexLt_iff (p q : Nat × Nat) : LexLt p q ↔ p.1 < q.1 ∨ (p.1 = q.1 ∧ p.2 < q.2) := Prod.lex_def

theorem lexLt_wf : WellFounded LexLt := (Prod.lex ⟨_, Nat.lt_wfRel.wf⟩ ⟨_, Nat.lt_wfRel.wf⟩).wf

theorem rankA_afterVictims (vs : List (Hash × Int)) : rankA (afterVictims vs) = (0, 2 * vs.length) := by
  unfold afterVictims
  split
  · rename_i h; simp at h; subst h; rfl
  · rfl

theorem sizeSum_firstNonEmpty (bs : List (AMap Hash Conf)) : sizeSum (firstNonEmpty bs) = sizeSum bs := by
  induction bs with
  | nil => rfl
  | cons b rest ih =>
    unfold firstNonEmpty
    split
    · rename_i h
      have : b.toList.length = 0 := by simpa using h
      simp [sizeSum, ih, this]
    · rfl

theorem erase_size_le : ∀ (m : AMap Hash Conf) (k : Hash), (AMap.erase m k).size ≤ m.size
  | [], _ => Nat.le_refl _
  | (k', v) :: rest, k => by
    by_cases hk : k' = k
    · have e : AMap.erase ((k', v) :: rest : AMap Hash Conf) k = AMap.erase rest k := by simp [AMap.erase, hk]
      rw [e]; exact Nat.le_succ_of_le (erase_size_le rest k)
    · have e : AMap.erase ((k', v) :: rest : AMap Hash Conf) k = ((k', v) :: AMap.erase rest k : AMap Hash Conf) := by
        simp [AMap.erase, hk]; rfl
      rw [e]; exact Nat.succ_le_succ (erase_size_le rest k)

theorem erase_size_lt : ∀ (m : AMap Hash Conf) (k : Hash) (c : Conf), m.lookup k = some c →
    (AMap.erase m k).size < m.size
  | [], _, _, h => by simp [AMap.lookup] at h
  | (k', v) :: rest, k, c, h => by
    by_cases hk : k' = k
    · have e : AMap.erase ((k', v) :: rest : AMap Hash Conf) k = AMap.erase rest k := by simp [AMap.erase, hk]
      rw [e]; exact Nat.lt_succ_of_le (erase_size_le rest k)
    · have e : AMap.erase ((k', v) :: rest : AMap Hash Conf) k = ((k', v) :: AMap.erase rest k : AMap Hash Conf) := by
        simp [AMap.erase, hk]; rfl
      simp only [AMap.lookup, hk, if_false] at h
      rw [e]; exact Nat.succ_lt_succ (erase_size_lt rest k c h)

theorem erase_length_lt {m : AMap Hash Conf} {k : Hash} {c : Conf} (h : m.lookup k = some c) :
    (m.erase k).toList.length < m.toList.length := erase_size_lt m k c h

/-- **C08 (3), applier.**  Outside its `select` (`idle`) every applier step strictly decreases the
lexicographic rank `rankA`: the applier is back at `idle` after finitely many own steps. -/
theorem applier_step_decreases {cfg : Cfg} {s s' : State} {ch : Choice} (hni : s.app ≠ .idle)
    (hs : applierStep cfg s ch = some s') : LexLt (rankA s'.app) (rankA s.app) := by
  rw [lexLt_iff]
  apply applierStep_cases hs (motive := fun s' => (rankA s'.app).1 < (rankA s.app).1 ∨
    ((rankA s'.app).1 = (rankA s.app).1 ∧ (rankA s'.app).2 < (rankA s.app).2))
  case idle => intro hpc _; exact absurd hpc hni
  case marker => intro id hpc _; rw [hpc]; simp [apMarker, rankA]
  case item => intro i hpc _; rw [hpc]; simp [apItem, rankA]
  case costed =>
    intro i hpc hr
    rw [hpc]
    unfold apCosted at hr
    split at hr
    · unfold apCostedNew at hr
      split at hr
      · split at hr
        · simp at hr
        · simp only [Option.some.injEq] at hr; subst hr; simp [rankA]
      · simp at hr
    · obtain ⟨_, hr⟩ := needNone_some hr
      simp only [Option.some.injEq] at hr; subst hr; simp [apCostedUpd, rankA]
    · obtain ⟨_, hr⟩ := needNone_some hr
      simp only [Option.some.injEq] at hr; subst hr; simp [apCostedDel, rankA]
  case added =>
    intro i victims ok hpc _
    rw [hpc]
    have : (apAdded cfg s i victims ok).app = afterVictims victims := by
      unfold apAdded; split <;> rfl
    rw [this, rankA_afterVictims]; simp [rankA]
  case victims =>
    intro vs hpc _ hr
    rw [hpc]
    unfold apVictims at hr
    split at hr
    · simp at hr
    · simp only [Option.some.injEq] at hr; subst hr; simp [rankA]; omega
  case victimEvict =>
    intro h cost c v rest hpc _
    rw [hpc]
    have : (apVictimEvict s h cost c v rest).app = afterVictims rest := rfl
    rw [this, rankA_afterVictims]; simp [rankA]
  case tombPolicy => intro i hpc _; rw [hpc]; simp [apTombPolicy, rankA]
  case tombStore => intro v hpc _; rw [hpc]; simp [apTombStore, rankA]
  case tick => intro hpc _; rw [hpc]; simp [apTick, rankA]
  case sweep =>
    intro now bs hpc hr
    rw [hpc]
    unfold apSweep at hr
    split at hr
    · simp only [Option.some.injEq] at hr; subst hr; simp [rankA]
    · rename_i b rest k hfe
      split at hr
      · simp at hr
      · rename_i c hlk
        simp only [Option.some.injEq] at hr; subst hr
        have h1 := sizeSum_firstNonEmpty bs
        rw [hfe] at h1
        have h2 := erase_length_lt hlk
        simp only [rankA, sizeSum] at h1 ⊢
        right
        first | exact ⟨rfl, by omega⟩ | exact ⟨trivial, by omega⟩
    · simp at hr
  case swKey =>
    intro now k c bs hpc _
    rw [hpc]
    unfold apSwKey; dsimp only
    split <;> simp [rankA]
  case swStoreDel => intro now k c expr v bs hpc _; rw [hpc]; simp [apSwStoreDel, rankA]
  case swPolDel => intro now k c expr cost v bs hpc _; rw [hpc]; simp [apSwPolDel, rankA]

end RV.Cache
