import RV.Proofs.CacheTTLFairEx
/-!
# C14 liveness under fairness (4): `TickFair` cannot be dropped

`tickfair_needed_counterexample`: `SetWithTTL(1 ↦ 7, 1 s)` is applied, the clock passes to 20 s and 40 s
(the entry has expired long ago, `ClockPasses` holds); then client 1 calls `Set(5 ↦ 9)` again and again,
and every time the applier is at its `select` it takes the `setBuf` branch (ready by then), never the
ticker branch.  The execution is `Fair` (weak fairness for every actor — every actor moves infinitely
often — and strong fairness of the `setBuf` and `stop` branches), drain loops end (there is no `Clear`),
the clock is sane at all times, nobody touches key 1 — and the expired entry stays in the store forever.
The ticker branch is ready infinitely often and never taken: not `TickFair`.
-/
namespace RV.Cache
open Gen.Cache

def busyItem : Item := ⟨.new, 5#64, 0#64, 9, 1, Gen.zeroTime⟩
def busyUpd : Item := ⟨.upd, 5#64, 0#64, 9, 1, Gen.zeroTime⟩
def busyEntry : Entry := ⟨0#64, 9, Gen.zeroTime⟩

/-- what stays put during the busy loop -/
structure BusyB (s : State) : Prop where
  closed : s.closed = false
  sendq : s.sendq = []
  k1 : s.store.lookup 1#64 = some ttlEntry
  k5 : s.store.lookup 5#64 = some busyEntry
  others : ∀ t, t ≠ 1 → s.cl t = .idle
  clock : s.clock = 40000000000

def busyPc : Nat → CPc
  | 1 => .setStart 5#64 0#64 9 1 0
  | 2 => .setUpd busyItem
  | 3 => .setExit busyItem 9
  | 4 => .setSend busyUpd
  | 5 => .setRetTrue busyUpd
  | _ => .idle

def busyBuf (p : Nat) : List BufElem := if p = 5 ∨ p = 6 then [.item busyUpd] else []

def BusyApp (p : Nat) (a : APc) : Prop :=
  if p ≤ 6 then a = .idle else if p = 7 then a = .item busyUpd else ∃ i, a = .costed i ∧ i.flag = .upd

def BusyPI (p : Nat) (s : State) : Prop := BusyB s ∧ s.cl 1 = busyPc p ∧ s.buf = busyBuf p ∧ BusyApp p s.app

/-- the loop: client 1 calls `Set(5 ↦ 9)` (6 steps), the applier receives and applies the update (3 steps) -/
def busyActs (p : Nat) : Action :=
  if p = 0 then .spawn 1 (.set 5#64 0#64 9 1 0) else if p ≤ 5 then .client 1 .none
  else if p = 6 then .applier .selItem else .applier .none

theorem busyB_of_frame {s s' : State} (h : BusyB s) (hcl : ∀ t', t' ≠ 1 → s'.cl t' = s.cl t')
    (hq : s'.sendq = s.sendq) (hc : s'.closed = s.closed) (hst : s'.store = s.store)
    (hk : s'.clock = s.clock) : BusyB s' :=
  ⟨by rw [hc]; exact h.closed, by rw [hq]; exact h.sendq, by rw [hst]; exact h.k1, by rw [hst]; exact h.k5,
    fun t' h1 => by rw [hcl t' h1]; exact h.others t' h1, by rw [hk]; exact h.clock⟩

theorem busy_step (p : Nat) (s : State) (hp : p < 9) (h : BusyPI p s) :
    ∃ s', step exCfg1 s (busyActs p) = some s' ∧ BusyPI ((p + 1) % 9) s' := by
  obtain ⟨hb, hc1, hbuf, happ⟩ := h
  match p, hp with
  | 0, _ =>
    have hpc : s.cl 1 = .idle := hc1
    have hidle : s.app = .idle := happ
    refine ⟨logEv (setCl s 1 (.setStart 5#64 0#64 9 1 0)) (.setCall 1 5#64 0#64 9 1 0),
      by simp [busyActs, step, spawnStep, hpc], ?_, ?_, ?_, ?_⟩
    · exact busyB_of_frame hb (fun t' ht' => by simp [setCl_cl_ne _ _ _ ht']) rfl rfl rfl rfl
    · simp [busyPc]
    · simpa [busyBuf] using hbuf
    · exact hidle
  | 1, _ =>
    have hpc : s.cl 1 = .setStart 5#64 0#64 9 1 0 := hc1
    have hidle : s.app = .idle := happ
    refine ⟨stSetStart s 1 5#64 0#64 9 1 0, by simp [busyActs, step, clientStep, hpc, needNone], ?_, ?_, ?_, ?_⟩
    · exact busyB_of_frame hb (fun t' ht' => stSetStart_cl_ne (hne := ht') ..) (stSetStart_sendq ..)
        (stSetStart_closed ..) (stSetStart_store ..) (stSetStart_clock ..)
    · simp [stSetStart, hb.closed, ttlNone, busyPc, busyItem]
    · rw [stSetStart_buf]; simpa [busyBuf] using hbuf
    · show BusyApp 2 _; rw [stSetStart_app]; exact hidle
  | 2, _ =>
    have hpc : s.cl 1 = .setUpd busyItem := hc1
    have hidle : s.app = .idle := happ
    have hupd : storeUpdate exCfg1 s.store s.em busyItem =
        (s.store.insert 5#64 busyEntry, s.em.update 5#64 0#64 Gen.zeroTime Gen.zeroTime, 9, true) := by
      simp [storeUpdate, busyItem, hb.k5, busyEntry, updConflictMismatch, suRefuses, exCfg1, updRefused]
    refine ⟨stSetUpd exCfg1 s 1 busyItem, by simp [busyActs, step, clientStep, hpc, needNone], ?_, ?_, ?_, ?_⟩
    · refine ⟨by rw [stSetUpd_closed]; exact hb.closed, by rw [stSetUpd_sendq]; exact hb.sendq, ?_, ?_,
        fun t' ht' => by rw [stSetUpd_cl_ne (hne := ht')]; exact hb.others t' ht',
        by rw [stSetUpd_clock]; exact hb.clock⟩
      · simp only [stSetUpd, hupd]
        show AMap.lookup (AMap.insert s.store 5#64 busyEntry) 1#64 = _
        rw [AMap.lookup_insert_ne _ _ (by decide)]; exact hb.k1
      · simp only [stSetUpd, hupd]
        show AMap.lookup (AMap.insert s.store 5#64 busyEntry) 5#64 = _
        exact AMap.lookup_insert_self ..
    · simp [stSetUpd, hupd, busyPc]
    · rw [stSetUpd_buf]; simpa [busyBuf] using hbuf
    · show BusyApp 3 _; rw [stSetUpd_app]; exact hidle
  | 3, _ =>
    have hpc : s.cl 1 = .setExit busyItem 9 := hc1
    have hidle : s.app = .idle := happ
    refine ⟨stSetExit s 1 busyItem 9, by simp [busyActs, step, clientStep, hpc, needNone], ?_, ?_, ?_, ?_⟩
    · exact busyB_of_frame hb (fun t' ht' => stSetExit_cl_ne (hne := ht') ..) (stSetExit_sendq ..)
        (stSetExit_closed ..) (stSetExit_store ..) (stSetExit_clock ..)
    · simp [stSetExit, busyPc, busyItem, busyUpd]
    · rw [stSetExit_buf]; simpa [busyBuf] using hbuf
    · show BusyApp 4 _; rw [stSetExit_app]; exact hidle
  | 4, _ =>
    have hpc : s.cl 1 = .setSend busyUpd := hc1
    have hidle : s.app = .idle := happ
    have hbuf' : s.buf = [] := by simpa [busyBuf] using hbuf
    have hroom : s.buf.length < exCfg1.bufCap ∧ s.sendq = [] := by
      rw [hbuf', hb.sendq]; exact ⟨by decide, rfl⟩
    refine ⟨stSetSend exCfg1 s 1 busyUpd, by simp [busyActs, step, clientStep, hpc, needNone], ?_, ?_, ?_, ?_⟩
    · exact busyB_of_frame hb (fun t' ht' => stSetSend_cl_ne (hne := ht') ..)
        (by unfold stSetSend; rw [if_pos hroom]; rfl) (stSetSend_closed ..) (stSetSend_store ..)
        (stSetSend_clock ..)
    · unfold stSetSend; rw [if_pos hroom]; simp [busyPc]
    · unfold stSetSend; rw [if_pos hroom]; simp [busyBuf, hbuf']
    · show BusyApp 5 _; rw [stSetSend_app]; exact hidle
  | 5, _ =>
    have hpc : s.cl 1 = .setRetTrue busyUpd := hc1
    have hidle : s.app = .idle := happ
    refine ⟨stSetRetTrue s 1 busyUpd, by simp [busyActs, step, clientStep, hpc, needNone], ?_, ?_, ?_, ?_⟩
    · exact busyB_of_frame hb (fun t' ht' => stSetRetTrue_cl_ne (hne := ht') ..) (stSetRetTrue_sendq ..)
        (stSetRetTrue_closed ..) (stSetRetTrue_store ..) (stSetRetTrue_clock ..)
    · simp [stSetRetTrue, busyPc]
    · rw [stSetRetTrue_buf]; simpa [busyBuf] using hbuf
    · show BusyApp 6 _; rw [stSetRetTrue_app]; exact hidle
  | 6, _ =>
    have hidle : s.app = .idle := happ
    have hbuf' : s.buf = [.item busyUpd] := by simpa [busyBuf] using hbuf
    have hrecv : recvBuf s = some (.item busyUpd, { s with buf := [] }) := by
      simp [recvBuf, hbuf', hb.sendq]
    refine ⟨{ s with buf := [], app := .item busyUpd },
      by simp [busyActs, step, applierStep, hidle, apIdle, apSelItem, hrecv], ?_, ?_, ?_, ?_⟩
    · exact ⟨hb.closed, hb.sendq, hb.k1, hb.k5, hb.others, hb.clock⟩
    · exact hc1
    · rfl
    · show BusyApp 7 _; rfl
  | 7, _ =>
    have hitem : s.app = .item busyUpd := happ
    refine ⟨apItem exCfg1 s busyUpd, by simp [busyActs, step, applierStep, hitem, needNone], ?_, ?_, ?_, ?_⟩
    · exact busyB_of_frame hb (fun t' _ => by rw [apItem_cl]) (apItem_sendq ..) (apItem_closed ..)
        (apItem_store ..) (apItem_clock ..)
    · rw [apItem_cl]; exact hc1
    · rw [apItem_buf]; simpa [busyBuf] using hbuf
    · show BusyApp 8 _
      exact ⟨_, rfl, rfl⟩
  | 8, _ =>
    obtain ⟨i, hi, hflag⟩ : ∃ i, s.app = .costed i ∧ i.flag = .upd := happ
    refine ⟨apCostedUpd exCfg1 s i, by simp [busyActs, step, applierStep, hi, apCosted, hflag, needNone], ?_, ?_, ?_, ?_⟩
    · exact busyB_of_frame hb (fun t' _ => by rw [apCostedUpd_cl]) (apCostedUpd_sendq ..) (apCostedUpd_closed ..)
        (apCostedUpd_store ..) (apCostedUpd_clock ..)
    · rw [apCostedUpd_cl]; exact hc1
    · rw [apCostedUpd_buf]; simpa [busyBuf] using hbuf
    · show BusyApp 0 _
      simp [BusyApp, apCostedUpd]

theorem busyActs_noClose (p : Nat) : (busyActs p).isClose = false := by
  unfold busyActs
  repeat' split
  all_goals rfl

theorem busyActs_ne_selTick (p : Nat) : busyActs p ≠ .applier .selTick := by
  unfold busyActs
  repeat' split
  all_goals (intro h; cases h)

theorem busyPc_not_stop (p : Nat) : (∀ c, busyPc p ≠ .clrStop c) ∧ busyPc p ≠ .clsStop ∧ ∀ c, busyPc p ≠ .clrDrain c := by
  unfold busyPc
  split <;> simp

/-- `SetWithTTL(1 ↦ 7, 1 s)` applied; clock to 20 s, to 40 s; a first `Set(5 ↦ 9)` applied and admitted -/
def exTTLBusy : List Action :=
  exTTLSet ++ [ .tick 20000000000, .tick 20000000000,
    .spawn 1 (.set 5#64 0#64 9 1 0), .client 1 .none, .client 1 .none, .client 1 .none, .client 1 .none,
    .applier .selItem, .applier .none, .applier (.add [] true), .applier .none ]

set_option maxRecDepth 100000 in
theorem exTTLBusy_store : ∀ k : Fin 21,
    (run exCfg1 (init exCfg1 0) (exTTLBusy.take k)).map (fun s => s.store.lookup 1#64) =
      some (if 9 ≤ k.val then some ttlEntry else none) := by decide

set_option maxRecDepth 100000 in
theorem exTTLBusy_end :
    (run exCfg1 (init exCfg1 0) exTTLBusy).map (fun s => (s.cl 0, s.cl 1, s.buf, s.sendq.length, appIsIdle s)) =
      some (.idle, .idle, [], 0, true) ∧
    (run exCfg1 (init exCfg1 0) exTTLBusy).map (fun s => (s.clock, s.closed, s.store.lookup 5#64)) =
      some (40000000000, false, some busyEntry) := by decide

set_option maxRecDepth 100000 in
theorem exTTLBusy_mid :
    ((run exCfg1 (init exCfg1 0) (exTTLBusy.take 10)).map (fun s => s.clock) = some 20000000000) ∧
    ((run exCfg1 (init exCfg1 0) (exTTLBusy.take 11)).map (fun s => s.clock) = some 40000000000) := by
  decide

/-- **Strong fairness of the ticker branch cannot be dropped.**  Every hypothesis of `eventually_reclaimed`
except `TickFair` holds (even `Fair`, and a sane clock at all times): the entry of key 1 has expired (1 s;
the clock is at 40 s), nobody touches it, and it stays in the store forever, because the applier always finds
an item in `setBuf` and never takes the ticker branch. -/
theorem tickfair_needed_counterexample :
    ∃ e : Exec exCfg1, e.st 0 = init exCfg1 0 ∧ Fair e ∧ DrainsEnd e ∧ ¬ TickFair e ∧ CreatedAt e 0 ∧
      (∀ j, TimeOk (e.st j).clock) ∧ ClockPasses e 9 ttlEntry.exp ∧
      (∀ j, 9 ≤ j → (e.st j).store.lookup 1#64 = some ttlEntry) ∧
      ∀ j, 11 ≤ j → (e.st j).clock = 40000000000 := by
  have hend := exTTLBusy_end
  cases hfull : run exCfg1 (init exCfg1 0) exTTLBusy with
  | none => rw [hfull] at hend; simp at hend
  | some b =>
    rw [hfull] at hend
    simp only [Option.map_some, Option.some.injEq, Prod.mk.injEq] at hend
    obtain ⟨⟨hc0, hc1, hbuf, hq, happ⟩, hclk, hclosed, hk5⟩ := hend
    have hnc : NoCloseRun exTTLBusy := noClose_of_all (by decide)
    have hr : ReachNC exCfg1 b := reachNC_of_run (now := 0) hnc hfull
    have hlen : exTTLBusy.length = 20 := rfl
    have hk1 : b.store.lookup 1#64 = some ttlEntry := by
      have h1 := exTTLBusy_store ⟨20, by omega⟩
      have : exTTLBusy.take 20 = exTTLBusy := by rw [← hlen]; exact List.take_length
      simp only [this, hfull] at h1
      simpa using h1
    have hidle : ∀ t, t ≠ 1 → b.cl t = .idle := by
      intro t e1
      by_cases e0 : t = 0
      · subst e0; exact hc0
      · exact unspawned_idle (s0 := init exCfg1 0) rfl
          (not_spawn_of_spawnsOnly (ts := [0, 1]) (by decide) (by simp [e0, e1])) hfull
    have hb : BusyPI 0 b :=
      ⟨⟨hclosed, List.length_eq_zero_iff.mp hq, hk1, hk5, hidle, hclk⟩, hc1, hbuf, appIsIdle_eq happ⟩
    obtain ⟨e, he0, hpi⟩ := exec_of_cycle 9 busyActs BusyPI b hr hb
      (fun p s hp _ h => busy_step p s hp h) (by decide) busyActs_noClose
    have hweak : WeakFair e := by
      intro a i
      cases a with
      | client t =>
        by_cases e1 : t = 1
        · subst e1
          obtain ⟨j, hij, hj⟩ := cycle_hits (m := 9) (p := 1) (by decide) i
          exact ⟨j, hij, Or.inr (by rw [(hpi j).2, hj]; rfl)⟩
        · exact ⟨i, Nat.le_refl _, Or.inl (idle_not_enabled ((hpi i).1.1.others t e1))⟩
      | applier =>
        obtain ⟨j, hij, hj⟩ := cycle_hits (m := 9) (p := 6) (by decide) i
        exact ⟨j, hij, Or.inr (by rw [(hpi j).2, hj]; rfl)⟩
    have hsel : SelectFair e := by
      constructor
      · intro i _
        obtain ⟨j, hij, hj⟩ := cycle_hits (m := 9) (p := 6) (by decide) i
        exact ⟨j, hij, by rw [(hpi j).2, hj]; rfl⟩
      · intro t i hr
        obtain ⟨j, _, s', hs⟩ := hr i (Nat.le_refl _)
        obtain ⟨_, h1⟩ := selStop_at_idle (show applierStep exCfg1 (e.st j) (.selStop t) = some s' from hs)
        have hnot : (∀ c, (e.st j).cl t ≠ .clrStop c) ∧ (e.st j).cl t ≠ .clsStop := by
          by_cases e1 : t = 1
          · subst e1
            rw [(hpi j).1.2.1]
            exact ⟨(busyPc_not_stop _).1, (busyPc_not_stop _).2.1⟩
          · rw [(hpi j).1.1.others t e1]; exact ⟨fun c => by simp, by simp⟩
        obtain ⟨_, _, (⟨c, h2, _⟩ | ⟨h2, _⟩)⟩ := selStop_shape h1
        · exact absurd h2 (hnot.1 c)
        · exact absurd h2 hnot.2
    obtain ⟨e', htail, hpre, _⟩ := exec_prepend e exTTLBusy (init exCfg1 0) (.init 0) hnc (by rw [he0]; exact hfull)
    have hst' : ∀ j, 20 ≤ j → e'.st j = e.st (j - 20) := by
      intro j hj
      have := (htail (j - 20)).1
      rwa [hlen, show 20 + (j - 20) = j by omega] at this
    have hact' : ∀ j, 20 ≤ j → e'.act j = busyActs ((j - 20) % 9) := by
      intro j hj
      have := (htail (j - 20)).2
      rw [hlen, show 20 + (j - 20) = j by omega] at this
      rw [this, (hpi _).2]
    have he0' : e'.st 0 = init exCfg1 0 := prepend_start hpre
    have hstore : ∀ j, 9 ≤ j → (e'.st j).store.lookup 1#64 = some ttlEntry := by
      intro j h9
      by_cases hj : j ≤ 20
      · have h1 := exTTLBusy_store ⟨j, by omega⟩
        rw [hpre j (by omega)] at h1
        simpa [h9] using h1
      · rw [hst' j (by omega)]; exact (hpi _).1.1.k1
    have hmid := exTTLBusy_mid
    rw [hpre 10 (by omega), hpre 11 (by omega)] at hmid
    simp only [Option.map_some, Option.some.injEq] at hmid
    obtain ⟨hc10, hc11⟩ := hmid
    have hc40 : ∀ j, 11 ≤ j → (e'.st j).clock = 40000000000 := by
      intro j hj
      by_cases h20 : j ≤ 20
      · have h1 := e'.clock_mono hj
        have h2 := e'.clock_mono h20
        rw [hc11] at h1
        rw [hst' 20 (Nat.le_refl _), (hpi _).1.1.clock] at h2
        exact Int.le_antisymm h2 h1
      · rw [hst' j (by omega)]; exact (hpi _).1.1.clock
    have hsane : ∀ j, TimeOk (e'.st j).clock := by
      intro j
      have h1 := e'.clock_mono (Nat.zero_le j)
      rw [he0'] at h1
      have h2 := e'.clock_mono (Nat.le_max_left j 11)
      rw [hc40 _ (Nat.le_max_right j 11)] at h2
      exact timeOk_small h1 h2
    have hfair : Fair e' := fair_of_tail htail ⟨hweak, hsel⟩
    have hdrain : DrainsEnd e' := by
      intro k u c _
      refine ⟨max k 20, Nat.le_max_left _ _, ?_⟩
      rw [hst' _ (Nat.le_max_right _ _)]
      by_cases e1 : u = 1
      · subst e1; rw [(hpi _).1.2.1]; exact (busyPc_not_stop _).2.2 c
      · rw [(hpi _).1.1.others u e1]; simp
    refine ⟨e', he0', hfair, hdrain, fun htf => ?_, ⟨[], by rw [he0']; rfl⟩, hsane, ?_, hstore, hc40⟩
    · -- the ticker branch is ready again and again, and never taken
      have hready : ReadyInfOften e' (.applier .selTick) 20 := by
        intro k hk
        obtain ⟨j, hkj, hj⟩ := cycle_hits (m := 9) (p := 0) (by decide) (k - 20)
        refine ⟨20 + j, by omega, ?_⟩
        rw [hst' _ (by omega), show 20 + j - 20 = j by omega]
        have := (hpi j).1.2.2.2
        rw [hj] at this
        exact idle_tick_enabled this
      obtain ⟨j, hj, hact⟩ := htf 20 hready
      rw [hact' j hj] at hact
      exact busyActs_ne_selTick _ hact
    · exact ⟨10, by omega, by rw [hc10]; decide, 11, by rw [hc10, hc11]; decide⟩

end RV.Cache
