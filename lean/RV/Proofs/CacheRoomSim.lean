import RV.Proofs.CacheRoomCost
/-!
# C06 (static room bound): the static bound gives room, and room of the weak kind suffices

* `WeakRoomAt s` — what the refinement really needs when the applier offers a new-item to
  `policy.Add`: the item fits (`cost ≤ MaxCost`) and, *if its key is not accounted yet*,
  `used + cost ≤ MaxCost`.  (`RoomAt` asks for `used + cost ≤ MaxCost` also when the key is already
  accounted — then `Add` only re-costs the key and room is irrelevant; under the static bound that
  stronger form can fail, see `RV.C06Room.roomAt_static_counterexample`.)
* `weakRoom_of_static` — in every state of a run in which `MaxCost` is still the configured one and
  `staticSum` of the (later) log is at most `MaxCost`, `WeakRoomAt` holds.  Uses `pol_wf`
  (`used = Σ accounted costs`, `acct_reach`) and `cost_inv` (every accounted / offered cost is the
  effective cost of a logged `Set` of that key).
* `sim_applier_w`, `sim_step_w`, `sim_run_static` — the refinement of `CacheFifoSpecRun` with
  `WeakRoomAt`, and without any room hypothesis under the static bound.
-/
namespace RV.Cache
open Gen.Cache

def WeakRoomAt (s : State) : Prop :=
  ∀ i, s.app = .costed i → i.flag = .new →
    i.cost ≤ s.pol.maxCost ∧ (s.pol.costs.lookup i.key = none → s.pol.used + i.cost ≤ s.pol.maxCost)

theorem RoomAt.weak {s : State} (h : RoomAt s) : WeakRoomAt s :=
  fun i ha hf => ⟨(h i ha hf).1, fun _ => (h i ha hf).2⟩

/-- with room of the weak kind `policy.Add` still has no choice -/
theorem polAdd_wroom {on : Bool} {p : Pol} {m : Met} {k : Hash} {cost : Int} {vs : List (Hash × Int)} {added : Bool}
    {pm : Pol × Met} (h : polAdd on p m k cost vs added = some pm)
    (hfit : cost ≤ p.maxCost) (hroom : p.costs.lookup k = none → p.used + cost ≤ p.maxCost) :
    vs = [] ∧ (p.costs.lookup k = none → added = true ∧ pm.1.costs.lookup k = some cost) ∧
    (∀ c0, p.costs.lookup k = some c0 → added = false) ∧
    pm.1.costs.contains k = true ∧ ∀ h', h' ≠ k → pm.1.costs.contains h' = p.costs.contains h' := by
  cases hl : p.costs.lookup k with
  | none =>
    obtain ⟨h1, h2, h3⟩ := polAdd_room h hfit (hroom hl)
    obtain ⟨h4, h5⟩ := polAdd_room_costs h hfit (hroom hl)
    exact ⟨h1, fun _ => h2 hl, fun c0 hc => (by cases hc), h4, h5⟩
  | some c0 =>
    rcases polAdd_cases h with ⟨hgt, _⟩ | ⟨_, _, hv, ha, rfl⟩ | ⟨_, hn, _⟩ | ⟨_, hn, _⟩ | ⟨_, hn, _⟩
    · omega
    · refine ⟨hv, fun hc => (by cases hc), fun _ _ => ha, ?_, fun h' _ => polUpdate_contains on p m k h' cost⟩
      rw [polUpdate_contains]; simp [AMap.contains, hl]
    · rw [hl] at hn; cases hn
    · rw [hl] at hn; cases hn
    · rw [hl] at hn; cases hn

/-- the applier offers a new-item to `policy.Add`: a stutter of the reference (weak room) -/
theorem sim_applier_costedNew {cfg : Cfg} {t0 : Tid} {s s' : State} {sp : Spec} {ch : Choice} {i : Item}
    (hR : SimR t0 s sp) (hroom : WeakRoomAt s) (hpc : s.app = .costed i) (hflag : i.flag = .new)
    (hs : applierStep cfg s ch = some s') :
    ∃ sp', SpecStep t0 sp [] sp' ∧ SimR t0 s' sp' ∧ obsOf s'.log = obsOf s.log := by
  have hexs : ∀ k, ¬ Exempt s k := not_exempt_of (by simp [hpc]) (by simp [hpc]) (by simp [hpc])
  simp only [applierStep, hpc, apCosted, hflag, apCostedNew] at hs
  split at hs
  · rename_i vs added
    split at hs
    · simp at hs
    · rename_i pm hadd
      simp only [Option.some.injEq] at hs; subst hs
      obtain ⟨hfit, hrm⟩ := hroom i hpc hflag
      obtain ⟨hv, hnone, hsome, hck, hco⟩ := polAdd_wroom hadd hfit hrm
      refine ⟨sp, .stutter sp, ?_, rfl⟩
      refine hR.mk_app (fun t => Or.inl rfl) (fun k => hR.map k) ?_ rfl rfl rfl rfl rfl rfl ?_ ?_ ?_ rfl
      · rw [hR.pend]; symm; exact pendE_congr (by simp [hpc, appElem]) rfl rfl
      · intro k hk
        have hne : k ≠ i.key := fun e => hk ((exempt_added rfl k).mpr e)
        show sp.acct k = pm.1.costs.contains k
        rw [hco k hne]; exact hR.acct k (hexs k)
      · intro i' vs' ok' ha
        simp only [APc.added.injEq] at ha
        obtain ⟨rfl, rfl, rfl⟩ := ha
        refine ⟨hv, ?_, hck⟩
        rw [hR.acct i.key (hexs _)]
        cases hl : s.pol.costs.lookup i.key with
        | none => rw [(hnone hl).1]; simp [AMap.contains, hl]
        | some c0 => rw [hsome c0 hl]; simp [AMap.contains, hl]
      · intro now k c e v bs ha; cases ha
  · simp at hs

/-- every applier step is a stutter, an `apply` or an `expire` of the reference — with `WeakRoomAt` -/
theorem sim_applier_w {cfg : Cfg} {t0 : Tid} {s s' : State} {sp : Spec} {ch : Choice}
    (hsu : cfg.shouldUpdate = none) (hr : Reach cfg s) (hR : SimR t0 s sp) (hroom : WeakRoomAt s)
    (hs : applierStep cfg s ch = some s') :
    ∃ sp', SpecStep t0 sp [] sp' ∧ SimR t0 s' sp' ∧ obsOf s'.log = obsOf s.log := by
  by_cases hc : ∃ i, s.app = .costed i ∧ i.flag = .new
  · obtain ⟨i, hpc, hflag⟩ := hc
    exact sim_applier_costedNew hR hroom hpc hflag hs
  · exact sim_applier hsu hr hR (fun i ha hf => absurd ⟨i, ha, hf⟩ hc) hs

theorem sim_step_w {cfg : Cfg} {t0 : Tid} {s s' : State} {sp : Spec} {a : Action}
    (hsu : cfg.shouldUpdate = none) (hr : Reach cfg s) (hR : SimR t0 s sp) (hroom : WeakRoomAt s)
    (hact : ActOk t0 a) (hs : step cfg s a = some s') :
    ∃ sp' evs, SpecStep t0 sp evs sp' ∧ SimR t0 s' sp' ∧ obsOf s'.log = evs ++ obsOf s.log := by
  cases a with
  | spawn t c =>
    obtain ⟨rfl, hc⟩ := hact
    obtain ⟨sp', evs, hidle, hcall, hR', hobs⟩ := sim_spawn hR (show spawnStep s t c = some s' from hs) hc
    exact ⟨sp', evs, .call sp sp' c evs hidle hcall, hR', hobs⟩
  | client t ch =>
    have ht : t = t0 := hact
    subst ht
    obtain ⟨enq, sp', evs, hcl, hR', hobs⟩ := sim_client hsu hr hR (show clientStep cfg s t ch = some s' from hs)
    exact ⟨sp', evs, .client sp sp' enq evs hcl, hR', hobs⟩
  | applier ch =>
    obtain ⟨sp', hst, hR', hobs⟩ := sim_applier_w hsu hr hR hroom (show applierStep cfg s ch = some s' from hs)
    exact ⟨sp', [], hst, hR', by simpa using hobs⟩
  | done t =>
    exfalso
    have hs' : doneStep s t = some s' := hs
    unfold doneStep at hs'
    by_cases ht : t = t0
    · subst ht
      have := hR.callPc
      split at hs'
      · rename_i closing _ hpc; rw [hpc] at this; exact callPc_elim this rfl
      · rename_i _ hpc; rw [hpc] at this; exact callPc_elim this rfl
      · simp at hs'
    · have := hR.others t ht
      split at hs' <;> simp_all
  | tick d =>
    simp only [step, Option.some.injEq] at hs; subst hs
    refine ⟨{ sp with clock := sp.clock + d }, [], .tick sp d, ?_, by simp⟩
    exact ⟨hR.map, hR.pend, by show sp.clock + d = s.clock + d; rw [hR.clock], hR.nm, hR.cl, hR.callPc, hR.others, hR.opn,
      hR.acct, hR.added, hR.swd, hR.appOk⟩

/-! ### `MaxCost` stays the configured one along single-client runs of the map interface -/

theorem step_maxCost {cfg : Cfg} {t0 : Tid} {s s' : State} {a : Action}
    (hcp : (s.cl t0).callPc = true) (hoth : ∀ t, t ≠ t0 → s.cl t = .idle)
    (hs : step cfg s a = some s') : s'.pol.maxCost = s.pol.maxCost := by
  cases a with
  | spawn t c => rw [spawnStep_pol s t c hs]
  | done t => rw [doneStep_pol s t hs]
  | tick d => simp only [step, Option.some.injEq] at hs; subst hs; rfl
  | client t ch =>
    have hs' : clientStep cfg s t ch = some s' := hs
    have ht : t = t0 := by
      by_cases e : t = t0
      · exact e
      · exfalso; simp [clientStep, hoth t e] at hs'
    subst ht
    apply clientStep_cases hs' (motive := fun s' => s'.pol.maxCost = s.pol.maxCost)
    case setStart => intros; rw [stSetStart_pol]
    case setUpd => intros; rw [stSetUpd_pol]
    case setExit => intros; rw [stSetExit_pol]
    case setSend => intros; rw [stSetSend_pol]
    case setRetTrue => intros; rw [stSetRetTrue_pol]
    case setRetDrop => intros; rw [stSetRetDrop_pol]
    case delStart => intros; rw [stDelStart_pol]
    case delExit => intros; rw [stDelExit_pol]
    case delSend => intros; rw [stDelSend_pol]
    case delSent => intros; rw [stDelSent_pol]
    case waitStart => intros; rw [stWaitStart_pol]
    case waitSend => intros; rw [stWaitSend_pol]
    case waitRecv => intro id _ _ hr; rw [stWaitRecv_pol s t id hr]
    case waitDone => intros; rw [stWaitDone_pol]
    case getStart => intro h c _ hr; rw [(stGetStart_q hr).2.2.2.2.2.2.1]
    case getRead => intros; rw [stGetRead_pol]
    case getCheck => intros; rw [stGetCheck_pol]
    case getMetric => intros; rw [stGetMetric_pol]
    case ttlRead => intros; rw [stTtlRead_pol]
    case ttlCheck => intros; rw [stTtlCheck_pol]
    case ttlExp => intros; rw [stTtlExp_pol]
    case ttlNow => intros; rw [stTtlNow_pol]
    case ttlUntil => intros; rw [stTtlUntil_pol]
    all_goals (intros; rename_i hpc _; rw [hpc] at hcp; exact callPc_elim hcp rfl)
  | applier ch =>
    have hs' : applierStep cfg s ch = some s' := hs
    apply applierStep_cases hs' (motive := fun s' => s'.pol.maxCost = s.pol.maxCost)
    case idle =>
      intro _ hr
      rcases apIdle_cases hr with ⟨id, s1, _, hrecv, rfl⟩ | ⟨i, s1, _, hrecv, rfl⟩ | ⟨_, rfl⟩ | ⟨t, _, hstop⟩
      · show s1.pol.maxCost = _; rw [recvBuf_pol hrecv]
      · show s1.pol.maxCost = _; rw [recvBuf_pol hrecv]
      · rfl
      · rw [apSelStop_pol s t hstop]
    case marker => intros; rfl
    case item => intros; rfl
    case costed =>
      intro i _ hr
      rcases apCosted_cases hr with ⟨victims, added, pm, _, _, hp, rfl⟩ | ⟨_, _, rfl⟩ | ⟨_, _, rfl⟩
      · exact polAdd_maxCost hp
      · exact polUpdate_maxCost ..
      · exact polDel_maxCost ..
    case added => intros; rw [apAdded_pol]
    case victims => intro vs _ _ hr; rw [apVictims_pol s vs hr]
    case victimEvict => intros; rfl
    case tombPolicy => intros; rfl
    case tombStore => intros; rfl
    case tick => intros; rfl
    case sweep => intro now bs _ hr; rw [apSweep_pol s now bs ch hr]
    case swKey => intros; rw [apSwKey_pol]
    case swStoreDel => intros; exact polDel_maxCost ..
    case swPolDel => intros; rfl

/-! ### the static bound gives (weak) room -/

/-- If `MaxCost` is the configured one in `s1` and the Σ over the distinct keys of the largest
effective cost given to the key — taken over any *later* log `evs ++ s1.log` — is at most the
configured `MaxCost`, then whatever new-item the applier offers to `policy.Add` in `s1` fits, and
fits next to everything that is accounted if its key is not accounted yet. -/
theorem weakRoom_of_static {cfg : Cfg} {s1 : State} {evs : List Ev} (hr : Reach cfg s1)
    (hmax : s1.pol.maxCost = cfg.maxCost) (hsum : staticSum cfg (evs ++ s1.log) ≤ cfg.maxCost) :
    WeakRoomAt s1 := by
  intro i ha hf
  have hci := cost_inv hr
  have hwf := (acct_reach hr).wf
  have hi : Eff cfg (evs ++ s1.log) i.key i.cost := by
    have := hci.app; rw [ha] at this
    exact (this (by rw [hf]; simp)).mono evs
  obtain ⟨hi1, hi2⟩ := hi.le_keyMax
  have hacc : ∀ k c, s1.pol.costs.lookup k = some c → c ≤ keyMax cfg (evs ++ s1.log) k ∧ k ∈ setKeys (evs ++ s1.log) :=
    fun k c hk => ((hci.pol k c hk).mono evs).le_keyMax
  rw [hmax]
  constructor
  · have := sum_le_staticSum cfg (evs ++ s1.log) [i.key] (by simp) (by simpa using hi2)
    simp only [List.map_cons, List.map_nil, List.sum_cons, List.sum_nil] at this
    omega
  · intro hnone
    have h1 : s1.pol.costs.sum ≤ (s1.pol.costs.keys.map (keyMax cfg (evs ++ s1.log))).sum :=
      amap_sum_le _ _ hwf.nodup (fun k c hk => (hacc k c hk).1)
    have hnk : i.key ∉ s1.pol.costs.keys := fun hm => by
      have := AMap.lookup_isSome_of_mem_keys hm; rw [hnone] at this; cases this
    have h2 := sum_le_staticSum cfg (evs ++ s1.log) (i.key :: s1.pol.costs.keys)
      (List.nodup_cons.mpr ⟨hnk, hwf.nodup⟩) (by
        intro k hk
        rcases List.mem_cons.mp hk with e | e
        · rw [e]; exact hi2
        · have := AMap.lookup_isSome_of_mem_keys e
          cases hl : s1.pol.costs.lookup k with
          | none => rw [hl] at this; cases this
          | some c => exact (hacc k c hl).2)
    simp only [List.map_cons, List.sum_cons] at h2
    rw [hwf.sum]
    omega

/-- **Refinement under the static bound.**  As `sim_run`, without any room hypothesis: it is enough
that the Σ over the distinct keys `Set` so far of the largest effective cost ever given to the key
(`staticSum`, over the final log — the sum only grows along the run) is at most the configured
`MaxCost`.  `MaxCost` stays the configured one because `ActOk` admits no `UpdateMaxCost`. -/
theorem sim_run_static {cfg : Cfg} {t0 : Tid} {now : Time} {s : State} {acts : List Action}
    (hsu : cfg.shouldUpdate = none) (hacts : ∀ a ∈ acts, ActOk t0 a)
    (hr : run cfg (init cfg now) acts = some s) (hsum : staticSum cfg s.log ≤ cfg.maxCost) :
    (∃ sp, SpecRun t0 (Spec.init now) (obsOf s.log) sp ∧ SimR t0 s sp) ∧ s.pol.maxCost = cfg.maxCost := by
  refine run_induction_mid
    (P := fun s => (∃ sp, SpecRun t0 (Spec.init now) (obsOf s.log) sp ∧ SimR t0 s sp) ∧ s.pol.maxCost = cfg.maxCost)
    (Reach.of_init cfg now) ⟨⟨Spec.init now, .nil _, simR_init cfg t0 now⟩, rfl⟩ ?_ hr
  intro pre a rest s1 s2 hsplit hpre hrs ⟨⟨sp, hrun, hR⟩, hmax⟩ hs hrest
  obtain ⟨n1, hn1⟩ := run_log hrest
  obtain ⟨e1, he1, _⟩ := step_log hs
  have hroom : WeakRoomAt s1 :=
    weakRoom_of_static (evs := n1 ++ e1) hrs hmax (by rw [List.append_assoc, ← he1, ← hn1]; exact hsum)
  obtain ⟨sp', evs, hst, hR', hobs⟩ := sim_step_w hsu hrs hR hroom (hacts a (by rw [hsplit]; simp)) hs
  exact ⟨⟨sp', by rw [hobs]; exact .snoc _ sp sp' _ evs hrun hst, hR'⟩,
    by rw [step_maxCost hR.callPc hR.others hs]; exact hmax⟩

end RV.Cache
