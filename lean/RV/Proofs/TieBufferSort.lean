import RV.Proofs.TieBufferRead
import RV.Proofs.BufferSortTop
/-!
The sorter (`rawSlice`, `sortHelper.merge`, `sortHelper.sort`, …): the generated functions compute
the same slice-level result as the model, on buffers whose sorted range is a sequence of encoded
slices (the precondition of C11's sort theorems).  Route: the model's specification theorems
(`merge_enc`, `sortRec_spec`, … in `RV/Proofs/BufferSort*.lean`) say what the model computes; here
the same is shown for the generated code, on the flat array.
-/
namespace RV.TieBuffer
open Gen.Buf Gen.BufferM RV.Buffer Gen.Buffer

/-- a window that lies inside its memory object -/
def WinOk (a : Array (BitVec 8)) (win : Win) : Prop := win.lo ≤ win.hi ∧ win.hi ≤ a.size

theorem bytesOf_length (a : Array (BitVec 8)) (win : Win) (h : WinOk a win) :
    (bytesOf a win).toList.length = win.hi - win.lo := by
  rw [bytesOf_toList]; simp only [List.length_take, List.length_drop, Array.length_toList]
  have := h.1; have := h.2; omega

/-- `rawSlice(x)` on the visible bytes of a window: whenever the model's `rawSlice` succeeds the
generated one returns the prefix window of the same length. -/
theorem rawSlice_agree (a : Array (BitVec 8)) (win : Win) (hw : WinOk a win) (hsz : a.size < 2 ^ 62) (r : Bytes)
    (hm : RV.Buffer.rawSlice (bytesOf a win).toList = .ok r) :
    Gen.BufferM.rawSlice a win = some ⟨win.lo, win.lo + r.length⟩ ∧
      (bytesOf a ⟨win.lo, win.lo + r.length⟩).toList = r ∧ win.lo + r.length ≤ win.hi := by
  obtain ⟨h1, h2⟩ := hw
  have hlen := bytesOf_length a win ⟨h1, h2⟩
  unfold RV.Buffer.rawSlice at hm
  unfold rawSliceLen at hm
  simp only [lenGe_eq, hlen, k_rawSliceBigEndian] at hm
  by_cases c1 : 8 ≤ win.hi - win.lo
  · simp only [c1, decide_true, Bool.not_true, Bool.false_eq_true, if_false] at hm
    have hget : getU64be a win = some (getU64 true (bytesOf a win).toList) := by
      unfold getU64be
      rw [if_pos ⟨by omega, h2⟩]
      have hpre : (a.extract win.lo (win.lo + 8)).toList = List.take 8 (bytesOf a win).toList := by
        rw [extract_toList, bytesOf_toList, List.take_take, Nat.add_sub_cancel_left, Nat.min_eq_left c1]
      simp only [getU64, if_true, hpre]
      rfl
    unfold Gen.BufferM.rawSlice
    simp only [hget, Option.bind_some]
    generalize getU64 true (bytesOf a win).toList = sz at hm ⊢
    split at hm
    · rename_i c2
      simp only [decide_eq_true_eq] at c2
      simp only [Except.ok.injEq] at hm
      have hr : r.length = (8#64 + sz).toNat := by
        rw [← hm, List.length_take, hlen]; omega
      have hsl : Gen.Buf.slice a.size win 0#64 (8#64 + sz) = some ⟨win.lo, win.lo + (8#64 + sz).toNat⟩ := by
        unfold Gen.Buf.slice
        rw [toInt_small (8#64 + sz) (by omega)]
        have z : (0#64).toInt = 0 := rfl
        rw [z, if_pos ⟨Int.le_refl 0, by omega, by omega⟩]
        simp
      rw [hsl, hr]
      refine ⟨rfl, ?_, by omega⟩
      rw [← hm, bytesOf_toList, bytesOf_toList]
      simp only [Nat.add_sub_cancel_left, List.take_take]
      congr 1; omega
    · exact absurd hm (by simp)
  · simp only [c1, decide_false, Bool.not_false, if_true] at hm
    exact absurd hm (by simp)


/-! ## windows, copies -/

theorem len_win (a b : Nat) : Win.len ⟨a, b⟩ = w (b - a) := rfl

theorem len_beq_zero (win : Win) (h : win.hi - win.lo < 2 ^ 64) :
    (Win.len win == 0#64) = decide (win.hi - win.lo = 0) := by
  unfold Win.len
  exact w_beq (win.hi - win.lo) 0 h (by omega)

/-- `x[lo:hi]` for a window `x` -/
theorem slice_win (size : Nat) (win : Win) (lo hi : Nat) (h1 : lo ≤ hi) (h2 : win.lo + hi ≤ size) (h3 : hi < 2 ^ 63) :
    Gen.Buf.slice size win (w lo) (w hi) = some ⟨win.lo + lo, win.lo + hi⟩ := by
  unfold Gen.Buf.slice
  rw [toInt_w lo (by omega), toInt_w hi h3, toNat_w lo (by omega), toNat_w hi (by omega)]
  rw [if_pos ⟨by omega, by omega, h2⟩]

/-- `copy(dst[p:e], src[lo:lo+k])` when the source is the shorter one -/
theorem copy_into (dst src : Array (BitVec 8)) (p e lo k : Nat) (h : k ≤ e - p) :
    copy dst ⟨p, e⟩ src ⟨lo, lo + k⟩ = (blit dst p (src.extract lo (lo + k)), w k) := by
  unfold copy
  simp only [Nat.add_sub_cancel_left]
  rw [Nat.min_eq_right h]
  rfl

theorem blit_extract_toList (dst src : Array (BitVec 8)) (p lo k : Nat) (h1 : p + k ≤ dst.size) (h2 : lo + k ≤ src.size) :
    (blit dst p (src.extract lo (lo + k))).toList =
      dst.toList.take p ++ (src.toList.drop lo).take k ++ dst.toList.drop (p + k) := by
  have hs : (src.extract lo (lo + k)).size = k := by simp; omega
  rw [blit_toList _ _ _ (by rw [hs]; exact h1), hs, extract_toList, Nat.add_sub_cancel_left]

theorem guard_w_self (k : Nat) : Gen.Buf.guard (w k == w k) = some () := by
  unfold Gen.Buf.guard; simp

/-! ## one round of the merge loop -/

/-- `s` with new contents of `s.b.buf` -/
def setBuf (s : sortHelper) (a : Array (BitVec 8)) : sortHelper := { s with b := { s.b with buf := a } }

abbrev MSt := sortHelper × Win × Win × BitVec 64 × Win × Win

theorem body_leftEmpty (s : sortHelper) (ll rp e start : Nat) (ls rs : Win)
    (h1 : start ≤ rp) (h2 : rp ≤ e) (h3 : e ≤ s.b.buf.size) (h4 : s.b.buf.size < 2 ^ 62) :
    merge_loop1 (w e) (s, ⟨ll, ll⟩, ⟨rp, e⟩, w start, ls, rs) =
      some (LoopOut.ret (setBuf s (blit s.b.buf start (s.b.buf.extract rp (rp + (e - rp)))))) := by
  unfold merge_loop1
  have hz : (Win.len ⟨ll, ll⟩ == 0#64) = true := by
    rw [len_beq_zero _ (by simp)]; simp
  have hsl : Gen.Buf.slice s.b.buf.size (Win.full s.b.buf.size) (w start) (w e) = some ⟨start, e⟩ := by
    have := slice_win s.b.buf.size (Win.full s.b.buf.size) start e (by omega) (by simpa [Win.full] using h3) (by omega)
    simpa [Win.full] using this
  have hrw : (⟨rp, e⟩ : Win) = ⟨rp, rp + (e - rp)⟩ := by congr 1; omega
  simp only [hz, if_true, hsl, Option.bind_some]
  rw [hrw, copy_into _ _ _ _ _ _ (by omega)]
  simp only [len_win, Nat.add_sub_cancel_left, guard_w_self, Option.bind_some]
  rfl

theorem body_rightEmpty (s : sortHelper) (ll lh e start : Nat) (ls rs : Win)
    (h0 : ll < lh) (h1 : lh - ll ≤ e - start) (h3 : e ≤ s.b.buf.size) (h4 : s.b.buf.size < 2 ^ 62) (h5 : lh < 2 ^ 62) :
    merge_loop1 (w e) (s, ⟨ll, lh⟩, ⟨e, e⟩, w start, ls, rs) =
      some (LoopOut.ret (setBuf s (blit s.b.buf start (s.tmp.buf.extract ll (ll + (lh - ll)))))) := by
  unfold merge_loop1
  have hz : (Win.len ⟨ll, lh⟩ == 0#64) = false := by
    rw [len_beq_zero _ (by simp; omega)]; simp; omega
  have hz2 : (Win.len ⟨e, e⟩ == 0#64) = true := by
    rw [len_beq_zero _ (by simp)]; simp
  have hsl : Gen.Buf.slice s.b.buf.size (Win.full s.b.buf.size) (w start) (w e) = some ⟨start, e⟩ := by
    have := slice_win s.b.buf.size (Win.full s.b.buf.size) start e (by omega) (by simpa [Win.full] using h3) (by omega)
    simpa [Win.full] using this
  have hrw : (⟨ll, lh⟩ : Win) = ⟨ll, ll + (lh - ll)⟩ := by congr 1; omega
  simp only [hz, hz2, Bool.false_eq_true, if_false, if_true, hsl, Option.bind_some]
  rw [hrw, copy_into _ _ _ _ _ _ h1]
  simp only [len_win, Nat.add_sub_cancel_left, guard_w_self, Option.bind_some]
  rfl

theorem body_copy (s : sortHelper) (ll lh rp e start kl kr : Nat) (ls rs : Win)
    (h0 : ll < lh) (h0' : rp < e)
    (hraw1 : Gen.BufferM.rawSlice s.tmp.buf ⟨ll, lh⟩ = some ⟨ll, ll + kl⟩)
    (hraw2 : Gen.BufferM.rawSlice s.b.buf ⟨rp, e⟩ = some ⟨rp, rp + kr⟩)
    (hkl : 8 ≤ kl) (hkl2 : ll + kl ≤ lh) (hkr : 8 ≤ kr) (hkr2 : rp + kr ≤ e)
    (hlh : lh ≤ s.tmp.buf.size) (he : e ≤ s.b.buf.size)
    (hts : s.tmp.buf.size < 2 ^ 62) (hbs : s.b.buf.size < 2 ^ 62)
    (hst1 : start + kl ≤ s.b.buf.size) (hst2 : start + kr ≤ s.b.buf.size) :
    merge_loop1 (w e) (s, ⟨ll, lh⟩, ⟨rp, e⟩, w start, ls, rs) =
      if s.less (bytesOf s.tmp.buf ⟨ll + 8, ll + kl⟩) (bytesOf s.b.buf ⟨rp + 8, rp + kr⟩) then
        some (LoopOut.next (setBuf s (blit s.b.buf start (s.tmp.buf.extract ll (ll + kl))),
          ⟨ll + kl, lh⟩, ⟨rp, e⟩, w (start + kl), ⟨ll, ll + kl⟩, ⟨rp, rp + kr⟩))
      else
        some (LoopOut.next (setBuf s (blit s.b.buf start (s.b.buf.extract rp (rp + kr))),
          ⟨ll, lh⟩, ⟨rp + kr, e⟩, w (start + kr), ⟨ll, ll + kl⟩, ⟨rp, rp + kr⟩)) := by
  unfold merge_loop1
  have hz : (w (lh - ll) == 0#64) = false := by
    rw [show (0#64) = w 0 from rfl, w_beq _ _ (by omega) (by omega)]; simp; omega
  have hz2 : (w (e - rp) == 0#64) = false := by
    rw [show (0#64) = w 0 from rfl, w_beq _ _ (by omega) (by omega)]; simp; omega
  have e8 : (8#64) = w 8 := rfl
  have hs27 : Gen.Buf.slice s.tmp.buf.size ⟨ll, ll + kl⟩ (w 8) (w kl) = some ⟨ll + 8, ll + kl⟩ :=
    slice_win s.tmp.buf.size ⟨ll, ll + kl⟩ 8 kl hkl (by show ll + kl ≤ _; omega) (by omega)
  have hs28 : Gen.Buf.slice s.b.buf.size ⟨rp, rp + kr⟩ (w 8) (w kr) = some ⟨rp + 8, rp + kr⟩ :=
    slice_win s.b.buf.size ⟨rp, rp + kr⟩ 8 kr hkr (by show rp + kr ≤ _; omega) (by omega)
  have hs29 : Gen.Buf.slice s.b.buf.size (Win.full s.b.buf.size) (w start) (BitVec.ofNat 64 s.b.buf.size) =
      some ⟨start, s.b.buf.size⟩ := by
    have := slice_win s.b.buf.size (Win.full s.b.buf.size) start s.b.buf.size (by omega) (by simp [Win.full]) (by omega)
    simpa [Win.full, w] using this
  have hs34 : Gen.Buf.slice s.tmp.buf.size ⟨ll, lh⟩ (w kl) (w (lh - ll)) = some ⟨ll + kl, lh⟩ := by
    have := slice_win s.tmp.buf.size ⟨ll, lh⟩ kl (lh - ll) (by omega) (by show ll + (lh - ll) ≤ _; omega) (by omega)
    rw [this]; congr 2; show ll + (lh - ll) = lh; omega
  have hs41 : Gen.Buf.slice s.b.buf.size ⟨rp, e⟩ (w kr) (w (e - rp)) = some ⟨rp + kr, e⟩ := by
    have := slice_win s.b.buf.size ⟨rp, e⟩ kr (e - rp) (by omega) (by show rp + (e - rp) ≤ _; omega) (by omega)
    rw [this]; congr 2; show rp + (e - rp) = e; omega
  simp only [len_win, Nat.add_sub_cancel_left, hz, hz2, Bool.false_eq_true, if_false, hraw1, hraw2, Option.bind_some,
    e8, hs27, hs28]
  by_cases hl : s.less (bytesOf s.tmp.buf ⟨ll + 8, ll + kl⟩) (bytesOf s.b.buf ⟨rp + 8, rp + kr⟩) = true
  · simp only [hl, if_true, hs29, Option.bind_some]
    rw [copy_into _ _ _ _ _ _ (by omega)]
    simp only [guard_w_self, Option.bind_some, hs34, w_add, setBuf]
  · have hl' : s.less (bytesOf s.tmp.buf ⟨ll + 8, ll + kl⟩) (bytesOf s.b.buf ⟨rp + 8, rp + kr⟩) = false := by
      simpa using hl
    simp only [hl', Bool.false_eq_true, if_false, hs29, Option.bind_some]
    rw [copy_into _ _ _ _ _ _ (by omega)]
    simp only [guard_w_self, Option.bind_some, blit_size, hs41, w_add, setBuf]

end RV.TieBuffer
