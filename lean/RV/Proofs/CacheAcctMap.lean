import RV.Data.AMap
/-!
# Sums and sizes of association maps (used by the capacity-accounting proofs, C03/C13/C17)

`AMap.sum m` is the sum of the values of an `AMap κ Int`, `AMap.size m` its number of
bindings.  For maps with duplicate-free key lists both behave like the sum / cardinality of
a finite function under `insert` and `erase`.
-/
namespace RV.AMap
variable {κ ν : Type} [DecidableEq κ]

/-- sum of all bound values -/
def sum : AMap κ Int → Int
  | [] => 0
  | (_, v) :: rest => v + sum rest

/-- every bound value is non-negative -/
def Nonneg (m : AMap κ Int) : Prop := ∀ p ∈ m.toList, 0 ≤ p.2

omit [DecidableEq κ] in
@[simp] theorem sum_empty : sum (empty : AMap κ Int) = 0 := rfl
omit [DecidableEq κ] in
@[simp] theorem size_empty : size (empty : AMap κ ν) = 0 := rfl
omit [DecidableEq κ] in
theorem nonneg_empty : Nonneg (empty : AMap κ Int) := by intro p hp; cases hp

omit [DecidableEq κ] in
theorem sum_cons (k : κ) (v : Int) (rest : AMap κ Int) : sum ((k, v) :: rest : AMap κ Int) = v + sum rest := rfl

theorem erase_cons (k' : κ) (v : ν) (rest : AMap κ ν) (k : κ) :
    erase ((k', v) :: rest : AMap κ ν) k = if k' = k then erase rest k else (k', v) :: erase rest k := rfl

theorem lookup_cons (k' : κ) (v : ν) (rest : AMap κ ν) (k : κ) :
    lookup ((k', v) :: rest : AMap κ ν) k = if k' = k then some v else lookup rest k := rfl

theorem lookup_none_of_not_mem_keys {m : AMap κ ν} {k : κ} (h : k ∉ keys m) : lookup m k = none := by
  cases hl : lookup m k with
  | none => rfl
  | some v => exact absurd (mem_keys_of_lookup hl) h

/-- erasing an unbound key changes nothing -/
theorem erase_of_lookup_none {m : AMap κ ν} {k : κ} (h : lookup m k = none) : erase m k = m := by
  induction m with
  | nil => rfl
  | cons p rest ih =>
    obtain ⟨k', v⟩ := p
    by_cases hk : k' = k
    · simp [lookup, hk] at h
    · simp only [lookup, hk, ↓reduceIte] at h
      simp only [erase, hk, ↓reduceIte]; exact congrArg _ (ih h)

theorem mem_of_lookup {m : AMap κ ν} {k : κ} {v : ν} (h : lookup m k = some v) : (k, v) ∈ m.toList := by
  induction m with
  | nil => simp [lookup] at h
  | cons p rest ih =>
    obtain ⟨k', v'⟩ := p
    by_cases hk : k' = k
    · simp only [lookup, hk, ↓reduceIte, Option.some.injEq] at h
      subst hk; subst h; exact List.mem_cons_self
    · simp only [lookup, hk, ↓reduceIte] at h
      exact List.mem_cons_of_mem _ (ih h)

theorem mem_erase {m : AMap κ ν} {k : κ} {p : κ × ν} (h : p ∈ (erase m k).toList) : p ∈ m.toList := by
  induction m with
  | nil => exact h
  | cons q rest ih =>
    obtain ⟨k', v'⟩ := q
    by_cases hk : k' = k
    · simp only [erase, hk, ↓reduceIte] at h; exact List.mem_cons_of_mem _ (ih h)
    · simp only [erase, hk, ↓reduceIte] at h
      rcases List.mem_cons.mp h with h | h
      · rw [h]; exact List.mem_cons_self
      · exact List.mem_cons_of_mem _ (ih h)

theorem sum_erase {m : AMap κ Int} {k : κ} {c : Int} (hn : NodupKeys m) (h : lookup m k = some c) :
    sum (erase m k) = sum m - c := by
  induction m with
  | nil => simp [lookup] at h
  | cons p rest ih =>
    obtain ⟨k', v⟩ := p
    have hc : k' ∉ keys rest ∧ (keys rest).Nodup := by simpa [NodupKeys, keys] using hn
    by_cases hk : k' = k
    · simp only [lookup, hk, ↓reduceIte, Option.some.injEq] at h
      subst h
      have hnone : lookup rest k = none := lookup_none_of_not_mem_keys (hk ▸ hc.1)
      simp only [erase, hk, ↓reduceIte, erase_of_lookup_none hnone, sum]; omega
    · simp only [lookup, hk, ↓reduceIte] at h
      simp only [erase, hk, ↓reduceIte, sum, ih hc.2 h]; omega

theorem size_erase {m : AMap κ ν} {k : κ} {c : ν} (hn : NodupKeys m) (h : lookup m k = some c) :
    size (erase m k) + 1 = size m := by
  induction m with
  | nil => simp [lookup] at h
  | cons p rest ih =>
    obtain ⟨k', v⟩ := p
    have hc : k' ∉ keys rest ∧ (keys rest).Nodup := by simpa [NodupKeys, keys] using hn
    by_cases hk : k' = k
    · have hnone : lookup rest k = none := lookup_none_of_not_mem_keys (hk ▸ hc.1)
      simp only [erase, hk, ↓reduceIte, erase_of_lookup_none hnone]; rfl
    · simp only [lookup, hk, ↓reduceIte] at h
      have := ih hc.2 h
      simp only [erase, hk, ↓reduceIte]
      show (erase rest k).length + 1 + 1 = rest.length + 1
      have : (erase rest k).length + 1 = rest.length := this
      omega

theorem sum_insert_new {m : AMap κ Int} {k : κ} (c : Int) (h : lookup m k = none) :
    sum (insert m k c) = sum m + c := by
  unfold insert; rw [sum_cons, erase_of_lookup_none h]; omega

theorem sum_insert_old {m : AMap κ Int} {k : κ} {prev : Int} (c : Int) (hn : NodupKeys m)
    (h : lookup m k = some prev) : sum (insert m k c) = sum m + (c - prev) := by
  unfold insert; rw [sum_cons, sum_erase hn h]; omega

theorem size_insert_new {m : AMap κ ν} {k : κ} (c : ν) (h : lookup m k = none) :
    size (insert m k c) = size m + 1 := by
  unfold insert; rw [erase_of_lookup_none h]; rfl

theorem size_insert_old {m : AMap κ ν} {k : κ} {prev : ν} (c : ν) (hn : NodupKeys m)
    (h : lookup m k = some prev) : size (insert m k c) = size m := by
  have := size_erase hn h
  show (erase m k).length + 1 = m.length
  exact this

theorem nonneg_erase {m : AMap κ Int} (h : Nonneg m) (k : κ) : Nonneg (erase m k) :=
  fun p hp => h p (mem_erase hp)

theorem nonneg_insert {m : AMap κ Int} (h : Nonneg m) (k : κ) {c : Int} (hc : 0 ≤ c) : Nonneg (insert m k c) := by
  intro p hp
  rcases List.mem_cons.mp hp with hp | hp
  · rw [hp]; exact hc
  · exact h p (mem_erase hp)

theorem nonneg_lookup {m : AMap κ Int} (h : Nonneg m) {k : κ} {c : Int} (hl : lookup m k = some c) : 0 ≤ c :=
  h _ (mem_of_lookup hl)

omit [DecidableEq κ] in
theorem sum_nonneg {m : AMap κ Int} (h : Nonneg m) : 0 ≤ sum m := by
  induction m with
  | nil => exact Int.le_refl 0
  | cons p rest ih =>
    obtain ⟨k, v⟩ := p
    have h1 : 0 ≤ v := h (k, v) List.mem_cons_self
    have h2 : 0 ≤ sum rest := ih (fun q hq => h q (List.mem_cons_of_mem _ hq))
    show 0 ≤ v + sum rest
    omega

omit [DecidableEq κ] in
theorem size_eq_zero {m : AMap κ ν} (h : size m = 0) : m = empty := by
  cases m with
  | nil => rfl
  | cons p rest => simp [size] at h

theorem eq_empty_of_lookup_none {m : AMap κ ν} (h : ∀ k, lookup m k = none) : m = empty := by
  cases m with
  | nil => rfl
  | cons p rest =>
    obtain ⟨k, v⟩ := p
    have := h k
    simp [lookup] at this

end RV.AMap
