import RV.Model.Policy
/-!
Lemmas about the association-list representation of `keyCosts`
(`lookup`, `erase`, `insert`, `keys`, `costSum`) and the magnitude `absSum` used by the
no-overflow hypothesis.
-/
namespace RV.Policy

theorem absSum_nonneg (kcs : List KC) : 0 ≤ absSum kcs := by
  induction kcs with
  | nil => simp [absSum]
  | cons kc rest ih => simp only [absSum]; omega

theorem costSum_le_absSum (kcs : List KC) : costSum kcs ≤ absSum kcs ∧ -absSum kcs ≤ costSum kcs := by
  induction kcs with
  | nil => simp [absSum, costSum]
  | cons kc rest ih => simp only [absSum, costSum]; omega

theorem mem_keys {kcs : List KC} {k : Hash} : k ∈ keys kcs ↔ ∃ c, (k, c) ∈ kcs := by
  unfold keys
  constructor
  · intro h
    obtain ⟨x, hx, rfl⟩ := List.mem_map.1 h
    exact ⟨x.2, hx⟩
  · rintro ⟨c, hc⟩
    exact List.mem_map.2 ⟨(k, c), hc, rfl⟩

theorem lookup_eq_none {kcs : List KC} {k : Hash} : lookup kcs k = none ↔ k ∉ keys kcs := by
  induction kcs with
  | nil => simp [lookup, keys]
  | cons kc rest ih =>
    simp only [lookup, keys, List.map_cons, List.mem_cons]
    by_cases h : kc.1 = k
    · simp [h]
    · simp only [h, if_false]
      rw [ih]
      constructor
      · intro hn hc
        rcases hc with hc | hc
        · exact h hc.symm
        · exact hn hc
      · intro hn hc
        exact hn (Or.inr hc)

theorem lookup_some_mem {kcs : List KC} {k : Hash} {c : Int} (h : lookup kcs k = some c) : (k, c) ∈ kcs := by
  induction kcs with
  | nil => simp [lookup] at h
  | cons kc rest ih =>
    simp only [lookup] at h
    by_cases hk : kc.1 = k
    · simp only [hk, if_true, Option.some.injEq] at h
      have : kc = (k, c) := by cases kc; simp_all
      rw [this]; exact List.mem_cons_self
    · simp only [hk, if_false] at h
      exact List.mem_cons_of_mem _ (ih h)

theorem lookup_some_mem_keys {kcs : List KC} {k : Hash} {c : Int} (h : lookup kcs k = some c) : k ∈ keys kcs :=
  mem_keys.2 ⟨c, lookup_some_mem h⟩

theorem lookup_of_mem {kcs : List KC} {k : Hash} {c : Int} (hnd : (keys kcs).Nodup) (h : (k, c) ∈ kcs) :
    lookup kcs k = some c := by
  induction kcs with
  | nil => simp at h
  | cons kc rest ih =>
    simp only [keys, List.map_cons, List.nodup_cons] at hnd
    simp only [lookup]
    rcases List.mem_cons.1 h with h | h
    · subst h; simp
    · have hk : k ∈ keys rest := mem_keys.2 ⟨c, h⟩
      have : kc.1 ≠ k := by
        intro e; rw [e] at hnd; exact hnd.1 hk
      simp only [this, if_false]
      exact ih hnd.2 h

theorem mem_erase {kcs : List KC} {k : Hash} {x : KC} : x ∈ erase kcs k ↔ x ∈ kcs ∧ x.1 ≠ k := by
  induction kcs with
  | nil => simp [erase]
  | cons kc rest ih =>
    simp only [erase]
    by_cases h : kc.1 = k
    · simp only [h, if_true, ih, List.mem_cons]
      constructor
      · rintro ⟨h1, h2⟩; exact ⟨Or.inr h1, h2⟩
      · rintro ⟨h1 | h1, h2⟩
        · subst h1; exact absurd h h2
        · exact ⟨h1, h2⟩
    · simp only [h, if_false, List.mem_cons, ih]
      constructor
      · rintro (h1 | ⟨h1, h2⟩)
        · subst h1; exact ⟨Or.inl rfl, h⟩
        · exact ⟨Or.inr h1, h2⟩
      · rintro ⟨h1 | h1, h2⟩
        · exact Or.inl h1
        · exact Or.inr ⟨h1, h2⟩

theorem mem_keys_erase {kcs : List KC} {k k' : Hash} : k' ∈ keys (erase kcs k) ↔ k' ∈ keys kcs ∧ k' ≠ k := by
  rw [mem_keys, mem_keys]
  constructor
  · rintro ⟨c, hc⟩
    have := mem_erase.1 hc
    exact ⟨⟨c, this.1⟩, this.2⟩
  · rintro ⟨⟨c, hc⟩, hne⟩
    exact ⟨c, mem_erase.2 ⟨hc, hne⟩⟩

theorem nodup_keys_erase {kcs : List KC} (k : Hash) (h : (keys kcs).Nodup) : (keys (erase kcs k)).Nodup := by
  induction kcs with
  | nil => simp [erase, keys]
  | cons kc rest ih =>
    simp only [keys, List.map_cons, List.nodup_cons] at h
    simp only [erase]
    by_cases hk : kc.1 = k
    · simp only [hk, if_true]; exact ih h.2
    · simp only [hk, if_false, keys, List.map_cons, List.nodup_cons]
      refine ⟨?_, ih h.2⟩
      intro hm
      exact h.1 (mem_keys_erase.1 hm).1

theorem lookup_erase_self (kcs : List KC) (k : Hash) : lookup (erase kcs k) k = none := by
  rw [lookup_eq_none, mem_keys_erase]; simp

theorem lookup_erase_ne {kcs : List KC} {k k' : Hash} (h : k' ≠ k) : lookup (erase kcs k) k' = lookup kcs k' := by
  induction kcs with
  | nil => simp [erase, lookup]
  | cons kc rest ih =>
    simp only [erase]
    by_cases hk : kc.1 = k
    · simp only [hk, if_true, lookup]
      have : ¬ k = k' := fun e => h e.symm
      simp only [this, if_false]; exact ih
    · simp only [hk, if_false, lookup, ih]

theorem erase_of_lookup_none {kcs : List KC} {k : Hash} (h : lookup kcs k = none) : erase kcs k = kcs := by
  induction kcs with
  | nil => simp [erase]
  | cons kc rest ih =>
    simp only [lookup] at h
    by_cases hk : kc.1 = k
    · simp [hk] at h
    · simp only [hk, if_false] at h
      simp only [erase, hk, if_false, ih h]

theorem costSum_erase {kcs : List KC} {k : Hash} {c : Int} (hnd : (keys kcs).Nodup) (h : lookup kcs k = some c) :
    costSum (erase kcs k) = costSum kcs - c := by
  induction kcs with
  | nil => simp [lookup] at h
  | cons kc rest ih =>
    simp only [keys, List.map_cons, List.nodup_cons] at hnd
    simp only [lookup] at h
    by_cases hk : kc.1 = k
    · simp only [hk, if_true, Option.some.injEq] at h
      have hn : lookup rest k = none := by rw [lookup_eq_none]; rw [← hk]; exact hnd.1
      simp only [erase, hk, if_true, costSum, erase_of_lookup_none hn]
      omega
    · simp only [hk, if_false] at h
      simp only [erase, hk, if_false, costSum, ih hnd.2 h]
      omega

theorem absSum_erase_le' (kcs : List KC) (k : Hash) : absSum (erase kcs k) ≤ absSum kcs := by
  induction kcs with
  | nil => simp [erase]
  | cons kc rest ih =>
    simp only [erase]
    by_cases hk : kc.1 = k
    · simp only [hk, if_true, absSum]; omega
    · simp only [hk, if_false, absSum]; omega

theorem absSum_erase_le {kcs : List KC} {k : Hash} {c : Int} (h : lookup kcs k = some c) :
    absSum (erase kcs k) + (c.natAbs : Int) ≤ absSum kcs := by
  induction kcs with
  | nil => simp [lookup] at h
  | cons kc rest ih =>
    simp only [lookup] at h
    by_cases hk : kc.1 = k
    · simp only [hk, if_true, Option.some.injEq] at h
      simp only [erase, hk, if_true, absSum]
      have h1 := absSum_erase_le' rest k
      rw [h]; omega
    · simp only [hk, if_false] at h
      simp only [erase, hk, if_false, absSum]
      have := ih h; omega

theorem natAbs_le_absSum {kcs : List KC} {x : KC} (h : x ∈ kcs) : (x.2.natAbs : Int) ≤ absSum kcs := by
  induction kcs with
  | nil => simp at h
  | cons kc rest ih =>
    simp only [absSum]
    have := absSum_nonneg rest
    rcases List.mem_cons.1 h with h | h
    · subst h; omega
    · have := ih h; omega

theorem absSum_eq_costSum {kcs : List KC} (h : NonNeg kcs) : absSum kcs = costSum kcs := by
  induction kcs with
  | nil => simp [absSum, costSum]
  | cons kc rest ih =>
    have h1 : 0 ≤ kc.2 := h kc List.mem_cons_self
    have h2 : NonNeg rest := fun x hx => h x (List.mem_cons_of_mem _ hx)
    simp only [absSum, costSum, ih h2]; omega

theorem costSum_nonneg {kcs : List KC} (h : NonNeg kcs) : 0 ≤ costSum kcs := by
  rw [← absSum_eq_costSum h]; exact absSum_nonneg kcs

theorem nonNeg_erase {kcs : List KC} (k : Hash) (h : NonNeg kcs) : NonNeg (erase kcs k) :=
  fun x hx => h x (mem_erase.1 hx).1

/-! ### `insert` -/

theorem nodup_keys_insert {kcs : List KC} (k : Hash) (c : Int) (h : (keys kcs).Nodup) :
    (keys (insert kcs k c)).Nodup := by
  simp only [insert, keys, List.map_cons, List.nodup_cons]
  refine ⟨?_, nodup_keys_erase k h⟩
  intro hm
  exact (mem_keys_erase.1 hm).2 rfl

theorem lookup_insert_self (kcs : List KC) (k : Hash) (c : Int) : lookup (insert kcs k c) k = some c := by
  simp [insert, lookup]

theorem lookup_insert_ne {kcs : List KC} {k k' : Hash} (c : Int) (h : k' ≠ k) :
    lookup (insert kcs k c) k' = lookup kcs k' := by
  have : ¬ k = k' := fun e => h e.symm
  simp only [insert, lookup, this, if_false]
  exact lookup_erase_ne h

theorem insert_of_lookup_none {kcs : List KC} {k : Hash} (c : Int) (h : lookup kcs k = none) :
    insert kcs k c = (k, c) :: kcs := by
  simp only [insert, erase_of_lookup_none h]

end RV.Policy
