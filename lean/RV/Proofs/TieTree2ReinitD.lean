import RV.Proofs.TieTree2ReinitC
/-!
# The tree on flat memory: `Tree.reinit` (generated whole), part D: the marking walk

`ri_mark`: `Iterate` with the callback of `reinit` folds `ri_G` (mark page `p`, add the number of
keys of a leaf page) over `pids root`.
-/
namespace RV.TreeFlat
open RV.Tree RV.NodeFlat Gen.TreeM

/-- the callback `reinit` hands to `Iterate` (the generated text) -/
def ri_cb (maxKeys : BitVec 64) (t_13 : St) (tailPages_14 : Array Bool) (n_15 : NodeRef) : Option (St × Array Bool) :=
  (Gen.TreeM.rdNode t_13 n_15 (fun p => Gen.Node.pageID p maxKeys)).bind fun x_16 =>
  let i_17 : BitVec 64 := (x_16 - 1#64)
  (Gen.wr tailPages_14 i_17 true).bind fun tailPages_18 =>
  (Gen.TreeM.rdNode t_13 n_15 (fun p => Gen.Node.isLeaf p maxKeys)).bind fun x_19 =>
  (if x_19 then
      (Gen.TreeM.rdNode t_13 n_15 (fun p => Gen.Node.numKeys p maxKeys)).bind fun x_20 =>
      let t_21 : St := { t_13 with numLeafKeys := (t_13.numLeafKeys + x_20) }
      some t_21
    else
      some t_13).bind fun t_22 =>
  some (t_22, tailPages_18)

/-- what the callback does on page `p` -/
def ri_G (cfg : Cfg) (d : Words) (s : St × Array Bool) (p : Nat) : St × Array Bool :=
  ((if leafBit cfg.maxKeys (pageOf cfg d p) then
      { s.1 with numLeafKeys := s.1.numLeafKeys + w (nkeys cfg.maxKeys (pageOf cfg d p)) }
    else s.1), s.2.set! (p - 1) true)

theorem ri_cb_step {cfg : Cfg} (hc : CfgFlat cfg) (t : St) (M : Nat) (hM : M < 2 ^ 63) (s : St × Array Bool) (p : Nat)
    (hI : ri_Same t s.1 ∧ s.2.size = M)
    (hP : 1 ≤ p ∧ p ≤ M ∧ (p + 1) * pw cfg ≤ t.data.size ∧ pidW cfg.maxKeys (pageOf cfg t.data p) = w p) :
    ri_cb (w cfg.maxKeys) s.1 s.2 (refOf cfg t p) = some (ri_G cfg t.data s p) ∧
      (ri_Same t (ri_G cfg t.data s p).1 ∧ (ri_G cfg t.data s p).2.size = M) := by
  obtain ⟨s1, tp⟩ := s
  obtain ⟨hsame, hsz⟩ := hI
  obtain ⟨hp1, hpM, hfit, hpid⟩ := hP
  simp only [] at hsame hsz
  have hmk := hc.mkLt
  have hs : (pageOf cfg t.data p).size = 2 * (cfg.maxKeys + 1) := pageOf_size _ _ hfit
  have h64 : (pageOf cfg t.data p).size ≤ 2 ^ 64 := by rw [hs]; omega
  constructor
  · unfold ri_cb ri_G
    simp only []
    rw [ri_rdNode t s1 hsame p hfit, pageID_w hs h64, hpid]
    simp only [Option.bind_some]
    rw [NodeFlat.w_sub_one hp1, ri_wr_w true (by omega) (by omega)]
    simp only [Option.bind_some]
    rw [ri_rdNode t s1 hsame p hfit, isLeaf_w hs h64]
    simp only [Option.bind_some]
    cases hl : leafBit cfg.maxKeys (pageOf cfg t.data p) with
    | true =>
      simp only [if_true]
      rw [ri_rdNode t s1 hsame p hfit, numKeys_w hs h64]
      simp only [Option.bind_some]
    | false =>
      simp only [Bool.false_eq_true, if_false, Option.bind_some]
  · unfold ri_G
    simp only []
    refine ⟨?_, by rw [size_set!]; exact hsz⟩
    cases hl : leafBit cfg.maxKeys (pageOf cfg t.data p) with
    | true => simp only [if_true]; exact hsame
    | false => simp only [Bool.false_eq_true, if_false]; exact hsame

theorem ri_mark {cfg : Cfg} (hc : CfgFlat cfg) (t : St) (hsmall : t.data.size < 2 ^ 40) (M : Nat) (hM : M < 2 ^ 63)
    (root : Node) (hroot : root.pid = 1) (hnn : NoNil root) (hr : TreeFlat.Repr cfg t.data root)
    (fuel : Nat) (hh : height root ≤ fuel)
    (hfit1 : (1 + 1) * pw cfg ≤ t.data.size)
    (hP : ∀ p ∈ pids root, 1 ≤ p ∧ p ≤ M ∧ (p + 1) * pw cfg ≤ t.data.size ∧
      pidW cfg.maxKeys (pageOf cfg t.data p) = w p)
    (s0 : St) (tp0 : Array Bool) (hs0 : ri_Same t s0) (htp0 : tp0.size = M) :
    Iterate (w cfg.pageSize) (w cfg.maxKeys) fuel s0 tp0 (ri_cb (w cfg.maxKeys)) =
        some ((pids root).foldl (ri_G cfg t.data) (s0, tp0)) ∧
      ri_Same t ((pids root).foldl (ri_G cfg t.data) (s0, tp0)).1 ∧
      ((pids root).foldl (ri_G cfg t.data) (s0, tp0)).2.size = M := by
  have hit := ri_iterate hc t hsmall (ri_cb (w cfg.maxKeys)) (ri_G cfg t.data)
    (fun s => ri_Same t s.1 ∧ s.2.size = M)
    (fun p => 1 ≤ p ∧ p ≤ M ∧ (p + 1) * pw cfg ≤ t.data.size ∧ pidW cfg.maxKeys (pageOf cfg t.data p) = w p)
    (fun s h => h.1) (fun s p hI hPp => ri_cb_step hc t M hM s p hI hPp)
    fuel root (s0, tp0) hnn hr hh hP ⟨hs0, htp0⟩
  rw [hroot] at hit
  simp only [] at hit
  unfold Iterate
  rw [show (1#64 : BitVec 64) = w 1 from rfl, ri_node hc t s0 hs0 1 (by omega) hfit1 hsmall]
  simp only [Option.bind_some]
  rw [hit.1]
  simp only [Option.bind_some]
  exact ⟨trivial, hit.2⟩

end RV.TreeFlat
