import RV.Model.Policy
import RV.Proofs.TieLemmas
/-!
The policy model (`RV/Model/Policy.lean`) keeps `keyCosts` as a plain association list with its
own `lookup / erase / insert` and `Int` costs that stand for `int64` words.  `absKC` reads the
generated `map[uint64]int64` (an `AMap (BitVec 64) (BitVec 64)`) as such a list; it commutes with
the three operations.  Core Lean only.
-/
namespace RV.Tie
open RV

/-- the generated `keyCosts` map as the policy model's association list (`int64` words read as `Int`) -/
def absKC (m : AMap (BitVec 64) (BitVec 64)) : List RV.Policy.KC := List.map (fun p => (p.1, p.2.toInt)) m

theorem lookup_absKC (m : AMap (BitVec 64) (BitVec 64)) (k : BitVec 64) :
    RV.Policy.lookup (absKC m) k = (AMap.lookup m k).map BitVec.toInt := by
  induction m with
  | nil => rfl
  | cons p rest ih =>
    obtain ⟨k', v⟩ := p
    have ih' : RV.Policy.lookup (List.map (fun p => (p.1, p.2.toInt)) rest) k = (AMap.lookup rest k).map BitVec.toInt := ih
    by_cases h : k' = k
    · simp [absKC, RV.Policy.lookup, AMap.lookup, h]
    · simp [absKC, RV.Policy.lookup, AMap.lookup, h, ih']

theorem erase_absKC (m : AMap (BitVec 64) (BitVec 64)) (k : BitVec 64) :
    RV.Policy.erase (absKC m) k = absKC (AMap.erase m k) := by
  induction m with
  | nil => rfl
  | cons p rest ih =>
    obtain ⟨k', v⟩ := p
    have ih' : RV.Policy.erase (List.map (fun p => (p.1, p.2.toInt)) rest) k
        = List.map (fun p => (p.1, p.2.toInt)) (AMap.erase rest k) := ih
    by_cases h : k' = k
    · simp [absKC, RV.Policy.erase, AMap.erase, h, ih']
    · simp [absKC, RV.Policy.erase, AMap.erase, h]
      exact congrArg (List.cons (k', v.toInt)) ih'

theorem insert_absKC (m : AMap (BitVec 64) (BitVec 64)) (k c : BitVec 64) :
    RV.Policy.insert (absKC m) k c.toInt = absKC (AMap.insert m k c) := by
  have := erase_absKC m k
  simp only [absKC] at this
  simp [RV.Policy.insert, AMap.insert, absKC]
  exact congrArg (List.cons (k, c.toInt)) this

/-! int64 word facts used for the `costAdd` delta of `updateIfHas` -/

theorem eq_of_not_slt {a b : BitVec 64} (h1 : ¬ a.slt b = true) (h2 : ¬ b.slt a = true) : a = b := by
  apply BitVec.eq_of_toInt_eq
  rw [BitVec.slt_iff_toInt_lt] at h1 h2
  omega

theorem ofInt_toInt_sub (a b : BitVec 64) : BitVec.ofInt 64 (a.toInt - b.toInt) = a - b := by
  apply BitVec.eq_of_toInt_eq
  simp [BitVec.toInt_ofInt, BitVec.toInt_sub]

theorem slt_self_false (a : BitVec 64) : a.slt a = false := by
  simp [BitVec.slt_eq_decide]

theorem slt_trichotomy (a b : BitVec 64) :
    a.slt b = true ∨ (a.slt b = false ∧ b.slt a = true) ∨ a = b := by
  by_cases h1 : a.slt b = true
  · exact Or.inl h1
  · by_cases h2 : b.slt a = true
    · exact Or.inr (Or.inl ⟨by simpa using h1, h2⟩)
    · exact Or.inr (Or.inr (eq_of_not_slt h1 h2))

/-- `^(uint64(prev - cost) - 1)` is the two's-complement word of `cost - prev` -/
theorem not_sub_one (a b : BitVec 64) : ~~~(a - b - 1#64) = b - a := by bv_omega
/-- the same negation spelled `-x` in the source -/
theorem neg_sub_bv (a b : BitVec 64) : -(a - b) = b - a := by bv_omega

end RV.Tie
