import RV.Gen.CacheM
import RV.Model.Cache
import RV.Proofs.CacheBasic
import RV.Props.TiePolicy
/-!
# TieCache, definitions: the model's instance of the generated interface `Gen.CacheM.Iface`
# and the abstraction from the parking points of the generated sections to the model's
# program counters

`Gen.CacheM` (regenerated from /repo's cache.go on every run, go2lean/cachem.go) has one function
per SECTION of `Cache.SetWithTTL / Del / Get / GetTTL` between two yield points.  A section is
parametric in an interface `I : Iface W K V` (what it calls but does not define).  Here the
interface is instantiated with the pieces of the hand-written model `RV/Model/Cache.lean`:

* `W := State`, keys `K := Hash × Conf` with `keyToHash := id` (the model's calls carry the two
  hashes), values `V := Nat` with zero value `0`;
* `store_Update / store_Del / store_Expiration` := the model's `storeUpdate / storeDel /
  expirationOf` on the `store` and `em` fields (these are proved equal to the generated
  `lockedMap` methods in `RV/Props/TieStore.lean`);
* `onExit` := `cbExit`; `Metrics_add` := `metAdd` of `TiePolicy.bump` (the per-kind totals);
* `isClosed` := the field `closed`; `time_Now` := the field `clock`;
* `setBuf_trySend` := append to `buf` when there is room and nobody is queued (the model's
  condition in `stSetSend`); `setBuf_send` := the same, else enqueue `(t, item)` in `sendq`;
* `getBuf_Push` := a parameter (the outcome of the ring push is a `Choice` of the model).
-/
namespace RV.TieCache
open RV RV.Cache Gen.Cache Gen.CacheM

abbrev GItem := Gen.Methods.Item Nat
abbrev Key := Hash × Conf

/-- the Go `itemFlag` byte as the model's flag -/
def flagOf (f : BitVec 8) : Flag :=
  if f = itemUpdate then .upd else if f = itemDelete then .del else .new

/-- the Go `*Item[V]` as the model's item (int64 cost read as an integer) -/
def absItem (i : GItem) : RV.Cache.Item :=
  ⟨flagOf i.flag, i.Key, i.Conflict, i.Value, i.Cost.toInt, i.Expiration⟩

/-- room in `setBuf` for a sender that may not jump the queue -/
def hasRoom (cfg : Cfg) (s : State) : Prop := s.buf.length < cfg.bufCap ∧ s.sendq = []

instance (cfg : Cfg) (s : State) : Decidable (hasRoom cfg s) := by unfold hasRoom; infer_instance

/-- the model's pieces as the interface of the generated sections, for client thread `t`;
`push` is the outcome of `c.getBuf.Push` (a choice of the model) -/
def mI (cfg : Cfg) (t : Tid) (push : State → State := id) : Iface State Key Nat where
  zeroV := 0
  keyToHash := fun k => k
  isClosed := fun s => s.closed
  time_Now := fun s => s.clock
  store_Update := fun s i =>
    let r := storeUpdate cfg s.store s.em (absItem i)
    ({ s with store := r.1, em := r.2.1 }, r.2.2.1, r.2.2.2)
  store_Del := fun s k c =>
    let r := storeDel s.store s.em k c
    ({ s with store := r.1, em := r.2.1 }, r.2.2.1, r.2.2.2)
  store_Expiration := fun s k => expirationOf s.store k
  getBuf_Push := fun s _ => push s
  onExit := fun s v => cbExit s v
  Metrics_add := fun s k _ d => metAdd cfg s (fun m => RV.TiePolicy.bump m k d)
  setBuf_trySend := fun s i =>
    if hasRoom cfg s then ({ s with buf := s.buf ++ [.item (absItem i)] }, true) else (s, false)
  setBuf_send := fun s i =>
    if hasRoom cfg s then ({ s with buf := s.buf ++ [.item (absItem i)] }, true)
    else ({ s with sendq := s.sendq ++ [(t, .item (absItem i))] }, false)

/-! ## SetWithTTL -/

/-- parking point of `SetWithTTL` ↦ program counter of the model.  `g` is ghost: the item this
call built, which the model keeps in `setRetTrue` for the `setRet` event although no Go local
holds it any more. -/
def pcSet (g : RV.Cache.Item) : SetWithTTL_Out Key Nat → CPc
  | .ret _ => .idle
  | .vpSetAfterClock k v cost exp => .setUpd ⟨.new, k.1, k.2, v, cost.toInt, exp⟩
  | .vpSetAfterUpdate _ i prev => .setExit (absItem i) prev
  | .vpSetBeforeSend _ i => .setSend (absItem i)
  | .vpSetSent => .setRetTrue g
  | .vpSetDropped _ i => .setRetDrop (absItem i)

/-- the model state after a section of `SetWithTTL` run by thread `t` for value `v`: the pc of the
parking point, and the model's ghost events — `setRet` on return, `setExp` (the expiration
computed at the clock read) on reaching `vpSetAfterClock` -/
def landSet (t : Tid) (v : Val) (g : RV.Cache.Item) : State × SetWithTTL_Out Key Nat → State
  | (w, .ret ok) => logEv (setCl w t .idle) (.setRet t v ok)
  | (w, .vpSetAfterClock k v' cost exp) =>
      logEv (setCl w t (pcSet g (.vpSetAfterClock k v' cost exp))) (.setExp t v exp)
  | (w, o) => setCl w t (pcSet g o)

/-- as `landSet` for the section after a failed send: the model also logs the ghost event `drop`
when the call returns false -/
def landSetDrop (t : Tid) (v : Val) (g : RV.Cache.Item) : State × SetWithTTL_Out Key Nat → State
  | (w, .ret false) => logEv (logEv (setCl w t .idle) (.drop t v)) (.setRet t v false)
  | r => landSet t v g r

/-! ## Del -/

/-- parking point of `Del` ↦ program counter (`h`: ghost, the key hash of the call, kept by the
model for the `delRet` event) -/
def pcDel (h : Hash) : Del_Out Key Nat → CPc
  | .ret => .idle
  | .vpDelAfterStore kh ch prev => .delExit kh ch prev
  | .vpDelBeforeSend kh ch => .delSend kh ch
  | .vpDelSent => .delSent h
  | .vpDelSent_blocked => .delBlocked h

def landDel (t : Tid) (h : Hash) : State × Del_Out Key Nat → State
  | (w, .ret) => logEv (setCl w t .idle) (.delRet t h)
  | (w, o) => setCl w t (pcDel h o)

/-! ## Get -/

/-- the pair `(value, found)` returned by `store.Get` as the model's `Option Val` -/
def resOf (v : Val) (ok : Bool) : Option Val := if ok then some v else none

/-- `c`: ghost, the conflict hash of the call (kept by the model for the `getRet` event) -/
def pcGet (c : Conf) : Get_Out Key Nat → CPc
  | .ret _ _ => .idle
  | .vpGetBeforeStore kh ch => .getRead kh ch
  | .call_store_Get a1 a2 _ => .getRead a1 a2
  | .vpGetAfterStore kh v ok => .getMetric kh c (resOf v ok)

def landGet (t : Tid) (h : Hash) (c : Conf) : State × Get_Out Key Nat → State
  | (w, .ret v ok) => logEv (setCl w t .idle) (.getRet t h c (resOf v ok))
  | (w, o) => setCl w t (pcGet c o)

/-! ## GetTTL -/

def pcTtl (h : Hash) (c : Conf) : GetTTL_Out Key Nat → CPc
  | .ret _ _ => .idle
  | .call_store_Get a1 a2 _ => .ttlRead a1 a2
  | .vpTtlAfterGet kh => .ttlExp kh c
  | .vpTtlAfterExp exp => .ttlNow h c exp
  | .vpTtlAfterNow exp => .ttlUntil h c exp

def landTtl (t : Tid) (h : Hash) (c : Conf) : State × GetTTL_Out Key Nat → State
  | (w, .ret d ok) => logEv (setCl w t .idle) (.ttlRet t h c d ok)
  | (w, o) => setCl w t (pcTtl h c o)

end RV.TieCache
