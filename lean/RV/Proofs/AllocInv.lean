import RV.Proofs.AllocBasic
/-!
Allocator (C12): the safety invariant `Inv` and its preservation by every step
whose atomic add does not carry (`NoCarry`).
-/
namespace RV.Alloc
open Gen.Alloc

def B (s : State) : Nat := (bi s).toNat
def P (s : State) : Nat := (pi s).toNat

theorem B_def (s : State) : B s = s.compIdx.toNat / 4294967296 := by simp [B, bi, parse_fst]
theorem P_def (s : State) : P s = s.compIdx.toNat % 4294967296 := by simp [P, pi, parse_snd]

def Disj (r q : Region) : Prop :=
  r.chunk ≠ q.chunk ∨ r.off + r.len ≤ q.off ∨ q.off + q.len ≤ r.off

instance (r q : Region) : Decidable (Disj r q) := by unfold Disj; infer_instance

theorem Disj.symm {r q : Region} (h : Disj r q) : Disj q r := by
  unfold Disj at *; omega

/-- The interval reserved by a goroutine that obtained `pos` for `sz` bytes. -/
def ivl (sz pos : W) : Region :=
  ⟨(parse pos).1.toNat, (parse pos).2.toNat - sz.toNat, sz.toNat⟩

theorem get_set {l : List Thread} {t u : Nat} {x y : Thread} (h : (l.set t x)[u]? = some y) :
    (u = t ∧ y = x) ∨ (u ≠ t ∧ l[u]? = some y) := by
  rw [List.getElem?_set] at h
  split at h
  · rename_i htu
    split at h
    · simp only [Option.some.injEq] at h
      exact Or.inl ⟨htu.symm, h.symm⟩
    · exact absurd h (by simp)
  · rename_i htu
    exact Or.inr ⟨fun e => htu e.symm, h⟩

theorem idle_of_allIdle {s : State} (h : allIdle s = true) {t : Nat} {th : Thread}
    (ht : s.threads[t]? = some th) : th.pc = .idle := by
  simp only [allIdle, List.all_eq_true, beq_iff_eq] at h
  exact h th (List.mem_of_getElem? ht)

structure Inv (s : State) : Prop where
  biLt : B s < s.chunks.length
  lenLt : s.chunks.length < 2 ^ 31
  chunkLt : ∀ c ∈ s.chunks, c < 2 ^ 63
  idleDefault : ∀ (t : Nat) (th : Thread), s.threads[t]? = some th → th.pc = .idle → th = {}
  toAdd : ∀ (t : Nat) (th : Thread) (sz : W), s.threads[t]? = some th → th.pc = .toAdd sz →
    0 < sz.toNat ∧ sz = th.op.inner ∧ allocTooBig sz = false
  needGrow : ∀ (t : Nat) (th : Thread) (sz b : W), s.threads[t]? = some th → th.pc = .needGrow sz b →
    0 < sz.toNat ∧ sz.toNat < 2 ^ 32 ∧ sz = th.op.inner ∧ allocTooBig sz = false
  added : ∀ (t : Nat) (th : Thread) (sz pos : W), s.threads[t]? = some th → th.pc = .added sz pos →
    0 < sz.toNat ∧ sz = th.op.inner ∧ (parse pos).1.toNat ≤ B s ∧ sz.toNat ≤ (parse pos).2.toNat ∧
    ((parse pos).1.toNat = B s → (parse pos).2.toNat ≤ P s) ∧ allocTooBig sz = false
  grantIn : ∀ g ∈ s.grants, g.reg.chunk ≤ B s ∧
    g.reg.off + g.reg.len ≤ chunkLen s.chunks g.reg.chunk ∧ 0 < g.reg.len ∧
    (g.reg.chunk = B s → g.reg.off + g.reg.len ≤ P s) ∧ g.reg.len = g.op.inner.toNat
  grantDisj : s.grants.Pairwise fun g h => Disj g.reg h.reg
  addedGrant : ∀ (t : Nat) (th : Thread) (sz pos : W), s.threads[t]? = some th → th.pc = .added sz pos →
    ∀ g ∈ s.grants, Disj (ivl sz pos) g.reg
  addedAdded : ∀ (t u : Nat) (th uh : Thread) (sz pos sz' pos' : W), t ≠ u → s.threads[t]? = some th → s.threads[u]? = some uh →
    th.pc = .added sz pos → uh.pc = .added sz' pos' → Disj (ivl sz pos) (ivl sz' pos')

theorem inv_init (c0 n : Nat) (h : c0 < 2 ^ 63) : Inv (init c0 n) := by
  have hidle : ∀ (t : Nat) (th : Thread), (init c0 n).threads[t]? = some th → th.pc = .idle := by
    intro t th ht
    have := List.mem_of_getElem? ht
    simp only [init, List.mem_replicate] at this
    rw [this.2]
  refine ⟨?_, ?_, ?_, ?_, ?_, ?_, ?_, ?_, ?_, ?_, ?_⟩
  · simp [B_def, init, numSlots]
  · simp [init, numSlots]
  · intro c hc
    simp only [init, List.mem_cons, List.mem_replicate] at hc
    omega
  · intro t th ht _
    have := List.mem_of_getElem? ht
    simp only [init, List.mem_replicate] at this
    exact this.2
  · intro t th sz ht hp; rw [hidle t th ht] at hp; cases hp
  · intro t th sz b ht hp; rw [hidle t th ht] at hp; cases hp
  · intro t th sz pos ht hp; rw [hidle t th ht] at hp; cases hp
  · intro g hg; simp [init] at hg
  · simp [init]
  · intro t th sz pos ht hp; rw [hidle t th ht] at hp; cases hp
  · intro t u th uh sz pos sz' pos' _ ht _ hp; rw [hidle t th ht] at hp; cases hp


theorem Inv.congr {s s' : State} (h1 : s'.compIdx = s.compIdx) (h2 : s'.chunks = s.chunks)
    (h3 : s'.threads = s.threads) (h4 : s'.grants = s.grants) (h : Inv s) : Inv s' := by
  obtain ⟨c, cs, th, g, l⟩ := s
  obtain ⟨c', cs', th', g', l'⟩ := s'
  simp only at h1 h2 h3 h4
  subst h1 h2 h3 h4
  exact ⟨h.biLt, h.lenLt, h.chunkLt, h.idleDefault, h.toAdd, h.needGrow, h.added, h.grantIn, h.grantDisj,
    h.addedGrant, h.addedAdded⟩

/-- Replacing one thread by one that is not between add and check. -/
theorem inv_setThread {s : State} (hI : Inv s) (t : Nat) (x : Thread)
    (hA : ∀ sz, x.pc = .toAdd sz → 0 < sz.toNat ∧ sz = x.op.inner ∧ allocTooBig sz = false)
    (hG : ∀ sz b, x.pc = .needGrow sz b →
      0 < sz.toNat ∧ sz.toNat < 2 ^ 32 ∧ sz = x.op.inner ∧ allocTooBig sz = false)
    (hD : ∀ sz pos, x.pc ≠ .added sz pos) (hDf : x.pc = .idle → x = {}) :
    Inv { s with threads := s.threads.set t x } := by
  refine ⟨hI.biLt, hI.lenLt, hI.chunkLt, ?_, ?_, ?_, ?_, hI.grantIn, hI.grantDisj, ?_, ?_⟩
  · intro u uh hu hp
    rcases get_set hu with ⟨_, rfl⟩ | ⟨_, hu'⟩
    · exact hDf hp
    · exact hI.idleDefault u uh hu' hp
  · intro u uh sz hu hp
    rcases get_set hu with ⟨_, rfl⟩ | ⟨_, hu'⟩
    · exact hA sz hp
    · exact hI.toAdd u uh sz hu' hp
  · intro u uh sz b hu hp
    rcases get_set hu with ⟨_, rfl⟩ | ⟨_, hu'⟩
    · exact hG sz b hp
    · exact hI.needGrow u uh sz b hu' hp
  · intro u uh sz pos hu hp
    rcases get_set hu with ⟨_, rfl⟩ | ⟨_, hu'⟩
    · exact absurd hp (hD sz pos)
    · exact hI.added u uh sz pos hu' hp
  · intro u uh sz pos hu hp
    rcases get_set hu with ⟨_, rfl⟩ | ⟨_, hu'⟩
    · exact absurd hp (hD sz pos)
    · exact hI.addedGrant u uh sz pos hu' hp
  · intro u v uh vh sz pos sz' pos' huv hu hv hp hq
    rcases get_set hu with ⟨_, rfl⟩ | ⟨_, hu'⟩
    · exact absurd hp (hD sz pos)
    · rcases get_set hv with ⟨_, rfl⟩ | ⟨_, hv'⟩
      · exact absurd hq (hD sz' pos')
      · exact hI.addedAdded u v uh vh sz pos sz' pos' huv hu' hv' hp hq

theorem inv_start {s s' : State} {t : Nat} {op : Op} (hI : Inv s) (h : step s (.start t op) = some s') :
    Inv s' := by
  obtain ⟨th, hth, hpc, h1 | h1 | h1⟩ := step_start h
  · obtain ⟨_, rfl⟩ := h1; exact hI
  · obtain ⟨_, _, rfl⟩ := h1; exact hI
  · obtain ⟨hb, hz, rfl⟩ := h1
    refine inv_setThread hI t _ ?_ (by intro sz b h; cases h) (by intro sz pos h; cases h)
      (by intro h; cases h)
    intro sz h
    simp only [Pc.toAdd.injEq] at h
    subst h
    exact ⟨zero_false hz, rfl, hb⟩

theorem add_parse (c sz : W) (h : c.toNat % 4294967296 + sz.toNat < 4294967296) :
    (parse (c + sz)).1.toNat = c.toNat / 4294967296 ∧
    (parse (c + sz)).2.toNat = c.toNat % 4294967296 + sz.toNat := by
  rw [parse_fst, parse_snd, BitVec.toNat_add]
  have := c.isLt
  omega

theorem inv_add {s s' : State} {t : Nat} (hI : Inv s) (hN : NoCarry s (.add t))
    (h : step s (.add t) = some s') : Inv s' := by
  obtain ⟨th, sz, hth, hpc, rfl⟩ := step_add h
  have hnc : P s + sz.toNat < 4294967296 := by
    have := hN th sz hth hpc
    simpa [P] using this
  rw [addend_eq]
  have hpar := add_parse s.compIdx sz (by rw [← P_def]; exact hnc)
  rw [← B_def, ← P_def] at hpar
  obtain ⟨hsz0, hszop, htb⟩ := hI.toAdd t th sz hth hpc
  -- facts about the new state
  have hB : B { s with compIdx := s.compIdx + sz,
                       threads := s.threads.set t { th with pc := .added sz (s.compIdx + sz) } } = B s := by
    rw [B_def]; simpa [B_def, parse_fst] using hpar.1
  have hP : P { s with compIdx := s.compIdx + sz,
                       threads := s.threads.set t { th with pc := .added sz (s.compIdx + sz) } } = P s + sz.toNat := by
    rw [P_def]; simpa [P_def, parse_snd] using hpar.2
  -- the new reservation is above everything handed out or reserved in the current chunk
  have hnewGrant : ∀ g ∈ s.grants, Disj (ivl sz (s.compIdx + sz)) g.reg := by
    intro g hg
    obtain ⟨_, _, _, h4, _⟩ := hI.grantIn g hg
    unfold Disj ivl
    simp only [hpar.1, hpar.2]
    by_cases hc : g.reg.chunk = B s
    · have := h4 hc; omega
    · exact Or.inl (fun e => hc e.symm)
  have hnewAdded : ∀ (u : Nat) (uh : Thread) (sz' pos' : W), s.threads[u]? = some uh → uh.pc = .added sz' pos' →
      Disj (ivl sz (s.compIdx + sz)) (ivl sz' pos') := by
    intro u uh sz' pos' hu hq
    obtain ⟨_, _, h3, h4, h5, _⟩ := hI.added u uh sz' pos' hu hq
    unfold Disj ivl
    simp only [hpar.1, hpar.2]
    by_cases hc : (parse pos').1.toNat = B s
    · have := h5 hc; omega
    · exact Or.inl (fun e => hc e.symm)
  refine ⟨by rw [hB]; exact hI.biLt, hI.lenLt, hI.chunkLt, ?_, ?_, ?_, ?_, ?_, hI.grantDisj, ?_, ?_⟩
  · intro u uh hu hp
    rcases get_set hu with ⟨_, rfl⟩ | ⟨_, hu'⟩
    · cases hp
    · exact hI.idleDefault u uh hu' hp
  · intro u uh sz' hu hp
    rcases get_set hu with ⟨_, rfl⟩ | ⟨_, hu'⟩
    · cases hp
    · exact hI.toAdd u uh sz' hu' hp
  · intro u uh sz' b hu hp
    rcases get_set hu with ⟨_, rfl⟩ | ⟨_, hu'⟩
    · cases hp
    · exact hI.needGrow u uh sz' b hu' hp
  · intro u uh sz' pos' hu hp
    rw [hB, hP]
    rcases get_set hu with ⟨_, rfl⟩ | ⟨_, hu'⟩
    · simp only [Pc.added.injEq] at hp
      obtain ⟨rfl, rfl⟩ := hp
      refine ⟨hsz0, hszop, ?_, ?_, ?_, htb⟩ <;> omega
    · obtain ⟨h1, h2, h3, h4, h5, h6⟩ := hI.added u uh sz' pos' hu' hp
      refine ⟨h1, h2, h3, h4, fun e => ?_, h6⟩
      have := h5 e; omega
  · intro g hg
    rw [hB, hP]
    obtain ⟨h1, h2, h3, h4, h5⟩ := hI.grantIn g hg
    refine ⟨h1, h2, h3, fun e => ?_, h5⟩
    have := h4 e; omega
  · intro u uh sz' pos' hu hp g hg
    rcases get_set hu with ⟨_, rfl⟩ | ⟨_, hu'⟩
    · simp only [Pc.added.injEq] at hp
      obtain ⟨rfl, rfl⟩ := hp
      exact hnewGrant g hg
    · exact hI.addedGrant u uh sz' pos' hu' hp g hg
  · intro u v uh vh sz1 pos1 sz2 pos2 huv hu hv hp hq
    rcases get_set hu with ⟨rfl, rfl⟩ | ⟨hut, hu'⟩
    · simp only [Pc.added.injEq] at hp
      obtain ⟨rfl, rfl⟩ := hp
      rcases get_set hv with ⟨rfl, _⟩ | ⟨_, hv'⟩
      · exact absurd rfl huv
      · exact hnewAdded v vh sz2 pos2 hv' hq
    · rcases get_set hv with ⟨rfl, rfl⟩ | ⟨_, hv'⟩
      · simp only [Pc.added.injEq] at hq
        obtain ⟨rfl, rfl⟩ := hq
        exact (hnewAdded u uh sz1 pos1 hu' hp).symm
      · exact hI.addedAdded u v uh vh sz1 pos1 sz2 pos2 huv hu' hv' hp hq


theorem parse_snd_lt (x : W) : (parse x).2.toNat < 4294967296 := by
  rw [parse_snd]; omega

theorem checkPos_beyond {cs : List Nat} {sz pos b : W} (h : checkPos cs sz pos = .beyond b) :
    b = (parse pos).1 := by
  simp only [checkPos] at h
  split at h
  · exact absurd h (by simp)
  · split at h
    · simp only [Checked.beyond.injEq] at h; exact h.symm
    · split at h <;> exact absurd h (by simp)

theorem checkPos_slice {cs : List Nat} {sz pos : W} {r : Region} (h : checkPos cs sz pos = .slice r)
    (hsz : sz.toNat ≤ (parse pos).2.toNat) (hlt : ∀ c ∈ cs, c < 2 ^ 63) :
    r = ivl sz pos ∧ (parse pos).2.toNat ≤ chunkLen cs (parse pos).1.toNat := by
  simp only [checkPos] at h
  have hp := parse_snd_lt pos
  split at h
  · exact absurd h (by simp)
  · split at h
    · exact absurd h (by simp)
    · rename_i hb
      split at h
      · exact absurd h (by simp)
      · simp only [Checked.slice.injEq] at h
        rw [beyond_iff _ _ (by omega) (chunkLen_lt hlt (by decide) _)] at hb
        simp only [decide_eq_true_eq] at hb
        refine ⟨?_, by omega⟩
        rw [← h]
        unfold ivl
        have hlo := sliceLo_toNat (parse pos).2 sz hsz
        simp only [Region.mk.injEq, true_and, hlo, BitVec.toNat_sub]
        omega

theorem inv_check {s s' : State} {t : Nat} (hI : Inv s) (h : step s (.check t) = some s') : Inv s' := by
  obtain ⟨th, sz, pos, hth, hpc, h1 | h1 | h1⟩ := step_check h
  · obtain ⟨b, hb, rfl⟩ := h1
    obtain ⟨a1, a2, a3, a4, a5, a6⟩ := hI.added t th sz pos hth hpc
    refine inv_setThread hI t _ (by intro sz h; cases h) ?_ (by intro sz pos h; cases h)
      (by intro h; cases h)
    intro sz' b' h
    simp only [Pc.needGrow.injEq] at h
    obtain ⟨rfl, _⟩ := h
    have := parse_snd_lt pos
    exact ⟨a1, by omega, a2, a6⟩
  · obtain ⟨_, rfl⟩ := h1
    exact inv_setThread hI t _ (by intro sz h; cases h) (by intro sz b h; cases h)
      (by intro sz pos h; cases h) (by intro h; cases h)
  · obtain ⟨r, hr, rfl⟩ := h1
    obtain ⟨a1, a2, a3, a4, a5, a6⟩ := hI.added t th sz pos hth hpc
    obtain ⟨rfl, hin⟩ := checkPos_slice hr a4 hI.chunkLt
    have hbase := inv_setThread hI t {} (by intro sz h; cases h)
      (by intro sz b h; cases h) (by intro sz pos h; cases h) (fun _ => rfl)
    refine ⟨hbase.biLt, hbase.lenLt, hbase.chunkLt, hbase.idleDefault, hbase.toAdd, hbase.needGrow,
      hbase.added, ?_, ?_, ?_, hbase.addedAdded⟩
    · intro g hg
      rcases List.mem_cons.mp hg with rfl | hg'
      · refine ⟨a3, ?_, ?_, ?_, ?_⟩
        · show (ivl sz pos).off + (ivl sz pos).len ≤ chunkLen s.chunks (ivl sz pos).chunk
          simp only [ivl]; omega
        · show 0 < (ivl sz pos).len
          simp only [ivl]; exact a1
        · intro e
          show (ivl sz pos).off + (ivl sz pos).len ≤ _
          have := a5 e
          simp only [ivl]
          show (parse pos).2.toNat - sz.toNat + sz.toNat ≤ P s
          omega
        · show (ivl sz pos).len = th.op.inner.toNat
          simp only [ivl]; rw [a2]
      · exact hI.grantIn g hg'
    · refine List.Pairwise.cons ?_ hI.grantDisj
      intro g hg
      exact hI.addedGrant t th sz pos hth hpc g hg
    · intro u uh sz' pos' hu hp g hg
      rcases get_set hu with ⟨_, rfl⟩ | ⟨hut, hu'⟩
      · cases hp
      · rcases List.mem_cons.mp hg with rfl | hg'
        · exact hI.addedAdded u t uh th sz' pos' sz pos hut hu' hth hp hpc
        · exact hI.addedGrant u uh sz' pos' hu' hp g hg'


theorem inv_grow {s s' : State} {t : Nat} (hI : Inv s) (h : step s (.grow t) = some s') : Inv s' := by
  obtain ⟨_, th, sz, b, hth, hpc, h1 | h1 | h1 | h1⟩ := step_grow h
  · obtain ⟨_, rfl⟩ := h1
    obtain ⟨g1, g2, g3, g4⟩ := hI.needGrow t th sz b hth hpc
    refine inv_setThread hI t _ ?_ (by intro sz b h; cases h) (by intro sz pos h; cases h)
      (by intro h; cases h)
    intro sz' h; simp only [Pc.toAdd.injEq] at h; subst h; exact ⟨g1, g3, g4⟩
  · obtain ⟨_, _, rfl⟩ := h1
    refine Inv.congr (s := { s with threads := s.threads.set t { th with pc := .panicked .outOfSlots } })
      rfl rfl rfl rfl ?_
    exact inv_setThread hI t _ (by intro sz h; cases h) (by intro sz b h; cases h)
      (by intro sz pos h; cases h) (by intro h; cases h)
  · obtain ⟨_, _, rfl⟩ := h1
    refine Inv.congr (s := { s with threads := s.threads.set t { th with pc := .hung } }) rfl rfl rfl rfl ?_
    exact inv_setThread hI t _ (by intro sz h; cases h) (by intro sz b h; cases h)
      (by intro sz pos h; cases h) (by intro h; cases h)
  · obtain ⟨cs, hm, hadd, rfl⟩ := h1
    obtain ⟨g1, g2, g3, g4⟩ := hI.needGrow t th sz b hth hpc
    have hb : bi s = b := moved_false hm
    have hbB : b.toNat = B s := by rw [← hb]; rfl
    have hBlt := hI.biLt
    have hlen := hI.lenLt
    have hnext := nextIdx_toNat b (by omega)
    obtain ⟨c1, c2, c3, c4⟩ := addBufferAt_ok hadd hI.chunkLt hI.lenLt (by omega) g1 (by omega)
    have hst := store_parse b (by omega)
    -- first the table and the word, then the thread
    have hmid : Inv { s with chunks := cs, compIdx := allocStore b } := by
      have hB' : B { s with chunks := cs, compIdx := allocStore b } = B s + 1 := by
        show (parse (allocStore b)).1.toNat = _
        omega
      have hP' : P { s with chunks := cs, compIdx := allocStore b } = 0 := hst.2
      refine ⟨by rw [hB']; show B s + 1 < cs.length; omega, by show cs.length < _; omega, c4,
        hI.idleDefault, hI.toAdd, hI.needGrow, ?_, ?_, hI.grantDisj, hI.addedGrant, hI.addedAdded⟩
      · intro u uh sz' pos' hu hp
        obtain ⟨h1, h2, h3, h4, h5, h6⟩ := hI.added u uh sz' pos' hu hp
        rw [hB']
        exact ⟨h1, h2, by omega, h4, fun e => by omega, h6⟩
      · intro g hg
        obtain ⟨h1, h2, h3, h4, h5⟩ := hI.grantIn g hg
        rw [hB']
        refine ⟨by omega, ?_, h3, fun e => by omega, h5⟩
        show _ ≤ chunkLen cs _
        rw [c3 _ (by omega)]; exact h2
    have := inv_setThread hmid t { th with pc := .toAdd sz } (by
      intro sz' h; simp only [Pc.toAdd.injEq] at h; subst h; exact ⟨g1, g3, g4⟩)
      (by intro sz b h; cases h) (by intro sz pos h; cases h) (by intro h; cases h)
    exact this

theorem inv_reset {s s' : State} (hI : Inv s) (h : step s .reset = some s') : Inv s' := by
  obtain ⟨hidle, rfl⟩ := step_reset h
  have hB : B { s with compIdx := 0#64, grants := [] } = 0 := by simp [B_def]
  refine ⟨?_, hI.lenLt, hI.chunkLt, hI.idleDefault, hI.toAdd, hI.needGrow, ?_, ?_, ?_, ?_, hI.addedAdded⟩
  · rw [hB]; have := hI.biLt; show 0 < s.chunks.length; omega
  · intro u uh sz pos hu hp
    rw [idle_of_allIdle hidle hu] at hp; cases hp
  · intro g hg; cases hg
  · exact List.Pairwise.nil
  · intro u uh sz pos hu hp
    rw [idle_of_allIdle hidle hu] at hp; cases hp

theorem inv_trim {s s' : State} {mx : W} (hI : Inv s) (h : step s (.trim mx) = some s') : Inv s' := by
  obtain ⟨hidle, rfl⟩ := step_trim h
  refine ⟨?_, ?_, ?_, hI.idleDefault, hI.toAdd, hI.needGrow, hI.added, ?_, ?_, ?_, hI.addedAdded⟩
  · show B s < (trimTo mx s.chunks).length
    rw [trimTo, trimFrom_length]; exact hI.biLt
  · show (trimTo mx s.chunks).length < _
    rw [trimTo, trimFrom_length]; exact hI.lenLt
  · intro c hc
    rcases trimFrom_mem hc with h0 | h0
    · omega
    · exact hI.chunkLt c h0
  · intro g hg
    simp only [List.mem_filter, bne_iff_ne, ne_eq] at hg
    obtain ⟨h1, h2, h3, h4, h5⟩ := hI.grantIn g hg.1
    refine ⟨h1, ?_, h3, h4, h5⟩
    show _ ≤ chunkLen (trimTo mx s.chunks) _
    rcases trimFrom_get mx s.chunks 0#64 g.reg.chunk with e | e
    · rw [trimTo, e]; exact h2
    · exact absurd e hg.2
  · exact hI.grantDisj.sublist List.filter_sublist
  · intro u uh sz pos hu hp g hg
    exact hI.addedGrant u uh sz pos hu hp g (List.mem_filter.mp hg).1

theorem inv_step {s s' : State} {a : Action} (hI : Inv s) (hN : NoCarry s a) (h : step s a = some s') :
    Inv s' := by
  cases a with
  | start t op => exact inv_start hI h
  | add t => exact inv_add hI hN h
  | check t => exact inv_check hI h
  | grow t => exact inv_grow hI h
  | reset => exact inv_reset hI h
  | trim mx => exact inv_trim hI h

theorem inv_reachNW {c0 n : Nat} (hc : c0 < 2 ^ 63) {s : State} (h : ReachNW (init c0 n) s) : Inv s := by
  induction h with
  | init => exact inv_init c0 n hc
  | step a _ hN hs ih => exact inv_step ih hN hs

end RV.Alloc
