import RV.Proofs.AllocSafe
/-!
Allocator (C12): AllocateAligned arithmetic and the memory layer (zeroing, copy,
never overwritten).
-/
namespace RV.Alloc
open Gen.Alloc

theorem and_not7 (x : W) : (x &&& 18446744073709551608#64).toNat = x.toNat / 8 * 8 := by
  have h : (x &&& 18446744073709551608#64) = (x >>> 3) <<< 3 := by
    have h8 : (18446744073709551608#64 : W) = ~~~(7#64) := by decide
    rw [h8]
    ext i hi
    have h7 : (7#64 : W)[i] = decide (i < 3) := by
      rw [BitVec.getElem_eq_testBit_toNat]; exact Nat.testBit_two_pow_sub_one 3 i
    simp only [BitVec.getElem_and, BitVec.getElem_not, h7, BitVec.getElem_shiftLeft]
    by_cases h3 : i < 3
    · simp [h3]
    · have e : 3 + (i - 3) = i := by omega
      simp [h3, BitVec.getElem_ushiftRight, e, BitVec.getLsbD_eq_getElem hi]
  rw [h, BitVec.toNat_shiftLeft, BitVec.toNat_ushiftRight, Nat.shiftLeft_eq, Nat.shiftRight_eq_div_pow]
  have := x.isLt
  omega

end RV.Alloc
namespace RV.Alloc
open Gen.Alloc

theorem alignedTotal_toNat (sz : W) (h : sz.toNat + 7 < 2 ^ 64) : (alignedTotal sz).toNat = sz.toNat + 7 := by
  simp only [alignedTotal, BitVec.toNat_add]
  have : (7#64 : W).toNat = 7 := rfl
  rw [this]; omega

/-- `AllocateAligned`: for every chunk base address the returned sub-slice is 8-byte
aligned, has the requested length and lies inside the slice obtained from `Allocate`. -/
theorem alignedSub_spec (base : W) (r : Region) (sz : W) (hlen : r.len = sz.toNat + 7)
    (haddr : base.toNat + r.off + r.len < 2 ^ 64) :
    (alignedSub base r sz).chunk = r.chunk ∧ (base.toNat + (alignedSub base r sz).off) % 8 = 0 ∧
    r.off ≤ (alignedSub base r sz).off ∧
    (alignedSub base r sz).off + (alignedSub base r sz).len ≤ r.off + r.len ∧
    (alignedSub base r sz).len = sz.toNat := by
  have hb := base.isLt
  have hs := sz.isLt
  have haddrN : (base + BitVec.ofNat 64 r.off).toNat = base.toNat + r.off := by
    simp only [BitVec.toNat_add, BitVec.toNat_ofNat]; omega
  have h7 : (7#64 : W).toNat = 7 := rfl
  have hadd7 : (base + BitVec.ofNat 64 r.off + 7#64).toNat = base.toNat + r.off + 7 := by
    rw [BitVec.toNat_add, haddrN, h7]; omega
  have hal : (alignedAddr (base + BitVec.ofNat 64 r.off)).toNat = (base.toNat + r.off + 7) / 8 * 8 := by
    simp only [alignedAddr]; rw [and_not7, hadd7]
  have hst : (alignedStart (alignedAddr (base + BitVec.ofNat 64 r.off)) (base + BitVec.ofNat 64 r.off)).toNat
      = (base.toNat + r.off + 7) / 8 * 8 - (base.toNat + r.off) := by
    simp only [alignedStart, BitVec.toNat_sub]; rw [hal, haddrN]; omega
  have hl : (alignedEnd (alignedStart (alignedAddr (base + BitVec.ofNat 64 r.off)) (base + BitVec.ofNat 64 r.off)) sz -
      alignedStart (alignedAddr (base + BitVec.ofNat 64 r.off)) (base + BitVec.ofNat 64 r.off)).toNat = sz.toNat := by
    simp only [alignedEnd, BitVec.toNat_sub, BitVec.toNat_add]; omega
  simp only [alignedSub]
  rw [hst, hl]
  refine ⟨trivial, ?_, ?_, ?_, rfl⟩ <;> omega

/-! ## memory -/

theorem writeGrant_outside (m : Mem) (g : Grant) (c o : Nat) (h : ¬ inRegion g.reg c o) :
    writeGrant m g c o = m c o := by
  cases hop : g.op <;> simp [writeGrant, hop, h]

theorem mstep_mem {ms ms' : MState} {a : Action} (h : mstep ms a = some ms') :
    step ms.st a = some ms'.st ∧
    (ms'.mem = ms.mem ∨
      ∃ t g, a = .check t ∧ ms'.st.grants = g :: ms.st.grants ∧ ms'.mem = writeGrant ms.mem g) := by
  simp only [mstep] at h
  split at h
  · exact absurd h (by simp)
  · rename_i s' hs
    split at h
    · rename_i t g rest hg
      split at h
      · rename_i hl
        simp only [Option.some.injEq] at h
        subst h
        refine ⟨hs, Or.inr ⟨t, g, rfl, ?_, rfl⟩⟩
        obtain ⟨th, sz, pos, hth, hpc, h1 | h1 | h1⟩ := step_check hs
        · obtain ⟨b, _, rfl⟩ := h1; simp at hl
        · obtain ⟨_, rfl⟩ := h1; simp at hl
        · obtain ⟨r, _, rfl⟩ := h1
          simp only at hg ⊢
          simp only [List.cons.injEq] at hg
          rw [← hg.1]
      · simp only [Option.some.injEq] at h; subst h; exact ⟨hs, Or.inl rfl⟩
    · simp only [Option.some.injEq] at h; subst h; exact ⟨hs, Or.inl rfl⟩

/-- The allocator never writes into a slice it handed out earlier (since the last Reset). -/
theorem not_overwritten {ms ms' : MState} {a : Action} (hI : Inv ms.st) (hN : NoCarry ms.st a)
    (h : mstep ms a = some ms') (g : Grant) (hg : g ∈ ms.st.grants) (c o : Nat)
    (hin : inRegion g.reg c o) : ms'.mem c o = ms.mem c o := by
  obtain ⟨hs, hm | ⟨t, g0, _, hgr, hm⟩⟩ := mstep_mem h
  · rw [hm]
  · rw [hm]
    apply writeGrant_outside
    have hI' := inv_step hI hN hs
    have hd := hI'.grantDisj
    rw [hgr, List.pairwise_cons] at hd
    have := hd.1 g hg
    unfold Disj at this
    unfold inRegion at hin ⊢
    omega

/-- What the granting step writes: zeroes for `AllocateAligned`, the argument for `Copy`. -/
theorem granted_mem {ms ms' : MState} {t : Nat} {g : Grant} (h : mstep ms (.check t) = some ms')
    (hg : ms'.st.grants = g :: ms.st.grants) :
    (∀ sz, g.op = .aligned sz → ∀ c o, inRegion g.reg c o → ms'.mem c o = 0#8) ∧
    (∀ d, g.op = .copy d → ∀ i, i < g.reg.len → ms'.mem g.reg.chunk (g.reg.off + i) = d.getD i 0#8) := by
  obtain ⟨hs, _⟩ := mstep_mem h
  have hmem : ms'.mem = writeGrant ms.mem g := by
    simp only [mstep, hs, hg, List.length_cons, ↓reduceIte, Option.some.injEq] at h
    rw [← h]
  constructor
  · intro sz hop c o hin
    rw [hmem]
    simp [writeGrant, hop, hin]
  · intro d hop i hi
    rw [hmem]
    have hin : inRegion g.reg g.reg.chunk (g.reg.off + i) := ⟨rfl, by omega, by omega⟩
    simp [writeGrant, hop, hin]

end RV.Alloc
