import RV.Proofs.CacheTTLReg
/-!
# One sweep reclaims a registered expired entry — with arbitrary interleaved client steps (C14 liveness)

`SweepSeg cfg k s acts s'`: a run segment `acts` from `s` to `s'` none of whose steps starts with the
applier at `idle`, and in which every step that is not an applier step (spawn, client, done, tick)
leaves the store's entry of `k` alone ("`k` is not re-written or deleted by clients").
`sweep_reclaims_interleaved`: such a segment that starts at the applier's tick step with `(k, e)`
registered in a not yet swept, now covered bucket and ends with the applier back at `idle` has removed
`k` from the store and from the policy's cost table and has emitted exactly one `evict` for `k`,
directly followed by `exit e.value`.
-/
namespace RV.Cache
open Gen.Cache

def Ev.isEvict : Ev → Bool
  | .evict .. => true
  | _ => false

theorem evictCount_cons_of_not {k : Hash} {e : Ev} {l : List Ev} (h : e.isEvict = false) :
    evictCount k (e :: l) = evictCount k l := by
  cases e <;> simp_all [evictCount, Ev.isEvict]

/-- the log grows by events that are not `OnEvict` callbacks -/
def NoEvictExt (s s' : State) : Prop := ∃ evs, s'.log = evs ++ s.log ∧ ∀ e ∈ evs, e.isEvict = false

theorem NoEvictExt.count {s s' : State} (h : NoEvictExt s s') (k : Hash) :
    evictCount k s'.log = evictCount k s.log := by
  obtain ⟨evs, h1, h2⟩ := h
  rw [h1]
  clear h1
  induction evs with
  | nil => rfl
  | cons e evs ih =>
    rw [List.cons_append, evictCount_cons_of_not (h2 e (by simp))]
    exact ih fun x hx => h2 x (List.mem_cons_of_mem _ hx)

theorem NoEvictExt.of_eq {s s' : State} (h : s'.log = s.log) : NoEvictExt s s' := ⟨[], by simp [h], by simp⟩
theorem NoEvictExt.one {s s' : State} {e : Ev} (h : s'.log = e :: s.log) (hq : e.isEvict = false) : NoEvictExt s s' :=
  ⟨[e], by simp [h], by simp [hq]⟩
theorem NoEvictExt.two {s s' : State} {e1 e2 : Ev} (h : s'.log = e1 :: e2 :: s.log) (hq1 : e1.isEvict = false)
    (hq2 : e2.isEvict = false) : NoEvictExt s s' :=
  ⟨[e1, e2], by simp [h], by simp [hq1, hq2]⟩

syntax "ne_ext" : tactic
macro_rules
  | `(tactic| ne_ext) => `(tactic| first
      | exact NoEvictExt.of_eq rfl
      | exact NoEvictExt.one rfl rfl
      | exact NoEvictExt.two rfl rfl rfl)

open Lean in
macro "ne_frame " f:ident : tactic =>
  `(tactic| (refine Or.inl ⟨?_, by simp⟩
             unfold $f; (try dsimp only); (repeat' split) <;> ne_ext))

/-- a client step outside `Clear`'s stopped part logs no `OnEvict` and leaves the policy's cost table alone -/
theorem clientStep_quietly {cfg : Cfg} {s s' : State} {t : Tid} {ch : Choice}
    (hs : clientStep cfg s t ch = some s') :
    (NoEvictExt s s' ∧ s'.pol.costs = s.pol.costs) ∨ (s.cl t).busy = true := by
  apply clientStep_cases hs (motive := fun s' => (NoEvictExt s s' ∧ s'.pol.costs = s.pol.costs) ∨ (s.cl t).busy = true)
  case clrDrain => intro closing hpc _; exact Or.inr (by rw [hpc]; rfl)
  case clrPolicy => intro closing hpc _; exact Or.inr (by rw [hpc]; rfl)
  case clrShard => intro closing k hpc _; exact Or.inr (by rw [hpc]; rfl)
  case clrEm => intro closing hpc _; exact Or.inr (by rw [hpc]; rfl)
  case clrMetrics => intro closing hpc _; exact Or.inr (by rw [hpc]; rfl)
  case clrRestart => intro closing hpc _; exact Or.inr (by rw [hpc]; rfl)
  case clsFinish => intro hpc _; exact Or.inr (by rw [hpc]; rfl)
  case setStart => intros; ne_frame stSetStart
  case setUpd => intros; ne_frame stSetUpd
  case setExit => intros; ne_frame stSetExit
  case setSend => intros; ne_frame stSetSend
  case setRetTrue => intros; ne_frame stSetRetTrue
  case setRetDrop =>
    intro i _ _
    refine Or.inl ⟨?_, by simp⟩
    unfold stSetRetDrop; split
    · ne_ext
    · exact .two (e1 := .setRet t i.value false) (e2 := .drop t i.value) (by simp [logEv]) rfl rfl
  case delStart => intros; ne_frame stDelStart
  case delExit => intros; ne_frame stDelExit
  case delSend => intros; exact Or.inl ⟨.of_eq (by simp), by simp⟩
  case delSent => intros; ne_frame stDelSent
  case waitStart => intros; ne_frame stWaitStart
  case waitSend => intros; exact Or.inl ⟨.of_eq (by simp), by simp⟩
  case waitRecv => intro id _ _ hr; exact Or.inl ⟨.of_eq (stWaitRecv_log _ _ _ hr), by rw [stWaitRecv_pol _ _ _ hr]⟩
  case waitDone => intros; ne_frame stWaitDone
  case getStart =>
    intro h c _ hr
    unfold stGetStart at hr
    dsimp only at hr
    split at hr
    · simp only [Option.some.injEq] at hr; subst hr; exact Or.inl ⟨.one rfl rfl, rfl⟩
    · split at hr
      · simp only [Option.some.injEq] at hr; subst hr; exact Or.inl ⟨.of_eq rfl, rfl⟩
      · split at hr
        · simp at hr
        · simp only [Option.some.injEq] at hr; subst hr; exact Or.inl ⟨.of_eq (by simp), by simp⟩
      · simp at hr
  case getRead => intros; ne_frame stGetRead
  case getCheck => intros; ne_frame stGetCheck
  case getMetric =>
    intro h c r _ _
    exact Or.inl ⟨.one (e := .getRet t h c r) (by simp [stGetMetric, logEv]) rfl, by simp⟩
  case ttlRead => intros; ne_frame stTtlRead
  case ttlCheck => intros; ne_frame stTtlCheck
  case ttlExp => intros; ne_frame stTtlExp
  case ttlNow => intros; ne_frame stTtlNow
  case ttlUntil => intros; ne_frame stTtlUntil
  case iterStart => intros; ne_frame stIterStart
  case iterShard =>
    intro k n seen _ hr
    unfold stIterShard at hr
    dsimp only at hr
    split at hr
    · split at hr
      · simp at hr
      · split at hr
        · simp at hr
        · split at hr <;> (simp only [Option.some.injEq] at hr; subst hr)
          · exact Or.inl ⟨.one rfl rfl, rfl⟩
          · exact Or.inl ⟨.of_eq rfl, rfl⟩
    · simp at hr
  case clrStart => intros; ne_frame stClrStart
  case updMax => intros; exact Or.inl ⟨.of_eq (by simp), by simp [stUpdMax]⟩
  case readMax => intros; ne_frame stReadMax
  case readRem => intros; ne_frame stReadRem

theorem spawnStep_noevict {s s' : State} {t : Tid} {c : Call} (hs : spawnStep s t c = some s') : NoEvictExt s s' := by
  unfold spawnStep at hs
  split at hs
  · cases c <;> (simp only [Option.some.injEq] at hs; subst hs) <;> ne_ext
  · simp at hs

/-- the applier is inside a sweep, or back at idle -/
def SweepPc : APc → Prop
  | .idle => True
  | .sweep .. => True
  | .swKey .. => True
  | .swStoreDel .. => True
  | .swPolDel .. => True
  | _ => False

theorem Phase.sweepPc {k : Hash} {e : Entry} {now : Time} {E : Em → Prop} {base : List Ev} {s : State}
    (h : Phase k e now E base s) : SweepPc s.app := by
  cases h with
  | pending bs hpc => cases happ : s.app <;> rw [happ] at hpc <;> simp_all [PendingPc, SweepPc]
  | current bs hpc => rw [hpc]; trivial
  | storeDel c bs hpc => rw [hpc]; trivial
  | polDel c cost bs hpc => rw [hpc]; trivial
  | done hpc _ => cases happ : s.app <;> rw [happ] at hpc <;> simp_all [DonePc, SweepPc]

/-- a step that leaves the applier pc, the entry of `k`, its accounted cost and the evict count alone -/
theorem phase_frame {k : Hash} {e : Entry} {now : Time} {base : List Ev} {s s' : State}
    (h : Phase k e now (fun _ => True) base s) (happ : s'.app = s.app)
    (hst : s'.store.lookup k = s.store.lookup k) (hpol : s'.pol.costs = s.pol.costs)
    (hlog : NoEvictExt s s') : Phase k e now (fun _ => True) base s' := by
  have hcnt := hlog.count k
  cases h with
  | pending bs hpc hb hs hl _ => exact .pending bs (by rw [happ]; exact hpc) hb (by rw [hst]; exact hs) (by rw [hcnt]; exact hl) trivial
  | current bs hpc hs hl _ => exact .current bs (by rw [happ]; exact hpc) (by rw [hst]; exact hs) (by rw [hcnt]; exact hl) trivial
  | storeDel c bs hpc hs hl _ => exact .storeDel c bs (by rw [happ]; exact hpc) (by rw [hst]; exact hs) (by rw [hcnt]; exact hl) trivial
  | polDel c cost bs hpc hs hp hl _ =>
    exact .polDel c cost bs (by rw [happ]; exact hpc) (by rw [hst]; exact hs) (by rw [hpol]; exact hp) (by rw [hcnt]; exact hl) trivial
  | done hpc h =>
    refine .done (by rw [happ]; exact hpc) ⟨by rw [hst]; exact h.store, by rw [hpol]; exact h.pol, trivial, by rw [hcnt]; exact h.once, ?_⟩
    obtain ⟨l1, l2, c, cost, hcb⟩ := h.cb
    obtain ⟨evs, h1, _⟩ := hlog
    exact ⟨evs ++ l1, l2, c, cost, by rw [h1, hcb]; simp⟩

theorem sweepPc_not_dead {pc : APc} (h : SweepPc pc) : pc ≠ .dead ∧ pc ≠ .stopAck := by
  cases pc <;> simp_all [SweepPc]

/-- a run segment inside one sweep during which no non-applier step touches the entry of `k` -/
inductive SweepSeg (cfg : Cfg) (k : Hash) : State → List Action → State → Prop
  | nil (s : State) : SweepSeg cfg k s [] s
  | applier {s s1 s' : State} {ch : Choice} {as : List Action} : s.app ≠ .idle → step cfg s (.applier ch) = some s1 →
      SweepSeg cfg k s1 as s' → SweepSeg cfg k s (.applier ch :: as) s'
  | other {s s1 s' : State} {a : Action} {as : List Action} : s.app ≠ .idle → (∀ ch, a ≠ .applier ch) →
      step cfg s a = some s1 → s1.store.lookup k = s.store.lookup k →
      SweepSeg cfg k s1 as s' → SweepSeg cfg k s (a :: as) s'

theorem SweepSeg.run {cfg : Cfg} {k : Hash} {s s' : State} {acts : List Action} (h : SweepSeg cfg k s acts s') :
    run cfg s acts = some s' := by
  induction h with
  | nil => rfl
  | applier _ hs _ ih => simp only [RV.Cache.run, hs]; exact ih
  | other _ _ hs _ _ ih => simp only [RV.Cache.run, hs]; exact ih

theorem phase_other_step {cfg : Cfg} {k : Hash} {e : Entry} {now : Time} {base : List Ev} {s s' : State} {a : Action}
    (hr : Reach cfg s) (h : Phase k e now (fun _ => True) base s) (hna : ∀ ch, a ≠ .applier ch)
    (hs : step cfg s a = some s') (hst : s'.store.lookup k = s.store.lookup k) :
    Phase k e now (fun _ => True) base s' := by
  have hsw := sweepPc_not_dead h.sweepPc
  cases a with
  | spawn t c =>
    have hs' : spawnStep s t c = some s' := hs
    exact phase_frame h (spawnStep_app _ _ _ hs') hst (by rw [spawnStep_pol _ _ _ hs']) (spawnStep_noevict hs')
  | client t ch =>
    have hs' : clientStep cfg s t ch = some s' := hs
    have hnb : (s.cl t).busy ≠ true := fun hb => hsw.1 ((handshake_reach hr).busy t hb)
    rcases clientStep_quietly hs' with ⟨h1, h2⟩ | hb
    · rcases clientStep_app' hs' with h3 | hb
      · exact phase_frame h h3 hst h2 h1
      · exact absurd hb hnb
    · exact absurd hb hnb
  | applier ch => exact absurd rfl (hna ch)
  | done t =>
    have hs' : doneStep s t = some s' := hs
    unfold doneStep at hs'
    split at hs'
    · rename_i happ _; exact absurd happ hsw.2
    · rename_i happ _; exact absurd happ hsw.2
    · simp at hs'
  | tick d =>
    simp only [step, Option.some.injEq] at hs; subst hs
    exact phase_frame h rfl rfl rfl (.of_eq rfl)

theorem phase_seg {cfg : Cfg} {k : Hash} {e : Entry} {now : Time} {base : List Ev} {s s' : State} {acts : List Action}
    (hz : e.exp ≠ Gen.zeroTime) (hle : e.exp ≤ now) (hr : Reach cfg s)
    (h : Phase k e now (fun _ => True) base s) (hseg : SweepSeg cfg k s acts s') :
    Phase k e now (fun _ => True) base s' := by
  induction hseg with
  | nil => exact h
  | applier hidle hs _ ih =>
    exact ih (hr.of_step hs) (phase_step (fun _ _ _ _ => trivial) hz hle h hidle hs)
  | other hidle hna hs hst _ ih =>
    exact ih (hr.of_step hs) (phase_other_step hr h hna hs hst)

/-- **One sweep reclaims a registered expired entry, whatever the clients do meanwhile to other keys.**
`b` is the bucket the entry is registered in. -/
theorem sweep_reclaims_interleaved {cfg : Cfg} {s s' : State} {k : Hash} {e : Entry} {b : Int} {m : AMap Hash Conf}
    {ch : Choice} {acts : List Action}
    (hr : Reach cfg s) (hpc : s.app = .tick) (hst : s.store.lookup k = some e) (hz : e.exp ≠ Gen.zeroTime)
    (hbok : BucketOk b) (hle : bucketOf e.exp ≤ b)
    (hreg : s.em.buckets.lookup b = some m) (hregk : m.lookup k = some e.conflict)
    (hlc : LcOk s.em.lastCleaned) (hnew : s.em.lastCleaned < b)
    (hcov : b ≤ cleanupOf s.clock) (hexp : TimeOk e.exp) (hclk : TimeOk s.clock)
    (hseg : SweepSeg cfg k s (.applier ch :: acts) s') (hidle : s'.app = .idle) :
    Reclaimed k e (fun _ => True) s.log s' := by
  have hlt := bucket_lt hexp hclk (Int.le_trans hle hcov)
  cases hseg with
  | other _ hna => exact absurd rfl (hna ch)
  | applier _ hs hrest =>
    have hs' : applierStep cfg s ch = some _ := hs
    simp only [applierStep, hpc] at hs'
    obtain ⟨_, hs'⟩ := needNone_some hs'
    simp only [Option.some.injEq] at hs'; subst hs'
    have hin := (inRange_iff hlc hbok (cleanupOf_ok s.clock)).mpr ⟨hnew, hcov⟩
    obtain ⟨hmem, _⟩ := grab_hit hreg hin
    have hph : Phase k e s.clock (fun _ => True) s.log (apTick s) :=
      .pending (s.em.grab s.clock).2 (by simp [apTick, PendingPc]) ⟨m, hmem, hregk⟩ hst rfl trivial
    exact phase_idle (phase_seg hz (Int.le_of_lt hlt) (hr.of_step hs) hph hrest) hidle

/-! ### a checkable form of `SweepSeg` (for concrete examples) -/

def APc.isIdle : APc → Bool | .idle => true | _ => false
def Action.isApplier : Action → Bool | .applier _ => true | _ => false

theorem APc.isIdle_false {pc : APc} (h : pc.isIdle = false) : pc ≠ .idle := by
  intro e; subst e; simp [APc.isIdle] at h

def segOk (cfg : Cfg) (k : Hash) : State → List Action → Bool
  | _, [] => true
  | s, a :: as =>
    !s.app.isIdle &&
      (match step cfg s a with
       | none => false
       | some s1 => (a.isApplier || decide (s1.store.lookup k = s.store.lookup k)) && segOk cfg k s1 as)

theorem sweepSeg_of_segOk {cfg : Cfg} {k : Hash} {s : State} {acts : List Action} (h : segOk cfg k s acts = true) :
    ∃ s', run cfg s acts = some s' ∧ SweepSeg cfg k s acts s' := by
  induction acts generalizing s with
  | nil => exact ⟨s, rfl, .nil s⟩
  | cons a as ih =>
    unfold segOk at h
    simp only [Bool.and_eq_true, Bool.not_eq_eq_eq_not, Bool.not_true] at h
    obtain ⟨hidle, h⟩ := h
    cases hs : step cfg s a with
    | none => simp [hs] at h
    | some s1 =>
      simp only [hs, Bool.and_eq_true, Bool.or_eq_true, decide_eq_true_eq] at h
      obtain ⟨s', hrun, hseg⟩ := ih h.2
      refine ⟨s', by simp only [run, hs]; exact hrun, ?_⟩
      cases a with
      | applier ch => exact .applier (APc.isIdle_false hidle) hs hseg
      | spawn t c =>
        exact .other (APc.isIdle_false hidle) (by intro ch e; cases e) hs (by simpa [Action.isApplier] using h.1) hseg
      | client t ch =>
        exact .other (APc.isIdle_false hidle) (by intro ch e; cases e) hs (by simpa [Action.isApplier] using h.1) hseg
      | done t =>
        exact .other (APc.isIdle_false hidle) (by intro ch e; cases e) hs (by simpa [Action.isApplier] using h.1) hseg
      | tick d =>
        exact .other (APc.isIdle_false hidle) (by intro ch e; cases e) hs (by simpa [Action.isApplier] using h.1) hseg

end RV.Cache
