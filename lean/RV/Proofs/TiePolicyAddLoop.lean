import RV.Proofs.TiePolicyAddLemmas
/-!
The eviction loop of `defaultPolicy.Add` as generated (`Gen.PolicyM.defaultPolicy_Add_loop1`, `GenL.whileL`)
against the model's `evictLoop`, by induction on the oracle of map enumerations (`loop_spec`).  Core Lean only.
-/
set_option linter.unusedSimpArgs false
namespace RV.TiePolicyAdd
open GenL Gen.PolicyM Gen.TinyLFUM RV.Policy RV.Tie RV.TieL

variable {Door V : Type} {ops : BloomOps Door}

/-- the victim record `Add` appends -/
def victimOf (zeroV : V) (k c : BitVec 64) : Item V :=
  { flag := 0#8, Key := k, Conflict := 0#64, Value := zeroV, Cost := c }

/-- one round of the eviction loop of `defaultPolicy.Add`, in terms of its pieces -/
theorem round_eq (zeroV : V) (p : DefaultPolicy Door) (ee : BitVec 64 → BitVec 64)
    (hE : ∀ k, tinyLFU_Estimate ops p.admit_ k = .ok (ee k))
    (key cost incHits room : BitVec 64) (sample : Array PolicyPair) (victims : Array (Item V))
    (effs : List Eff) (e : List (BitVec 64 × BitVec 64)) (rest : Orc) (hc : fullBefore sample.size = false) :
    defaultPolicy_Add_loop1 zeroV ops key cost incHits (p, room, sample, victims, effs, e :: rest) =
      (if Gen.Policy.addIncLess incHits ((enumA (fillArr sample e)).foldl (scanStep ee) initB).2.1 then
        .ok (.ret (p, victims, false, effs ++ [Eff.Metrics_add p.metrics_nonnil metric_rejectSets key 1#64], rest))
      else
        (swapArr (fillArr sample e) ((enumA (fillArr sample e)).foldl (scanStep ee) initB).2.2.1).bind fun s' =>
          .ok (.next ({ p with evict := (sampledLFU_del p.evict ((enumA (fillArr sample e)).foldl (scanStep ee) initB).1).1 },
            sampledLFU_roomLeft (sampledLFU_del p.evict ((enumA (fillArr sample e)).foldl (scanStep ee) initB).1).1 cost, s',
            victims.push (victimOf zeroV ((enumA (fillArr sample e)).foldl (scanStep ee) initB).1
              ((enumA (fillArr sample e)).foldl (scanStep ee) initB).2.2.2),
            effs ++ (sampledLFU_del p.evict ((enumA (fillArr sample e)).foldl (scanStep ee) initB).1).2, rest))) := by
  unfold defaultPolicy_Add_loop1
  simp only [sampledLFU_fillSample_eq, hc, Bool.false_eq_true, if_false, Res.bind_ok, scan_loop p ee hE]
  simp only [Gen.Policy.addIncLess, metric_rejectSets, swapArr, Gen.Policy.addLastIdx, Gen.Policy.addNewLen,
    victimOf, initB, Gen.Policy.addMinHitsInit]
  simp only [Res.bind_assoc]

/-! ### effects -/

/-- the `Metrics.add` calls of `sampledLFU.del(k)` on the model state `q` -/
def delEffs (nn : Bool) (q : Pol) (k : Hash) : List Eff :=
  match lookup q.keyCosts k with
  | none => []
  | some c => [Eff.Metrics_add nn metric_costEvict k (w64 c), Eff.Metrics_add nn metric_keyEvict k 1#64]

theorem sampledLFU_del_effs (g : SampledLFU) (k : BitVec 64) :
    (sampledLFU_del g k).2 = delEffs g.metrics_nonnil (absPol g) k := by
  unfold sampledLFU_del delEffs
  simp only [absPol, lookup_absKC]
  cases h : g.keyCosts.lookup k <;> simp [metric_costEvict, metric_keyEvict, w64_toInt]

theorem sampledLFU_del_frame (g : SampledLFU) (k : BitVec 64) :
    (sampledLFU_del g k).1.metrics_nonnil = g.metrics_nonnil := by
  unfold sampledLFU_del; dsimp only; split <;> rfl

/-- the `Metrics.add` calls of one round of the eviction loop -/
def roundEffs (nnP nnE : Bool) (key : Hash) (r : Round) : List Eff :=
  if r.rejected then [Eff.Metrics_add nnP metric_rejectSets key 1#64] else delEffs nnE r.before r.min.key

/-- … of the whole loop and the final `costAdd` -/
def loopEffs (nnP nnE : Bool) (key cost : BitVec 64) (o : AddOut) : List Eff :=
  o.rounds.flatMap (roundEffs nnP nnE key) ++ (if o.admitted then [Eff.Metrics_add nnP metric_costAdd key cost] else [])

/-- the fields of the policy object `Add`'s loop never touches -/
def Frame (p p' : DefaultPolicy Door) : Prop :=
  p'.admit_ = p.admit_ ∧ p'.isClosed = p.isClosed ∧ p'.metrics_nonnil = p.metrics_nonnil ∧
    p'.evict.metrics_nonnil = p.evict.metrics_nonnil

abbrev LoopSt (Door V : Type) := DefaultPolicy Door × BitVec 64 × Array PolicyPair × Array (Item V) × List Eff × Orc
abbrev AddRes (Door V : Type) := DefaultPolicy Door × Array (Item V) × Bool × List Eff × Orc

/-- what the generated loop yields, given what the model's `evictLoop` yields -/
def LoopOK (key cost : BitVec 64) (p : DefaultPolicy Door) (victims : Array (Item V)) (effs : List Eff) (orc : Orc)
    (o : AddOut) (r : Res (LoopRes (AddRes Door V) (LoopSt Door V))) : Prop :=
  match o.status with
  | .stuck => r = .stuck
  | .panic => r = .panic
  | .ok =>
    if o.admitted then
      ∃ p' room' s' v', r = .ok (.done (p', room', s', v',
          effs ++ o.rounds.flatMap (roundEffs p.metrics_nonnil p.evict.metrics_nonnil key), orc.drop o.rounds.length)) ∧
        (absPol p'.evict).evictAdd key cost.toInt = o.pol ∧ absV v' = absV victims ++ o.victims ∧ Frame p p'
    else
      ∃ p' v', r = .ok (.ret (p', v', false,
          effs ++ o.rounds.flatMap (roundEffs p.metrics_nonnil p.evict.metrics_nonnil key), orc.drop o.rounds.length)) ∧
        absPol p'.evict = o.pol ∧ absV v' = absV victims ++ o.victims ∧ Frame p p'

theorem size_fillArr_le (sample : Array PolicyPair) (e : List (BitVec 64 × BitVec 64))
    (hs : sample.size < Gen.Policy.lfuSample.toNat) : (fillArr sample e).size ≤ Gen.Policy.lfuSample.toNat := by
  have h5 := lfuSample_eq
  have hb : fullBefore sample.size = false := by rw [fullBefore_eq (by omega)]; simp; omega
  have h1 := absS_fillSample sample e
  rw [hb] at h1
  simp only [Bool.false_eq_true, if_false] at h1
  have h2 := length_fillSample (absS sample) (absE e) (by rw [absS_length]; omega)
  rw [h1, absS_length, absS_length] at h2
  omega

theorem loop_spec (zeroV : V) (adm : TinyLFU Door) (ee : BitVec 64 → BitVec 64)
    (hE : ∀ k, tinyLFU_Estimate ops adm k = .ok (ee k)) (key cost incHits : BitVec 64) :
    ∀ (orc : Orc) (fuel : Nat) (p : DefaultPolicy Door) (sample : Array PolicyPair) (victims : Array (Item V))
      (effs : List Eff), orc.length < fuel → p.admit_ = adm → sample.size < Gen.Policy.lfuSample.toNat →
      LoopOK key cost p victims effs orc
        (evictLoop (fun k => (ee k).toInt) key cost.toInt incHits.toInt (orc.map absE) (absPol p.evict) (absS sample))
        (whileL fuel defaultPolicy_Add_cond1 (defaultPolicy_Add_loop1 zeroV ops key cost incHits)
          (p, sampledLFU_roomLeft p.evict cost, sample, victims, effs, orc)) := by
  intro orc
  induction orc with
  | nil =>
    intro fuel p sample victims effs hf hadm hsz
    obtain ⟨fuel, rfl⟩ : ∃ n, fuel = n + 1 := ⟨fuel - 1, by simp at hf; omega⟩
    have h5 := lfuSample_eq
    have hb : fullBefore sample.size = false := by rw [fullBefore_eq (by omega)]; simp; omega
    simp only [List.map_nil, evictLoop, needRoom_eq, whileL, defaultPolicy_Add_cond1]
    by_cases hc : BitVec.slt (sampledLFU_roomLeft p.evict cost) 0#64 = true
    · simp only [hc, if_true, LoopOK]
      unfold defaultPolicy_Add_loop1
      simp only [sampledLFU_fillSample_eq, hb, Bool.false_eq_true, if_false, Res.bind_stuck]
    · simp only [hc, if_false, Bool.false_eq_true, LoopOK, if_true, List.flatMap_nil, List.append_nil,
        List.length_nil, List.drop_zero]
      exact ⟨p, _, sample, victims, rfl, rfl, by simp, rfl, rfl, rfl, rfl⟩
  | cons e rest ih =>
    intro fuel p sample victims effs hf hadm hsz
    obtain ⟨fuel, rfl⟩ : ∃ n, fuel = n + 1 := ⟨fuel - 1, by simp at hf; omega⟩
    have h5 := lfuSample_eq
    have hb : fullBefore sample.size = false := by rw [fullBefore_eq (by omega)]; simp; omega
    have hE' : ∀ k, tinyLFU_Estimate ops p.admit_ k = .ok (ee k) := by rw [hadm]; exact hE
    simp only [List.map_cons, evictLoop, needRoom_eq, whileL, defaultPolicy_Add_cond1]
    by_cases hc : BitVec.slt (sampledLFU_roomLeft p.evict cost) 0#64 = true
    · simp only [hc, if_true]
      rw [round_eq zeroV p ee hE' key cost incHits _ sample victims effs e rest hb]
      -- the pieces of the round, model side = generated side
      have hsA := size_fillArr_le sample e hsz
      have hfs : RV.Policy.fillSample (absS sample) (absE e) = absS (fillArr sample e) := by
        rw [absS_fillSample, hb]; rfl
      have hscan := scan_enumA ee (fillArr sample e) (by omega)
      rw [hfs, ← hscan]
      generalize hm : (enumA (fillArr sample e)).foldl (scanStep ee) initB = mB
      have hinc : incLess incHits.toInt (absMin mB).hits = Gen.Policy.addIncLess incHits mB.2.1 := by
        simp [incLess, absMin, w64_toInt]
      rw [hinc]
      by_cases hrej : Gen.Policy.addIncLess incHits mB.2.1 = true
      · simp only [hrej, if_true, Res.bind_ok, LoopOK, Bool.false_eq_true, if_false, List.flatMap_cons,
          List.flatMap_nil, List.append_nil, List.length_cons, List.length_nil]
        exact ⟨p, victims, by simp [roundEffs], rfl, by simp, rfl, rfl, rfl, rfl⟩
      · simp only [hrej, if_false, Bool.false_eq_true]
        have hsw := swapArr_spec (fillArr sample e) mB.2.2.1 (by omega)
        have hid : (absMin mB).id = mB.2.2.1.toNat := rfl
        rw [hid]
        cases hsr : swapRemove (absS (fillArr sample e)) mB.2.2.1.toNat with
        | none =>
          rw [hsr] at hsw
          simp only [hsw, Res.bind_panic, LoopOK]
        | some l =>
          rw [hsr] at hsw
          obtain ⟨s', hs1, hs2, hs3⟩ := hsw
          simp only [hs1, Res.bind_ok]
          have hdel : (absPol p.evict).del (absMin mB).key = absPol (sampledLFU_del p.evict mB.1).1 :=
            (sampledLFU_del_eq p.evict mB.1).symm
          rw [hdel, ← hs2]
          have IH := ih fuel { p with evict := (sampledLFU_del p.evict mB.1).1 } s'
            (victims.push (victimOf zeroV mB.1 mB.2.2.2)) (effs ++ (sampledLFU_del p.evict mB.1).2)
            (by simp at hf; omega) hadm (by omega)
          revert IH
          generalize evictLoop (fun k => (ee k).toInt) key cost.toInt incHits.toInt (rest.map absE)
            (absPol (sampledLFU_del p.evict mB.1).1) (absS s') = o
          generalize whileL fuel defaultPolicy_Add_cond1 (defaultPolicy_Add_loop1 zeroV ops key cost incHits)
            ({ p with evict := (sampledLFU_del p.evict mB.1).1 },
              sampledLFU_roomLeft (sampledLFU_del p.evict mB.1).1 cost, s',
              victims.push (victimOf zeroV mB.1 mB.2.2.2), effs ++ (sampledLFU_del p.evict mB.1).2, rest) = r
          intro IH
          have hre : roundEffs p.metrics_nonnil p.evict.metrics_nonnil key
              { before := absPol p.evict, carry := absS sample, enum := absE e, sample := absS (fillArr sample e),
                min := absMin mB, rejected := false } = (sampledLFU_del p.evict mB.1).2 := by
            simp [roundEffs, sampledLFU_del_effs]; rfl
          have hv : absV (victims.push (victimOf zeroV mB.1 mB.2.2.2)) = absV victims ++ [((absMin mB).key, (absMin mB).cost)] := by
            simp [absV, victimOf, absMin]
          simp only [LoopOK] at IH ⊢
          cases hst : o.status <;> simp only [hst] at IH ⊢
          · by_cases hadmit : o.admitted = true
            · simp only [hadmit, if_true] at IH ⊢
              obtain ⟨p', room', s'', v', h1, h2, h3, h4, h5', h6, h7⟩ := IH
              refine ⟨p', room', s'', v', ?_, h2, by rw [h3, hv]; simp, h4, h5', h6, ?_⟩
              · rw [h1]; simp [hre, sampledLFU_del_frame, List.append_assoc]
              · rw [h7]; exact sampledLFU_del_frame _ _
            · simp only [hadmit, if_false, Bool.false_eq_true] at IH ⊢
              obtain ⟨p', v', h1, h2, h3, h4, h5', h6, h7⟩ := IH
              refine ⟨p', v', ?_, h2, by rw [h3, hv]; simp, h4, h5', h6, ?_⟩
              · rw [h1]; simp [hre, sampledLFU_del_frame, List.append_assoc]
              · rw [h7]; exact sampledLFU_del_frame _ _
          · rw [IH]
          · rw [IH]
    · simp only [hc, if_false, Bool.false_eq_true, LoopOK, if_true, List.flatMap_nil, List.append_nil,
        List.length_nil, List.drop_zero]
      exact ⟨p, _, sample, victims, rfl, rfl, by simp, rfl, rfl, rfl, rfl⟩


/-- the `Metrics.add` calls of `sampledLFU.updateIfHas` -/
def updEffs (nn : Bool) (q : Pol) (key cost : BitVec 64) : List Eff :=
  match lookup q.keyCosts key with
  | none => []
  | some prev =>
    Eff.Metrics_add nn metric_keyUpdate key 1#64 ::
      (if updLowerOrRaise prev cost.toInt then [Eff.Metrics_add nn metric_costAdd key (updMetricDelta prev cost.toInt)] else [])
where updLowerOrRaise (prev cost : Int) : Bool :=
  Gen.Policy.updLower (w64 prev) (w64 cost) || Gen.Policy.updRaise (w64 cost) (w64 prev)

/-- `-x` and `^(x-1)` are the same two's-complement negation (either spelling of the source is
normalised to the second) -/
theorem neg_eq_not_sub_one (x : BitVec 64) : -x = ~~~(x - 1#64) := by bv_omega

theorem sampledLFU_updateIfHas_effs (g : SampledLFU) (k c : BitVec 64) :
    (sampledLFU_updateIfHas g k c).2.2 = updEffs g.metrics_nonnil (absPol g) k c := by
  unfold sampledLFU_updateIfHas updEffs updEffs.updLowerOrRaise updMetricDelta
  try simp only [neg_eq_not_sub_one]
  simp only [absPol, lookup_absKC]
  cases h : g.keyCosts.lookup k with
  | none => simp
  | some prev =>
    simp only [Option.isSome_some, if_true, Option.getD_some, Option.map_some, w64_toInt,
      Gen.Policy.updLower, Gen.Policy.updRaise, Gen.Policy.updMetricDown, Gen.Policy.updDiffDown,
      Gen.Policy.updMetricUp, Gen.Policy.updDiffUp, metric_keyUpdate, metric_costAdd]
    by_cases h1 : BitVec.slt c prev = true
    · simp [h1]
    · by_cases h2 : BitVec.slt prev c = true
      · simp [h1, h2]
      · simp [h1, h2]

theorem sampledLFU_updateIfHas_frame (g : SampledLFU) (k c : BitVec 64) :
    (sampledLFU_updateIfHas g k c).1.metrics_nonnil = g.metrics_nonnil := by
  unfold sampledLFU_updateIfHas; dsimp only; split <;> rfl

theorem sampledLFU_updateIfHas_false (g : SampledLFU) (k c : BitVec 64)
    (h : (sampledLFU_updateIfHas g k c).2.1 = false) :
    (sampledLFU_updateIfHas g k c).1 = g ∧ (sampledLFU_updateIfHas g k c).2.2 = [] ∧
      lookup (absPol g).keyCosts k = none := by
  unfold sampledLFU_updateIfHas at h ⊢
  simp only [absPol, lookup_absKC]
  cases hl : g.keyCosts.lookup k <;> simp_all

end RV.TiePolicyAdd
