import RV.Model.Simd
namespace RV.SimdProofs
open RV.X86 RV.Simd Gen.SimdAsm

theorem addr_off (b : BitVec 64) (i d : Nat) (hi : i < 2^16) (hd : d < 2^16) :
    (b + BitVec.ofNat 64 i * 8#64 + BitVec.ofNat 64 d - b).toNat = 8*i + d := by
  bv_omega

/-- machine states of the routine after the prologue -/
def T (fr : Frame) (pc : Nat) (bp bx : BitVec 64) (fl : Option (BitVec 64 × BitVec 64)) (rd : List Nat) : State :=
  { pc := pc, ax := fr.base, bx := bx, cx := fr.len, dx := fr.k, bp := bp,
    flags := fl, ret := none, reads := rd, status := .running }

theorem step_T (fr pc bp bx fl rd) :
    step searchProg fr (T fr pc bp bx fl rd) =
      match searchProg[pc]? with
      | some ins => exec fr (T fr pc bp bx fl rd) ins
      | none => (T fr pc bp bx fl rd).fail := rfl

theorem exec_cmp_mem (fr : Frame) (pc i d : Nat) (bx fl rd) (hi : i < 2^16) (hd : d % 8 = 0) (hd2 : d < 2^16) :
    exec fr (T fr pc (BitVec.ofNat 64 i) bx fl rd) (.cmpq (.mem d .ax .bp 8) (.reg .dx)) =
      T fr (pc + 1) (BitVec.ofNat 64 i) bx (some (fr.mem (i + d / 8), fr.k)) ((i + d / 8) :: rd) := by
  have h0 := addr_off fr.base i d hi hd2
  have h1 : (8 * i + d) % 8 = 0 := by omega
  have h2 : (8 * i + d) / 8 = i + d / 8 := by omega
  simp [exec, readOpd, T, State.get, h0, h1, h2]

theorem exec_jae (fr pc bp bx a b rd t) :
    exec fr (T fr pc bp bx (some (a, b)) rd) (.jae t) =
      T fr (if b ≤ a then t else pc + 1) bp bx (some (a, b)) rd := by
  simp [exec, condJump, T]

theorem exec_jb (fr pc bp bx a b rd t) :
    exec fr (T fr pc bp bx (some (a, b)) rd) (.jb t) =
      T fr (if a < b then t else pc + 1) bp bx (some (a, b)) rd := by
  simp [exec, condJump, T]

theorem exec_jmp (fr pc bp bx fl rd t) :
    exec fr (T fr pc bp bx fl rd) (.jmp t) = T fr t bp bx fl rd := by
  simp [exec, T]

theorem exec_addq_imm_bp (fr pc bp bx fl rd v) :
    exec fr (T fr pc bp bx fl rd) (.addq (.imm v) (.reg .bp)) = T fr (pc + 1) (bp + BitVec.ofNat 64 v) bx none rd := by
  simp [exec, arith, readOpd, T, State.get, State.set]

theorem exec_addl_imm_bp (fr pc bp bx fl rd v) :
    exec fr (T fr pc bp bx fl rd) (.addl (.imm v) (.reg .bp)) = T fr (pc + 1) (lo32 (bp + BitVec.ofNat 64 v)) bx none rd := by
  simp [exec, arith, readOpd, T, State.get, State.set]

theorem exec_addl_bx_bp (fr pc bp bx fl rd) :
    exec fr (T fr pc bp bx fl rd) (.addl (.reg .bx) (.reg .bp)) = T fr (pc + 1) (lo32 (bp + bx)) bx none rd := by
  simp [exec, arith, readOpd, T, State.get, State.set]

theorem exec_shrl_imm_bp (fr pc bp bx fl rd v) (hv : v < 32) :
    exec fr (T fr pc bp bx fl rd) (.shrl (.imm v) (.reg .bp)) = T fr (pc + 1) (lo32 bp >>> v) bx none rd := by
  have : v % 18446744073709551616 % 32 = v := by omega
  simp [exec, arith, readOpd, T, State.get, State.set, this]

theorem exec_cmp_bp_cx (fr pc bp bx fl rd) :
    exec fr (T fr pc bp bx fl rd) (.cmpq (.reg .bp) (.reg .cx)) = T fr (pc + 1) bp bx (some (bp, fr.len)) rd := by
  simp [exec, readOpd, T, State.get]

theorem exec_movl_bp_bx (fr pc bp bx fl rd) :
    exec fr (T fr pc bp bx fl rd) (.movl (.reg .bp) (.reg .bx)) = T fr (pc + 1) bp (lo32 bp) fl rd := by
  simp [exec, readOpd, T, State.get, State.set, writeReg]

theorem exec_movl_bx_bp (fr pc bp bx fl rd) :
    exec fr (T fr pc bp bx fl rd) (.movl (.reg .bx) (.reg .bp)) = T fr (pc + 1) (lo32 bx) bx fl rd := by
  simp [exec, readOpd, T, State.get, State.set, writeReg]




theorem lo32_ofNat (v : Nat) (hv : v < 2^32) : lo32 (BitVec.ofNat 64 v) = BitVec.ofNat 64 v := by
  apply BitVec.eq_of_toNat_eq
  simp [lo32]; omega

theorem half_arith (v : Nat) (hv : v < 2^31) :
    (lo32 (lo32 (BitVec.ofNat 64 v >>> 31 + BitVec.ofNat 64 v)) >>> 1).setWidth 32
      = BitVec.ofNat 32 (v / 2) := by
  apply BitVec.eq_of_toNat_eq
  simp [lo32, Nat.shiftRight_eq_div_pow]
  omega

/-- symbolic execution of the routine on `T` states -/
macro "x86_sym" "[" ts:Lean.Parser.Tactic.simpLemma,* "]" : tactic =>
  `(tactic| simp only [runN, step_T, at_5, at_6, at_7, at_8, at_9, at_10, at_11, at_12, at_13, at_14, at_15,
      at_16, at_17, at_18, at_19, at_20, at_21, at_22, at_23, at_24, at_25, at_26, at_27, at_28,
      exec_jae, exec_jb, exec_jmp, exec_addq_imm_bp, exec_addl_imm_bp, exec_addl_bx_bp, exec_cmp_bp_cx,
      exec_movl_bp_bx, exec_movl_bx_bp, Nat.reduceAdd, Nat.reduceDiv, Nat.add_zero, ↓reduceIte, $ts,*])

/-- pc 23 … 28 (`NotFound:`): BX holds the word index `v` to report -/
theorem finish_notfound (fr : Frame) (v : Nat) (hv : v < 2^31) (bp fl rd) :
    ∃ s', runN searchProg fr 6 (T fr 23 bp (BitVec.ofNat 64 v) fl rd) = s' ∧
      s'.status = .done ∧ s'.ret = some (BitVec.ofNat 32 (v / 2)) ∧ s'.reads = rd := by
  refine ⟨_, rfl, ?_⟩
  x86_sym [exec_shrl_imm_bp _ _ _ _ _ _ 31 (by decide), exec_shrl_imm_bp _ _ _ _ _ _ 1 (by decide)]
  simp [step, T, at_28, exec, readOpd, State.get, lo32_ofNat v (by omega), half_arith v hv]

/-- pc 22 … 28 (`Found:`): BP holds the word index `v` to report -/
theorem finish_found (fr : Frame) (v : Nat) (hv : v < 2^31) (bx fl rd) :
    ∃ s', runN searchProg fr 7 (T fr 22 (BitVec.ofNat 64 v) bx fl rd) = s' ∧
      s'.status = .done ∧ s'.ret = some (BitVec.ofNat 32 (v / 2)) ∧ s'.reads = rd := by
  obtain ⟨s', h1, h2⟩ := finish_notfound fr v hv (BitVec.ofNat 64 v) fl rd
  refine ⟨s', ?_, h2⟩
  rw [← h1]
  x86_sym [lo32_ofNat v (by omega)]



theorem ofNat_add' (a b : Nat) : BitVec.ofNat 64 a + BitVec.ofNat 64 b = BitVec.ofNat 64 (a + b) :=
  (BitVec.ofNat_add a b).symm

theorem ofNat_lt_iff (a b : Nat) (ha : a < 2^64) (hb : b < 2^64) :
    BitVec.ofNat 64 a < BitVec.ofNat 64 b ↔ a < b := by
  rw [BitVec.lt_def]; simp [BitVec.toNat_ofNat]; omega

section iter
variable (fr : Frame) (i : Nat) (bx : BitVec 64) (fl : Option (BitVec 64 × BitVec 64)) (rd : List Nat)
  (hi : i < 2^16)
include hi

theorem iter_found0 (h0 : fr.k ≤ fr.mem i) :
    runN searchProg fr 2 (T fr 5 (BitVec.ofNat 64 i) bx fl rd) =
      T fr 22 (BitVec.ofNat 64 i) bx (some (fr.mem i, fr.k)) (i :: rd) := by
  x86_sym [exec_cmp_mem fr _ i 0 _ _ _ hi (by decide) (by decide), h0]

theorem iter_found1 (h0 : ¬ fr.k ≤ fr.mem i) (h1 : fr.k ≤ fr.mem (i + 2)) :
    runN searchProg fr 6 (T fr 5 (BitVec.ofNat 64 i) bx fl rd) =
      T fr 22 (BitVec.ofNat 64 (i + 2)) bx none ((i + 2) :: i :: rd) := by
  x86_sym [exec_cmp_mem fr _ i 0 _ _ _ hi (by decide) (by decide),
    exec_cmp_mem fr _ i 16 _ _ _ hi (by decide) (by decide), h0, h1, ofNat_add', lo32_ofNat (i + 2) (by omega)]

theorem iter_found2 (h0 : ¬ fr.k ≤ fr.mem i) (h1 : ¬ fr.k ≤ fr.mem (i + 2)) (h2 : fr.k ≤ fr.mem (i + 4)) :
    runN searchProg fr 8 (T fr 5 (BitVec.ofNat 64 i) bx fl rd) =
      T fr 22 (BitVec.ofNat 64 (i + 4)) bx none ((i + 4) :: (i + 2) :: i :: rd) := by
  x86_sym [exec_cmp_mem fr _ i 0 _ _ _ hi (by decide) (by decide),
    exec_cmp_mem fr _ i 16 _ _ _ hi (by decide) (by decide),
    exec_cmp_mem fr _ i 32 _ _ _ hi (by decide) (by decide), h0, h1, h2, ofNat_add', lo32_ofNat (i + 4) (by omega)]

theorem iter_found3 (h0 : ¬ fr.k ≤ fr.mem i) (h1 : ¬ fr.k ≤ fr.mem (i + 2)) (h2 : ¬ fr.k ≤ fr.mem (i + 4))
    (h3 : fr.k ≤ fr.mem (i + 6)) :
    runN searchProg fr 9 (T fr 5 (BitVec.ofNat 64 i) bx fl rd) =
      T fr 22 (BitVec.ofNat 64 (i + 6)) bx none ((i + 6) :: (i + 4) :: (i + 2) :: i :: rd) := by
  x86_sym [exec_cmp_mem fr _ i 0 _ _ _ hi (by decide) (by decide),
    exec_cmp_mem fr _ i 16 _ _ _ hi (by decide) (by decide),
    exec_cmp_mem fr _ i 32 _ _ _ hi (by decide) (by decide),
    exec_cmp_mem fr _ i 48 _ _ _ hi (by decide) (by decide), h0, h1, h2, h3, ofNat_add', lo32_ofNat (i + 6) (by omega)]

theorem iter_none (h0 : ¬ fr.k ≤ fr.mem i) (h1 : ¬ fr.k ≤ fr.mem (i + 2)) (h2 : ¬ fr.k ≤ fr.mem (i + 4))
    (h3 : ¬ fr.k ≤ fr.mem (i + 6)) :
    runN searchProg fr 10 (T fr 5 (BitVec.ofNat 64 i) bx fl rd) =
      T fr 15 (BitVec.ofNat 64 (i + 8)) bx (some (BitVec.ofNat 64 (i + 8), fr.len))
        ((i + 6) :: (i + 4) :: (i + 2) :: i :: rd) := by
  x86_sym [exec_cmp_mem fr _ i 0 _ _ _ hi (by decide) (by decide),
    exec_cmp_mem fr _ i 16 _ _ _ hi (by decide) (by decide),
    exec_cmp_mem fr _ i 32 _ _ _ hi (by decide) (by decide),
    exec_cmp_mem fr _ i 48 _ _ _ hi (by decide) (by decide), h0, h1, h2, h3, ofNat_add']

end iter

theorem back_edge (fr : Frame) (n i : Nat) (hlen : fr.len = BitVec.ofNat 64 n) (hn : n < 2^16) (hi : i < 2^16)
    (bx rd) (h : i < n) :
    runN searchProg fr 1 (T fr 15 (BitVec.ofNat 64 i) bx (some (BitVec.ofNat 64 i, fr.len)) rd) =
      T fr 5 (BitVec.ofNat 64 i) bx (some (BitVec.ofNat 64 i, fr.len)) rd := by
  have : BitVec.ofNat 64 i < fr.len := by rw [hlen, ofNat_lt_iff _ _ (by omega) (by omega)]; exact h
  x86_sym [this]

theorem exit_edge (fr : Frame) (n i : Nat) (hlen : fr.len = BitVec.ofNat 64 n) (hn : n < 2^16) (hi : i < 2^16)
    (bx rd) (h : ¬ i < n) :
    runN searchProg fr 2 (T fr 15 (BitVec.ofNat 64 i) bx (some (BitVec.ofNat 64 i, fr.len)) rd) =
      T fr 23 (BitVec.ofNat 64 i) bx (some (BitVec.ofNat 64 i, fr.len)) rd := by
  have : ¬ BitVec.ofNat 64 i < fr.len := by rw [hlen, ofNat_lt_iff _ _ (by omega) (by omega)]; exact h
  x86_sym [this]



/-! ### the loop invariant -/

theorem isFirst_found (mem : Nat → BitVec 64) (n : Nat) (k : BitVec 64) (i p : Nat)
    (hi : i % 2 = 0) (hp : p % 2 = 0) (hpn : p < n)
    (inv : ∀ j, 2 * j < i → mem (2 * j) < k)
    (hbetween : ∀ q, i ≤ q → q < p → q % 2 = 0 → mem q < k) (hge : k ≤ mem p) :
    IsFirst mem (n / 2) k (p / 2) := by
  refine ⟨by omega, fun j' hj' => ?_, fun _ => ?_⟩
  · by_cases h : 2 * j' < i
    · exact inv j' h
    · exact hbetween (2 * j') (by omega) (by omega) (by omega)
  · have : 2 * (p / 2) = p := by omega
    rw [this]; exact hge

theorem isFirst_none (mem : Nat → BitVec 64) (n : Nat) (k : BitVec 64) (hn : n % 2 = 0)
    (inv : ∀ j, 2 * j < n → mem (2 * j) < k) : IsFirst mem (n / 2) k (n / 2) :=
  ⟨Nat.le_refl _, fun j' hj' => inv j' (by omega), fun h => absurd h (Nat.lt_irrefl _)⟩

/-- the routine returned, reported `j`, `j` is the right answer, and all reads were inside the slice -/
def Good (fr : Frame) (n : Nat) (s : State) : Prop :=
  s.status = .done ∧ (∃ j, s.ret = some (BitVec.ofNat 32 j) ∧ IsFirst fr.mem (n / 2) fr.k j) ∧
    ∀ x ∈ s.reads, x < n

theorem good_found (fr : Frame) (n i p a : Nat) (hn : n < 2^16) (bx fl rd)
    (hi : i % 2 = 0) (hp : p % 2 = 0) (hpn : p < n)
    (inv : ∀ j, 2 * j < i → fr.mem (2 * j) < fr.k)
    (hbetween : ∀ q, i ≤ q → q < p → q % 2 = 0 → fr.mem q < fr.k) (hge : fr.k ≤ fr.mem p)
    (hrd : ∀ x ∈ rd, x < n) (s : State)
    (hs : runN searchProg fr a s = T fr 22 (BitVec.ofNat 64 p) bx fl rd) :
    Good fr n (runN searchProg fr (a + 7) s) := by
  obtain ⟨s', h1, h2, h3, h4⟩ := finish_found fr p (by omega) bx fl rd
  rw [runN_add, hs, h1]
  exact ⟨h2, ⟨p / 2, h3, isFirst_found fr.mem n fr.k i p hi hp hpn inv hbetween hge⟩, by rw [h4]; exact hrd⟩

theorem iter_cases (fr : Frame) (n : Nat) (hn : n < 2^16) (i : Nat)
    (hi2 : i % 2 = 0) (hin : i + 8 ≤ n) (fl rd)
    (inv : ∀ j, 2 * j < i → fr.mem (2 * j) < fr.k) (hrd : ∀ x ∈ rd, x < n) :
    (∃ m, m ≤ 16 ∧ Good fr n (runN searchProg fr m (T fr 5 (BitVec.ofNat 64 i) fr.len fl rd))) ∨
    ((∀ j, 2 * j < i + 8 → fr.mem (2 * j) < fr.k) ∧
      runN searchProg fr 10 (T fr 5 (BitVec.ofNat 64 i) fr.len fl rd) =
        T fr 15 (BitVec.ofNat 64 (i + 8)) fr.len (some (BitVec.ofNat 64 (i + 8), fr.len))
          ((i + 6) :: (i + 4) :: (i + 2) :: i :: rd)) := by
  have hi : i < 2^16 := by omega
  by_cases h0 : fr.k ≤ fr.mem i
  · left
    refine ⟨2 + 7, by omega, good_found fr n i i 2 hn _ _ _ hi2 hi2 (by omega) inv ?_ h0 ?_ _
      (iter_found0 fr i fr.len fl rd hi h0)⟩
    · intro q h1 h2 _; omega
    · intro x hx; simp only [List.mem_cons] at hx; rcases hx with rfl | hx
      · omega
      · exact hrd x hx
  by_cases h1 : fr.k ≤ fr.mem (i + 2)
  · left
    refine ⟨6 + 7, by omega, good_found fr n i (i + 2) 6 hn _ _ _ hi2 (by omega) (by omega) inv ?_ h1 ?_ _
      (iter_found1 fr i fr.len fl rd hi h0 h1)⟩
    · intro q h1 h2 h3
      have : q = i := by omega
      subst this; exact BitVec.not_le.mp h0
    · intro x hx; simp only [List.mem_cons] at hx; rcases hx with rfl | rfl | hx
      · omega
      · omega
      · exact hrd x hx
  by_cases h2 : fr.k ≤ fr.mem (i + 4)
  · left
    refine ⟨8 + 7, by omega, good_found fr n i (i + 4) 8 hn _ _ _ hi2 (by omega) (by omega) inv ?_ h2 ?_ _
      (iter_found2 fr i fr.len fl rd hi h0 h1 h2)⟩
    · intro q h1' h2' h3'
      have : q = i ∨ q = i + 2 := by omega
      rcases this with rfl | rfl
      · exact BitVec.not_le.mp h0
      · exact BitVec.not_le.mp h1
    · intro x hx; simp only [List.mem_cons] at hx; rcases hx with rfl | rfl | rfl | hx
      · omega
      · omega
      · omega
      · exact hrd x hx
  by_cases h3 : fr.k ≤ fr.mem (i + 6)
  · left
    refine ⟨9 + 7, by omega, good_found fr n i (i + 6) 9 hn _ _ _ hi2 (by omega) (by omega) inv ?_ h3 ?_ _
      (iter_found3 fr i fr.len fl rd hi h0 h1 h2 h3)⟩
    · intro q h1' h2' h3'
      have : q = i ∨ q = i + 2 ∨ q = i + 4 := by omega
      rcases this with rfl | rfl | rfl
      · exact BitVec.not_le.mp h0
      · exact BitVec.not_le.mp h1
      · exact BitVec.not_le.mp h2
    · intro x hx; simp only [List.mem_cons] at hx; rcases hx with rfl | rfl | rfl | rfl | hx
      · omega
      · omega
      · omega
      · omega
      · exact hrd x hx
  · right
    refine ⟨?_, iter_none fr i fr.len fl rd hi h0 h1 h2 h3⟩
    intro j hj
    by_cases hlt : 2 * j < i
    · exact inv j hlt
    · have : 2 * j = i ∨ 2 * j = i + 2 ∨ 2 * j = i + 4 ∨ 2 * j = i + 6 := by omega
      rcases this with h | h | h | h <;> rw [h]
      · exact BitVec.not_le.mp h0
      · exact BitVec.not_le.mp h1
      · exact BitVec.not_le.mp h2
      · exact BitVec.not_le.mp h3

theorem mem_reads4 {n i : Nat} {rd : List Nat} (hin : i + 8 ≤ n) (hrd : ∀ x ∈ rd, x < n) :
    ∀ x ∈ (i + 6) :: (i + 4) :: (i + 2) :: i :: rd, x < n := by
  intro x hx; simp only [List.mem_cons] at hx; rcases hx with rfl | rfl | rfl | rfl | hx
  · omega
  · omega
  · omega
  · omega
  · exact hrd x hx

theorem loop_spec (fr : Frame) (n : Nat) (hlen : fr.len = BitVec.ofNat 64 n) (hn : n < 2^16) (h8 : n % 8 = 0) :
    ∀ d i fl rd, i + 8 * (d + 1) = n → (∀ j, 2 * j < i → fr.mem (2 * j) < fr.k) → (∀ x ∈ rd, x < n) →
      ∃ m, m ≤ 11 * d + 18 ∧ Good fr n (runN searchProg fr m (T fr 5 (BitVec.ofNat 64 i) fr.len fl rd)) := by
  intro d
  induction d with
  | zero =>
    intro i fl rd hd inv hrd
    rcases iter_cases fr n hn i (by omega) (by omega) fl rd inv hrd with ⟨m, hm, hg⟩ | ⟨inv', hrun⟩
    · exact ⟨m, by omega, hg⟩
    · refine ⟨10 + 2 + 6, by omega, ?_⟩
      have hin : i + 8 = n := by omega
      rw [runN_add, runN_add, hrun, exit_edge fr n (i + 8) hlen hn (by omega) _ _ (by omega)]
      obtain ⟨s', h1, h2, h3, h4⟩ := finish_notfound fr n (by omega) (BitVec.ofNat 64 (i + 8))
        (some (BitVec.ofNat 64 (i + 8), fr.len)) ((i + 6) :: (i + 4) :: (i + 2) :: i :: rd)
      rw [hlen] at h1 ⊢
      rw [h1]
      refine ⟨h2, ⟨n / 2, h3, isFirst_none fr.mem n fr.k (by omega) (by rw [← hin]; exact inv')⟩, ?_⟩
      rw [h4]; exact mem_reads4 (by omega) hrd
  | succ d ih =>
    intro i fl rd hd inv hrd
    rcases iter_cases fr n hn i (by omega) (by omega) fl rd inv hrd with ⟨m, hm, hg⟩ | ⟨inv', hrun⟩
    · exact ⟨m, by omega, hg⟩
    · obtain ⟨m, hm, hg⟩ := ih (i + 8) (some (BitVec.ofNat 64 (i + 8), fr.len))
        ((i + 6) :: (i + 4) :: (i + 2) :: i :: rd) (by omega) inv' (mem_reads4 (by omega) hrd)
      refine ⟨10 + 1 + m, by omega, ?_⟩
      rw [runN_add, runN_add, hrun, back_edge fr n (i + 8) hlen hn (by omega) _ _ (by omega)]
      exact hg



/-- pc 0 … 4: the prologue, whatever the registers held on entry -/
theorem prologue (fr : Frame) (g : Reg → BitVec 64) :
    runN searchProg fr 5 (entry g) = T fr 5 (BitVec.ofNat 64 0) fr.len none [] := by
  simp [runN, step, entry, at_0, at_1, at_2, at_3, at_4, exec, readOpd, writeReg, arith, State.get,
    State.set, lo32, T]

theorem setWidth16_ofNat32 (j : Nat) : (BitVec.ofNat 32 j).setWidth 16 = BitVec.ofNat 16 j := by
  apply BitVec.eq_of_toNat_eq
  simp

/-- The assembly routine on a slice whose length is a non-zero multiple of 8 (and whose key count
fits `int16`): it returns, the result is the first key `≥ k` (or `len/2`), every read is inside the
slice — whatever lies behind the slice, whatever the registers held, wherever the slice lives. -/
theorem asm_spec (e : Env) (mem : Nat → BitVec 64) (n : Nat) (k : BitVec 64)
    (h8 : n % 8 = 0) (hpos : 0 < n) (hn : n / 2 < 2 ^ 15) :
    ∃ j, searchAsm e mem (BitVec.ofNat 64 n) k = some (BitVec.ofNat 16 j) ∧
      IsFirst mem (n / 2) k j ∧ ∀ x ∈ (asmRun e mem (BitVec.ofNat 64 n) k).reads, x < n := by
  have hn' : n < 2 ^ 16 := by omega
  obtain ⟨m, hm, hdone, ⟨j, hret, hfirst⟩, hreads⟩ :=
    loop_spec (asmFrame e mem (BitVec.ofNat 64 n) k) n rfl hn' h8 (n / 8 - 1) 0 none []
      (by omega) (fun j hj => absurd hj (Nat.not_lt_zero _)) (fun x hx => absurd hx List.not_mem_nil)
  have hfuel : 5 + m ≤ asmFuel (BitVec.ofNat 64 n) := by
    simp only [asmFuel, BitVec.toNat_ofNat]
    have : n % 2 ^ 64 = n := Nat.mod_eq_of_lt (by omega)
    omega
  have hrun : asmRun e mem (BitVec.ofNat 64 n) k =
      runN searchProg (asmFrame e mem (BitVec.ofNat 64 n) k) m
        (T (asmFrame e mem (BitVec.ofNat 64 n) k) 5 (BitVec.ofNat 64 0)
          (asmFrame e mem (BitVec.ofNat 64 n) k).len none []) := by
    unfold asmRun
    rw [runN_stable (m := 5 + m) _ hfuel, runN_add, prologue]
    rw [runN_add, prologue, hdone]; decide
  refine ⟨j, ?_, hfirst, ?_⟩
  · unfold searchAsm State.result
    rw [hrun, hdone, hret]
    simp only [setWidth16_ofNat32]
  · rw [hrun]; exact hreads

end RV.SimdProofs
