import RV.Proofs.CacheFrames2
import RV.Proofs.CacheCases
/-!
# Two small invariants needed at the base point of the C15 bisimulation

For every reachable state: (1) with metrics off the metrics record is never written
(`met = {}`); (2) the sweep position `em.lastCleaned` is the cleanup bucket of an instant that is
not in the future (`lastCleaned` is written only by `init`, by the sweep's bucket grab and by
`Clear`, each time with the bucket of the current clock, and the clock only grows).
-/
namespace RV.Cache
open Gen.Cache

/-! ### what the store / policy primitives do to `lastCleaned` / `met` -/

theorem bsi_em_update_lc (em : Em) (k : Hash) (c : Conf) (o n : Time) :
    (em.update k c o n).lastCleaned = em.lastCleaned := by
  unfold Em.update; dsimp only; split <;> rfl

theorem bsi_em_add_lc (em : Em) (k : Hash) (c : Conf) (e : Time) : (em.add k c e).lastCleaned = em.lastCleaned := by
  unfold Em.add; split <;> rfl

theorem bsi_em_del_lc (em : Em) (k : Hash) (e : Time) : (em.del k e).lastCleaned = em.lastCleaned := by
  unfold Em.del; dsimp only; split <;> rfl

theorem bsi_storeUpdate_lc (cfg : Cfg) (st : Store) (em : Em) (i : Item) :
    (storeUpdate cfg st em i).2.1.lastCleaned = em.lastCleaned := by
  unfold storeUpdate
  split
  · rfl
  · split
    · rfl
    · dsimp only
      split
      · rfl
      · exact bsi_em_update_lc ..

theorem bsi_storeSet_lc (cfg : Cfg) (st : Store) (em : Em) (i : Item) :
    (storeSet cfg st em i).2.lastCleaned = em.lastCleaned := by
  unfold storeSet
  split
  · split
    · rfl
    · dsimp only
      split
      · rfl
      · exact bsi_em_update_lc ..
  · exact bsi_em_add_lc ..

theorem bsi_storeDel_lc (st : Store) (em : Em) (k : Hash) (c : Conf) :
    (storeDel st em k c).2.1.lastCleaned = em.lastCleaned := by
  unfold storeDel
  split
  · rfl
  · split
    · rfl
    · dsimp only
      split
      · exact bsi_em_del_lc ..
      · rfl

theorem bsi_storeDelExpired_lc (st : Store) (em : Em) (k : Hash) (c : Conf) (now : Time) :
    (storeDelExpired st em k c now).2.1.lastCleaned = em.lastCleaned := by
  unfold storeDelExpired
  split
  · rfl
  · split
    · rfl
    · split
      · rfl
      · exact bsi_em_del_lc ..

theorem bsi_polDel_off (p : Pol) (m : Met) (k : Hash) : (polDel false p m k).2 = m := by
  unfold polDel; split <;> rfl

theorem bsi_polUpdate_off (p : Pol) (m : Met) (k : Hash) (c : Int) : (polUpdate false p m k c).2.1 = m := by
  unfold polUpdate; split <;> rfl

theorem bsi_polDelAll_off (p : Pol) (m : Met) (vs : List (Hash × Int)) : (polDelAll false p m vs).2 = m := by
  induction vs generalizing p m with
  | nil => rfl
  | cons v rest ih =>
    obtain ⟨k, c⟩ := v
    unfold polDelAll
    have h1 := bsi_polDel_off p m k
    cases hp : polDel false p m k with
    | mk p' m' =>
      rw [hp] at h1
      dsimp only at h1 ⊢
      rw [ih, h1]

theorem bsi_polAdd_off {p : Pol} {m : Met} {k : Hash} {c : Int} {vs : List (Hash × Int)} {a : Bool}
    {pm : Pol × Met} (h : polAdd false p m k c vs a = some pm) : pm.2 = m := by
  unfold polAdd at h
  split at h
  · split at h
    · simp only [Option.some.injEq] at h; subst h; rfl
    · cases h
  · have hu := bsi_polUpdate_off p m k c
    split at h
    · rename_i p1 m1 heq
      rw [heq] at hu
      split at h
      · simp only [Option.some.injEq] at h; subst h; exact hu
      · cases h
    · split at h
      · split at h
        · simp only [Option.some.injEq] at h; subst h; rfl
        · cases h
      · split at h
        · cases h
        · have hd := bsi_polDelAll_off p m vs
          cases hp : polDelAll false p m vs with
          | mk p2 m2 =>
            rw [hp] at hd h
            dsimp only at hd h
            subst hd
            split at h
            · split at h
              · simp only [Option.some.injEq] at h; subst h; rfl
              · cases h
            · simp only [Option.some.injEq] at h; subst h; rfl

/-! ### the per-step fact -/

/-- a step keeps `lastCleaned` or sets it to the cleanup bucket of the current clock; only
`tick` moves the clock (forward); with metrics off `met` is not written -/
def BsKeep (cfg : Cfg) (s s' : State) : Prop :=
  (s'.em.lastCleaned = s.em.lastCleaned ∨ s'.em.lastCleaned = cleanupOf s.clock) ∧ s.clock ≤ s'.clock ∧
    (cfg.metricsOn = false → s'.met = s.met)

theorem bsKeep_of_eq {cfg : Cfg} {s s' : State} (h1 : s'.em = s.em) (h2 : s'.clock = s.clock) (h3 : s'.met = s.met) :
    BsKeep cfg s s' := ⟨Or.inl (by rw [h1]), by rw [h2]; exact Int.le_refl _, fun _ => h3⟩

theorem bsKeep_recvBuf {cfg : Cfg} {s s1 : State} {x : BufElem} (h : recvBuf s = some (x, s1)) : BsKeep cfg s s1 :=
  bsKeep_of_eq (recvBuf_em h) (recvBuf_clock h) (recvBuf_met h)

theorem evictAll_em_bsi (s : State) (st : Store) (ks : List Hash) : (evictAll s st ks).em = s.em := by
  induction ks generalizing s with
  | nil => rfl
  | cons k rest ih => unfold evictAll; split <;> simp [ih]

theorem evictAll_clock_bsi (s : State) (st : Store) (ks : List Hash) : (evictAll s st ks).clock = s.clock := by
  induction ks generalizing s with
  | nil => rfl
  | cons k rest ih => unfold evictAll; split <;> simp [ih]

theorem evictAll_met_bsi (s : State) (st : Store) (ks : List Hash) : (evictAll s st ks).met = s.met := by
  induction ks generalizing s with
  | nil => rfl
  | cons k rest ih => unfold evictAll; split <;> simp [ih]

theorem bsKeep_clientStep {cfg : Cfg} {s s' : State} {t : Tid} {ch : Choice}
    (hs : clientStep cfg s t ch = some s') : BsKeep cfg s s' := by
  apply clientStep_cases hs (motive := fun s' => BsKeep cfg s s')
  all_goals (intros; first | (exact bsKeep_of_eq (by simp) (by simp) (by simp)) | skip)
  case setUpd i _ _ =>
    exact ⟨Or.inl (by unfold stSetUpd; dsimp only; split <;> exact bsi_storeUpdate_lc ..), by simp,
      fun _ => by simp⟩
  case setRetDrop i _ _ =>
    refine ⟨Or.inl (by simp), by simp, fun hoff => ?_⟩
    unfold stSetRetDrop; split <;> simp [metAdd_met, hoff]
  case delStart k c _ _ =>
    exact ⟨Or.inl (by unfold stDelStart; split <;> first | rfl | exact bsi_storeDel_lc ..), by simp,
      fun _ => by simp⟩
  case waitRecv id _ _ hr =>
    exact bsKeep_of_eq (stWaitRecv_em s t id hr) (stWaitRecv_clock s t id hr) (stWaitRecv_met s t id hr)
  case getStart k c _ hr =>
    unfold stGetStart at hr
    split at hr
    · simp only [Option.some.injEq] at hr; subst hr; exact bsKeep_of_eq rfl rfl rfl
    · cases ch <;> dsimp only at hr <;> first | (cases hr; done) | skip
      · simp only [Option.some.injEq] at hr; subst hr; exact bsKeep_of_eq rfl rfl rfl
      · split at hr
        · cases hr
        · simp only [Option.some.injEq] at hr; subst hr
          exact ⟨Or.inl (by simp), by simp, fun hoff => by simp [metAdd_met, hoff]⟩
  case getMetric k c r _ _ =>
    exact ⟨Or.inl (by simp), by simp, fun hoff => by simp [stGetMetric, metAdd_met, hoff]⟩
  case iterShard k n seen _ hr =>
    unfold stIterShard at hr
    cases ch <;> dsimp only at hr <;> first | (cases hr; done) | skip
    split at hr
    · cases hr
    · split at hr
      · cases hr
      · split at hr <;> (simp only [Option.some.injEq] at hr; subst hr; exact bsKeep_of_eq rfl rfl rfl)
  case clrDrain closing _ _ =>
    unfold stClrDrain
    cases hrb : recvBuf s with
    | none => exact bsKeep_of_eq rfl rfl rfl
    | some p =>
      obtain ⟨x, s1⟩ := p
      have hk := bsKeep_recvBuf (cfg := cfg) hrb
      cases x with
      | marker id => exact hk
      | item i => dsimp only; split <;> exact hk
  case clrShard closing k _ hr =>
    unfold stClrShard at hr
    cases ch <;> dsimp only at hr <;> first | (cases hr; done) | skip
    split at hr
    · cases hr
    · split at hr
      · cases hr
      · simp only [Option.some.injEq] at hr; subst hr
        exact bsKeep_of_eq (by simp [evictAll_em_bsi]) (by simp [evictAll_clock_bsi]) (by simp [evictAll_met_bsi])
  case clrEm closing _ _ =>
    exact ⟨Or.inr rfl, by simp, fun _ => by simp⟩
  case clrMetrics closing _ _ =>
    exact ⟨Or.inl (by simp), by simp, fun hoff => by simp [stClrMetrics, hoff]⟩

theorem bsKeep_applierStep {cfg : Cfg} {s s' : State} {ch : Choice}
    (hs : applierStep cfg s ch = some s') : BsKeep cfg s s' := by
  apply applierStep_cases hs (motive := fun s' => BsKeep cfg s s')
  all_goals (intros; first | (exact bsKeep_of_eq (by simp) (by simp) (by simp)) | skip)
  case idle _ hr =>
    unfold apIdle at hr
    cases ch <;> dsimp only at hr <;> first | (cases hr; done) | skip
    · unfold apSelItem at hr
      cases hrb : recvBuf s with
      | none => rw [hrb] at hr; cases hr
      | some p =>
        obtain ⟨x, s1⟩ := p
        rw [hrb] at hr
        have hk := bsKeep_recvBuf (cfg := cfg) hrb
        cases x <;> (simp only [Option.some.injEq] at hr; subst hr; exact hk)
    · simp only [Option.some.injEq] at hr; subst hr; exact bsKeep_of_eq rfl rfl rfl
    · rename_i t
      exact bsKeep_of_eq (apSelStop_em s t hr) (apSelStop_clock s t hr) (apSelStop_met s t hr)
  case costed i _ hr =>
    unfold apCosted at hr
    split at hr
    · unfold apCostedNew at hr
      cases ch <;> dsimp only at hr <;> first | (cases hr; done) | skip
      split at hr
      · cases hr
      · rename_i pm hpm
        simp only [Option.some.injEq] at hr; subst hr
        refine ⟨Or.inl rfl, Int.le_refl _, fun hoff => ?_⟩
        rw [hoff] at hpm
        exact bsi_polAdd_off hpm
    · obtain ⟨_, hr⟩ := needNone_some hr
      simp only [Option.some.injEq] at hr; subst hr
      exact ⟨Or.inl rfl, Int.le_refl _, fun hoff => by unfold apCostedUpd; rw [hoff]; exact bsi_polUpdate_off ..⟩
    · obtain ⟨_, hr⟩ := needNone_some hr
      simp only [Option.some.injEq] at hr; subst hr
      exact ⟨Or.inl rfl, Int.le_refl _, fun hoff => by unfold apCostedDel; rw [hoff]; exact bsi_polDel_off ..⟩
  case added i victims ok _ _ =>
    unfold apAdded
    split
    · exact ⟨Or.inl (by simp; exact bsi_storeSet_lc ..), by simp,
        fun hoff => by simp [metAdd_met, hoff]⟩
    · exact bsKeep_of_eq rfl rfl rfl
  case victims vs _ _ hr =>
    unfold apVictims at hr
    cases vs with
    | nil => cases hr
    | cons p rest =>
      obtain ⟨k, c⟩ := p
      simp only [Option.some.injEq] at hr; subst hr
      exact ⟨Or.inl (bsi_storeDel_lc ..), Int.le_refl _, fun _ => rfl⟩
  case tombPolicy i _ _ =>
    exact ⟨Or.inl (bsi_storeDel_lc ..), Int.le_refl _, fun _ => rfl⟩
  case tick _ _ =>
    exact ⟨Or.inr rfl, Int.le_refl _, fun _ => rfl⟩
  case sweep now bs _ hr =>
    exact bsKeep_of_eq (apSweep_em s now bs ch hr) (apSweep_clock s now bs ch hr) (apSweep_met s now bs ch hr)
  case swKey now k c bs _ _ =>
    unfold apSwKey
    dsimp only
    split
    · exact ⟨Or.inl (bsi_storeDelExpired_lc ..), Int.le_refl _, fun _ => rfl⟩
    · exact bsKeep_of_eq rfl rfl rfl
  case swStoreDel now k c expr v bs _ _ =>
    exact ⟨Or.inl rfl, Int.le_refl _, fun hoff => by unfold apSwStoreDel; rw [hoff]; exact bsi_polDel_off ..⟩

theorem bsKeep_step {cfg : Cfg} {s s' : State} {a : Action} (hs : step cfg s a = some s') : BsKeep cfg s s' := by
  cases a with
  | spawn t c => exact bsKeep_of_eq (spawnStep_em s t c hs) (spawnStep_clock s t c hs) (spawnStep_met s t c hs)
  | client t ch => exact bsKeep_clientStep hs
  | applier ch => exact bsKeep_applierStep hs
  | done t => exact bsKeep_of_eq (doneStep_em s t hs) (doneStep_clock s t hs) (doneStep_met s t hs)
  | tick n =>
    simp only [step, Option.some.injEq] at hs; subst hs
    exact ⟨Or.inl rfl, Int.le_add_of_nonneg_right (Int.natCast_nonneg n), fun _ => rfl⟩

/-- with metrics off the metrics record of a reachable state is the zero record; the sweep
position is the cleanup bucket of a past (or present) instant -/
theorem bsInv_reach {cfg : Cfg} {s : State} (h : Reach cfg s) :
    (cfg.metricsOn = false → s.met = {}) ∧ ∃ now, now ≤ s.clock ∧ s.em.lastCleaned = cleanupOf now := by
  refine Reach.induction (P := fun s => (cfg.metricsOn = false → s.met = {}) ∧
      ∃ now, now ≤ s.clock ∧ s.em.lastCleaned = cleanupOf now) (fun now => ⟨fun _ => rfl, now, Int.le_refl _, rfl⟩)
    (fun s a s' _ hp hs => ?_) h
  obtain ⟨hk1, hk2, hk3⟩ := bsKeep_step hs
  obtain ⟨hm, now, hle, hlc⟩ := hp
  refine ⟨fun hoff => by rw [hk3 hoff]; exact hm hoff, ?_⟩
  rcases hk1 with e | e
  · exact ⟨now, Int.le_trans hle hk2, by rw [e]; exact hlc⟩
  · exact ⟨s.clock, hk2, e⟩

end RV.Cache
