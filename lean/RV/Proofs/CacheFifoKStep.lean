import RV.Proofs.CacheFifoItems
/-!
# What one step does to the things C05 looks at, for a fixed key `k`

`KStep k s s'` summarises a step by its effect on the pending sequence, on
`store.lookup k` / `pol.costs.lookup k`, and on the progress of a `Clear`.  `kstep` derives
it for every step from a reachable state in which no client is inside a `Set` of `k`
and all logged `Set`/`Del` calls of `k` agree on the conflict (`ConfAgree`).
-/
namespace RV.Cache
open Gen.Cache

/-- item for `k` that is not a tombstone (a new-item or an update-item) -/
def BufElem.isSetK (k : Hash) : BufElem → Prop
  | .item i => i.key = k ∧ i.flag ≠ .del
  | .marker _ => False
/-- tombstone for `k` -/
def BufElem.isTombK (k : Hash) : BufElem → Prop
  | .item i => i.key = k ∧ i.flag = .del
  | .marker _ => False

def NoSetItemK (k : Hash) (l : List BufElem) : Prop := ∀ e ∈ l, ¬ e.isSetK k

theorem NoSetItemK.sub {k : Hash} {l l' : List BufElem} (h : NoSetItemK k l) (hs : ∀ e ∈ l', e ∈ l) : NoSetItemK k l' :=
  fun e he => h e (hs e he)
theorem NoSetItemK.append {k : Hash} {l : List BufElem} {e : BufElem} (h : NoSetItemK k l) (he : ¬ e.isSetK k) :
    NoSetItemK k (l ++ [e]) := by
  intro e' he'
  rcases List.mem_append.mp he' with h1 | h1
  · exact h e' h1
  · simp at h1; subst h1; exact he

/-- pcs of a client inside a `Set` of key `k`, up to and including its buffer send (the two
return pcs `setRetTrue`/`setRetDrop` no longer touch the cache and are not counted) -/
def CPc.inSetK (k : Hash) : CPc → Prop
  | .setStart h _ _ _ _ => h = k
  | .setUpd i => i.key = k
  | .setExit i _ => i.key = k
  | .setSend i => i.key = k
  | _ => False

/-- no client is inside a `Set` of `k` -/
def NoSetK (k : Hash) (s : State) : Prop := ∀ t, ¬ (s.cl t).inSetK k

/-- all logged `Set`/`Del` calls of `k` carry the same conflict -/
def ConfAgree (k : Hash) (log : List Ev) : Prop :=
  ∀ c1 c2, (SetCalled log k c1 ∨ DelCalled log k c1) → (SetCalled log k c2 ∨ DelCalled log k c2) → c1 = c2

theorem ConfAgree.of_append {k : Hash} {l evs : List Ev} (h : ConfAgree k (evs ++ l)) : ConfAgree k l := by
  intro c1 c2 h1 h2
  exact h c1 c2 (h1.imp (fun x => x.mono evs) (fun x => x.mono evs)) (h2.imp (fun x => x.mono evs) (fun x => x.mono evs))

/-- pcs of the part of `Clear` in which a drained tombstone's key may still be resident -/
def CPc.clrWit : CPc → Bool
  | .clrDrain _ => true | .clrPolicy _ => true | .clrShard _ _ => true | _ => false

def ClrKeep (s s' : State) : Prop := ∀ t, (s.cl t).clrWit = true → s'.cl t = s.cl t

theorem ClrKeep.of_ne {s s' : State} (t : Tid) (hne : ∀ t', t' ≠ t → s'.cl t' = s.cl t')
    (h0 : (s.cl t).clrWit = false) : ClrKeep s s' := by
  intro t' ht'
  by_cases e : t' = t
  · subst e; rw [h0] at ht'; cases ht'
  · exact hne t' e

theorem ClrKeep.of_eq {s s' : State} (h : s'.cl = s.cl) : ClrKeep s s' := fun t _ => by rw [h]

theorem ClrKeep.recv {s s1 : State} {x : BufElem} (hr : recvBuf s = some (x, s1)) : ClrKeep s s1 := by
  intro t ht
  rcases recvBuf_cl hr t with e | e
  · exact e
  · rw [e]; cases hpc : s.cl t <;> simp [hpc, CPc.clrWit, unblockedPc] at ht ⊢

/-- the applier does not hold a `Set`-item of `k` -/
def HeldNotSetK (k : Hash) (s : State) : Prop := ∀ e, appElem s.app = some e → ¬ e.isSetK k

theorem NoSetItemK.held {k : Hash} {s : State} (h : NoSetItemK k (pending s)) : HeldNotSetK k s := by
  intro e he
  exact h e (by simp [pending, he])

/-- absent stays absent (given that the applier does not hold a `Set`-item of `k`) -/
def Keeps (k : Hash) (s s' : State) : Prop :=
  HeldNotSetK k s →
    (s.store.lookup k = none → s'.store.lookup k = none) ∧
    (s.pol.costs.lookup k = none → s'.pol.costs.lookup k = none)

theorem Keeps.of_eq {k : Hash} {s s' : State} (h1 : s'.store = s.store) (h2 : s'.pol.costs = s.pol.costs) :
    Keeps k s s' := fun _ => ⟨fun h => by rw [h1]; exact h, fun h => by rw [h2]; exact h⟩

/-- who appends `e`: a `Set`'s send, a `Del`'s send or a `Wait`'s send -/
def PushSrc (s : State) (e : BufElem) : Prop :=
  (∃ t i, s.cl t = .setSend i ∧ e = .item i) ∨ (∃ t h c, s.cl t = .delSend h c ∧ e = tomb h c) ∨
  e = .marker s.nextMarker

inductive KStep (k : Hash) (s s' : State) : Prop
  | quiet (hp : pending s' = pending s) (hk : Keeps k s s') (hcl : ClrKeep s s')
  | push (e : BufElem) (he : ¬ e.isSetK k) (hsrc : PushSrc s e) (hp : pending s' = pending s ++ [e])
      (hk : Keeps k s s') (hcl : ClrKeep s s')
  | recost (i : Item) (c : Int) (r : List BufElem) (hp : pending s = .item i :: r)
      (hp' : pending s' = .item { i with cost := c } :: r) (hk : Keeps k s s') (hcl : ClrKeep s s')
  | popNonTomb (x : BufElem) (hp : pending s = x :: pending s') (hx : ¬ x.isTombK k) (hk : Keeps k s s')
      (hcl : ClrKeep s s')
  /-- the applier's second store delete for a tombstone of `k` -/
  | popTomb (x : BufElem) (hp : pending s = x :: pending s') (hx : x.isTombK k)
      (hst : s'.store.lookup k = none) (hco : s'.pol.costs.lookup k = none) (hcl : ClrKeep s s')
  /-- one iteration of `Clear`'s drain loop that received an element -/
  | drained (x : BufElem) (t : Tid) (closing : Bool) (hp : pending s = x :: pending s') (hk : Keeps k s s')
      (hpc : s'.cl t = .clrDrain closing) (hcl : ClrKeep s s')
  | drainEnd (t : Tid) (closing : Bool) (hp : pending s' = pending s) (hk : Keeps k s s')
      (hpc : s.cl t = .clrDrain closing) (hpc' : s'.cl t = .clrPolicy closing)
      (hne : ∀ t', t' ≠ t → s'.cl t' = s.cl t')
  | clrPolicy (t : Tid) (closing : Bool) (hp : pending s' = pending s) (hst : s'.store = s.store)
      (hco : s'.pol.costs.lookup k = none) (hpc : s.cl t = .clrPolicy closing)
      (hpc' : s'.cl t = .clrShard closing 0) (hne : ∀ t', t' ≠ t → s'.cl t' = s.cl t')
  | clrShard (t : Tid) (closing : Bool) (j : Nat) (hp : pending s' = pending s)
      (hst1 : s.store.lookup k = none → s'.store.lookup k = none)
      (hst2 : j = shardIdx k → s'.store.lookup k = none) (hco : s'.pol.costs = s.pol.costs)
      (hpc : s.cl t = .clrShard closing j)
      (hpc' : s'.cl t = if j + 1 = numShards.toNat then .clrEm closing else .clrShard closing (j + 1))
      (hne : ∀ t', t' ≠ t → s'.cl t' = s.cl t')

theorem pending_drain {s s1 s2 : State} {x : BufElem} (hdead : s.app = .dead) (hr : recvBuf s = some (x, s1))
    (e2 : s2.buf = s1.buf) (e3 : s2.sendq = s1.sendq) (e4 : s2.app = s1.app) : pending s = x :: pending s2 := by
  have happ2 : s2.app = .dead := by rw [e4, recvBuf_app hr, hdead]
  have h1 : pending s2 = queue s1 := by simp [pending, queue, happ2, appElem, e2, e3]
  have h2 : pending s = x :: queue s1 := by simp [pending, hdead, appElem, recvBuf_queue hr]
  rw [h1, h2]

theorem pending_recv {s s1 s2 : State} {x : BufElem} (hnone : appElem s.app = none) (hr : recvBuf s = some (x, s1))
    (ha : appElem s2.app = some x) (e2 : s2.buf = s1.buf) (e3 : s2.sendq = s1.sendq) : pending s2 = pending s := by
  have h2 : pending s = x :: queue s1 := by simp [pending, hnone, recvBuf_queue hr]
  rw [h2]; simp [pending, ha, queue, e2, e3]

open Lean in
/-- `k_frame stX hpc t`: `stX` moves only thread `t` (not at a `clrWit` pc); store, policy and
queue are untouched -/
macro "k_frame " f:ident hpc:ident t:ident : tactic => do
  let n := f.getId
  let clne := mkIdent (n.appendAfter "_cl_ne")
  `(tactic| exact KStep.quiet (pending_congr (by simp) (by simp) (by simp)) (Keeps.of_eq (by simp) (by simp)) (ClrKeep.of_ne $t (fun _ hne => $clne (hne := hne) ..) (by simp [$hpc:term, CPc.clrWit])))

theorem kstep_clientStep {cfg : Cfg} {s s' : State} {t : Tid} {ch : Choice} (k : Hash)
    (hh : Handshake s) (hns : NoSetK k s) (hs : clientStep cfg s t ch = some s') : KStep k s s' := by
  apply clientStep_cases hs (motive := KStep k s)
  case setStart => intro _ _ _ _ _ hpc _; k_frame stSetStart hpc t
  case setExit => intro _ _ hpc _; k_frame stSetExit hpc t
  case setRetTrue => intro _ hpc _; k_frame stSetRetTrue hpc t
  case setRetDrop => intro _ hpc _; k_frame stSetRetDrop hpc t
  case delExit => intro _ _ _ hpc _; k_frame stDelExit hpc t
  case delSent => intro _ hpc _; k_frame stDelSent hpc t
  case waitStart => intro hpc _; k_frame stWaitStart hpc t
  case waitDone => intro hpc _; k_frame stWaitDone hpc t
  case getRead => intro _ _ hpc _; k_frame stGetRead hpc t
  case getCheck => intro _ _ _ hpc _; k_frame stGetCheck hpc t
  case getMetric => intro _ _ _ hpc _; k_frame stGetMetric hpc t
  case ttlRead => intro _ _ hpc _; k_frame stTtlRead hpc t
  case ttlCheck => intro _ _ _ hpc _; k_frame stTtlCheck hpc t
  case ttlExp => intro _ _ hpc _; k_frame stTtlExp hpc t
  case ttlNow => intro _ _ _ hpc _; k_frame stTtlNow hpc t
  case ttlUntil => intro _ _ _ hpc _; k_frame stTtlUntil hpc t
  case iterStart => intro _ hpc _; k_frame stIterStart hpc t
  case clrStart => intro _ hpc _; k_frame stClrStart hpc t
  case clrEm => intro _ hpc _; k_frame stClrEm hpc t
  case clrMetrics => intro _ hpc _; k_frame stClrMetrics hpc t
  case readMax => intro hpc _; k_frame stReadMax hpc t
  case readRem => intro hpc _; k_frame stReadRem hpc t
  case updMax =>
    intro m hpc _
    exact .quiet (pending_congr (by simp) (by simp) (by simp)) (Keeps.of_eq (by simp) (by simp [stUpdMax]))
      (ClrKeep.of_ne t (fun _ hne => stUpdMax_cl_ne (hne := hne) ..) (by simp [hpc, CPc.clrWit]))
  case setUpd =>
    intro i hpc _
    refine .quiet (pending_congr (by simp) (by simp) (by simp)) (fun _ => ⟨fun h => ?_, fun h => by simpa using h⟩)
      (ClrKeep.of_ne t (fun _ hne => stSetUpd_cl_ne (hne := hne) ..) (by simp [hpc, CPc.clrWit]))
    rw [stSetUpd_store]; exact storeUpdate_none cfg _ _ _ h
  case delStart =>
    intro h' c hpc _
    refine .quiet (pending_congr (by simp) (by simp) (by simp)) (fun _ => ⟨fun h => ?_, fun h => by simpa using h⟩)
      (ClrKeep.of_ne t (fun _ hne => stDelStart_cl_ne (hne := hne) ..) (by simp [hpc, CPc.clrWit]))
    rcases stDelStart_store s t h' c with e | e
    · rw [e]; exact h
    · rw [e]; exact storeDel_none h
  case setSend =>
    intro i hpc _
    have hik : i.key ≠ k := by
      intro e; exact hns t (by rw [hpc]; exact e)
    have hcl : ClrKeep s (stSetSend cfg s t i) :=
      ClrKeep.of_ne t (fun _ hne => stSetSend_cl_ne (hne := hne) ..) (by simp [hpc, CPc.clrWit])
    rcases set_send_pending cfg s t i with ⟨hp, _⟩ | ⟨hp, _⟩
    · exact .push (.item i) (by simp [BufElem.isSetK, hik]) (Or.inl ⟨t, i, hpc, rfl⟩) hp (Keeps.of_eq (by simp) (by simp)) hcl
    · exact .quiet hp (Keeps.of_eq (by simp) (by simp)) hcl
  case delSend =>
    intro h' c hpc _
    exact .push (tomb h' c) (by simp [tomb, BufElem.isSetK]) (Or.inr (Or.inl ⟨t, h', c, hpc, rfl⟩)) (tomb_enqueued ..) (Keeps.of_eq (by simp) (by simp))
      (ClrKeep.of_ne t (fun _ hne => stDelSend_cl_ne (hne := hne) ..) (by simp [hpc, CPc.clrWit]))
  case waitSend =>
    intro hpc _
    exact .push (.marker s.nextMarker) (by simp [BufElem.isSetK]) (Or.inr (Or.inr rfl)) (marker_enqueued ..) (Keeps.of_eq (by simp) (by simp))
      (ClrKeep.of_ne t (fun _ hne => stWaitSend_cl_ne (hne := hne) ..) (by simp [hpc, CPc.clrWit]))
  case waitRecv =>
    intro id hpc _ hr
    exact .quiet (pending_congr (by rw [stWaitRecv_app s t id hr]) (stWaitRecv_buf s t id hr) (stWaitRecv_sendq s t id hr))
      (Keeps.of_eq (stWaitRecv_store s t id hr) (by rw [stWaitRecv_pol s t id hr]))
      (ClrKeep.of_ne t (fun _ hne => stWaitRecv_cl_ne s t id hr hne) (by simp [hpc, CPc.clrWit]))
  case getStart =>
    intro h' c hpc hr
    obtain ⟨h1, h2, h3, _, _, h6, h7, _, h9, _⟩ := stGetStart_q hr
    exact .quiet (pending_congr (by rw [h3]) h1 h2) (Keeps.of_eq h6 (by rw [h7]))
      (ClrKeep.of_ne t h9 (by simp [hpc, CPc.clrWit]))
  case iterShard =>
    intro j n seen hpc hr
    obtain ⟨h1, h2, h3, _, _, h6, h7, _, h9, _⟩ := stIterShard_q hr
    exact .quiet (pending_congr (by rw [h3]) h1 h2) (Keeps.of_eq h6 (by rw [h7]))
      (ClrKeep.of_ne t h9 (by simp [hpc, CPc.clrWit]))
  case clrRestart =>
    intro closing hpc _
    have hdead : s.app = .dead := hh.busy t (by simp [hpc, CPc.busy])
    have happ : (stClrRestart s t closing).app = .idle := by
      unfold stClrRestart; dsimp only; split <;> rfl
    exact .quiet (pending_congr (by rw [happ, hdead]; rfl) (by simp) (by simp)) (Keeps.of_eq (by simp) (by simp))
      (ClrKeep.of_ne t (fun _ hne => stClrRestart_cl_ne (hne := hne) ..) (by simp [hpc, CPc.clrWit]))
  case clsFinish =>
    intro hpc _
    have hdead : s.app = .dead := hh.busy t (by simp [hpc, CPc.busy])
    exact .quiet (pending_congr (by rw [hdead]; rfl) (by simp) (by simp)) (Keeps.of_eq (by simp) (by simp))
      (ClrKeep.of_ne t (fun _ hne => stClsFinish_cl_ne (hne := hne) ..) (by simp [hpc, CPc.clrWit]))
  case clrPolicy =>
    intro closing hpc _
    exact .clrPolicy t closing (pending_congr (by simp) (by simp) (by simp)) (by simp) (by simp [stClrPolicy]) hpc
      (by simp [stClrPolicy]) (fun _ hne => stClrPolicy_cl_ne (hne := hne) ..)
  case clrShard =>
    intro closing j hpc hr
    obtain ⟨ks, ho, _, h1, h2, h3, _, _, h6, h7, _, h9, h10⟩ := stClrShard_q hr
    refine .clrShard t closing j (pending_congr (by rw [h3]) h1 h2) (fun h => by rw [h6]; exact eraseAll_none h) ?_
      (by rw [h7]) hpc h10 h9
    intro e; subst e; rw [h6]; exact eraseAll_shard ho
  case clrDrain =>
    intro closing hpc _
    have hdead : s.app = .dead := hh.busy t (by simp [hpc, CPc.busy])
    unfold stClrDrain
    split
    · exact .drainEnd t closing rfl (Keeps.of_eq rfl rfl) hpc (by simp) (fun _ hne => setCl_cl_ne _ _ _ hne)
    · rename_i id s1 hr
      refine .drained (.marker id) t closing (pending_drain hdead hr rfl rfl rfl)
        (Keeps.of_eq (recvBuf_store hr :) (by rw [show _ = s1.pol from rfl, recvBuf_pol hr])) ?_
        (fun t' ht' => ClrKeep.recv hr t' ht')
      show s1.cl t = _
      rw [ClrKeep.recv hr t (by simp [hpc, CPc.clrWit]), hpc]
    · rename_i i s1 hr
      have hpct : s1.cl t = .clrDrain closing := by
        rw [ClrKeep.recv hr t (by simp [hpc, CPc.clrWit]), hpc]
      split
      · exact .drained (.item i) t closing (pending_drain hdead hr rfl rfl rfl)
          (Keeps.of_eq (recvBuf_store hr :) (by simp [recvBuf_pol hr])) hpct (fun t' ht' => ClrKeep.recv hr t' ht')
      · exact .drained (.item i) t closing (pending_drain hdead hr rfl rfl rfl)
          (Keeps.of_eq (recvBuf_store hr) (by rw [recvBuf_pol hr])) hpct (ClrKeep.recv hr)

theorem kstep_applierStep {cfg : Cfg} {s s' : State} {ch : Choice} (k : Hash)
    (hi : ItemInv s) (hconf : ConfAgree k s.log) (hs : applierStep cfg s ch = some s') : KStep k s s' := by
  apply applierStep_cases hs (motive := KStep k s)
  case idle =>
    intro hpc hr
    unfold apIdle at hr
    split at hr
    · unfold apSelItem at hr
      split at hr
      · simp at hr
      · rename_i id s1 hrecv
        simp only [Option.some.injEq] at hr; subst hr
        exact .quiet (pending_recv (by rw [hpc]; rfl) hrecv rfl rfl rfl)
          (Keeps.of_eq (recvBuf_store hrecv :) (by rw [show _ = s1.pol from rfl, recvBuf_pol hrecv]))
          (fun t' ht' => ClrKeep.recv hrecv t' ht')
      · rename_i i s1 hrecv
        simp only [Option.some.injEq] at hr; subst hr
        exact .quiet (pending_recv (by rw [hpc]; rfl) hrecv rfl rfl rfl)
          (Keeps.of_eq (recvBuf_store hrecv :) (by rw [show _ = s1.pol from rfl, recvBuf_pol hrecv]))
          (fun t' ht' => ClrKeep.recv hrecv t' ht')
    · simp only [Option.some.injEq] at hr; subst hr
      exact .quiet (pending_congr (by simp [hpc, appElem]) rfl rfl) (Keeps.of_eq rfl rfl) (ClrKeep.of_eq rfl)
    · rename_i t
      unfold apSelStop at hr
      split at hr
      · rename_i closing hpc'
        simp only [Option.some.injEq] at hr; subst hr
        exact .quiet (pending_congr (by simp [hpc, appElem]) rfl rfl) (Keeps.of_eq rfl rfl)
          (ClrKeep.of_ne t (fun _ hne => setCl_cl_ne _ _ _ hne) (by simp [hpc', CPc.clrWit]))
      · rename_i hpc'
        simp only [Option.some.injEq] at hr; subst hr
        exact .quiet (pending_congr (by simp [hpc, appElem]) rfl rfl) (Keeps.of_eq rfl rfl)
          (ClrKeep.of_ne t (fun _ hne => setCl_cl_ne _ _ _ hne) (by simp [hpc', CPc.clrWit]))
      · simp at hr
    · simp at hr
  case marker =>
    intro id hpc _
    exact .popNonTomb (.marker id) (by simp [pending, queue, hpc, apMarker, appElem]) (by simp [BufElem.isTombK])
      (Keeps.of_eq rfl rfl) (ClrKeep.of_eq rfl)
  case item =>
    intro i hpc _
    exact .recost i (itemCost cfg i) (queue s) (by simp [pending, hpc, appElem])
      (by simp [pending, apItem, appElem, queue]) (Keeps.of_eq rfl rfl) (ClrKeep.of_eq rfl)
  case costed =>
    intro i hpc hr
    have hmem : BufElem.item i ∈ pending s := by simp [pending, hpc, appElem]
    unfold apCosted at hr
    split at hr
    · rename_i hflag
      unfold apCostedNew at hr
      split at hr
      · split at hr
        · simp at hr
        · rename_i vs added _ pm hadd
          simp only [Option.some.injEq] at hr; subst hr
          refine .quiet (pending_congr (by simp [hpc, appElem]) rfl rfl) (fun hno => ⟨fun h => h, fun h => ?_⟩)
            (ClrKeep.of_eq rfl)
          have hik : k ≠ i.key := by
            intro e
            exact hno (.item i) (by rw [hpc]; rfl) ⟨e.symm, by simp [hflag]⟩
          exact polAdd_none hadd hik h
      · simp at hr
    · rename_i hflag
      obtain ⟨_, hr⟩ := needNone_some hr
      simp only [Option.some.injEq] at hr; subst hr
      exact .popNonTomb (.item i) (by simp [pending, queue, hpc, apCostedUpd, appElem])
        (by simp [BufElem.isTombK, hflag])
        (fun _ => ⟨fun h => h, fun h => by simp only [apCostedUpd]; exact polUpdate_costs_none h⟩) (ClrKeep.of_eq rfl)
    · obtain ⟨_, hr⟩ := needNone_some hr
      simp only [Option.some.injEq] at hr; subst hr
      exact .quiet (pending_congr (by simp [hpc, apCostedDel, appElem]) rfl rfl)
        (fun _ => ⟨fun h => h, fun h => by simp only [apCostedDel]; exact polDel_none_f h⟩) (ClrKeep.of_eq rfl)
  case added =>
    intro i victims ok hpc _
    have hnew := hi.added_new i victims ok hpc
    have hmem : BufElem.item i ∈ pending s := by simp [pending, hpc, appElem]
    have happ : appElem (apAdded cfg s i victims ok).app = none := by
      unfold apAdded afterVictims; split <;> split <;> simp [appElem]
    have hp : pending s = .item i :: pending (apAdded cfg s i victims ok) := by
      rw [pending, pending, happ, hpc]; simp [appElem, queue]
    refine .popNonTomb (.item i) hp (by simp [BufElem.isTombK, hnew]) (fun hno => ⟨fun h => ?_, fun h => by simpa using h⟩)
      (ClrKeep.of_eq (by simp))
    have hik : k ≠ i.key := by
      intro e
      exact hno (.item i) (by rw [hpc]; rfl) ⟨e.symm, by simp [hnew]⟩
    unfold apAdded
    split
    · simp only [metAdd_store]
      rw [storeSet_lookup_ne cfg s.store s.em i hik]; exact h
    · simpa using h
  case victims =>
    intro vs hpc _ hr
    unfold apVictims at hr
    split at hr
    · simp at hr
    · simp only [Option.some.injEq] at hr; subst hr
      exact .quiet (pending_congr (by simp [hpc, appElem]) rfl rfl)
        (fun _ => ⟨fun h => storeDel_none h, fun h => h⟩) (ClrKeep.of_eq rfl)
  case victimEvict =>
    intro h' cost c v rest hpc _
    have happ : appElem (apVictimEvict s h' cost c v rest).app = none := by
      unfold apVictimEvict afterVictims; split <;> simp [appElem]
    exact .quiet (pending_congr (by rw [happ, hpc]; rfl) (by simp) (by simp)) (Keeps.of_eq (by simp) (by simp))
      (ClrKeep.of_eq (by simp))
  case tombPolicy =>
    intro i hpc _
    obtain ⟨hdel, hcost⟩ := hi.tomb_del i hpc
    have hmem : BufElem.item i ∈ pending s := by simp [pending, hpc, appElem]
    have hp : pending s = .item i :: pending (apTombPolicy s i) := by
      simp [pending, queue, hpc, apTombPolicy, appElem]
    by_cases hik : i.key = k
    · refine .popTomb (.item i) hp ⟨hik, hdel⟩ ?_ (by simpa [apTombPolicy, hik] using hcost) (ClrKeep.of_eq rfl)
      show (storeDel s.store s.em i.key i.conflict).1.lookup k = none
      rw [← hik]
      apply storeDel_match
      intro e he
      have h1 : SetCalled s.log k e.conflict := by rw [← hik]; exact hi.store_called _ _ he
      have h2 : DelCalled s.log k i.conflict := by rw [← hik]; exact (hi.pend_called i hmem).1 hdel
      have := hconf _ _ (Or.inr h2) (Or.inl h1)
      simp [delConflictMismatch, this]
    · refine .popNonTomb (.item i) hp (by simp [BufElem.isTombK, hik]) (fun _ => ⟨fun h => ?_, fun h => h⟩)
        (ClrKeep.of_eq rfl)
      show (storeDel s.store s.em i.key i.conflict).1.lookup k = none
      rw [storeDel_lookup_ne_f _ _ _ (fun e => hik e.symm)]; exact h
  case tombStore =>
    intro v hpc _
    exact .quiet (pending_congr (by simp [hpc, apTombStore, appElem]) rfl rfl) (Keeps.of_eq rfl rfl) (ClrKeep.of_eq rfl)
  case tick =>
    intro hpc _
    exact .quiet (pending_congr (by simp [hpc, apTick, appElem]) rfl rfl) (Keeps.of_eq rfl rfl) (ClrKeep.of_eq rfl)
  case sweep =>
    intro now bs hpc hr
    refine .quiet (pending_congr ?_ (apSweep_buf s now bs ch hr) (apSweep_sendq s now bs ch hr))
      (Keeps.of_eq (apSweep_store s now bs ch hr) (by rw [apSweep_pol s now bs ch hr]))
      (ClrKeep.of_eq (apSweep_cl s now bs ch hr))
    unfold apSweep at hr
    split at hr
    · simp only [Option.some.injEq] at hr; subst hr; simp [hpc, appElem]
    · split at hr
      · simp at hr
      · simp only [Option.some.injEq] at hr; subst hr; simp [hpc, appElem]
    · simp at hr
  case swKey =>
    intro now k' c bs hpc _
    have happ : appElem (apSwKey s now k' c bs).app = none := by
      unfold apSwKey; dsimp only; split <;> simp [appElem]
    refine .quiet (pending_congr (by rw [happ, hpc]; rfl) (by simp) (by simp))
      (fun _ => ⟨fun h => ?_, fun h => by simpa using h⟩) (ClrKeep.of_eq (by simp))
    unfold apSwKey
    dsimp only
    split
    · exact storeDelExpired_none h
    · exact h
  case swStoreDel =>
    intro now k' c expr v bs hpc _
    exact .quiet (pending_congr (by simp [hpc, apSwStoreDel, appElem]) rfl rfl)
      (fun _ => ⟨fun h => h, fun h => by simp only [apSwStoreDel]; exact polDel_none_f h⟩) (ClrKeep.of_eq rfl)
  case swPolDel =>
    intro now k' c expr cost v bs hpc _
    exact .quiet (pending_congr (by simp [hpc, apSwPolDel, appElem]) rfl rfl) (Keeps.of_eq rfl rfl) (ClrKeep.of_eq rfl)

/-- The summary of one step, for a key `k` that no client is currently `Set`ting. -/
theorem kstep {cfg : Cfg} {s s' : State} {a : Action} (k : Hash) (hr : Reach cfg s) (hns : NoSetK k s)
    (hconf : ConfAgree k s.log) (hs : step cfg s a = some s') : KStep k s s' := by
  cases a with
  | spawn t c =>
    have hs' : spawnStep s t c = some s' := hs
    have hidle : s.cl t = .idle := by
      unfold spawnStep at hs'; split at hs'
      · assumption
      · simp at hs'
    exact .quiet (pending_congr (by rw [spawnStep_app s t c hs']) (spawnStep_buf s t c hs') (spawnStep_sendq s t c hs'))
      (Keeps.of_eq (spawnStep_store s t c hs') (by rw [spawnStep_pol s t c hs']))
      (ClrKeep.of_ne t (fun t' hne => spawnStep_cl_ne s t c hs' hne) (by simp [hidle, CPc.clrWit]))
  | client t ch => exact kstep_clientStep k (handshake_reach hr) hns hs
  | applier ch => exact kstep_applierStep k (item_inv hr) hconf hs
  | done t =>
    have hs' : doneStep s t = some s' := hs
    have happ : s.app = .stopAck ∧ s'.app = .dead ∧ (s.cl t).clrWit = false := by
      unfold doneStep at hs'
      split at hs'
      · rename_i h1 h2; simp only [Option.some.injEq] at hs'; subst hs'; exact ⟨h1, rfl, by simp [h2, CPc.clrWit]⟩
      · rename_i h1 h2; simp only [Option.some.injEq] at hs'; subst hs'; exact ⟨h1, rfl, by simp [h2, CPc.clrWit]⟩
      · simp at hs'
    exact .quiet (pending_congr (by rw [happ.1, happ.2.1]; rfl) (doneStep_buf s t hs') (doneStep_sendq s t hs'))
      (Keeps.of_eq (doneStep_store s t hs') (by rw [doneStep_pol s t hs']))
      (ClrKeep.of_ne t (fun t' hne => doneStep_cl_ne s t hs' hne) happ.2.2)
  | tick d =>
    simp only [step, Option.some.injEq] at hs; subst hs
    exact .quiet rfl (Keeps.of_eq rfl rfl) (ClrKeep.of_eq rfl)

end RV.Cache
