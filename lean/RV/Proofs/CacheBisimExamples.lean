import RV.Proofs.CacheBisimRun
/-!
# C15 `fresh_bisim`: concrete runs (non-vacuity) and the `Get`-ring counterexample

The runs are evaluated by kernel `decide` on projections of `run cfg (init cfg 0) acts`.
-/
namespace RV.Cache
open Gen.Cache

def bxAppIdle : APc → Bool
  | .idle => true
  | _ => false

/-- executable check of `FreshSt` (sweep position `cleanupOf now`, metrics zero) plus idleness of
the clients in `ts` -/
def bxFreshB (now : Time) (ts : List Tid) (s : State) : Bool :=
  s.store.toList.isEmpty && s.pol.costs.toList.isEmpty && decide (s.pol.used = 0) &&
  s.em.buckets.toList.isEmpty && decide (s.em.lastCleaned = cleanupOf now) && decide (s.met = {}) &&
  s.buf.isEmpty && s.sendq.isEmpty && bxAppIdle s.app && !s.closed &&
  ts.all (fun t => decide (s.cl t = .idle))

theorem bxFreshB_sound {cfg : Cfg} {now : Time} {ts : List Tid} {s : State} (h : bxFreshB now ts s = true) :
    FreshSt cfg s ∧ s.em.lastCleaned = cleanupOf now ∧ ∀ t ∈ ts, s.cl t = .idle := by
  simp only [bxFreshB, Bool.and_eq_true, decide_eq_true_eq, List.all_eq_true, Bool.not_eq_eq_eq_not,
    Bool.not_true] at h
  obtain ⟨⟨⟨⟨⟨⟨⟨⟨⟨⟨h1, h2⟩, h3⟩, h4⟩, h5⟩, h6⟩, h7⟩, h8⟩, h9⟩, h10⟩, h11⟩ := h
  have e : ∀ {α : Type} (l : List α), l.isEmpty = true → l = [] := fun l hl => by cases l <;> simp_all
  refine ⟨⟨e _ h1, e _ h2, h3, e _ h4, ⟨now, h5⟩, fun _ => h6, e _ h7, e _ h8, ?_, h10⟩, h5, h11⟩
  cases ha : s.app <;> rw [ha] at h9 <;> first | rfl | cases h9

/-- `Set(5 ↦ 7)` applied; `Wait` of client 2 served by the applier: marker 0 allocated and closed -/
def bxSetWait : List Action :=
  [ .spawn 1 (.set 5#64 0#64 7 1 0), .client 1 .none, .client 1 .none, .client 1 .none, .client 1 .none,
    .applier .selItem, .applier .none, .applier (.add [] true), .applier .none,
    .spawn 2 .wait, .client 2 .none, .client 2 .none, .applier .selItem, .applier .none,
    .client 2 .none, .client 2 .none ]

/-- a complete un-overlapped `Clear` by client 0 (the store holds key 5, in shard 5) -/
def bxClear : List Action :=
  [ .spawn 0 .clear, .client 0 .none, .applier (.selStop 0), .done 0, .client 0 .none, .client 0 .none ] ++
  shardSteps ++ [ .client 0 .none, .client 0 .none, .client 0 .none ]

def bxPre : List Action := bxSetWait ++ bxClear

/-- after the `Clear`: a `Wait` (marker id 1 on the cleared cache, 0 on a new one) overlapping a
`Set(6 ↦ 8)`, both served by the applier; time passes; a `Get(6)` that hits -/
def bxCont : List Action :=
  [ .spawn 2 .wait, .client 2 .none, .client 2 .none,
    .spawn 1 (.set 6#64 0#64 8 1 0), .client 1 .none, .client 1 .none, .client 1 .none, .client 1 .none,
    .applier .selItem, .applier .none, .client 2 .none, .client 2 .none,
    .applier .selItem, .applier .none, .applier (.add [] true), .applier .none,
    .tick 5,
    .spawn 3 (.get 6#64 0#64), .client 3 .none, .client 3 .none, .client 3 .none, .client 3 .none ]

set_option maxRecDepth 100000 in
theorem bxPre_facts :
    (run exCfg (init exCfg 0) bxPre).map (fun s => (bxFreshB 0 [0, 1, 2] s, s.ringPending, s.nextMarker,
      s.closedMarkers, s.pol.maxCost)) = some (true, 0, 1, [0], 100) := by decide

set_option maxRecDepth 100000 in
theorem bxPre_clock : (run exCfg (init exCfg 0) bxPre).map (fun s => s.clock) = some 0 := by decide

theorem bx_all_idle {s : State} {acts : List Action} {ts : List Tid} (hr : run exCfg (init exCfg 0) acts = some s)
    (hsp : acts.all (spawnsOnly ts) = true) (hts : ∀ t ∈ ts, s.cl t = .idle) (t : Tid) : s.cl t = .idle := by
  by_cases ht : t ∈ ts
  · exact hts t ht
  · exact unspawned_idle (s0 := init exCfg 0) rfl (not_spawn_of_spawnsOnly hsp ht) hr

set_option maxRecDepth 100000 in
theorem bxPre_spawns : bxPre.all (spawnsOnly [0, 1, 2]) = true := by decide

/-- the cleared cache of the examples: reachable, `FreshSt`, every client idle, empty ring, marker
counter 1, one stale closed marker -/
theorem bxFresh : ∃ s, run exCfg (init exCfg 0) bxPre = some s ∧ FreshSt exCfg s ∧ (∀ t, s.cl t = .idle) ∧
    s.ringPending = 0 ∧ s.nextMarker = 1 ∧ s.closedMarkers = [0] ∧ s.pol.maxCost = 100 ∧ s.clock = 0 ∧
    s.em.lastCleaned = cleanupOf 0 := by
  have hf := bxPre_facts
  have hc := bxPre_clock
  cases hfull : run exCfg (init exCfg 0) bxPre with
  | none => rw [hfull] at hf; simp at hf
  | some s =>
    rw [hfull] at hf hc
    simp only [Option.map_some, Option.some.injEq, Prod.mk.injEq] at hf hc
    obtain ⟨h1, h2, h3, h4, h5⟩ := hf
    obtain ⟨g1, g2, g3⟩ := bxFreshB_sound (cfg := exCfg) h1
    exact ⟨s, rfl, g1, bx_all_idle hfull (ts := [0, 1, 2]) bxPre_spawns g3, h2, h3, h4, h5, hc, g2⟩

set_option maxRecDepth 100000 in
/-- the continuation is enabled on the cleared cache and on the new cache and appends the same
events: checked here by evaluation, independently of the bisimulation theorem -/
theorem bxCont_events :
    (run exCfg (init exCfg 0) (bxPre ++ bxCont)).map (fun s' => s'.log.take 7) =
        (run exCfg (newAt exCfg 100 0 0) bxCont).map (fun r' => r'.log) ∧
    (run exCfg (newAt exCfg 100 0 0) bxCont).map (fun r' => r'.log) =
      some [.getRet 3 6#64 0#64 (some 8), .getCall 3 6#64 0#64 5, .waitRet 2, .setRet 1 8 true,
        .setExp 1 8 Gen.zeroTime, .setCall 1 6#64 0#64 8 1 0, .waitCall 2] ∧
    (run exCfg (init exCfg 0) (bxPre ++ bxCont)).map (fun s' => (s'.nextMarker, s'.closedMarkers)) = some (2, [1, 0]) ∧
    (run exCfg (newAt exCfg 100 0 0) bxCont).map (fun r' => (r'.nextMarker, r'.closedMarkers)) = some (1, [0]) := by
  decide

set_option maxRecDepth 100000 in
/-- in the middle of the continuation (the `Wait` has sent its marker): the ids differ by 1 -/
theorem bxMid_facts :
    (run exCfg (init exCfg 0) (bxPre ++ bxCont.take 3)).map (fun s' => (s'.buf, s'.cl 2, s'.nextMarker, s'.closedMarkers)) =
        some ([.marker 1], .waitRecv 1, 2, [0]) ∧
    (run exCfg (newAt exCfg 100 0 0) (bxCont.take 3)).map (fun r' => (r'.buf, r'.cl 2, r'.nextMarker, r'.closedMarkers)) =
        some ([.marker 0], .waitRecv 0, 1, []) := by decide

/-! ### the hypotheses of `c15_clear_then_bisim` -/

/-- up to the drain phase of the `Clear` -/
def bxDrainStart : List Action :=
  bxSetWait ++ [ .spawn 0 .clear, .client 0 .none, .applier (.selStop 0), .done 0 ]

/-- drain (empty), policy, 256 shards, expiry index, metrics: up to `clrRestart` -/
def bxBody : List Action :=
  [ .client 0 .none, .client 0 .none ] ++ shardSteps ++ [ .client 0 .none, .client 0 .none ]

set_option maxRecDepth 100000 in
theorem bxDrain_facts :
    (run exCfg (init exCfg 0) bxDrainStart).map (fun s => (s.cl 0, s.cl 1, s.cl 2)) =
        some (.clrDrain false, .idle, .idle) ∧
    (run exCfg (init exCfg 0) (bxDrainStart ++ bxBody)).map (fun s => (s.cl 0, s.cl 1, s.cl 2, s.ringPending, s.nextMarker)) =
        some (.clrRestart false, .idle, .idle, 0, 1) ∧
    (bxDrainStart ++ bxBody).all (spawnsOnly [0, 1, 2]) = true := by decide

theorem bxBody_nospawn : ∀ a ∈ bxBody, a.isSpawn = false := by
  intro a ha
  simp only [bxBody, shardSteps, List.mem_append, List.mem_map, List.mem_cons, List.mem_nil_iff,
    or_false] at ha
  rcases ha with (h | ⟨k, _, h⟩) | h
  · rcases h with h | h <;> subst h <;> rfl
  · subst h; rfl
  · rcases h with h | h <;> subst h <;> rfl

/-- a `Clear` issued after a `Set` and a `Wait`, un-overlapped, other clients idle, empty ring -/
theorem bxClearHyps : ∃ s0 s1, Reach exCfg s0 ∧ s0.cl 0 = .clrDrain false ∧
    (∀ t', t' ≠ 0 → (s0.cl t').quiet = true) ∧ (∀ a ∈ bxBody, a.isSpawn = false) ∧
    run exCfg s0 bxBody = some s1 ∧ s1.cl 0 = .clrRestart false ∧ (∀ t', t' ≠ 0 → s1.cl t' = .idle) ∧
    s1.ringPending = 0 ∧ s1.nextMarker = 1 := by
  obtain ⟨hf0, hf1, hsp⟩ := bxDrain_facts
  cases hfull : run exCfg (init exCfg 0) (bxDrainStart ++ bxBody) with
  | none => rw [hfull] at hf1; simp at hf1
  | some s1 =>
    obtain ⟨s0, h0, h1⟩ := run_split hfull
    rw [h0] at hf0
    rw [hfull] at hf1
    simp only [Option.map_some, Option.some.injEq, Prod.mk.injEq] at hf0 hf1
    have hsp0 : bxDrainStart.all (spawnsOnly [0, 1, 2]) = true := by
      rw [List.all_append] at hsp; simp only [Bool.and_eq_true] at hsp; exact hsp.1
    have hi0 : ∀ t', t' ≠ 0 → s0.cl t' = .idle := by
      intro t' hne
      by_cases e1 : t' = 1
      · subst e1; exact hf0.2.1
      · by_cases e2 : t' = 2
        · subst e2; exact hf0.2.2
        · exact unspawned_idle (s0 := init exCfg 0) rfl
            (not_spawn_of_spawnsOnly hsp0 (by simp [hne, e1, e2])) h0
    have hi1 : ∀ t', t' ≠ 0 → s1.cl t' = .idle := by
      intro t' hne
      by_cases e1 : t' = 1
      · subst e1; exact hf1.2.1
      · by_cases e2 : t' = 2
        · subst e2; exact hf1.2.2.1
        · exact unspawned_idle (s0 := init exCfg 0) rfl
            (not_spawn_of_spawnsOnly hsp (by simp [hne, e1, e2])) hfull
    exact ⟨s0, s1, ⟨0, bxDrainStart, h0⟩, hf0.1, fun t' hne => by rw [hi0 t' hne]; rfl, bxBody_nospawn, h1,
      hf1.1, hi1, hf1.2.2.2.1, hf1.2.2.2.2⟩

/-! ### the `Get` ring is not reset by `Clear` -/

/-- a `Get` whose ring push is not flushed, then a complete un-overlapped `Clear` -/
def bxRingPre : List Action :=
  [ .spawn 1 (.get 5#64 0#64), .client 1 .none, .client 1 .none, .client 1 .none, .client 1 .none ] ++
  [ .spawn 0 .clear, .client 0 .none, .applier (.selStop 0), .done 0, .client 0 .none, .client 0 .none ] ++
  ((List.range 256).map fun _ => Action.client 0 (.order [])) ++ [ .client 0 .none, .client 0 .none, .client 0 .none ]

/-- a `Get` whose ring push flushes two pending keys -/
def bxRingActs : List Action := [ .spawn 1 (.get 5#64 0#64), .client 1 (.flush true 2) ]

set_option maxRecDepth 100000 in
theorem bxRingPre_facts :
    (run exCfg (init exCfg 0) bxRingPre).map (fun s => (bxFreshB 0 [0, 1] s, s.ringPending, s.nextMarker,
      (run exCfg s bxRingActs).isSome)) = some (true, 1, 0, true) := by decide

set_option maxRecDepth 100000 in
theorem bxRingPre_spawns : bxRingPre.all (spawnsOnly [0, 1]) = true := by decide

/-- from a state with an empty ring the two-key flush is not enabled -/
theorem bxRingActs_disabled (cfg : Cfg) (r : State) (h1 : r.cl 1 = .idle) (h2 : r.closed = false)
    (h3 : r.ringPending = 0) : run cfg r bxRingActs = none := by
  simp [bxRingActs, run, step, spawnStep, clientStep, stGetStart, h1, h2, h3]

/-- **The bisimulation needs an empty `Get` ring** (`ringPending = 0`): a reachable returned-from-`Clear`
state (`FreshSt`, every client idle) with one pending ring entry enables an action sequence — a `Get`
whose ring push flushes two keys to the policy — that no new cache (whatever its creation time)
enables. -/
theorem fresh_bisim_ring_counterexample :
    ∃ s, Reach exCfg s ∧ FreshSt exCfg s ∧ (∀ t, s.cl t = .idle) ∧ s.ringPending = 1 ∧
      ∃ acts, (∃ s', run exCfg s acts = some s') ∧
        ∀ now0, run exCfg (newAt exCfg s.pol.maxCost now0 s.clock) acts = none := by
  have hf := bxRingPre_facts
  cases hfull : run exCfg (init exCfg 0) bxRingPre with
  | none => rw [hfull] at hf; simp at hf
  | some s =>
    rw [hfull] at hf
    simp only [Option.map_some, Option.some.injEq, Prod.mk.injEq] at hf
    obtain ⟨h1, h2, _, h4⟩ := hf
    obtain ⟨g1, _, g3⟩ := bxFreshB_sound (cfg := exCfg) h1
    refine ⟨s, ⟨0, bxRingPre, hfull⟩, g1, bx_all_idle hfull (ts := [0, 1]) bxRingPre_spawns g3, h2, bxRingActs, ?_,
      fun now0 => bxRingActs_disabled exCfg _ rfl rfl rfl⟩
    cases hr : run exCfg s bxRingActs with
    | none => rw [hr] at h4; cases h4
    | some s' => exact ⟨s', rfl⟩

end RV.Cache
