import RV.Proofs.CacheFifoSpecR
/-!
# C06: every client step of the model is a client transition of the reference
-/
namespace RV.Cache
open Gen.Cache

section obs
variable (t : Tid) (h : Hash) (c : Conf) (v : Val) (k k2 : Int) (b : Bool) (now : Time) (r : Option Val) (l : List Val)
@[simp] theorem isObs_setCall : (Ev.setCall t h c v k k2).isObs = true := rfl
@[simp] theorem isObs_setExp : (Ev.setExp t v now).isObs = false := rfl
@[simp] theorem isObs_drop : (Ev.drop t v).isObs = false := rfl
@[simp] theorem isObs_setRet : (Ev.setRet t v b).isObs = true := rfl
@[simp] theorem isObs_getCall : (Ev.getCall t h c now).isObs = true := rfl
@[simp] theorem isObs_getRet : (Ev.getRet t h c r).isObs = true := rfl
@[simp] theorem isObs_ttlCall : (Ev.ttlCall t h c now).isObs = true := rfl
@[simp] theorem isObs_ttlRet : (Ev.ttlRet t h c k b).isObs = true := rfl
@[simp] theorem isObs_delCall : (Ev.delCall t h c).isObs = true := rfl
@[simp] theorem isObs_delRet : (Ev.delRet t h).isObs = true := rfl
@[simp] theorem isObs_waitCall : (Ev.waitCall t).isObs = true := rfl
@[simp] theorem isObs_waitRet : (Ev.waitRet t).isObs = true := rfl
@[simp] theorem isObs_exit : (Ev.exit v).isObs = false := rfl
@[simp] theorem isObs_evict : (Ev.evict h c v k).isObs = false := rfl
@[simp] theorem isObs_reject : (Ev.reject h c v k).isObs = false := rfl
end obs

theorem obsOf_cons (e : Ev) (l : List Ev) : obsOf (e :: l) = if e.isObs then e :: obsOf l else obsOf l := by
  simp only [obsOf, List.filter_cons]

/-- `cframe pc`: the step only moved the client to `pc` (step function already unfolded) -/
macro "cframe " pc:term : tactic =>
  `(tactic| (refine SimR.client_frame ‹SimR _ _ _› ?_ ?_ ?_ ?_ ?_ ?_ ?_ ?_ ?_ $pc ?_ ?_ <;> first | rfl | (simp [SimR.clock ‹SimR _ _ _›]; done) | (intro t ht; simp [setCl_cl_ne _ _ _ ht]; done)))
/-- `cframeU stX pc`: the same for a step function that is still folded -/
macro "cframeU " f:ident pc:term : tactic =>
  `(tactic| (refine SimR.client_frame ‹SimR _ _ _› ?_ ?_ ?_ ?_ ?_ ?_ ?_ ?_ ?_ $pc ?_ ?_ <;> first | rfl | (simp [$f:term, SimR.clock ‹SimR _ _ _›]; done) | (intro t ht; simp [$f:term, setCl_cl_ne _ _ _ ht]; done)))

/-- general preservation lemma for client steps: the applier and the policy are untouched -/
theorem SimR.client_gen {t0 : Tid} {s s' : State} {sp sp' : Spec} (h : SimR t0 s sp)
    (hmap : ∀ k, sp'.map k = s'.store.lookup k) (hpend : sp'.pend = pendE s') (hclock : sp'.clock = s'.clock)
    (hnm : sp'.nextMarker = s'.nextMarker) (hcl : sp'.cl = unblockedPc (s'.cl t0)) (hcp : (s'.cl t0).callPc = true)
    (hne : ∀ t, t ≠ t0 → s'.cl t = s.cl t) (hclosed : s'.closed = s.closed) (hpol : s'.pol = s.pol)
    (happ : s'.app = s.app) (hacct : sp'.acct = sp.acct) :
    SimR t0 s' sp' := by
  constructor
  · exact hmap
  · exact hpend
  · exact hclock
  · exact hnm
  · exact hcl
  · exact hcp
  · intro t ht; rw [hne t ht]; exact h.others t ht
  · rw [hclosed]; exact h.opn
  · intro k hk
    rw [hacct, hpol]
    exact h.acct k (by unfold Exempt at hk ⊢; rw [happ] at hk; exact hk)
  · intro i vs ok ha; rw [happ] at ha; rw [hacct, hpol]; exact h.added i vs ok ha
  · intro now k c e v bs ha; rw [happ] at ha; rw [hacct]; exact h.swd now k c e v bs ha
  · rw [happ]; exact h.appOk

theorem mem_pendE_marker {s : State} {id : Nat} : BufElem.marker id ∈ pendE s ↔ BufElem.marker id ∈ pending s := by
  unfold pendE
  constructor
  · intro hm
    obtain ⟨e, he, hee⟩ := List.mem_map.mp hm
    cases e with
    | item i => simp [eraseCost] at hee
    | marker id' => simp [eraseCost] at hee; subst hee; exact he
  · intro hm; exact List.mem_map.mpr ⟨_, hm, rfl⟩

/-- Every client step of the (only) client is a client transition of the reference, with the same
observable events. -/
theorem sim_client {cfg : Cfg} {t0 : Tid} {s s' : State} {sp : Spec} {ch : Choice}
    (hsu : cfg.shouldUpdate = none) (hr : Reach cfg s) (hR : SimR t0 s sp)
    (hs : clientStep cfg s t0 ch = some s') :
    ∃ enq sp' evs, specClient t0 sp enq = some (sp', evs) ∧ SimR t0 s' sp' ∧ obsOf s'.log = evs ++ obsOf s.log := by
  have hopen := hR.opn
  have hq := queue_inv hr
  -- pcs outside the five calls are impossible
  have bad : ∀ {P : Prop} {pc : CPc}, s.cl t0 = pc → pc.callPc = false → P := by
    intro P pc e e'
    have := hR.callPc; rw [e] at this; exact callPc_elim this e'
  apply clientStep_cases hs (motive := fun s' => ∃ enq sp' evs, specClient t0 sp enq = some (sp', evs) ∧
    SimR t0 s' sp' ∧ obsOf s'.log = evs ++ obsOf s.log)
  case iterStart => intro _ hpc _; exact bad hpc rfl
  case iterShard => intro _ _ _ hpc _; exact bad hpc rfl
  case clrStart => intro _ hpc _; exact bad hpc rfl
  case clrDrain => intro _ hpc _; exact bad hpc rfl
  case clrPolicy => intro _ hpc _; exact bad hpc rfl
  case clrShard => intro _ _ hpc _; exact bad hpc rfl
  case clrEm => intro _ hpc _; exact bad hpc rfl
  case clrMetrics => intro _ hpc _; exact bad hpc rfl
  case clrRestart => intro _ hpc _; exact bad hpc rfl
  case clsFinish => intro hpc _; exact bad hpc rfl
  case updMax => intro _ hpc _; exact bad hpc rfl
  case readMax => intro hpc _; exact bad hpc rfl
  case readRem => intro hpc _; exact bad hpc rfl
  case setStart =>
    intro h c v cost ttl hpc _
    have hcl : sp.cl = .setStart h c v cost ttl := by rw [hR.cl, hpc]; rfl
    unfold stSetStart
    rw [if_neg (by simp [hopen])]
    by_cases h1 : ttlNone ttl = true
    · rw [if_pos h1]
      refine ⟨true, { sp with cl := .setUpd ⟨.new, h, c, v, cost, Gen.zeroTime⟩ }, [], by simp [specClient, hcl, h1], ?_, ?_⟩
      · cframe (.setUpd ⟨.new, h, c, v, cost, Gen.zeroTime⟩)
      · simp [obsOf_cons]
    · rw [if_neg h1]
      by_cases h2 : ttlNegative ttl = true
      · rw [if_pos h2]
        refine ⟨true, { sp with cl := .idle }, [.setRet t0 v false], by simp [specClient, hcl, h1, h2], ?_, ?_⟩
        · cframe .idle
        · simp [obsOf_cons]
      · rw [if_neg h2]
        refine ⟨true, { sp with cl := .setUpd ⟨.new, h, c, v, cost, ttlExpiration sp.clock ttl⟩ }, [],
          by simp [specClient, hcl, h1, h2], ?_, ?_⟩
        · cframe (.setUpd ⟨.new, h, c, v, cost, ttlExpiration sp.clock ttl⟩)
        · simp [obsOf_cons]
  case setUpd =>
    intro i hpc _
    have hcl : sp.cl = .setUpd i := by rw [hR.cl, hpc]; rfl
    obtain ⟨c1, c2, c3⟩ := specUpd_corr (cfg := cfg) (st := s.store) (em := s.em) hsu hR.map i
    refine ⟨true, _, [], (by simp only [specClient, hcl]; rfl), ?_, by simp [obsOf]⟩
    refine hR.client_gen ?_ ?_ ?_ ?_ ?_ ?_ (fun t ht => stSetUpd_cl_ne (hne := ht) ..) (by simp) (by simp) (by simp) rfl
    · intro k; rw [stSetUpd_store]; exact c1 k
    · show sp.pend = _
      rw [hR.pend]; unfold pendE; rw [pending_congr (s := s) (s' := stSetUpd cfg s t0 i) (by simp) (by simp) (by simp)]
    · show sp.clock = _; rw [hR.clock]; simp
    · show sp.nextMarker = _; rw [hR.nm]; simp
    · show (if (specUpd sp.map i).2.2 then CPc.setExit i (specUpd sp.map i).2.1 else CPc.setSend i) = _
      rw [c2, c3]
      unfold stSetUpd; dsimp only
      split <;> simp [unblockedPc]
    · rcases stSetUpd_pc cfg s t0 i with e | e <;> rw [e] <;> rfl
  case setExit =>
    intro i prev hpc _
    have hcl : sp.cl = .setExit i prev := by rw [hR.cl, hpc]; rfl
    refine ⟨true, { sp with cl := .setSend { i with flag := .upd } }, [], by simp [specClient, hcl], ?_, by simp [stSetExit, obsOf_cons]⟩
    cframeU stSetExit (.setSend { i with flag := .upd })
  case setSend =>
    intro i hpc _
    have hcl : sp.cl = .setSend i := by rw [hR.cl, hpc]; rfl
    rcases set_send_pending cfg s t0 i with ⟨hp, hpc'⟩ | ⟨hp, hpc'⟩
    · refine ⟨true, { sp with pend := sp.pend ++ [eraseCost (.item i)], cl := .setRetTrue i }, [],
        by simp [specClient, hcl], ?_, by simp [obsOf]⟩
      refine hR.client_gen (fun k => by simpa using hR.map k) ?_ (by simpa using hR.clock) (by simpa using hR.nm)
        (by rw [hpc']; rfl) (by rw [hpc']; rfl) (fun t ht => stSetSend_cl_ne (hne := ht) ..) (by simp) (by simp) (by simp) rfl
      show sp.pend ++ _ = _
      rw [hR.pend]; unfold pendE; rw [hp]; simp
    · refine ⟨false, { sp with cl := .setRetDrop i }, [], by simp [specClient, hcl], ?_, by simp [obsOf]⟩
      refine hR.client_gen (fun k => by simpa using hR.map k) ?_ (by simpa using hR.clock) (by simpa using hR.nm)
        (by rw [hpc']; rfl) (by rw [hpc']; rfl) (fun t ht => stSetSend_cl_ne (hne := ht) ..) (by simp) (by simp) (by simp) rfl
      show sp.pend = _
      rw [hR.pend]; unfold pendE; rw [hp]
  case setRetTrue =>
    intro i hpc _
    have hcl : sp.cl = .setRetTrue i := by rw [hR.cl, hpc]; rfl
    refine ⟨true, { sp with cl := .idle }, [.setRet t0 i.value true], by simp [specClient, hcl], ?_, by simp [stSetRetTrue, obsOf_cons]⟩
    cframeU stSetRetTrue (.idle)
  case setRetDrop =>
    intro i hpc _
    have hcl : sp.cl = .setRetDrop i := by rw [hR.cl, hpc]; rfl
    refine ⟨true, { sp with cl := .idle }, [.setRet t0 i.value (dropIsUpdate i.flag.code)], by simp [specClient, hcl], ?_, ?_⟩
    · refine hR.client_frame (by simp) (by simp) (by simp) (by simp) (by simp) (by simp) (by simp) (by simp)
        (fun t ht => stSetRetDrop_cl_ne (hne := ht) ..) .idle ?_ rfl
      unfold stSetRetDrop; split <;> simp
    · unfold stSetRetDrop
      split
      · rename_i hd; simp [obsOf_cons, hd]
      · rename_i hd
        have : dropIsUpdate i.flag.code = false := by simpa using hd
        simp [obsOf_cons, this]
  case delStart =>
    intro h c hpc _
    have hcl : sp.cl = .delStart h c := by rw [hR.cl, hpc]; rfl
    obtain ⟨c1, c2⟩ := specDel_corr (st := s.store) (em := s.em) hR.map h c
    refine ⟨true, _, [], (by simp only [specClient, hcl]; rfl), ?_, by simp [stDelStart, hopen, obsOf]⟩
    have hst : stDelStart s t0 h c = setCl { s with store := (storeDel s.store s.em h c).1, em := (storeDel s.store s.em h c).2.1 }
        t0 (.delExit h c (storeDel s.store s.em h c).2.2.2) := by
      unfold stDelStart; rw [if_neg (by simp [hopen])]
    rw [hst]
    refine hR.client_gen (fun k => c1 k) ?_ hR.clock hR.nm ?_ (by simp; rfl) (fun t ht => setCl_cl_ne _ _ _ ht) rfl rfl rfl rfl
    · show sp.pend = _; rw [hR.pend]; rfl
    · show CPc.delExit h c (specDel sp.map h c).2 = _
      rw [c2]; simp [unblockedPc]
  case delExit =>
    intro h c prev hpc _
    have hcl : sp.cl = .delExit h c prev := by rw [hR.cl, hpc]; rfl
    refine ⟨true, { sp with cl := .delSend h c }, [], by simp [specClient, hcl], ?_, by simp [stDelExit, obsOf_cons]⟩
    cframeU stDelExit (.delSend h c)
  case delSend =>
    intro h c hpc _
    have hcl : sp.cl = .delSend h c := by rw [hR.cl, hpc]; rfl
    refine ⟨true, { sp with pend := sp.pend ++ [tomb h c], cl := .delSent h }, [], by simp [specClient, hcl], ?_, by simp [obsOf]⟩
    have hpc' : (stDelSend cfg s t0 h c).cl t0 = .delSent h ∨ (stDelSend cfg s t0 h c).cl t0 = .delBlocked h := by
      unfold stDelSend sendBlocking; split <;> simp
    refine hR.client_gen (fun k => by simpa using hR.map k) ?_ (by simpa using hR.clock) (by simpa using hR.nm)
      (by rcases hpc' with e | e <;> rw [e] <;> rfl) (by rcases hpc' with e | e <;> rw [e] <;> rfl)
      (fun t ht => stDelSend_cl_ne (hne := ht) ..) (by simp) (by simp) (by simp) rfl
    show sp.pend ++ _ = _
    rw [hR.pend]; unfold pendE; rw [tomb_enqueued]; simp [eraseCost, tomb]
  case delSent =>
    intro h hpc _
    have hcl : sp.cl = .delSent h := by rw [hR.cl, hpc]; rfl
    refine ⟨true, { sp with cl := .idle }, [.delRet t0 h], by simp [specClient, hcl], ?_, by simp [stDelSent, obsOf_cons]⟩
    cframeU stDelSent (.idle)
  case waitStart =>
    intro hpc _
    have hcl : sp.cl = .waitStart := by rw [hR.cl, hpc]; rfl
    refine ⟨true, { sp with cl := .waitSend }, [], by simp [specClient, hcl], ?_, by simp [stWaitStart, hopen, obsOf]⟩
    unfold stWaitStart; rw [if_neg (by simp [hopen])]
    cframe (.waitSend)
  case waitSend =>
    intro hpc _
    have hcl : sp.cl = .waitSend := by rw [hR.cl, hpc]; rfl
    refine ⟨true, { sp with pend := sp.pend ++ [.marker sp.nextMarker], nextMarker := sp.nextMarker + 1, cl := .waitRecv sp.nextMarker }, [], by simp [specClient, hcl], ?_, by simp [obsOf]⟩
    have hpc' : (stWaitSend cfg s t0).cl t0 = .waitRecv s.nextMarker ∨ (stWaitSend cfg s t0).cl t0 = .waitBlocked s.nextMarker := by
      unfold stWaitSend sendBlocking; split <;> simp
    have hnm' : (stWaitSend cfg s t0).nextMarker = s.nextMarker + 1 := by
      unfold stWaitSend sendBlocking; split <;> simp
    refine hR.client_gen (fun k => by simpa using hR.map k) ?_ (by simpa using hR.clock) (by rw [hnm']; show sp.nextMarker + 1 = _; rw [hR.nm])
      (by show CPc.waitRecv sp.nextMarker = _; rw [hR.nm]; rcases hpc' with e | e <;> rw [e] <;> rfl)
      (by rcases hpc' with e | e <;> rw [e] <;> rfl)
      (fun t ht => stWaitSend_cl_ne (hne := ht) ..) (by simp) (by simp) (by simp) rfl
    show sp.pend ++ _ = _
    rw [hR.pend, hR.nm]; unfold pendE; rw [marker_enqueued]; simp [eraseCost]
  case waitRecv =>
    intro id hpc _ hr'
    have hcl : sp.cl = .waitRecv id := by rw [hR.cl, hpc]; rfl
    unfold stWaitRecv at hr'
    split at hr'
    · rename_i hc
      simp only [Option.some.injEq] at hr'; subst hr'
      have hclosed : id ∈ s.closedMarkers := by simpa using hc
      have hnot : BufElem.marker id ∉ sp.pend := by
        rw [hR.pend, mem_pendE_marker]
        intro hm
        exact hq.mk_open id (mem_markerIds.mpr hm) hclosed
      refine ⟨true, { sp with cl := .waitDone }, [], by simp [specClient, hcl, hnot], ?_, by simp [obsOf]⟩
      cframe (.waitDone)
    · simp at hr'
  case waitDone =>
    intro hpc _
    have hcl : sp.cl = .waitDone := by rw [hR.cl, hpc]; rfl
    refine ⟨true, { sp with cl := .idle }, [.waitRet t0], by simp [specClient, hcl], ?_, by simp [stWaitDone, obsOf_cons]⟩
    cframeU stWaitDone (.idle)
  case getStart =>
    intro h c hpc hr'
    have hcl : sp.cl = .getStart h c := by rw [hR.cl, hpc]; rfl
    obtain ⟨h1, h2, h3, _, h5, h6, h7, h8, h9, h10⟩ := stGetStart_q hr'
    rcases h10 with ⟨_, hc, _⟩ | ⟨e, _, hl⟩
    · rw [hopen] at hc; cases hc
    · refine ⟨true, { sp with cl := .getRead h c }, [], by simp [specClient, hcl], ?_, by rw [hl]; simp⟩
      have hclock : s'.clock = s.clock := by
        have := (sweepNow_clientStep hs).1; exact this
      exact hR.client_frame h6 h7 h1 h2 h3 h5 hclock h8 h9 _ e rfl
  case getRead =>
    intro h c hpc _
    have hcl : sp.cl = .getRead h c := by rw [hR.cl, hpc]; rfl
    refine ⟨true, { sp with cl := .getCheck h c (sp.map h) }, [], by simp [specClient, hcl], ?_, by simp [stGetRead, obsOf]⟩
    rw [hR.map h]
    cframeU stGetRead (.getCheck h c (s.store.lookup h))
  case getCheck =>
    intro h c e hpc _
    have hcl : sp.cl = .getCheck h c e := by rw [hR.cl, hpc]; rfl
    refine ⟨true, { sp with cl := .getMetric h c (getResult c e sp.clock) }, [], by simp [specClient, hcl], ?_, by simp [stGetCheck, obsOf]⟩
    cframeU stGetCheck (.getMetric h c (getResult c e sp.clock))
  case getMetric =>
    intro h c r hpc _
    have hcl : sp.cl = .getMetric h c r := by rw [hR.cl, hpc]; rfl
    refine ⟨true, { sp with cl := .idle }, [.getRet t0 h c r], by simp [specClient, hcl], ?_, by simp [stGetMetric, obsOf_cons]⟩
    exact hR.client_frame (by simp) (by simp) (by simp) (by simp) (by simp) (by simp) (by simp) (by simp)
      (fun t ht => stGetMetric_cl_ne (hne := ht) ..) .idle (by simp [stGetMetric]) rfl
  case ttlRead =>
    intro h c hpc _
    have hcl : sp.cl = .ttlRead h c := by rw [hR.cl, hpc]; rfl
    refine ⟨true, { sp with cl := .ttlCheck h c (sp.map h) }, [], by simp [specClient, hcl], ?_, by simp [stTtlRead, obsOf]⟩
    rw [hR.map h]
    cframeU stTtlRead (.ttlCheck h c (s.store.lookup h))
  case ttlCheck =>
    intro h c e hpc _
    have hcl : sp.cl = .ttlCheck h c e := by rw [hR.cl, hpc]; rfl
    unfold stTtlCheck
    cases hg : getResult c e s.clock with
    | none =>
      refine ⟨true, { sp with cl := .idle }, [.ttlRet t0 h c 0 false], by simp [specClient, hcl, hR.clock, hg], ?_, by simp [obsOf_cons]⟩
      cframe .idle
    | some v =>
      refine ⟨true, { sp with cl := .ttlExp h c }, [], by simp [specClient, hcl, hR.clock, hg], ?_, by simp [obsOf]⟩
      cframe (.ttlExp h c)
  case ttlExp =>
    intro h c hpc _
    have hcl : sp.cl = .ttlExp h c := by rw [hR.cl, hpc]; rfl
    have hexp : specExp sp.map h = expirationOf s.store h := by
      unfold expirationOf specExp; rw [hR.map h]; cases s.store.lookup h <;> rfl
    unfold stTtlExp
    dsimp only
    by_cases h1 : getTTLNoExpiry (expirationOf s.store h) = true
    · rw [if_pos h1]
      refine ⟨true, { sp with cl := .idle }, [.ttlRet t0 h c 0 true], by simp [specClient, hcl, hexp, h1], ?_, by simp [obsOf_cons]⟩
      cframe .idle
    · rw [if_neg h1]
      refine ⟨true, { sp with cl := .ttlNow h c (expirationOf s.store h) }, [], by simp [specClient, hcl, hexp, h1], ?_, by simp [obsOf]⟩
      cframe (.ttlNow h c (expirationOf s.store h))
  case ttlNow =>
    intro h c exp hpc _
    have hcl : sp.cl = .ttlNow h c exp := by rw [hR.cl, hpc]; rfl
    unfold stTtlNow
    by_cases h1 : getTTLExpired s.clock exp = true
    · rw [if_pos h1]
      refine ⟨true, { sp with cl := .idle }, [.ttlRet t0 h c 0 false], by simp [specClient, hcl, hR.clock, h1], ?_, by simp [obsOf_cons]⟩
      cframe .idle
    · rw [if_neg h1]
      refine ⟨true, { sp with cl := .ttlUntil h c exp }, [], by simp [specClient, hcl, hR.clock, h1], ?_, by simp [obsOf]⟩
      cframe (.ttlUntil h c exp)
  case ttlUntil =>
    intro h c exp hpc _
    have hcl : sp.cl = .ttlUntil h c exp := by rw [hR.cl, hpc]; rfl
    refine ⟨true, { sp with cl := .idle }, [.ttlRet t0 h c (getTTLRemaining sp.clock exp) true], by simp [specClient, hcl], ?_, ?_⟩
    · cframeU stTtlUntil (.idle)
    · simp [stTtlUntil, obsOf_cons, hR.clock]

end RV.Cache
