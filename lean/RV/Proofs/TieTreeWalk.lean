import RV.Proofs.TieTreeGet
/-!
# The tree on flat memory: the canonical walk decoded from the words is the structural walk

`walkFlat` (what the trace validator `Drive/TreeM.lean` compares with the implementation's
`VerifWalk` and with the structural model) on a represented node is `walkNode` of that node.
-/
namespace RV.TreeFlat
open RV.Tree RV.NodeFlat Gen.TreeM

theorem childWord_zero_iff {cfg : Cfg} {d : Words} (c : Node) (hr : TreeFlat.Repr cfg d c) (hsmall : d.size < 2 ^ 40) :
    (childWord c == 0#64) = true ↔ c = .null := by
  have hpos := pw_pos cfg
  constructor
  · intro h
    cases c with
    | null => rfl
    | leaf q es =>
      have hq := repr_leaf hr
      have e1 := hq.fit
      have : q < 2 ^ 40 := by
        rcases Nat.lt_or_ge q (2 ^ 40) with h' | h'
        · exact h'
        · have : 2 ^ 40 * 1 ≤ q * pw cfg := Nat.mul_le_mul h' hpos
          have := Nat.add_mul q 1 (pw cfg); omega
      have hb := w_beq (a := q) (b := 0) (by omega) (by omega)
      simp only [childWord, Node.pid] at h
      rw [show (0#64 : BitVec 64) = w 0 from rfl, hb] at h
      have := hq.pos; simp at h; omega
    | inner q es =>
      have hq := (repr_inner hr).1
      have e1 := hq.fit
      have : q < 2 ^ 40 := by
        rcases Nat.lt_or_ge q (2 ^ 40) with h' | h'
        · exact h'
        · have : 2 ^ 40 * 1 ≤ q * pw cfg := Nat.mul_le_mul h' hpos
          have := Nat.add_mul q 1 (pw cfg); omega
      have hb := w_beq (a := q) (b := 0) (by omega) (by omega)
      simp only [childWord, Node.pid] at h
      rw [show (0#64 : BitVec 64) = w 0 from rfl, hb] at h
      have := hq.pos; simp at h; omega
  · intro h; subst h; rfl

theorem pid_toNat {cfg : Cfg} {d : Words} (c : Node) (hr : TreeFlat.Repr cfg d c) (hsmall : d.size < 2 ^ 40) :
    (childWord c).toNat = c.pid := by
  have hpos := pw_pos cfg
  cases c with
  | null => rfl
  | leaf q es =>
    have e1 := (repr_leaf hr).fit
    have : q < 2 ^ 40 := by
      rcases Nat.lt_or_ge q (2 ^ 40) with h' | h'
      · exact h'
      · have : 2 ^ 40 * 1 ≤ q * pw cfg := Nat.mul_le_mul h' hpos
        have := Nat.add_mul q 1 (pw cfg); omega
    show (w q).toNat = q
    exact w_toNat (by omega)
  | inner q es =>
    have e1 := (repr_inner hr).1.fit
    have : q < 2 ^ 40 := by
      rcases Nat.lt_or_ge q (2 ^ 40) with h' | h'
      · exact h'
      · have : 2 ^ 40 * 1 ≤ q * pw cfg := Nat.mul_le_mul h' hpos
        have := Nat.add_mul q 1 (pw cfg); omega
    show (w q).toNat = q
    exact w_toNat (by omega)

/-- the children part of the flat walk, entry by entry -/
theorem walk_children {cfg : Cfg} {d : Words} (hsmall : d.size < 2 ^ 40) (fuel : Nat)
    (ih : ∀ c : Node, c ≠ .null → TreeFlat.Repr cfg d c → height c ≤ fuel → walkFlat cfg d fuel c.pid = walkNode c) :
    ∀ (es : List (Key × Node)), ReprEnts cfg d es → heightEnts es ≤ fuel →
      ((entWords es).flatMap fun e => if e.2 == 0#64 then [] else walkFlat cfg d fuel e.2.toNat) = walkEnts es
  | [], _, _ => by simp [entWords, walkEnts]
  | (k, c) :: rest, hr, hh => by
    rw [ReprEnts] at hr
    rw [heightEnts] at hh
    rw [entWords, walkEnts, List.flatMap_cons, walk_children hsmall fuel ih rest hr.2 (by omega)]
    congr 1
    simp only []
    by_cases hc : c = .null
    · subst hc; simp [childWord, Node.pid, walkNode]
    · have hz : (childWord c == 0#64) = false := by
        cases hb : (childWord c == 0#64) with
        | false => rfl
        | true => exact absurd ((childWord_zero_iff c hr.1 hsmall).mp hb) hc
      rw [hz]
      simp only [Bool.false_eq_true, if_false]
      rw [pid_toNat c hr.1 hsmall]
      exact ih c hc hr.1 (by omega)

theorem walkFlat_refines {cfg : Cfg} (hc : CfgFlat cfg) (d : Words) (hsmall : d.size < 2 ^ 40) :
    ∀ (fuel : Nat) (n : Node), n ≠ .null → TreeFlat.Repr cfg d n → height n ≤ fuel →
      walkFlat cfg d fuel n.pid = walkNode n
  | 0, n, hn, _, hh => by
    cases n with
    | null => exact absurd rfl hn
    | leaf p es => rw [height] at hh; omega
    | inner p es => rw [height] at hh; omega
  | fuel + 1, .null, hn, _, _ => absurd rfl hn
  | fuel + 1, .leaf p es, _, hr, _ => by
    have hp := repr_leaf hr
    have hmk := hc.mkLt
    have hlen : es.length ≤ cfg.maxKeys := by
      have := hp.ok.2.1; rw [← ents_length, hp.ents] at this; exact this
    rw [walkFlat, walkNode]
    simp only [Node.pid, walkPage, hp.isLeaf, hp.ents, if_true]
    congr 1
    · rw [Node.isLeafK_eq _ (by simp [Node.len]; omega)]
      rw [← ents_length, hp.ents, Node.numKeys_eq _ (by simp [Node.len]; omega)]
      simp [Node.isLeafC, Node.len]
  | fuel + 1, .inner p es, _, hr, hh => by
    obtain ⟨hp, hre⟩ := repr_inner hr
    have hmk := hc.mkLt
    have hlen : es.length ≤ cfg.maxKeys := by
      have := hp.ok.2.1; rw [← ents_length, hp.ents, entWords_length] at this; exact this
    rw [height] at hh
    rw [walkFlat, walkNode]
    simp only [Node.pid, walkPage, hp.isLeaf, hp.ents, Bool.false_eq_true, if_false]
    congr 1
    · rw [Node.isLeafK_eq _ (by simp [Node.len]; omega)]
      rw [← ents_length, hp.ents, entWords_length, Node.numKeys_eq _ (by simp [Node.len]; omega)]
      simp [Node.isLeafC, Node.len]
    · exact walk_children hsmall fuel (fun c hc0 hrc hhc => walkFlat_refines hc d hsmall fuel c hc0 hrc hhc) es hre
        (by omega)

end RV.TreeFlat
