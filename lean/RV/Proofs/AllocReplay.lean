import RV.Proofs.AllocSafe
/-!
Allocator (C12): liveness of the chunk prefix, and replaying a schedule on the
final chunk table (Reset-and-replay).
-/
namespace RV.Alloc
open Gen.Alloc

/-- Every chunk up to the current one exists. -/
def Live (s : State) : Prop := ∀ i, i ≤ B s → chunkLen s.chunks i ≠ 0

theorem fits_iff (m : W) (n : Nat) (hm : m.toNat < 2 ^ 63) (hn : n < 2 ^ 63) :
    growFits m (bufOfLen n) = decide (m.toNat ≤ n) := by
  simp only [growFits, size_bufOfLen]
  rw [sle_small _ _ hm (by simp; omega)]
  simp only [BitVec.toNat_ofNat]
  have : n % 2 ^ 64 = n := by omega
  rw [this]

/-- The first slot `addBufferAt` looks at is non-empty afterwards. -/
theorem addBufferAt_first {cs cs' : List Nat} {i m : W} (h : addBufferAt cs i m = .ok cs')
    (hlt : ∀ c ∈ cs, c < 2 ^ 63) (hlen : cs.length < 2 ^ 31) (hi : i.toNat < 2 ^ 63)
    (hm0 : 0 < m.toNat) (hm : m.toNat < 2 ^ 63) : chunkLen cs' i.toNat ≠ 0 := by
  obtain ⟨c1, c2, c3, _⟩ := addBufferAt_ok h hlt hlen hi hm0 hm
  by_cases h0 : chunkLen cs i.toNat = 0
  · -- the slot is empty: the new chunk goes exactly there
    simp only [addBufferAt, findSlot] at h
    rw [outOfSlots_iff _ _ hi (by omega)] at h
    have hnot : ¬ cs.length ≤ i.toNat := by omega
    simp only [hnot, decide_false, Bool.false_eq_true, ↓reduceIte] at h
    rw [slotEmpty_iff _ (chunkLen_lt hlt (by decide) _)] at h
    simp only [h0, decide_true, ↓reduceIte] at h
    split at h
    · exact absurd h (by simp)
    · rename_i p hp
      simp only [GrowRes.ok.injEq] at h
      subst h
      rw [chunkLen_set]
      have := (pageSizeFor_some hp hm0 hm).2
      simp only [c2, and_self, ↓reduceIte]
      omega
  · rw [c3 _ h0]; exact h0

theorem live_step {s s' : State} {a : Action} (hI : Inv s) (hL : Live s) (ha : ∀ mx, a ≠ .trim mx)
    (hN : NoCarry s a) (h : step s a = some s') : Live s' := by
  have hext := stable_step hI ha h
  cases a with
  | start t op =>
    obtain ⟨th, hth, hpc, h1 | h1 | h1⟩ := step_start h
    · obtain ⟨_, rfl⟩ := h1; exact hL
    · obtain ⟨_, _, rfl⟩ := h1; exact hL
    · obtain ⟨_, _, rfl⟩ := h1; exact hL
  | add t =>
    have hI' := inv_add hI hN h
    obtain ⟨th, sz, hth, hpc, hs'⟩ := step_add h
    have hc : s'.compIdx = s.compIdx + allocAddend sz := by rw [hs']
    have hch : s'.chunks = s.chunks := by rw [hs']
    have hnc : P s + sz.toNat < 4294967296 := by
      have := hN th sz hth hpc
      simpa [P] using this
    have hpar := add_parse s.compIdx sz (by rw [← P_def]; exact hnc)
    intro i hi
    have hB : ∀ s' : State, s'.compIdx = s.compIdx + allocAddend sz → B s' = B s := by
      intro s' e
      rw [B_def, B_def, e, addend_eq, ← parse_fst]; exact hpar.1
    rw [hB _ hc] at hi
    rw [hch]
    exact hL i hi
  | check t =>
    obtain ⟨th, sz, pos, hth, hpc, h1 | h1 | h1⟩ := step_check h
    · obtain ⟨b, _, rfl⟩ := h1; exact hL
    · obtain ⟨_, rfl⟩ := h1; exact hL
    · obtain ⟨r, _, rfl⟩ := h1; exact hL
  | grow t =>
    obtain ⟨_, th, sz, b, hth, hpc, h1 | h1 | h1 | h1⟩ := step_grow h
    · obtain ⟨_, rfl⟩ := h1; exact hL
    · obtain ⟨_, _, rfl⟩ := h1; exact hL
    · obtain ⟨_, _, rfl⟩ := h1; exact hL
    · obtain ⟨cs, hm, hadd, hs'⟩ := h1
      have hc : s'.compIdx = allocStore b := by rw [hs']
      have hch : s'.chunks = cs := by rw [hs']
      obtain ⟨g1, g2, g3, g4⟩ := hI.needGrow t th sz b hth hpc
      have hb : bi s = b := moved_false hm
      have hbB : b.toNat = B s := by rw [← hb]; rfl
      have hBlt := hI.biLt
      have hlen := hI.lenLt
      have hnext := nextIdx_toNat b (by omega)
      have hfirst := addBufferAt_first hadd hI.chunkLt hI.lenLt (by omega) g1 (by omega)
      have hst := store_parse b (by omega)
      intro i hi
      have hB' : ∀ s' : State, s'.compIdx = allocStore b → B s' = B s + 1 := by
        intro s' e
        rw [B_def, e, ← parse_fst]; omega
      rw [hB' _ hc] at hi
      by_cases hiB : i ≤ B s
      · rw [hext.2 i (hL i hiB)]; exact hL i hiB
      · have : i = (allocNextIdx b).toNat := by omega
        rw [hch, this]; exact hfirst
  | reset =>
    obtain ⟨_, rfl⟩ := step_reset h
    intro i hi
    have : B { s with compIdx := 0#64, grants := [] } = 0 := by simp [B_def]
    rw [this] at hi
    exact hL i (by omega)
  | trim mx => exact absurd rfl (ha mx)

theorem checkPos_congr {cs T : List Nat} {sz pos : W} (hlen : T.length = cs.length)
    (hb : chunkLen T (parse pos).1.toNat = chunkLen cs (parse pos).1.toNat) :
    checkPos T sz pos = checkPos cs sz pos := by
  simp only [checkPos, hlen, hb]

theorem findSlot_allocAt_lt {cs : List Nat} {m : W} {f : Nat} {i idx : W}
    (h : findSlot cs m f i = .allocAt idx) :
    growOutOfSlots idx (BitVec.ofNat 64 cs.length) = false := by
  induction f generalizing i with
  | zero => simp [findSlot] at h
  | succ f ih =>
    simp only [findSlot] at h
    split at h
    · exact absurd h (by simp)
    · rename_i hc
      split at h
      · simp only [Slot.allocAt.injEq] at h; subst h; simpa using hc
      · split at h
        · exact absurd h (by simp)
        · exact ih h

theorem findSlot_allocAt_range {cs : List Nat} {m : W} {f : Nat} {i idx : W}
    (h : findSlot cs m f i = .allocAt idx) (hi : i.toNat + f < 2 ^ 64) :
    i.toNat ≤ idx.toNat ∧ idx.toNat ≤ i.toNat + f := by
  induction f generalizing i with
  | zero => simp [findSlot] at h
  | succ f ih =>
    simp only [findSlot] at h
    split at h
    · exact absurd h (by simp)
    · split at h
      · simp only [Slot.allocAt.injEq] at h; subst h; omega
      · split at h
        · exact absurd h (by simp)
        · have h1 : (i + 1#64).toNat = i.toNat + 1 := by
            simp only [BitVec.toNat_add]
            have : (1#64 : W).toNat = 1 := rfl
            rw [this]; omega
          have := ih h (by rw [h1]; omega)
          rw [h1] at this
          omega

theorem findSlot_fits_ext {cs T : List Nat} {m : W} {f : Nat} {i : W} (hE : Ext cs T)
    (hc : ∀ c ∈ cs, c < 2 ^ 63) (hT : ∀ c ∈ T, c < 2 ^ 63)
    (h : findSlot cs m f i = .fits) : findSlot T m f i = .fits := by
  induction f generalizing i with
  | zero => simp [findSlot] at h
  | succ f ih =>
    simp only [findSlot] at h ⊢
    rw [hE.1]
    split at h
    · exact absurd h (by simp)
    · rename_i ho
      simp only [ho, Bool.false_eq_true, ↓reduceIte]
      rw [slotEmpty_iff _ (chunkLen_lt hc (by decide) _)] at h
      rw [slotEmpty_iff _ (chunkLen_lt hT (by decide) _)]
      by_cases h0 : chunkLen cs i.toNat = 0
      · simp [h0] at h
      · have hTe := hE.2 _ h0
        simp only [h0, decide_false, Bool.false_eq_true, ↓reduceIte] at h
        simp only [hTe, h0, decide_false, Bool.false_eq_true, ↓reduceIte]
        split at h
        · rename_i hf; simp [hf]
        · rename_i hf; simp only [hf, Bool.false_eq_true, ↓reduceIte]; exact ih h

theorem findSlot_alloc_ext {cs T : List Nat} {m : W} {f : Nat} {i idx : W} (hE : Ext cs T)
    (hc : ∀ c ∈ cs, c < 2 ^ 63) (hT : ∀ c ∈ T, c < 2 ^ 63) (hm : m.toNat < 2 ^ 63)
    (h : findSlot cs m f i = .allocAt idx) (hfit : m.toNat ≤ chunkLen T idx.toNat)
    (hne : chunkLen T idx.toNat ≠ 0) : findSlot T m f i = .fits := by
  induction f generalizing i with
  | zero => simp [findSlot] at h
  | succ f ih =>
    simp only [findSlot] at h ⊢
    rw [hE.1]
    split at h
    · exact absurd h (by simp)
    · rename_i ho
      simp only [ho, Bool.false_eq_true, ↓reduceIte]
      rw [slotEmpty_iff _ (chunkLen_lt hc (by decide) _)] at h
      rw [slotEmpty_iff _ (chunkLen_lt hT (by decide) _)]
      by_cases h0 : chunkLen cs i.toNat = 0
      · simp only [h0, decide_true, ↓reduceIte, Slot.allocAt.injEq] at h
        subst h
        simp only [hne, decide_false, Bool.false_eq_true, ↓reduceIte]
        rw [fits_iff _ _ hm (chunkLen_lt hT (by decide) _)]
        simp [hfit]
      · have hTe := hE.2 _ h0
        simp only [h0, decide_false, Bool.false_eq_true, ↓reduceIte] at h
        simp only [hTe, h0, decide_false, Bool.false_eq_true, ↓reduceIte]
        split at h
        · exact absurd h (by simp)
        · rename_i hf; simp only [hf, Bool.false_eq_true, ↓reduceIte]; exact ih h

theorem tooBig_false {m : W} (h : allocTooBig m = false) (hm : m.toNat < 2 ^ 63) : m.toNat ≤ 2 ^ 30 := by
  simp only [allocTooBig] at h
  rw [slt_small _ _ (by decide) hm] at h
  simpa using h

theorem pageSizeFor_ge {prev : Nat} {m p : W} (h : pageSizeFor prev m = some p)
    (hm0 : 0 < m.toNat) (hm : m.toNat < 2 ^ 63) (htb : allocTooBig m = false) : m.toNat ≤ p.toNat := by
  simp only [pageSizeFor] at h
  split at h
  · exact absurd h (by simp)
  · rename_i q hq
    simp only [Option.some.injEq] at h
    have h1 := not_slt_pos (doubleUntil_some hq) hm0 hm
    have h2 := tooBig_false htb hm
    split at h
    · subst h; simpa [maxAlloc] using h2
    · subst h; omega

/-- On a table that already contains whatever `addBufferAt` was going to add, it adds nothing. -/
theorem addBufferAt_ext {cs cs' T : List Nat} {i m : W} (h : addBufferAt cs i m = .ok cs')
    (hE : Ext cs' T) (hc : ∀ c ∈ cs, c < 2 ^ 63) (hT : ∀ c ∈ T, c < 2 ^ 63)
    (hlen : cs.length < 2 ^ 31) (hi : i.toNat < 2 ^ 32) (hm0 : 0 < m.toNat) (hm : m.toNat < 2 ^ 63)
    (htb : allocTooBig m = false) : addBufferAt T i m = .ok T := by
  obtain ⟨c1, c2, c3, c4⟩ := addBufferAt_ok h hc hlen (by omega) hm0 hm
  have hE0 : Ext cs T := Ext.trans ⟨c1, c3⟩ hE
  simp only [addBufferAt] at h ⊢
  rw [hE0.1]
  split at h
  · exact absurd h (by simp)
  · rename_i hf
    rw [findSlot_fits_ext hE0 hc hT hf]
  · rename_i idx hf
    split at h
    · exact absurd h (by simp)
    · rename_i p hp
      simp only [GrowRes.ok.injEq] at h
      subst h
      have hidx := findSlot_allocAt_lt hf
      have hrange := findSlot_allocAt_range hf (by omega)
      have hpp := pageSizeFor_some hp hm0 hm
      have hge := pageSizeFor_ge hp hm0 hm htb
      -- idx is a valid slot
      have hidxlt : idx.toNat < cs.length := by
        simp only [growOutOfSlots, BitVec.sle, decide_eq_false_iff_not, BitVec.toInt, BitVec.toNat_ofNat] at hidx
        have hl : cs.length % 2 ^ 64 = cs.length := by omega
        rw [hl] at hidx
        have := idx.isLt
        split at hidx <;> split at hidx <;> omega
      have hset : chunkLen (cs.set idx.toNat p.toNat) idx.toNat = p.toNat := by
        rw [chunkLen_set]; simp [hidxlt]
      have hTidx : chunkLen T idx.toNat = p.toNat := by
        rw [hE.2 _ (by rw [hset]; omega), hset]
      rw [findSlot_alloc_ext hE0 hc hT hm hf (by omega) (by omega)]


/-- The same state on another chunk table. -/
def withChunks (s : State) (T : List Nat) : State := { s with chunks := T }

theorem lock_mono {s s' : State} {a : Action} (h : step s a = some s') (hl : s'.lockHeld = false) :
    s.lockHeld = false := by
  cases a with
  | start t op =>
    obtain ⟨th, hth, hpc, h1 | h1 | h1⟩ := step_start h
    · obtain ⟨_, rfl⟩ := h1; exact hl
    · obtain ⟨_, _, rfl⟩ := h1; exact hl
    · obtain ⟨_, _, rfl⟩ := h1; exact hl
  | add t => obtain ⟨th, sz, hth, hpc, rfl⟩ := step_add h; exact hl
  | check t =>
    obtain ⟨th, sz, pos, hth, hpc, h1 | h1 | h1⟩ := step_check h
    · obtain ⟨b, _, rfl⟩ := h1; exact hl
    · obtain ⟨_, rfl⟩ := h1; exact hl
    · obtain ⟨r, _, rfl⟩ := h1; exact hl
  | grow t => exact (step_grow h).1
  | reset => obtain ⟨_, rfl⟩ := step_reset h; exact hl
  | trim mx => obtain ⟨_, rfl⟩ := step_trim h; exact hl

/-- One step of the first run, redone on a table `T` that extends the table *after* the step. -/
theorem replay_step {s s' : State} {a : Action} {T : List Nat} (hI : Inv s) (hL : Live s)
    (ha : a ≠ .reset) (ha' : ∀ mx, a ≠ .trim mx) (h : step s a = some s') (hl : s'.lockHeld = false)
    (hE : Ext s'.chunks T) (hT : ∀ c ∈ T, c < 2 ^ 63) :
    step (withChunks s T) a = some (withChunks s' T) := by
  have hE0 : Ext s.chunks T := Ext.trans (stable_step hI ha' h) hE
  cases a with
  | start t op =>
    obtain ⟨th, hth, hpc, h1 | h1 | h1⟩ := step_start h
    · obtain ⟨hb, rfl⟩ := h1
      simp [step, withChunks, hth, hpc, hb]
    · obtain ⟨hb, hz, rfl⟩ := h1
      simp [step, withChunks, hth, hpc, hb, hz]
    · obtain ⟨hb, hz, rfl⟩ := h1
      simp [step, withChunks, hth, hpc, hb, hz, setThread]
  | add t =>
    obtain ⟨th, sz, hth, hpc, rfl⟩ := step_add h
    simp [step, withChunks, hth, hpc, setThread]
  | check t =>
    obtain ⟨th, sz, pos, hth, hpc, h1⟩ := step_check h
    obtain ⟨_, _, a3, _⟩ := hI.added t th sz pos hth hpc
    have hcp : checkPos T sz pos = checkPos s.chunks sz pos :=
      checkPos_congr hE0.1 (hE0.2 _ (hL _ a3))
    rcases h1 with h1 | h1 | h1
    · obtain ⟨b, hb, rfl⟩ := h1
      simp [step, withChunks, hth, hpc, hcp, hb, setThread]
    · obtain ⟨hb, rfl⟩ := h1
      simp [step, withChunks, hth, hpc, hcp, hb, setThread]
    · obtain ⟨r, hb, rfl⟩ := h1
      simp [step, withChunks, hth, hpc, hcp, hb, setThread]
  | grow t =>
    obtain ⟨hl0, th, sz, b, hth, hpc, h1 | h1 | h1 | h1⟩ := step_grow h
    · obtain ⟨hm, rfl⟩ := h1
      have hm' : allocMoved (parse s.compIdx).1 b = true := hm
      simp [step, withChunks, hl0, hth, hpc, setThread, bi, hm']
    · obtain ⟨_, _, rfl⟩ := h1; simp at hl
    · obtain ⟨_, _, rfl⟩ := h1; simp at hl
    · obtain ⟨cs, hm, hadd, rfl⟩ := h1
      obtain ⟨g1, g2, g3, g4⟩ := hI.needGrow t th sz b hth hpc
      have hb : bi s = b := moved_false hm
      have hbB : b.toNat = B s := by rw [← hb]; rfl
      have hBlt := hI.biLt
      have hlen := hI.lenLt
      have hnext := nextIdx_toNat b (by omega)
      have hadd' := addBufferAt_ext hadd hE hI.chunkLt hT hlen (by omega) g1 (by omega) g4
      have hm' : allocMoved (parse s.compIdx).1 b = false := hm
      simp [step, withChunks, hl0, hth, hpc, setThread, bi, hadd', hm']
  | reset => exact absurd rfl ha
  | trim mx => exact absurd rfl (ha' mx)


/-- No atomic add of the schedule carries. -/
def NoCarryRun : State → List Action → Prop
  | _, [] => True
  | s, a :: as => NoCarry s a ∧ ∀ s', step s a = some s' → NoCarryRun s' as

/-- Neither `Reset` nor `TrimTo`. -/
def Plain (a : Action) : Prop := a ≠ .reset ∧ ∀ mx, a ≠ .trim mx

theorem threads_length_step {s s' : State} {a : Action} (h : step s a = some s') :
    s'.threads.length = s.threads.length := by
  cases a with
  | start t op =>
    obtain ⟨th, hth, hpc, h1 | h1 | h1⟩ := step_start h
    · obtain ⟨_, rfl⟩ := h1; rfl
    · obtain ⟨_, _, rfl⟩ := h1; rfl
    · obtain ⟨_, _, rfl⟩ := h1; simp
  | add t => obtain ⟨th, sz, hth, hpc, rfl⟩ := step_add h; simp
  | check t =>
    obtain ⟨th, sz, pos, hth, hpc, h1 | h1 | h1⟩ := step_check h
    · obtain ⟨b, _, rfl⟩ := h1; simp
    · obtain ⟨_, rfl⟩ := h1; simp
    · obtain ⟨r, _, rfl⟩ := h1; simp
  | grow t =>
    obtain ⟨_, th, sz, b, hth, hpc, h1 | h1 | h1 | h1⟩ := step_grow h
    · obtain ⟨_, rfl⟩ := h1; simp
    · obtain ⟨_, _, rfl⟩ := h1; simp
    · obtain ⟨_, _, rfl⟩ := h1; simp
    · obtain ⟨cs, _, _, rfl⟩ := h1; simp
  | reset => obtain ⟨_, rfl⟩ := step_reset h; rfl
  | trim mx => obtain ⟨_, rfl⟩ := step_trim h; rfl

theorem run_cons {s sf : State} {a : Action} {as : List Action} (h : run s (a :: as) = some sf) :
    ∃ s1, step s a = some s1 ∧ run s1 as = some sf := by
  simp only [run] at h
  split at h
  · rename_i s1 hs; exact ⟨s1, hs, h⟩
  · exact absurd h (by simp)

theorem run_props {s sf : State} {acts : List Action} (hI : Inv s) (hL : Live s)
    (hN : NoCarryRun s acts) (hp : ∀ a ∈ acts, Plain a) (h : run s acts = some sf) :
    Inv sf ∧ Live sf ∧ Ext s.chunks sf.chunks ∧ (sf.lockHeld = false → s.lockHeld = false) ∧
    sf.threads.length = s.threads.length := by
  induction acts generalizing s with
  | nil =>
    simp only [run, Option.some.injEq] at h; subst h
    exact ⟨hI, hL, Ext.refl _, id, rfl⟩
  | cons a as ih =>
    obtain ⟨s1, hs, hr⟩ := run_cons h
    have hpa := hp a (List.mem_cons_self ..)
    have hI1 := inv_step hI hN.1 hs
    have hL1 := live_step hI hL hpa.2 hN.1 hs
    obtain ⟨i1, i2, i3, i4, i5⟩ := ih hI1 hL1 (hN.2 s1 hs) (fun b hb => hp b (List.mem_cons_of_mem _ hb)) hr
    exact ⟨i1, i2, Ext.trans (stable_step hI hpa.2 hs) i3, fun hl => lock_mono hs (i4 hl),
      i5.trans (threads_length_step hs)⟩

theorem withChunks_self (s : State) : withChunks s s.chunks = s := by
  cases s; rfl

/-- The schedule of the first run, redone on the final chunk table of that run, goes through
step by step and ends in the same state: same slices, no new chunk. -/
theorem replay_run {s sf : State} {acts : List Action} (hI : Inv s) (hL : Live s)
    (hN : NoCarryRun s acts) (hp : ∀ a ∈ acts, Plain a) (h : run s acts = some sf)
    (hl : sf.lockHeld = false) : run (withChunks s sf.chunks) acts = some sf := by
  induction acts generalizing s with
  | nil =>
    simp only [run, Option.some.injEq] at h; subst h
    simp [run, withChunks_self]
  | cons a as ih =>
    obtain ⟨s1, hs, hr⟩ := run_cons h
    have hpa := hp a (List.mem_cons_self ..)
    have hI1 := inv_step hI hN.1 hs
    have hL1 := live_step hI hL hpa.2 hN.1 hs
    have hp1 : ∀ b ∈ as, Plain b := fun b hb => hp b (List.mem_cons_of_mem _ hb)
    obtain ⟨i1, _, i3, i4, _⟩ := run_props hI1 hL1 (hN.2 s1 hs) hp1 hr
    have := replay_step hI hL hpa.1 hpa.2 hs (i4 hl) i3 i1.chunkLt
    simp only [run, this]
    exact ih hI1 hL1 (hN.2 s1 hs) hp1 hr

theorem threads_eq_of_idle {s s' : State} (hI : Inv s) (hI' : Inv s') (h : allIdle s = true)
    (h' : allIdle s' = true) (hlen : s'.threads.length = s.threads.length) : s'.threads = s.threads := by
  apply List.ext_getElem? 
  intro i
  by_cases hi : i < s.threads.length
  · have h1 : s.threads[i]? = some s.threads[i] := List.getElem?_eq_getElem hi
    have h2 : s'.threads[i]? = some (s'.threads[i]'(by omega)) := List.getElem?_eq_getElem (by omega)
    rw [h1, h2, hI.idleDefault i _ h1 (idle_of_allIdle h h1), hI'.idleDefault i _ h2 (idle_of_allIdle h' h2)]
  · rw [List.getElem?_eq_none (by omega), List.getElem?_eq_none (by omega)]

/-- Reset and replay: from a quiescent, freshly reset allocator run any schedule to a quiescent
state, `Reset`, run the same schedule again: it is enabled step by step and ends in the very
same state – the same slices in the same order, and not one new chunk. -/
theorem reset_replay {s0 s1 : State} {acts : List Action} (hI : Inv s0) (hL : Live s0)
    (h0 : s0.compIdx = 0#64) (hg : s0.grants = []) (hidle0 : allIdle s0 = true)
    (hN : NoCarryRun s0 acts) (hp : ∀ a ∈ acts, Plain a) (hrun : run s0 acts = some s1)
    (hl : s1.lockHeld = false) (hidle1 : allIdle s1 = true) :
    ∃ s1r, step s1 .reset = some s1r ∧ run s1r acts = some s1 := by
  obtain ⟨i1, _, _, i4, i5⟩ := run_props hI hL hN hp hrun
  refine ⟨{ s1 with compIdx := 0#64, grants := [] }, by simp [step, hidle1], ?_⟩
  have heq : ({ s1 with compIdx := 0#64, grants := [] } : State) = withChunks s0 s1.chunks := by
    have ht := threads_eq_of_idle hI i1 hidle0 hidle1 i5
    have hl0 := i4 hl
    cases s0; cases s1
    simp only [withChunks] at *
    simp only [State.mk.injEq]
    exact ⟨h0.symm, trivial, ht, hg.symm, by rw [hl, hl0]⟩
  rw [heq]
  exact replay_run hI hL hN hp hrun hl


theorem noCarry_of_B {s : State} {a : Action} (h : noCarryB s a = true) : NoCarry s a := by
  cases a with
  | add t =>
    intro th sz hth hpc
    simp only [noCarryB, hth, hpc, decide_eq_true_eq] at h
    exact h
  | start t op => trivial
  | check t => trivial
  | grow t => trivial
  | reset => trivial
  | trim mx => trivial

theorem reachNW_of_runNW {s0 s sf : State} {acts : List Action} (h0 : ReachNW s0 s)
    (h : runNW s acts = some sf) : ReachNW s0 sf := by
  induction acts generalizing s with
  | nil => simp only [runNW, Option.some.injEq] at h; subst h; exact h0
  | cons a as ih =>
    simp only [runNW] at h
    split at h
    · rename_i hb
      split at h
      · rename_i s' hs
        exact ih (ReachNW.step a h0 (noCarry_of_B hb) hs) h
      · exact absurd h (by simp)
    · exact absurd h (by simp)

theorem run_of_runNW {s sf : State} {acts : List Action} (h : runNW s acts = some sf) :
    run s acts = some sf ∧ NoCarryRun s acts := by
  induction acts generalizing s with
  | nil => simp only [runNW, Option.some.injEq] at h; subst h; exact ⟨rfl, trivial⟩
  | cons a as ih =>
    simp only [runNW] at h
    split at h
    · rename_i hb
      split at h
      · rename_i s' hs
        obtain ⟨i1, i2⟩ := ih h
        refine ⟨by simp only [run, hs]; exact i1, noCarry_of_B hb, fun s'' hs'' => ?_⟩
        rw [hs] at hs''; simp only [Option.some.injEq] at hs''; subst hs''; exact i2
      · exact absurd h (by simp)
    · exact absurd h (by simp)

end RV.Alloc
