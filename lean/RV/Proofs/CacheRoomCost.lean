import RV.Proofs.CacheFifoSpecRun
import RV.Proofs.CacheAcctInv
import RV.Proofs.CacheRoomSum
/-!
# C06 (static room bound): where accounted costs come from

`CostInv cfg s` — an invariant of every reachable state (any number of clients, `Clear`/`Close`,
evictions, sweeps included): every new-item or update-item in the write buffer, among the blocked senders,
in the applier's hands or in a client's hands carries the (key, value, cost) of a logged `setCall`;
once the applier has pre-processed the cost (`apItem`), the item carries the *effective* cost
(`effCost`) of a logged `setCall` of its key; and every cost the policy accounts for a key is the
effective cost of some logged `setCall` of that key (`Eff`).  Hence it is at most `keyMax`.
-/
namespace RV.Cache
open Gen.Cache

/-- a logged `Set(k, v, cost)` -/
def RawC (log : List Ev) (k : Hash) (v : Val) (cost : Int) : Prop := ∃ t c ttl, Ev.setCall t k c v cost ttl ∈ log
/-- `c` is the effective cost of a logged `Set` of key `k` -/
def Eff (cfg : Cfg) (log : List Ev) (k : Hash) (c : Int) : Prop := ∃ v cost, RawC log k v cost ∧ effCost cfg v cost = c
/-- a new-item or update-item carries key, value and cost of a logged `Set` -/
def RawI (log : List Ev) (i : Item) : Prop := i.flag ≠ .del → RawC log i.key i.value i.cost

theorem RawC.mono {l : List Ev} {k : Hash} {v : Val} {cost : Int} (h : RawC l k v cost) (evs : List Ev) :
    RawC (evs ++ l) k v cost := by
  obtain ⟨t, c, ttl, hm⟩ := h; exact ⟨t, c, ttl, List.mem_append.mpr (Or.inr hm)⟩
theorem Eff.mono {cfg : Cfg} {l : List Ev} {k : Hash} {c : Int} (h : Eff cfg l k c) (evs : List Ev) :
    Eff cfg (evs ++ l) k c := by
  obtain ⟨v, cost, h1, h2⟩ := h; exact ⟨v, cost, h1.mono evs, h2⟩
theorem RawI.mono {l : List Ev} {i : Item} (h : RawI l i) (evs : List Ev) : RawI (evs ++ l) i :=
  fun hf => (h hf).mono evs

def ElemRaw (log : List Ev) : BufElem → Prop
  | .item i => RawI log i
  | .marker _ => True

def AppRaw (cfg : Cfg) (log : List Ev) : APc → Prop
  | .item i => RawI log i
  | .costed i => i.flag ≠ .del → Eff cfg log i.key i.cost
  | _ => True

def PcRaw (log : List Ev) : CPc → Prop
  | .setStart h _ v cost _ => RawC log h v cost
  | .setUpd i => RawC log i.key i.value i.cost
  | .setExit i _ => RawC log i.key i.value i.cost
  | .setSend i => RawC log i.key i.value i.cost
  | _ => True

def CPc.rawRel : CPc → Bool
  | .setStart .. => true | .setUpd _ => true | .setExit .. => true | .setSend _ => true | _ => false
def APc.rawRel : APc → Bool
  | .item _ => true | .costed _ => true | _ => false

theorem PcRaw.of_not_rel {log : List Ev} {pc : CPc} (h : pc.rawRel = false) : PcRaw log pc := by
  cases pc <;> simp_all [CPc.rawRel, PcRaw]
theorem AppRaw.of_not_rel {cfg : Cfg} {log : List Ev} {pc : APc} (h : pc.rawRel = false) : AppRaw cfg log pc := by
  cases pc <;> simp_all [APc.rawRel, AppRaw]

theorem ElemRaw.mono {l : List Ev} {e : BufElem} (h : ElemRaw l e) (evs : List Ev) : ElemRaw (evs ++ l) e := by
  cases e with
  | item i => exact RawI.mono h evs
  | marker id => trivial
theorem AppRaw.mono {cfg : Cfg} {l : List Ev} {pc : APc} (h : AppRaw cfg l pc) (evs : List Ev) :
    AppRaw cfg (evs ++ l) pc := by
  cases pc <;> simp only [AppRaw] at h ⊢
  case item => exact RawI.mono h evs
  case costed => exact fun hf => (h hf).mono evs
theorem PcRaw.mono {l : List Ev} {pc : CPc} (h : PcRaw l pc) (evs : List Ev) : PcRaw (evs ++ l) pc := by
  cases pc <;> simp only [PcRaw] at h ⊢
  all_goals exact h.mono evs

theorem unblockedPc_rawRel (pc : CPc) : unblockedPc pc = pc ∨ (unblockedPc pc).rawRel = false := by
  cases pc <;> simp [unblockedPc, CPc.rawRel]

structure CostInv (cfg : Cfg) (s : State) : Prop where
  q : ∀ e ∈ queue s, ElemRaw s.log e
  app : AppRaw cfg s.log s.app
  pc : ∀ t, PcRaw s.log (s.cl t)
  pol : ∀ k c, s.pol.costs.lookup k = some c → Eff cfg s.log k c

/-- the general preservation lemma: everything in `s'` is inherited from `s` or justified afresh -/
theorem CostInv.mk' {cfg : Cfg} {s s' : State} (h : CostInv cfg s) {evs : List Ev} (hl : s'.log = evs ++ s.log)
    (hq : ∀ e ∈ queue s', e ∈ queue s ∨ ElemRaw s'.log e)
    (happ : s'.app = s.app ∨ AppRaw cfg s'.log s'.app)
    (hpc : ∀ t, s'.cl t = s.cl t ∨ PcRaw s'.log (s'.cl t))
    (hpol : ∀ k c, s'.pol.costs.lookup k = some c → s.pol.costs.lookup k = some c ∨ Eff cfg s'.log k c) :
    CostInv cfg s' := by
  constructor
  · intro e he
    rcases hq e he with h1 | h1
    · rw [hl]; exact (h.q e h1).mono evs
    · exact h1
  · rcases happ with h1 | h1
    · rw [h1, hl]; exact h.app.mono evs
    · exact h1
  · intro t
    rcases hpc t with h1 | h1
    · rw [h1, hl]; exact (h.pc t).mono evs
    · exact h1
  · intro k c hk
    rcases hpol k c hk with h1 | h1
    · rw [hl]; exact (h.pol k c h1).mono evs
    · exact h1

/-- one client thread moves; queue, applier and accounted costs are untouched -/
theorem CostInv.client_frame {cfg : Cfg} {s s' : State} (h : CostInv cfg s) (t : Tid) {evs : List Ev}
    (hl : s'.log = evs ++ s.log) (hbuf : s'.buf = s.buf) (hsq : s'.sendq = s.sendq) (happ : s'.app = s.app)
    (hcosts : s'.pol.costs = s.pol.costs) (hne : ∀ t', t' ≠ t → s'.cl t' = s.cl t')
    (hpc : PcRaw s'.log (s'.cl t)) : CostInv cfg s' := by
  refine h.mk' hl (fun e he => Or.inl (by rw [← queue_congr hbuf hsq]; exact he)) (Or.inl happ) ?_
    (fun k c hk => Or.inl (by rw [← hcosts]; exact hk))
  intro t'
  by_cases e : t' = t
  · subst e; exact Or.inr hpc
  · exact Or.inl (hne t' e)

/-- after a receive the other threads' pcs are unchanged or outside `Set` -/
theorem recv_pcRaw {s s1 : State} {x : BufElem} (hr : recvBuf s = some (x, s1)) (log : List Ev) (t : Tid) :
    s1.cl t = s.cl t ∨ PcRaw log (s1.cl t) := by
  rcases recvBuf_cl hr t with e | e
  · exact Or.inl e
  · rcases unblockedPc_rawRel (s.cl t) with e' | e'
    · exact Or.inl (by rw [e, e'])
    · exact Or.inr (PcRaw.of_not_rel (by rw [e]; exact e'))

theorem queue_sendBlocking (cfg : Cfg) (s : State) (t : Tid) (e : BufElem) (sent blocked : CPc) :
    queue (sendBlocking cfg s t e sent blocked) = queue s ++ [e] := by
  unfold sendBlocking
  split
  · rename_i h; simp [queue, h.2]
  · simp [queue]

/-! ### policy operations: every accounted cost was accounted before or is the incoming cost -/

theorem polUpdate_lookup_sub {on : Bool} {p : Pol} {m : Met} {k k' : Hash} {cost c : Int}
    (h : (polUpdate on p m k cost).1.costs.lookup k' = some c) :
    p.costs.lookup k' = some c ∨ (k' = k ∧ c = cost) := by
  unfold polUpdate at h
  split at h
  · exact Or.inl h
  · dsimp only at h
    rw [AMap.lookup_insert] at h
    split at h
    · rename_i e; simp only [Option.some.injEq] at h; exact Or.inr ⟨e, h.symm⟩
    · exact Or.inl h

theorem polAddKey_lookup_sub {on : Bool} {p : Pol} {m : Met} {k k' : Hash} {cost c : Int}
    (h : (polAddKey on p m k cost).1.costs.lookup k' = some c) :
    p.costs.lookup k' = some c ∨ (k' = k ∧ c = cost) := by
  unfold polAddKey at h
  dsimp only at h
  rw [AMap.lookup_insert] at h
  split at h
  · rename_i e; simp only [Option.some.injEq] at h; exact Or.inr ⟨e, h.symm⟩
  · exact Or.inl h

theorem polDelAll_lookup_sub {on : Bool} {p : Pol} {m : Met} {vs : List (Hash × Int)} {k' : Hash} {c : Int}
    (h : (polDelAll on p m vs).1.costs.lookup k' = some c) : p.costs.lookup k' = some c := by
  rw [polDelAll_lookup] at h
  split at h
  · cases h
  · exact h

theorem polAdd_lookup_sub {on : Bool} {p : Pol} {m : Met} {k k' : Hash} {cost c : Int} {victims : List (Hash × Int)}
    {added : Bool} {pm : Pol × Met} (h : polAdd on p m k cost victims added = some pm)
    (hl : pm.1.costs.lookup k' = some c) : p.costs.lookup k' = some c ∨ (k' = k ∧ c = cost) := by
  rcases polAdd_cases h with ⟨_, _, _, rfl⟩ | ⟨_, _, _, _, rfl⟩ | ⟨_, _, _, _, _, rfl⟩ | ⟨_, _, _, _, _, _, _, rfl⟩ |
    ⟨_, _, _, _, _, rfl⟩
  · exact Or.inl hl
  · exact polUpdate_lookup_sub hl
  · exact polAddKey_lookup_sub hl
  · rcases polAddKey_lookup_sub hl with h1 | h1
    · exact Or.inl (polDelAll_lookup_sub h1)
    · exact Or.inr h1
  · exact Or.inl (polDelAll_lookup_sub hl)

theorem polDel_lookup_sub {on : Bool} {p : Pol} {m : Met} {k k' : Hash} {c : Int}
    (h : (polDel on p m k).1.costs.lookup k' = some c) : p.costs.lookup k' = some c := by
  rw [polDel_lookup] at h
  split at h
  · cases h
  · exact h

/-! ### the invariant is preserved by every step -/

open Lean in
/-- `c_frame stX`: `stX` moves only its own thread to a pc outside `Set`'s first half; queue, applier, policy untouched -/
macro "c_frame " f:ident : tactic => do
  let n := f.getId
  let clne := mkIdent (n.appendAfter "_cl_ne")
  `(tactic| (intro evs hl; refine CostInv.client_frame ‹CostInv _ _› _ hl (by simp) (by simp) (by simp) (by simp) (fun _ hne => $clne (hne := hne) ..) (PcRaw.of_not_rel ?_); (first | (simp [$f:term, CPc.rawRel]; done) | (unfold $f:ident; (repeat' split) <;> simp [CPc.rawRel]; done) | (unfold $f:ident; dsimp only; (repeat' split) <;> simp [CPc.rawRel]; done))))

theorem costInv_recv_drop {cfg : Cfg} {s s1 s2 : State} {x : BufElem} {evs : List Ev} (h : CostInv cfg s)
    (hr : recvBuf s = some (x, s1)) (hl : s2.log = evs ++ s.log)
    (e2 : s2.buf = s1.buf) (e3 : s2.sendq = s1.sendq) (e4 : s2.app = s1.app) (e5 : s2.pol = s1.pol)
    (e6 : s2.cl = s1.cl) : CostInv cfg s2 := by
  have hq : queue s = x :: queue s2 := by rw [recvBuf_queue hr, queue_congr e2 e3]
  refine h.mk' hl (fun e he => Or.inl (by rw [hq]; exact List.mem_cons_of_mem _ he))
    (Or.inl (by rw [e4, recvBuf_app hr])) (fun t => by rw [e6]; exact recv_pcRaw hr _ t)
    (fun k c hk => Or.inl (by rw [e5, recvBuf_pol hr] at hk; exact hk))

theorem costInv_clientStep {cfg : Cfg} {s s' : State} {t : Tid} {ch : Choice}
    (h : CostInv cfg s) (hs : clientStep cfg s t ch = some s') :
    ∀ evs, s'.log = evs ++ s.log → CostInv cfg s' := by
  apply clientStep_cases hs (motive := fun s' => ∀ evs, s'.log = evs ++ s.log → CostInv cfg s')
  case setRetTrue => intro _ _ _; c_frame stSetRetTrue
  case setRetDrop => intro _ _ _; c_frame stSetRetDrop
  case delStart => intro _ _ _ _; c_frame stDelStart
  case delExit => intro _ _ _ _ _; c_frame stDelExit
  case delSent => intro _ _ _; c_frame stDelSent
  case waitStart => intro _ _; c_frame stWaitStart
  case waitDone => intro _ _; c_frame stWaitDone
  case getRead => intro _ _ _ _; c_frame stGetRead
  case getCheck => intro _ _ _ _ _; c_frame stGetCheck
  case getMetric => intro _ _ _ _ _; c_frame stGetMetric
  case ttlRead => intro _ _ _ _; c_frame stTtlRead
  case ttlCheck => intro _ _ _ _ _; c_frame stTtlCheck
  case ttlExp => intro _ _ _ _; c_frame stTtlExp
  case ttlNow => intro _ _ _ _ _; c_frame stTtlNow
  case ttlUntil => intro _ _ _ _ _; c_frame stTtlUntil
  case iterStart => intro _ _ _; c_frame stIterStart
  case clrStart => intro _ _ _; c_frame stClrStart
  case clrEm => intro _ _ _; c_frame stClrEm
  case clrMetrics => intro _ _ _; c_frame stClrMetrics
  case readMax => intro _ _; c_frame stReadMax
  case readRem => intro _ _; c_frame stReadRem
  case updMax =>
    intro m hpc _ evs hl
    exact h.client_frame t hl (by simp) (by simp) (by simp) (by simp [stUpdMax])
      (fun _ hne => stUpdMax_cl_ne (hne := hne) ..) (PcRaw.of_not_rel (by simp [stUpdMax, CPc.rawRel]))
  case setStart =>
    intro k c v cost ttl hpc _ evs hl
    have hsc : RawC (evs ++ s.log) k v cost := by
      have := h.pc t; rw [hpc] at this; exact this.mono evs
    refine h.client_frame t hl (by simp) (by simp) (by simp) (by simp)
      (fun _ hne => stSetStart_cl_ne (hne := hne) ..) ?_
    rw [hl]
    unfold stSetStart
    (repeat' split) <;> simp [PcRaw, hsc]
  case setUpd =>
    intro i hpc _ evs hl
    have hsc : RawC (evs ++ s.log) i.key i.value i.cost := by
      have := h.pc t; rw [hpc] at this; exact this.mono evs
    refine h.client_frame t hl (by simp) (by simp) (by simp) (by simp)
      (fun _ hne => stSetUpd_cl_ne (hne := hne) ..) ?_
    rw [hl]
    rcases stSetUpd_pc cfg s t i with e1 | e1 <;> (rw [e1]; exact hsc)
  case setExit =>
    intro i prev hpc _ evs hl
    have hsc : RawC (evs ++ s.log) i.key i.value i.cost := by
      have := h.pc t; rw [hpc] at this; exact this.mono evs
    refine h.client_frame t hl (by simp) (by simp) (by simp) (by simp)
      (fun _ hne => stSetExit_cl_ne (hne := hne) ..) ?_
    rw [hl]
    simpa [stSetExit, PcRaw] using hsc
  case setSend =>
    intro i hpc _ evs hl
    have hsc : RawC (evs ++ s.log) i.key i.value i.cost := by
      have := h.pc t; rw [hpc] at this; exact this.mono evs
    have hpc' : ((stSetSend cfg s t i).cl t).rawRel = false := by
      unfold stSetSend; split <;> simp [CPc.rawRel]
    refine h.mk' hl ?_ (Or.inl (by simp)) ?_ (fun k c hk => Or.inl (by simpa using hk))
    · intro e he
      have hq : queue (stSetSend cfg s t i) = queue s ++ [.item i] ∨ queue (stSetSend cfg s t i) = queue s := by
        unfold stSetSend; split
        · rename_i hc; exact Or.inl (by simp [queue, hc.2])
        · exact Or.inr rfl
      rcases hq with hq | hq <;> rw [hq] at he
      · rcases List.mem_append.mp he with h1 | h1
        · exact Or.inl h1
        · simp only [List.mem_singleton] at h1; subst h1
          right; rw [hl]; exact fun _ => hsc
      · exact Or.inl he
    · intro t'
      by_cases e : t' = t
      · subst e; exact Or.inr (PcRaw.of_not_rel hpc')
      · exact Or.inl (stSetSend_cl_ne (hne := e) ..)
  case delSend =>
    intro k c hpc _ evs hl
    have hpc' : ((stDelSend cfg s t k c).cl t).rawRel = false := by
      unfold stDelSend sendBlocking; split <;> simp [CPc.rawRel]
    refine h.mk' hl ?_ (Or.inl (by simp)) ?_ (fun k c hk => Or.inl (by simpa using hk))
    · intro e he
      unfold stDelSend at he
      rw [queue_sendBlocking] at he
      rcases List.mem_append.mp he with h1 | h1
      · exact Or.inl h1
      · simp only [List.mem_singleton] at h1; subst h1
        right; intro hf; exact absurd rfl hf
    · intro t'
      by_cases e : t' = t
      · subst e; exact Or.inr (PcRaw.of_not_rel hpc')
      · exact Or.inl (stDelSend_cl_ne (hne := e) ..)
  case waitSend =>
    intro hpc _ evs hl
    have hpc' : ((stWaitSend cfg s t).cl t).rawRel = false := by
      unfold stWaitSend sendBlocking; split <;> simp [CPc.rawRel]
    refine h.mk' hl ?_ (Or.inl (by simp)) ?_ (fun k c hk => Or.inl (by simpa using hk))
    · intro e he
      unfold stWaitSend at he
      rw [queue_sendBlocking] at he
      rcases List.mem_append.mp he with h1 | h1
      · exact Or.inl (by simpa [queue] using h1)
      · simp only [List.mem_singleton] at h1; subst h1
        right; trivial
    · intro t'
      by_cases e : t' = t
      · subst e; exact Or.inr (PcRaw.of_not_rel hpc')
      · exact Or.inl (stWaitSend_cl_ne (hne := e) ..)
  case waitRecv =>
    intro id hpc _ hr evs hl
    refine h.client_frame t hl (stWaitRecv_buf s t id hr) (stWaitRecv_sendq s t id hr)
      (stWaitRecv_app s t id hr) (by rw [stWaitRecv_pol s t id hr])
      (fun _ hne => stWaitRecv_cl_ne s t id hr hne) (PcRaw.of_not_rel ?_)
    unfold stWaitRecv at hr
    split at hr
    · simp only [Option.some.injEq] at hr; subst hr; simp [CPc.rawRel]
    · simp at hr
  case getStart =>
    intro k c hpc hr evs hl
    obtain ⟨h1, h2, h3, _, _, _, h7, _, h9, h10⟩ := stGetStart_q hr
    refine h.client_frame t hl h1 h2 h3 (by rw [h7]) h9 (PcRaw.of_not_rel ?_)
    rcases h10 with ⟨e, _⟩ | ⟨e, _⟩ <;> simp [e, CPc.rawRel]
  case iterShard =>
    intro k n seen hpc hr evs hl
    obtain ⟨h1, h2, h3, _, _, _, h7, _, h9, h10⟩ := stIterShard_q hr
    refine h.client_frame t hl h1 h2 h3 (by rw [h7]) h9 (PcRaw.of_not_rel ?_)
    rcases h10 with ⟨e, _⟩ | ⟨_, _, e, _⟩ <;> simp [e, CPc.rawRel]
  case clrPolicy =>
    intro closing hpc _ evs hl
    refine h.mk' hl (fun e he => Or.inl (by simpa [queue] using he)) (Or.inl (by simp)) ?_
      (fun k c hk => by simp [stClrPolicy] at hk)
    intro t'
    by_cases e : t' = t
    · subst e; exact Or.inr (PcRaw.of_not_rel (by simp [stClrPolicy, CPc.rawRel]))
    · exact Or.inl (stClrPolicy_cl_ne (hne := e) ..)
  case clrShard =>
    intro closing k hpc hr evs hl
    obtain ⟨ks, _, _, h1, h2, h3, _, _, _, h7, _, h9, h10⟩ := stClrShard_q hr
    refine h.client_frame t hl h1 h2 h3 (by rw [h7]) h9 (PcRaw.of_not_rel ?_)
    rw [h10]; split <;> simp [CPc.rawRel]
  case clrRestart =>
    intro closing hpc _ evs hl
    refine h.mk' hl (fun e he => Or.inl (by simpa [queue] using he)) (Or.inr (AppRaw.of_not_rel ?_)) ?_
      (fun k c hk => Or.inl (by simpa using hk))
    · unfold stClrRestart; dsimp only; split <;> simp [APc.rawRel]
    · intro t'
      by_cases e : t' = t
      · subst e; right; apply PcRaw.of_not_rel
        unfold stClrRestart; dsimp only; split <;> simp [CPc.rawRel]
      · exact Or.inl (stClrRestart_cl_ne (hne := e) ..)
  case clsFinish =>
    intro hpc _ evs hl
    refine h.mk' hl (fun e he => Or.inl (by simpa [queue] using he)) (Or.inr (AppRaw.of_not_rel rfl)) ?_
      (fun k c hk => Or.inl (by simpa using hk))
    intro t'
    by_cases e : t' = t
    · subst e; exact Or.inr (PcRaw.of_not_rel (by simp [stClsFinish, CPc.rawRel]))
    · exact Or.inl (stClsFinish_cl_ne (hne := e) ..)
  case clrDrain =>
    intro closing hpc _ evs hl
    generalize hres : stClrDrain s t closing = s2 at hl ⊢
    unfold stClrDrain at hres
    split at hres
    · subst hres
      exact h.client_frame t hl rfl rfl rfl rfl (fun _ hne => setCl_cl_ne _ _ _ hne)
        (PcRaw.of_not_rel (by simp [CPc.rawRel]))
    · rename_i id s1 hr
      subst hres
      exact costInv_recv_drop h hr hl rfl rfl rfl rfl rfl
    · rename_i i s1 hr
      split at hres <;> subst hres
      · exact costInv_recv_drop h hr hl rfl rfl rfl rfl rfl
      · exact costInv_recv_drop h hr hl rfl rfl rfl rfl rfl

theorem costInv_applierStep {cfg : Cfg} {s s' : State} {ch : Choice}
    (h : CostInv cfg s) (hs : applierStep cfg s ch = some s') :
    ∀ evs, s'.log = evs ++ s.log → CostInv cfg s' := by
  apply applierStep_cases hs (motive := fun s' => ∀ evs, s'.log = evs ++ s.log → CostInv cfg s')
  case idle =>
    intro hpc hr evs hl
    unfold apIdle at hr
    split at hr
    · unfold apSelItem at hr
      have key : ∀ (x : BufElem) (s1 : State) (a : APc), recvBuf s = some (x, s1) →
          (ElemRaw s.log x → AppRaw cfg s.log a) →
          ({ s1 with app := a } : State).log = evs ++ s.log → CostInv cfg { s1 with app := a } := by
        intro x s1 a hrecv ha hl1
        have hq : queue s = x :: queue s1 := recvBuf_queue hrecv
        have hx : ElemRaw s.log x := h.q x (by rw [hq]; exact List.mem_cons_self)
        refine h.mk' hl1 (fun e he => Or.inl (by rw [hq]; exact List.mem_cons_of_mem _ he))
          (Or.inr (by rw [hl1]; exact (ha hx).mono evs)) (fun t => recv_pcRaw hrecv _ t)
          (fun k c hk => Or.inl (by rw [← recvBuf_pol hrecv]; exact hk))
      split at hr
      · simp at hr
      · rename_i id s1 hrecv
        simp only [Option.some.injEq] at hr; subst hr
        exact key _ _ _ hrecv (fun _ => trivial) hl
      · rename_i i s1 hrecv
        simp only [Option.some.injEq] at hr; subst hr
        exact key _ _ _ hrecv (fun hx => hx) hl
    · simp only [Option.some.injEq] at hr; subst hr
      exact h.mk' hl (fun e he => Or.inl he) (Or.inr trivial) (fun t => Or.inl rfl) (fun k c hk => Or.inl hk)
    · rename_i t
      unfold apSelStop at hr
      have key : ∀ pc, pc.rawRel = false → (setCl { s with app := .stopAck } t pc).log = evs ++ s.log →
          CostInv cfg (setCl { s with app := .stopAck } t pc) := by
        intro pc hpc' hl1
        refine h.mk' hl1 (fun e he => Or.inl he) (Or.inr trivial) ?_ (fun k c hk => Or.inl hk)
        intro t'
        by_cases e : t' = t
        · subst e; exact Or.inr (PcRaw.of_not_rel (by simpa using hpc'))
        · exact Or.inl (setCl_cl_ne _ _ _ e)
      split at hr
      · simp only [Option.some.injEq] at hr; subst hr; exact key _ rfl hl
      · simp only [Option.some.injEq] at hr; subst hr; exact key _ rfl hl
      · simp at hr
    · simp at hr
  case marker =>
    intro id hpc _ evs hl
    exact h.mk' hl (fun e he => Or.inl he) (Or.inr trivial) (fun t => Or.inl rfl) (fun k c hk => Or.inl hk)
  case item =>
    intro i hpc _ evs hl
    refine h.mk' hl (fun e he => Or.inl he) (Or.inr ?_) (fun t => Or.inl rfl) (fun k c hk => Or.inl hk)
    have hi : RawI s.log i := by have := h.app; rw [hpc] at this; exact this
    show AppRaw cfg (apItem cfg s i).log (.costed { i with cost := itemCost cfg i })
    intro hf
    rw [hl]
    exact (show Eff cfg s.log i.key (itemCost cfg i) from
      ⟨i.value, i.cost, hi hf, (itemCost_eff cfg i hf).symm⟩).mono evs
  case costed =>
    intro i hpc hr evs hl
    have hi : i.flag ≠ .del → Eff cfg s.log i.key i.cost := by have := h.app; rw [hpc] at this; exact this
    unfold apCosted at hr
    split at hr
    · rename_i hflag
      unfold apCostedNew at hr
      split at hr
      · split at hr
        · simp at hr
        · rename_i vs added _ pm hadd
          simp only [Option.some.injEq] at hr; subst hr
          refine h.mk' hl (fun e he => Or.inl he) (Or.inr trivial) (fun t => Or.inl rfl) ?_
          intro k c hk
          rcases polAdd_lookup_sub hadd hk with h1 | ⟨rfl, rfl⟩
          · exact Or.inl h1
          · right; rw [hl]; exact (hi (by rw [hflag]; simp)).mono evs
      · simp at hr
    · rename_i hflag
      obtain ⟨_, hr⟩ := needNone_some hr
      simp only [Option.some.injEq] at hr; subst hr
      refine h.mk' hl (fun e he => Or.inl he) (Or.inr trivial) (fun t => Or.inl rfl) ?_
      intro k c hk
      rcases polUpdate_lookup_sub (show (polUpdate cfg.metricsOn s.pol s.met i.key i.cost).1.costs.lookup k = some c from hk)
        with h1 | ⟨rfl, rfl⟩
      · exact Or.inl h1
      · right; rw [hl]; exact (hi (by rw [hflag]; simp)).mono evs
    · obtain ⟨_, hr⟩ := needNone_some hr
      simp only [Option.some.injEq] at hr; subst hr
      refine h.mk' hl (fun e he => Or.inl he) (Or.inr trivial) (fun t => Or.inl rfl) ?_
      intro k c hk
      exact Or.inl (polDel_lookup_sub (show (polDel cfg.metricsOn s.pol s.met i.key).1.costs.lookup k = some c from hk))
  case added =>
    intro i victims ok hpc _ evs hl
    refine h.mk' hl (fun e he => Or.inl (by simpa [queue] using he)) (Or.inr (AppRaw.of_not_rel ?_))
      (fun t => Or.inl (by simp)) (fun k c hk => Or.inl (by simpa using hk))
    unfold apAdded afterVictims; split <;> split <;> simp [APc.rawRel]
  case victims =>
    intro vs hpc _ hr evs hl
    unfold apVictims at hr
    split at hr
    · simp at hr
    · simp only [Option.some.injEq] at hr; subst hr
      exact h.mk' hl (fun e he => Or.inl he) (Or.inr trivial) (fun t => Or.inl rfl) (fun k c hk => Or.inl hk)
  case victimEvict =>
    intro k cost c v rest hpc _ evs hl
    refine h.mk' hl (fun e he => Or.inl (by simpa [queue] using he)) (Or.inr (AppRaw.of_not_rel ?_))
      (fun t => Or.inl (by simp)) (fun k c hk => Or.inl (by simpa using hk))
    unfold apVictimEvict afterVictims; split <;> simp [APc.rawRel]
  case tombPolicy =>
    intro i hpc _ evs hl
    exact h.mk' hl (fun e he => Or.inl he) (Or.inr trivial) (fun t => Or.inl rfl) (fun k c hk => Or.inl hk)
  case tombStore =>
    intro v hpc _ evs hl
    exact h.mk' hl (fun e he => Or.inl he) (Or.inr trivial) (fun t => Or.inl rfl) (fun k c hk => Or.inl hk)
  case tick =>
    intro hpc _ evs hl
    exact h.mk' hl (fun e he => Or.inl he) (Or.inr trivial) (fun t => Or.inl rfl) (fun k c hk => Or.inl hk)
  case sweep =>
    intro now bs hpc hr evs hl
    refine h.mk' hl (fun e he => Or.inl (by rw [← queue_congr (apSweep_buf s now bs ch hr) (apSweep_sendq s now bs ch hr)]; exact he))
      (Or.inr (AppRaw.of_not_rel ?_)) (fun t => Or.inl (by rw [apSweep_cl s now bs ch hr]))
      (fun k c hk => Or.inl (by rw [← apSweep_pol s now bs ch hr]; exact hk))
    unfold apSweep at hr
    split at hr
    · simp only [Option.some.injEq] at hr; subst hr; rfl
    · split at hr
      · simp at hr
      · simp only [Option.some.injEq] at hr; subst hr; rfl
    · simp at hr
  case swKey =>
    intro now k c bs hpc _ evs hl
    refine h.mk' hl (fun e he => Or.inl (by simpa [queue] using he)) (Or.inr (AppRaw.of_not_rel ?_))
      (fun t => Or.inl (by simp)) (fun k c hk => Or.inl (by simpa using hk))
    unfold apSwKey; dsimp only; split <;> simp [APc.rawRel]
  case swStoreDel =>
    intro now k c expr v bs hpc _ evs hl
    refine h.mk' hl (fun e he => Or.inl he) (Or.inr trivial) (fun t => Or.inl rfl) ?_
    intro k' c' hk
    exact Or.inl (polDel_lookup_sub (show (polDel cfg.metricsOn s.pol s.met k).1.costs.lookup k' = some c' from hk))
  case swPolDel =>
    intro now k c expr cost v bs hpc _ evs hl
    exact h.mk' hl (fun e he => Or.inl he) (Or.inr trivial) (fun t => Or.inl rfl) (fun k c hk => Or.inl hk)

theorem costInv_init (cfg : Cfg) (now : Time) : CostInv cfg (init cfg now) := by
  constructor <;> simp [init, queue, AppRaw, PcRaw]

theorem costInv_step {cfg : Cfg} {s s' : State} {a : Action} (h : CostInv cfg s)
    (hs : step cfg s a = some s') : CostInv cfg s' := by
  obtain ⟨evs, hl, _⟩ := step_log hs
  cases a with
  | spawn t c =>
    have hs' : spawnStep s t c = some s' := hs
    have hidle : s.cl t = .idle := by
      unfold spawnStep at hs'; split at hs'
      · assumption
      · simp at hs'
    refine h.client_frame t hl (spawnStep_buf s t c hs') (spawnStep_sendq s t c hs')
      (spawnStep_app s t c hs') (by rw [spawnStep_pol s t c hs']) (fun t' hne => spawnStep_cl_ne s t c hs' hne) ?_
    unfold spawnStep at hs'
    rw [hidle] at hs'
    cases c <;> (simp only [Option.some.injEq] at hs'; subst hs') <;>
      simp only [logEv_cl, setCl_cl_self, logEv_log, setCl_log, PcRaw]
    exact ⟨_, _, _, List.mem_cons_self⟩
  | client t ch => exact costInv_clientStep h hs evs hl
  | applier ch => exact costInv_applierStep h hs evs hl
  | done t =>
    have hs' : doneStep s t = some s' := hs
    have happ : s'.app = .dead ∧ (s'.cl t).rawRel = false := by
      unfold doneStep at hs'
      split at hs'
      · simp only [Option.some.injEq] at hs'; subst hs'; exact ⟨rfl, by simp [CPc.rawRel]⟩
      · simp only [Option.some.injEq] at hs'; subst hs'; exact ⟨rfl, by simp [CPc.rawRel]⟩
      · simp at hs'
    refine h.mk' hl (fun e he => Or.inl (by rw [← queue_congr (doneStep_buf s t hs') (doneStep_sendq s t hs')]; exact he))
      (Or.inr (AppRaw.of_not_rel (by rw [happ.1]; rfl))) ?_
      (fun k c hk => Or.inl (by rw [← doneStep_pol s t hs']; exact hk))
    intro t'
    by_cases e : t' = t
    · subst e; exact Or.inr (PcRaw.of_not_rel happ.2)
    · exact Or.inl (doneStep_cl_ne s t hs' e)
  | tick d =>
    simp only [step, Option.some.injEq] at hs; subst hs
    exact h.mk' hl (fun e he => Or.inl he) (Or.inl rfl) (fun t => Or.inl rfl) (fun k c hk => Or.inl hk)

/-- every accounted, offered or buffered cost comes from a logged `Set` — in every reachable state -/
theorem cost_inv {cfg : Cfg} {s : State} (h : Reach cfg s) : CostInv cfg s :=
  Reach.induction (costInv_init cfg) (fun _ _ _ _ hp hs => costInv_step hp hs) h

/-- an accounted cost never exceeds the largest effective cost given to its key -/
theorem Eff.le_keyMax {cfg : Cfg} {log : List Ev} {k : Hash} {c : Int} (h : Eff cfg log k c) :
    c ≤ keyMax cfg log k ∧ k ∈ setKeys log := by
  obtain ⟨v, cost, ⟨t, cf, ttl, hm⟩, rfl⟩ := h
  exact ⟨RV.Cache.le_keyMax hm, mem_setKeys hm⟩

end RV.Cache
