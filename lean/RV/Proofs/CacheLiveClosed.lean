import RV.Proofs.CacheLiveInv
/-!
# C15 (4): a closed cache is inert

In a state with `closed = true` every call returns its inert result in its first own step
and changes nothing but the caller's pc and the log.  `GetTTL` has no closed check in the
real code (cache.go, `GetTTL`): it reads the store, which is empty after an un-overlapped
`Close` (`CacheLiveClear.lean`), and therefore answers `(0, false)` in two steps.
`UpdateMaxCost` / `MaxCost` / `RemainingCost` have no closed check either: they act on the
capacity word as usual (harmless).  The policy goroutine and the ticker are not modelled;
the applier is `dead` (`Handshake.closed`).
-/
namespace RV.Cache
open Gen.Cache

theorem setCl_setCl (s : State) (t : Tid) (a b : CPc) : setCl (setCl s t a) t b = setCl s t b := by
  unfold setCl
  congr 1
  funext t'
  by_cases h : t' = t <;> simp [h]

theorem setCl_self_eq (s : State) (t : Tid) (h : s.cl t = pc) : setCl s t pc = s := by
  unfold setCl
  have : (fun t' => if t' = t then pc else s.cl t') = s.cl := by
    funext t'
    by_cases h' : t' = t
    · subst h'; simp [h]
    · simp [h']
  rw [this]

/-- the return event of a call that finds the cache closed at its first step -/
def inertRet (t : Tid) : CPc → Option Ev
  | .setStart _ _ v _ _ => some (.setRet t v false)
  | .getStart h c => some (.getRet t h c none)
  | .delStart h _ => some (.delRet t h)
  | .waitStart => some (.waitRet t)
  | .clrStart c => some (if c then .closeRet t else .clearRet t)
  | .iterStart _ => some (.iterRet t [])
  | _ => none

/-- On a closed cache the first own step of `Set`/`Get`/`Del`/`Wait`/`Clear`/`Close`/`IterValues`
is enabled, and whatever the choice it returns the inert result, touching only the caller's
pc and the log — under every interleaving (the hypothesis is on the current state only). -/
theorem closed_first_step {cfg : Cfg} {s : State} {t : Tid} {ev : Ev} (hc : s.closed = true)
    (hev : inertRet t (s.cl t) = some ev) :
    clientStep cfg s t .none = some (logEv (setCl s t .idle) ev) ∧
      ∀ ch s', clientStep cfg s t ch = some s' → s' = logEv (setCl s t .idle) ev := by
  cases hpc : s.cl t <;> rw [hpc] at hev <;> cases hev
  case setStart h c v cost ttl =>
    refine ⟨by simp [clientStep, hpc, needNone, stSetStart, hc], fun ch s' hs => ?_⟩
    unfold clientStep at hs; rw [hpc] at hs
    obtain ⟨_, hs⟩ := needNone_some hs
    simpa [stSetStart, hc] using hs.symm
  case getStart h c =>
    refine ⟨by simp [clientStep, hpc, stGetStart, hc], fun ch s' hs => ?_⟩
    unfold clientStep at hs; rw [hpc] at hs
    simpa [stGetStart, hc] using hs.symm
  case delStart h c =>
    refine ⟨by simp [clientStep, hpc, needNone, stDelStart, hc], fun ch s' hs => ?_⟩
    unfold clientStep at hs; rw [hpc] at hs
    obtain ⟨_, hs⟩ := needNone_some hs
    simpa [stDelStart, hc] using hs.symm
  case waitStart =>
    refine ⟨by simp [clientStep, hpc, needNone, stWaitStart, hc], fun ch s' hs => ?_⟩
    unfold clientStep at hs; rw [hpc] at hs
    obtain ⟨_, hs⟩ := needNone_some hs
    simpa [stWaitStart, hc] using hs.symm
  case clrStart c =>
    refine ⟨by simp [clientStep, hpc, needNone, stClrStart, hc], fun ch s' hs => ?_⟩
    unfold clientStep at hs; rw [hpc] at hs
    obtain ⟨_, hs⟩ := needNone_some hs
    simpa [stClrStart, hc] using hs.symm
  case iterStart n =>
    refine ⟨by simp [clientStep, hpc, needNone, stIterStart, hc], fun ch s' hs => ?_⟩
    unfold clientStep at hs; rw [hpc] at hs
    obtain ⟨_, hs⟩ := needNone_some hs
    simpa [stIterStart, hc] using hs.symm

/-- the fields a call on a closed cache leaves alone -/
theorem closed_first_step_fields {cfg : Cfg} {s s' : State} {t : Tid} {ev : Ev} {ch : Choice}
    (hc : s.closed = true) (hev : inertRet t (s.cl t) = some ev) (hs : clientStep cfg s t ch = some s') :
    s'.store = s.store ∧ s'.em = s.em ∧ s'.pol = s.pol ∧ s'.met = s.met ∧ s'.buf = s.buf ∧
      s'.sendq = s.sendq ∧ s'.app = s.app ∧ s'.closedMarkers = s.closedMarkers ∧
      s'.nextMarker = s.nextMarker ∧ s'.closed = true ∧ s'.cl t = .idle ∧ s'.log = ev :: s.log := by
  rw [(closed_first_step hc hev).2 ch s' hs]
  simp [hc]

/-- `GetTTL` on an empty store (no closed check in the real code): two steps, answer `(0,false)`. -/
theorem empty_store_ttl {cfg : Cfg} {s : State} {t : Tid} {h : Hash} {c : Conf}
    (hst : s.store = AMap.empty) (hpc : s.cl t = .ttlRead h c) :
    run cfg s [.client t .none, .client t .none] = some (logEv (setCl s t .idle) (.ttlRet t h c 0 false)) := by
  simp [run, step, clientStep, hpc, needNone, stTtlRead, stTtlCheck, hst, getResult, setCl_setCl]

/-- log events (newest first) of a complete call on a closed cache with an empty store -/
def inertEvents (s : State) (t : Tid) : Call → List Ev
  | .set h c v cost ttl => [.setRet t v false, .setCall t h c v cost ttl]
  | .get h c => [.getRet t h c none, .getCall t h c s.clock]
  | .getTTL h c => [.ttlRet t h c 0 false, .ttlCall t h c s.clock]
  | .del h c => [.delRet t h, .delCall t h c]
  | .wait => [.waitRet t, .waitCall t]
  | .clear => [.clearRet t, .clearCall t]
  | .close => [.closeRet t, .closeCall t]
  | .iter _ => [.iterRet t [], .iterCall t s.clock]
  | .updateMaxCost _ => []
  | .maxCost => [.maxRet t s.pol.maxCost]
  | .remainingCost => [.remRet t (s.pol.maxCost - s.pol.used)]

def inertSteps : Call → Nat
  | .getTTL _ _ => 2
  | _ => 1

def inertPol (p : Pol) : Call → Pol
  | .updateMaxCost m => { p with maxCost := m }
  | _ => p

/-- **C15 (4).** On a closed cache whose store is empty, every call of an idle client runs to
completion in one own step (two for `GetTTL`), returns the inert result and leaves the state
unchanged except for the log (and the capacity word for `UpdateMaxCost`). -/
theorem closed_call_inert {cfg : Cfg} {s : State} {t : Tid} (hc : s.closed = true)
    (hst : s.store = AMap.empty) (hidle : s.cl t = .idle) (call : Call) :
    run cfg s (.spawn t call :: List.replicate (inertSteps call) (.client t .none)) =
      some { s with log := inertEvents s t call ++ s.log, pol := inertPol s.pol call } := by
  cases call <;>
    simp [run, step, spawnStep, hidle, clientStep, needNone, inertSteps, List.replicate, inertEvents, inertPol,
      stSetStart, stGetStart, stTtlRead, stTtlCheck, stDelStart, stWaitStart, stClrStart, stIterStart,
      stUpdMax, stReadMax, stReadRem, hc, hst, getResult, logEv, setCl_setCl, setCl_self_eq s t hidle]
  all_goals try (funext t'; by_cases h : t' = t <;> simp [setCl, h, hidle])
  all_goals
    unfold setCl; simp only [State.mk.injEq, true_and, and_true]
    funext t'; by_cases h : t' = t <;> simp [h, hidle]

end RV.Cache
