import RV.Model.Cache
import RV.Proofs.PolicyAdd
import RV.Proofs.PolicyTerm
/-!
# The exact policy model refines the Cache model's `polAdd`

The Cache model (`RV/Model/Cache.lean`) treats the outcome `(victims, added)` of
`defaultPolicy.Add` as a *choice* that `RV.Cache.polAdd` accepts iff it satisfies a list of
constraints.  Here: every completed run of the exact sampled-LFU `Add`
(`RV.Policy.Pol.addFull`, status `ok`) from a well-formed, non-overflowing state, with
`int64` estimates and admissible map enumerations, produces an outcome that `polAdd` accepts,
and `polAdd` then computes exactly the state the exact model computes (`add_refines_polAdd`).
`add_ok_of_admissible` shows `status = ok` follows from admissibility when enough
enumerations are supplied.

`RV.Cache.Pol` and `RV.Policy.Pol` have the same fields; `AMap Hash Int` is the same
association list with the same `lookup`/`erase`/`insert` (`lookup_eq`, `erase_eq`, `insert_eq`).
-/
namespace RV.Policy
open RV

/-- the cache model's policy state as a state of the exact policy model (same fields) -/
def toPolicy (p : Cache.Pol) : Pol := { keyCosts := p.costs, used := p.used, maxCost := p.maxCost }

@[simp] theorem toPolicy_keyCosts (p : Cache.Pol) : (toPolicy p).keyCosts = p.costs := rfl
@[simp] theorem toPolicy_used (p : Cache.Pol) : (toPolicy p).used = p.used := rfl
@[simp] theorem toPolicy_maxCost (p : Cache.Pol) : (toPolicy p).maxCost = p.maxCost := rfl

theorem pol_eq {a b : Pol} (h1 : a.keyCosts = b.keyCosts) (h2 : a.used = b.used) (h3 : a.maxCost = b.maxCost) :
    a = b := by
  cases a; cases b; simp_all

theorem lookup_eq (m : AMap Hash Int) (k : Hash) : AMap.lookup m k = lookup m k := by
  induction m with
  | nil => rfl
  | cons kc rest ih => obtain ⟨k', v⟩ := kc; simp only [AMap.lookup, lookup, ih]

theorem erase_eq (m : AMap Hash Int) (k : Hash) : AMap.erase m k = erase m k := by
  induction m with
  | nil => rfl
  | cons kc rest ih => obtain ⟨k', v⟩ := kc; simp only [AMap.erase, erase, ih]; rfl

theorem insert_eq (m : AMap Hash Int) (k : Hash) (c : Int) : AMap.insert m k c = insert m k c := by
  simp only [AMap.insert, insert, erase_eq]; rfl

theorem contains_eq (m : AMap Hash Int) (k : Hash) : AMap.contains m k = (lookup m k).isSome := by
  simp only [AMap.contains, lookup_eq]

/-! ### the single operations -/

theorem toPolicy_polDel (on : Bool) (p : Cache.Pol) (m : Cache.Met) (k : Hash) {x : Int}
    (hwf : (toPolicy p).wf) (hno : (toPolicy p).NoOvf x) :
    toPolicy (Cache.polDel on p m k).1 = (toPolicy p).del k := by
  unfold Cache.polDel
  rw [lookup_eq]
  cases hl : lookup p.costs k with
  | none => simp only; rw [Pol.del_none (by simpa using hl)]
  | some c =>
    simp only
    have hl' : lookup (toPolicy p).keyCosts k = some c := hl
    apply pol_eq
    · rw [Pol.del_keyCosts]; simp [toPolicy, erase_eq]
    · rw [Pol.del_used hwf hno hl']; rfl
    · rw [Pol.del_maxCost]; rfl

theorem polDel_met_off (p : Cache.Pol) (m : Cache.Met) (k : Hash) : (Cache.polDel false p m k).2 = m := by
  unfold Cache.polDel; split <;> rfl

theorem delAll_wf_noOvf {q : Pol} {x : Int} (vs : List KC) (hwf : q.wf) (hno : q.NoOvf x) :
    (delAll q vs).wf ∧ (delAll q vs).NoOvf x := by
  induction vs generalizing q with
  | nil => exact ⟨hwf, hno⟩
  | cons v rest ih =>
    simp only [delAll, List.foldl_cons]
    exact ih (Pol.wf_del v.1 hwf hno) (Pol.noOvf_del v.1 hno)

theorem toPolicy_polDelAll (on : Bool) (p : Cache.Pol) (m : Cache.Met) (vs : List KC) {x : Int}
    (hwf : (toPolicy p).wf) (hno : (toPolicy p).NoOvf x) :
    toPolicy (Cache.polDelAll on p m vs).1 = delAll (toPolicy p) vs := by
  induction vs generalizing p m with
  | nil => rfl
  | cons v rest ih =>
    obtain ⟨k, c⟩ := v
    simp only [Cache.polDelAll, delAll, List.foldl_cons]
    have h1 := toPolicy_polDel on p m k hwf hno
    have := ih (Cache.polDel on p m k).1 (Cache.polDel on p m k).2 (by rw [h1]; exact Pol.wf_del k hwf hno)
      (by rw [h1]; exact Pol.noOvf_del k hno)
    rw [h1] at this
    exact this

theorem polDelAll_met_off (p : Cache.Pol) (m : Cache.Met) (vs : List KC) :
    (Cache.polDelAll false p m vs).2 = m := by
  induction vs generalizing p m with
  | nil => rfl
  | cons v rest ih =>
    obtain ⟨k, c⟩ := v
    simp only [Cache.polDelAll]
    rw [ih, polDel_met_off]

theorem toPolicy_polAddKey (on : Bool) (p : Cache.Pol) (m : Cache.Met) (k : Hash) {cost : Int}
    (hwf : (toPolicy p).wf) (hno : (toPolicy p).NoOvf cost) :
    toPolicy (Cache.polAddKey on p m k cost).1 = (toPolicy p).evictAdd k cost := by
  apply pol_eq
  · simp [Cache.polAddKey, toPolicy, Pol.evictAdd, insert_eq]
  · rw [Pol.evictAdd_used k hwf hno]; rfl
  · rfl

theorem toPolicy_polUpdate (on : Bool) (p : Cache.Pol) (m : Cache.Met) (k : Hash) {cost prev : Int}
    (hwf : (toPolicy p).wf) (hno : (toPolicy p).NoOvf cost) (hl : lookup p.costs k = some prev) :
    toPolicy (Cache.polUpdate on p m k cost).1 = (toPolicy p).update k cost ∧
      (Cache.polUpdate on p m k cost).2.2 = true := by
  have hl' : lookup (toPolicy p).keyCosts k = some prev := hl
  unfold Cache.polUpdate
  rw [lookup_eq, hl]
  refine ⟨?_, rfl⟩
  apply pol_eq
  · simp only [Pol.update]; rw [Pol.updateIfHas_keyCosts cost hl']; simp [toPolicy, insert_eq, insert]
  · simp only [Pol.update]; rw [Pol.updateIfHas_used hwf hno hl']; rfl
  · simp only [Pol.update]; rw [Pol.updateIfHas_maxCost]; rfl

theorem polUpdate_none (on : Bool) (p : Cache.Pol) (m : Cache.Met) (k : Hash) (cost : Int)
    (hl : lookup p.costs k = none) : Cache.polUpdate on p m k cost = (p, m, false) := by
  unfold Cache.polUpdate; rw [lookup_eq, hl]

theorem polUpdate_met_off (p : Cache.Pol) (m : Cache.Met) (k : Hash) (cost : Int) :
    (Cache.polUpdate false p m k cost).2.1 = m := by
  unfold Cache.polUpdate; split <;> rfl

theorem lookup_isSome_of_mem_keys {kcs : List KC} {k : Hash} (h : k ∈ keys kcs) : (lookup kcs k).isSome = true := by
  cases hl : lookup kcs k with
  | none => exact absurd h (lookup_eq_none.1 hl)
  | some c => rfl

/-! ### every victim was accounted when `Add` started -/

theorem loop_victims_resident {est : Hash → Int} (hest : EstOK est) (key : Hash) (cost : Int) {inc : Int}
    (hinc : IncOK inc) (K : List Hash) (enums : List (List KC)) (p : Pol) (carry : List KC)
    (hlen : carry.length ≤ Gen.Policy.lfuSample.toNat) (hK : ∀ k ∈ keys p.keyCosts, k ∈ K)
    (hc : ∀ x ∈ carry, x.1 ∈ K)
    (hadm : ∀ r ∈ (evictLoop est key cost inc enums p carry).rounds, Admissible r.before.keyCosts r.carry r.enum) :
    ∀ v ∈ (evictLoop est key cost inc enums p carry).victims, v.1 ∈ K := by
  have h5 := lfuSample_eq
  induction enums generalizing p carry with
  | nil =>
    cases hnr : needRoom (roomLeft p.maxCost p.used cost) with
    | true => rw [evictLoop_stuck est key cost inc p carry hnr]; simp
    | false => rw [evictLoop_done est key cost inc [] p carry hnr]; simp
  | cons enum rest ih =>
    cases hnr : needRoom (roomLeft p.maxCost p.used cost) with
    | false => rw [evictLoop_done est key cost inc _ p carry hnr]; simp
    | true =>
      cases hr : incLess inc (scan est (fillSample carry enum)).hits with
      | true => rw [evictLoop_reject est key cost inc enum rest p carry hnr hr]; simp
      | false =>
        have hcl : carry.length < 2 ^ 63 := by omega
        have hsl : (fillSample carry enum).length ≤ Gen.Policy.lfuSample.toNat := by
          rw [length_fillSample carry enum hcl]; omega
        obtain ⟨hne, s', hs'⟩ := round_not_rejected hest hinc (by omega) hr
        have hsp := scan_spec hest hne
        rw [evictLoop_continue est key cost inc enum rest p carry s' hnr hr hs'] at hadm ⊢
        simp only [List.mem_cons, forall_eq_or_imp] at hadm
        have hsK : ∀ x ∈ fillSample carry enum, x.1 ∈ K := by
          intro x hx
          rcases mem_fillSample hcl hx with hx | hx
          · exact hc x hx
          · exact hK _ (mem_keys.2 ⟨x.2, hadm.1.2.1 x hx⟩)
        have hsub := fun x hx => mem_of_mem_swapRemove hsp.1 (by omega) hs' (x := x) hx
        have hl' := length_swapRemove hsp.1 (by omega) hs'
        have hK' : ∀ k ∈ keys (p.del (scan est (fillSample carry enum)).key).keyCosts, k ∈ K := by
          intro k hk
          rw [Pol.del_keyCosts] at hk
          exact hK k (mem_keys_erase.1 hk).1
        have IH := ih (p.del (scan est (fillSample carry enum)).key) s' (by omega) hK'
          (fun x hx => hsK x (hsub x hx)) hadm.2
        intro v hv
        simp only [List.mem_cons] at hv
        rcases hv with hv | hv
        · subst hv
          exact hsK _ (List.mem_of_getElem? hsp.2.1)
        · exact IH v hv

/-! ### the refinement -/

/-- **`polAdd` accepts every outcome of the exact `Add` and computes the same state.**
For every cache policy state `p` that is well-formed and does not overflow with `cost`,
every estimator with `int64` estimates below MaxInt64, every list of admissible enumerations
(also when the list is too short and the exact `Add` is cut short — `status = stuck` — which
is a prefix of the real run: the victims so far, not admitted): with `(victims, admitted)` the exact
outcome, `polAdd on p m key cost victims admitted` is `some (p'', m'')`, `p''` is the exact
final state, and with metrics off `m'' = m`. -/
theorem add_refines_polAdd_on (on : Bool) (p : Cache.Pol) (m : Cache.Met) (est : Hash → Int) (hest : EstOK est)
    (enums : List (List KC)) (key : Hash) (cost : Int)
    (hwf : (toPolicy p).wf) (hno : (toPolicy p).NoOvf cost)
    (hadm : ((toPolicy p).addFull est enums key cost).Admissible) :
    ∃ pm, Cache.polAdd on p m key cost ((toPolicy p).addFull est enums key cost).victims
        ((toPolicy p).addFull est enums key cost).admitted = some pm ∧
      toPolicy pm.1 = ((toPolicy p).addFull est enums key cost).pol ∧ (on = false → pm.2 = m) := by
  have hr := Pol.ranges hwf hno
  by_cases hbig : (toPolicy p).maxCost < cost
  · rw [addFull_tooBig est enums key hr.2.2.1 hr.2.1 hbig]
    have hb : cost > p.maxCost := hbig
    exact ⟨(p, m), by simp [Cache.polAdd, hb], rfl, fun _ => rfl⟩
  · have hb : ¬ cost > p.maxCost := hbig
    cases hl : lookup (toPolicy p).keyCosts key with
    | some prev =>
      rw [addFull_existing est enums key hr.2.2.1 hr.2.1 hbig hl]
      have hu := toPolicy_polUpdate on p m key hwf hno hl
      refine ⟨((Cache.polUpdate on p m key cost).1, (Cache.polUpdate on p m key cost).2.1), ?_, hu.1, ?_⟩
      · unfold Cache.polAdd
        rw [if_neg hb]
        cases hq : Cache.polUpdate on p m key cost with
        | mk p1 r =>
          cases r with
          | mk m1 b =>
            rw [hq] at hu
            have hb' : b = true := hu.2
            subst hb'
            simp
      · intro h; subst h; exact polUpdate_met_off p m key cost
    | none =>
      have hl' : lookup p.costs key = none := hl
      by_cases hroom : 0 ≤ (toPolicy p).maxCost - ((toPolicy p).used + cost)
      · rw [addFull_fits est enums key hwf hno hbig hl hroom]
        have hroom' : p.maxCost - (p.used + cost) ≥ 0 := hroom
        refine ⟨Cache.polAddKey on p m key cost, ?_, toPolicy_polAddKey on p m key hwf hno, ?_⟩
        · unfold Cache.polAdd
          rw [if_neg hb, polUpdate_none on p m key cost hl']
          have hroom'' : p.used + cost ≤ p.maxCost := by omega
          simp [hroom'']
        · intro h; subst h; rfl
      · have hroom' : ¬ p.maxCost - (p.used + cost) ≥ 0 := hroom
        have hroom'' : ¬ p.used + cost ≤ p.maxCost := by omega
        have he := addFull_loop est enums key hwf hno hbig hl (by omega)
        have hk := hest key
        have hinc : IncOK (est key) := by unfold IncOK; omega
        unfold AddOut.Admissible at hadm
        rw [he] at hadm ⊢
        -- facts about the loop
        have hres := loop_victims_resident hest key cost hinc (keys p.costs) enums (toPolicy p) []
          (by simp) (fun k hk => hk) (by intro x hx; simp at hx) hadm
        have hpol := loop_pol_eq est key cost (est key) enums (toPolicy p) []
        have hinv := loop_inv est key cost (est key) enums (toPolicy p) [] hwf hno hl
        have hmax := loop_maxCost est key cost (est key) enums (toPolicy p) []
        generalize evictLoop est key cost (est key) enums (toPolicy p) [] = o at *
        have hall : (o.victims.all fun v => p.costs.contains v.1) = true := by
          rw [List.all_eq_true]
          intro v hv
          rw [contains_eq]
          exact lookup_isSome_of_mem_keys (hres v hv)
        have hda := toPolicy_polDelAll on p m o.victims hwf hno
        have hdw := delAll_wf_noOvf o.victims hwf hno
        cases hq : Cache.polDelAll on p m o.victims with
        | mk p2 m2 =>
          rw [hq] at hda
          simp only at hda
          have hm2 : on = false → m2 = m := by
            intro h; subst h
            have := polDelAll_met_off p m o.victims
            rw [hq] at this; exact this
          cases hadmit : o.admitted with
          | false =>
            rw [hadmit] at hpol
            simp only [Bool.false_eq_true, if_false] at hpol
            refine ⟨(p2, if on then { m2 with rejectSets := m2.rejectSets + 1 } else m2), ?_, ?_, ?_⟩
            · unfold Cache.polAdd
              rw [if_neg hb, polUpdate_none on p m key cost hl']
              simp [hroom'', hall, hq]
            · rw [hpol]; exact hda
            · intro h; subst h; exact hm2 rfl
          | true =>
            rw [hadmit] at hpol
            simp only [if_true] at hpol
            have hfit := hinv.fits hadmit
            have hu2 : (delAll (toPolicy p) o.victims).evictAdd key cost =
                toPolicy (Cache.polAddKey on p2 m2 key cost).1 := by
              rw [toPolicy_polAddKey on p2 m2 key (by rw [hda]; exact hdw.1) (by rw [hda]; exact hdw.2), hda]
            have hused : o.pol.used = p2.used + cost := by
              rw [hpol, Pol.evictAdd_used key hdw.1 hdw.2, ← hda]; rfl
            have hmx : o.pol.maxCost = p2.maxCost := by
              rw [hpol, Pol.evictAdd_maxCost, ← hda]; rfl
            have hfit2 : p2.maxCost - (p2.used + cost) ≥ 0 := by omega
            have hne : o.victims.isEmpty = false := by
              cases hv : o.victims with
              | nil =>
                exfalso
                rw [hv] at hq
                simp only [Cache.polDelAll] at hq
                injection hq with h1 h2
                subst h1
                exact hroom' hfit2
              | cons v rest => rfl
            refine ⟨Cache.polAddKey on p2 m2 key cost, ?_, ?_, ?_⟩
            · unfold Cache.polAdd
              rw [if_neg hb, polUpdate_none on p m key cost hl']
              have hfit3 : p2.used + cost ≤ p2.maxCost := by omega
              simp [hroom'', hall, hq, hfit3, hne]
            · rw [hpol]; exact hu2.symm
            · intro h; subst h; exact hm2 rfl

/-- Metrics off (`polAdd false`): the metrics record is untouched. -/
theorem add_refines_polAdd (p : Cache.Pol) (m : Cache.Met) (est : Hash → Int) (hest : EstOK est)
    (enums : List (List KC)) (key : Hash) (cost : Int)
    (hwf : (toPolicy p).wf) (hno : (toPolicy p).NoOvf cost)
    (hadm : ((toPolicy p).addFull est enums key cost).Admissible) :
    ∃ p'', Cache.polAdd false p m key cost ((toPolicy p).add est enums key cost).2.1
        ((toPolicy p).add est enums key cost).2.2 = some (p'', m) ∧
      toPolicy p'' = ((toPolicy p).add est enums key cost).1 := by
  obtain ⟨pm, h1, h2, h3⟩ := add_refines_polAdd_on false p m est hest enums key cost hwf hno hadm
  refine ⟨pm.1, ?_, h2⟩
  simp only [Pol.add]
  rw [h1, ← h3 rfl]

/-- With admissible enumerations and `6 · |keyCosts|` of them the exact `Add` completes. -/
theorem add_ok_of_admissible (p : Cache.Pol) (est : Hash → Int) (hest : EstOK est)
    (enums : List (List KC)) (key : Hash) (cost : Int)
    (hwf : (toPolicy p).wf) (hno : (toPolicy p).NoOvf cost)
    (hadm : ((toPolicy p).addFull est enums key cost).Admissible)
    (hn : 6 * p.costs.length ≤ enums.length) :
    ((toPolicy p).addFull est enums key cost).status = .ok := by
  have hr := Pol.ranges hwf hno
  by_cases hbig : (toPolicy p).maxCost < cost
  · rw [addFull_tooBig est enums key hr.2.2.1 hr.2.1 hbig]
  · cases hl : lookup (toPolicy p).keyCosts key with
    | some prev => rw [addFull_existing est enums key hr.2.2.1 hr.2.1 hbig hl]
    | none =>
      by_cases hroom : 0 ≤ (toPolicy p).maxCost - ((toPolicy p).used + cost)
      · rw [addFull_fits est enums key hwf hno hbig hl hroom]
      · have he := addFull_loop est enums key hwf hno hbig hl (by omega)
        have hk := hest key
        unfold AddOut.Admissible at hadm
        rw [he] at hadm ⊢
        have h1 := (loop_real hest key cost (by unfold IncOK; omega) enums (toPolicy p) [] hwf hno (by simp)
          (by intro x hx; simp at hx) hadm).no_panic
        have h2 := loop_not_stuck hest key cost (by unfold IncOK; omega) enums (toPolicy p) [] hwf hno (by omega)
          (by simp) hadm (by simp only [loopMeasure, stale, List.countP_nil, toPolicy_keyCosts]; exact hn)
        cases hs : (evictLoop est key cost (est key) enums (toPolicy p) []).status with
        | ok => rfl
        | stuck => exact absurd hs h2
        | panic => exact absurd hs h1

end RV.Policy
