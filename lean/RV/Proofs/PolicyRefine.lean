import RV.Model.Cache
import RV.Proofs.PolicyAdd
import RV.Proofs.PolicyTerm
/-!
# The exact policy model refines the Cache model's `polAdd`

The Cache model (`RV/Model/Cache.lean`) treats the outcome `(victims, added)` of
`defaultPolicy.Add` as a *choice* that `RV.Cache.polAdd` accepts iff it satisfies a list of
constraints.  Here: every completed run of the exact sampled-LFU `Add`
(`RV.Policy.Pol.addFull`, status `ok`) from a well-formed, non-overflowing state, with
`int64` estimates and admissible map enumerations, produces an outcome that `polAdd` accepts,
and `polAdd` then computes exactly the state the exact model computes (`add_refines_polAdd`).
`add_ok_of_admissible` shows `status = ok` follows from admissibility when enough
enumerations are supplied.

`RV.Cache.Pol` and `RV.Policy.Pol` have the same fields; `AMap Hash Int` is the same
association list with the same `lookup`/`erase`/`insert` (`lookup_eq`, `erase_eq`, `insert_eq`).
-/
namespace RV.Policy
open RV

/-- the cache model's policy state as a state of the exact policy model (same fields) -/
def toPolicy (p : Cache.Pol) : Pol := { keyCosts := p.costs, used := p.used, maxCost := p.maxCost }

@[simp] theorem toPolicy_keyCosts (p : Cache.Pol) : (toPolicy p).keyCosts = p.costs := rfl
@[simp] theorem toPolicy_used (p : Cache.Pol) : (toPolicy p).used = p.used := rfl
@[simp] theorem toPolicy_maxCost (p : Cache.Pol) : (toPolicy p).maxCost = p.maxCost := rfl

theorem pol_eq {a b : Pol} (h1 : a.keyCosts = b.keyCosts) (h2 : a.used = b.used) (h3 : a.maxCost = b.maxCost) :
    a = b := by
  cases a; cases b; simp_all

theorem lookup_eq (m : AMap Hash Int) (k : Hash) : AMap.lookup m k = lookup m k := by
  induction m with
  | nil => rfl
  | cons kc rest ih => obtain ⟨k', v⟩ := kc; simp only [AMap.lookup, lookup, ih]

theorem erase_eq (m : AMap Hash Int) (k : Hash) : AMap.erase m k = erase m k := by
  induction m with
  | nil => rfl
  | cons kc rest ih => obtain ⟨k', v⟩ := kc; simp only [AMap.erase, erase, ih]; rfl

theorem insert_eq (m : AMap Hash Int) (k : Hash) (c : Int) : AMap.insert m k c = insert m k c := by
  simp only [AMap.insert, insert, erase_eq]; rfl

theorem contains_eq (m : AMap Hash Int) (k : Hash) : AMap.contains m k = (lookup m k).isSome := by
  simp only [AMap.contains, lookup_eq]

/-! ### the single operations -/

theorem toPolicy_polDel (on : Bool) (p : Cache.Pol) (m : Cache.Met) (k : Hash) {x : Int}
    (hwf : (toPolicy p).wf) (hno : (toPolicy p).NoOvf x) :
    toPolicy (Cache.polDel on p m k).1 = (toPolicy p).del k := by
  unfold Cache.polDel
  rw [lookup_eq]
  cases hl : lookup p.costs k with
  | none => simp only; rw [Pol.del_none (by simpa using hl)]
  | some c =>
    simp only
    have hl' : lookup (toPolicy p).keyCosts k = some c := hl
    apply pol_eq
    · rw [Pol.del_keyCosts]; simp [toPolicy, erase_eq]
    · rw [Pol.del_used hwf hno hl']; rfl
    · rw [Pol.del_maxCost]; rfl

theorem polDel_met_off (p : Cache.Pol) (m : Cache.Met) (k : Hash) : (Cache.polDel false p m k).2 = m := by
  unfold Cache.polDel; split <;> rfl

theorem delAll_wf_noOvf {q : Pol} {x : Int} (vs : List KC) (hwf : q.wf) (hno : q.NoOvf x) :
    (delAll q vs).wf ∧ (delAll q vs).NoOvf x := by
  induction vs generalizing q with
  | nil => exact ⟨hwf, hno⟩
  | cons v rest ih =>
    simp only [delAll, List.foldl_cons]
    exact ih (Pol.wf_del v.1 hwf hno) (Pol.noOvf_del v.1 hno)

theorem toPolicy_polDelAll (on : Bool) (p : Cache.Pol) (m : Cache.Met) (vs : List KC) {x : Int}
    (hwf : (toPolicy p).wf) (hno : (toPolicy p).NoOvf x) :
    toPolicy (Cache.polDelAll on p m vs).1 = delAll (toPolicy p) vs := by
  induction vs generalizing p m with
  | nil => rfl
  | cons v rest ih =>
    obtain ⟨k, c⟩ := v
    simp only [Cache.polDelAll, delAll, List.foldl_cons]
    have h1 := toPolicy_polDel on p m k hwf hno
    have := ih (Cache.polDel on p m k).1 (Cache.polDel on p m k).2 (by rw [h1]; exact Pol.wf_del k hwf hno)
      (by rw [h1]; exact Pol.noOvf_del k hno)
    rw [h1] at this
    exact this

theorem polDelAll_met_off (p : Cache.Pol) (m : Cache.Met) (vs : List KC) :
    (Cache.polDelAll false p m vs).2 = m := by
  induction vs generalizing p m with
  | nil => rfl
  | cons v rest ih =>
    obtain ⟨k, c⟩ := v
    simp only [Cache.polDelAll]
    rw [ih, polDel_met_off]

theorem toPolicy_polAddKey (on : Bool) (p : Cache.Pol) (m : Cache.Met) (k : Hash) {cost : Int}
    (hwf : (toPolicy p).wf) (hno : (toPolicy p).NoOvf cost) :
    toPolicy (Cache.polAddKey on p m k cost).1 = (toPolicy p).evictAdd k cost := by
  apply pol_eq
  · simp [Cache.polAddKey, toPolicy, Pol.evictAdd, insert_eq]
  · rw [Pol.evictAdd_used k hwf hno]; rfl
  · rfl

theorem toPolicy_polUpdate (on : Bool) (p : Cache.Pol) (m : Cache.Met) (k : Hash) {cost prev : Int}
    (hwf : (toPolicy p).wf) (hno : (toPolicy p).NoOvf cost) (hl : lookup p.costs k = some prev) :
    toPolicy (Cache.polUpdate on p m k cost).1 = (toPolicy p).update k cost ∧
      (Cache.polUpdate on p m k cost).2.2 = true := by
  have hl' : lookup (toPolicy p).keyCosts k = some prev := hl
  unfold Cache.polUpdate
  rw [lookup_eq, hl]
  refine ⟨?_, rfl⟩
  apply pol_eq
  · simp only [Pol.update]; rw [Pol.updateIfHas_keyCosts cost hl']; simp [toPolicy, insert_eq, insert]
  · simp only [Pol.update]; rw [Pol.updateIfHas_used hwf hno hl']; rfl
  · simp only [Pol.update]; rw [Pol.updateIfHas_maxCost]; rfl

theorem polUpdate_none (on : Bool) (p : Cache.Pol) (m : Cache.Met) (k : Hash) (cost : Int)
    (hl : lookup p.costs k = none) : Cache.polUpdate on p m k cost = (p, m, false) := by
  unfold Cache.polUpdate; rw [lookup_eq, hl]

end RV.Policy
