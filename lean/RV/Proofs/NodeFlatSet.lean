import RV.Proofs.NodeFlatSearch
/-!
# Flat pages: `node.moveRight` and `node.set`

`Gen.Node.set` (generated whole function) against `RV.Tree.nodeSet` on the entries of the page:
whenever the entry-list model returns, the flat function returns the same `numAdded`, the new
page reads as the model's new entry list, only slot words and the count change, and the words
behind the new `numKeys` are still zero; whenever the model panics (full node, key absent), so
does the flat function.
-/
namespace RV.NodeFlat
open RV.Tree (Key Val w w_toNat w_toInt w_slt w_sle w_beq SortedFrom)
open Gen.Tree

/-- What `nodeSet … = some …` says, decision by decision. -/
theorem nodeSet_some_inv {β : Type} (mk : Nat) (es : List (Key × β)) (k : Key) (v : β)
    (es' : List (Key × β)) (added : Nat) (h : RV.Tree.nodeSet mk es k v = some (es', added)) :
    RV.Tree.search es k < mk ∧
    (setFull (w es.length) (w mk) = true → setFullAssert (RV.Tree.keyAt es (RV.Tree.search es k)) k = true) ∧
    (setMove (RV.Tree.keyAt es (RV.Tree.search es k)) k = true → moveRightAssert (w es.length) (w mk) = true) ∧
    setWrite (RV.Tree.keyAt es (RV.Tree.search es k)) k = true ∧
    ((RV.Tree.search es k < es.length ∧ setMove (RV.Tree.keyAt es (RV.Tree.search es k)) k = true ∧
        setIsNew (RV.Tree.keyAt es (RV.Tree.search es k)) k = true ∧
        es' = es.take (RV.Tree.search es k) ++ (k, v) :: es.drop (RV.Tree.search es k) ∧ added = 1) ∨
     (RV.Tree.search es k < es.length ∧ setMove (RV.Tree.keyAt es (RV.Tree.search es k)) k = false ∧
        setIsNew (RV.Tree.keyAt es (RV.Tree.search es k)) k = false ∧
        es' = es.set (RV.Tree.search es k) (k, v) ∧ added = 0) ∨
     (¬ RV.Tree.search es k < es.length ∧ setMove (RV.Tree.keyAt es (RV.Tree.search es k)) k = false ∧
        setIsNew (RV.Tree.keyAt es (RV.Tree.search es k)) k = true ∧
        es' = es ++ [(k, v)] ∧ added = 1)) := by
  unfold RV.Tree.nodeSet at h
  simp only at h
  generalize RV.Tree.search es k = idx at *
  generalize RV.Tree.keyAt es idx = ki at *
  by_cases h1 : idx ≥ mk
  · simp [h1] at h
  simp only [h1, if_false] at h
  by_cases h2 : (setFull (w es.length) (w mk) && !setFullAssert ki k) = true
  · simp [h2] at h
  simp only [h2, Bool.false_eq_true, if_false] at h
  by_cases h3 : (setMove ki k && !moveRightAssert (w es.length) (w mk)) = true
  · simp [h3] at h
  simp only [h3, Bool.false_eq_true, if_false] at h
  cases h4 : setWrite ki k
  · simp [h4] at h
  simp only [h4, Bool.not_true, Bool.false_eq_true, if_false] at h
  refine ⟨by omega, ?_, ?_, rfl, ?_⟩
  · intro hf; simpa [hf] using h2
  · intro hm; simpa [hm] using h3
  · by_cases h5 : idx < es.length
    · simp only [h5, if_true] at h
      cases hm : setMove ki k <;> cases hn : setIsNew ki k <;> simp [hm, hn] at h
      · right; left; exact ⟨h5, rfl, rfl, h.1.symm, h.2.symm⟩
      · left; exact ⟨h5, rfl, rfl, h.1.symm, h.2.symm⟩
    · simp only [h5, if_false] at h
      cases hm : setMove ki k <;> cases hn : setIsNew ki k <;> simp [hm, hn] at h
      right; right; exact ⟨h5, rfl, rfl, h.1.symm, h.2.symm⟩


variable {mk : Nat} {p : Page}

/-- `moveRight(lo)` on a node with `n < maxKeys` keys: the pairs `lo … n-1` move one slot up
(word `i` gets the old word `i-2` for `2lo+2 ≤ i < 2n+2`); nothing else changes. -/
theorem moveRight_w (hs : p.size = 2 * (mk + 1)) (hmk : mk < 2 ^ 31) {lo : Nat} (hlo : lo ≤ nkeys mk p)
    (hn : nkeys mk p < mk) :
    ∃ p', Gen.Node.moveRight p (w mk) (w lo) = some p' ∧ p'.size = p.size ∧
      ∀ i, p'[i]! = if 2 * lo + 2 ≤ i ∧ i < 2 * nkeys mk p + 2 then p[i - 2]! else p[i]! := by
  have h64 : p.size ≤ 2 ^ 64 := by omega
  unfold Gen.Node.moveRight
  simp only [numKeys_w hs h64, Option.bind_some]
  have hne : (w (nkeys mk p) != w mk) = true := by
    rw [bne, w_beq (by omega) (by omega)]; simp; omega
  simp only [hne, guard_true, Option.bind_some, w_add_one, keyOffset_w]
  obtain ⟨a', ha, hsz, hw⟩ := copyWithin_w (a := p) (dlo := 2 * (lo + 1)) (slo := 2 * lo) (n := 2 * (nkeys mk p - lo))
    (by omega) (by omega) (by omega)
  have e1 : 2 * (lo + 1) + 2 * (nkeys mk p - lo) = 2 * (nkeys mk p + 1) := by omega
  have e2 : 2 * lo + 2 * (nkeys mk p - lo) = 2 * nkeys mk p := by omega
  rw [e1, e2] at ha
  rw [ha]
  refine ⟨a', rfl, hsz, ?_⟩
  intro i
  rw [hw i]
  by_cases hc : 2 * lo + 2 ≤ i ∧ i < 2 * nkeys mk p + 2
  · have hc' : 2 * (lo + 1) ≤ i ∧ i < 2 * (lo + 1) + 2 * (nkeys mk p - lo) := by omega
    simp only [hc, hc', and_self, if_true]
    congr 1; omega
  · have hc' : ¬ (2 * (lo + 1) ≤ i ∧ i < 2 * (lo + 1) + 2 * (nkeys mk p - lo)) := by omega
    simp only [hc, hc', if_false]

/-- `set` of a new key below an existing one: `moveRight`, count + 1, the pair is written. -/
theorem set_insert (hs : p.size = 2 * (mk + 1)) (hmk : mk < 2 ^ 15) (k v : BitVec 64)
    (hidx : RV.Tree.search (ents mk p) k < nkeys mk p) (hn : nkeys mk p < mk)
    (hmove : BitVec.ult k (keyW p (RV.Tree.search (ents mk p) k)) = true) :
    ∃ p', Gen.Node.set p (w mk) k v = some (p', 1#64) ∧ p'.size = p.size ∧
      (metaW mk p').toNat = (metaW mk p).toNat / 2 ^ 32 * 2 ^ 32 + (nkeys mk p + 1) ∧
      ∀ j, j ≠ 2 * mk + 1 → p'[j]! =
        if j = 2 * RV.Tree.search (ents mk p) k then k
        else if j = 2 * RV.Tree.search (ents mk p) k + 1 then v
        else if 2 * RV.Tree.search (ents mk p) k + 2 ≤ j ∧ j < 2 * nkeys mk p + 2 then p[j - 2]! else p[j]! := by
  have h64 : p.size ≤ 2 ^ 64 := by omega
  generalize hidx' : RV.Tree.search (ents mk p) k = idx at *
  have hne : keyW p idx ≠ k := by
    intro e; rw [e] at hmove; simp [BitVec.ult] at hmove
  obtain ⟨p1, h1, hs1, hw1⟩ := moveRight_w hs (by omega) (Nat.le_of_lt hidx) hn
  have hm1 : metaW mk p1 = metaW mk p := by
    unfold metaW; rw [hw1]; simp only [show ¬ (2 * idx + 2 ≤ 2 * mk + 1 ∧ 2 * mk + 1 < 2 * nkeys mk p + 2) by omega, if_false]
  have hn1 : nkeys mk p1 = nkeys mk p := by unfold nkeys; rw [hm1]
  obtain ⟨p2, h2, hs2, hmeta2, hw2⟩ := setNumKeys_w (p := p1) (mk := mk) (by omega) (by omega) (n := nkeys mk p + 1) (by omega)
  unfold Gen.Node.set
  simp only [search_w hs hmk (Nat.le_of_lt hn), hidx', Option.bind_some, key_w (show 2 * idx < p.size by omega) h64,
    numKeys_w hs h64]
  have hfull : (w (nkeys mk p) == w mk) = false := by
    rw [w_beq (by omega) (by omega)]; simp; omega
  have hnew : (keyW p idx != k) = true := by simp [bne, hne]
  have hwrite : ((keyW p idx == 0#64) || BitVec.ule k (keyW p idx)) = true := by
    have : BitVec.ule k (keyW p idx) = true := by
      simp only [BitVec.ult, BitVec.ule, decide_eq_true_eq] at hmove ⊢; omega
    simp [this]
  simp only [hfull, Bool.false_eq_true, if_false, Option.bind_some, hmove, if_true, h1, hnew,
    numKeys_w (p := p1) (mk := mk) (by omega) (by omega), hn1, w_add_one, h2, hwrite, keyOffset_w, valOffset_w]
  rw [setAt_w k (show 2 * idx < p2.size by omega) (by omega)]
  simp only [Option.bind_some]
  rw [setAt_w v (show 2 * idx + 1 < (p2.set! (2 * idx) k).size by rw [RV.size_set!]; omega) (by rw [RV.size_set!]; omega)]
  simp only [Option.bind_some]
  refine ⟨_, rfl, by rw [RV.size_set!, RV.size_set!]; omega, ?_, ?_⟩
  · unfold metaW at hmeta2 hm1 ⊢
    rw [RV.get!_set!_ne _ _ _ _ (by omega), RV.get!_set!_ne _ _ _ _ (by omega), hmeta2, hm1]
  · intro j hj
    by_cases e1 : j = 2 * idx + 1
    · subst e1
      rw [RV.get!_set!_self _ _ _ (by rw [RV.size_set!]; omega)]
      simp
    · rw [RV.get!_set!_ne _ _ _ _ (Ne.symm e1)]
      by_cases e0 : j = 2 * idx
      · subst e0
        rw [RV.get!_set!_self _ _ _ (by omega)]
        simp
      · rw [RV.get!_set!_ne _ _ _ _ (Ne.symm e0), hw2 j hj, hw1 j]
        simp only [e0, e1, if_false]

theorem set_overwrite (hs : p.size = 2 * (mk + 1)) (hmk : mk < 2 ^ 15) (hn : nkeys mk p ≤ mk) (k v : BitVec 64)
    (hidx : RV.Tree.search (ents mk p) k < nkeys mk p)
    (hk : keyW p (RV.Tree.search (ents mk p) k) = k) :
    Gen.Node.set p (w mk) k v =
      some ((p.set! (2 * RV.Tree.search (ents mk p) k) k).set! (2 * RV.Tree.search (ents mk p) k + 1) v, 0#64) := by
  have h64 : p.size ≤ 2 ^ 64 := by omega
  generalize hidx' : RV.Tree.search (ents mk p) k = idx at *
  unfold Gen.Node.set
  simp only [search_w hs hmk hn, hidx', Option.bind_some, key_w (show 2 * idx < p.size by omega) h64,
    numKeys_w hs h64, hk, beq_self_eq_true, guard_true, ite_self, bne_self_eq_false, Bool.false_eq_true, if_false,
    BitVec.ult, Nat.lt_irrefl, decide_false, BitVec.ule, Nat.le_refl, decide_true, Bool.or_true, if_true,
    keyOffset_w, valOffset_w]
  rw [setAt_w k (show 2 * idx < p.size by omega) h64]
  simp only [Option.bind_some]
  rw [setAt_w v (show 2 * idx + 1 < (p.set! (2 * idx) k).size by rw [RV.size_set!]; omega) (by rw [RV.size_set!]; omega)]
  rfl

theorem set_append (hs : p.size = 2 * (mk + 1)) (hmk : mk < 2 ^ 15) (k v : BitVec 64) (hk0 : k ≠ 0#64)
    (hidx : RV.Tree.search (ents mk p) k = nkeys mk p) (hn : nkeys mk p < mk)
    (hz : keyW p (nkeys mk p) = 0#64) :
    ∃ p', Gen.Node.set p (w mk) k v = some (p', 1#64) ∧ p'.size = p.size ∧
      (metaW mk p').toNat = (metaW mk p).toNat / 2 ^ 32 * 2 ^ 32 + (nkeys mk p + 1) ∧
      ∀ j, j ≠ 2 * mk + 1 → p'[j]! =
        if j = 2 * nkeys mk p then k else if j = 2 * nkeys mk p + 1 then v else p[j]! := by
  have h64 : p.size ≤ 2 ^ 64 := by omega
  obtain ⟨p2, h2, hs2, hmeta2, hw2⟩ := setNumKeys_w (p := p) (mk := mk) hs h64 (n := nkeys mk p + 1) (by omega)
  unfold Gen.Node.set
  have hfull : (w (nkeys mk p) == w mk) = false := by
    rw [w_beq (by omega) (by omega)]; simp; omega
  have hnew : ((0#64 : BitVec 64) != k) = true := by simp [bne]; exact fun e => hk0 e.symm
  have hmove : BitVec.ult k (0#64 : BitVec 64) = false := by simp [BitVec.ult]
  simp only [search_w hs hmk (Nat.le_of_lt hn), hidx, Option.bind_some, key_w (show 2 * nkeys mk p < p.size by omega) h64,
    numKeys_w hs h64, hz, hfull, Bool.false_eq_true, if_false, hmove, hnew, if_true, w_add_one, h2,
    beq_self_eq_true, Bool.true_or, keyOffset_w, valOffset_w]
  rw [setAt_w k (show 2 * nkeys mk p < p2.size by omega) (by omega)]
  simp only [Option.bind_some]
  rw [setAt_w v (show 2 * nkeys mk p + 1 < (p2.set! (2 * nkeys mk p) k).size by rw [RV.size_set!]; omega) (by rw [RV.size_set!]; omega)]
  simp only [Option.bind_some]
  refine ⟨_, rfl, by rw [RV.size_set!, RV.size_set!]; omega, ?_, ?_⟩
  · unfold metaW at hmeta2 ⊢
    rw [RV.get!_set!_ne _ _ _ _ (by omega), RV.get!_set!_ne _ _ _ _ (by omega), hmeta2]
  · intro j hj
    by_cases e1 : j = 2 * nkeys mk p + 1
    · subst e1
      rw [RV.get!_set!_self _ _ _ (by rw [RV.size_set!]; omega)]
      simp
    · rw [RV.get!_set!_ne _ _ _ _ (Ne.symm e1)]
      by_cases e0 : j = 2 * nkeys mk p
      · subst e0
        rw [RV.get!_set!_self _ _ _ (by omega)]
        simp
      · rw [RV.get!_set!_ne _ _ _ _ (Ne.symm e0), hw2 j hj]
        simp only [e0, e1, if_false]

theorem ents_eq_of {p' : Page} {es' : List (Key × Val)} (hn : nkeys mk p' = es'.length)
    (h : ∀ i, i < es'.length → es'[i]? = some (keyW p' i, valW p' i)) : ents mk p' = es' := by
  apply List.ext_getElem?
  intro i
  rw [ents_get?]
  by_cases hi : i < es'.length
  · simp only [hn, hi, if_true]; exact (h i hi).symm
  · simp only [hn, hi, if_false]
    exact (List.getElem?_eq_none (by omega)).symm

theorem keyAt_ents (i : Nat) : RV.Tree.keyAt (ents mk p) i = if i < nkeys mk p then keyW p i else 0#64 :=
  keyAt_entsUpTo _ _ _

theorem keyW_congr {p p' : Page} {i : Nat} (h : p'[2 * i]! = p[2 * i]!) : keyW p' i = keyW p i := h
theorem valW_congr {p p' : Page} {i : Nat} (h : p'[2 * i + 1]! = p[2 * i + 1]!) : valW p' i = valW p i := h

/-- Refinement of `node.set`, the returning half. -/
theorem set_some (hok : PageOk mk p) (hmk : mk < 2 ^ 15) (k v : BitVec 64)
    (es' : List (Key × Val)) (added : Nat)
    (h : RV.Tree.nodeSet mk (ents mk p) k v = some (es', added)) :
    ∃ p', Gen.Node.set p (w mk) k v = some (p', w added) ∧ p'.size = p.size ∧ ents mk p' = es' ∧
      nkeys mk p' = es'.length ∧ nkeys mk p' ≤ mk ∧
      pidW mk p' = pidW mk p ∧ kindBits mk p' = kindBits mk p ∧ leafBit mk p' = leafBit mk p ∧
      (∀ i, i < mk → nkeys mk p' ≤ i → keyW p' i = 0#64 ∧ valW p' i = 0#64) := by
  obtain ⟨hs, hn, hnz, _, hzero⟩ := hok
  obtain ⟨hlt, hfullA, hmoveA, hwrite, hcases⟩ := nodeSet_some_inv mk _ k v es' added h
  have hlen := ents_length mk p
  have hle := RV.Tree.search_le_length (ents mk p) k
  rw [hlen] at hle hfullA hmoveA hcases
  have hka : RV.Tree.keyAt (ents mk p) (RV.Tree.search (ents mk p) k) = keyW p (RV.Tree.search (ents mk p) k) := by
    rw [keyAt_ents]
    split
    · rfl
    · exact ((hzero _ hlt (by omega)).1).symm
  rw [hka] at hfullA hmoveA hwrite hcases
  rcases hcases with ⟨hidx, hmove, hnew, hes, hadd⟩ | ⟨hidx, hmove, hnew, hes, hadd⟩ | ⟨hidx, hmove, hnew, hes, hadd⟩
  · -- insert before a larger key
    have hnm : nkeys mk p < mk := by
      have := hmoveA hmove
      unfold moveRightAssert at this
      rw [bne, w_beq (by omega) (by omega)] at this
      simp at this; omega
    unfold setMove at hmove
    obtain ⟨p', hp, hsz, hmeta, hw⟩ := set_insert hs hmk k v hidx hnm hmove
    generalize RV.Tree.search (ents mk p) k = idx at *
    have hnk : nkeys mk p' = nkeys mk p + 1 := nkeys_of_meta hmeta (by omega)
    subst hadd
    refine ⟨p', hp, hsz, ?_, ?_, by omega, ?_, kindBits_of_meta hmeta (by omega), leafBit_of_meta hmeta (by omega), ?_⟩
    · apply ents_eq_of
      · rw [hnk, hes]; simp; omega
      · intro i hi
        rw [hes] at hi ⊢
        simp only [List.length_append, List.length_take, List.length_cons, List.length_drop, hlen] at hi
        unfold keyW valW
        rw [hw (2 * i) (by omega), hw (2 * i + 1) (by omega)]
        rcases Nat.lt_trichotomy i idx with h1 | h1 | h1
        · rw [List.getElem?_append_left (by simp; omega), List.getElem?_take_of_lt h1, ents_get?]
          simp only [show i < nkeys mk p by omega, if_true, show ¬ 2 * i = 2 * idx by omega,
            show ¬ 2 * i = 2 * idx + 1 by omega, show ¬ 2 * i + 1 = 2 * idx by omega, show ¬ 2 * i + 1 = 2 * idx + 1 by omega,
            show ¬ (2 * idx + 2 ≤ 2 * i ∧ 2 * i < 2 * nkeys mk p + 2) by omega,
            show ¬ (2 * idx + 2 ≤ 2 * i + 1 ∧ 2 * i + 1 < 2 * nkeys mk p + 2) by omega, if_false]
          rfl
        · subst h1
          rw [List.getElem?_append_right (by simp; omega)]
          simp [show min i (ents mk p).length = i by rw [hlen]; omega]
        · rw [List.getElem?_append_right (by simp; omega)]
          simp only [List.length_take, hlen, show min idx (nkeys mk p) = idx by omega]
          obtain ⟨d, hd⟩ : ∃ d, i - idx = d + 1 := ⟨i - idx - 1, by omega⟩
          rw [hd, List.getElem?_cons_succ, List.getElem?_drop, ents_get?]
          simp only [show idx + d < nkeys mk p by omega, if_true, show ¬ 2 * i = 2 * idx by omega,
            show ¬ 2 * i = 2 * idx + 1 by omega, show ¬ 2 * i + 1 = 2 * idx by omega, show ¬ 2 * i + 1 = 2 * idx + 1 by omega,
            show (2 * idx + 2 ≤ 2 * i ∧ 2 * i < 2 * nkeys mk p + 2) by omega,
            show (2 * idx + 2 ≤ 2 * i + 1 ∧ 2 * i + 1 < 2 * nkeys mk p + 2) by omega, if_false]
          unfold keyW valW
          congr 3 <;> omega
    · rw [hnk, hes]; simp; omega
    · unfold pidW; rw [hw (2 * mk) (by omega)]
      simp only [show ¬ 2 * mk = 2 * idx by omega, show ¬ 2 * mk = 2 * idx + 1 by omega,
        show ¬ (2 * idx + 2 ≤ 2 * mk ∧ 2 * mk < 2 * nkeys mk p + 2) by omega, if_false]
    · intro i hi hni
      rw [hnk] at hni
      obtain ⟨z1, z2⟩ := hzero i hi (by omega)
      simp only [keyW, valW] at z1 z2 ⊢
      rw [hw (2 * i) (by omega), hw (2 * i + 1) (by omega)]
      simp only [show ¬ 2 * i = 2 * idx by omega,
        show ¬ 2 * i = 2 * idx + 1 by omega, show ¬ 2 * i + 1 = 2 * idx by omega, show ¬ 2 * i + 1 = 2 * idx + 1 by omega,
        show ¬ (2 * idx + 2 ≤ 2 * i ∧ 2 * i < 2 * nkeys mk p + 2) by omega,
        show ¬ (2 * idx + 2 ≤ 2 * i + 1 ∧ 2 * i + 1 < 2 * nkeys mk p + 2) by omega, if_false]
      exact ⟨z1, z2⟩
  · -- overwrite
    have hk : keyW p (RV.Tree.search (ents mk p) k) = k := by
      unfold setIsNew at hnew; simpa [bne] using hnew
    have hp := set_overwrite hs hmk hn k v hidx hk
    generalize RV.Tree.search (ents mk p) k = idx at *
    subst hadd
    have hmeta : metaW mk ((p.set! (2 * idx) k).set! (2 * idx + 1) v) = metaW mk p := by
      unfold metaW
      rw [RV.get!_set!_ne _ _ _ _ (by omega), RV.get!_set!_ne _ _ _ _ (by omega)]
    have hnk : nkeys mk ((p.set! (2 * idx) k).set! (2 * idx + 1) v) = nkeys mk p := by unfold nkeys; rw [hmeta]
    have hwords : ∀ j, j ≠ 2 * idx → j ≠ 2 * idx + 1 → ((p.set! (2 * idx) k).set! (2 * idx + 1) v)[j]! = p[j]! := by
      intro j h1 h2
      rw [RV.get!_set!_ne _ _ _ _ (Ne.symm h2), RV.get!_set!_ne _ _ _ _ (Ne.symm h1)]
    refine ⟨_, hp, by rw [RV.size_set!, RV.size_set!], ?_, ?_, by omega, ?_, ?_, ?_, ?_⟩
    · apply ents_eq_of
      · rw [hnk, hes]; simp [hlen]
      · intro i hi
        rw [hes] at hi ⊢
        simp only [List.length_set, hlen] at hi
        rw [List.getElem?_set]
        by_cases h1 : idx = i
        · subst h1
          simp only [if_true, hlen, hi]
          unfold keyW valW
          rw [RV.get!_set!_ne _ _ _ _ (by omega), RV.get!_set!_self _ _ _ (by omega),
            RV.get!_set!_self _ _ _ (by rw [RV.size_set!]; omega)]
        · simp only [h1, if_false]
          rw [ents_get?]
          simp only [hi, if_true]
          unfold keyW valW
          rw [hwords (2 * i) (by omega) (by omega), hwords (2 * i + 1) (by omega) (by omega)]
    · rw [hnk, hes]; simp [hlen]
    · unfold pidW; rw [hwords _ (by omega) (by omega)]
    · unfold kindBits; rw [hmeta]
    · unfold leafBit; rw [hmeta]
    · intro i hi hni
      rw [hnk] at hni
      obtain ⟨z1, z2⟩ := hzero i hi hni
      simp only [keyW, valW] at z1 z2 ⊢
      rw [hwords (2 * i) (by omega) (by omega), hwords (2 * i + 1) (by omega) (by omega)]
      exact ⟨z1, z2⟩
  · -- append into the zeroed slot behind the last key
    have hidx' : RV.Tree.search (ents mk p) k = nkeys mk p := by omega
    rw [hidx'] at hnew hlt
    have hz := (hzero (nkeys mk p) hlt (Nat.le_refl _)).1
    have hk0 : k ≠ 0#64 := by
      rw [hz] at hnew; unfold setIsNew at hnew
      intro e; rw [e] at hnew; simp at hnew
    obtain ⟨p', hp, hsz, hmeta, hw⟩ := set_append hs hmk k v hk0 hidx' hlt hz
    have hnk : nkeys mk p' = nkeys mk p + 1 := nkeys_of_meta hmeta (by omega)
    subst hadd
    refine ⟨p', hp, hsz, ?_, ?_, by omega, ?_, kindBits_of_meta hmeta (by omega), leafBit_of_meta hmeta (by omega), ?_⟩
    · apply ents_eq_of
      · rw [hnk, hes]; simp [hlen]
      · intro i hi
        rw [hes] at hi ⊢
        simp only [List.length_append, List.length_cons, List.length_nil, hlen] at hi
        unfold keyW valW
        rw [hw (2 * i) (by omega), hw (2 * i + 1) (by omega)]
        by_cases h1 : i < nkeys mk p
        · rw [List.getElem?_append_left (by rw [hlen]; exact h1), ents_get?]
          simp only [h1, if_true, show ¬ 2 * i = 2 * nkeys mk p by omega, show ¬ 2 * i = 2 * nkeys mk p + 1 by omega,
            show ¬ 2 * i + 1 = 2 * nkeys mk p by omega, show ¬ 2 * i + 1 = 2 * nkeys mk p + 1 by omega, if_false]
          rfl
        · have : i = nkeys mk p := by omega
          subst this
          rw [List.getElem?_append_right (by rw [hlen]; omega)]
          simp [hlen]
    · rw [hnk, hes]; simp [hlen]
    · unfold pidW; rw [hw (2 * mk) (by omega)]
      simp only [show ¬ 2 * mk = 2 * nkeys mk p by omega, show ¬ 2 * mk = 2 * nkeys mk p + 1 by omega, if_false]
    · intro i hi hni
      rw [hnk] at hni
      obtain ⟨z1, z2⟩ := hzero i hi (by omega)
      simp only [keyW, valW] at z1 z2 ⊢
      rw [hw (2 * i) (by omega), hw (2 * i + 1) (by omega)]
      simp only [show ¬ 2 * i = 2 * nkeys mk p by omega, show ¬ 2 * i = 2 * nkeys mk p + 1 by omega,
        show ¬ 2 * i + 1 = 2 * nkeys mk p by omega, show ¬ 2 * i + 1 = 2 * nkeys mk p + 1 by omega, if_false]
      exact ⟨z1, z2⟩

/-! ## `PageOk` and the list-level ordering predicate of the tree proofs -/

theorem keyAt_cons_succ {β : Type} (e : Key × β) (r : List (Key × β)) (i : Nat) :
    RV.Tree.keyAt (e :: r) (i + 1) = RV.Tree.keyAt r i := by simp [RV.Tree.keyAt]

theorem sortedFrom_iff_get {β : Type} (lo : Key) (es : List (Key × β)) :
    SortedFrom lo es ↔ ∀ i, i < es.length → (if i = 0 then lo else RV.Tree.keyAt es (i - 1)) < RV.Tree.keyAt es i := by
  induction es generalizing lo with
  | nil => simp [SortedFrom]
  | cons e rest ih =>
    simp only [SortedFrom, ih e.1]
    constructor
    · intro ⟨h0, hr⟩ i hi
      cases i with
      | zero => simpa [RV.Tree.keyAt_cons_zero] using h0
      | succ j =>
        have := hr j (by simpa using hi)
        rw [keyAt_cons_succ]
        cases j with
        | zero => simpa [RV.Tree.keyAt_cons_zero] using this
        | succ j' => simpa [keyAt_cons_succ] using this
    · intro h
      refine ⟨by simpa [RV.Tree.keyAt_cons_zero] using h 0 (by simp), ?_⟩
      intro j hj
      have := h (j + 1) (by simpa using hj)
      rw [keyAt_cons_succ] at this
      cases j with
      | zero => simpa [RV.Tree.keyAt_cons_zero] using this
      | succ j' => simpa [keyAt_cons_succ] using this

/-- `PageOk` in terms of the ordering predicate `SortedFrom` used by the C10 proofs. -/
theorem pageOk_iff : PageOk mk p ↔
    p.size = 2 * (mk + 1) ∧ nkeys mk p ≤ mk ∧ SortedFrom 0#64 (ents mk p) ∧
    (∀ i, i < mk → nkeys mk p ≤ i → keyW p i = 0#64 ∧ valW p i = 0#64) := by
  unfold PageOk
  rw [sortedFrom_iff_get, ents_length]
  constructor
  · intro ⟨h1, h2, h3, h4, h5⟩
    refine ⟨h1, h2, ?_, h5⟩
    intro i hi
    simp only [keyAt_ents]
    cases i with
    | zero =>
      have := h3 0 hi
      simp only [hi, ↓reduceIte]
      bv_omega
    | succ j =>
      simp only [hi, show j + 1 ≠ 0 by omega, if_false, show j + 1 - 1 = j by omega, show j < nkeys mk p by omega, if_true]
      exact h4 j (by omega) hi
  · intro ⟨h1, h2, h3, h5⟩
    have hpos : ∀ i, i < nkeys mk p → 0#64 < keyW p i := by
      intro i
      induction i with
      | zero =>
        intro hi
        have := h3 0 hi
        rw [keyAt_ents] at this
        simpa [hi] using this
      | succ j ih =>
        intro hi
        have := h3 (j + 1) hi
        rw [keyAt_ents, keyAt_ents] at this
        simp only [show j + 1 ≠ 0 by omega, if_false, show j + 1 - 1 = j by omega, show j < nkeys mk p by omega,
          if_true, hi] at this
        have := ih (by omega)
        bv_omega
    refine ⟨h1, h2, ?_, ?_, h5⟩
    · intro i hi e
      have := hpos i hi
      rw [e] at this
      simp at this
    · intro i hi hi1
      have := h3 (i + 1) hi1
      rw [keyAt_ents, keyAt_ents] at this
      simpa [hi, hi1] using this

/-- the key `search` stops at is `≥ k` -/
theorem search_ge {β : Type} (es : List (Key × β)) (k : Key) (h : RV.Tree.search es k < es.length) :
    k ≤ RV.Tree.keyAt es (RV.Tree.search es k) := by
  induction es with
  | nil => simp at h
  | cons e rest ih =>
    obtain ⟨ki, x⟩ := e
    simp only [RV.Tree.search] at h ⊢
    by_cases hc : searchHit ki k = true
    · simp only [hc, if_true, RV.Tree.keyAt_cons_zero]
      exact BitVec.ule_iff_le.mp hc
    · simp only [hc, Bool.false_eq_true, if_false] at h ⊢
      rw [keyAt_cons_succ]
      exact ih (by simpa using h)

/-- Refinement of `node.set`, the panicking half: the full-node assertion.  (`k = 0` is excluded:
`Tree.Set` refuses it, and on an empty slot the flat code would store it.) -/
theorem set_none (hok : PageOk mk p) (hmk : mk < 2 ^ 15) (k v : BitVec 64) (hk0 : k ≠ 0#64)
    (hlt : RV.Tree.search (ents mk p) k < mk)
    (h : RV.Tree.nodeSet mk (ents mk p) k v = none) :
    Gen.Node.set p (w mk) k v = none := by
  obtain ⟨hs, hn, hnz, _, hzero⟩ := hok
  have h64 : p.size ≤ 2 ^ 64 := by omega
  have hlen := ents_length mk p
  have hle := RV.Tree.search_le_length (ents mk p) k
  have hge := search_ge (ents mk p) k
  rw [hlen] at hle hge
  have hka : RV.Tree.keyAt (ents mk p) (RV.Tree.search (ents mk p) k) = keyW p (RV.Tree.search (ents mk p) k) := by
    rw [keyAt_ents]
    split
    · rfl
    · exact ((hzero _ hlt (by omega)).1).symm
  unfold RV.Tree.nodeSet at h
  simp only [hka, hlen] at h hge
  generalize hidx : RV.Tree.search (ents mk p) k = idx at *
  simp only [show ¬ idx ≥ mk by omega, if_false] at h
  by_cases h2 : (setFull (w (nkeys mk p)) (w mk) && !setFullAssert (keyW p idx) k) = true
  · -- the assertion of a full node fails
    simp only [Bool.and_eq_true, Bool.not_eq_true'] at h2
    unfold setFull setFullAssert at h2
    unfold Gen.Node.set
    simp only [search_w hs hmk hn, hidx, Option.bind_some, key_w (show 2 * idx < p.size by omega) h64,
      numKeys_w hs h64, h2.1, h2.2, if_true, guard_false, Option.bind_none]
  · exfalso
    simp only [h2, Bool.false_eq_true, if_false] at h
    have hfa : setFull (w (nkeys mk p)) (w mk) = true → setFullAssert (keyW p idx) k = true := by
      intro hf; simpa [hf] using h2
    by_cases hi : idx < nkeys mk p
    · have hkle := hge hi
      have hnz' := hnz idx hi
      by_cases hm : setMove (keyW p idx) k = true
      · -- moved: the node must have room
        have hne : keyW p idx ≠ k := by
          intro e; unfold setMove at hm; rw [e] at hm; simp [BitVec.ult] at hm
        have hmr : moveRightAssert (w (nkeys mk p)) (w mk) = true := by
          unfold moveRightAssert
          rw [bne, w_beq (by omega) (by omega)]
          by_cases hf : nkeys mk p = mk
          · have := hfa (by unfold setFull; rw [w_beq (by omega) (by omega)]; simp [hf])
            unfold setFullAssert at this
            exact absurd (by simpa using this) hne
          · simp [hf]
        have hnew : setIsNew (keyW p idx) k = true := by unfold setIsNew; simp [bne, hne]
        have hw : setWrite (keyW p idx) k = true := by
          unfold setWrite; simp [BitVec.ule_iff_le.mpr hkle]
        simp [hm, hmr, hnew, hw, hi] at h
      · have hm' : setMove (keyW p idx) k = false := by simpa using hm
        have heq : keyW p idx = k := by
          unfold setMove at hm'
          have : ¬ k < keyW p idx := fun hc => by simp [BitVec.ult_iff_lt.mpr hc] at hm'
          bv_omega
        have hnew : setIsNew (keyW p idx) k = false := by unfold setIsNew; simp [bne, heq]
        have hw : setWrite (keyW p idx) k = true := by
          unfold setWrite; simp [BitVec.ule_iff_le.mpr hkle]
        simp [hm', hnew, hw, hi] at h
    · have hin : idx = nkeys mk p := by omega
      have hz : keyW p idx = 0#64 := (hzero idx hlt (by omega)).1
      have hm' : setMove (keyW p idx) k = false := by unfold setMove; rw [hz]; simp [BitVec.ult]
      have hnew : setIsNew (keyW p idx) k = true := by
        unfold setIsNew; rw [hz]; simp [bne]; exact fun e => hk0 e.symm
      have hw : setWrite (keyW p idx) k = true := by unfold setWrite; rw [hz]; simp
      simp [hm', hnew, hw, hi] at h

/-- `node.set` keeps the page well-formed (`k ≠ 0`). -/
theorem set_pageOk (hok : PageOk mk p) (hmk : mk < 2 ^ 15) (k v : BitVec 64) (hk0 : k ≠ 0#64)
    (es' : List (Key × Val)) (added : Nat)
    (h : RV.Tree.nodeSet mk (ents mk p) k v = some (es', added)) (p' : Page) (r : BitVec 64)
    (hp : Gen.Node.set p (w mk) k v = some (p', r)) : PageOk mk p' := by
  obtain ⟨q, hq, hsz, hents, hnk, hnle, _, _, _, hz⟩ := set_some hok hmk k v es' added h
  rw [hq] at hp
  injection hp with hp
  injection hp with hp1 hp2
  subst hp1
  have hok' := pageOk_iff.mp hok
  obtain ⟨hs, hn, hsorted, hzero⟩ := hok'
  apply pageOk_iff.mpr
  refine ⟨by omega, hnle, ?_, hz⟩
  rw [hents]
  -- es' is the sorted insertion
  obtain ⟨hlt, hfullA, _, _, _⟩ := nodeSet_some_inv mk _ k v es' added h
  have hlen := ents_length mk p
  have hins := RV.Tree.nodeSet_eq_ins mk (ents mk p) k v 0#64 hsorted (by bv_omega) (by omega) (by
    rw [hlen]
    by_cases hf : nkeys mk p < mk
    · exact Or.inl hf
    · right
      have hnm : nkeys mk p = mk := by omega
      have := hfullA (by unfold setFull; rw [hlen, w_beq (by omega) (by omega)]; simp [hnm])
      unfold setFullAssert at this
      refine ⟨RV.Tree.hasKey_iff.mpr ?_, by omega⟩
      have hidx : RV.Tree.search (ents mk p) k < (ents mk p).length := by rw [hlen]; omega
      refine ⟨(ents mk p)[RV.Tree.search (ents mk p) k], List.getElem_mem hidx, ?_⟩
      have hk : RV.Tree.keyAt (ents mk p) (RV.Tree.search (ents mk p) k) = k := by simpa using this
      unfold RV.Tree.keyAt at hk
      rw [List.getElem?_eq_getElem hidx] at hk
      exact hk)
  rw [hins] at h
  injection h with h
  injection h with h1 h2
  rw [← h1]
  exact RV.Tree.ins_sorted hsorted (by bv_omega) v


end RV.NodeFlat
