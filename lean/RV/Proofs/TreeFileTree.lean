import RV.Proofs.TreePids
import RV.Model.TreeFile
/-!
# C16, part 1: the page table of a tree decodes to the same labelled tree; the frontier scan
-/
namespace RV.Tree
open Gen.Tree

/-! ## `findNode` finds exactly the reachable pages -/

mutual
theorem findNode_none : ∀ (n : Node) (q : Nat), q ∉ pids n → findNode n q = none
  | .null, _, _ => by rw [findNode]
  | .leaf p es, q, h => by
    rw [findNode]
    have : p ≠ q := by intro e; apply h; simp [pids, e]
    simp [this]
  | .inner p es, q, h => by
    rw [findNode]
    have hp : p ≠ q := by intro e; apply h; simp [pids, e]
    have he : q ∉ pidsEnts es := by intro e; apply h; simp [pids, e]
    simp only [hp, if_false]
    exact findEnts_none es q he
theorem findEnts_none : ∀ (es : List (Key × Node)) (q : Nat), q ∉ pidsEnts es → findEnts es q = none
  | [], _, _ => by rw [findEnts]
  | (k, c) :: rest, q, h => by
    rw [findEnts]
    have hc : q ∉ pids c := by intro e; apply h; simp [pidsEnts, e]
    have hr : q ∉ pidsEnts rest := by intro e; apply h; simp [pidsEnts, e]
    rw [findNode_none c q hc]
    exact findEnts_none rest q hr
end

/-! ## `Encoded g n`: the page function `g` holds the image of every node below `n` -/

mutual
def Encoded (g : Nat → Page) : Node → Prop
  | .null => True
  | .leaf p es => g p = .node true es
  | .inner p es => g p = .node false (entWords es) ∧ EncodedEnts g es
def EncodedEnts (g : Nat → Page) : List (Key × Node) → Prop
  | [] => True
  | (_, c) :: rest => Encoded g c ∧ EncodedEnts g rest
end

mutual
theorem encoded_of_find (g : Nat → Page) : ∀ (n : Node), (pids n).Nodup →
    (∀ q pg, findNode n q = some pg → g q = pg) → Encoded g n
  | .null, _, _ => trivial
  | .leaf p es, _, h => by
    rw [Encoded]
    exact h p _ (by rw [findNode]; simp)
  | .inner p es, hnd, h => by
    rw [Encoded]
    refine ⟨h p _ (by rw [findNode]; simp), ?_⟩
    have hnd' : (p :: pidsEnts es).Nodup := by simpa [pids] using hnd
    have hp : p ∉ pidsEnts es := (List.nodup_cons.mp hnd').1
    apply encodedEnts_of_find g es (List.nodup_cons.mp hnd').2
    intro q pg hq
    apply h q pg
    have hmem : q ∈ pidsEnts es := by
      apply Classical.byContradiction
      intro hn
      rw [findEnts_none es q hn] at hq
      cases hq
    have hpq : p ≠ q := by intro e; rw [e] at hp; exact hp hmem
    rw [findNode]; simp only [hpq, if_false]; exact hq
theorem encodedEnts_of_find (g : Nat → Page) : ∀ (es : List (Key × Node)), (pidsEnts es).Nodup →
    (∀ q pg, findEnts es q = some pg → g q = pg) → EncodedEnts g es
  | [], _, _ => trivial
  | (k, c) :: rest, hnd, h => by
    rw [EncodedEnts]
    have hnd' : (pids c ++ pidsEnts rest).Nodup := by simpa [pidsEnts] using hnd
    have ⟨n1, n2, n3⟩ := List.nodup_append.mp hnd'
    constructor
    · apply encoded_of_find g c n1
      intro q pg hq
      apply h q pg
      rw [findEnts, hq]
    · apply encodedEnts_of_find g rest n2
      intro q pg hq
      apply h q pg
      have hmem : q ∈ pidsEnts rest := by
        apply Classical.byContradiction
        intro hn
        rw [findEnts_none rest q hn] at hq
        cases hq
      have hc : q ∉ pids c := fun hqc => n3 q hqc q hmem rfl
      rw [findEnts, findNode_none c q hc]
      exact hq
end

/-- the page table of a tree with distinct live page ids holds the image of every node -/
theorem encoded_encodePage (t : Tree) (hnd : (pids t.root).Nodup) : Encoded (encodePage t) t.root := by
  apply encoded_of_find _ _ hnd
  intro q pg hq
  unfold encodePage
  rw [hq]

/-! ## decoding -/

mutual
def height : Node → Nat
  | .null => 0
  | .leaf _ _ => 1
  | .inner _ es => heightEnts es + 1
def heightEnts : List (Key × Node) → Nat
  | [] => 0
  | (_, c) :: rest => max (height c) (heightEnts rest)
end

mutual
theorem height_le_pids : ∀ (n : Node), height n ≤ (pids n).length
  | .null => by simp [height]
  | .leaf _ _ => by simp [height, pids]
  | .inner _ es => by
    have := heightEnts_le_pids es
    simp [height, pids]; omega
theorem heightEnts_le_pids : ∀ (es : List (Key × Node)), heightEnts es ≤ (pidsEnts es).length
  | [] => by simp [heightEnts]
  | (_, c) :: rest => by
    have := height_le_pids c
    have := heightEnts_le_pids rest
    simp [heightEnts, pidsEnts]; omega
end

mutual
theorem decode_encoded (g : Nat → Page) (mk : Nat) : ∀ (n : Node) (b : Nat) (lo hi : Key) (fuel : Nat),
    okNode mk b n lo hi → (∀ p ∈ pids n, PosPid p) → Encoded g n → height n ≤ fuel →
    decode g fuel n.pid = some n
  | .null, _, _, _, _, h, _, _, _ => absurd h id
  | .leaf p es, _, _, _, fuel, _, _, he, hf => by
    cases fuel with
    | zero => simp [height] at hf
    | succ fuel =>
      rw [Encoded] at he
      simp only [Node.pid, decode, he]
  | .inner p es, _, lo, _, fuel, h, hp, he, hf => by
    cases fuel with
    | zero => simp [height] at hf
    | succ fuel =>
      rw [Encoded] at he
      have hpe : ∀ q ∈ pidsEnts es, PosPid q := fun q hq => hp q (by simp [pids, hq])
      have := decodeEnts_encoded g mk es lo fuel h.1 hpe he.2 (by simp [height] at hf; omega)
      simp only [Node.pid, decode, he.1, this, Option.map]
theorem decodeEnts_encoded (g : Nat → Page) (mk : Nat) : ∀ (es : List (Key × Node)) (lo : Key) (fuel : Nat),
    okEnts mk es lo → (∀ p ∈ pidsEnts es, PosPid p) → EncodedEnts g es → heightEnts es ≤ fuel →
    decodeEnts (decode g fuel) (entWords es) = some es
  | [], _, _, _, _, _, _ => by rw [entWords, decodeEnts]
  | (k, c) :: rest, lo, fuel, h, hp, he, hf => by
    rw [EncodedEnts] at he
    have hlok := okNode_lo_lt_hi h.1
    have hstop : iterStop k = false := by unfold iterStop; simp; bv_omega
    have hcne : c ≠ .null := okNode_ne_null h.1
    have hpc : ∀ q ∈ pids c, PosPid q := fun q hq => hp q (by simp [pidsEnts, hq])
    have hpr : ∀ q ∈ pidsEnts rest, PosPid q := fun q hq => hp q (by simp [pidsEnts, hq])
    have hpos := hpc _ (pid_mem_pids hcne)
    have hw : childWord c ≠ 0#64 := by
      unfold childWord
      intro e
      have := congrArg BitVec.toNat e
      rw [w_toNat hpos.2] at this
      simp at this; have := hpos.1; omega
    have hwn : (childWord c).toNat = c.pid := by unfold childWord; exact w_toNat hpos.2
    have hc := decode_encoded g mk c (mk - 1) lo k fuel h.1 hpc he.1 (by simp [heightEnts] at hf; omega)
    have hr := decodeEnts_encoded g mk rest k fuel h.2 hpr he.2 (by simp [heightEnts] at hf; omega)
    rw [entWords, decodeEnts]
    simp only [hstop, Bool.false_eq_true, if_false, beq_iff_eq, hw, hwn, hc, hr]
end

/-! ## the frontier scan -/

mutual
theorem findNode_some : ∀ (n : Node) (q : Nat), q ∈ pids n → ∃ l es, findNode n q = some (.node l es)
  | .null, _, h => by simp [pids] at h
  | .leaf p es, q, h => by
    have : p = q := by simp [pids] at h; exact h.symm
    exact ⟨true, es, by rw [findNode]; simp [this]⟩
  | .inner p es, q, h => by
    rw [findNode]
    by_cases hp : p = q
    · exact ⟨false, entWords es, by simp [hp]⟩
    · simp only [hp, if_false]
      have : q ∈ pidsEnts es := by
        simp [pids] at h
        rcases h with h | h
        · exact absurd h.symm hp
        · exact h
      exact findEnts_some es q this
theorem findEnts_some : ∀ (es : List (Key × Node)) (q : Nat), q ∈ pidsEnts es → ∃ l es', findEnts es q = some (.node l es')
  | [], _, h => by simp [pidsEnts] at h
  | (k, c) :: rest, q, h => by
    rw [findEnts]
    by_cases hc : q ∈ pids c
    · obtain ⟨l, es', e⟩ := findNode_some c q hc
      exact ⟨l, es', by rw [e]⟩
    · rw [findNode_none c q hc]
      have : q ∈ pidsEnts rest := by
        simp [pidsEnts] at h
        rcases h with h | h
        · exact absurd h hc
        · exact h
      exact findEnts_some rest q this
end

theorem freeNext_none : ∀ (F : List Nat) (q : Nat), q ∉ F → freeNext F q = none
  | [], _, _ => rfl
  | p :: rest, q, h => by
    have hp : p ≠ q := by intro e; apply h; simp [e]
    have hr : q ∉ rest := by intro e; apply h; simp [e]
    simp only [freeNext, hp, if_false]
    exact freeNext_none rest q hr

theorem freeNext_some : ∀ (F : List Nat) (q : Nat), q ∈ F → ∃ nx, freeNext F q = some nx
  | [], _, h => by cases h
  | p :: rest, q, h => by
    by_cases hp : p = q
    · simp only [freeNext, hp, if_true]; exact ⟨_, rfl⟩
    · simp only [freeNext, hp, if_false]
      have : q ∈ rest := by
        rcases List.mem_cons.mp h with h | h
        · exact absurd h.symm hp
        · exact h
      exact freeNext_some rest q this

/-- pages below the frontier are in use, the page at the frontier was never handed out -/
theorem encodePage_used (t : Tree) (hp : PidInv t) (q : Nat) :
    (1 ≤ q ∧ q < t.a.nextPage → encodePage t q ≠ Page.unused) ∧
    (¬ (1 ≤ q ∧ q < t.a.nextPage) → encodePage t q = Page.unused) := by
  have hm := hp.mem_iff q
  constructor
  · intro hq
    have := hm.mpr hq
    unfold encodePage
    by_cases hr : q ∈ pids t.root
    · obtain ⟨l, es, e⟩ := findNode_some t.root q hr
      rw [e]; intro h; cases h
    · rw [findNode_none t.root q hr]
      have hf : q ∈ t.a.free := by
        rcases List.mem_append.mp this with h | h
        · exact absurd h hr
        · exact h
      obtain ⟨nx, e⟩ := freeNext_some t.a.free q hf
      rw [e]; intro h; cases h
  · intro hq
    have hn : q ∉ pids t.root ++ t.a.free := fun h => hq (hm.mp h)
    have h1 : q ∉ pids t.root := fun h => hn (List.mem_append_left _ h)
    have h2 : q ∉ t.a.free := fun h => hn (List.mem_append_right _ h)
    unfold encodePage
    rw [findNode_none t.root q h1, freeNext_none t.a.free q h2]


theorem pageFits_eq {n ps dataLen : Nat} (h1 : (n + 1) * ps < 2 ^ 63) (h2 : dataLen < 2 ^ 63) :
    pageFits (w n) (w ps) dataLen = decide ((n + 1) * ps ≤ dataLen) := by
  rw [pageFits_eq_fast]
  unfold pageFitsFast
  rw [w_add_one, w_mul, w_sle h1 h2]

/-- the hypotheses of the round trip about the file: it is large enough for the pages in use
(the code guarantees this: `newNode` grows the buffer before using a page) and small enough for
Go's `int` -/
structure FileOk (cfg : Cfg) (t : Tree) : Prop where
  ps_pos : 0 < cfg.pageSize
  ps_lt : cfg.pageSize < 2 ^ 40
  sz_lt : t.a.curSz < 2 ^ 62
  sz_ge : 8 ≤ t.a.curSz
  fits : t.a.nextPage * cfg.pageSize ≤ t.a.curSz - 8

theorem scanFrontier_eq {cfg : Cfg} (t : Tree) (hp : PidInv t) (hf : FileOk cfg t) :
    ∀ (d n fuel : Nat), n + d = t.a.nextPage → d + 1 ≤ fuel → 1 ≤ n →
      scanFrontier cfg (encodePage t) (t.a.curSz - 8) fuel n = t.a.nextPage := by
  have hps := hf.ps_pos
  have hpl := hf.ps_lt
  have hsz := hf.sz_lt
  have hfit := hf.fits
  have hnp : t.a.nextPage ≤ t.a.curSz - 8 := by
    calc t.a.nextPage = t.a.nextPage * 1 := by omega
      _ ≤ t.a.nextPage * cfg.pageSize := Nat.mul_le_mul_left _ hps
      _ ≤ _ := hfit
  intro d
  induction d with
  | zero =>
    intro n fuel hn hfu h1
    have hn' : n = t.a.nextPage := by omega
    subst hn'
    cases fuel with
    | zero => omega
    | succ fuel =>
      rw [scanFrontier]
      have hun : encodePage t t.a.nextPage = Page.unused := (encodePage_used t hp _).2 (by omega)
      split
      · simp [hun, Page.pageId, reinitUnused]
      · rfl
  | succ d ih =>
    intro n fuel hn hfu h1
    cases fuel with
    | zero => omega
    | succ fuel =>
      rw [scanFrontier]
      have hlt : n < t.a.nextPage := by omega
      have hmul : (n + 1) * cfg.pageSize ≤ t.a.nextPage * cfg.pageSize := Nat.mul_le_mul_right _ (by omega)
      have hfits : pageFits (w n) (w cfg.pageSize) (t.a.curSz - 8) = true := by
        rw [pageFits_eq (by omega) (by omega)]; simp; omega
      have hused := (encodePage_used t hp n).1 ⟨h1, hlt⟩
      have hid : reinitUnused ((encodePage t n).pageId n) = false := by
        unfold reinitUnused Page.pageId
        cases hpg : encodePage t n with
        | unused => exact absurd hpg hused
        | free nx =>
          simp
          intro e
          have := congrArg BitVec.toNat e
          rw [w_toNat (by omega)] at this
          simp at this; omega
        | node l es =>
          simp
          intro e
          have := congrArg BitVec.toNat e
          rw [w_toNat (by omega)] at this
          simp at this; omega
      simp only [hfits, hid, if_true, Bool.false_eq_true, if_false]
      exact ih (n + 1) fuel (by omega) (by omega) (by omega)

end RV.Tree
