import RV.Proofs.CacheFifoStore
/-!
# Where conflicts come from (used with `CollisionFree`), and what the applier holds

`ItemInv`: every store entry, every pending item and every client inside a `Set`/`Del` carries a
(hash, conflict) pair that a logged `setCall`/`delCall` supplied; the item in the applier's
`added` state is a new-item; in `tombPolicy` it is a tombstone whose key is not accounted.
-/
namespace RV.Cache
open Gen.Cache

def SetCalled (log : List Ev) (h : Hash) (c : Conf) : Prop := ∃ t v cost ttl, Ev.setCall t h c v cost ttl ∈ log
def DelCalled (log : List Ev) (h : Hash) (c : Conf) : Prop := ∃ t, Ev.delCall t h c ∈ log

theorem SetCalled.mono {l : List Ev} {h : Hash} {c : Conf} (hc : SetCalled l h c) (evs : List Ev) :
    SetCalled (evs ++ l) h c := by
  obtain ⟨t, v, cost, ttl, hm⟩ := hc; exact ⟨t, v, cost, ttl, List.mem_append.mpr (Or.inr hm)⟩
theorem DelCalled.mono {l : List Ev} {h : Hash} {c : Conf} (hc : DelCalled l h c) (evs : List Ev) :
    DelCalled (evs ++ l) h c := by
  obtain ⟨t, hm⟩ := hc; exact ⟨t, List.mem_append.mpr (Or.inr hm)⟩

def ItemCalled (log : List Ev) (i : Item) : Prop :=
  (i.flag = .del → DelCalled log i.key i.conflict) ∧ (i.flag ≠ .del → SetCalled log i.key i.conflict)

theorem ItemCalled.mono {l : List Ev} {i : Item} (hc : ItemCalled l i) (evs : List Ev) : ItemCalled (evs ++ l) i :=
  ⟨fun h => (hc.1 h).mono evs, fun h => (hc.2 h).mono evs⟩

def PcCalled (log : List Ev) : CPc → Prop
  | .setStart h c _ _ _ => SetCalled log h c
  | .setUpd i => SetCalled log i.key i.conflict ∧ i.flag ≠ .del
  | .setExit i _ => SetCalled log i.key i.conflict ∧ i.flag ≠ .del
  | .setSend i => SetCalled log i.key i.conflict ∧ i.flag ≠ .del
  | .delStart h c => DelCalled log h c
  | .delExit h c _ => DelCalled log h c
  | .delSend h c => DelCalled log h c
  | _ => True

def CPc.callRel : CPc → Bool
  | .setStart .. => true | .setUpd _ => true | .setExit .. => true | .setSend _ => true
  | .delStart .. => true | .delExit .. => true | .delSend .. => true | _ => false

theorem PcCalled.of_not_rel {log : List Ev} {pc : CPc} (h : pc.callRel = false) : PcCalled log pc := by
  cases pc <;> simp_all [CPc.callRel, PcCalled]

theorem PcCalled.mono {l : List Ev} {pc : CPc} (hc : PcCalled l pc) (evs : List Ev) : PcCalled (evs ++ l) pc := by
  cases pc <;> simp only [PcCalled] at hc ⊢
  case setStart => exact hc.mono evs
  case setUpd => exact ⟨hc.1.mono evs, hc.2⟩
  case setExit => exact ⟨hc.1.mono evs, hc.2⟩
  case setSend => exact ⟨hc.1.mono evs, hc.2⟩
  case delStart => exact hc.mono evs
  case delExit => exact hc.mono evs
  case delSend => exact hc.mono evs

structure ItemInv (s : State) : Prop where
  store_called : ∀ h e, s.store.lookup h = some e → SetCalled s.log h e.conflict
  pend_called : ∀ i, .item i ∈ pending s → ItemCalled s.log i
  pc_called : ∀ t, PcCalled s.log (s.cl t)
  added_new : ∀ i vs ok, s.app = .added i vs ok → i.flag = .new
  tomb_del : ∀ i, s.app = .tombPolicy i → i.flag = .del ∧ s.pol.costs.lookup i.key = none

/-- the general preservation lemma: everything in `s'` is inherited from `s` or justified afresh -/
theorem ItemInv.mk' {s s' : State} (h : ItemInv s) {evs : List Ev} (hl : s'.log = evs ++ s.log)
    (hstore : ∀ k e, s'.store.lookup k = some e → s.store.lookup k = some e ∨ SetCalled s'.log k e.conflict)
    (hpend : ∀ i, .item i ∈ pending s' →
      (∃ i0, .item i0 ∈ pending s ∧ i0.key = i.key ∧ i0.conflict = i.conflict ∧ i0.flag = i.flag) ∨ ItemCalled s'.log i)
    (hpc : ∀ t, s'.cl t = s.cl t ∨ PcCalled s'.log (s'.cl t))
    (hadded : ∀ i vs ok, s'.app = .added i vs ok → s.app = .added i vs ok ∨ i.flag = .new)
    (htomb : ∀ i, s'.app = .tombPolicy i →
      (s.app = .tombPolicy i ∧ (s.pol.costs.lookup i.key = none → s'.pol.costs.lookup i.key = none)) ∨
      (i.flag = .del ∧ s'.pol.costs.lookup i.key = none)) : ItemInv s' := by
  constructor
  · intro k e he
    rcases hstore k e he with h1 | h1
    · rw [hl]; exact (h.store_called k e h1).mono evs
    · exact h1
  · intro i hi
    rcases hpend i hi with ⟨i0, h0, hk, hc, hf⟩ | h1
    · have := (h.pend_called i0 h0).mono evs
      rw [hl]
      unfold ItemCalled at this ⊢
      rw [← hk, ← hc, ← hf]; exact this
    · exact h1
  · intro t
    rcases hpc t with h1 | h1
    · rw [h1, hl]; exact (h.pc_called t).mono evs
    · exact h1
  · intro i vs ok ha
    rcases hadded i vs ok ha with h1 | h1
    · exact h.added_new i vs ok h1
    · exact h1
  · intro i ha
    rcases htomb i ha with ⟨h1, h2⟩ | h1
    · have := h.tomb_del i h1
      exact ⟨this.1, h2 this.2⟩
    · exact h1

/-- one client thread moves; store, queue, applier and the accounted keys are untouched -/
theorem ItemInv.client_frame {s s' : State} (h : ItemInv s) (t : Tid) {evs : List Ev} (hl : s'.log = evs ++ s.log)
    (hstore : s'.store = s.store) (hbuf : s'.buf = s.buf) (hsq : s'.sendq = s.sendq) (happ : s'.app = s.app)
    (hcosts : s'.pol.costs = s.pol.costs) (hne : ∀ t', t' ≠ t → s'.cl t' = s.cl t')
    (hpc : PcCalled s'.log (s'.cl t)) : ItemInv s' := by
  have hp : pending s' = pending s := pending_congr (by rw [happ]) hbuf hsq
  refine h.mk' hl (fun k e he => Or.inl (by rw [← hstore]; exact he))
    (fun i hi => Or.inl ⟨i, by rw [← hp]; exact hi, rfl, rfl, rfl⟩) ?_
    (fun i vs ok ha => Or.inl (by rw [← happ]; exact ha))
    (fun i ha => Or.inl ⟨by rw [← happ]; exact ha, fun hc => by rw [hcosts]; exact hc⟩)
  intro t'
  by_cases e : t' = t
  · subst e; exact Or.inr hpc
  · exact Or.inl (hne t' e)

/-- the pcs of the other threads after a receive are not `Set`/`Del` pcs or unchanged -/
theorem recv_pcCalled {s s1 : State} {x : BufElem} (hr : recvBuf s = some (x, s1)) (log : List Ev) (t : Tid) :
    s1.cl t = s.cl t ∨ PcCalled log (s1.cl t) := by
  rcases recvBuf_cl hr t with e | e
  · exact Or.inl e
  · rw [e]
    cases hpc : s.cl t <;> simp [unblockedPc, PcCalled, hpc] at e ⊢
    all_goals first | (left; rw [e]) | skip

theorem pend_sub {s s' : State} {log : List Ev} (hsub : ∀ e, e ∈ pending s' → e ∈ pending s) :
    ∀ i, BufElem.item i ∈ pending s' →
      (∃ i0, BufElem.item i0 ∈ pending s ∧ i0.key = i.key ∧ i0.conflict = i.conflict ∧ i0.flag = i.flag) ∨ ItemCalled log i :=
  fun i hi => Or.inl ⟨i, hsub _ hi, rfl, rfl, rfl⟩

theorem stSetUpd_store (cfg : Cfg) (s : State) (t : Tid) (i : Item) :
    (stSetUpd cfg s t i).store = (storeUpdate cfg s.store s.em i).1 := by
  unfold stSetUpd; dsimp only; split <;> rfl
theorem stSetUpd_pc (cfg : Cfg) (s : State) (t : Tid) (i : Item) :
    (stSetUpd cfg s t i).cl t = .setExit i (storeUpdate cfg s.store s.em i).2.2.1 ∨
    (stSetUpd cfg s t i).cl t = .setSend i := by
  unfold stSetUpd; dsimp only; split <;> simp
theorem stDelStart_store (s : State) (t : Tid) (h : Hash) (c : Conf) :
    (stDelStart s t h c).store = s.store ∨ (stDelStart s t h c).store = (storeDel s.store s.em h c).1 := by
  unfold stDelStart; split
  · exact Or.inl rfl
  · exact Or.inr rfl

theorem recvBuf_queue {s s1 : State} {x : BufElem} (hr : recvBuf s = some (x, s1)) : queue s = x :: queue s1 := by
  obtain ⟨rest, hb, (⟨hq, rfl⟩ | ⟨t0, e, q, hq, rfl⟩)⟩ := recvBuf_cases hr
  · simp [queue, hb, hq]
  · simp [queue, hb, hq]

/-- a receive by `Clear`'s drain loop (applier stopped) whose element is thrown away -/
theorem itemInv_recv_drop {s s1 s2 : State} {x : BufElem} {evs : List Ev} (h : ItemInv s) (hdead : s.app = .dead)
    (hr : recvBuf s = some (x, s1)) (hl : s2.log = evs ++ s.log)
    (e1 : s2.store = s1.store) (e2 : s2.buf = s1.buf) (e3 : s2.sendq = s1.sendq) (e4 : s2.app = s1.app)
    (e6 : s2.cl = s1.cl) : ItemInv s2 := by
  have happ2 : s2.app = .dead := by rw [e4, recvBuf_app hr, hdead]
  have hsub : ∀ e, e ∈ pending s2 → e ∈ pending s := by
    intro e he
    have h1 : pending s2 = queue s1 := by simp [pending, queue, happ2, appElem, e2, e3]
    have h2 : pending s = x :: queue s1 := by simp [pending, hdead, appElem, recvBuf_queue hr]
    rw [h1] at he; rw [h2]; exact List.mem_cons_of_mem _ he
  refine h.mk' hl (fun k e he => Or.inl (by rw [e1, recvBuf_store hr] at he; exact he)) (pend_sub hsub) ?_
    (fun i vs ok ha => by rw [happ2] at ha; cases ha) (fun i ha => by rw [happ2] at ha; cases ha)
  intro t
  rw [e6]
  exact recv_pcCalled hr _ t

open Lean in
/-- `i_frame stX`: `stX` moves only its own thread to a pc outside `Set`/`Del`; nothing else changes -/
macro "i_frame " f:ident : tactic => do
  let n := f.getId
  let clne := mkIdent (n.appendAfter "_cl_ne")
  `(tactic| (intro evs hl; refine ItemInv.client_frame ‹ItemInv _› _ hl (by simp) (by simp) (by simp) (by simp) (by simp) (fun _ hne => $clne (hne := hne) ..) (PcCalled.of_not_rel ?_); (first | (simp [$f:term, CPc.callRel]; done) | (unfold $f:ident; (repeat' split) <;> simp [CPc.callRel]; done) | (unfold $f:ident; dsimp only; (repeat' split) <;> simp [CPc.callRel]; done))))

theorem itemInv_clientStep {cfg : Cfg} {s s' : State} {t : Tid} {ch : Choice}
    (h : ItemInv s) (hh : Handshake s) (hs : clientStep cfg s t ch = some s') :
    ∀ evs, s'.log = evs ++ s.log → ItemInv s' := by
  apply clientStep_cases hs (motive := fun s' => ∀ evs, s'.log = evs ++ s.log → ItemInv s')
  case setRetTrue => intro _ _ _; i_frame stSetRetTrue
  case setRetDrop => intro _ _ _; i_frame stSetRetDrop
  case delSent => intro _ _ _; i_frame stDelSent
  case waitStart => intro _ _; i_frame stWaitStart
  case waitDone => intro _ _; i_frame stWaitDone
  case getRead => intro _ _ _ _; i_frame stGetRead
  case getCheck => intro _ _ _ _ _; i_frame stGetCheck
  case getMetric => intro _ _ _ _ _; i_frame stGetMetric
  case ttlRead => intro _ _ _ _; i_frame stTtlRead
  case ttlCheck => intro _ _ _ _ _; i_frame stTtlCheck
  case ttlExp => intro _ _ _ _; i_frame stTtlExp
  case ttlNow => intro _ _ _ _ _; i_frame stTtlNow
  case ttlUntil => intro _ _ _ _ _; i_frame stTtlUntil
  case iterStart => intro _ _ _; i_frame stIterStart
  case clrStart => intro _ _ _; i_frame stClrStart
  case clrEm => intro _ _ _; i_frame stClrEm
  case clrMetrics => intro _ _ _; i_frame stClrMetrics
  case readMax => intro _ _; i_frame stReadMax
  case readRem => intro _ _; i_frame stReadRem
  case updMax =>
    intro m hpc _ evs hl
    exact h.client_frame t hl (by simp) (by simp) (by simp) (by simp) (by simp [stUpdMax])
      (fun _ hne => stUpdMax_cl_ne (hne := hne) ..) (PcCalled.of_not_rel (by simp [stUpdMax, CPc.callRel]))
  case setStart =>
    intro k c v cost ttl hpc _ evs hl
    have hsc : SetCalled (evs ++ s.log) k c := by
      have := h.pc_called t; rw [hpc] at this; exact this.mono evs
    refine h.client_frame t hl (by simp) (by simp) (by simp) (by simp) (by simp)
      (fun _ hne => stSetStart_cl_ne (hne := hne) ..) ?_
    rw [hl]
    unfold stSetStart
    (repeat' split) <;> simp [PcCalled, hsc]
  case setUpd =>
    intro i hpc _ evs hl
    have hsc : SetCalled (evs ++ s.log) i.key i.conflict ∧ i.flag ≠ .del := by
      have := h.pc_called t; rw [hpc] at this; exact ⟨this.1.mono evs, this.2⟩
    have hp : pending (stSetUpd cfg s t i) = pending s := pending_congr (by simp) (by simp) (by simp)
    refine h.mk' hl ?_ (pend_sub (fun e he => by rw [← hp]; exact he)) ?_
      (fun i vs ok ha => Or.inl (by simpa using ha))
      (fun i ha => Or.inl ⟨by simpa using ha, fun hc => by simpa using hc⟩)
    · intro k e he
      rw [stSetUpd_store] at he
      rcases storeUpdate_some cfg s.store s.em i he with h1 | ⟨rfl, rfl, _⟩
      · exact Or.inl h1
      · right; rw [hl]; exact hsc.1
    · intro t'
      by_cases e : t' = t
      · subst e
        right; rw [hl]
        rcases stSetUpd_pc cfg s t' i with e1 | e1 <;> (rw [e1]; exact hsc)
      · exact Or.inl (stSetUpd_cl_ne (hne := e) ..)
  case setExit =>
    intro i prev hpc _ evs hl
    have hsc : SetCalled (evs ++ s.log) i.key i.conflict := by
      have := h.pc_called t; rw [hpc] at this; exact this.1.mono evs
    refine h.client_frame t hl (by simp) (by simp) (by simp) (by simp) (by simp)
      (fun _ hne => stSetExit_cl_ne (hne := hne) ..) ?_
    rw [hl]
    simp [stSetExit, PcCalled, hsc]
  case setSend =>
    intro i hpc _ evs hl
    have hsc : SetCalled (evs ++ s.log) i.key i.conflict ∧ i.flag ≠ .del := by
      have := h.pc_called t; rw [hpc] at this; exact ⟨this.1.mono evs, this.2⟩
    have hpc' : ((stSetSend cfg s t i).cl t).callRel = false := by
      unfold stSetSend; split <;> simp [CPc.callRel]
    refine h.mk' hl (fun k e he => Or.inl (by simpa using he)) ?_ ?_
      (fun i vs ok ha => Or.inl (by simpa using ha))
      (fun i ha => Or.inl ⟨by simpa using ha, fun hc => by simpa using hc⟩)
    · intro i' hi'
      rcases set_send_pending cfg s t i with ⟨hp, _⟩ | ⟨hp, _⟩
      · rw [hp] at hi'
        rcases List.mem_append.mp hi' with h1 | h1
        · exact Or.inl ⟨i', h1, rfl, rfl, rfl⟩
        · simp at h1; subst h1
          right; rw [hl]; exact ⟨fun hf => absurd hf hsc.2, fun _ => hsc.1⟩
      · rw [hp] at hi'; exact Or.inl ⟨i', hi', rfl, rfl, rfl⟩
    · intro t'
      by_cases e : t' = t
      · subst e; exact Or.inr (PcCalled.of_not_rel hpc')
      · exact Or.inl (stSetSend_cl_ne (hne := e) ..)
  case delStart =>
    intro k c hpc _ evs hl
    have hsc : DelCalled (evs ++ s.log) k c := by
      have := h.pc_called t; rw [hpc] at this; exact this.mono evs
    have hp : pending (stDelStart s t k c) = pending s := pending_congr (by simp) (by simp) (by simp)
    refine h.mk' hl ?_ (pend_sub (fun e he => by rw [← hp]; exact he)) ?_
      (fun i vs ok ha => Or.inl (by simpa using ha))
      (fun i ha => Or.inl ⟨by simpa using ha, fun hc => by simpa using hc⟩)
    · intro k' e he
      rcases stDelStart_store s t k c with e1 | e1
      · rw [e1] at he; exact Or.inl he
      · rw [e1] at he; exact Or.inl (storeDel_sub_f he)
    · intro t'
      by_cases e : t' = t
      · subst e
        right; rw [hl]
        unfold stDelStart
        split <;> simp [PcCalled, hsc]
      · exact Or.inl (stDelStart_cl_ne (hne := e) ..)
  case delExit =>
    intro k c prev hpc _ evs hl
    have hsc : DelCalled (evs ++ s.log) k c := by
      have := h.pc_called t; rw [hpc] at this; exact this.mono evs
    refine h.client_frame t hl (by simp) (by simp) (by simp) (by simp) (by simp)
      (fun _ hne => stDelExit_cl_ne (hne := hne) ..) ?_
    rw [hl]
    simp [stDelExit, PcCalled, hsc]
  case delSend =>
    intro k c hpc _ evs hl
    have hsc : DelCalled (evs ++ s.log) k c := by
      have := h.pc_called t; rw [hpc] at this; exact this.mono evs
    have hpc' : ((stDelSend cfg s t k c).cl t).callRel = false := by
      unfold stDelSend sendBlocking; split <;> simp [CPc.callRel]
    refine h.mk' hl (fun k e he => Or.inl (by simpa using he)) ?_ ?_
      (fun i vs ok ha => Or.inl (by simpa using ha))
      (fun i ha => Or.inl ⟨by simpa using ha, fun hc => by simpa using hc⟩)
    · intro i' hi'
      rw [tomb_enqueued] at hi'
      rcases List.mem_append.mp hi' with h1 | h1
      · exact Or.inl ⟨i', h1, rfl, rfl, rfl⟩
      · simp [tomb] at h1; subst h1
        right; rw [hl]; exact ⟨fun _ => hsc, fun hf => absurd rfl hf⟩
    · intro t'
      by_cases e : t' = t
      · subst e; exact Or.inr (PcCalled.of_not_rel hpc')
      · exact Or.inl (stDelSend_cl_ne (hne := e) ..)
  case waitSend =>
    intro hpc _ evs hl
    have hpc' : ((stWaitSend cfg s t).cl t).callRel = false := by
      unfold stWaitSend sendBlocking; split <;> simp [CPc.callRel]
    refine h.mk' hl (fun k e he => Or.inl (by simpa using he)) ?_ ?_
      (fun i vs ok ha => Or.inl (by simpa using ha))
      (fun i ha => Or.inl ⟨by simpa using ha, fun hc => by simpa using hc⟩)
    · intro i' hi'
      rw [marker_enqueued] at hi'
      rcases List.mem_append.mp hi' with h1 | h1
      · exact Or.inl ⟨i', h1, rfl, rfl, rfl⟩
      · simp at h1
    · intro t'
      by_cases e : t' = t
      · subst e; exact Or.inr (PcCalled.of_not_rel hpc')
      · exact Or.inl (stWaitSend_cl_ne (hne := e) ..)
  case waitRecv =>
    intro id hpc _ hr evs hl
    refine h.client_frame t hl (stWaitRecv_store s t id hr) (stWaitRecv_buf s t id hr) (stWaitRecv_sendq s t id hr)
      (stWaitRecv_app s t id hr) (by rw [stWaitRecv_pol s t id hr])
      (fun _ hne => stWaitRecv_cl_ne s t id hr hne) (PcCalled.of_not_rel ?_)
    unfold stWaitRecv at hr
    split at hr
    · simp only [Option.some.injEq] at hr; subst hr; simp [CPc.callRel]
    · simp at hr
  case getStart =>
    intro k c hpc hr evs hl
    obtain ⟨h1, h2, h3, _, _, h6, h7, _, h9, h10⟩ := stGetStart_q hr
    refine h.client_frame t hl h6 h1 h2 h3 (by rw [h7]) h9 (PcCalled.of_not_rel ?_)
    rcases h10 with ⟨e, _⟩ | ⟨e, _⟩ <;> simp [e, CPc.callRel]
  case iterShard =>
    intro k n seen hpc hr evs hl
    obtain ⟨h1, h2, h3, _, _, h6, h7, _, h9, h10⟩ := stIterShard_q hr
    refine h.client_frame t hl h6 h1 h2 h3 (by rw [h7]) h9 (PcCalled.of_not_rel ?_)
    rcases h10 with ⟨e, _⟩ | ⟨_, _, e, _⟩ <;> simp [e, CPc.callRel]
  case clrPolicy =>
    intro closing hpc _ evs hl
    have hp : pending (stClrPolicy s t closing) = pending s := pending_congr (by simp) (by simp) (by simp)
    refine h.mk' hl (fun k e he => Or.inl (by simpa using he)) (pend_sub (fun e he => by rw [← hp]; exact he)) ?_
      (fun i vs ok ha => Or.inl (by simpa using ha))
      (fun i ha => Or.inl ⟨by simpa using ha, fun _ => by simp [stClrPolicy]⟩)
    intro t'
    by_cases e : t' = t
    · subst e; exact Or.inr (PcCalled.of_not_rel (by simp [stClrPolicy, CPc.callRel]))
    · exact Or.inl (stClrPolicy_cl_ne (hne := e) ..)
  case clrShard =>
    intro closing k hpc hr evs hl
    obtain ⟨ks, _, _, h1, h2, h3, _, _, h6, h7, _, h9, h10⟩ := stClrShard_q hr
    have hp : pending s' = pending s := pending_congr (by rw [h3]) h1 h2
    refine h.mk' hl ?_ (pend_sub (fun e he => by rw [← hp]; exact he)) ?_
      (fun i vs ok ha => Or.inl (by rw [← h3]; exact ha))
      (fun i ha => Or.inl ⟨by rw [← h3]; exact ha, fun hc => by rw [h7]; exact hc⟩)
    · intro k' e he; rw [h6] at he; exact Or.inl (eraseAll_sub he)
    · intro t'
      by_cases e : t' = t
      · subst e; right; apply PcCalled.of_not_rel; rw [h10]; split <;> simp [CPc.callRel]
      · exact Or.inl (h9 t' e)
  case clrRestart =>
    intro closing hpc _ evs hl
    have hdead : s.app = .dead := hh.busy t (by simp [hpc, CPc.busy])
    have happ : (stClrRestart s t closing).app = .idle := by
      unfold stClrRestart; dsimp only; split <;> rfl
    have hp : pending (stClrRestart s t closing) = pending s :=
      pending_congr (by rw [happ, hdead]; rfl) (by simp) (by simp)
    refine h.mk' hl (fun k e he => Or.inl (by simpa using he)) (pend_sub (fun e he => by rw [← hp]; exact he)) ?_
      (fun i vs ok ha => by rw [happ] at ha; cases ha) (fun i ha => by rw [happ] at ha; cases ha)
    intro t'
    by_cases e : t' = t
    · subst e; right; apply PcCalled.of_not_rel
      unfold stClrRestart; dsimp only; split <;> simp [CPc.callRel]
    · exact Or.inl (stClrRestart_cl_ne (hne := e) ..)
  case clsFinish =>
    intro hpc _ evs hl
    have hdead : s.app = .dead := hh.busy t (by simp [hpc, CPc.busy])
    have happ : (stClsFinish s t).app = .dead := rfl
    have hp : pending (stClsFinish s t) = pending s :=
      pending_congr (by rw [happ, hdead]) (by simp) (by simp)
    refine h.mk' hl (fun k e he => Or.inl (by simpa using he)) (pend_sub (fun e he => by rw [← hp]; exact he)) ?_
      (fun i vs ok ha => by rw [happ] at ha; cases ha) (fun i ha => by rw [happ] at ha; cases ha)
    intro t'
    by_cases e : t' = t
    · subst e; exact Or.inr (PcCalled.of_not_rel (by simp [stClsFinish, CPc.callRel]))
    · exact Or.inl (stClsFinish_cl_ne (hne := e) ..)
  case clrDrain =>
    intro closing hpc _ evs hl
    have hdead : s.app = .dead := hh.busy t (by simp [hpc, CPc.busy])
    generalize hres : stClrDrain s t closing = s2 at hl ⊢
    unfold stClrDrain at hres
    split at hres
    · subst hres
      exact h.client_frame t hl rfl rfl rfl rfl rfl (fun _ hne => setCl_cl_ne _ _ _ hne)
        (PcCalled.of_not_rel (by simp [CPc.callRel]))
    · rename_i id s1 hr
      subst hres
      exact itemInv_recv_drop h hdead hr hl rfl rfl rfl rfl rfl
    · rename_i i s1 hr
      split at hres <;> subst hres
      · exact itemInv_recv_drop h hdead hr hl rfl rfl rfl rfl rfl
      · exact itemInv_recv_drop h hdead hr hl rfl rfl rfl rfl rfl

theorem itemInv_applierStep {cfg : Cfg} {s s' : State} {ch : Choice}
    (h : ItemInv s) (hs : applierStep cfg s ch = some s') :
    ∀ evs, s'.log = evs ++ s.log → ItemInv s' := by
  apply applierStep_cases hs (motive := fun s' => ∀ evs, s'.log = evs ++ s.log → ItemInv s')
  case idle =>
    intro hpc hr evs hl
    unfold apIdle at hr
    split at hr
    · unfold apSelItem at hr
      have key : ∀ (x : BufElem) (s1 : State) (a : APc), recvBuf s = some (x, s1) → appElem a = some x →
          (∀ i vs ok, a ≠ .added i vs ok) → (∀ i, a ≠ .tombPolicy i) →
          ({ s1 with app := a } : State).log = evs ++ s.log → ItemInv { s1 with app := a } := by
        intro x s1 a hrecv ha hna hnt hl1
        have hp : pending { s1 with app := a } = pending s := by
          have h2 : pending s = x :: queue s1 := by simp [pending, hpc, appElem, recvBuf_queue hrecv]
          rw [h2]; simp [pending, ha, queue]
        refine h.mk' hl1 (fun k e he => Or.inl (by rw [← recvBuf_store hrecv]; exact he))
          (pend_sub (fun e he => by rw [← hp]; exact he)) (fun t => recv_pcCalled hrecv _ t)
          (fun i vs ok ha' => absurd ha' (hna i vs ok)) (fun i ha' => absurd ha' (hnt i))
      split at hr
      · simp at hr
      · rename_i id s1 hrecv
        simp only [Option.some.injEq] at hr; subst hr
        exact key _ _ _ hrecv rfl (by simp) (by simp) hl
      · rename_i i s1 hrecv
        simp only [Option.some.injEq] at hr; subst hr
        exact key _ _ _ hrecv rfl (by simp) (by simp) hl
    · simp only [Option.some.injEq] at hr; subst hr
      have hp : pending { s with app := .tick } = pending s := pending_congr (by simp [hpc, appElem]) rfl rfl
      exact h.mk' hl (fun k e he => Or.inl he) (pend_sub (fun e he => by rw [← hp]; exact he))
        (fun t => Or.inl rfl) (fun i vs ok ha => by cases ha) (fun i ha => by cases ha)
    · rename_i t
      unfold apSelStop at hr
      have key : ∀ pc, pc.callRel = false → (setCl { s with app := .stopAck } t pc).log = evs ++ s.log →
          ItemInv (setCl { s with app := .stopAck } t pc) := by
        intro pc hpc' hl1
        have hp : pending (setCl { s with app := .stopAck } t pc) = pending s :=
          pending_congr (by simp [hpc, appElem]) rfl rfl
        refine h.mk' hl1 (fun k e he => Or.inl he) (pend_sub (fun e he => by rw [← hp]; exact he)) ?_
          (fun i vs ok ha => by cases ha) (fun i ha => by cases ha)
        intro t'
        by_cases e : t' = t
        · subst e; exact Or.inr (PcCalled.of_not_rel (by simpa using hpc'))
        · exact Or.inl (setCl_cl_ne _ _ _ e)
      split at hr
      · simp only [Option.some.injEq] at hr; subst hr; exact key _ rfl hl
      · simp only [Option.some.injEq] at hr; subst hr; exact key _ rfl hl
      · simp at hr
    · simp at hr
  case marker =>
    intro id hpc _ evs hl
    have hp : pending s = .marker id :: pending (apMarker s id) := by simp [pending, queue, hpc, apMarker, appElem]
    exact h.mk' hl (fun k e he => Or.inl he) (pend_sub (fun e he => by rw [hp]; exact List.mem_cons_of_mem _ he))
      (fun t => Or.inl rfl) (fun i vs ok ha => by cases ha) (fun i ha => by cases ha)
  case item =>
    intro i hpc _ evs hl
    have hp : pending s = .item i :: queue s := by simp [pending, hpc, appElem]
    have hp' : pending (apItem cfg s i) = .item { i with cost := itemCost cfg i } :: queue s := by
      simp [pending, apItem, appElem, queue]
    refine h.mk' hl (fun k e he => Or.inl he) ?_ (fun t => Or.inl rfl)
      (fun i vs ok ha => by cases ha) (fun i ha => by cases ha)
    intro i' hi'
    rw [hp'] at hi'
    rcases List.mem_cons.mp hi' with e | e
    · simp only [BufElem.item.injEq] at e; subst e
      exact Or.inl ⟨i, by rw [hp]; simp, rfl, rfl, rfl⟩
    · exact Or.inl ⟨i', by rw [hp]; exact List.mem_cons_of_mem _ e, rfl, rfl, rfl⟩
  case costed =>
    intro i hpc hr evs hl
    unfold apCosted at hr
    split at hr
    · rename_i hflag
      unfold apCostedNew at hr
      split at hr
      · split at hr
        · simp at hr
        · simp only [Option.some.injEq] at hr; subst hr
          rename_i vs added _ pm _
          have hp : pending { s with pol := pm.1, met := pm.2, app := .added i vs added } = pending s :=
            pending_congr (by simp [hpc, appElem]) rfl rfl
          exact h.mk' hl (fun k e he => Or.inl he) (pend_sub (fun e he => by rw [← hp]; exact he))
            (fun t => Or.inl rfl) (fun i' vs' ok ha => by cases ha; exact Or.inr hflag) (fun i ha => by cases ha)
      · simp at hr
    · obtain ⟨_, hr⟩ := needNone_some hr
      simp only [Option.some.injEq] at hr; subst hr
      have hp : pending s = .item i :: pending (apCostedUpd cfg s i) := by
        simp [pending, queue, hpc, apCostedUpd, appElem]
      exact h.mk' hl (fun k e he => Or.inl he) (pend_sub (fun e he => by rw [hp]; exact List.mem_cons_of_mem _ he))
        (fun t => Or.inl rfl) (fun i vs ok ha => by cases ha) (fun i ha => by cases ha)
    · rename_i hflag
      obtain ⟨_, hr⟩ := needNone_some hr
      simp only [Option.some.injEq] at hr; subst hr
      have hp : pending (apCostedDel cfg s i) = pending s :=
        pending_congr (by simp [hpc, apCostedDel, appElem]) rfl rfl
      refine h.mk' hl (fun k e he => Or.inl he) (pend_sub (fun e he => by rw [← hp]; exact he))
        (fun t => Or.inl rfl) (fun i vs ok ha => by cases ha) ?_
      intro i' ha
      simp only [apCostedDel, APc.tombPolicy.injEq] at ha; subst ha
      exact Or.inr ⟨hflag, by simp [apCostedDel, polDel_costs]⟩
  case added =>
    intro i victims ok hpc _ evs hl
    have hnew := h.added_new i victims ok hpc
    have hic : ItemCalled s.log i := h.pend_called i (by simp [pending, hpc, appElem])
    have happ : appElem (apAdded cfg s i victims ok).app = none := by
      unfold apAdded afterVictims; split <;> split <;> simp [appElem]
    have hp : pending s = .item i :: pending (apAdded cfg s i victims ok) := by
      rw [pending, pending, happ, hpc]; simp [appElem, queue]
    refine h.mk' hl ?_ (pend_sub (fun e he => by rw [hp]; exact List.mem_cons_of_mem _ he))
      (fun t => Or.inl (by simp)) ?_ ?_
    · intro k e he
      unfold apAdded at he
      split at he
      · simp only [metAdd_store] at he
        rcases storeSet_some cfg s.store s.em i he with h1 | ⟨rfl, rfl⟩
        · exact Or.inl h1
        · right; rw [hl]; exact (hic.2 (by simp [hnew])).mono evs
      · exact Or.inl (by simpa using he)
    · intro i' vs' ok' ha
      exfalso
      cases h' : (apAdded cfg s i victims ok).app <;> simp [h', appElem] at happ ha
    · intro i' ha
      exfalso
      cases h' : (apAdded cfg s i victims ok).app <;> simp [h', appElem] at happ ha
  case victims =>
    intro vs hpc _ hr evs hl
    unfold apVictims at hr
    split at hr
    · simp at hr
    · simp only [Option.some.injEq] at hr; subst hr
      refine h.mk' hl (fun k' e he => Or.inl (storeDel_sub_f he)) (pend_sub (fun e he => ?_))
        (fun t => Or.inl rfl) (fun i vs ok ha => by cases ha) (fun i ha => by cases ha)
      simpa [pending, queue, hpc, appElem] using he
  case victimEvict =>
    intro k cost c v rest hpc _ evs hl
    have happ : appElem (apVictimEvict s k cost c v rest).app = none := by
      unfold apVictimEvict afterVictims; split <;> simp [appElem]
    have hp : pending (apVictimEvict s k cost c v rest) = pending s :=
      pending_congr (by rw [happ, hpc]; rfl) (by simp) (by simp)
    refine h.mk' hl (fun k e he => Or.inl (by simpa using he)) (pend_sub (fun e he => by rw [← hp]; exact he))
      (fun t => Or.inl (by simp)) ?_ ?_
    · intro i' vs' ok' ha
      exfalso
      cases h' : (apVictimEvict s k cost c v rest).app <;> simp [h', appElem] at happ ha
    · intro i' ha
      exfalso
      cases h' : (apVictimEvict s k cost c v rest).app <;> simp [h', appElem] at happ ha
  case tombPolicy =>
    intro i hpc _ evs hl
    have hp : pending s = .item i :: pending (apTombPolicy s i) := by
      simp [pending, queue, hpc, apTombPolicy, appElem]
    exact h.mk' hl (fun k e he => Or.inl (storeDel_sub_f he))
      (pend_sub (fun e he => by rw [hp]; exact List.mem_cons_of_mem _ he))
      (fun t => Or.inl rfl) (fun i vs ok ha => by cases ha) (fun i ha => by cases ha)
  case tombStore =>
    intro v hpc _ evs hl
    have hp : pending (apTombStore s v) = pending s := pending_congr (by simp [hpc, apTombStore, appElem]) rfl rfl
    exact h.mk' hl (fun k e he => Or.inl he) (pend_sub (fun e he => by rw [← hp]; exact he))
      (fun t => Or.inl rfl) (fun i vs ok ha => by cases ha) (fun i ha => by cases ha)
  case tick =>
    intro hpc _ evs hl
    have hp : pending (apTick s) = pending s := pending_congr (by simp [hpc, apTick, appElem]) rfl rfl
    exact h.mk' hl (fun k e he => Or.inl he) (pend_sub (fun e he => by rw [← hp]; exact he))
      (fun t => Or.inl rfl) (fun i vs ok ha => by cases ha) (fun i ha => by cases ha)
  case sweep =>
    intro now bs hpc hr evs hl
    unfold apSweep at hr
    split at hr
    · simp only [Option.some.injEq] at hr; subst hr
      have hp : pending { s with app := .idle } = pending s := pending_congr (by simp [hpc, appElem]) rfl rfl
      exact h.mk' hl (fun k e he => Or.inl he) (pend_sub (fun e he => by rw [← hp]; exact he))
        (fun t => Or.inl rfl) (fun i vs ok ha => by cases ha) (fun i ha => by cases ha)
    · split at hr
      · simp at hr
      · simp only [Option.some.injEq] at hr; subst hr
        refine h.mk' hl (fun k e he => Or.inl he) (pend_sub (fun e he => ?_))
          (fun t => Or.inl rfl) (fun i vs ok ha => by cases ha) (fun i ha => by cases ha)
        simpa [pending, queue, hpc, appElem] using he
    · simp at hr
  case swKey =>
    intro now k c bs hpc _ evs hl
    have happ : appElem (apSwKey s now k c bs).app = none := by
      unfold apSwKey; dsimp only; split <;> simp [appElem]
    have hp : pending (apSwKey s now k c bs) = pending s :=
      pending_congr (by rw [happ, hpc]; rfl) (by simp) (by simp)
    refine h.mk' hl ?_ (pend_sub (fun e he => by rw [← hp]; exact he))
      (fun t => Or.inl (by simp)) ?_ ?_
    · intro k' e he
      unfold apSwKey at he
      dsimp only at he
      split at he
      · exact Or.inl (storeDelExpired_sub he)
      · exact Or.inl he
    · intro i' vs' ok' ha
      exfalso
      cases h' : (apSwKey s now k c bs).app <;> simp [h', appElem] at happ ha
    · intro i' ha
      exfalso
      cases h' : (apSwKey s now k c bs).app <;> simp [h', appElem] at happ ha
  case swStoreDel =>
    intro now k c expr v bs hpc _ evs hl
    have hp : pending (apSwStoreDel cfg s now k c expr v bs) = pending s :=
      pending_congr (by simp [hpc, apSwStoreDel, appElem]) rfl rfl
    exact h.mk' hl (fun k e he => Or.inl he) (pend_sub (fun e he => by rw [← hp]; exact he))
      (fun t => Or.inl rfl) (fun i vs ok ha => by cases ha) (fun i ha => by cases ha)
  case swPolDel =>
    intro now k c expr cost v bs hpc _ evs hl
    have hp : pending (apSwPolDel s now k c cost v bs) = pending s :=
      pending_congr (by simp [hpc, apSwPolDel, appElem]) rfl rfl
    exact h.mk' hl (fun k e he => Or.inl he) (pend_sub (fun e he => by rw [← hp]; exact he))
      (fun t => Or.inl rfl) (fun i vs ok ha => by cases ha) (fun i ha => by cases ha)

theorem itemInv_init (cfg : Cfg) (now : Time) : ItemInv (init cfg now) := by
  constructor <;> simp [init, pending, queue, appElem, PcCalled]

theorem itemInv_step {cfg : Cfg} {s s' : State} {a : Action} (h : ItemInv s) (hh : Handshake s)
    (hs : step cfg s a = some s') : ItemInv s' := by
  obtain ⟨evs, hl, _⟩ := step_log hs
  cases a with
  | spawn t c =>
    have hs' : spawnStep s t c = some s' := hs
    have hidle : s.cl t = .idle := by
      unfold spawnStep at hs'; split at hs'
      · assumption
      · simp at hs'
    refine h.client_frame t hl (spawnStep_store s t c hs') (spawnStep_buf s t c hs') (spawnStep_sendq s t c hs')
      (spawnStep_app s t c hs') (by rw [spawnStep_pol s t c hs']) (fun t' hne => spawnStep_cl_ne s t c hs' hne) ?_
    unfold spawnStep at hs'
    rw [hidle] at hs'
    cases c <;> (simp only [Option.some.injEq] at hs'; subst hs') <;>
      simp only [logEv_cl, setCl_cl_self, logEv_log, setCl_log, PcCalled]
    · exact ⟨_, _, _, _, List.mem_cons_self⟩
    · exact ⟨_, List.mem_cons_self⟩
  | client t ch => exact itemInv_clientStep h hh hs evs hl
  | applier ch => exact itemInv_applierStep h hs evs hl
  | done t =>
    have hs' : doneStep s t = some s' := hs
    have happ : s.app = .stopAck ∧ s'.app = .dead ∧ (s'.cl t).callRel = false := by
      unfold doneStep at hs'
      split at hs'
      · rename_i h1 _; simp only [Option.some.injEq] at hs'; subst hs'; exact ⟨h1, rfl, by simp [CPc.callRel]⟩
      · rename_i h1 _; simp only [Option.some.injEq] at hs'; subst hs'; exact ⟨h1, rfl, by simp [CPc.callRel]⟩
      · simp at hs'
    have hp : pending s' = pending s :=
      pending_congr (by rw [happ.1, happ.2.1]; rfl) (doneStep_buf s t hs') (doneStep_sendq s t hs')
    refine h.mk' hl (fun k e he => Or.inl (by rw [← doneStep_store s t hs']; exact he))
      (pend_sub (fun e he => by rw [← hp]; exact he)) ?_
      (fun i vs ok ha => by rw [happ.2.1] at ha; cases ha) (fun i ha => by rw [happ.2.1] at ha; cases ha)
    intro t'
    by_cases e : t' = t
    · subst e; exact Or.inr (PcCalled.of_not_rel happ.2.2)
    · exact Or.inl (doneStep_cl_ne s t hs' e)
  | tick d =>
    simp only [step, Option.some.injEq] at hs; subst hs
    exact h.mk' hl (fun k e he => Or.inl he) (pend_sub (fun e he => he)) (fun t => Or.inl rfl)
      (fun i vs ok ha => Or.inl ha) (fun i ha => Or.inl ⟨ha, fun hc => hc⟩)

theorem item_inv {cfg : Cfg} {s : State} (h : Reach cfg s) : ItemInv s :=
  Reach.induction (itemInv_init cfg)
    (fun _ _ _ hr hp hs => itemInv_step hp (handshake_reach hr) hs) h

end RV.Cache
