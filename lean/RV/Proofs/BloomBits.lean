import RV.Model.Bloom
import RV.Proofs.ArrayLemmas
/-!
Kernel-level lemmas for the Bloom filter (C19): the generated loop conditions are
`i < n` (so the fuelled loops of the model are plain folds over `List.range n`),
the `unsafe` byte addressing of `Set`/`IsSet` is "bit `idx % 8` of byte `idx / 8`",
and `getSize` returns the least power of two `≥ max(u, 512)` with its exponent.
-/
namespace RV.Bloom
open Gen.Bloom

/-! ### loops: tie of the generated conditions to `List.range` -/

theorem addLoopCond_iff (i n : BitVec 64) : addLoopCond i n = decide (i.toNat < n.toNat) := by
  unfold addLoopCond; simp [BitVec.ult]
theorem hasLoopCond_iff (i n : BitVec 64) : hasLoopCond i n = decide (i.toNat < n.toNat) := by
  unfold hasLoopCond; simp [BitVec.ult]

theorem forLoop_lt_aux {σ : Type} (n : BitVec 64) (cond : BitVec 64 → Bool) (hc : ∀ i, cond i = decide (i.toNat < n.toNat))
    (body : σ → BitVec 64 → σ) :
    ∀ (m k : Nat) (s : σ), k + m = n.toNat →
      forLoop cond body (m + 1) (BitVec.ofNat 64 k) s =
        (List.range' k m).foldl (fun s i => body s (BitVec.ofNat 64 i)) s := by
  intro m
  induction m with
  | zero =>
    intro k s hk
    have : (BitVec.ofNat 64 k).toNat = k := by simp [BitVec.toNat_ofNat]; omega
    simp [forLoop, hc, this]; omega
  | succ m ih =>
    intro k s hk
    have hk' : (BitVec.ofNat 64 k).toNat = k := by simp [BitVec.toNat_ofNat]; omega
    have hnext : BitVec.ofNat 64 k + 1#64 = BitVec.ofNat 64 (k + 1) := by
      apply BitVec.eq_of_toNat_eq; simp [BitVec.toNat_add, BitVec.toNat_ofNat]
    rw [forLoop, hc, hk']
    have : k < n.toNat := by omega
    simp only [this, decide_true, if_true]
    rw [hnext, ih (k + 1) _ (by omega)]
    simp [List.range']

theorem forLoop_lt {σ : Type} (n : BitVec 64) (cond : BitVec 64 → Bool) (hc : ∀ i, cond i = decide (i.toNat < n.toNat))
    (body : σ → BitVec 64 → σ) (s : σ) :
    forLoop cond body (n.toNat + 1) 0#64 s =
      (List.range n.toNat).foldl (fun s i => body s (BitVec.ofNat 64 i)) s := by
  have := forLoop_lt_aux n cond hc body n.toNat 0 s (by omega)
  rw [List.range_eq_range']
  exact this

theorem allLoop_lt_aux (n : BitVec 64) (cond : BitVec 64 → Bool) (hc : ∀ i, cond i = decide (i.toNat < n.toNat))
    (p : BitVec 64 → Bool) :
    ∀ (m k : Nat), k + m = n.toNat →
      allLoop cond p (m + 1) (BitVec.ofNat 64 k) =
        (List.range' k m).all (fun i => p (BitVec.ofNat 64 i)) := by
  intro m
  induction m with
  | zero =>
    intro k hk
    have : (BitVec.ofNat 64 k).toNat = k := by simp [BitVec.toNat_ofNat]; omega
    simp [allLoop, hc, this]; omega
  | succ m ih =>
    intro k hk
    have hk' : (BitVec.ofNat 64 k).toNat = k := by simp [BitVec.toNat_ofNat]; omega
    have hnext : BitVec.ofNat 64 k + 1#64 = BitVec.ofNat 64 (k + 1) := by
      apply BitVec.eq_of_toNat_eq; simp [BitVec.toNat_add, BitVec.toNat_ofNat]
    rw [allLoop, hc, hk']
    have : k < n.toNat := by omega
    simp only [this, decide_true, if_true]
    rw [hnext, ih (k + 1) (by omega)]
    simp only [List.range', List.all_cons]
    cases hp : p (BitVec.ofNat 64 k) <;> simp

theorem allLoop_lt (n : BitVec 64) (cond : BitVec 64 → Bool) (hc : ∀ i, cond i = decide (i.toNat < n.toNat))
    (p : BitVec 64 → Bool) :
    allLoop cond p (n.toNat + 1) 0#64 = (List.range n.toNat).all (fun i => p (BitVec.ofNat 64 i)) := by
  have := allLoop_lt_aux n cond hc p n.toNat 0 (by omega)
  rw [List.range_eq_range']
  exact this

/-! ### byte / bit addressing -/

theorem setAddr_eq (idx : BitVec 64) : setAddr idx = idx.toNat / 8 := by
  unfold setAddr setWord setByte
  simp only [BitVec.toNat_ushiftRight, BitVec.toNat_umod, BitVec.toNat_ofNat, Nat.shiftRight_eq_div_pow, Nat.reducePow, Nat.reduceMod]
  omega

theorem isSetAddr_eq (idx : BitVec 64) : isSetAddr idx = idx.toNat / 8 := by
  unfold isSetAddr isSetWord isSetByte
  simp only [BitVec.toNat_ushiftRight, BitVec.toNat_umod, BitVec.toNat_ofNat, Nat.shiftRight_eq_div_pow, Nat.reducePow, Nat.reduceMod]
  omega

theorem mod8_toNat (idx : BitVec 64) : (idx % 8#64).toNat = idx.toNat % 8 := by
  simp [BitVec.toNat_umod]

theorem maskTable_spec : ∀ j : Fin 8, maskTable[j.val]! = 1#8 <<< j.val := by decide

theorem setMask_eq (idx : BitVec 64) : setMask maskTable idx = 1#8 <<< (idx.toNat % 8) := by
  unfold setMask
  rw [mod8_toNat]
  exact maskTable_spec ⟨idx.toNat % 8, by omega⟩

theorem byte_bit : ∀ (b : BitVec 8) (k : Fin 8), ((b >>> k.val &&& 1#8) == 1#8) = b.getLsbD k.val := by decide

theorem isSetBit_eq (b : BitVec 8) (idx : BitVec 64) :
    isSetResult (isSetBit b idx) = b.getLsbD (idx.toNat % 8) := by
  unfold isSetResult isSetBit
  rw [mod8_toNat]
  exact byte_bit b ⟨idx.toNat % 8, by omega⟩

theorem or_bit (b : BitVec 8) (j k : Nat) (hj : j < 8) :
    (b ||| (1#8 <<< j)).getLsbD k = (b.getLsbD k || decide (j = k)) := by
  simp only [BitVec.getLsbD_or, BitVec.getLsbD_shiftLeft]
  by_cases hk : k < 8
  · by_cases hjk : j = k
    · subst hjk; simp [hk]
    · have : ((1#8).getLsbD (k - j)) = decide (k - j = 0) := by simp
      rw [this]; cases b.getLsbD k <;> simp [hk, hjk] <;> omega
  · have : b.getLsbD k = false := by apply BitVec.getLsbD_of_ge; omega
    simp [this, hk]; omega

/-! ### getSize -/

theorem toNat_two_pow (j : Nat) (hj : j ≤ 63) : (BitVec.ofNat 64 (2 ^ j)).toNat = 2 ^ j := by
  rw [BitVec.toNat_ofNat]
  apply Nat.mod_eq_of_lt
  exact Nat.pow_lt_pow_right (by omega) (by omega)

/-- the loop `for size < ui64 { size <<= 1; exponent++ }` of `getSize`, run from `(1, 0)`:
after `n` iterations the state is `(2^min(n,k), min(n,k))` where `k` is the least exponent with `u ≤ 2^k` -/
theorem sizeLoop_inv (f : BitVec 64 × BitVec 64 → Nat → BitVec 64 × BitVec 64) (u : BitVec 64)
    (hf : ∀ s e i, f (s, e) i = if BitVec.ult s u then (s <<< (BitVec.ofNat 64 1).toNat, e + 1#64) else (s, e))
    (k : Nat) (hk : k ≤ 63) (hlo : ∀ j, j < k → 2 ^ j < u.toNat) (hhi : u.toNat ≤ 2 ^ k) :
    ∀ n, n ≤ 64 → (List.range n).foldl f (1#64, 0#64) =
      (BitVec.ofNat 64 (2 ^ (min n k)), BitVec.ofNat 64 (min n k)) := by
  intro n
  induction n with
  | zero => intro _; simp
  | succ n ih =>
    intro hn
    rw [List.range_succ, List.foldl_append, ih (by omega)]
    simp only [List.foldl_cons, List.foldl_nil, hf]
    by_cases hnk : n < k
    · have h1 : min n k = n := by omega
      have h2 : min (n + 1) k = n + 1 := by omega
      rw [h1, h2]
      have : BitVec.ult (BitVec.ofNat 64 (2 ^ n)) u = true := by
        simp only [BitVec.ult, toNat_two_pow n (by omega)]
        simpa using hlo n hnk
      simp only [this, if_true]
      congr 1
      · apply BitVec.eq_of_toNat_eq
        rw [BitVec.toNat_shiftLeft, toNat_two_pow n (by omega), toNat_two_pow (n + 1) (by omega)]
        simp only [BitVec.toNat_ofNat, Nat.shiftLeft_eq]
        have : 2 ^ n * 2 ^ (1 % 2 ^ 64) = 2 ^ (n + 1) := by rw [Nat.pow_succ]; rfl
        rw [this]
        apply Nat.mod_eq_of_lt
        exact Nat.pow_lt_pow_right (by omega) (by omega)
      · apply BitVec.eq_of_toNat_eq
        simp [BitVec.toNat_add, BitVec.toNat_ofNat]
    · have h1 : min n k = k := by omega
      have h2 : min (n + 1) k = k := by omega
      rw [h1, h2]
      have : BitVec.ult (BitVec.ofNat 64 (2 ^ k)) u = false := by
        simp only [BitVec.ult, toNat_two_pow k hk]
        simpa using hhi
      simp [this]

/-- `getSize`: the least power of two `2^k ≥ max(u, 512)` and its exponent (for `u ≤ 2^63`;
above that the Go loop does not terminate). -/
theorem getSize_spec (u : BitVec 64) (k : Nat) (hk : k ≤ 63)
    (hlo : ∀ j, j < k → 2 ^ j < max u.toNat 512) (hhi : max u.toNat 512 ≤ 2 ^ k) :
    getSize u = (BitVec.ofNat 64 (2 ^ k), BitVec.ofNat 64 k) := by
  unfold getSize
  have hu2 : (if BitVec.ult u 512#64 then 512#64 else u).toNat = max u.toNat 512 := by
    by_cases h : u.toNat < 512
    · have : BitVec.ult u 512#64 = true := by simpa [BitVec.ult] using h
      simp [this]; omega
    · have : BitVec.ult u 512#64 = false := by simpa [BitVec.ult] using h
      simp [this]; omega
  simp only []
  rw [sizeLoop_inv _ (if BitVec.ult u 512#64 then 512#64 else u) (fun _ _ _ => rfl) k hk
    (by rw [hu2]; exact hlo) (by rw [hu2]; exact hhi) 64 (by omega)]
  have : min 64 k = k := by omega
  simp [this]

end RV.Bloom
