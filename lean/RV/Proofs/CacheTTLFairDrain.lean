import RV.Proofs.CacheTTLFairBusy
/-!
# C14 liveness under fairness (5): `DrainsEnd` cannot be dropped

`drainsEnd_needed_counterexample`: `SetWithTTL(1 ↦ 7, 1 s)` is applied, the clock passes to 20 s and
40 s; client 0 calls `Clear`, which stops the applier and enters its drain loop; client 1 calls
`Set(5 ↦ 7)` again and again and every drain iteration finds an item (the livelock of
`clear_livelock_counterexample`, finding F13).  The execution is `Fair` and `TickFair` (the applier is
stopped: no branch of its `select` is ever ready), the clock is sane, `ClockPasses` holds, nobody touches
key 1 — the `Clear` never reaches the store — and the expired entry stays forever.
-/
namespace RV.Cache
open Gen.Cache

/-- the livelock loop leaves the store and the clock alone -/
theorem live_step_keeps {p : Nat} {s s' : State} (h : LivePI p s) (hs : step exCfg1 s (liveActs p) = some s') :
    s'.store = s.store ∧ s'.clock = s.clock := by
  obtain ⟨hb, hc1, _⟩ := h
  have hclient : ∀ t ch, (t = 0 ∨ t = 1) → clientStep exCfg1 s t ch = some s' →
      s'.store = s.store ∧ s'.clock = s.clock := by
    intro t ch ht hs'
    refine ⟨?_, clientStep_clock hs'⟩
    cases clientStep_se (cfg := exCfg1) hs' with
    | same h1 => exact h1
    | upd i hpc h1 =>
      rw [h1]
      rcases ht with rfl | rfl
      · rw [hb.c0] at hpc; cases hpc
      · rw [hc1] at hpc
        have hi : i = liveItem := by
          unfold livePc at hpc
          split at hpc <;> first | cases hpc | skip
          rfl
        subst hi
        simp [storeUpdate, liveItem, hb.store]
    | del h c hpc =>
      rcases ht with rfl | rfl
      · rw [hb.c0] at hpc; cases hpc
      · rw [hc1] at hpc
        unfold livePc at hpc
        split at hpc <;> cases hpc
    | clr closing k ks hpc =>
      rcases ht with rfl | rfl
      · rw [hb.c0] at hpc; cases hpc
      · rw [hc1] at hpc
        unfold livePc at hpc
        split at hpc <;> cases hpc
    | emClear closing _ h1 => exact h1
  unfold liveActs at hs
  split at hs
  · have hs' : spawnStep s 1 (.set 5#64 0#64 7 1 0) = some s' := hs
    exact ⟨spawnStep_store _ _ _ hs', spawnStep_clock _ _ _ hs'⟩
  · split at hs
    · exact hclient 0 .none (Or.inl rfl) hs
    · exact hclient 1 .none (Or.inr rfl) hs

def LiveTTLPI (p : Nat) (s : State) : Prop :=
  LivePI p s ∧ s.store.lookup 1#64 = some ttlEntry ∧ s.clock = 40000000000

theorem liveTTL_step (p : Nat) (s : State) (hp : p < 6) (h : LiveTTLPI p s) :
    ∃ s', step exCfg1 s (liveActs p) = some s' ∧ LiveTTLPI ((p + 1) % 6) s' := by
  obtain ⟨h1, h2, h3⟩ := h
  obtain ⟨s', hs, hpi⟩ := livelock_step p s hp h1
  obtain ⟨k1, k2⟩ := live_step_keeps h1 hs
  exact ⟨s', hs, hpi, by rw [k1]; exact h2, by rw [k2]; exact h3⟩

/-- `SetWithTTL(1 ↦ 7, 1 s)` applied; clock to 20 s, to 40 s; client 0 calls `Clear` up to its drain loop -/
def exTTLDrain : List Action :=
  exTTLSet ++ [ .tick 20000000000, .tick 20000000000, .spawn 0 .clear, .client 0 .none, .applier (.selStop 0), .done 0 ]

set_option maxRecDepth 100000 in
theorem exTTLDrain_store : ∀ k : Fin 16,
    (run exCfg1 (init exCfg1 0) (exTTLDrain.take k)).map (fun s => s.store.lookup 1#64) =
      some (if 9 ≤ k.val then some ttlEntry else none) := by decide

set_option maxRecDepth 100000 in
theorem exTTLDrain_end :
    (run exCfg1 (init exCfg1 0) exTTLDrain).map (fun s => (s.cl 0, s.cl 1, s.buf, s.sendq.length)) =
      some (.clrDrain false, .idle, [], 0) ∧
    (run exCfg1 (init exCfg1 0) exTTLDrain).map (fun s => (s.closed, (s.store.lookup 5#64).isSome,
      appIsDead s, s.clock)) = some (false, false, true, 40000000000) := by
  decide

set_option maxRecDepth 100000 in
theorem exTTLDrain_mid :
    ((run exCfg1 (init exCfg1 0) (exTTLDrain.take 10)).map (fun s => s.clock) = some 20000000000) ∧
    ((run exCfg1 (init exCfg1 0) (exTTLDrain.take 11)).map (fun s => s.clock) = some 40000000000) := by
  decide

/-- **`DrainsEnd` cannot be dropped** (finding F13 seen from C14).  `Fair`, `TickFair`, `ClockPasses`, sane
clock at all times, nobody changes the entry of key 1: a `Clear` that started after the expiration is stuck
in its drain loop forever (client 1 keeps sending), the applier stays stopped, and the expired entry (1 s;
the clock is at 40 s) is neither swept nor cleared. -/
theorem drainsEnd_needed_counterexample :
    ∃ e : Exec exCfg1, e.st 0 = init exCfg1 0 ∧ Fair e ∧ TickFair e ∧ ¬ DrainsEnd e ∧ CreatedAt e 0 ∧
      (∀ j, TimeOk (e.st j).clock) ∧ ClockPasses e 9 ttlEntry.exp ∧
      (∀ j, 9 ≤ j → (e.st j).store.lookup 1#64 = some ttlEntry) ∧
      (∀ j, 11 ≤ j → (e.st j).clock = 40000000000) ∧
      ∀ j, 15 ≤ j → (e.st j).cl 0 = .clrDrain false := by
  have hf := exTTLDrain_end
  cases hfull : run exCfg1 (init exCfg1 0) exTTLDrain with
  | none => rw [hfull] at hf; simp at hf
  | some b =>
    rw [hfull] at hf
    simp only [Option.map_some, Option.some.injEq, Prod.mk.injEq] at hf
    obtain ⟨⟨hc0, hc1, hbuf, hq⟩, hcl, hst, happ, hclk⟩ := hf
    have hnc : NoCloseRun exTTLDrain := noClose_of_all (by decide)
    have hr : ReachNC exCfg1 b := reachNC_of_run (now := 0) hnc hfull
    have hlen : exTTLDrain.length = 15 := rfl
    have hidle : ∀ t, t ≠ 0 → t ≠ 1 → b.cl t = .idle := fun t e0 e1 =>
      unspawned_idle (s0 := init exCfg1 0) rfl
        (not_spawn_of_spawnsOnly (ts := [0]) (by decide) (by simp [e0])) hfull
    have hq' : b.sendq = [] := List.length_eq_zero_iff.mp hq
    have hst' : b.store.lookup 5#64 = none := by
      cases h : b.store.lookup 5#64 with
      | none => rfl
      | some v => rw [h] at hst; cases hst
    have hk1 : b.store.lookup 1#64 = some ttlEntry := by
      have h1 := exTTLDrain_store ⟨15, by omega⟩
      have : exTTLDrain.take 15 = exTTLDrain := by rw [← hlen]; exact List.take_length
      simp only [this, hfull] at h1
      simpa using h1
    have hb : LiveTTLPI 0 b := ⟨⟨⟨hc0, appIsDead_eq happ, hq', hcl, hst', hidle⟩, hc1, hbuf⟩, hk1, hclk⟩
    obtain ⟨e, he0, hpi⟩ := exec_of_cycle 6 liveActs LiveTTLPI b hr hb
      (fun p s hp _ h => liveTTL_step p s hp h) (by decide) liveActs_noClose
    have hweak : WeakFair e := by
      intro a i
      cases a with
      | client t =>
        by_cases e0 : t = 0
        · subst e0
          obtain ⟨j, hij, hj⟩ := cycle_hits (m := 6) (p := 5) (by decide) i
          exact ⟨j, hij, Or.inr (by rw [(hpi j).2, hj]; rfl)⟩
        · by_cases e1 : t = 1
          · subst e1
            obtain ⟨j, hij, hj⟩ := cycle_hits (m := 6) (p := 1) (by decide) i
            exact ⟨j, hij, Or.inr (by rw [(hpi j).2, hj]; rfl)⟩
          · exact ⟨i, Nat.le_refl _, Or.inl (idle_not_enabled ((hpi i).1.1.1.others t e0 e1))⟩
      | applier => exact ⟨i, Nat.le_refl _, Or.inl (stopped_not_enabled (dead_not_running (hpi i).1.1.1.app))⟩
    have hsel : SelectFair e := by
      constructor
      · intro i hr
        obtain ⟨j, _, s', hs⟩ := hr i (Nat.le_refl _)
        obtain ⟨h1, _⟩ := selItem_at_idle (show applierStep exCfg1 (e.st j) .selItem = some s' from hs)
        rw [(hpi j).1.1.1.app] at h1; cases h1
      · intro t i hr
        obtain ⟨j, _, s', hs⟩ := hr i (Nat.le_refl _)
        obtain ⟨h1, _⟩ := selStop_at_idle (show applierStep exCfg1 (e.st j) (.selStop t) = some s' from hs)
        rw [(hpi j).1.1.1.app] at h1; cases h1
    have htick : TickFair e := by
      intro i hr
      obtain ⟨j, _, s', hs⟩ := hr i (Nat.le_refl _)
      obtain ⟨h1, _⟩ := selTick_at_idle (show applierStep exCfg1 (e.st j) .selTick = some s' from hs)
      rw [(hpi j).1.1.1.app] at h1; cases h1
    obtain ⟨e', htail, hpre, _⟩ := exec_prepend e exTTLDrain (init exCfg1 0) (.init 0) hnc (by rw [he0]; exact hfull)
    have hst15 : ∀ j, 15 ≤ j → e'.st j = e.st (j - 15) := by
      intro j hj
      have := (htail (j - 15)).1
      rwa [hlen, show 15 + (j - 15) = j by omega] at this
    have he0' : e'.st 0 = init exCfg1 0 := prepend_start hpre
    have hstay : ∀ j, 15 ≤ j → (e'.st j).cl 0 = .clrDrain false := by
      intro j hj; rw [hst15 j hj]; exact (hpi _).1.1.1.c0
    have hstore : ∀ j, 9 ≤ j → (e'.st j).store.lookup 1#64 = some ttlEntry := by
      intro j h9
      by_cases hj : j ≤ 15
      · have h1 := exTTLDrain_store ⟨j, by omega⟩
        rw [hpre j (by omega)] at h1
        simpa [h9] using h1
      · rw [hst15 j (by omega)]; exact (hpi _).1.2.1
    have hmid := exTTLDrain_mid
    rw [hpre 10 (by omega), hpre 11 (by omega)] at hmid
    simp only [Option.map_some, Option.some.injEq] at hmid
    obtain ⟨hc10, hc11⟩ := hmid
    have hc40 : ∀ j, 11 ≤ j → (e'.st j).clock = 40000000000 := by
      intro j hj
      by_cases h15 : j ≤ 15
      · have h1 := e'.clock_mono hj
        have h2 := e'.clock_mono h15
        rw [hc11] at h1
        rw [hst15 15 (Nat.le_refl _), (hpi _).1.2.2] at h2
        exact Int.le_antisymm h2 h1
      · rw [hst15 j (by omega)]; exact (hpi _).1.2.2
    have hsane : ∀ j, TimeOk (e'.st j).clock := by
      intro j
      have h1 := e'.clock_mono (Nat.zero_le j)
      rw [he0'] at h1
      have h2 := e'.clock_mono (Nat.le_max_left j 11)
      rw [hc40 _ (Nat.le_max_right j 11)] at h2
      exact timeOk_small h1 h2
    have htick' : TickFair e' := by
      intro i hr
      obtain ⟨j, hij, hj⟩ := htick i (readyInfOften_of_tail htail hr)
      exact ⟨15 + j, by omega, by have := (htail j).2; rw [hlen] at this; rw [this]; exact hj⟩
    refine ⟨e', he0', fair_of_tail htail ⟨hweak, hsel⟩, htick', fun hd => ?_, ⟨[], by rw [he0']; rfl⟩, hsane, ?_,
      hstore, hc40, hstay⟩
    · obtain ⟨j, hj, hj'⟩ := hd 15 0 false (hstay 15 (Nat.le_refl _))
      exact hj' (hstay j hj)
    · exact ⟨10, by omega, by rw [hc10]; decide, 11, by rw [hc10, hc11]; decide⟩

end RV.Cache
