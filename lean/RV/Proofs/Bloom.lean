import RV.Proofs.BloomBits
/-!
Filter-level lemmas for the Bloom model (C19): positions of `Add`/`Has`, the bit view `bitAt`,
`Add` sets exactly its positions (so nothing is cleared), `Clear`, `AddIfNotHas`, sequences of
mutating operations, the well-formedness `WF` that `NewBloomFilter` establishes, the byte-wise
JSON export / import, and the little-endian word reading of the byte view.
-/
namespace RV.Bloom
open Gen.Bloom

/-- bit `p` of the byte view: bit `p % 8` of byte `p / 8` -/
def bitAt (bytes : Array (BitVec 8)) (p : Nat) : Bool := bytes[p / 8]!.getLsbD (p % 8)

/-- the positions `Add` writes -/
def addPositions (bl : Bloom) (hash : BitVec 64) : List (BitVec 64) :=
  (List.range bl.setLocs.toNat).map fun i =>
    addPos (addH hash bl.shift) (BitVec.ofNat 64 i) (addL hash bl.shift) bl.size
/-- the positions `Has` reads -/
def hasPositions (bl : Bloom) (hash : BitVec 64) : List (BitVec 64) :=
  (List.range bl.setLocs.toNat).map fun i =>
    hasPos (hasH hash bl.shift) (BitVec.ofNat 64 i) (hasL hash bl.shift) bl.size

theorem positions_same (bl : Bloom) (hash : BitVec 64) : addPositions bl hash = hasPositions bl hash := rfl

/-- every addressed bit index is `≤ bl.size` (the mask) -/
theorem addPositions_le (bl : Bloom) (hash : BitVec 64) : ∀ q ∈ addPositions bl hash, q.toNat ≤ bl.size.toNat := by
  intro q hq
  simp only [addPositions, List.mem_map] at hq
  obtain ⟨i, _, rfl⟩ := hq
  unfold addPos
  rw [BitVec.toNat_and]
  exact Nat.and_le_right

/-- the filter's bit array is large enough for its mask -/
def InRange (bl : Bloom) : Prop := bl.size.toNat < bl.bytes.size * 8

theorem isSet_eq (bl : Bloom) (idx : BitVec 64) : isSet bl idx = bitAt bl.bytes idx.toNat := by
  unfold isSet bitAt
  rw [isSetBit_eq, isSetAddr_eq]

theorem setBit_bytes (bl : Bloom) (idx : BitVec 64) :
    (setBit bl idx).bytes =
      bl.bytes.set! (idx.toNat / 8) (bl.bytes[idx.toNat / 8]! ||| 1#8 <<< (idx.toNat % 8)) := by
  unfold setBit
  simp only [setAddr_eq, setMask_eq]

theorem bitAt_setBit (bl : Bloom) (idx : BitVec 64) (hin : idx.toNat / 8 < bl.bytes.size) (p : Nat) :
    bitAt (setBit bl idx).bytes p = (bitAt bl.bytes p || decide (idx.toNat = p)) := by
  rw [setBit_bytes]
  unfold bitAt
  by_cases hb : idx.toNat / 8 = p / 8
  · rw [← hb, get!_set!_self _ _ _ hin, or_bit _ _ _ (by omega)]
    congr 1
    simp only [decide_eq_decide]
    omega
  · rw [get!_set!_ne _ _ _ _ hb]
    have : ¬ idx.toNat = p := by intro h; rw [h] at hb; exact hb rfl
    simp [this]

/-- the body of `Add`'s loop over a list of positions -/
def setAll (bl : Bloom) (ps : List (BitVec 64)) : Bloom :=
  ps.foldl (fun s p => { setBit s p with elemNum := s.elemNum + 1#64 }) bl

theorem add_eq (bl : Bloom) (hash : BitVec 64) : add bl hash = setAll bl (addPositions bl hash) := by
  unfold add setAll addPositions
  rw [forLoop_lt bl.setLocs _ (fun i => addLoopCond_iff i bl.setLocs), List.foldl_map]

theorem has_eq (bl : Bloom) (hash : BitVec 64) :
    has bl hash = (hasPositions bl hash).all fun q => bitAt bl.bytes q.toNat := by
  unfold has hasPositions
  rw [allLoop_lt bl.setLocs _ (fun i => hasLoopCond_iff i bl.setLocs), List.all_map]
  congr 1
  funext i
  simp [isSet_eq]

theorem setAll_fields (bl : Bloom) (ps : List (BitVec 64)) :
    (setAll bl ps).size = bl.size ∧ (setAll bl ps).shift = bl.shift ∧ (setAll bl ps).setLocs = bl.setLocs ∧
    (setAll bl ps).sizeExp = bl.sizeExp ∧ (setAll bl ps).bytes.size = bl.bytes.size := by
  induction ps generalizing bl with
  | nil => simp [setAll]
  | cons p ps ih =>
    have := ih ({ setBit bl p with elemNum := bl.elemNum + 1#64 })
    simp only [setAll, List.foldl_cons] at this ⊢
    simpa [setBit] using this

theorem bitAt_setAll (bl : Bloom) (ps : List (BitVec 64)) (hin : ∀ q ∈ ps, q.toNat / 8 < bl.bytes.size) (p : Nat) :
    bitAt (setAll bl ps).bytes p = (bitAt bl.bytes p || ps.any fun q => decide (q.toNat = p)) := by
  induction ps generalizing bl with
  | nil => simp [setAll]
  | cons q ps ih =>
    have hq := hin q (by simp)
    have h1 := ih ({ setBit bl q with elemNum := bl.elemNum + 1#64 })
      (by intro r hr; simpa [setBit] using hin r (by simp [hr]))
    simp only [setAll, List.foldl_cons] at h1 ⊢
    rw [h1]
    show (bitAt (setBit bl q).bytes p || _) = _
    rw [bitAt_setBit bl q hq p]
    simp [Bool.or_assoc]

theorem inRange_positions (bl : Bloom) (h : InRange bl) (hash : BitVec 64) :
    ∀ q ∈ addPositions bl hash, q.toNat / 8 < bl.bytes.size := by
  intro q hq
  have := addPositions_le bl hash q hq
  unfold InRange at h
  omega

theorem add_fields (bl : Bloom) (hash : BitVec 64) :
    (add bl hash).size = bl.size ∧ (add bl hash).shift = bl.shift ∧ (add bl hash).setLocs = bl.setLocs ∧
    (add bl hash).sizeExp = bl.sizeExp ∧ (add bl hash).bytes.size = bl.bytes.size := by
  rw [add_eq]; exact setAll_fields _ _

theorem inRange_add (bl : Bloom) (h : InRange bl) (hash : BitVec 64) : InRange (add bl hash) := by
  have := add_fields bl hash
  unfold InRange at *
  rw [this.1, this.2.2.2.2]; exact h

/-- bit level: `Add` sets exactly the enumerated positions and clears nothing -/
theorem bitAt_add (bl : Bloom) (h : InRange bl) (hash : BitVec 64) (p : Nat) :
    bitAt (add bl hash).bytes p = (bitAt bl.bytes p || (addPositions bl hash).any fun q => decide (q.toNat = p)) := by
  rw [add_eq]; exact bitAt_setAll bl _ (inRange_positions bl h hash) p

theorem hasPositions_congr (a b : Bloom) (h1 : a.size = b.size) (h2 : a.shift = b.shift) (h3 : a.setLocs = b.setLocs)
    (hash : BitVec 64) : hasPositions a hash = hasPositions b hash := by
  unfold hasPositions; rw [h1, h2, h3]

theorem has_after_add (bl : Bloom) (h : InRange bl) (hash : BitVec 64) : has (add bl hash) hash = true := by
  have hf := add_fields bl hash
  rw [has_eq, hasPositions_congr _ bl hf.1 hf.2.1 hf.2.2.1, ← positions_same, List.all_eq_true]
  intro q hq
  rw [bitAt_add bl h]
  simp only [Bool.or_eq_true, List.any_eq_true, decide_eq_true_eq]
  exact Or.inr ⟨q, hq, rfl⟩

/-- set bits stay set: whatever `Has` reported before an `Add`, it still reports -/
theorem add_monotone (bl : Bloom) (h : InRange bl) (hash x : BitVec 64) (hx : has bl x = true) :
    has (add bl hash) x = true := by
  have hf := add_fields bl hash
  rw [has_eq, hasPositions_congr _ bl hf.1 hf.2.1 hf.2.2.1, List.all_eq_true]
  rw [has_eq, List.all_eq_true] at hx
  intro q hq
  rw [bitAt_add bl h, hx q hq]; rfl

/-! ### Clear -/
theorem bitAt_clear (bl : Bloom) (p : Nat) : bitAt (clear bl).bytes p = false := by
  unfold bitAt clear
  simp only
  by_cases h : p / 8 < bl.bytes.size
  · simp [h]
  · simp [h, show (default : BitVec 8) = 0#8 from rfl]

theorem has_clear (bl : Bloom) (hl : bl.setLocs ≠ 0#64) (hash : BitVec 64) : has (clear bl) hash = false := by
  rw [has_eq]
  have hn : 0 < bl.setLocs.toNat := by
    rcases Nat.eq_zero_or_pos bl.setLocs.toNat with h | h
    · exact absurd (BitVec.eq_of_toNat_eq (by simpa using h)) hl
    · exact h
  have : (clear bl).setLocs = bl.setLocs := rfl
  unfold hasPositions
  rw [this]
  obtain ⟨m, hm⟩ : ∃ m, bl.setLocs.toNat = m + 1 := ⟨bl.setLocs.toNat - 1, by omega⟩
  rw [hm, List.range_succ_eq_map]
  simp [bitAt_clear]

/-! ### AddIfNotHas -/
theorem addIfNotHas_flag (bl : Bloom) (hash : BitVec 64) : (addIfNotHas bl hash).2 = !has bl hash := by
  unfold addIfNotHas; cases has bl hash <;> simp

theorem addIfNotHas_state (bl : Bloom) (hash : BitVec 64) :
    (addIfNotHas bl hash).1 = if has bl hash then bl else add bl hash := by
  unfold addIfNotHas; cases has bl hash <;> simp

theorem has_after_addIfNotHas (bl : Bloom) (h : InRange bl) (hash : BitVec 64) :
    has (addIfNotHas bl hash).1 hash = true := by
  rw [addIfNotHas_state]
  cases hh : has bl hash
  · simpa using has_after_add bl h hash
  · simpa using hh

/-! ### sequences of mutating operations -/
inductive Op where
  | add (h : BitVec 64)
  | addIfNotHas (h : BitVec 64)

def step (bl : Bloom) : Op → Bloom
  | .add h => add bl h
  | .addIfNotHas h => (addIfNotHas bl h).1

def run (bl : Bloom) (ops : List Op) : Bloom := ops.foldl step bl

theorem inRange_step (bl : Bloom) (h : InRange bl) (op : Op) : InRange (step bl op) := by
  cases op with
  | add x => exact inRange_add bl h x
  | addIfNotHas x =>
    simp only [step, addIfNotHas_state]
    split
    · exact h
    · exact inRange_add bl h x

theorem step_monotone (bl : Bloom) (h : InRange bl) (op : Op) (x : BitVec 64) (hx : has bl x = true) :
    has (step bl op) x = true := by
  cases op with
  | add y => exact add_monotone bl h y x hx
  | addIfNotHas y =>
    simp only [step, addIfNotHas_state]
    split
    · exact hx
    · exact add_monotone bl h y x hx

theorem run_monotone (bl : Bloom) (h : InRange bl) (ops : List Op) (x : BitVec 64) (hx : has bl x = true) :
    has (run bl ops) x = true ∧ InRange (run bl ops) := by
  induction ops generalizing bl with
  | nil => exact ⟨hx, h⟩
  | cons op ops ih =>
    exact ih (step bl op) (inRange_step bl h op) (step_monotone bl h op x hx)

/-! ### well-formed filters -/
structure WF (bl : Bloom) : Prop where
  exp_lo : 9 ≤ bl.sizeExp.toNat
  exp_hi : bl.sizeExp.toNat ≤ 63
  size_eq : bl.size.toNat = 2 ^ bl.sizeExp.toNat - 1
  shift_eq : bl.shift.toNat = 64 - bl.sizeExp.toNat
  bytes_eq : bl.bytes.size = 2 ^ bl.sizeExp.toNat / 8

theorem pow_ge_512 (e : Nat) (h : 9 ≤ e) : 512 ≤ 2 ^ e := by
  have := Nat.pow_le_pow_right (n := 2) (by omega) h
  omega

theorem pow_div8 (e : Nat) (h : 9 ≤ e) : 2 ^ e / 8 * 8 = 2 ^ e := by
  obtain ⟨d, rfl⟩ : ∃ d, e = d + 3 := ⟨e - 3, by omega⟩
  rw [Nat.pow_add]; omega

theorem WF.inRange {bl : Bloom} (w : WF bl) : InRange bl := by
  unfold InRange
  rw [w.size_eq, w.bytes_eq, pow_div8 _ w.exp_lo]
  have := pow_ge_512 _ w.exp_lo
  omega

theorem new_fields (entries locs : BitVec 64) (k : Nat) (hk9 : 9 ≤ k) (hk : k ≤ 63)
    (hg : getSize entries = (BitVec.ofNat 64 (2 ^ k), BitVec.ofNat 64 k)) :
    new entries locs =
      { bytes := Array.replicate (2 ^ k / 8) 0#8, elemNum := 0#64, sizeExp := BitVec.ofNat 64 k,
        size := BitVec.ofNat 64 (2 ^ k - 1), setLocs := locs, shift := BitVec.ofNat 64 (64 - k) } := by
  unfold new
  rw [hg]
  simp only [numWords, newSizeMask, newShift]
  have hp := toNat_two_pow k hk
  have h512 := pow_ge_512 k hk9
  have h8 := pow_div8 k hk9
  congr 1
  · congr 1
    rw [BitVec.toNat_ushiftRight, hp, Nat.shiftRight_eq_div_pow]
    obtain ⟨d, rfl⟩ : ∃ d, k = d + 6 := ⟨k - 6, by omega⟩
    rw [Nat.pow_add]; omega
  · apply BitVec.eq_of_toNat_eq
    rw [BitVec.toNat_sub, hp]
    simp only [BitVec.toNat_ofNat]
    have : 2 ^ k < 2 ^ 64 := Nat.pow_lt_pow_right (by omega) (by omega)
    omega
  · apply BitVec.eq_of_toNat_eq
    rw [BitVec.toNat_sub]
    simp only [BitVec.toNat_ofNat]
    omega

/-! ### NewBloomFilter is well formed; JSON export / import -/
theorem exists_exp (u : Nat) (hu : u ≤ 2 ^ 63) :
    ∃ k, 9 ≤ k ∧ k ≤ 63 ∧ (∀ j, j < k → 2 ^ j < max u 512) ∧ max u 512 ≤ 2 ^ k := by
  have hm : max u 512 - 1 ≠ 0 := by omega
  refine ⟨(max u 512 - 1).log2 + 1, ?_, ?_, ?_, ?_⟩
  · have : 8 ≤ (max u 512 - 1).log2 := (Nat.le_log2 hm).2 (by omega)
    omega
  · have : (max u 512 - 1).log2 < 63 := (Nat.log2_lt hm).2 (by omega)
    omega
  · intro j hj
    have h1 : 2 ^ j ≤ 2 ^ (max u 512 - 1).log2 := Nat.pow_le_pow_right (by omega) (by omega)
    have h2 := Nat.log2_self_le hm
    omega
  · have := @Nat.lt_log2_self (max u 512 - 1)
    omega

theorem wf_of_fields (bytes : Array (BitVec 8)) (locs en : BitVec 64) (k : Nat) (hk9 : 9 ≤ k) (hk : k ≤ 63)
    (hb : bytes.size = 2 ^ k / 8) :
    WF { bytes := bytes, elemNum := en, sizeExp := BitVec.ofNat 64 k,
         size := BitVec.ofNat 64 (2 ^ k - 1), setLocs := locs, shift := BitVec.ofNat 64 (64 - k) } := by
  have hkk : (BitVec.ofNat 64 k).toNat = k := by rw [BitVec.toNat_ofNat]; omega
  have : 2 ^ k < 2 ^ 64 := Nat.pow_lt_pow_right (by omega) (by omega)
  constructor <;> simp only [hkk]
  · exact hk9
  · exact hk
  · rw [BitVec.toNat_ofNat]; omega
  · rw [BitVec.toNat_ofNat]; omega
  · exact hb

/-- `NewBloomFilter` yields a well-formed filter for every `entries ≤ 2^63` (also `0`) and every `locs` -/
theorem new_wf (entries locs : BitVec 64) (he : entries.toNat ≤ 2 ^ 63) : WF (new entries locs) := by
  obtain ⟨k, hk9, hk, hlo, hhi⟩ := exists_exp entries.toNat he
  rw [new_fields entries locs k hk9 hk (getSize_spec entries k hk hlo hhi)]
  exact wf_of_fields _ _ _ k hk9 hk (by simp)

theorem copy_spec (bs init : Array (BitVec 8)) (n : Nat) (hn : n ≤ init.size) :
    ((List.range n).foldl (fun a i => a.set! i bs[i]!) init).size = init.size ∧
    ∀ j, ((List.range n).foldl (fun a i => a.set! i bs[i]!) init)[j]! = if j < n then bs[j]! else init[j]! := by
  induction n with
  | zero => simp
  | succ n ih =>
    have ⟨ihs, ihe⟩ := ih (by omega)
    rw [List.range_succ, List.foldl_append]
    simp only [List.foldl_cons, List.foldl_nil]
    constructor
    · rw [size_set!]; exact ihs
    · intro j
      by_cases hj : n = j
      · subst hj
        rw [get!_set!_self _ _ _ (by omega)]; simp
      · rw [get!_set!_ne _ _ _ _ hj, ihe]
        by_cases h1 : j < n
        · simp [h1]; omega
        · simp [h1]; omega

theorem array_ext_get! (a b : Array (BitVec 8)) (hs : a.size = b.size) (h : ∀ j : Nat, a[j]! = b[j]!) : a = b := by
  apply Array.ext hs
  intro i h1 h2
  have := h i
  simpa [h1, h2] using this

theorem exportBytes_eq (bl : Bloom) (w : WF bl) : exportBytes bl = bl.bytes := by
  have h8 := pow_div8 _ w.exp_lo
  have hlt : 2 ^ bl.sizeExp.toNat < 2 ^ 64 := Nat.pow_lt_pow_right (by omega) (by have := w.exp_hi; omega)
  have hdiv : bl.bytes.size / 8 * 8 = bl.bytes.size := by
    rw [w.bytes_eq]
    obtain ⟨d, hd⟩ : ∃ d, bl.sizeExp.toNat = d + 6 := ⟨bl.sizeExp.toNat - 6, by have := w.exp_lo; omega⟩
    rw [hd, Nat.pow_add]; omega
  have hlen : (exportLen (words bl)).toNat = bl.bytes.size := by
    unfold exportLen words
    simp only [BitVec.toNat_shiftLeft, BitVec.toNat_ofNat, Array.size_ofFn, Nat.shiftLeft_eq, Nat.reducePow]
    have : bl.bytes.size < 2 ^ 64 := by rw [w.bytes_eq]; omega
    omega
  unfold exportBytes
  rw [hlen]
  apply array_ext_get!
  · simp
  · intro j
    by_cases hj : j < bl.bytes.size
    · simp [hj]
    · simp [hj]

theorem importBytes_eq (bl : Bloom) (w : WF bl) :
    importBytes bl.bytes bl.setLocs = { bl with elemNum := 0#64 } := by
  have hk9 := w.exp_lo
  have hk := w.exp_hi
  have h8 := pow_div8 _ hk9
  have hlt : 2 ^ bl.sizeExp.toNat < 2 ^ 64 := Nat.pow_lt_pow_right (by omega) (by omega)
  have hent : (importEntries bl.bytes).toNat = 2 ^ bl.sizeExp.toNat := by
    unfold importEntries
    simp only [BitVec.toNat_shiftLeft, BitVec.toNat_ofNat, Nat.shiftLeft_eq, w.bytes_eq, Nat.reducePow]
    omega
  have h512 := pow_ge_512 _ hk9
  have hg := getSize_spec (importEntries bl.bytes) bl.sizeExp.toNat hk
    (by
      intro j hj; rw [hent]
      have : 2 ^ j < 2 ^ bl.sizeExp.toNat := Nat.pow_lt_pow_right (by omega) hj
      omega)
    (by rw [hent]; omega)
  unfold importBytes
  rw [new_fields _ _ _ hk9 hk hg]
  simp only
  have hc := copy_spec bl.bytes (Array.replicate (2 ^ bl.sizeExp.toNat / 8) 0#8) bl.bytes.size (by simp [w.bytes_eq])
  have hbytes : (List.range bl.bytes.size).foldl (fun a i => a.set! i bl.bytes[i]!)
      (Array.replicate (2 ^ bl.sizeExp.toNat / 8) 0#8) = bl.bytes := by
    apply array_ext_get!
    · rw [hc.1]; simp [w.bytes_eq]
    · intro j
      rw [hc.2]
      by_cases hj : j < bl.bytes.size
      · simp [hj]
      · have : ¬ j < 2 ^ bl.sizeExp.toNat / 8 := by rw [← w.bytes_eq]; exact hj
        simp [hj, this]
  rw [hbytes]
  have e1 : BitVec.ofNat 64 bl.sizeExp.toNat = bl.sizeExp := by simp
  have e2 : BitVec.ofNat 64 (2 ^ bl.sizeExp.toNat - 1) = bl.size := by rw [← w.size_eq]; simp
  have e3 : BitVec.ofNat 64 (64 - bl.sizeExp.toNat) = bl.shift := by rw [← w.shift_eq]; simp
  rw [e1, e2, e3]

theorem has_elemNum (bl : Bloom) (n : BitVec 64) (hash : BitVec 64) : has { bl with elemNum := n } hash = has bl hash := rfl

/-! ### the word view (little-endian assumption) -/
theorem byte_hi (b : BitVec 8) (i : Nat) (h : 8 ≤ i) : b.getLsbD i = false := BitVec.getLsbD_of_ge b i h

/-- little-endian reading: bit `j` of word `w` is bit `64w + j` of the byte view -/
theorem word_bit (bytes : Array (BitVec 8)) (w j : Nat) (hj : j < 64) :
    (word bytes w).getLsbD j = bitAt bytes (w * 64 + j) := by
  have hr : List.range 8 = [0, 1, 2, 3, 4, 5, 6, 7] := by decide
  have ha : (w * 64 + j) / 8 = w * 8 + j / 8 := by omega
  have hb : (w * 64 + j) % 8 = j % 8 := by omega
  unfold word bitAt
  rw [hr, ha, hb]
  simp only [List.foldl_cons, List.foldl_nil, BitVec.getLsbD_or, BitVec.getLsbD_shiftLeft,
    BitVec.getLsbD_setWidth, BitVec.getLsbD_zero, Bool.false_or, hj, decide_true, Bool.true_and]
  have hcases : j / 8 = 0 ∨ j / 8 = 1 ∨ j / 8 = 2 ∨ j / 8 = 3 ∨ j / 8 = 4 ∨ j / 8 = 5 ∨ j / 8 = 6 ∨ j / 8 = 7 := by omega
  have key : ∀ i, i < 8 → ((!decide (j < 8 * i)) && (decide (j - 8 * i < 64) && bytes[w * 8 + i]!.getLsbD (j - 8 * i)))
      = (decide (j / 8 = i) && bytes[w * 8 + i]!.getLsbD (j % 8)) := by
    intro i hi
    by_cases h1 : j / 8 = i
    · have e1 : j - 8 * i = j % 8 := by omega
      have e2 : ¬ j < 8 * i := by omega
      have e3 : j % 8 < 64 := by omega
      simp [h1, e1, e2, e3]
    · by_cases h2 : j < 8 * i
      · simp [h1, h2]
      · have : bytes[w * 8 + i]!.getLsbD (j - 8 * i) = false := byte_hi _ _ (by omega)
        simp [h1, this]
  rw [key 0 (by omega), key 1 (by omega), key 2 (by omega), key 3 (by omega), key 4 (by omega), key 5 (by omega), key 6 (by omega), key 7 (by omega)]
  rcases hcases with h | h | h | h | h | h | h | h <;> simp [h]
end RV.Bloom
