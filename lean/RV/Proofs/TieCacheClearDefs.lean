import RV.Gen.CacheC
import RV.Proofs.TieCacheAppDefs
/-!
# TieCacheClear, definitions: the model's instance of the generated interface `Gen.CacheC.Iface`
# (what the sections of `Cache.Clear` call) and the abstraction from the parking points of `Clear`
# to the model's client program counters

* `stop_send` / `done_recv` always park: `stop` and `done` are unbuffered, the rendezvous are the
  applier's `selStop` step and `Action.done` of the model, after which the goroutine is at the parking
  point `Clear_unblocked` names;
* `setBuf_tryRecv` := the model's `recvBuf` (which may complete one blocked sender's send); the Go
  value bound by the receive is `rep e` for a representation function `rep` (hypothesis of the drain
  theorem: `RepElem e (rep e).1 (rep e).2`);
* `policy_Clear` := costs and `used` reset; `Metrics_Clear` := all counters zero, `Metrics_nonnil` :=
  `Cfg.metricsOn`; `onEvict` := `cbEvict`; `go c.processItems()` := the applier is idle again.
`closing` says whether this `Clear` runs inside `Close` (the model's `Close` shares `Clear`'s pcs).
-/
namespace RV.TieCacheClear
open RV RV.Cache Gen.Cache Gen.CacheC RV.TieCache RV.TieCacheApp

def cI (cfg : Cfg) (rep : BufElem → GItem × Option Nat) : Iface State Key Nat where
  zeroV := 0
  isClosed := fun s => s.closed
  policy_Clear := fun s => { s with pol := { s.pol with costs := AMap.empty, used := 0 } }
  Metrics_Clear := fun s => { s with met := {} }
  Metrics_nonnil := cfg.metricsOn
  onEvict := fun s i => cbEvict s i.Key i.Conflict i.Value i.Cost.toInt
  go_processItems := fun s => { s with app := .idle }
  chan_close := fun s o =>
    match o with
    | some id => { s with closedMarkers := id :: s.closedMarkers }
    | none => s
  done_recv := fun s => (s, false)
  stop_send := fun s _ => (s, false)
  setBuf_tryRecv := fun s =>
    match recvBuf s with
    | none => none
    | some (e, s1) => some (s1, (rep e).1, (rep e).2)

/-- parking point of `Clear` ↦ client program counter (several parking points per pc: the code has
more yield points than the model has steps) -/
def pcClr (closing : Bool) : Clear_Out Key Nat → CPc
  | .ret => if closing then .clsStop else .idle
  | .vpClearStopSent_blocked => .clrStop closing
  | .vpClearStopSent => .clrDone closing
  | .vpClearDone_blocked => .clrDone closing
  | .vpClearDone => .clrDrain closing
  | .loop => .clrDrain closing
  | .vpClearDrained => .clrPolicy closing
  | .vpClearPolicy => .clrShard closing 0
  | .call_store_Clear => .clrShard closing 0
  | .vpClearStore => .clrMetrics closing
  | .vpClearMetrics => .clrRestart closing

/-- the model state after a section of `Clear` run by thread `t`: the pc of the parking point; on
return the `clearRet` event, or — inside `Close` — the pc of `Close`'s second `stop` -/
def landClr (t : Tid) (closing : Bool) : State × Clear_Out Key Nat → State
  | (w, .ret) => if closing then setCl w t .clsStop else logEv (setCl w t .idle) (.clearRet t)
  | (w, o) => setCl w t (pcClr closing o)

end RV.TieCacheClear
