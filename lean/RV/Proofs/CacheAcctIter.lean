import RV.Proofs.CacheAcctStore
/-!
# IterValues: what one whole call enumerates

`iterAll st now n orders seen` is the loop of `shardedMap.IterValues` over the shard
enumerations `orders` (one key order per shard) on a fixed store at a fixed clock, with a
callback that asks to stop at its `n`-th call (`n = 0`: never).  `iterAll_spec`: the values
seen are the values of the unexpired entries in enumeration order, cut after the `n`-th.
`orders_keys`: the concatenated enumerations list every stored key exactly once.
-/
namespace RV.Cache
open RV Gen.Cache

/-- the value `IterValues` passes to the callback for key `h` (none: absent or expired) -/
def liveVal (st : Store) (now : Time) (h : Hash) : Option Val :=
  match st.lookup h with
  | some e => if iterExpired e.exp now then none else some e.value
  | none => none

def iterAll (st : Store) (now : Time) (n : Nat) : List (List Hash) → List Val → List Val × Bool
  | [], seen => (seen, false)
  | ks :: rest, seen =>
    if (iterVisit st now n ks seen).2 then iterVisit st now n ks seen
    else iterAll st now n rest (iterVisit st now n ks seen).1

/-- the result of visiting keys whose live values are `vs`, having seen `seen` before -/
def cutAt (n : Nat) (seen vs : List Val) : List Val × Bool :=
  if n ≠ 0 ∧ n ≤ seen.length + vs.length then (seen ++ vs.take (n - seen.length), true) else (seen ++ vs, false)

theorem iterVisit_spec (st : Store) (now : Time) (n : Nat) (ks : List Hash) (seen : List Val)
    (h : n = 0 ∨ seen.length < n) :
    iterVisit st now n ks seen = cutAt n seen (ks.filterMap (liveVal st now)) := by
  induction ks generalizing seen with
  | nil =>
    unfold iterVisit cutAt
    simp only [List.filterMap_nil, List.length_nil, Nat.add_zero, List.append_nil]
    rw [if_neg]
    omega
  | cons k rest ih =>
    unfold iterVisit
    cases hl : st.lookup k with
    | none =>
      have : liveVal st now k = none := by unfold liveVal; rw [hl]
      simp only [List.filterMap_cons, this]
      exact ih seen h
    | some e =>
      dsimp only
      by_cases hx : iterExpired e.exp now = true
      · have : liveVal st now k = none := by unfold liveVal; rw [hl]; simp [hx]
        simp only [List.filterMap_cons, this, hx, if_true]
        exact ih seen h
      · have hlv : liveVal st now k = some e.value := by unfold liveVal; rw [hl]; simp [hx]
        simp only [List.filterMap_cons, hlv, hx]
        simp only [Bool.false_eq_true, if_false]
        by_cases hstop : n ≠ 0 ∧ (seen ++ [e.value]).length = n
        · rw [if_pos hstop]
          unfold cutAt
          simp only [List.length_append, List.length_cons, List.length_nil] at hstop
          rw [if_pos ⟨hstop.1, by simp only [List.length_cons]; omega⟩]
          have : n - seen.length = 1 := by omega
          rw [this]; simp
        · rw [if_neg hstop]
          have hlen : (seen ++ [e.value]).length = seen.length + 1 := by simp
          rw [ih (seen ++ [e.value]) (by rw [hlen] at hstop ⊢; omega)]
          unfold cutAt
          rw [hlen] at hstop
          simp only [hlen, List.length_cons]
          by_cases hc : n ≠ 0 ∧ n ≤ seen.length + 1 + (List.filterMap (liveVal st now) rest).length
          · rw [if_pos hc, if_pos ⟨hc.1, by omega⟩]
            have : n - seen.length = (n - (seen.length + 1)) + 1 := by omega
            rw [this, List.take_succ_cons]; simp
          · rw [if_neg hc, if_neg (by omega)]; simp

theorem iterAll_spec (st : Store) (now : Time) (n : Nat) (orders : List (List Hash)) (seen : List Val)
    (h : n = 0 ∨ seen.length < n) :
    iterAll st now n orders seen = cutAt n seen (orders.flatten.filterMap (liveVal st now)) := by
  induction orders generalizing seen with
  | nil =>
    unfold iterAll cutAt
    simp only [List.flatten_nil, List.filterMap_nil, List.length_nil, Nat.add_zero, List.append_nil]
    rw [if_neg]; omega
  | cons ks rest ih =>
    unfold iterAll
    rw [iterVisit_spec st now n ks seen h]
    simp only [List.flatten_cons, List.filterMap_append]
    generalize ks.filterMap (liveVal st now) = v1
    generalize rest.flatten.filterMap (liveVal st now) = v2 at ih ⊢
    by_cases hc : n ≠ 0 ∧ n ≤ seen.length + v1.length
    · have h1 : cutAt n seen v1 = (seen ++ v1.take (n - seen.length), true) := by unfold cutAt; rw [if_pos hc]
      rw [h1]; simp only [if_true]
      unfold cutAt
      rw [if_pos ⟨hc.1, by simp only [List.length_append]; omega⟩]
      rw [List.take_append_of_le_length (by omega)]
    · have h1 : cutAt n seen v1 = (seen ++ v1, false) := by unfold cutAt; rw [if_neg hc]
      rw [h1]; simp only [Bool.false_eq_true, if_false]
      rw [ih (seen ++ v1) (by simp only [List.length_append]; omega)]
      unfold cutAt
      simp only [List.length_append]
      by_cases hc2 : n ≠ 0 ∧ n ≤ seen.length + v1.length + v2.length
      · rw [if_pos hc2, if_pos ⟨hc2.1, by omega⟩]
        have : n - seen.length = v1.length + (n - (seen.length + v1.length)) := by omega
        rw [this, List.take_length_add_append]; simp
      · rw [if_neg hc2, if_neg (by omega)]; simp

/-! ### the enumerations cover every stored key once -/

/-- pigeonhole: a list that contains a duplicate-free list and is not longer is duplicate-free and
has the same elements -/
theorem nodup_of_cover {α : Type} [DecidableEq α] (sk ks : List α) (hn : sk.Nodup) (hsub : ∀ x ∈ sk, x ∈ ks)
    (hlen : ks.length ≤ sk.length) : ks.Nodup ∧ ∀ x ∈ ks, x ∈ sk := by
  induction sk generalizing ks with
  | nil =>
    have : ks = [] := List.eq_nil_of_length_eq_zero (by simpa using hlen)
    subst this; exact ⟨List.nodup_nil, fun _ h => h⟩
  | cons a sk' ih =>
    have ha : a ∈ ks := hsub a List.mem_cons_self
    have hn' := List.nodup_cons.mp hn
    have hlen' : (ks.erase a).length ≤ sk'.length := by
      rw [List.length_erase_of_mem ha]; simp only [List.length_cons] at hlen; omega
    have hsub' : ∀ x ∈ sk', x ∈ ks.erase a := by
      intro x hx
      have hne : x ≠ a := fun e => hn'.1 (e ▸ hx)
      exact (List.mem_erase_of_ne hne).mpr (hsub x (List.mem_cons_of_mem _ hx))
    obtain ⟨h1, h2⟩ := ih (ks.erase a) hn'.2 hsub' hlen'
    have hperm : ks.Perm (a :: ks.erase a) := List.perm_cons_erase ha
    have hna : a ∉ ks.erase a := fun hm => hn'.1 (h2 a hm)
    refine ⟨(List.nodup_cons.mpr ⟨hna, h1⟩).perm hperm.symm, ?_⟩
    intro x hx
    by_cases e : x = a
    · subst e; exact List.mem_cons_self
    · exact List.mem_cons_of_mem _ (h2 x ((List.mem_erase_of_ne e).mpr hx))

theorem shardKeys_nodup {st : Store} (hn : AMap.NodupKeys st) (k : Nat) : (shardKeys st k).Nodup := by
  unfold shardKeys
  exact List.Nodup.sublist List.filter_sublist hn

theorem isShardOrder_nodup {st : Store} (hn : AMap.NodupKeys st) {k : Nat} {ks : List Hash}
    (ho : isShardOrder st k ks = true) : ks.Nodup := by
  have ho' := ho
  unfold isShardOrder at ho'
  simp only [Bool.and_eq_true, List.all_eq_true, beq_iff_eq] at ho'
  refine (nodup_of_cover (shardKeys st k) ks (shardKeys_nodup hn k) ?_ (by omega)).1
  intro x hx
  simpa using ho'.2 x hx

/-- `orders` enumerates shards `0 … orders.length − 1` of the store -/
def OrdersOk (st : Store) (orders : List (List Hash)) : Prop :=
  ∀ k (hk : k < orders.length), isShardOrder st k orders[k] = true

theorem orders_flatten_mem {st : Store} {orders : List (List Hash)} (ho : OrdersOk st orders) {h : Hash} :
    h ∈ orders.flatten ↔ ((st.lookup h).isSome = true ∧ shardIdx h < orders.length) := by
  rw [List.mem_flatten]
  constructor
  · rintro ⟨ks, hks, hm⟩
    obtain ⟨k, hk, rfl⟩ := List.getElem_of_mem hks
    have := isShardOrder_sub (ho k hk) hm
    exact ⟨this.1, by rw [this.2]; exact hk⟩
  · rintro ⟨hs, hk⟩
    exact ⟨orders[shardIdx h], List.getElem_mem hk, isShardOrder_mem (ho _ hk) hs rfl⟩

theorem flatten_nodup_from {st : Store} (hn : AMap.NodupKeys st) (orders : List (List Hash)) (k0 : Nat)
    (ho : ∀ j (hj : j < orders.length), isShardOrder st (k0 + j) orders[j] = true) :
    orders.flatten.Nodup ∧ ∀ h ∈ orders.flatten, k0 ≤ shardIdx h := by
  induction orders generalizing k0 with
  | nil => simp
  | cons ks rest ih =>
    have hks : isShardOrder st k0 ks = true := by
      have := ho 0 (by simp)
      simpa only [Nat.add_zero, List.getElem_cons_zero] using this
    have hrest : ∀ j (hj : j < rest.length), isShardOrder st (k0 + 1 + j) rest[j] = true := by
      intro j hj
      have := ho (j + 1) (by simp only [List.length_cons]; omega)
      simp only [List.getElem_cons_succ] at this
      rwa [show k0 + (j + 1) = k0 + 1 + j by omega] at this
    obtain ⟨h1, h2⟩ := ih (k0 + 1) hrest
    rw [List.flatten_cons]
    refine ⟨List.nodup_append.mpr ⟨isShardOrder_nodup hn hks, h1, ?_⟩, ?_⟩
    · intro a ha b hb e
      subst e
      have := (isShardOrder_sub hks ha).2
      have := h2 a hb
      omega
    · intro h hm
      rcases List.mem_append.mp hm with hm | hm
      · have := (isShardOrder_sub hks hm).2; omega
      · have := h2 h hm; omega

theorem orders_flatten_nodup {st : Store} (hn : AMap.NodupKeys st) (orders : List (List Hash))
    (ho : OrdersOk st orders) : orders.flatten.Nodup :=
  (flatten_nodup_from hn orders 0 (fun j hj => by simpa using ho j hj)).1

/-- With one enumeration per shard, every stored key is listed exactly once. -/
theorem orders_keys {st : Store} (hn : AMap.NodupKeys st) {orders : List (List Hash)} (ho : OrdersOk st orders)
    (hlen : orders.length = numShards.toNat) :
    orders.flatten.Nodup ∧ ∀ h, h ∈ orders.flatten ↔ (st.lookup h).isSome = true := by
  refine ⟨orders_flatten_nodup hn orders ho, fun h => ?_⟩
  rw [orders_flatten_mem ho]
  have h256 : numShards.toNat = 256 := by decide
  have : shardIdx h < 256 := by
    unfold shardIdx shardOf; rw [BitVec.toNat_umod]; exact Nat.mod_lt _ (by decide)
  constructor
  · exact fun h1 => h1.1
  · exact fun h1 => ⟨h1, by omega⟩

/-! ### a whole uninterrupted `IterValues` call of the model -/

/-- Thread `t` is about to visit shard `k` having seen `seen`; `orders` are enumerations of the
remaining shards `k, k+1, …`.  Running `t`'s shard steps back to back (nobody else moves, the clock
stands still) ends — after the first shard in which the callback stops, or after the last shard —
with the event `iterRet t (iterAll … orders seen).1`. -/
theorem iter_run (cfg : Cfg) (t : Tid) (n : Nat) (orders : List (List Hash)) :
    ∀ (s : State) (k : Nat) (seen : List Val), s.cl t = .iterShard k n seen →
      k + orders.length = numShards.toNat → orders ≠ [] →
      (∀ j (hj : j < orders.length), isShardOrder s.store (k + j) orders[j] = true) →
      ∃ m s', m ≤ orders.length ∧
        run cfg s ((orders.take m).map fun ks => Action.client t (.order ks)) = some s' ∧
        s'.log = .iterRet t (iterAll s.store s.clock n orders seen).1 :: s.log ∧ s'.cl t = .idle ∧
        s'.store = s.store := by
  induction orders with
  | nil => intro s k seen _ _ hne; exact absurd rfl hne
  | cons ks rest ih =>
    intro s k seen hpc hlen _ ho
    have hks : isShardOrder s.store k ks = true := by
      have := ho 0 (by simp)
      simpa only [Nat.add_zero, List.getElem_cons_zero] using this
    have hk : k < numShards.toNat := by simp only [List.length_cons] at hlen; omega
    have hstep : step cfg s (.client t (.order ks)) = stIterShard s t k n seen (.order ks) := by
      simp [step, clientStep, hpc]
    have hst : stIterShard s t k n seen (.order ks) =
        (if (iterVisit s.store s.clock n ks seen).2 = true ∨ k + 1 = numShards.toNat
         then some (logEv (setCl s t .idle) (.iterRet t (iterVisit s.store s.clock n ks seen).1))
         else some (setCl s t (.iterShard (k + 1) n (iterVisit s.store s.clock n ks seen).1))) := by
      unfold stIterShard
      simp only [ge_iff_le, Nat.not_le.mpr hk, if_false, hks, Bool.not_true, Bool.false_eq_true]
    by_cases hc : (iterVisit s.store s.clock n ks seen).2 = true ∨ k + 1 = numShards.toNat
    · refine ⟨1, logEv (setCl s t .idle) (.iterRet t (iterVisit s.store s.clock n ks seen).1), by simp, ?_, ?_, by simp, rfl⟩
      · simp only [List.take_succ_cons, List.take_zero, List.map_cons, List.map_nil, run, hstep, hst, if_pos hc]
      · simp only [logEv_log, setCl_log, List.cons.injEq, and_true]
        unfold iterAll
        rcases hc with hc | hc
        · rw [if_pos hc]
        · have : rest = [] := by
            simp only [List.length_cons] at hlen
            exact List.eq_nil_of_length_eq_zero (by omega)
          subst this
          split
          · rfl
          · rfl
    · have hc1 : (iterVisit s.store s.clock n ks seen).2 = false := by
        cases h1 : (iterVisit s.store s.clock n ks seen).2
        · rfl
        · exact absurd (Or.inl h1) hc
      have hrest : rest ≠ [] := by
        intro e; subst e
        simp only [List.length_cons, List.length_nil] at hlen
        exact hc (Or.inr (by omega))
      obtain ⟨m, s', hm, hrun, hlog, hcl, hstore⟩ :=
        ih (setCl s t (.iterShard (k + 1) n (iterVisit s.store s.clock n ks seen).1)) (k + 1)
          (iterVisit s.store s.clock n ks seen).1 (by simp)
          (by simp only [List.length_cons] at hlen; omega) hrest
          (by
            intro j hj
            have := ho (j + 1) (by simp only [List.length_cons]; omega)
            simp only [List.getElem_cons_succ] at this
            rwa [show k + (j + 1) = k + 1 + j by omega] at this)
      refine ⟨m + 1, s', by simp only [List.length_cons]; omega, ?_, ?_, hcl, hstore⟩
      · simp only [List.take_succ_cons, List.map_cons, run, hstep, hst, if_neg hc]
        exact hrun
      · rw [hlog]
        simp only [setCl_log, setCl_store, setCl_clock]
        congr 2
        conv => rhs; unfold iterAll
        rw [hc1]; simp

end RV.Cache
