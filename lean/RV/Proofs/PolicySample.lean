import RV.Proofs.PolicyBridge
/-!
`fillSample`, the minimum scan and the swap-remove of `defaultPolicy.Add`, characterised in
plain list terms.
-/
namespace RV.Policy
open Gen.Policy

/-! ### fillSample: append from the enumeration until `lfuSample` entries -/

theorem fillGo_eq_take (enum s : List KC) (hs : s.length < lfuSample.toNat) :
    fillGo s enum = s ++ enum.take (lfuSample.toNat - s.length) := by
  have h5 := lfuSample_eq
  induction enum generalizing s with
  | nil => simp [fillGo]
  | cons kc rest ih =>
    simp only [fillGo]
    have hl : (s ++ [kc]).length = s.length + 1 := by simp
    rw [fullAfter_eq (by rw [hl]; omega), hl]
    by_cases h : lfuSample.toNat ≤ s.length + 1
    · simp only [h, decide_true, if_true]
      have : lfuSample.toNat - s.length = 1 := by omega
      rw [this]; simp
    · simp only [h, decide_false, Bool.false_eq_true, if_false]
      rw [ih (s ++ [kc]) (by rw [hl]; omega), hl]
      have : lfuSample.toNat - s.length = (lfuSample.toNat - (s.length + 1)) + 1 := by omega
      rw [this, List.take_succ_cons]
      simp

/-- `fillSample` appends a prefix of the enumeration: as many pairs as fit below `lfuSample`. -/
theorem fillSample_eq_take (s enum : List KC) (hlen : s.length < 2 ^ 63) :
    fillSample s enum = s ++ enum.take (lfuSample.toNat - s.length) := by
  unfold fillSample
  rw [fullBefore_eq hlen]
  by_cases h : lfuSample.toNat ≤ s.length
  · simp only [h, decide_true, if_true]
    have : lfuSample.toNat - s.length = 0 := by omega
    rw [this]; simp
  · simp only [h, decide_false, Bool.false_eq_true, if_false]
    exact fillGo_eq_take enum s (by omega)

theorem mem_fillSample {s enum : List KC} (hlen : s.length < 2 ^ 63) {x : KC}
    (h : x ∈ fillSample s enum) : x ∈ s ∨ x ∈ enum := by
  rw [fillSample_eq_take s enum hlen, List.mem_append] at h
  rcases h with h | h
  · exact Or.inl h
  · exact Or.inr (List.mem_of_mem_take h)

theorem length_fillSample (s enum : List KC) (hlen : s.length < 2 ^ 63) :
    (fillSample s enum).length = s.length + min (lfuSample.toNat - s.length) enum.length := by
  rw [fillSample_eq_take s enum hlen]; simp

theorem fillSample_ne_nil {s enum : List KC} (hlen : s.length < 2 ^ 63)
    (h : s ≠ [] ∨ enum ≠ []) : fillSample s enum ≠ [] := by
  intro he
  have hl := length_fillSample s enum hlen
  rw [he] at hl
  simp only [List.length_nil] at hl
  have h5 := lfuSample_eq
  rcases h with h | h
  · exact h (List.length_eq_zero_iff.1 (by omega))
  · have : enum.length ≠ 0 := fun e => h (List.length_eq_zero_iff.1 e)
    have hs : s.length = 0 := by omega
    rw [hs] at hl
    omega

/-! ### the minimum scan -/

theorem scanInit_hits : scanInit.hits = 2 ^ 63 - 1 := minHitsInit_eq

theorem scanFrom_spec {est : Hash → Int} (hest : EstOK est) (s : List KC) (i : Nat) (m : MinSt)
    (hm : I64 m.hits) :
    (scanFrom est i m s = m ∧ ∀ kc ∈ s, m.hits ≤ est kc.1) ∨
    (∃ j, j < s.length ∧ (scanFrom est i m s).id = i + j ∧
      s[j]? = some ((scanFrom est i m s).key, (scanFrom est i m s).cost) ∧
      (scanFrom est i m s).hits = est (scanFrom est i m s).key ∧
      (scanFrom est i m s).hits < m.hits ∧
      (∀ kc ∈ s, (scanFrom est i m s).hits ≤ est kc.1) ∧
      (∀ j' < j, ∀ kc, s[j']? = some kc → (scanFrom est i m s).hits < est kc.1)) := by
  induction s generalizing i m with
  | nil => left; simp [scanFrom]
  | cons kc rest ih =>
    have hk : I64 (est kc.1) := by have := hest kc.1; unfold I64; omega
    simp only [scanFrom]
    rw [hitsLess_eq hk hm]
    by_cases hlt : est kc.1 < m.hits
    · simp only [hlt, decide_true, if_true]
      rcases ih (i + 1) { key := kc.1, hits := est kc.1, id := i, cost := kc.2 } hk with ⟨he, hall⟩ | ⟨j, hj, hid, hget, hh, hlt', hall, hfirst⟩
      · right
        refine ⟨0, by simp, ?_, ?_, ?_, ?_, ?_, ?_⟩
        · rw [he]; simp
        · rw [he]; simp
        · rw [he]
        · rw [he]; exact hlt
        · rw [he]; intro x hx
          rcases List.mem_cons.1 hx with hx | hx
          · subst hx; exact Int.le_refl _
          · exact hall x hx
        · intro j' hj'; omega
      · right
        refine ⟨j + 1, by simp; omega, by omega, by simpa using hget, hh, by simp only at hlt'; omega, ?_, ?_⟩
        · intro x hx
          rcases List.mem_cons.1 hx with hx | hx
          · subst hx; simp only at hlt'; omega
          · exact hall x hx
        · intro j' hj' x hx
          cases j' with
          | zero => simp at hx; subst hx; exact hlt'
          | succ j'' => exact hfirst j'' (by omega) x (by simpa using hx)
    · simp only [hlt, decide_false, Bool.false_eq_true, if_false]
      rcases ih (i + 1) m hm with ⟨he, hall⟩ | ⟨j, hj, hid, hget, hh, hlt', hall, hfirst⟩
      · left
        refine ⟨he, ?_⟩
        intro x hx
        rcases List.mem_cons.1 hx with hx | hx
        · subst hx; omega
        · exact hall x hx
      · right
        refine ⟨j + 1, by simp; omega, by omega, by simpa using hget, hh, hlt', ?_, ?_⟩
        · intro x hx
          rcases List.mem_cons.1 hx with hx | hx
          · subst hx; omega
          · exact hall x hx
        · intro j' hj' x hx
          cases j' with
          | zero => simp at hx; subst hx; omega
          | succ j'' => exact hfirst j'' (by omega) x (by simpa using hx)

theorem scan_nil (est : Hash → Int) : scan est [] = scanInit := rfl

/-- On a non-empty sample the scan returns the **first** entry attaining the minimum estimate. -/
theorem scan_spec {est : Hash → Int} (hest : EstOK est) {s : List KC} (hs : s ≠ []) :
    (scan est s).id < s.length ∧
    s[(scan est s).id]? = some ((scan est s).key, (scan est s).cost) ∧
    (scan est s).hits = est (scan est s).key ∧
    (∀ kc ∈ s, (scan est s).hits ≤ est kc.1) ∧
    (∀ j < (scan est s).id, ∀ kc, s[j]? = some kc → (scan est s).hits < est kc.1) := by
  have hi : I64 scanInit.hits := by rw [scanInit_hits]; unfold I64; omega
  unfold scan
  rcases scanFrom_spec hest s 0 scanInit hi with ⟨_, hall⟩ | ⟨j, hj, hid, hget, hh, _, hall, hfirst⟩
  · exfalso
    cases s with
    | nil => exact hs rfl
    | cons kc rest =>
      have h1 := hall kc List.mem_cons_self
      have h2 := hest kc.1
      rw [scanInit_hits] at h1; omega
  · have hid' : (scanFrom est 0 scanInit s).id = j := by omega
    rw [hid']
    exact ⟨hj, hget, hh, hall, hfirst⟩

/-- On an empty sample the scan keeps `minHits = MaxInt64`: every `int64` estimate below it is rejected. -/
theorem scan_nil_hits (est : Hash → Int) : (scan est []).hits = 2 ^ 63 - 1 := scanInit_hits

theorem scan_hits_I64 {est : Hash → Int} (hest : EstOK est) (s : List KC) : I64 (scan est s).hits := by
  cases s with
  | nil => rw [scan_nil_hits]; unfold I64; omega
  | cons kc rest =>
    have h := (scan_spec hest (s := kc :: rest) (by simp)).2.2.1
    rw [h]; have := hest (scan est (kc :: rest)).key; unfold I64; omega

/-! ### swap-remove -/

theorem lastIdx_toNat {n : Nat} (h0 : 0 < n) (h : n < 2 ^ 63) :
    (addLastIdx (BitVec.ofNat 64 n)).toNat = n - 1 := by
  unfold addLastIdx
  rw [BitVec.toNat_sub]
  simp only [BitVec.toNat_ofNat]
  omega

theorem newLen_toNat {n : Nat} (h0 : 0 < n) (h : n < 2 ^ 63) :
    (addNewLen (BitVec.ofNat 64 n)).toNat = n - 1 := by
  unfold addNewLen
  rw [BitVec.toNat_sub]
  simp only [BitVec.toNat_ofNat]
  omega

theorem swapDst_toNat {n : Nat} (h : n < 2 ^ 63) : (addSwapDst (BitVec.ofNat 64 n)).toNat = n := by
  unfold addSwapDst
  simp only [BitVec.toNat_ofNat]
  omega

/-- `sample[minId] = sample[len-1]; sample = sample[:len-1]` in list terms. -/
theorem swapRemove_eq {s : List KC} {i : Nat} (hi : i < s.length) (hlen : s.length < 2 ^ 63) :
    ∃ x, s[s.length - 1]? = some x ∧ swapRemove s i = some ((s.set i x).take (s.length - 1)) := by
  have h0 : 0 < s.length := by omega
  have hx : s.length - 1 < s.length := by omega
  refine ⟨s[s.length - 1], List.getElem?_eq_getElem hx, ?_⟩
  unfold swapRemove
  rw [lastIdx_toNat h0 hlen, List.getElem?_eq_getElem hx]
  simp only [swapDst_toNat (by omega : i < 2 ^ 63), hi, if_true, newLen_toNat h0 hlen]

theorem swapRemove_nil (i : Nat) : swapRemove [] i = none := by
  unfold swapRemove addLastIdx
  simp

theorem mem_of_mem_swapRemove {s s' : List KC} {i : Nat} (hi : i < s.length) (hlen : s.length < 2 ^ 63)
    (h : swapRemove s i = some s') {x : KC} (hx : x ∈ s') : x ∈ s := by
  obtain ⟨y, hy, he⟩ := swapRemove_eq hi hlen
  rw [he] at h
  injection h with h
  subst h
  have h1 := List.mem_of_mem_take hx
  rcases List.mem_or_eq_of_mem_set h1 with h2 | h2
  · exact h2
  · subst h2; exact List.mem_of_getElem? hy

theorem length_swapRemove {s s' : List KC} {i : Nat} (hi : i < s.length) (hlen : s.length < 2 ^ 63)
    (h : swapRemove s i = some s') : s'.length = s.length - 1 := by
  obtain ⟨y, _, he⟩ := swapRemove_eq hi hlen
  rw [he] at h
  injection h with h
  subst h
  simp

end RV.Policy
