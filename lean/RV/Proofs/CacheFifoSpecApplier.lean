import RV.Proofs.CacheFifoSpecApp
/-!
# C06: every applier step is a stutter, an `apply` or an `expire` of the reference
-/
namespace RV.Cache
open Gen.Cache

theorem SimR.mk_app {t0 : Tid} {s s' : State} {sp sp' : Spec} (h : SimR t0 s sp)
    (hcl : ∀ t, s'.cl t = s.cl t ∨ s'.cl t = unblockedPc (s.cl t))
    (hmap : ∀ k, sp'.map k = s'.store.lookup k) (hpend : sp'.pend = pendE s')
    (hclock : s'.clock = s.clock) (hspclock : sp'.clock = sp.clock)
    (hnm : s'.nextMarker = s.nextMarker) (hspnm : sp'.nextMarker = sp.nextMarker) (hspcl : sp'.cl = sp.cl)
    (hclosed : s'.closed = s.closed)
    (hacct : ∀ k, ¬ Exempt s' k → sp'.acct k = s'.pol.costs.contains k)
    (hadded : ∀ i vs ok, s'.app = .added i vs ok → vs = [] ∧ sp'.acct i.key = !ok ∧ s'.pol.costs.contains i.key = true)
    (hswd : ∀ now k c e v bs, s'.app = .swStoreDel now k c e v bs → sp'.acct k = false)
    (hok : s'.app.ok = true) : SimR t0 s' sp' := by
  obtain ⟨c1, c2, c3⟩ := simR_cl_fields h hcl
  exact ⟨hmap, hpend, by rw [hspclock, hclock]; exact h.clock, by rw [hspnm, hnm]; exact h.nm,
    by rw [hspcl]; exact c1, c2, c3, by rw [hclosed]; exact h.opn, hacct, hadded, hswd, hok⟩

theorem exempt_added {s : State} {i : Item} {vs : List (Hash × Int)} {ok : Bool} (ha : s.app = .added i vs ok) (k : Hash) :
    Exempt s k ↔ k = i.key := by
  unfold Exempt; rw [ha]; simp
theorem exempt_tomb {s : State} {i : Item} (ha : s.app = .tombPolicy i) (k : Hash) : Exempt s k ↔ k = i.key := by
  unfold Exempt; rw [ha]; simp
theorem exempt_swd {s : State} {now : Time} {k0 : Hash} {c : Conf} {e : Time} {v : Val} {bs : List (AMap Hash Conf)}
    (ha : s.app = .swStoreDel now k0 c e v bs) (k : Hash) : Exempt s k ↔ k = k0 := by
  unfold Exempt; rw [ha]
  constructor
  · intro h
    rcases h with ⟨i, vs, ok, h1, _⟩ | ⟨i, h1, _⟩ | ⟨now', c', e', v', bs', h1⟩
    · cases h1
    · cases h1
    · simp only [APc.swStoreDel.injEq] at h1; exact h1.2.1.symm
  · intro e1; subst e1; exact Or.inr (Or.inr ⟨now, c, e, v, bs, rfl⟩)

theorem sim_applier {cfg : Cfg} {t0 : Tid} {s s' : State} {sp : Spec} {ch : Choice}
    (hsu : cfg.shouldUpdate = none) (hr : Reach cfg s) (hR : SimR t0 s sp) (hroom : RoomAt s)
    (hs : applierStep cfg s ch = some s') :
    ∃ sp', SpecStep t0 sp [] sp' ∧ SimR t0 s' sp' ∧ obsOf s'.log = obsOf s.log := by
  have hii := item_inv hr
  apply applierStep_cases hs (motive := fun s' => ∃ sp', SpecStep t0 sp [] sp' ∧ SimR t0 s' sp' ∧ obsOf s'.log = obsOf s.log)
  case idle =>
    intro hpc hr'
    have hex : ∀ k, ¬ Exempt s k := not_exempt_of (by simp [hpc]) (by simp [hpc]) (by simp [hpc])
    unfold apIdle at hr'
    split at hr'
    · unfold apSelItem at hr'
      split at hr'
      · simp at hr'
      · rename_i id s1 hrecv
        simp only [Option.some.injEq] at hr'; subst hr'
        refine ⟨sp, .stutter sp, ?_, by simp [recvBuf_log hrecv]⟩
        refine hR.app_frame (fun t => recvBuf_cl hrecv t) (recvBuf_store hrecv :) ?_ (recvBuf_clock hrecv :)
          (recvBuf_nextMarker hrecv :) (recvBuf_closed hrecv :) (fun k => by rw [show (_ : State).pol = s.pol from recvBuf_pol hrecv])
          hex (not_exempt_of (by simp) (by simp) (by simp)) rfl
        exact pendE_recv (by rw [hpc]; rfl) hrecv rfl rfl rfl
      · rename_i i s1 hrecv
        simp only [Option.some.injEq] at hr'; subst hr'
        refine ⟨sp, .stutter sp, ?_, by simp [recvBuf_log hrecv]⟩
        refine hR.app_frame (fun t => recvBuf_cl hrecv t) (recvBuf_store hrecv :) ?_ (recvBuf_clock hrecv :)
          (recvBuf_nextMarker hrecv :) (recvBuf_closed hrecv :) (fun k => by rw [show (_ : State).pol = s.pol from recvBuf_pol hrecv])
          hex (not_exempt_of (by simp) (by simp) (by simp)) rfl
        exact pendE_recv (by rw [hpc]; rfl) hrecv rfl rfl rfl
    · simp only [Option.some.injEq] at hr'; subst hr'
      refine ⟨sp, .stutter sp, ?_, rfl⟩
      refine hR.app_frame (fun t => Or.inl rfl) rfl ?_ rfl rfl rfl (fun k => rfl) hex
        (not_exempt_of (by simp) (by simp) (by simp)) rfl
      exact pendE_congr (by simp [hpc, appElem]) rfl rfl
    · rename_i t
      exfalso
      unfold apSelStop at hr'
      by_cases ht : t = t0
      · subst ht
        have := hR.callPc
        split at hr'
        · rename_i closing hpc'; rw [hpc'] at this; exact callPc_elim this rfl
        · rename_i hpc'; rw [hpc'] at this; exact callPc_elim this rfl
        · simp at hr'
      · have := hR.others t ht
        rw [this] at hr'; simp at hr'
    · simp at hr'
  case marker =>
    intro id hpc _
    have hp : pending s = .marker id :: pending (apMarker s id) := by simp [pending, queue, hpc, apMarker, appElem]
    have hpe := pendE_pop hp
    refine ⟨_, .apply sp (.marker id) (pendE (apMarker s id)) (by rw [hR.pend, hpe]; rfl), ?_, rfl⟩
    refine hR.mk_app (fun t => Or.inl rfl) (fun k => hR.map k) ?_ rfl rfl rfl rfl rfl rfl ?_ ?_ ?_ rfl
    · show sp.pend.tail = _; rw [hR.pend, hpe]; rfl
    · intro k _; exact hR.acct k (not_exempt_of (by simp [hpc]) (by simp [hpc]) (by simp [hpc]) k)
    · intro i vs ok ha; cases ha
    · intro now k c e v bs ha; cases ha
  case item =>
    intro i hpc _
    refine ⟨sp, .stutter sp, ?_, rfl⟩
    refine hR.app_frame (fun t => Or.inl rfl) rfl ?_ rfl rfl rfl (fun k => rfl)
      (not_exempt_of (by simp [hpc]) (by simp [hpc]) (by simp [hpc])) (not_exempt_of (by simp [apItem]) (by simp [apItem]) (by simp [apItem])) rfl
    simp [pendE, pending, hpc, apItem, appElem, queue, eraseCost]
  case costed =>
    intro i hpc hr'
    have hexs : ∀ k, ¬ Exempt s k := not_exempt_of (by simp [hpc]) (by simp [hpc]) (by simp [hpc])
    unfold apCosted at hr'
    split at hr'
    · rename_i hflag
      unfold apCostedNew at hr'
      split at hr'
      · rename_i vs added
        split at hr'
        · simp at hr'
        · rename_i pm hadd
          simp only [Option.some.injEq] at hr'; subst hr'
          obtain ⟨hfit, hrm⟩ := hroom i hpc hflag
          obtain ⟨hv, hnone, hsome⟩ := polAdd_room hadd hfit hrm
          obtain ⟨hck, hco⟩ := polAdd_room_costs hadd hfit hrm
          refine ⟨sp, .stutter sp, ?_, rfl⟩
          refine hR.mk_app (fun t => Or.inl rfl) (fun k => hR.map k) ?_ rfl rfl rfl rfl rfl rfl ?_ ?_ ?_ rfl
          · rw [hR.pend]; symm; exact pendE_congr (by simp [hpc, appElem]) rfl rfl
          · intro k hk
            have hne : k ≠ i.key := fun e => hk ((exempt_added rfl k).mpr e)
            show sp.acct k = pm.1.costs.contains k
            rw [hco k hne]; exact hR.acct k (hexs k)
          · intro i' vs' ok' ha
            simp only [APc.added.injEq] at ha
            obtain ⟨rfl, rfl, rfl⟩ := ha
            refine ⟨hv, ?_, hck⟩
            rw [hR.acct i.key (hexs _)]
            cases hl : s.pol.costs.lookup i.key with
            | none => rw [(hnone hl).1]; simp [AMap.contains, hl]
            | some c0 => rw [hsome c0 hl]; simp [AMap.contains, hl]
          · intro now k c e v bs ha; cases ha
      · simp at hr'
    · rename_i hflag
      obtain ⟨_, hr'⟩ := needNone_some hr'
      simp only [Option.some.injEq] at hr'; subst hr'
      have hp : pending s = .item i :: pending (apCostedUpd cfg s i) := by
        simp [pending, queue, hpc, apCostedUpd, appElem]
      have hpe := pendE_pop hp
      have hsa : specApply sp (eraseCost (.item i)) = { sp with pend := sp.pend.tail } := by
        simp [specApply, eraseCost, hflag]
      refine ⟨_, .apply sp (eraseCost (.item i)) (pendE (apCostedUpd cfg s i)) (by rw [hR.pend, hpe]), ?_, rfl⟩
      rw [hsa]
      refine hR.mk_app (fun t => Or.inl rfl) (fun k => hR.map k) ?_ rfl rfl rfl rfl rfl rfl ?_ ?_ ?_ rfl
      · show sp.pend.tail = _; rw [hR.pend, hpe]; rfl
      · intro k _
        show sp.acct k = (polUpdate cfg.metricsOn s.pol s.met i.key i.cost).1.costs.contains k
        rw [polUpdate_contains]; exact hR.acct k (hexs k)
      · intro i' vs ok ha; cases ha
      · intro now k c e v bs ha; cases ha
    · rename_i hflag
      obtain ⟨_, hr'⟩ := needNone_some hr'
      simp only [Option.some.injEq] at hr'; subst hr'
      refine ⟨sp, .stutter sp, ?_, rfl⟩
      refine hR.mk_app (fun t => Or.inl rfl) (fun k => hR.map k) ?_ rfl rfl rfl rfl rfl rfl ?_ ?_ ?_ rfl
      · rw [hR.pend]; symm; exact pendE_congr (by simp [hpc, apCostedDel, appElem]) rfl rfl
      · intro k hk
        have hne : k ≠ i.key := fun e => hk ((exempt_tomb rfl k).mpr e)
        show sp.acct k = (polDel cfg.metricsOn s.pol s.met i.key).1.costs.contains k
        rw [hR.acct k (hexs k)]
        simp [AMap.contains, polDel_costs, hne]
      · intro i' vs ok ha; cases ha
      · intro now k c e v bs ha; cases ha
  case added =>
    intro i vs ok hpc _
    obtain ⟨hvs, hacc, hcont⟩ := hR.added i vs ok hpc
    subst hvs
    have hnew := hii.added_new i [] ok hpc
    have happ' : (apAdded cfg s i [] ok).app = .idle := by
      unfold apAdded afterVictims; split <;> simp
    have hp : pending s = .item i :: pending (apAdded cfg s i [] ok) := by
      rw [pending, pending, happ', hpc]; simp [appElem, queue]
    have hpe := pendE_pop hp
    have hexk : ∀ k, k ≠ i.key → ¬ Exempt s k := fun k hk he => hk ((exempt_added hpc k).mp he)
    have hex' : ∀ k, ¬ Exempt (apAdded cfg s i [] ok) k :=
      not_exempt_of (by simp [happ']) (by simp [happ']) (by simp [happ'])
    refine ⟨_, .apply sp (eraseCost (.item i)) (pendE (apAdded cfg s i [] ok)) (by rw [hR.pend, hpe]), ?_, ?_⟩
    · cases ok with
      | true =>
        have hsa : specApply sp (eraseCost (.item i)) =
            { sp with map := specSet sp.map i, acct := fset sp.acct i.key true, pend := sp.pend.tail } := by
          have : sp.acct i.key = false := by simpa using hacc
          simp [specApply, eraseCost, hnew, this, specSet]
        rw [hsa]
        refine hR.mk_app (fun t => Or.inl (by simp)) ?_ ?_ (by simp) rfl (by simp) rfl rfl (by simp) ?_ ?_ ?_ (by rw [happ']; rfl)
        · intro k
          show specSet sp.map i k = _
          rw [specSet_corr (cfg := cfg) (st := s.store) (em := s.em) hsu hR.map i k]
          simp [apAdded]
        · show sp.pend.tail = _; rw [hR.pend, hpe]; rfl
        · intro k _
          show fset sp.acct i.key true k = _
          by_cases hk : k = i.key
          · subst hk; simpa using hcont.symm
          · rw [fset_ne _ _ hk]; simpa using hR.acct k (hexk k hk)
        · intro i' vs' ok' ha; rw [happ'] at ha; cases ha
        · intro now k c e v bs ha; rw [happ'] at ha; cases ha
      | false =>
        have hsa : specApply sp (eraseCost (.item i)) = { sp with pend := sp.pend.tail } := by
          have : sp.acct i.key = true := by simpa using hacc
          simp [specApply, eraseCost, hnew, this]
        rw [hsa]
        refine hR.mk_app (fun t => Or.inl (by simp)) ?_ ?_ (by simp) rfl (by simp) rfl rfl (by simp) ?_ ?_ ?_ (by rw [happ']; rfl)
        · intro k; show sp.map k = _; rw [hR.map k]; simp [apAdded]
        · show sp.pend.tail = _; rw [hR.pend, hpe]; rfl
        · intro k _
          show sp.acct k = _
          by_cases hk : k = i.key
          · subst hk; rw [show sp.acct i.key = true by simpa using hacc]; simpa using hcont.symm
          · simpa using hR.acct k (hexk k hk)
        · intro i' vs' ok' ha; rw [happ'] at ha; cases ha
        · intro now k c e v bs ha; rw [happ'] at ha; cases ha
    · unfold apAdded; split <;> simp [obsOf_cons]
  case victims =>
    intro vs hpc _ _
    have := hR.appOk; rw [hpc] at this; cases this
  case victimEvict =>
    intro h cost c v rest hpc _
    have := hR.appOk; rw [hpc] at this; cases this
  case tombPolicy =>
    intro i hpc _
    obtain ⟨hdel, hcost⟩ := hii.tomb_del i hpc
    have hp : pending s = .item i :: pending (apTombPolicy s i) := by
      simp [pending, queue, hpc, apTombPolicy, appElem]
    have hpe := pendE_pop hp
    have hsa : specApply sp (eraseCost (.item i)) =
        { sp with map := (specDel sp.map i.key i.conflict).1, acct := fset sp.acct i.key false, pend := sp.pend.tail } := by
      simp [specApply, eraseCost, hdel]
    refine ⟨_, .apply sp (eraseCost (.item i)) (pendE (apTombPolicy s i)) (by rw [hR.pend, hpe]), ?_, rfl⟩
    rw [hsa]
    refine hR.mk_app (fun t => Or.inl rfl) ?_ ?_ rfl rfl rfl rfl rfl rfl ?_ ?_ ?_ rfl
    · intro k
      exact (specDel_corr (st := s.store) (em := s.em) hR.map i.key i.conflict).1 k
    · show sp.pend.tail = _; rw [hR.pend, hpe]; rfl
    · intro k _
      show fset sp.acct i.key false k = s.pol.costs.contains k
      by_cases hk : k = i.key
      · subst hk; simp [AMap.contains, hcost]
      · rw [fset_ne _ _ hk]; exact hR.acct k (fun he => hk ((exempt_tomb hpc k).mp he))
    · intro i' vs ok ha; cases ha
    · intro now k c e v bs ha; cases ha
  case tombStore =>
    intro v hpc _
    refine ⟨sp, .stutter sp, ?_, by simp [apTombStore, obsOf_cons]⟩
    refine hR.app_frame (fun t => Or.inl rfl) rfl ?_ rfl rfl rfl (fun k => rfl)
      (not_exempt_of (by simp [hpc]) (by simp [hpc]) (by simp [hpc]))
      (not_exempt_of (by simp [apTombStore]) (by simp [apTombStore]) (by simp [apTombStore])) rfl
    exact pendE_congr (by simp [hpc, apTombStore, appElem]) rfl rfl
  case tick =>
    intro hpc _
    refine ⟨sp, .stutter sp, ?_, rfl⟩
    refine hR.app_frame (fun t => Or.inl rfl) rfl ?_ rfl rfl rfl (fun k => rfl)
      (not_exempt_of (by simp [hpc]) (by simp [hpc]) (by simp [hpc]))
      (not_exempt_of (by simp [apTick]) (by simp [apTick]) (by simp [apTick])) rfl
    exact pendE_congr (by simp [hpc, apTick, appElem]) rfl rfl
  case sweep =>
    intro now bs hpc hr'
    have happ' : s'.app = .idle ∨ ∃ k c bs', s'.app = .swKey now k c bs' := by
      unfold apSweep at hr'
      split at hr'
      · simp only [Option.some.injEq] at hr'; subst hr'; exact Or.inl rfl
      · split at hr'
        · simp at hr'
        · simp only [Option.some.injEq] at hr'; subst hr'; exact Or.inr ⟨_, _, _, rfl⟩
      · simp at hr'
    refine ⟨sp, .stutter sp, ?_, by rw [apSweep_log s now bs ch hr']⟩
    refine hR.app_frame (fun t => Or.inl (by rw [apSweep_cl s now bs ch hr'])) (apSweep_store s now bs ch hr') ?_
      (apSweep_clock s now bs ch hr') (apSweep_nextMarker s now bs ch hr') (apSweep_closed s now bs ch hr')
      (fun k => by rw [apSweep_pol s now bs ch hr'])
      (not_exempt_of (by simp [hpc]) (by simp [hpc]) (by simp [hpc])) ?_ ?_
    · refine pendE_congr ?_ (apSweep_buf s now bs ch hr') (apSweep_sendq s now bs ch hr')
      rcases happ' with e | ⟨_, _, _, e⟩ <;> simp [e, hpc, appElem]
    · rcases happ' with e | ⟨_, _, _, e⟩ <;> exact not_exempt_of (by simp [e]) (by simp [e]) (by simp [e])
    · rcases happ' with e | ⟨_, _, _, e⟩ <;> (rw [e]; rfl)
  case swKey =>
    intro now k c bs hpc _
    have hexs : ∀ k', ¬ Exempt s k' := not_exempt_of (by simp [hpc]) (by simp [hpc]) (by simp [hpc])
    have hnow : now ≤ s.clock := sweep_now hr now (by rw [hpc]; rfl)
    obtain ⟨hrem, hkeep⟩ := storeDelExpired_removed s.store s.em k c now
    unfold apSwKey
    dsimp only
    split
    · rename_i hflag
      obtain ⟨e, he, hz, hle, hlk⟩ := hrem hflag
      have hle' : e.exp ≤ sp.clock := by rw [hR.clock]; exact Int.le_trans hle hnow
      refine ⟨_, .expire sp k e (by rw [hR.map k]; exact he) hz hle', ?_, rfl⟩
      refine hR.mk_app (fun t => Or.inl rfl) ?_ ?_ rfl rfl rfl rfl rfl rfl ?_ ?_ ?_ rfl
      · intro k'
        show fset sp.map k none k' = (storeDelExpired s.store s.em k c now).1.lookup k'
        rw [hlk k']
        by_cases hk : k' = k
        · subst hk; simp
        · rw [fset_ne _ _ hk, if_neg hk]; exact hR.map k'
      · show sp.pend = _
        rw [hR.pend]; symm; exact pendE_congr (by simp [hpc, appElem]) rfl rfl
      · intro k' hk'
        have hne : k' ≠ k := fun e1 => hk' ((exempt_swd rfl k').mpr e1)
        show fset sp.acct k false k' = s.pol.costs.contains k'
        rw [fset_ne _ _ hne]; exact hR.acct k' (hexs k')
      · intro i' vs ok ha; cases ha
      · intro now' k' c' e' v' bs' ha
        simp only [APc.swStoreDel.injEq] at ha
        obtain ⟨_, rfl, _⟩ := ha
        show fset sp.acct k false k = false
        simp
    · refine ⟨sp, .stutter sp, ?_, rfl⟩
      refine hR.app_frame (fun t => Or.inl rfl) rfl ?_ rfl rfl rfl (fun k => rfl) hexs
        (not_exempt_of (by simp) (by simp) (by simp)) rfl
      exact pendE_congr (by simp [hpc, appElem]) rfl rfl
  case swStoreDel =>
    intro now k c expr v bs hpc _
    refine ⟨sp, .stutter sp, ?_, rfl⟩
    refine hR.mk_app (fun t => Or.inl rfl) (fun k' => hR.map k') ?_ rfl rfl rfl rfl rfl rfl ?_ ?_ ?_ rfl
    · rw [hR.pend]; symm; exact pendE_congr (by simp [hpc, apSwStoreDel, appElem]) rfl rfl
    · intro k' _
      show sp.acct k' = (polDel cfg.metricsOn s.pol s.met k).1.costs.contains k'
      by_cases hk : k' = k
      · subst hk; rw [hR.swd now k' c expr v bs hpc]; simp [AMap.contains, polDel_costs]
      · rw [hR.acct k' (fun he => hk ((exempt_swd hpc k').mp he))]
        simp [AMap.contains, polDel_costs, hk]
    · intro i' vs ok ha; cases ha
    · intro now' k' c' e' v' bs' ha; cases ha
  case swPolDel =>
    intro now k c expr cost v bs hpc _
    refine ⟨sp, .stutter sp, ?_, by simp [apSwPolDel, obsOf_cons]⟩
    refine hR.app_frame (fun t => Or.inl rfl) rfl ?_ rfl rfl rfl (fun k => rfl)
      (not_exempt_of (by simp [hpc]) (by simp [hpc]) (by simp [hpc]))
      (not_exempt_of (by simp [apSwPolDel]) (by simp [apSwPolDel]) (by simp [apSwPolDel])) rfl
    exact pendE_congr (by simp [hpc, apSwPolDel, appElem]) rfl rfl

end RV.Cache
