import RV.Proofs.CacheBisimApplier
import RV.Proofs.CacheBisimInv
import RV.Proofs.CacheLiveExamples
import RV.Proofs.CacheFifoOrder
/-!
# C15 `fresh_bisim`: runs, the base point (cleared cache vs. newly created cache), the main theorem
-/
namespace RV.Cache
open Gen.Cache

/-! ### one step and runs, in the log-free relation `BSim` -/

/-- what a pair of results (of the same action / action list from related states) satisfies -/
def BSimRes (d : Nat) (s₁ s₂ : State) : Option State → Option State → Prop
  | some s₁', some s₂' => BSim d s₁' s₂' ∧ ∃ evs, s₁'.log = evs ++ s₁.log ∧ s₂'.log = evs ++ s₂.log
  | none, none => True
  | _, _ => False

theorem bsimRes_of_optRel {d : Nat} {s₁ s₂ : State} {r₁ r₂ : Option State}
    (h : OptRel (BSimL d s₁.log s₂.log) r₁ r₂) : BSimRes d s₁ s₂ r₁ r₂ := by
  cases r₁ <;> cases r₂ <;> first | exact h | skip
  exact ⟨BSimL.toSim h, (BSimL.log h).exists⟩

theorem bs_run {cfg : Cfg} {d : Nat} {L₁ L₂ : List Ev} {s₁ s₂ : State} (h : BSimL d L₁ L₂ s₁ s₂)
    (acts : List Action) : OptRel (BSimL d L₁ L₂) (run cfg s₁ acts) (run cfg s₂ acts) := by
  induction acts generalizing s₁ s₂ with
  | nil => exact h
  | cons a rest ih =>
    have hs := bs_step (cfg := cfg) h a
    unfold run
    cases h1 : step cfg s₁ a <;> cases h2 : step cfg s₂ a <;> rw [h1, h2] at hs <;>
      first | exact False.elim hs | skip
    · exact trivial
    · exact ih hs

theorem bsim_step {cfg : Cfg} {d : Nat} {s₁ s₂ : State} (h : BSim d s₁ s₂) (a : Action) :
    BSimRes d s₁ s₂ (step cfg s₁ a) (step cfg s₂ a) := bsimRes_of_optRel (bs_step h.toL a)

theorem bsim_run {cfg : Cfg} {d : Nat} {s₁ s₂ : State} (h : BSim d s₁ s₂) (acts : List Action) :
    BSimRes d s₁ s₂ (run cfg s₁ acts) (run cfg s₂ acts) := bsimRes_of_optRel (bs_run h.toL acts)

theorem BSimRes.left {d : Nat} {s₁ s₂ s₁' : State} {r₂ : Option State} (h : BSimRes d s₁ s₂ (some s₁') r₂) :
    ∃ s₂', r₂ = some s₂' ∧ BSim d s₁' s₂' ∧ ∃ evs, s₁'.log = evs ++ s₁.log ∧ s₂'.log = evs ++ s₂.log := by
  cases r₂ with
  | none => exact False.elim h
  | some s₂' => exact ⟨s₂', rfl, h⟩

theorem BSimRes.right {d : Nat} {s₁ s₂ s₂' : State} {r₁ : Option State} (h : BSimRes d s₁ s₂ r₁ (some s₂')) :
    ∃ s₁', r₁ = some s₁' ∧ BSim d s₁' s₂' ∧ ∃ evs, s₁'.log = evs ++ s₁.log ∧ s₂'.log = evs ++ s₂.log := by
  cases r₁ with
  | none => exact False.elim h
  | some s₁' => exact ⟨s₁', rfl, h⟩

theorem BSimRes.none_iff {d : Nat} {s₁ s₂ : State} {r₁ r₂ : Option State} (h : BSimRes d s₁ s₂ r₁ r₂) :
    r₁ = none ↔ r₂ = none := by
  cases r₁ <;> cases r₂ <;> first | exact False.elim h | simp

/-! ### `Config.MaxCost` is read by `NewCache` only -/

theorem step_maxCost (cfg : Cfg) (m : Int) (s : State) (a : Action) :
    step { cfg with maxCost := m } s a = step cfg s a := by
  cases a <;> rfl

theorem run_maxCost (cfg : Cfg) (m : Int) (s : State) (acts : List Action) :
    run { cfg with maxCost := m } s acts = run cfg s acts := by
  induction acts generalizing s with
  | nil => rfl
  | cons a rest ih =>
    unfold run
    rw [step_maxCost]
    cases step cfg s a with
    | none => rfl
    | some s' => exact ih s'

/-! ### the reference state: a cache created at `now0` with capacity `m`, aged to clock `clk` -/

def newAt (cfg : Cfg) (m : Int) (now0 clk : Time) : State :=
  { init { cfg with maxCost := m } now0 with clock := clk }

/-- `newAt` is a state of a newly created cache: `NewCache` at `now0`, then time passes -/
theorem newAt_run (cfg : Cfg) (m : Int) {now0 clk : Int} (h : now0 ≤ clk) :
    run { cfg with maxCost := m } (init { cfg with maxCost := m } now0) [.tick (clk - now0).toNat] =
      some (newAt cfg m now0 clk) := by
  have e : now0 + ((clk - now0).toNat : Int) = clk := by omega
  simp only [run, step, newAt, init, e]

theorem newAt_reach (cfg : Cfg) (m : Int) {now0 clk : Int} (h : now0 ≤ clk) :
    Reach { cfg with maxCost := m } (newAt cfg m now0 clk) := ⟨now0, _, newAt_run cfg m h⟩

/-! ### the base point -/

/-- a returned-from-`Clear` state (`FreshSt`, every client idle) with an empty `Get` ring is related
to the new cache with the same capacity and clock; the shift is the marker counter -/
theorem bsim_fresh_base {cfg : Cfg} {s : State} {now0 : Time} (hf : FreshSt cfg s)
    (hidle : ∀ t, s.cl t = .idle) (hring : s.ringPending = 0) (hmet : s.met = {})
    (hlc : s.em.lastCleaned = cleanupOf now0) (hcm : ∀ id ∈ s.closedMarkers, id < s.nextMarker) :
    BSim s.nextMarker s (newAt cfg s.pol.maxCost now0 s.clock) := by
  have hpol : s.pol = { costs := AMap.empty, used := 0, maxCost := s.pol.maxCost } := by
    cases hp : s.pol with
    | mk co us mx =>
      have h1 := hf.costs; have h2 := hf.used
      rw [hp] at h1 h2; simp at h1 h2; simp [h1, h2]
  have hem : s.em = { buckets := AMap.empty, lastCleaned := cleanupOf now0 } := by
    cases he : s.em with
    | mk b l =>
      have h1 := hf.buckets; have h2 := hlc
      rw [he] at h1 h2; simp at h1 h2; simp [h1, h2]
  refine ⟨hf.store, hem, hpol, hmet, by rw [hf.buf]; rfl, by rw [hf.sendq]; rfl, fun id => ?_,
    (Nat.zero_add _).symm, by rw [hf.app]; rfl, fun t => by rw [hidle t]; rfl, rfl, hf.closed, hring⟩
  constructor
  · intro hm
    have := hcm _ hm
    omega
  · intro hm
    cases hm

/-- **`fresh_bisim`, base point for reachable states.**  The sweep position of the cleared cache is
the cleanup bucket of an instant `now0 ≤ clock`: the reference is the cache created at `now0`. -/
theorem bsim_fresh_reach {cfg : Cfg} {s : State} (hr : Reach cfg s) (hf : FreshSt cfg s)
    (hidle : ∀ t, s.cl t = .idle) (hring : s.ringPending = 0) :
    ∃ now0, now0 ≤ s.clock ∧ s.em.lastCleaned = cleanupOf now0 ∧
      BSim s.nextMarker s (newAt cfg s.pol.maxCost now0 s.clock) := by
  obtain ⟨hoff, now0, hle, hlc⟩ := bsInv_reach hr
  have hmet : s.met = {} := by
    cases hon : cfg.metricsOn
    · exact hoff hon
    · exact hf.met hon
  exact ⟨now0, hle, hlc, bsim_fresh_base hf hidle hring hmet hlc (queue_inv hr).closed_lt⟩

end RV.Cache
