import RV.Proofs.CacheOwnDefs
/-!
# The ownership invariant (C02, C04): under `Fresh` every non-zero value occupies at most one place

`own_reach`: in every reachable state whose log is `Fresh`, for every `v ≠ 0`: `Own v` — the places
(client-local new / limbo, buffered new item, blocked sender, applier-local new / limbo, store
entry, `exit v` event, `setRet _ v false` event) hold `v` at most once in total, with multiplicity.
The step `spawn (Set … v …)` is where the provenance invariant (`Prov`, C01) is needed: a value that
no `Set` call has supplied yet is nowhere.
-/
set_option linter.unusedSimpArgs false
namespace RV.Cache
open Gen.Cache

theorem own_upd {v : Val} {w w' : View} (ho : Own v w) (t : Tid)
    (hne : ∀ t', t' ≠ t → (w'.cl t').own = (w.cl t').own)
    (hle : w'.cnt v + clCnt v (w'.cl t) ≤ w.cnt v + clCnt v (w.cl t)) : Own v w' := by
  obtain ⟨h1, h2⟩ := ho
  unfold clCnt at hle
  by_cases hc : (w.cl t).own = v
  · obtain ⟨h0, huniq⟩ := h2 t hc
    rw [if_pos hc] at hle
    refine ⟨by split at hle <;> omega, fun t1 ht1 => ?_⟩
    by_cases e1 : t1 = t
    · subst e1
      rw [if_pos ht1] at hle
      refine ⟨by omega, fun t2 ht2 => ?_⟩
      by_cases e2 : t2 = t1
      · exact e2
      · rw [hne t2 e2] at ht2; exact huniq t2 ht2
    · rw [hne t1 e1] at ht1; exact absurd (huniq t1 ht1) e1
  · rw [if_neg hc] at hle
    refine ⟨by split at hle <;> omega, fun t1 ht1 => ?_⟩
    by_cases e1 : t1 = t
    · subst e1
      rw [if_pos ht1] at hle
      refine ⟨by omega, fun t2 ht2 => ?_⟩
      by_cases e2 : t2 = t1
      · exact e2
      · rw [hne t2 e2] at ht2
        have := (h2 t2 ht2).1; omega
    · rw [hne t1 e1] at ht1
      obtain ⟨h0, huniq⟩ := h2 t1 ht1
      have hpc' : ¬ (w'.cl t).own = v := by
        intro hp; rw [if_pos hp] at hle; omega
      rw [if_neg hpc'] at hle
      refine ⟨by omega, fun t2 ht2 => ?_⟩
      by_cases e2 : t2 = t
      · subst e2; exact absurd ht2 hpc'
      · rw [hne t2 e2] at ht2; exact huniq t2 ht2

theorem own_same_cl {v : Val} {w w' : View} (ho : Own v w) (hcl : ∀ t, (w'.cl t).own = (w.cl t).own)
    (hle : w'.cnt v ≤ w.cnt v) : Own v w' :=
  own_upd ho 0 (fun t' _ => hcl t') (by unfold clCnt; rw [hcl 0]; omega)

/-- with `v` not yet handed to any `Set`, nothing holds it (uses the provenance invariant) -/
theorem prov_no_holder {w : View} {v : Val} (p : Prov w) (hn : AMap.NodupKeys w.store) (hv : v ≠ 0)
    (hfresh : v ∉ setVals w.log) : w.cnt v = 0 ∧ ∀ t, (w.cl t).own ≠ v := by
  have hitem : ∀ i : Item, ItemOk w.log i → i.own ≠ v := by
    intro i hi he
    have : i.value = v := by
      unfold Item.own at he; split at he
      · exact absurd he.symm hv
      · exact he
    exact hfresh (this ▸ (ItemOk.vsrc hi).mem_setVals (this ▸ hv))
  have hsrc : ∀ {h c}, Src w.log h c v → False := fun hs => hfresh hs.mem_setVals
  have hvsrc : VSrc w.log v → False := fun hs => hfresh (hs.mem_setVals hv)
  have helem : ∀ x : BufElem, ElemOk w.log x → x.own ≠ v := by
    intro x hx
    cases x with
    | item i => exact hitem i hx
    | marker id => exact fun e => hv e.symm
  refine ⟨?_, fun t he => ?_⟩
  · have hb : bufCnt v w.buf = 0 := by
      unfold bufCnt
      rw [List.count_eq_zero]
      intro hm
      obtain ⟨x, hx, hxv⟩ := List.mem_map.mp hm
      exact helem x (p.buf x hx) hxv
    have hq : sqCnt v w.sendq = 0 := by
      unfold sqCnt
      rw [List.count_eq_zero]
      intro hm
      obtain ⟨x, hx, hxv⟩ := List.mem_map.mp hm
      exact helem x.2 (p.sendq x hx) hxv
    have ha : appCnt v w.app = 0 := by
      unfold appCnt
      rw [if_neg]
      intro he
      have hp := p.app
      cases happ : w.app <;> rw [happ] at he hp <;> simp only [APc.own, APcOk] at he hp
      all_goals first
        | exact hv he.symm
        | exact hitem _ hp he
        | (subst he; exact hsrc hp)
        | (subst he; exact hvsrc hp)
        | (subst he; exact hvsrc hp.vsrc)
        | (subst he; exact hp.elim (fun h => hv h.2) hsrc)
    have hs : storeCnt v w.store = 0 := by
      cases hc : storeCnt v w.store with
      | zero => rfl
      | succ n =>
        obtain ⟨k, e, hl, he⟩ := exists_lookup_of_storeCnt hn (by omega : 1 ≤ storeCnt v w.store)
        exact absurd (he ▸ p.store k e hl) (fun h => hsrc h)
    have hd : deadCnt v w.log = 0 := by
      unfold deadCnt
      rw [List.count_eq_zero]
      intro hm
      obtain ⟨e, he, hev⟩ := List.mem_map.mp hm
      obtain ⟨newer, older, hlog⟩ := List.append_of_mem he
      have hok : EvOk older e := logOk_split (hlog ▸ p.log)
      have hsub : older ⊆ w.log := by
        rw [hlog]; exact fun x hx => List.mem_append_right _ (List.mem_cons_of_mem _ hx)
      have : VSrc older v := by
        cases e <;> simp only [Ev.dead] at hev
        case exit => subst hev; exact hok
        case setRet t' v' ok =>
          cases ok <;> simp only at hev
          · subst hev; exact hok
          · exact absurd hev.symm hv
        all_goals exact absurd hev.symm hv
      exact hvsrc (this.mono hsub)
    unfold View.cnt; omega
  · have hp := p.cl t
    cases hpc : w.cl t <;> rw [hpc] at he hp <;> simp only [CPc.own, CPcOk] at he hp
    all_goals first
      | exact hv he.symm
      | (subst he; exact hsrc hp)
      | (subst he; exact hvsrc hp)
      | (subst he; exact hvsrc hp.2)
      | exact hitem _ (Or.inr hp) he

theorem afterVictims_own (vs : List (Hash × Int)) : (afterVictims vs).own = 0 := by
  unfold afterVictims; split <;> rfl

theorem unblockedPc_own (pc : CPc) : (unblockedPc pc).own = pc.own := by
  cases pc <;> rfl

/-- a client move either starts a `Set` of `v`, or does not create a holder of `v` -/
theorem cmove_own {w : View} {t : Tid} {pc pc' : CPc} {l : List Ev} {v : Val} (hv : v ≠ 0)
    (hm : CMove w t pc pc' l) :
    (pc = .idle ∧ ∃ h c cost ttl, pc' = .setStart h c v cost ttl ∧ l = [.setCall t h c v cost ttl]) ∨
    deadCnt v l + clCnt v pc' ≤ clCnt v pc := by
  have h0 : ¬ (0 = v) := fun e => hv e.symm
  cases hm
  case spSet h c v' cost ttl =>
    by_cases hvv : v' = v
    · subst hvv; exact Or.inl ⟨rfl, h, c, cost, ttl, rfl, rfl⟩
    · right; simp [clCnt, CPc.own, Ev.dead, hvv, h0]
  case setExit i prev =>
    right
    by_cases hp : prev = v <;> simp [clCnt, CPc.own, Ev.dead, Item.own, hp, h0]
  case delExit h c prev =>
    right
    by_cases hp : prev = v <;> simp [clCnt, CPc.own, Ev.dead, hp, h0]
  case setStartFail h c v' cost ttl =>
    right
    by_cases hp : v' = v <;> simp [clCnt, CPc.own, Ev.dead, hp, h0]
  case setRetDropUpd i hf => right; simp [clCnt, CPc.own, Ev.dead, Item.own, hf, h0]
  case setRetDropNew i hf =>
    right
    by_cases hp : i.value = v <;> simp [clCnt, CPc.own, Ev.dead, Item.own, hf, hp, h0]
  case setUpdNo i =>
    right
    by_cases hf : i.flag = .upd <;> by_cases hp : i.value = v <;> simp [clCnt, CPc.own, Item.own, hf, hp, h0]
  all_goals (right; simp [clCnt, CPc.own, Ev.dead, h0])
  all_goals exact Nat.le_refl _

theorem appCnt_afterVictims {v : Val} (hv : v ≠ 0) (vs : List (Hash × Int)) : appCnt v (afterVictims vs) = 0 := by
  unfold appCnt; rw [afterVictims_own, if_neg (fun e => hv e.symm)]

theorem amove_own {pc pc' : APc} {l : List Ev} {v : Val} (hv : v ≠ 0) (hm : AMove pc pc' l) :
    deadCnt v l + appCnt v pc' ≤ appCnt v pc := by
  have h0 : ¬ (0 = v) := fun e => hv e.symm
  cases hm
  case costedNew i vs ok hf => simp [appCnt, APc.own, Item.own, hf]; exact Nat.le_refl _
  case addedNo i vs =>
    rw [appCnt_afterVictims hv]
    by_cases hp : i.value = v <;> simp [appCnt, APc.own, Ev.dead, hp, h0]
  case victimEvict h cost c v' rest =>
    rw [appCnt_afterVictims hv]
    by_cases hp : v' = v <;> simp [appCnt, APc.own, Ev.dead, hp, h0]
  case tombStore v' =>
    by_cases hp : v' = v <;> simp [appCnt, APc.own, Ev.dead, hp, h0]
  case swPolDel now k c expr cost v' bs =>
    by_cases hp : v' = v <;> simp [appCnt, APc.own, Ev.dead, hp, h0]
  case item i cost => simp [appCnt, APc.own, Item.own]; exact Nat.le_refl _
  all_goals simp [appCnt, APc.own, h0]
  all_goals exact Nat.le_refl _

theorem recv_cnt {w w1 : View} {x : BufElem} (v : Val) (hr : Recv w x w1) :
    w1.cnt v + (if x.own = v then 1 else 0) = w.cnt v ∧ (∀ t, (w1.cl t).own = (w.cl t).own) ∧
    w1.app = w.app ∧ w1.log = w.log ∧ w1.store = w.store := by
  cases hr with
  | plain rest hb hq =>
    refine ⟨?_, fun t => rfl, rfl, rfl, rfl⟩
    simp only [View.cnt, hb, bufCnt_cons]; omega
  | unblock rest t0 e q hb hq =>
    refine ⟨?_, fun t => ?_, rfl, rfl, rfl⟩
    · simp only [View.cnt, hb, hq, bufCnt_cons, bufCnt_append, sqCnt_cons, bufCnt_nil]; omega
    · by_cases ht : t = t0
      · subst ht; simp [unblockedPc_own]
      · simp [updCl_ne _ _ ht]

theorem appCnt_zero {v : Val} (hv : v ≠ 0) {pc : APc} (h : pc.own = 0) : appCnt v pc = 0 := by
  unfold appCnt; rw [h, if_neg (fun e => hv e.symm)]
theorem clCnt_zero {v : Val} (hv : v ≠ 0) {pc : CPc} (h : pc.own = 0) : clCnt v pc = 0 := by
  unfold clCnt; rw [h, if_neg (fun e => hv e.symm)]

theorem isSend_own {pc : CPc} {e : BufElem} {sent blocked : CPc} (h : IsSend pc e sent blocked) :
    pc.own = 0 ∧ e.own = 0 ∧ sent.own = 0 ∧ blocked.own = 0 := by
  cases h <;> simp [CPc.own, BufElem.own, Item.own]

/-- one abstract step preserves `Own v` (for `v ≠ 0`, when the values of the `Set` calls are fresh) -/
theorem own_step {w w' : View} {v : Val} (h : AStep w w') (p : Prov w) (hn : AMap.NodupKeys w.store)
    (hv : v ≠ 0) (hf : Fresh w'.log) (ho : Own v w) : Own v w' := by
  have h0 : ¬ (0 = v) := fun e => hv e.symm
  cases h with
  | client t pc pc' l hpc hm =>
    rcases cmove_own hv hm with ⟨rfl, h, c, cost, ttl, rfl, rfl⟩ | hle
    · -- a `Set` of `v` starts: nothing holds `v` yet
      have hnv : v ∉ setVals w.log := by
        have := hf.1
        simp only [setVals, List.cons_append, List.nil_append, List.filterMap_cons, setVal] at this
        exact (List.nodup_cons.mp this).1
      obtain ⟨hc0, hcl0⟩ := prov_no_holder p hn hv hnv
      refine ⟨?_, fun t1 ht1 => ⟨?_, fun t2 ht2 => ?_⟩⟩
      · show View.cnt _ v ≤ 1
        simp only [View.cnt, deadCnt_append, deadCnt_cons, Ev.dead, h0, ↓reduceIte, deadCnt_nil] at hc0 ⊢; omega
      · show View.cnt _ v = 0
        simp only [View.cnt, deadCnt_append, deadCnt_cons, Ev.dead, h0, ↓reduceIte, deadCnt_nil] at hc0 ⊢; omega
      · have e1 : t1 = t := by
          by_cases e : t1 = t
          · exact e
          · exact absurd (by simpa [updCl_ne _ _ e] using ht1) (hcl0 t1)
        have e2 : t2 = t := by
          by_cases e : t2 = t
          · exact e
          · exact absurd (by simpa [updCl_ne _ _ e] using ht2) (hcl0 t2)
        rw [e1, e2]
    · refine own_upd ho t (fun t' ht' => by simp [updCl_ne _ _ ht']) ?_
      simp only [View.cnt, deadCnt_append, updCl_self, hpc] at hle ⊢; omega
  | applier pc' l hm =>
    have hle := amove_own hv hm
    refine own_same_cl ho (fun t => rfl) ?_
    simp only [View.cnt, deadCnt_append] at hle ⊢; omega
  | setUpdOk t i e hpc he hc =>
    refine own_upd ho t (fun t' ht' => by simp [updCl_ne _ _ ht']) ?_
    have h1 := storeCnt_erase_lookup v he
    simp only [View.cnt, updCl_self, hpc, clCnt, CPc.own, storeCnt_insert]
    by_cases hp : e.value = v <;> by_cases hi : i.value = v <;> simp only [hp, hi, ↓reduceIte] at h1 ⊢ <;> omega
  | delOk t h c e hpc he hc =>
    refine own_upd ho t (fun t' ht' => by simp [updCl_ne _ _ ht']) ?_
    have h1 := storeCnt_erase_lookup v he
    simp only [View.cnt, updCl_self, hpc, clCnt, CPc.own, h0, ↓reduceIte]
    by_cases hp : e.value = v <;> simp only [hp, ↓reduceIte] at h1 ⊢ <;> omega
  | sendOk t i hpc =>
    refine own_upd ho t (fun t' ht' => by simp [updCl_ne _ _ ht']) ?_
    by_cases hx : i.own = v <;>
      simp only [View.cnt, updCl_self, hpc, clCnt, CPc.own, h0, ↓reduceIte, bufCnt_append, bufCnt_cons, bufCnt_nil,
        BufElem.own, hx] <;> omega
  | sendNow t pc e sent blocked hpc hsnd =>
    obtain ⟨h1, h2, h3, h4⟩ := isSend_own hsnd
    refine own_upd ho t (fun t' ht' => by simp [updCl_ne _ _ ht']) ?_
    simp only [View.cnt, updCl_self, hpc, clCnt, h1, h2, h3, h0, ↓reduceIte, bufCnt_append, bufCnt_cons, bufCnt_nil]
    omega
  | sendBlock t pc e sent blocked hpc hsnd =>
    obtain ⟨h1, h2, h3, h4⟩ := isSend_own hsnd
    refine own_upd ho t (fun t' ht' => by simp [updCl_ne _ _ ht']) ?_
    simp only [View.cnt, updCl_self, hpc, clCnt, h1, h2, h4, h0, ↓reduceIte, sqCnt_append, sqCnt_cons, sqCnt_nil]
    omega
  | drainMarker t closing id w1 hpc hr =>
    obtain ⟨h1, h2, _, _, _⟩ := recv_cnt v hr
    refine own_same_cl ho h2 ?_
    simp only [BufElem.own, h0, ↓reduceIte] at h1; omega
  | drainItem t closing i w1 hpc hr =>
    obtain ⟨h1, h2, h3, h4, h5⟩ := recv_cnt v hr
    refine own_same_cl ho h2 ?_
    show View.cnt _ v ≤ _
    simp only [View.cnt, deadCnt_append, h4] at h1 ⊢
    by_cases hfl : i.flag = .upd
    · simp only [drainLog, hfl, ↓reduceIte, deadCnt_nil, BufElem.own, Item.own, h0] at h1 ⊢; omega
    · by_cases hx : i.value = v <;>
        simp only [drainLog, hfl, ↓reduceIte, deadCnt_nil, deadCnt_cons, Ev.dead, BufElem.own, Item.own, h0, hx] at h1 ⊢ <;>
        omega
  | selItem x w1 happ hr =>
    obtain ⟨h1, h2, h3, h4, h5⟩ := recv_cnt v hr
    refine own_same_cl ho h2 ?_
    show View.cnt _ v ≤ _
    have ha : appCnt v w1.app = 0 := by rw [h3, happ]; simp [appCnt, APc.own, h0]
    simp only [View.cnt] at h1 ⊢
    cases x with
    | marker id => simp only [recvPc, appCnt, APc.own, BufElem.own, h0, ↓reduceIte] at h1 ha ⊢; omega
    | item i =>
      by_cases hx : i.own = v <;> simp only [recvPc, appCnt, APc.own, BufElem.own, hx, ↓reduceIte] at h1 ha ⊢ <;> omega
  | clrShard t closing k ks pc' hpc hord hpc' =>
    have hnd := shardOrder_nodup hn hord
    have hcl := clear_cnt hv w.store ks hnd
    have hp' : clCnt v pc' = 0 := clCnt_zero hv (by rcases hpc' with rfl | rfl <;> rfl)
    have hp : clCnt v (w.cl t) = 0 := clCnt_zero hv (by rw [hpc]; rfl)
    refine own_upd ho t (fun t' ht' => by simp [updCl_ne _ _ ht']) ?_
    simp only [View.cnt, updCl_self, hp, hp', deadCnt_append]
    omega
  | clrRestart t closing pc' l hpc hpc' =>
    have hp' : clCnt v pc' = 0 ∧ deadCnt v l = 0 := by
      rcases hpc' with ⟨rfl, rfl⟩ | ⟨rfl, rfl⟩ <;> simp [clCnt, CPc.own, Ev.dead, h0]
    have ha : appCnt v .idle = 0 := appCnt_zero hv rfl
    refine own_upd ho t (fun t' ht' => by simp [updCl_ne _ _ ht']) ?_
    simp only [View.cnt, updCl_self, hp'.1, hp'.2, deadCnt_append, ha]
    omega
  | clsFinish t hpc =>
    refine own_upd ho t (fun t' ht' => by simp [updCl_ne _ _ ht']) ?_
    have ha : appCnt v .dead = 0 := appCnt_zero hv rfl
    have hp' : clCnt v .idle = 0 := clCnt_zero hv rfl
    simp only [View.cnt, updCl_self, hp', deadCnt_cons, Ev.dead, h0, ↓reduceIte, ha]
    omega
  | selStop t pc' happ hpc' =>
    have hp' : clCnt v pc' = 0 := clCnt_zero hv (by rcases hpc' with ⟨closing, h1, rfl⟩ | ⟨h1, rfl⟩ <;> rfl)
    have ha : appCnt v .stopAck = 0 ∧ appCnt v .dead = 0 := ⟨appCnt_zero hv rfl, appCnt_zero hv rfl⟩
    refine own_upd ho t (fun t' ht' => by simp [updCl_ne _ _ ht']) ?_
    simp only [View.cnt, updCl_self, hp', ha.1, ha.2, happ]
    omega
  | done t pc' happ hpc' =>
    have hp' : clCnt v pc' = 0 := clCnt_zero hv (by rcases hpc' with ⟨closing, h1, rfl⟩ | ⟨h1, rfl⟩ <;> rfl)
    have ha : appCnt v .stopAck = 0 ∧ appCnt v .dead = 0 := ⟨appCnt_zero hv rfl, appCnt_zero hv rfl⟩
    refine own_upd ho t (fun t' ht' => by simp [updCl_ne _ _ ht']) ?_
    simp only [View.cnt, updCl_self, hp', ha.1, ha.2, happ]
    omega
  | addedOk i vs st' happ hst =>
    refine own_same_cl ho (fun t => rfl) ?_
    have h1 := storeCnt_erase_le v w.store i.key
    have ha : appCnt v w.app = if i.value = v then 1 else 0 := by rw [happ]; rfl
    simp only [View.cnt, appCnt_afterVictims hv, ha]
    rcases hst with rfl | rfl
    · omega
    · rw [storeCnt_insert]
      by_cases hx : i.value = v <;> simp only [hx, ↓reduceIte] <;> omega
  | victims h cost rest st' c v' happ hd =>
    refine own_same_cl ho (fun t => rfl) ?_
    cases hd with
    | none =>
      have ha : appCnt v (.victimEvict h cost 0#64 0 rest) = 0 := appCnt_zero hv rfl
      simp only [View.cnt, ha]; omega
    | some e he hc =>
      have h1 := storeCnt_erase_lookup v he
      have ha : appCnt v (.victimEvict h cost e.conflict e.value rest) = if e.value = v then 1 else 0 := rfl
      simp only [View.cnt, ha]
      by_cases hx : e.value = v <;> simp only [hx, ↓reduceIte] at h1 ⊢ <;> omega
  | tombPolicy i st' c v' happ hd =>
    refine own_same_cl ho (fun t => rfl) ?_
    cases hd with
    | none =>
      have ha : appCnt v (.tombStore 0) = 0 := appCnt_zero hv rfl
      simp only [View.cnt, ha]; omega
    | some e he hc =>
      have h1 := storeCnt_erase_lookup v he
      have ha : appCnt v (.tombStore e.value) = if e.value = v then 1 else 0 := rfl
      simp only [View.cnt, ha]
      by_cases hx : e.value = v <;> simp only [hx, ↓reduceIte] at h1 ⊢ <;> omega
  | swKeyDel now k c bs e happ he hc =>
    refine own_same_cl ho (fun t => rfl) ?_
    have h1 := storeCnt_erase_lookup v he
    have ha : appCnt v (.swStoreDel now k c e.exp e.value bs) = if e.value = v then 1 else 0 := rfl
    simp only [View.cnt, ha]
    by_cases hx : e.value = v <;> simp only [hx, ↓reduceIte] at h1 ⊢ <;> omega
  | tick => exact ho

theorem own_init (cfg : Cfg) (now : Time) {v : Val} (hv : v ≠ 0) : Own v (init cfg now).view := by
  refine ⟨?_, fun t ht => ?_⟩
  · show View.cnt _ v ≤ 1
    have h0 : ¬ (0 = v) := fun e => hv e.symm
    simp [View.cnt, State.view, init, appCnt, APc.own, storeCnt, AMap.empty, h0]
  · exact absurd (show (0 : Val) = v from ht).symm hv

/-- the ownership invariant holds in every reachable state whose log is `Fresh` -/
theorem own_reach {cfg : Cfg} {s : State} (h : Reach cfg s) {v : Val} (hv : v ≠ 0) (hf : Fresh s.log) :
    Own v s.view := by
  refine Reach.induction (P := fun s => Fresh s.log → Own v s.view) (fun now _ => own_init cfg now hv)
    (fun s a s' hr hp hs hf' => ?_) h hf
  have ha := astep_of_step hs
  obtain ⟨l, hl, _⟩ := astep_log ha
  have hl' : s'.log = l ++ s.log := hl
  exact own_step ha (prov_reach hr) (nodup_reach hr) hv hf' (hp (Fresh.of_append (hl' ▸ hf')))

/-! ### reading the counts -/

/-- number of `setRet _ v false` events -/
def retFalseCnt (v : Val) (l : List Ev) : Nat :=
  l.countP fun e => match e with
    | .setRet _ v' false => v' == v
    | _ => false

theorem deadCnt_split {v : Val} (hv : v ≠ 0) (l : List Ev) : deadCnt v l = exitCnt v l + retFalseCnt v l := by
  have h0 : ¬ (0 = v) := fun e => hv e.symm
  induction l with
  | nil => rfl
  | cons e rest ih =>
    rw [deadCnt_cons, ih]
    unfold exitCnt retFalseCnt
    rw [List.count_cons, List.countP_cons]
    cases e <;> simp only [Ev.dead, h0, ↓reduceIte, beq_iff_eq, reduceCtorEq, Ev.exit.injEq, Bool.false_eq_true] <;> try omega
    case exit v' => by_cases hx : v' = v <;> simp [hx] <;> omega
    case setRet t v' ok =>
      cases ok
      · by_cases hx : v' = v <;> simp [hx] <;> omega
      · simp [h0]

theorem exitCnt_pos {v : Val} {l : List Ev} (h : Ev.exit v ∈ l) : 1 ≤ exitCnt v l :=
  List.count_pos_iff.mpr h

theorem retFalseCnt_pos {v : Val} {t : Tid} {l : List Ev} (h : Ev.setRet t v false ∈ l) : 1 ≤ retFalseCnt v l := by
  unfold retFalseCnt
  exact List.countP_pos_iff.mpr ⟨_, h, by simp⟩

theorem cbCnt_pos_evict {v : Val} {h : Hash} {c : Conf} {k : Int} {l : List Ev} (hm : Ev.evict h c v k ∈ l) :
    1 ≤ cbCnt v l := by
  unfold cbCnt
  exact List.countP_pos_iff.mpr ⟨_, hm, by simp⟩

theorem cbCnt_pos_reject {v : Val} {h : Hash} {c : Conf} {k : Int} {l : List Ev} (hm : Ev.reject h c v k ∈ l) :
    1 ≤ cbCnt v l := by
  unfold cbCnt
  exact List.countP_pos_iff.mpr ⟨_, hm, by simp⟩

end RV.Cache
