import RV.Proofs.PolicyOps
import RV.Proofs.PolicySample
/-!
The eviction loop of `defaultPolicy.Add` (`evictLoop`) and `Pol.addFull`.

First the *structural* facts, which hold for every input with no hypothesis at all (they
only restate how the result is assembled), then the *semantic* ones under well-formedness
and the no-overflow hypothesis.
-/
namespace RV.Policy

/-- delete the victims in order -/
def delAll (p : Pol) (vs : List KC) : Pol := vs.foldl (fun q v => q.del v.1) p

/-- the `(key, cost)` a non-rejecting round evicts -/
def Round.victim (r : Round) : KC := (r.min.key, r.min.cost)

/-- Rounds are chained: each starts from the state the previous one left (victim deleted,
sample slot swap-removed); only the last round can reject. -/
def Chained : Pol → List KC → List Round → Prop
  | _, _, [] => True
  | p, c, r :: rs =>
    r.before = p ∧ r.carry = c ∧
      (rs = [] ∨ (r.rejected = false ∧ ∃ s', swapRemove r.sample r.min.id = some s' ∧
        Chained (p.del r.min.key) s' rs))

section structural
variable (est : Hash → Int) (key : Hash) (cost inc : Int)

/-- **evict first**: the resulting state is `p` with the victims deleted in order and, only if
admitted, the newcomer added afterwards. -/
theorem loop_pol_eq (enums : List (List KC)) (p : Pol) (carry : List KC) :
    (evictLoop est key cost inc enums p carry).pol =
      if (evictLoop est key cost inc enums p carry).admitted
      then (delAll p (evictLoop est key cost inc enums p carry).victims).evictAdd key cost
      else delAll p (evictLoop est key cost inc enums p carry).victims := by
  induction enums generalizing p carry with
  | nil => simp only [evictLoop]; split <;> simp [delAll]
  | cons enum rest ih =>
    simp only [evictLoop]
    split
    · split
      · simp [delAll]
      · split
        · simp [delAll]
        · simp only [ih, delAll, List.foldl_cons]
    · simp [delAll]

/-- the victims returned are the minima of the non-rejecting rounds, in order -/
theorem loop_victims_eq (enums : List (List KC)) (p : Pol) (carry : List KC) :
    (evictLoop est key cost inc enums p carry).victims =
      ((evictLoop est key cost inc enums p carry).rounds.filter (fun r => !r.rejected)).map Round.victim := by
  induction enums generalizing p carry with
  | nil => simp only [evictLoop]; split <;> simp
  | cons enum rest ih =>
    simp only [evictLoop]
    split
    · split
      · simp
      · split
        · simp [Round.victim]
        · simp [ih, Round.victim]
    · simp

/-- every round refills the slice it was handed, scans it, and compares with the newcomer -/
theorem loop_rounds_spec (enums : List (List KC)) (p : Pol) (carry : List KC) :
    ∀ r ∈ (evictLoop est key cost inc enums p carry).rounds,
      r.sample = fillSample r.carry r.enum ∧ r.min = scan est r.sample ∧
        r.rejected = incLess inc r.min.hits := by
  induction enums generalizing p carry with
  | nil => simp only [evictLoop]; split <;> simp
  | cons enum rest ih =>
    simp only [evictLoop]
    split
    · split
      · next h => simp [h]
      · next h =>
        split
        · simp [h]
        · intro r hr
          simp only [List.mem_cons] at hr
          rcases hr with hr | hr
          · subst hr; simp [h]
          · exact ih _ _ r hr
    · simp

theorem loop_chained (enums : List (List KC)) (p : Pol) (carry : List KC) :
    Chained p carry (evictLoop est key cost inc enums p carry).rounds := by
  induction enums generalizing p carry with
  | nil => simp only [evictLoop]; split <;> simp [Chained]
  | cons enum rest ih =>
    simp only [evictLoop]
    split
    · split
      · simp [Chained]
      · split
        · simp [Chained]
        · next s' hs =>
          simp only [Chained, true_and]
          right
          exact ⟨s', hs, ih _ _⟩
    · simp [Chained]

/-- admitted ⇒ the loop ran to completion; a completed `Add` is a rejection iff some round rejected -/
theorem loop_status (enums : List (List KC)) (p : Pol) (carry : List KC) :
    ((evictLoop est key cost inc enums p carry).admitted = true →
        (evictLoop est key cost inc enums p carry).status = .ok) ∧
    ((evictLoop est key cost inc enums p carry).status = .ok →
      ((evictLoop est key cost inc enums p carry).admitted = false ↔
        ∃ r ∈ (evictLoop est key cost inc enums p carry).rounds, r.rejected = true)) := by
  induction enums generalizing p carry with
  | nil => simp only [evictLoop]; split <;> simp
  | cons enum rest ih =>
    simp only [evictLoop]
    split
    · split
      · simp
      · split
        · simp
        · have := ih (p.del (scan est (fillSample carry enum)).key)
          simp only [List.mem_cons, exists_eq_or_imp, Bool.false_eq_true, false_or]
          exact this _
    · simp

theorem loop_maxCost (enums : List (List KC)) (p : Pol) (carry : List KC) :
    (evictLoop est key cost inc enums p carry).pol.maxCost = p.maxCost := by
  induction enums generalizing p carry with
  | nil => simp only [evictLoop]; split <;> simp [Pol.evictAdd]
  | cons enum rest ih =>
    simp only [evictLoop]
    split
    · split
      · simp
      · split
        · simp [Pol.del_maxCost]
        · simp [ih, Pol.del_maxCost]
    · simp [Pol.evictAdd]

end structural

/-! ### semantic facts, under `wf` and the no-overflow hypothesis -/

theorem needRoom_roomLeft {p : Pol} {cost : Int} (hwf : p.wf) (hno : p.NoOvf cost) :
    needRoom (roomLeft p.maxCost p.used cost) = decide (p.maxCost - (p.used + cost) < 0) := by
  have hr := Pol.ranges hwf hno
  rw [roomLeft_eq hr.2.1 hr.1 hr.2.2.1 hr.2.2.2.1 hr.2.2.2.2.1, needRoom_eq hr.2.2.2.2.1]

theorem roomOk_roomLeft {p : Pol} {cost : Int} (hwf : p.wf) (hno : p.NoOvf cost) :
    roomOk (roomLeft p.maxCost p.used cost) = decide (0 ≤ p.maxCost - (p.used + cost)) := by
  have hr := Pol.ranges hwf hno
  rw [roomLeft_eq hr.2.1 hr.1 hr.2.2.1 hr.2.2.2.1 hr.2.2.2.2.1, roomOk_eq hr.2.2.2.2.1]

theorem lookup_del_none {p : Pol} {key : Hash} (k : Hash) (h : lookup p.keyCosts key = none) :
    lookup (p.del k).keyCosts key = none := by
  rw [Pol.del_keyCosts, lookup_eq_none] at *
  intro hm; exact h (mem_keys_erase.1 hm).1

theorem del_used_le {p : Pol} {x : Int} (k : Hash) (hwf : p.wf) (hno : p.NoOvf x) (hnn : NonNeg p.keyCosts) :
    (p.del k).used ≤ p.used := by
  cases h : lookup p.keyCosts k with
  | none => rw [Pol.del_none h]; omega
  | some c =>
    rw [Pol.del_used hwf hno h]
    have := hnn _ (lookup_some_mem h)
    simp only at this; omega

theorem nonNeg_del {p : Pol} (k : Hash) (hnn : NonNeg p.keyCosts) : NonNeg (p.del k).keyCosts := by
  rw [Pol.del_keyCosts]; exact nonNeg_erase k hnn

/-- What the loop guarantees about its final state `q` and verdict `adm`, started from `p`. -/
structure LoopInv (p : Pol) (key : Hash) (cost : Int) (q : Pol) (adm : Bool) : Prop where
  wf : q.wf
  absSum_le : absSum q.keyCosts ≤ absSum p.keyCosts + (cost.natAbs : Int)
  fits : adm = true → q.used ≤ q.maxCost
  has_new : adm = true → lookup q.keyCosts key = some cost
  not_new : adm = false → lookup q.keyCosts key = none
  nonneg : NonNeg p.keyCosts → 0 ≤ cost → NonNeg q.keyCosts
  used_le : NonNeg p.keyCosts → adm = false → q.used ≤ p.used

theorem LoopInv.same {p : Pol} {key : Hash} {cost : Int} (hwf : p.wf)
    (hk : lookup p.keyCosts key = none) : LoopInv p key cost p false where
  wf := hwf
  absSum_le := by omega
  fits := by simp
  has_new := by simp
  not_new := fun _ => hk
  nonneg := fun h _ => h
  used_le := fun _ _ => Int.le_refl _

theorem LoopInv.done {p : Pol} {key : Hash} {cost : Int} (hwf : p.wf) (hno : p.NoOvf cost)
    (hk : lookup p.keyCosts key = none) (hroom : ¬ p.maxCost - (p.used + cost) < 0) :
    LoopInv p key cost (p.evictAdd key cost) true where
  wf := Pol.wf_evictAdd hwf hno hk
  absSum_le := by rw [Pol.evictAdd_keyCosts cost hk]; simp only [absSum]; omega
  fits := by
    intro _
    rw [Pol.evictAdd_used key hwf hno, Pol.evictAdd_maxCost]; omega
  has_new := by intro _; rw [Pol.evictAdd_keyCosts cost hk]; simp [lookup]
  not_new := by simp
  nonneg := by
    intro h hc
    rw [Pol.evictAdd_keyCosts cost hk]
    intro x hx
    rcases List.mem_cons.1 hx with hx | hx
    · subst hx; exact hc
    · exact h x hx
  used_le := by simp

theorem LoopInv.of_del {p q : Pol} {key : Hash} {cost : Int} {adm : Bool} (k : Hash) (hwf : p.wf)
    (hno : p.NoOvf cost) (h : LoopInv (p.del k) key cost q adm) : LoopInv p key cost q adm where
  wf := h.wf
  absSum_le := by
    have h1 := h.absSum_le
    rw [Pol.del_keyCosts] at h1
    have := absSum_erase_le' p.keyCosts k
    omega
  fits := h.fits
  has_new := h.has_new
  not_new := h.not_new
  nonneg := fun hn hc => h.nonneg (nonNeg_del k hn) hc
  used_le := fun hn ha => by
    have h1 := h.used_le (nonNeg_del k hn) ha
    have h2 := del_used_le k hwf hno hn
    omega

theorem loop_inv (est : Hash → Int) (key : Hash) (cost inc : Int) (enums : List (List KC)) (p : Pol)
    (carry : List KC) (hwf : p.wf) (hno : p.NoOvf cost) (hk : lookup p.keyCosts key = none) :
    LoopInv p key cost (evictLoop est key cost inc enums p carry).pol
      (evictLoop est key cost inc enums p carry).admitted := by
  induction enums generalizing p carry with
  | nil =>
    simp only [evictLoop]
    rw [needRoom_roomLeft hwf hno]
    by_cases hroom : p.maxCost - (p.used + cost) < 0
    · simp only [hroom, decide_true, if_true]; exact LoopInv.same hwf hk
    · simp only [hroom, decide_false, Bool.false_eq_true, if_false]; exact LoopInv.done hwf hno hk hroom
  | cons enum rest ih =>
    simp only [evictLoop]
    rw [needRoom_roomLeft hwf hno]
    by_cases hroom : p.maxCost - (p.used + cost) < 0
    · simp only [hroom, decide_true, if_true]
      split
      · exact LoopInv.same hwf hk
      · have hwf' := Pol.wf_del (scan est (fillSample carry enum)).key hwf hno
        have hno' := Pol.noOvf_del (scan est (fillSample carry enum)).key hno
        have hk' := lookup_del_none (scan est (fillSample carry enum)).key hk
        split
        · exact LoopInv.of_del _ hwf hno (LoopInv.same hwf' hk')
        · exact LoopInv.of_del _ hwf hno (ih _ _ hwf' hno' hk')
    · simp only [hroom, decide_false, Bool.false_eq_true, if_false]; exact LoopInv.done hwf hno hk hroom

/-! ### one-step equations of the loop -/

section equations
variable (est : Hash → Int) (key : Hash) (cost inc : Int)

theorem evictLoop_done (enums : List (List KC)) (p : Pol) (carry : List KC)
    (h : needRoom (roomLeft p.maxCost p.used cost) = false) :
    evictLoop est key cost inc enums p carry =
      { pol := p.evictAdd key cost, victims := [], admitted := true, status := .ok, rounds := [] } := by
  cases enums <;> simp [evictLoop, h]

theorem evictLoop_stuck (p : Pol) (carry : List KC)
    (h : needRoom (roomLeft p.maxCost p.used cost) = true) :
    evictLoop est key cost inc [] p carry =
      { pol := p, victims := [], admitted := false, status := .stuck, rounds := [] } := by
  simp [evictLoop, h]

theorem evictLoop_reject (enum : List KC) (rest : List (List KC)) (p : Pol) (carry : List KC)
    (h : needRoom (roomLeft p.maxCost p.used cost) = true)
    (hr : incLess inc (scan est (fillSample carry enum)).hits = true) :
    evictLoop est key cost inc (enum :: rest) p carry =
      { pol := p, victims := [], admitted := false, status := .ok,
        rounds := [{ before := p, carry := carry, enum := enum, sample := fillSample carry enum,
                     min := scan est (fillSample carry enum), rejected := true }] } := by
  simp [evictLoop, h, hr]

theorem evictLoop_continue (enum : List KC) (rest : List (List KC)) (p : Pol) (carry s' : List KC)
    (h : needRoom (roomLeft p.maxCost p.used cost) = true)
    (hr : incLess inc (scan est (fillSample carry enum)).hits = false)
    (hs : swapRemove (fillSample carry enum) (scan est (fillSample carry enum)).id = some s') :
    evictLoop est key cost inc (enum :: rest) p carry =
      { evictLoop est key cost inc rest (p.del (scan est (fillSample carry enum)).key) s' with
        victims := ((scan est (fillSample carry enum)).key, (scan est (fillSample carry enum)).cost) ::
          (evictLoop est key cost inc rest (p.del (scan est (fillSample carry enum)).key) s').victims,
        rounds := { before := p, carry := carry, enum := enum, sample := fillSample carry enum,
                    min := scan est (fillSample carry enum), rejected := false } ::
          (evictLoop est key cost inc rest (p.del (scan est (fillSample carry enum)).key) s').rounds } := by
  simp [evictLoop, h, hr, hs]

end equations

/-! ### no panic, real and phantom victims -/

/-- every sample entry is either current (its key is accounted with exactly that cost) or
stale (its key is not accounted any more) -/
def SampleFresh (kcs s : List KC) : Prop := ∀ x ∈ s, lookup kcs x.1 = some x.2 ∨ lookup kcs x.1 = none

/-- a non-rejecting round whose victim was still accounted (not a phantom) -/
def Round.real (r : Round) : Bool := !r.rejected && (lookup r.before.keyCosts r.min.key).isSome

def victimCosts : List Round → Int
  | [] => 0
  | r :: rs => r.min.cost + victimCosts rs

/-- a newcomer estimate is an `int64` below `MaxInt64` -/
def IncOK (inc : Int) : Prop := -2 ^ 63 ≤ inc ∧ inc < 2 ^ 63 - 1

/-- A round that does not reject scanned a non-empty sample, and its swap-remove succeeds. -/
theorem round_not_rejected {est : Hash → Int} (hest : EstOK est) {inc : Int} (hinc : IncOK inc)
    {s : List KC} (hlen : s.length < 2 ^ 63) (hr : incLess inc (scan est s).hits = false) :
    s ≠ [] ∧ ∃ s', swapRemove s (scan est s).id = some s' := by
  have hI : I64 inc := by unfold IncOK at hinc; unfold I64; omega
  rw [incLess_eq hI (scan_hits_I64 hest s)] at hr
  have hne : s ≠ [] := by
    intro e
    subst e
    rw [scan_nil_hits] at hr
    unfold IncOK at hinc
    simp only [decide_eq_false_iff_not] at hr
    omega
  refine ⟨hne, ?_⟩
  obtain ⟨x, _, hx⟩ := swapRemove_eq (scan_spec hest hne).1 hlen
  exact ⟨_, hx⟩

theorem fresh_fill {kcs carry enum : List KC} (hnd : (keys kcs).Nodup) (hlen : carry.length < 2 ^ 63)
    (hf : SampleFresh kcs carry) (hadm : Admissible kcs carry enum) :
    SampleFresh kcs (fillSample carry enum) := by
  intro x hx
  rcases mem_fillSample hlen hx with hx | hx
  · exact hf x hx
  · left
    exact lookup_of_mem hnd (hadm.2.1 x hx)

theorem fresh_del {p : Pol} {s s' : List KC} (k : Hash) (hf : SampleFresh p.keyCosts s)
    (hsub : ∀ x ∈ s', x ∈ s) : SampleFresh (p.del k).keyCosts s' := by
  intro x hx
  by_cases hk : x.1 = k
  · right; rw [hk]; exact Pol.has_del p k
  · rw [Pol.lookup_del_ne p hk]; exact hf x (hsub x hx)

structure RealInv (p : Pol) (cost : Int) (o : AddOut) : Prop where
  no_panic : o.status ≠ .panic
  cost_eq : ∀ r ∈ o.rounds.filter Round.real, lookup r.before.keyCosts r.min.key = some r.min.cost
  nodup : ((o.rounds.filter Round.real).map (·.min.key)).Nodup
  resident : ∀ r ∈ o.rounds.filter Round.real, r.min.key ∈ keys p.keyCosts
  used_eq : o.pol.used = p.used - victimCosts (o.rounds.filter Round.real) + (if o.admitted then cost else 0)

theorem loop_real {est : Hash → Int} (hest : EstOK est) (key : Hash) (cost : Int) {inc : Int} (hinc : IncOK inc)
    (enums : List (List KC)) (p : Pol) (carry : List KC) (hwf : p.wf) (hno : p.NoOvf cost)
    (hlen : carry.length ≤ Gen.Policy.lfuSample.toNat) (hf : SampleFresh p.keyCosts carry)
    (hadm : ∀ r ∈ (evictLoop est key cost inc enums p carry).rounds, Admissible r.before.keyCosts r.carry r.enum) :
    RealInv p cost (evictLoop est key cost inc enums p carry) := by
  have h5 := lfuSample_eq
  induction enums generalizing p carry with
  | nil =>
    cases hnr : needRoom (roomLeft p.maxCost p.used cost) with
    | true =>
      rw [evictLoop_stuck est key cost inc p carry hnr]
      exact ⟨by simp, by simp, by simp, by simp, by simp [victimCosts]⟩
    | false =>
      rw [evictLoop_done est key cost inc [] p carry hnr]
      exact ⟨by simp, by simp, by simp, by simp, by simp [victimCosts, Pol.evictAdd_used key hwf hno]⟩
  | cons enum rest ih =>
    cases hnr : needRoom (roomLeft p.maxCost p.used cost) with
    | false =>
      rw [evictLoop_done est key cost inc _ p carry hnr]
      exact ⟨by simp, by simp, by simp, by simp, by simp [victimCosts, Pol.evictAdd_used key hwf hno]⟩
    | true =>
      cases hr : incLess inc (scan est (fillSample carry enum)).hits with
      | true =>
        rw [evictLoop_reject est key cost inc enum rest p carry hnr hr]
        exact ⟨by simp, by simp [Round.real], by simp [Round.real], by simp [Round.real],
          by simp [Round.real, victimCosts]⟩
      | false =>
        have hcl : carry.length < 2 ^ 63 := by omega
        have hsl : (fillSample carry enum).length ≤ Gen.Policy.lfuSample.toNat := by
          rw [length_fillSample carry enum hcl]; omega
        obtain ⟨hne, s', hs'⟩ := round_not_rejected hest hinc (by omega) hr
        have hsp := scan_spec hest hne
        rw [evictLoop_continue est key cost inc enum rest p carry s' hnr hr hs'] at hadm ⊢
        simp only [List.mem_cons, forall_eq_or_imp] at hadm
        have hfs : SampleFresh p.keyCosts (fillSample carry enum) := fresh_fill hwf.1 hcl hf hadm.1
        have hsub := fun x hx => mem_of_mem_swapRemove hsp.1 (by omega) hs' (x := x) hx
        have hl' := length_swapRemove hsp.1 (by omega) hs'
        have IH := ih (p.del (scan est (fillSample carry enum)).key) s'
          (Pol.wf_del _ hwf hno) (Pol.noOvf_del _ hno) (by omega) (fresh_del _ hfs hsub) hadm.2
        have hmem : ((scan est (fillSample carry enum)).key, (scan est (fillSample carry enum)).cost) ∈
            fillSample carry enum := List.mem_of_getElem? hsp.2.1
        cases hl : lookup p.keyCosts (scan est (fillSample carry enum)).key with
        | none =>
          rw [Pol.del_none hl] at IH ⊢
          refine ⟨by simpa using IH.no_panic, ?_, ?_, ?_, ?_⟩
          · simpa [Round.real, hl] using IH.cost_eq
          · simpa [Round.real, hl] using IH.nodup
          · simpa [Round.real, hl] using IH.resident
          · simpa [Round.real, hl] using IH.used_eq
        | some c =>
          have hc : c = (scan est (fillSample carry enum)).cost := by
            rcases hfs _ hmem with h | h
            · simp only at h; rw [hl] at h; injection h
            · simp only at h; rw [hl] at h; cases h
          have hres := IH.resident
          refine ⟨by simpa using IH.no_panic, ?_, ?_, ?_, ?_⟩
          · simp only [Round.real, hl, Bool.not_false, Option.isSome_some, Bool.and_self, List.filter_cons_of_pos,
              List.mem_cons, forall_eq_or_imp]
            exact ⟨by rw [hc], IH.cost_eq⟩
          · simp only [Round.real, hl, Bool.not_false, Option.isSome_some, Bool.and_self, List.filter_cons_of_pos,
              List.map_cons, List.nodup_cons]
            refine ⟨?_, IH.nodup⟩
            intro hm
            obtain ⟨r, hr1, hr2⟩ := List.mem_map.1 hm
            have := hres r hr1
            rw [Pol.del_keyCosts] at this
            exact (mem_keys_erase.1 this).2 hr2
          · simp only [Round.real, hl, Bool.not_false, Option.isSome_some, Bool.and_self, List.filter_cons_of_pos,
              List.mem_cons, forall_eq_or_imp]
            refine ⟨lookup_some_mem_keys hl, ?_⟩
            intro r hr1
            have := hres r hr1
            rw [Pol.del_keyCosts] at this
            exact (mem_keys_erase.1 this).1
          · simp only [Round.real, hl, Bool.not_false, Option.isSome_some, Bool.and_self, List.filter_cons_of_pos,
              victimCosts]
            have := IH.used_eq
            rw [Pol.del_used hwf hno hl] at this
            rw [this, ← hc]
            omega

/-! ### the carried sample never exceeds `lfuSample` entries -/

theorem length_swapRemove_le {s s' : List KC} {i : Nat} (h : swapRemove s i = some s') : s'.length ≤ s.length := by
  unfold swapRemove at h
  split at h
  · cases h
  · dsimp only at h
    split at h
    · injection h with h; subst h; simp; omega
    · cases h

theorem loop_carry_le (est : Hash → Int) (key : Hash) (cost inc : Int) (enums : List (List KC)) (p : Pol)
    (carry : List KC) (hlen : carry.length ≤ Gen.Policy.lfuSample.toNat) :
    ∀ r ∈ (evictLoop est key cost inc enums p carry).rounds, r.carry.length ≤ Gen.Policy.lfuSample.toNat := by
  have h5 := lfuSample_eq
  induction enums generalizing p carry with
  | nil => simp only [evictLoop]; split <;> simp
  | cons enum rest ih =>
    simp only [evictLoop]
    split
    · split
      · simp [hlen]
      · split
        · simp [hlen]
        · next s' hs =>
          intro r hr
          simp only [List.mem_cons] at hr
          rcases hr with hr | hr
          · subst hr; exact hlen
          · have h1 := length_swapRemove_le hs
            have h2 := length_fillSample carry enum (by omega)
            exact ih _ s' (by omega) r hr
    · simp

/-! ### `Pol.addFull` by cases -/

section addFull
variable {p : Pol} (est : Hash → Int) (enums : List (List KC)) (key : Hash) {cost : Int}

theorem addFull_tooBig (hc : I64 cost) (hm : I64 p.maxCost) (h : p.maxCost < cost) :
    p.addFull est enums key cost =
      { pol := p, victims := [], admitted := false, status := .ok, rounds := [] } := by
  simp [Pol.addFull, tooBig_eq hc hm, h]

theorem addFull_existing (hc : I64 cost) (hm : I64 p.maxCost) (h : ¬ p.maxCost < cost) {prev : Int}
    (hl : lookup p.keyCosts key = some prev) :
    p.addFull est enums key cost =
      { pol := p.update key cost, victims := [], admitted := false, status := .ok, rounds := [] } := by
  simp [Pol.addFull, tooBig_eq hc hm, h, Pol.update, Pol.updateIfHas, hl]

theorem addFull_fits (hwf : p.wf) (hno : p.NoOvf cost) (h : ¬ p.maxCost < cost)
    (hl : lookup p.keyCosts key = none) (hroom : 0 ≤ p.maxCost - (p.used + cost)) :
    p.addFull est enums key cost =
      { pol := p.evictAdd key cost, victims := [], admitted := true, status := .ok, rounds := [] } := by
  have hr := Pol.ranges hwf hno
  unfold Pol.addFull
  rw [tooBig_eq hr.2.2.1 hr.2.1, roomOk_roomLeft hwf hno, Pol.updateIfHas_none cost hl]
  simp only [h, hroom, decide_true, decide_false, if_true, if_false, Bool.false_eq_true]

theorem addFull_loop (hwf : p.wf) (hno : p.NoOvf cost) (h : ¬ p.maxCost < cost)
    (hl : lookup p.keyCosts key = none) (hroom : p.maxCost - (p.used + cost) < 0) :
    p.addFull est enums key cost = evictLoop est key cost (est key) enums p [] := by
  have hr := Pol.ranges hwf hno
  have : ¬ 0 ≤ p.maxCost - (p.used + cost) := by omega
  unfold Pol.addFull
  rw [tooBig_eq hr.2.2.1 hr.2.1, roomOk_roomLeft hwf hno, Pol.updateIfHas_none cost hl]
  simp only [h, this, decide_false, if_false, Bool.false_eq_true]

/-- Whatever the inputs, `Add` either returns before the loop (no rounds, no victims) or is the loop. -/
theorem addFull_cases (p : Pol) (cost : Int) :
    ((p.addFull est enums key cost).rounds = [] ∧ (p.addFull est enums key cost).victims = [] ∧
        (p.addFull est enums key cost).status = .ok) ∨
      p.addFull est enums key cost = evictLoop est key cost (est key) enums p [] := by
  unfold Pol.addFull
  split
  · left; simp
  · split
    · left; simp
    · split
      · left; simp
      · right; rfl

/-- The final state of an `Add` of a key that is not accounted. -/
theorem addFull_new_inv (hwf : p.wf) (hno : p.NoOvf cost) (hl : lookup p.keyCosts key = none) :
    LoopInv p key cost (p.addFull est enums key cost).pol (p.addFull est enums key cost).admitted ∧
      (p.addFull est enums key cost).pol.maxCost = p.maxCost := by
  have hr := Pol.ranges hwf hno
  by_cases h : p.maxCost < cost
  · rw [addFull_tooBig est enums key hr.2.2.1 hr.2.1 h]
    exact ⟨LoopInv.same hwf hl, rfl⟩
  · by_cases hroom : 0 ≤ p.maxCost - (p.used + cost)
    · rw [addFull_fits est enums key hwf hno h hl hroom]
      exact ⟨LoopInv.done hwf hno hl (by omega), rfl⟩
    · rw [addFull_loop est enums key hwf hno h hl (by omega)]
      exact ⟨loop_inv _ _ _ _ _ _ _ hwf hno hl, loop_maxCost _ _ _ _ _ _ _⟩

theorem addFull_wf (hwf : p.wf) (hno : p.NoOvf cost) : (p.addFull est enums key cost).pol.wf := by
  cases hl : lookup p.keyCosts key with
  | none => exact (addFull_new_inv est enums key hwf hno hl).1.wf
  | some prev =>
    have hr := Pol.ranges hwf hno
    by_cases h : p.maxCost < cost
    · rw [addFull_tooBig est enums key hr.2.2.1 hr.2.1 h]; exact hwf
    · rw [addFull_existing est enums key hr.2.2.1 hr.2.1 h hl]
      exact Pol.wf_updateIfHas key hwf hno

end addFull

end RV.Policy
