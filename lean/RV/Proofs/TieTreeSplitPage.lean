import RV.Proofs.TieTreeAlloc
import RV.Proofs.TreeSet
/-!
# The tree on flat memory: the two pages `Tree.split` leaves behind (page-local part)

`Tree.split` copies the words of the upper half of a full page into the fresh page, zeroes them in
the old page and sets the two counts.  Here: what the two pages read as afterwards.
-/
namespace RV.TreeFlat
open RV.Tree RV.NodeFlat Gen.TreeM

/-- entries read from a page only depend on the words in front of them -/
theorem entsUpTo_congr (p p' : Words) (n : Nat) (h : ∀ j, j < 2 * n → p'[j]! = p[j]!) :
    entsUpTo p' n = entsUpTo p n := by
  unfold entsUpTo
  apply List.map_congr_left
  intro i hi
  simp only [List.mem_range] at hi
  unfold keyW valW
  rw [h (2 * i) (by omega), h (2 * i + 1) (by omega)]

theorem entsUpTo_take (p : Words) (n m : Nat) (h : m ≤ n) : (entsUpTo p n).take m = entsUpTo p m := by
  unfold entsUpTo
  rw [← List.map_take, List.take_range, Nat.min_eq_left h]

theorem entsUpTo_drop (p p' : Words) (n m : Nat) (h : m ≤ n)
    (hw : ∀ j, j < 2 * (n - m) → p'[j]! = p[2 * m + j]!) :
    (entsUpTo p n).drop m = entsUpTo p' (n - m) := by
  apply List.ext_getElem?
  intro i
  rw [List.getElem?_drop, entsUpTo_get?, entsUpTo_get?]
  by_cases hi : i < n - m
  · rw [if_pos (by omega), if_pos hi]
    unfold keyW valW
    rw [hw (2 * i) (by omega), hw (2 * i + 1) (by omega)]
    congr 3 <;> omega
  · rw [if_neg (by omega), if_neg hi]

/-- the old page of a split: the upper half is zeroed, the count halved -/
theorem split_left_page {mk : Nat} (hmk2 : 2 ≤ mk) (hmk : mk < 2 ^ 15) (Q Q1 : Words) (hok : PageOk mk Q)
    (hfull : nkeys mk Q = mk) (hs1 : Q1.size = Q.size)
    (hw : ∀ j, j < 2 * (mk + 1) → Q1[j]! = if 2 * (mk / 2) ≤ j ∧ j < 2 * mk then 0#64 else Q[j]!) :
    ∃ Q2, Gen.Node.setNumKeys Q1 (w mk) (w (mk / 2)) = some Q2 ∧ Q2.size = Q.size ∧ PageOk mk Q2 ∧
      ents mk Q2 = (ents mk Q).take (mk / 2) ∧ leafBit mk Q2 = leafBit mk Q ∧ kindBits mk Q2 = kindBits mk Q ∧
      pidW mk Q2 = pidW mk Q := by
  obtain ⟨hs, hn, hnz, hinc, hzero⟩ := hok
  have hs1' : Q1.size = 2 * (mk + 1) := by omega
  obtain ⟨Q2, h2, hs2, hmeta, hwords⟩ := setNumKeys_w (p := Q1) (mk := mk) hs1' (by omega) (n := mk / 2) (by omega)
  have hmetaQ1 : metaW mk Q1 = metaW mk Q := by
    unfold metaW; rw [hw _ (by omega), if_neg (by omega)]
  rw [hmetaQ1] at hmeta
  have hnk : nkeys mk Q2 = mk / 2 := nkeys_of_meta hmeta (by omega)
  have hQ2 : ∀ j, j < 2 * mk → Q2[j]! = if 2 * (mk / 2) ≤ j then 0#64 else Q[j]! := by
    intro j hj
    rw [hwords j (by omega), hw j (by omega)]
    by_cases h : 2 * (mk / 2) ≤ j
    · rw [if_pos ⟨h, hj⟩, if_pos h]
    · rw [if_neg (by omega), if_neg h]
  refine ⟨Q2, h2, by omega, ⟨by omega, by omega, ?_, ?_, ?_⟩, ?_, ?_, ?_, ?_⟩
  · intro i hi
    rw [hnk] at hi
    unfold keyW; rw [hQ2 _ (by omega), if_neg (by omega)]
    exact hnz i (by omega)
  · intro i hi hi1
    rw [hnk] at hi hi1
    unfold keyW; rw [hQ2 _ (by omega), if_neg (by omega), hQ2 _ (by omega), if_neg (by omega)]
    exact hinc i (by omega) (by omega)
  · intro i hi hle
    rw [hnk] at hle
    unfold keyW valW
    rw [hQ2 _ (by omega), if_pos (by omega), hQ2 _ (by omega), if_pos (by omega)]
    exact ⟨rfl, rfl⟩
  · unfold ents
    rw [hnk, hfull, entsUpTo_take _ _ _ (by omega)]
    apply entsUpTo_congr
    intro j hj
    rw [hQ2 j (by omega), if_neg (by omega)]
  · rw [leafBit_of_meta hmeta (by omega)]
  · rw [kindBits_of_meta hmeta (by omega)]
  · unfold pidW; rw [hwords _ (by omega), hw _ (by omega), if_neg (by omega)]

/-- the new page of a split: the upper half of the old one in front, the count -/
theorem split_right_page {cfg : Cfg} {mk : Nat} (hmkc : mk = cfg.maxKeys) (hmk2 : 2 ≤ mk) (hmk : mk < 2 ^ 15)
    (Q F P1 : Words) (leaf : Bool) (p : Nat)
    (hok : PageOk mk Q) (hfull : nkeys mk Q = mk) (hF : FreshPage cfg leaf p F) (hs1 : P1.size = F.size)
    (hw : ∀ j, j < 2 * (mk + 1) → P1[j]! = if j < 2 * (mk - mk / 2) then Q[2 * (mk / 2) + j]! else F[j]!) :
    ∃ P2, Gen.Node.setNumKeys P1 (w mk) (w (mk - mk / 2)) = some P2 ∧ P2.size = F.size ∧ PageOk mk P2 ∧
      ents mk P2 = (ents mk Q).drop (mk / 2) ∧ leafBit mk P2 = leaf ∧ kindBits mk P2 = kindOf leaf ∧
      pidW mk P2 = w p := by
  subst hmkc
  obtain ⟨hs, hn, hnz, hinc, hzero⟩ := hok
  have hFs : F.size = 2 * (cfg.maxKeys + 1) := hF.ok.1
  have hs1' : P1.size = 2 * (cfg.maxKeys + 1) := by omega
  obtain ⟨P2, h2, hs2, hmeta, hwords⟩ :=
    setNumKeys_w (p := P1) (mk := cfg.maxKeys) hs1' (by omega) (n := cfg.maxKeys - cfg.maxKeys / 2) (by omega)
  have hmetaP1 : metaW cfg.maxKeys P1 = metaW cfg.maxKeys F := by
    unfold metaW; rw [hw _ (by omega), if_neg (by omega)]
  rw [hmetaP1] at hmeta
  have hnk : nkeys cfg.maxKeys P2 = cfg.maxKeys - cfg.maxKeys / 2 := nkeys_of_meta hmeta (by omega)
  have hFz : ∀ j, j < 2 * cfg.maxKeys → F[j]! = 0#64 := by
    intro j hj
    have hnkF : nkeys cfg.maxKeys F = 0 := by rw [← ents_length, hF.ents]; rfl
    have := hF.ok.2.2.2.2 (j / 2) (by omega) (by omega)
    unfold keyW valW at this
    rcases Nat.mod_two_eq_zero_or_one j with h | h
    · rw [show j = 2 * (j / 2) by omega]; exact this.1
    · rw [show j = 2 * (j / 2) + 1 by omega]; exact this.2
  have hP2 : ∀ j, j < 2 * cfg.maxKeys →
      P2[j]! = if j < 2 * (cfg.maxKeys - cfg.maxKeys / 2) then Q[2 * (cfg.maxKeys / 2) + j]! else 0#64 := by
    intro j hj
    rw [hwords j (by omega), hw j (by omega)]
    by_cases h : j < 2 * (cfg.maxKeys - cfg.maxKeys / 2)
    · rw [if_pos h, if_pos h]
    · rw [if_neg h, if_neg h, hFz j hj]
  refine ⟨P2, h2, by omega, ⟨by omega, by omega, ?_, ?_, ?_⟩, ?_, ?_, ?_, ?_⟩
  · intro i hi
    rw [hnk] at hi
    unfold keyW; rw [hP2 _ (by omega), if_pos (by omega)]
    have := hnz (cfg.maxKeys / 2 + i) (by omega)
    unfold keyW at this
    rw [show 2 * (cfg.maxKeys / 2) + 2 * i = 2 * (cfg.maxKeys / 2 + i) by omega]; exact this
  · intro i hi hi1
    rw [hnk] at hi hi1
    unfold keyW; rw [hP2 _ (by omega), if_pos (by omega), hP2 _ (by omega), if_pos (by omega)]
    have := hinc (cfg.maxKeys / 2 + i) (by omega) (by omega)
    unfold keyW at this
    rw [show 2 * (cfg.maxKeys / 2) + 2 * i = 2 * (cfg.maxKeys / 2 + i) by omega,
      show 2 * (cfg.maxKeys / 2) + 2 * (i + 1) = 2 * (cfg.maxKeys / 2 + i + 1) by omega]; exact this
  · intro i hi hle
    rw [hnk] at hle
    unfold keyW valW
    rw [hP2 _ (by omega), if_neg (by omega), hP2 _ (by omega), if_neg (by omega)]
    exact ⟨rfl, rfl⟩
  · unfold ents
    rw [hnk, hfull]
    exact Eq.symm <| entsUpTo_drop Q P2 cfg.maxKeys (cfg.maxKeys / 2) (by omega) (fun j hj => by rw [hP2 j (by omega), if_pos hj])
  · rw [leafBit_of_meta hmeta (by omega), hF.isLeaf]
  · rw [kindBits_of_meta hmeta (by omega), hF.kind]
  · unfold pidW; rw [hwords _ (by omega), hw _ (by omega), if_neg (by omega)]
    exact hF.pid

end RV.TreeFlat
