import RV.Proofs.TieTree2ReinitB
/-!
# The tree on flat memory: `Tree.reinit` (generated whole), part C: the frontier scan

`ri_scan`: the `whileM` loop of `reinit` moves `nextPage` from 1 to the first page that does not fit
in the data or whose page-id word is 0.
-/
namespace RV.TreeFlat
open RV.Tree RV.NodeFlat Gen.TreeM

theorem ri_cond_val {cfg : Cfg} (hc : CfgFlat cfg) (s : St) (i : Nat) (hsmall : s.data.size < 2 ^ 40)
    (hnp : s.nextPage = w i) (hi : i < 2 ^ 40) :
    BitVec.sle ((s.nextPage + 1#64) * w cfg.pageSize) (dataLen s) = decide ((i + 1) * pw cfg ≤ s.data.size) := by
  have hpw := hc.pw_lt
  have hpos := pw_pos cfg
  have hmul : (w i + 1#64) * w cfg.pageSize = w (8 * ((i + 1) * pw cfg)) := by
    rw [NodeFlat.w_add_one, hc.ps_eq]; simp only [w, ← BitVec.ofNat_mul]; congr 1
    rw [Nat.mul_left_comm]
  have hb : (i + 1) * pw cfg ≤ 2 ^ 40 * 2 ^ 16 := Nat.mul_le_mul (by omega) hpw
  rw [hnp, hmul]
  show BitVec.sle _ (w (8 * s.data.size)) = _
  rw [w_sle (by omega) (by omega)]
  congr 1
  apply propext
  omega

theorem ri_scan_go {cfg : Cfg} (hc : CfgFlat cfg) (d : Words) (hsmall : d.size < 2 ^ 40) (N : Nat) (hN40 : N < 2 ^ 40)
    (cond : St → Option Bool)
    (hcond : ∀ s, cond s = some (BitVec.sle ((s.nextPage + 1#64) * w cfg.pageSize) (dataLen s)))
    (hlive : ∀ q, 1 ≤ q → q < N → (q + 1) * pw cfg ≤ d.size ∧ pidW cfg.maxKeys (pageOf cfg d q) ≠ 0#64)
    (hend : d.size < (N + 1) * pw cfg ∨ pidW cfg.maxKeys (pageOf cfg d N) = 0#64) :
    ∀ (j fuel i : Nat) (s : St), s.data = d → s.nextPage = w i → i + j = N → 1 ≤ i → j < fuel →
      whileGo (ρ := St) cond (reinit_loop1 (w cfg.pageSize) (w cfg.maxKeys)) fuel s =
        some (.done { s with nextPage := w N } 0#64) := by
  have hmk := hc.mkLt
  intro j
  induction j with
  | zero =>
    intro fuel i s hd hnp hij hi1 hf
    have hiN : i = N := by omega
    have hs : { s with nextPage := w N } = s := by
      rw [← hiN, ← hnp]
    rw [hs]
    obtain ⟨f, rfl⟩ : ∃ f, fuel = f + 1 := ⟨fuel - 1, by omega⟩
    have hcv : cond s = some (decide ((i + 1) * pw cfg ≤ d.size)) := by
      rw [hcond, ri_cond_val hc s i (by rw [hd]; exact hsmall) hnp (by omega), hd]
    rw [whileGo, hcv]
    simp only [Option.bind_some]
    by_cases hfit : (i + 1) * pw cfg ≤ d.size
    · rw [if_pos (by simpa using hfit)]
      have hz : pidW cfg.maxKeys (pageOf cfg d i) = 0#64 := by
        rcases hend with h | h
        · rw [hiN] at hfit; omega
        · rw [hiN]; exact h
      have hfs : (i + 1) * pw cfg ≤ s.data.size := by rw [hd]; exact hfit
      have hb : reinit_loop1 (w cfg.pageSize) (w cfg.maxKeys) s = some (.brk s) := by
        unfold reinit_loop1
        simp only []
        rw [hnp, node_w hc s i (by omega) hfs (by rw [hd]; exact hsmall)]
        simp only [Option.bind_some]
        rw [rdNode_refOf s i hfs, hd, pageID_w (by rw [pageOf_size _ _ hfit]; rfl) (by rw [pageOf_size _ _ hfit]; unfold pw; omega), hz]
        simp
      rw [hb]
    · rw [if_neg (by simpa using hfit)]
  | succ j ih =>
    intro fuel i s hd hnp hij hi1 hf
    obtain ⟨f, rfl⟩ : ∃ f, fuel = f + 1 := ⟨fuel - 1, by omega⟩
    obtain ⟨hfit, hnz⟩ := hlive i hi1 (by omega)
    have hcv : cond s = some (decide ((i + 1) * pw cfg ≤ d.size)) := by
      rw [hcond, ri_cond_val hc s i (by rw [hd]; exact hsmall) hnp (by omega), hd]
    rw [whileGo, hcv]
    simp only [Option.bind_some]
    rw [if_pos (by simpa using hfit)]
    have hfs : (i + 1) * pw cfg ≤ s.data.size := by rw [hd]; exact hfit
    have hb : reinit_loop1 (w cfg.pageSize) (w cfg.maxKeys) s =
        some (.next { s with nextPage := w (i + 1) }) := by
      unfold reinit_loop1
      simp only []
      rw [hnp, node_w hc s i (by omega) hfs (by rw [hd]; exact hsmall)]
      simp only [Option.bind_some]
      rw [rdNode_refOf s i hfs, hd, pageID_w (by rw [pageOf_size _ _ hfit]; rfl) (by rw [pageOf_size _ _ hfit]; unfold pw; omega)]
      simp only [Option.bind_some]
      have : (pidW cfg.maxKeys (pageOf cfg d i) == 0#64) = false := by simpa using hnz
      rw [this, NodeFlat.w_add_one]
      simp
    rw [hb]
    simp only []
    exact ih f (i + 1) { s with nextPage := w (i + 1) } hd rfl (by omega) (by omega) (by omega)

theorem ri_scan {cfg : Cfg} (hc : CfgFlat cfg) (t0 : St) (hsmall : t0.data.size < 2 ^ 40) (N : Nat) (hN : 1 ≤ N)
    (cond : St → Option Bool)
    (hcond : ∀ s, cond s = some (BitVec.sle ((s.nextPage + 1#64) * w cfg.pageSize) (dataLen s)))
    (hlive : ∀ q, 1 ≤ q → q < N → (q + 1) * pw cfg ≤ t0.data.size ∧ pidW cfg.maxKeys (pageOf cfg t0.data q) ≠ 0#64)
    (hend : t0.data.size < (N + 1) * pw cfg ∨ pidW cfg.maxKeys (pageOf cfg t0.data N) = 0#64) :
    whileM (ρ := St) (2 ^ 64) cond (reinit_loop1 (w cfg.pageSize) (w cfg.maxKeys)) { t0 with nextPage := 1#64 } =
      some (.done { t0 with nextPage := w N } 0#64) := by
  have hpos := pw_pos cfg
  have hN40 : N < 2 ^ 40 := by
    rcases Nat.lt_or_ge N 2 with h | h
    · omega
    · have h1 := (hlive (N - 1) (by omega) (by omega)).1
      have e : N - 1 + 1 = N := by omega
      rw [e] at h1
      have : N * 1 ≤ N * pw cfg := Nat.mul_le_mul (Nat.le_refl _) hpos
      omega
  unfold whileM
  exact ri_scan_go hc t0.data hsmall N hN40 cond hcond hlive hend (N - 1) (2 ^ 64) 1
    { t0 with nextPage := 1#64 } rfl rfl (by omega) (by omega) (by omega)

end RV.TreeFlat
