import RV.Proofs.TieTree2Set
import RV.Proofs.TieTree2Child
import RV.Proofs.TreePids
/-!
# The tree on flat memory: `Tree.compact` (generated whole) refines the structural `compactNode`

Leaf case, one round of the loop over the children (drop-child and keep-child branch), the loop.
-/
namespace RV.TreeFlat
open RV.Tree RV.NodeFlat Gen.TreeM Gen.Tree

theorem cp_compactNode_leaf (ts : Val) (p : Nat) (es : List (Key × Val)) (a : Alloc) :
    compactNode ts (.leaf p es) a =
      (.leaf p (nodeCompact id (fun _ => 0#64) es ts).1,
       { a with leafKeys := a.leafKeys + (Node.leaf p (nodeCompact id (fun _ => 0#64) es ts).1).numKeys },
       (nodeCompact id (fun _ => 0#64) es ts).2) := by
  rw [compactNode]

theorem cp_compactNode_inner (ts : Val) (p : Nat) (es : List (Key × Node)) (a : Alloc) :
    compactNode ts (.inner p es) a =
      (.inner p (nodeCompact childWord (fun _ => Node.null) (compactEnts ts es 0 (Node.inner p es).numKeys a).1 1#64).1,
       (compactEnts ts es 0 (Node.inner p es).numKeys a).2,
       (nodeCompact childWord (fun _ => Node.null) (compactEnts ts es 0 (Node.inner p es).numKeys a).1 1#64).2) := by
  rw [compactNode]

/-- what one call of the generated `Tree.compact` (as `self`) delivers on a represented node -/
def cp_Post (cfg : Cfg) (ts : Val) (self : St → NodeRef → BitVec 64 → Option (St × BitVec 64))
    (n : Node) (t : St) (a : Alloc) : Prop :=
  ∃ t', self t (refOf cfg t n.pid) ts = some (t', w (compactNode ts n a).2.2) ∧
      TreeFlat.Repr cfg t'.data (compactNode ts n a).1 ∧ AllocInv cfg t' (compactNode ts n a).2.1 ∧
      t'.data.size = t.data.size ∧ t'.epoch = t.epoch ∧
      (∀ r, r ∉ pids n → r ∉ a.free → r < a.nextPage → (r + 1) * pw cfg ≤ t.data.size →
        pageOf cfg t'.data r = pageOf cfg t.data r)

theorem cp_compact_leaf {cfg : Cfg} (hc : CfgFlat cfg) (ts : Val) (fuel : Nat) (p : Nat) (es : List (Key × Val))
    (t : St) (a : Alloc) (hr : TreeFlat.Repr cfg t.data (.leaf p es)) (hinv : AllocInv cfg t a)
    (hlive : Live a (.leaf p es)) :
    cp_Post cfg ts (Gen.TreeM.compact (w cfg.pageSize) (w cfg.maxKeys) (fuel + 1)) (.leaf p es) t a := by
  have hpg := repr_leaf hr
  have hmk := hc.mkLt
  have hs := hpg.ok.1
  have hpf := (hlive.live p (by simp [pids])).1
  obtain ⟨p', hp', hsz', hents', hnk', hpid', hkind', hleaf', hz'⟩ := compact_w hpg.ok hc.mk1 (by omega) ts
  have hok' : PageOk cfg.maxKeys p' := compact_pageOk hpg.ok hc.mk1 (by omega) ts p' _ hp'
  have hp's : p'.size = pw cfg := by rw [hsz', pageOf_size _ _ hpg.fit]
  rw [hpg.ents] at hp' hents'
  have hlen : (nodeCompact id (fun _ => 0#64) es ts).1.length < 2 ^ 32 := by
    rw [← hents', ents_length]; have := hok'.2.1; omega
  unfold cp_Post
  rw [cp_compactNode_leaf]
  simp only [Node.pid]
  rw [Gen.TreeM.compact]
  rw [rdNode_refOf t p hpg.fit, isLeaf_w hs (by omega), hpg.isLeaf]
  simp only [Option.bind_some, if_true, refOf]
  rw [wrNodeR_win (cfg := cfg) t p t.epoch rfl hpg.fit _ p' _ hp' hp's]
  simp only [Option.bind_some]
  have hfit2 : (p + 1) * pw cfg ≤ (setPage cfg t.data p p').size := by rw [setPage_size]; exact hpg.fit
  rw [rdNode_win (cfg := cfg) { t with data := setPage cfg t.data p p' } p t.epoch rfl hfit2]
  simp only []
  rw [pageOf_setPage_self _ _ _ hpg.fit hp's, numKeys_w hok'.1 (by have := hok'.1; omega)]
  simp only [Option.bind_some]
  rw [← ents_length, hents']
  rw [Node.numKeys_eq _ (by simpa [Node.len] using hlen)]
  simp only [Node.len]
  refine ⟨_, rfl, ?_, ?_, ?_, rfl, ?_⟩
  · simp only []
    rw [TreeFlat.Repr]
    refine ⟨hpg.pos, hfit2, ?_, ?_, ?_, ?_, ?_⟩
    · rw [pageOf_setPage_self _ _ _ hpg.fit hp's]; exact hok'
    · rw [pageOf_setPage_self _ _ _ hpg.fit hp's, hleaf']; exact hpg.isLeaf
    · rw [pageOf_setPage_self _ _ _ hpg.fit hp's, hkind']; exact hpg.kind
    · rw [pageOf_setPage_self _ _ _ hpg.fit hp's, hpid']; exact hpg.pid
    · rw [pageOf_setPage_self _ _ _ hpg.fit hp's]; exact hents'
  · exact (hinv.setPage p p' hpf hpg.fit hp's).addLeafKeys _
  · simp only [setPage_size]
  · intro q hq _ _ hfq
    simp only []
    exact pageOf_setPage_ne _ _ _ _ (by simpa [pids] using hq) hpg.fit hfq hp's


theorem cp_ofInt_sub_nat (x : Int) (n : Nat) : BitVec.ofInt 64 x - w n = BitVec.ofInt 64 (x - (n : Nat)) := by
  rw [Int.sub_eq_add_neg, BitVec.ofInt_add, BitVec.sub_eq_add_neg, BitVec.ofInt_neg]
  congr 2

theorem cp_ofInt_add_one (x : Int) : BitVec.ofInt 64 x + 1#64 = BitVec.ofInt 64 (x + 1) := by
  rw [BitVec.ofInt_add]; rfl

theorem cp_allocInv_drop {cfg : Cfg} {t1 : St} {a1 : Alloc} (hinv1 : AllocInv cfg t1 a1) (p q k : Nat)
    (pgq pg2 : Words) (hq0 : 0 < q) (hqfit : (q + 1) * pw cfg ≤ t1.data.size) (hqf : q ∉ a1.free)
    (hqlt : q < a1.nextPage) (hpq : p ≠ q) (hpf : p ∉ a1.free) (hpfit : (p + 1) * pw cfg ≤ t1.data.size)
    (hs1 : pgq.size = pw cfg) (h0 : pgq[0]! = t1.freePage) (hs2 : pg2.size = pw cfg) :
    AllocInv cfg { t1 with numLeafKeys := t1.numLeafKeys - w k,
                           data := setPage cfg (setPage cfg t1.data q pgq) p pg2,
                           freePage := w q, numPagesFree := t1.numPagesFree + 1#64 }
      { a1 with leafKeys := a1.leafKeys - (k : Nat), free := q :: a1.free, pagesFree := a1.pagesFree + 1 } := by
  have hfit' : (p + 1) * pw cfg ≤ (setPage cfg t1.data q pgq).size := by rw [setPage_size]; exact hpfit
  refine ⟨⟨hinv1.scal.nextPage, rfl, ?_, ?_, ?_, hinv1.scal.curSz, hinv1.scal.bufOffset, hinv1.scal.fault⟩,
    ?_, ?_, ?_, hinv1.npos, ?_⟩
  · simp only []; rw [hinv1.scal.leafKeys, cp_ofInt_sub_nat]
  · simp only []; rw [hinv1.scal.pagesFree, cp_ofInt_add_one]
  · simp only [setPage_size]; exact hinv1.scal.dataLen
  · simp only []
    refine ⟨hq0, by simp only [setPage_size]; exact hqfit, ?_, ?_⟩
    · rw [pageOf_setPage_ne _ _ _ _ (Ne.symm hpq) hfit' (by rw [setPage_size]; exact hqfit) hs2,
        pageOf_setPage_self _ _ _ hqfit hs1, h0, hinv1.scal.freePage, freeHead_eq]
    · refine freeChain_frame (by simp only [setPage_size]; exact Nat.le_refl _) _ (fun r hr hfr => ?_) hinv1.chain
      have hrp : r ≠ p := fun e => hpf (e ▸ hr)
      have hrq : r ≠ q := fun e => hqf (e ▸ hr)
      rw [pageOf_setPage_ne _ _ _ _ hrp hfit' (by rw [setPage_size]; exact hfr) hs2,
        pageOf_setPage_ne _ _ _ _ hrq hqfit hfr hs1]
  · simp only [List.nodup_cons]; exact ⟨hqf, hinv1.nodup⟩
  · intro r hr
    simp only [List.mem_cons] at hr
    rcases hr with e | e
    · rw [e]; exact hqlt
    · exact hinv1.below r e
  · simp only [setPage_size]; exact hinv1.small


theorem cp_entWords_set_null : ∀ (l : List (Key × Node)) (ki : Key) (c : Node) (r : List (Key × Node)),
    (entWords (l ++ (ki, c) :: r)).set l.length (ki, 0#64) = entWords (l ++ (ki, Node.null) :: r)
  | [], ki, c, r => by simp [entWords, childWord, Node.pid]
  | e :: l, ki, c, r => by
    obtain ⟨k, x⟩ := e
    simp only [List.cons_append, entWords, List.length_cons, List.set_cons_succ]
    rw [cp_entWords_set_null l ki c r]

theorem cp_loop_step {cfg : Cfg} (hc : CfgFlat cfg) (hok : CfgOk cfg) (ts : Val)
    (self : St → NodeRef → BitVec 64 → Option (St × BitVec 64)) (p N ep : Nat) (hN : N ≤ cfg.maxKeys)
    (l' : List (Key × Node)) (ki : Key) (c : Node) (rest : List (Key × Node)) (lo : Key) (t : St) (a : Alloc)
    (hep : ep = t.epoch)
    (hlen : (l' ++ (ki, c) :: rest).length = N)
    (hpg : PageOf cfg t.data p false (entWords (l' ++ (ki, c) :: rest)))
    (hre : ReprEnts cfg t.data ((ki, c) :: rest)) (hinv : AllocInv cfg t a)
    (hlents : LiveEnts a ((ki, c) :: rest))
    (hpn : p ∉ pidsEnts ((ki, c) :: rest)) (hpf : p ∉ a.free) (hplt : p < a.nextPage)
    (hcok : okNode cfg.maxKeys (cfg.maxKeys - 1) c lo ki)
    (IH : cp_Post cfg ts self c t a) :
    ∃ t1 x a', compact_loop1 (w cfg.pageSize) (w cfg.maxKeys) self (.win (p * pw cfg) (pw cfg) ep) ts (w N)
          (w l'.length) t = some (.next t1) ∧
      compactEnts ts ((ki, c) :: rest) l'.length N a =
        ((ki, x) :: (compactEnts ts rest (l'.length + 1) N a').1, (compactEnts ts rest (l'.length + 1) N a').2) ∧
      TreeFlat.Repr cfg t1.data x ∧
      PageOf cfg t1.data p false (entWords (l' ++ (ki, x) :: rest)) ∧
      ReprEnts cfg t1.data rest ∧ AllocInv cfg t1 a' ∧ LiveEnts a' rest ∧ p ∉ a'.free ∧ a'.nextPage = a.nextPage ∧
      t1.data.size = t.data.size ∧ t1.epoch = t.epoch ∧
      (∀ r, r ∉ pids c → r ≠ p → r ∉ a.free → r < a.nextPage → (r + 1) * pw cfg ≤ t.data.size →
        pageOf cfg t1.data r = pageOf cfg t.data r) ∧
      (∀ r ∈ pids x, r ∈ pids c ∧ r ∉ a'.free) ∧
      (∀ r, r ∉ pids c → r ∉ a.free → r < a.nextPage → r ∉ a'.free) := by
  have hmk := hc.mkLt
  have hge := hok.ge4
  have hs := hpg.ok.1
  rw [ReprEnts] at hre
  obtain ⟨hrc, hrer⟩ := hre
  have hcn : c ≠ .null := okNode_ne_null hcok
  have hloki := okNode_lo_lt_hi hcok
  have hki0 : BitVec.ult 0#64 ki = true := by rw [BitVec.ult_iff_lt]; bv_omega
  have hassert : compactKeyAssert ki = true := hki0
  obtain ⟨lfc, kvc, hcpg, _, _⟩ := repr_pageOf c hcn hrc
  have hposc : ∀ q ∈ pids c, PosPid q := fun q hq => by
    have h1 := repr_fits c hrc q hq
    have h2 := hinv.small
    have h3 := pw_pos cfg
    refine ⟨h1.1, ?_⟩
    have : q + 1 ≤ (q + 1) * pw cfg := Nat.le_mul_of_pos_right _ h3
    omega
  obtain ⟨n1, n2, _, n4, _, n6, _, _, n9, n10, _, _, _⟩ :=
    compactNode_spec hok.lt ts c (cfg.maxKeys - 1) lo ki a hcok (by omega) hposc hinv.scal.fault
  have hget : ((ki, c) :: rest)[0]? = some (ki, c) := rfl
  have hlc : Live a c := hlents.get hget
  obtain ⟨hY1, hY2, hf1n, hf1b, hout⟩ := live_of_cons n9 hlc.nodup hlc.live hinv.nodup hinv.below
  have hsib := sibling_out (l := []) hlents
  have hpc : p ∉ pids c := fun hm => hpn (by simp only [pidsEnts, List.mem_append]; exact Or.inl hm)
  have hpr : p ∉ pidsEnts rest := fun hm => hpn (by simp only [pidsEnts, List.mem_append]; exact Or.inr hm)
  have hlen' := okNode_len n2
  have hc1n := okNode_ne_null n2
  have hiN : l'.length < N := by rw [← hlen]; simp
  have hrem : (compactNode ts c a).2.2 < 2 ^ 63 := by
    have := (compactNode_spec hok.lt ts c (cfg.maxKeys - 1) lo ki a hcok (by omega) hposc hinv.scal.fault).2.2.2.2.2.2.1
    omega
  have hdrop := compactDropChild_eq (rem := (compactNode ts c a).2.2) (i := l'.length) (N := N) hrem (by omega) hiN
  unfold cp_Post at IH
  obtain ⟨t1, hself, hr1, hinv1, hsz1, hep1, hfr1⟩ := IH
  have hmodel := compactEnts.eq_2 ts l'.length N a ki c rest
  simp only [hassert, Bool.not_true, Bool.false_eq_true, if_false] at hmodel
  generalize hcn' : compactNode ts c a = res at *
  obtain ⟨c', a1, rem⟩ := res
  simp only at n1 n2 n4 n6 n9 n10 hY1 hY2 hf1n hf1b hout hlen' hc1n hrem hdrop hself hr1 hinv1 hmodel
  -- the parent page
  have hnk : nkeys cfg.maxKeys (pageOf cfg t.data p) = N := by
    rw [← ents_length, hpg.ents, entWords_length, hlen]
  have hgetl : (l' ++ (ki, c) :: rest)[l'.length]? = some (ki, c) := by simp
  have h2' := ents_get? (mk := cfg.maxKeys) (p := pageOf cfg t.data p) l'.length
  rw [hpg.ents, entWords_get?, hgetl, hnk, if_pos hiN] at h2'
  simp only [Option.map_some, Option.some.injEq, Prod.mk.injEq] at h2'
  have hkey : Gen.Node.key (pageOf cfg t.data p) (w l'.length) = some ki := by
    rw [key_w (by omega) (by omega), ← h2'.1]
  have hval : Gen.Node.uint64 (pageOf cfg t.data p) (w (2 * l'.length + 1)) = some (w c.pid) := by
    rw [uint64_w (by omega) (by omega)]
    exact congrArg some h2'.2.symm
  have hP1 : pageOf cfg t1.data p = pageOf cfg t.data p := hfr1 p hpc hpf hplt hpg.fit
  have hpg1 : PageOf cfg t1.data p false (entWords (l' ++ (ki, c) :: rest)) := pageOf_frame (by omega) hP1 hpg
  have hrer1 : ReprEnts cfg t1.data rest :=
    reprEnts_frame (by omega) rest (fun q hq hfq => by
      have := hsib q (Or.inr hq)
      exact hfr1 q this.1 this.2.1 this.2.2 hfq) hrer
  have hnodr : (pidsEnts rest).Nodup := by
    have := hlents.nodup
    simp only [pidsEnts] at this
    exact (List.nodup_append.mp this).2.1
  -- walk the generated text up to the branch
  simp only [compact_loop1]
  rw [rdNode_win t p ep hep hpg.fit, hkey]
  simp only [Option.bind_some, hki0, Gen.guard, if_true]
  rw [rdNode_win t p ep hep hpg.fit, valOffset_w, hval]
  simp only [Option.bind_some]
  rw [node_w hc t c.pid hcpg.pos hcpg.fit hinv.small]
  simp only [Option.bind_some]
  rw [hself]
  simp only [Option.bind_some]
  unfold compactDropChild at hdrop hmodel
  rw [hdrop]
  rw [hdrop] at hmodel
  by_cases hd : rem = 0 ∧ l'.length + 1 < N
  · simp only [hd, and_self, decide_true, if_true]
    simp only [hd, and_self, decide_true, if_true] at hmodel
    -- the child's page
    obtain ⟨lf1, kv1, hc1pg, hc1len, _⟩ := repr_pageOf c' hc1n hr1
    rw [n4] at hc1pg
    have hc1s := hc1pg.ok.1
    have hnk1 : nkeys cfg.maxKeys (pageOf cfg t1.data c.pid) = c'.len := by
      rw [← ents_length, hc1pg.ents, hc1len]
    have hnumk : c'.numKeys = c'.len := Node.numKeys_eq _ (by omega)
    rw [n4, hnumk] at hmodel
    have hcpid1 : c.pid ∈ pids c := pid_mem_pids hcn
    have hcpid2 : c.pid ∈ pids c' := n4 ▸ pid_mem_pids hc1n
    have hpcne : p ≠ c.pid := fun e => hpc (e ▸ hcpid1)
    have hfitp1 : (p + 1) * pw cfg ≤ t1.data.size := by rw [hsz1]; exact hpg.fit
    simp only [refOf]
    rw [rdNode_win t1 c.pid t.epoch hep1.symm hc1pg.fit, numKeys_w hc1s (by omega), hnk1]
    simp only [Option.bind_some]
    obtain ⟨pgc, hpgc⟩ : ∃ pgc, pgc = (pageOf cfg t1.data c.pid).set! 0 t1.freePage := ⟨_, rfl⟩
    have hpgcs : pgc.size = pw cfg := by rw [hpgc, RV.size_set!, pageOf_size _ _ hc1pg.fit]
    have hsetc : Gen.Node.setAt (pageOf cfg t1.data c.pid) 0#64 t1.freePage = some pgc := by
      rw [hpgc]; exact setAt_w (j := 0) t1.freePage (by omega) (by omega)
    rw [wrNode_win (cfg := cfg) { t1 with numLeafKeys := t1.numLeafKeys - w c'.len } c.pid t.epoch hep1.symm
      hc1pg.fit _ pgc hsetc hpgcs]
    simp only [Option.bind_some]
    obtain ⟨pg2, hpg2⟩ : ∃ pg2, pg2 = (pageOf cfg t.data p).set! (2 * l'.length + 1) 0#64 := ⟨_, rfl⟩
    obtain ⟨hok2, hl2, hk2, hp2, he2⟩ := nc_setval_page hpg.ok l'.length (by omega) 0#64
    rw [← hpg2] at hok2 hl2 hk2 hp2 he2
    have hpg2s : pg2.size = pw cfg := by rw [hpg2, RV.size_set!, pageOf_size _ _ hpg.fit]
    have hfitp2 : (p + 1) * pw cfg ≤ (setPage cfg t1.data c.pid pgc).size := by rw [setPage_size]; exact hfitp1
    have hPc : pageOf cfg (setPage cfg t1.data c.pid pgc) p = pageOf cfg t.data p := by
      rw [pageOf_setPage_ne _ _ _ _ hpcne hc1pg.fit hfitp1 hpgcs, hP1]
    have hset2 : Gen.Node.setAt (pageOf cfg (setPage cfg t1.data c.pid pgc) p) (w (2 * l'.length + 1)) 0#64 = some pg2 := by
      rw [hPc, hpg2]; exact setAt_w 0#64 (by omega) (by omega)
    rw [wrNode_win (cfg := cfg) ({ t1 with numLeafKeys := t1.numLeafKeys - w c'.len
                                           data := setPage cfg t1.data c.pid pgc
                                           freePage := w c.pid } : St) p ep (hep.trans hep1.symm) hfitp2 _ pg2 hset2 hpg2s]
    simp only [Option.bind_some]
    have hself2 : pageOf cfg (setPage cfg (setPage cfg t1.data c.pid pgc) p pg2) p = pg2 :=
      pageOf_setPage_self _ _ _ hfitp2 hpg2s
    have hother : ∀ r, r ≠ p → r ≠ c.pid → (r + 1) * pw cfg ≤ t1.data.size →
        pageOf cfg (setPage cfg (setPage cfg t1.data c.pid pgc) p pg2) r = pageOf cfg t1.data r := by
      intro r h1 h2 h3
      rw [pageOf_setPage_ne _ _ _ _ h1 hfitp2 (by rw [setPage_size]; exact h3) hpg2s,
        pageOf_setPage_ne _ _ _ _ h2 hc1pg.fit h3 hpgcs]
    refine ⟨_, Node.null,
      { a1 with leafKeys := a1.leafKeys - (c'.len : Nat), free := c.pid :: a1.free, pagesFree := a1.pagesFree + 1 },
      rfl, hmodel, by rw [TreeFlat.Repr]; trivial, ?_, ?_, ?_, ⟨hnodr, fun r hr => ?_⟩, ?_, n10, ?_, hep1, ?_, ?_, ?_⟩
    · refine ⟨hpg.pos, by simp only [setPage_size]; exact hfitp1, ?_, ?_, ?_, ?_, ?_⟩
      · simp only []; rw [hself2]; exact hok2
      · simp only []; rw [hself2, hl2]; exact hpg.isLeaf
      · simp only []; rw [hself2, hk2]; exact hpg.kind
      · simp only []; rw [hself2, hp2]; exact hpg.pid
      · simp only []; rw [hself2, he2, hpg.ents, h2'.1, cp_entWords_set_null]
    · refine reprEnts_frame (by simp only [setPage_size]; exact Nat.le_refl _) rest (fun q hq hfq => ?_) hrer1
      have := hsib q (Or.inr hq)
      exact hother q (fun e => hpr (e ▸ hq)) (fun e => this.1 (e ▸ hcpid1)) hfq
    · exact cp_allocInv_drop hinv1 p c.pid c'.len pgc pg2 hc1pg.pos hc1pg.fit (hY2 c.pid hcpid2).1 (hY2 c.pid hcpid2).2
        hpcne (hout p hpc hpf hplt).2 hfitp1 hpgcs (by rw [hpgc]; exact RV.get!_set!_self _ _ _ (by rw [pageOf_size _ _ hc1pg.fit]; exact pw_pos cfg)) hpg2s
    · have := hsib r (Or.inr hr)
      refine ⟨?_, by rw [n10]; exact this.2.2⟩
      simp only [List.mem_cons, not_or]
      exact ⟨fun e => this.1 (e ▸ hcpid1), (hout r this.1 this.2.1 this.2.2).2⟩
    · simp only [List.mem_cons, not_or]
      exact ⟨hpcne, (hout p hpc hpf hplt).2⟩
    · simp only [setPage_size]; exact hsz1
    · intro r h1 h2 h3 h4 h5
      simp only []
      rw [hother r h2 (fun e => h1 (e ▸ hcpid1)) (by rw [hsz1]; exact h5)]
      exact hfr1 r h1 h3 h4 h5
    · intro r hr; simp [pids] at hr
    · intro r h1 h2 h3
      simp only [List.mem_cons, not_or]
      exact ⟨fun e => h1 (e ▸ hcpid1), (hout r h1 h2 h3).2⟩
  · simp only [hd, decide_false, Bool.false_eq_true, if_false, Option.bind_some]
    simp only [hd, decide_false, Bool.false_eq_true, if_false] at hmodel
    refine ⟨t1, c', a1, rfl, hmodel, hr1, ?_, hrer1, hinv1, ⟨hnodr, fun r hr => ?_⟩, ?_, n10, hsz1, hep1, ?_, ?_, ?_⟩
    · rw [entWords_replace l' ki c c' rest n4]; exact hpg1
    · have := hsib r (Or.inr hr)
      exact ⟨(hout r this.1 this.2.1 this.2.2).2, by rw [n10]; exact this.2.2⟩
    · exact (hout p hpc hpf hplt).2
    · intro r h1 _ h3 h4 h5; exact hfr1 r h1 h3 h4 h5
    · intro r hr; exact ⟨n6 r hr, (hY2 r hr).1⟩
    · intro r h1 h2 h3; exact (hout r h1 h2 h3).2


theorem cp_w_succ (i : Nat) : w i + 1#64 = w (i + 1) := by
  simp [w, BitVec.ofNat_add]

theorem cp_loop {cfg : Cfg} (hc : CfgFlat cfg) (hok : CfgOk cfg) (ts : Val)
    (self : St → NodeRef → BitVec 64 → Option (St × BitVec 64)) (fuel : Nat)
    (IH : ∀ (c : Node) (b : Nat) (lo hi : Key) (t : St) (a : Alloc), height c ≤ fuel →
      okNode cfg.maxKeys b c lo hi → b ≤ cfg.maxKeys → TreeFlat.Repr cfg t.data c → AllocInv cfg t a → Live a c →
      cp_Post cfg ts self c t a)
    (p N ep : Nat) (hN : N ≤ cfg.maxKeys) :
    ∀ (rest l' : List (Key × Node)) (lo : Key) (t : St) (a : Alloc),
      (l' ++ rest).length = N → ep = t.epoch →
      PageOf cfg t.data p false (entWords (l' ++ rest)) →
      ReprEnts cfg t.data rest → AllocInv cfg t a → LiveEnts a rest →
      p ∉ pidsEnts rest → p ∉ a.free → p < a.nextPage →
      okEnts cfg.maxKeys rest lo → heightEnts rest ≤ fuel →
      ∃ t', Gen.forGo (w N) (compact_loop1 (w cfg.pageSize) (w cfg.maxKeys) self
              (.win (p * pw cfg) (pw cfg) ep) ts (w N)) rest.length (w l'.length) t = some (.done t' (w N)) ∧
        PageOf cfg t'.data p false (entWords (l' ++ (compactEnts ts rest l'.length N a).1)) ∧
        ReprEnts cfg t'.data (compactEnts ts rest l'.length N a).1 ∧
        AllocInv cfg t' (compactEnts ts rest l'.length N a).2 ∧
        t'.data.size = t.data.size ∧ t'.epoch = t.epoch ∧
        (∀ r, r ∉ pidsEnts rest → r ≠ p → r ∉ a.free → r < a.nextPage → (r + 1) * pw cfg ≤ t.data.size →
          pageOf cfg t'.data r = pageOf cfg t.data r)
  | [], l', lo, t, a, hlen, hep, hpg, _, hinv, _, _, _, _, _, _ => by
    have hl : l'.length = N := by simpa using hlen
    have hmk := hc.mkLt
    refine ⟨t, ?_, ?_, ?_, ?_, rfl, rfl, fun _ _ _ _ _ _ => rfl⟩
    · simp only [List.length_nil, Gen.forGo, hl]
      rw [w_slt (by omega) (by omega)]
      simp
    · rw [compactEnts]; exact hpg
    · rw [compactEnts, ReprEnts]; trivial
    · rw [compactEnts]; exact hinv
  | (ki, c) :: rest, l', lo, t, a, hlen, hep, hpg, hre, hinv, hlents, hpn, hpf, hplt, hoke, hh => by
    have hmk := hc.mkLt
    have hiN : l'.length < N := by rw [← hlen]; simp
    have hget : ((ki, c) :: rest)[0]? = some (ki, c) := rfl
    have hhc : height c ≤ fuel := by rw [heightEnts] at hh; omega
    have hhr : heightEnts rest ≤ fuel := by rw [heightEnts] at hh; omega
    have hlc : Live a c := hlents.get hget
    rw [okEnts] at hoke
    have hrc : TreeFlat.Repr cfg t.data c := by rw [ReprEnts] at hre; exact hre.1
    obtain ⟨t1, x, a', hstep, hmodel, hrx, hpg1, hrer1, hinv1, hlr1, hpf1, hnp1, hsz1, hep1, hfr1, hxs, hmono⟩ :=
      cp_loop_step hc hok ts self p N ep hN l' ki c rest lo t a hep hlen hpg hre hinv hlents hpn hpf hplt hoke.1
        (IH c _ lo ki t a hhc hoke.1 (by omega) hrc hinv hlc)
    have hpr : p ∉ pidsEnts rest := fun hm => hpn (by simp only [pidsEnts, List.mem_append]; exact Or.inr hm)
    have hpc : p ∉ pids c := fun hm => hpn (by simp only [pidsEnts, List.mem_append]; exact Or.inl hm)
    have hlen2 : ((l' ++ [(ki, x)]) ++ rest).length = N := by rw [← hlen]; simp
    have hpg1' : PageOf cfg t1.data p false (entWords ((l' ++ [(ki, x)]) ++ rest)) := by
      rw [List.append_assoc]; exact hpg1
    obtain ⟨t2, hgo, hpg2, hre2, hinv2, hsz2, hep2, hfr2⟩ :=
      cp_loop hc hok ts self fuel IH p N ep hN rest (l' ++ [(ki, x)]) ki t1 a' hlen2 (hep.trans hep1.symm) hpg1'
        hrer1 hinv1 hlr1 hpr hpf1 (by rw [hnp1]; exact hplt) hoke.2 hhr
    have hll : (l' ++ [(ki, x)]).length = l'.length + 1 := by simp
    rw [hll] at hgo hpg2 hre2 hinv2
    have hsib := sibling_out (l := []) hlents
    refine ⟨t2, ?_, ?_, ?_, ?_, by omega, by omega, ?_⟩
    · simp only [List.length_cons, Gen.forGo]
      rw [w_slt (by omega) (by omega)]
      simp only [hiN, decide_true, if_true]
      rw [hstep]
      simp only []
      rw [cp_w_succ]
      exact hgo
    · rw [hmodel]; simp only []
      rw [List.append_assoc] at hpg2; exact hpg2
    · rw [hmodel]; simp only []
      rw [ReprEnts]
      refine ⟨repr_frame (by omega) x (fun q hq hfq => ?_) hrx, hre2⟩
      have hq1 := hxs q hq
      have hq2 := hlc.live q hq1.1
      have hqr : q ∉ pidsEnts rest := fun hm => (hsib q (Or.inr hm)).1 hq1.1
      exact hfr2 q hqr (fun e => hpc (e ▸ hq1.1)) hq1.2 (by rw [hnp1]; exact hq2.2) hfq
    · rw [hmodel]; exact hinv2
    · intro r hr hrp hrf hrl hrfit
      have hrc' : r ∉ pids c := fun hm => hr (by simp only [pidsEnts, List.mem_append]; exact Or.inl hm)
      have hrr : r ∉ pidsEnts rest := fun hm => hr (by simp only [pidsEnts, List.mem_append]; exact Or.inr hm)
      rw [hfr2 r hrr hrp (hmono r hrc' hrf hrl) (by rw [hnp1]; exact hrl) (by rw [hsz1]; exact hrfit)]
      exact hfr1 r hrc' hrp hrf hrl hrfit

end RV.TreeFlat
