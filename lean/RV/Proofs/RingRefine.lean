import RV.Proofs.RingInv
import RV.Proofs.CacheBasic
/-!
The Cache model abstracts the ring buffers to the counter `ringPending` and a choice
(`RV.Cache.stGetStart`: `.none` = the push did not flush, `.flush kept n` = it flushed `n` keys,
kept or dropped).  This file shows that the abstraction is sound for the exact model of
`RV/Model/Ring.lean`: under the relation `Abs`, every push of the exact model is matched by
`stGetStart` with a suitable choice, and every other action (except `Metrics.Clear`, which is the
Cache model's own metrics reset) is a stutter step.

`ringPending` over-approximates the keys in stripes: keys lost with a stripe (sync.Pool GC) or
refused by a closed policy stay counted (the abstract model never gives them back, which is what
makes `c17_gets_kept` an inequality).
-/
namespace RV.Ring
open Gen.Ring

def Act.isPush : Act → Bool
  | .push _ _ => true
  | .pushNew _ => true
  | _ => false

def Act.isMetClear : Act → Bool
  | .metClear => true
  | _ => false

/-- the abstraction relation between the exact model and the Cache model -/
structure Abs (cfg : RV.Cache.Cfg) (s : Sys) (c : RV.Cache.State) : Prop where
  pending : c.ringPending = (poolKeys s).length + s.lostPool.length + s.lostClosed.length
  keep : c.met.keepGets = s.pol.keepGets
  drop : c.met.dropGets = s.pol.dropGets
  mon : cfg.metricsOn = s.pol.metricsOn

theorem length_flatten_eraseIdx {α : Type} (f : α → List Key) :
    ∀ (l : List α) (i : Nat) (x : α), l[i]? = some x →
      ((l.eraseIdx i).map f).flatten.length + (f x).length = (l.map f).flatten.length
  | [], i, x, h => by simp at h
  | a :: l, 0, x, h => by
    simp at h; subst h
    simp [List.length_append]; omega
  | a :: l, i+1, x, h => by
    have := length_flatten_eraseIdx f l i x (by simpa using h)
    simp [List.length_append] at this ⊢; omega

theorem abs_withNew {cfg : RV.Cache.Cfg} {s : Sys} {c : RV.Cache.State} (h : Abs cfg s c) : Abs cfg (withNew s) c := by
  refine ⟨?_, h.keep, h.drop, h.mon⟩
  have := h.pending
  simpa [withNew, poolKeys, Stripe.new] using this

theorem stGetStart_none (cfg : RV.Cache.Cfg) (c : RV.Cache.State) (t : RV.Cache.Tid) (h : RV.Cache.Hash)
    (cc : RV.Cache.Conf) (hopen : c.closed = false) :
    RV.Cache.stGetStart cfg c t h cc .none
      = some (RV.Cache.setCl { c with ringPending := c.ringPending + 1 } t (.getRead h cc)) := by
  simp only [RV.Cache.stGetStart, hopen, Bool.false_eq_true, if_false]

theorem stGetStart_flush (cfg : RV.Cache.Cfg) (c : RV.Cache.State) (t : RV.Cache.Tid) (h : RV.Cache.Hash)
    (cc : RV.Cache.Conf) (hopen : c.closed = false) (kept : Bool) (n : Nat)
    (hn : ¬ (n = 0 ∨ n > c.ringPending + 1)) :
    RV.Cache.stGetStart cfg c t h cc (.flush kept n)
      = some (RV.Cache.setCl (RV.Cache.metAdd cfg { c with ringPending := c.ringPending + 1 - n } fun m =>
          if kept then { m with keepGets := m.keepGets + BitVec.ofNat 64 n }
          else { m with dropGets := m.dropGets + BitVec.ofNat 64 n }) t (.getRead h cc)) := by
  simp only [RV.Cache.stGetStart, hopen, Bool.false_eq_true, if_false, hn]

theorem abs_pushAt {cfg : RV.Cache.Cfg} {s s' : Sys} {c : RV.Cache.State} (hsh : Shape s) (hR : Abs cfg s c)
    (hopen : c.closed = false) (tid : RV.Cache.Tid) (hh : RV.Cache.Hash) (cc : RV.Cache.Conf)
    {i : Nat} {k : Key} (hp : pushAt s i k = some s') :
    ∃ ch c', RV.Cache.stGetStart cfg c tid hh cc ch = some c' ∧ Abs cfg s' c' := by
  obtain ⟨st, hst, ⟨hf, rfl⟩ | ⟨hf, rfl⟩⟩ := pushAt_cases hp
  · -- the stripe grows: `.none`
    refine ⟨.none, _, stGetStart_none cfg c tid hh cc hopen, ?_⟩
    have hset := length_flatten_set Stripe.data s.pool i st
      { st with data := st.data ++ [k], hist := st.hist ++ [k] } hst
    have hp := hR.pending
    refine ⟨?_, hR.keep, hR.drop, hR.mon⟩
    simp only [RV.Cache.setCl_ringPending, poolKeys, afterQuiet, List.length_append, List.length_singleton] at hp hset ⊢
    omega
  · have ok := hsh.pool st (mem_of_getElem? hst)
    rw [stripe_push_decision ok k] at hf
    have hlen : st.data.length + 1 = capaN (stripeCapa s.capa) := by simpa using hf
    have hblen : (st.data ++ [k]).length = capaN (stripeCapa s.capa) := by simpa using hlen
    have hlt := capaN_lt (stripeCapa s.capa)
    have hne : pushEmpty (st.data ++ [k]).toArray = false :=
      pushEmpty_false _ (by rw [hblen]; exact capaN_pos _) (by rw [hblen]; omega)
    have hset := length_flatten_set Stripe.data s.pool i st
      { st with data := resetData (st.data ++ [k]) st.capa (s.pol.push (st.data ++ [k])).2.ret,
                hist := st.hist ++ [k], out := st.out ++ [st.data ++ [k]] } hst
    simp only [resetData_nil, List.length_nil] at hset
    have hp := hR.pending
    rcases Pol.push_cases s.pol (st.data ++ [k]) with ⟨_, e⟩ | ⟨_, he, _⟩ | ⟨_, _, hl, e⟩ | ⟨_, _, _, e⟩
    · -- refused by a closed policy: the keys stay counted, `.none`
      refine ⟨.none, _, stGetStart_none cfg c tid hh cc hopen, ?_⟩
      refine ⟨?_, by simpa [afterDrain, e] using hR.keep, by simpa [afterDrain, e] using hR.drop,
        by simpa [afterDrain, e] using hR.mon⟩
      simp only [RV.Cache.setCl_ringPending, poolKeys, afterDrain, e, resetData_nil, List.length_append,
        List.length_singleton, if_true, reduceCtorEq, if_false] at hp hset ⊢
      omega
    · rw [hne] at he; cases he
    · -- kept
      have hn : ¬ ((st.data ++ [k]).length = 0 ∨ (st.data ++ [k]).length > c.ringPending + 1) := by
        simp only [poolKeys, List.length_append, List.length_singleton] at hp hset ⊢
        omega
      refine ⟨.flush true (st.data ++ [k]).length, _, stGetStart_flush cfg c tid hh cc hopen true _ hn, ?_⟩
      refine ⟨?_, ?_, ?_, ?_⟩
      · simp only [RV.Cache.setCl_ringPending, RV.Cache.metAdd_ringPending, poolKeys, afterDrain, e,
          resetData_nil, List.length_append, List.length_singleton, reduceCtorEq, if_false] at hp hset ⊢
        omega
      · simp only [RV.Cache.setCl_met, RV.Cache.metAdd_met, afterDrain, e, if_true]
        unfold Pol.addKeep
        rw [hR.mon]
        cases s.pol.metricsOn
        · simpa using hR.keep
        · simp only [if_true, keepDelta_eq]; rw [hR.keep]
      · simp only [RV.Cache.setCl_met, RV.Cache.metAdd_met, afterDrain, e, if_true, addKeep_dropGets]
        split
        · exact hR.drop
        · exact hR.drop
      · simpa [afterDrain, e] using hR.mon
    · -- dropped
      have hn : ¬ ((st.data ++ [k]).length = 0 ∨ (st.data ++ [k]).length > c.ringPending + 1) := by
        simp only [poolKeys, List.length_append, List.length_singleton] at hp hset ⊢
        omega
      refine ⟨.flush false (st.data ++ [k]).length, _, stGetStart_flush cfg c tid hh cc hopen false _ hn, ?_⟩
      refine ⟨?_, ?_, ?_, ?_⟩
      · simp only [RV.Cache.setCl_ringPending, RV.Cache.metAdd_ringPending, poolKeys, afterDrain, e,
          resetData_nil, List.length_append, List.length_singleton, reduceCtorEq, if_false] at hp hset ⊢
        omega
      · simp only [RV.Cache.setCl_met, RV.Cache.metAdd_met, afterDrain, e, Bool.false_eq_true, if_false,
          addDrop_keepGets]
        split
        · exact hR.keep
        · exact hR.keep
      · simp only [RV.Cache.setCl_met, RV.Cache.metAdd_met, afterDrain, e, Bool.false_eq_true, if_false]
        unfold Pol.addDrop
        rw [hR.mon]
        cases s.pol.metricsOn
        · simpa using hR.drop
        · simp only [if_true, dropDelta_eq]; rw [hR.drop]
      · simpa [afterDrain, e] using hR.mon

theorem abs_push {cfg : RV.Cache.Cfg} {s s' : Sys} {c : RV.Cache.State} (hsh : Shape s) (hR : Abs cfg s c)
    (hopen : c.closed = false) (tid : RV.Cache.Tid) (hh : RV.Cache.Hash) (cc : RV.Cache.Conf)
    {a : Act} (ha : a.isPush = true) (hs : step s a = some s') :
    ∃ ch c', RV.Cache.stGetStart cfg c tid hh cc ch = some c' ∧ Abs cfg s' c' := by
  cases a with
  | push i k => exact abs_pushAt hsh hR hopen tid hh cc hs
  | pushNew k =>
    rw [step_pushNew] at hs
    exact abs_pushAt (shape_withNew hsh) (abs_withNew hR) hopen tid hh cc hs
  | _ => cases ha

theorem abs_stutter {cfg : RV.Cache.Cfg} {s s' : Sys} {c : RV.Cache.State} (hR : Abs cfg s c)
    {a : Act} (ha : a.isPush = false) (hm : a.isMetClear = false) (hs : step s a = some s') : Abs cfg s' c := by
  cases a with
  | push i k => cases ha
  | pushNew k => cases ha
  | metClear => cases hm
  | lose i =>
    simp only [step] at hs
    cases hp : s.pool[i]? with
    | none => simp [hp] at hs
    | some st =>
      simp only [hp, Option.some.injEq] at hs; subst hs
      have he := length_flatten_eraseIdx Stripe.data s.pool i st hp
      have h0 := hR.pending
      refine ⟨?_, hR.keep, hR.drop, hR.mon⟩
      simp only [poolKeys, List.length_append] at h0 he ⊢
      omega
  | recv =>
    simp only [step] at hs
    split at hs
    · cases hch : s.pol.chan with
      | nil => simp [hch] at hs
      | cons b rest =>
        simp only [hch, Option.some.injEq] at hs; subst hs
        exact ⟨hR.pending, hR.keep, hR.drop, hR.mon⟩
    · cases hs
  | apply =>
    simp only [step] at hs
    cases hh : s.pol.held with
    | none => simp [hh] at hs
    | some b =>
      simp only [hh, Option.some.injEq] at hs; subst hs
      exact ⟨hR.pending, hR.keep, hR.drop, hR.mon⟩
  | stop =>
    simp only [step] at hs
    split at hs
    · simp only [Option.some.injEq] at hs; subst hs; exact ⟨hR.pending, hR.keep, hR.drop, hR.mon⟩
    · cases hs
  | close =>
    simp only [step] at hs
    split at hs
    · simp only [Option.some.injEq] at hs; subst hs; exact ⟨hR.pending, hR.keep, hR.drop, hR.mon⟩
    · cases hs
  | polClear =>
    simp only [step, Option.some.injEq] at hs; subst hs
    exact ⟨hR.pending, hR.keep, hR.drop, hR.mon⟩

end RV.Ring
