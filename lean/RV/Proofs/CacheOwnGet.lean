import RV.Proofs.CacheOwn
/-!
# No resurrection (C02): a `Get` that starts after `exit v` never returns `v`; an overwritten value
is never in the store again
-/
namespace RV.Cache

/-- `getCall`/`getRet` events -/
def Ev.isGet : Ev → Bool
  | .getCall .. => true
  | .getRet .. => true
  | _ => false

def isGetCall (t : Tid) : Ev → Bool
  | .getCall t' _ _ _ => t' == t
  | _ => false

/-- the log older than thread `t`'s latest `getCall` -/
def beforeCall (t : Tid) : List Ev → List Ev
  | [] => []
  | e :: rest => if isGetCall t e then rest else beforeCall t rest

/-- the value a `Get` client has read from the store -/
def CPc.got : CPc → Val
  | .getCheck _ _ (some e) => e.value
  | .getMetric _ _ (some v) => v
  | _ => 0

/-- a value the client has removed from the store and not yet passed to `OnExit` -/
def CPc.limbo : CPc → Val
  | .setExit _ prev => prev
  | .delExit _ _ prev => prev
  | _ => 0

theorem beforeCall_subset (t : Tid) (log : List Ev) : beforeCall t log ⊆ log := by
  induction log with
  | nil => exact fun _ h => h
  | cons e rest ih =>
    unfold beforeCall
    split
    · exact List.subset_cons_self _ _
    · exact fun x hx => List.mem_cons_of_mem _ (ih hx)

theorem beforeCall_append {t : Tid} {l : List Ev} (h : ∀ e ∈ l, isGetCall t e = false) (log : List Ev) :
    beforeCall t (l ++ log) = beforeCall t log := by
  induction l with
  | nil => rfl
  | cons e l ih =>
    simp only [List.cons_append, beforeCall, h e (by simp), Bool.false_eq_true, ↓reduceIte]
    exact ih (fun e' he' => h e' (by simp [he']))

theorem beforeCall_at {t : Tid} {l2 l1 : List Ev} {h : Hash} {c : Conf} {now : Time}
    (hno : ∀ e ∈ l2, isGetCall t e = false) : beforeCall t (l2 ++ .getCall t h c now :: l1) = l1 := by
  rw [beforeCall_append hno]; simp [beforeCall, isGetCall]

theorem unblockedPc_got (pc : CPc) : (unblockedPc pc).got = pc.got := by cases pc <;> rfl
theorem unblockedPc_limbo (pc : CPc) : (unblockedPc pc).limbo = pc.limbo := by cases pc <;> rfl

theorem evLog_noget (st : Store) (ks : List Hash) : ∀ e ∈ evLog st ks, e.isGet = false := by
  induction ks with
  | nil => intro e he; cases he
  | cons k rest ih =>
    intro e he
    unfold evLog at he
    rcases List.mem_append.mp he with he | he
    · exact ih e he
    · split at he
      · cases he
      · simp only [List.mem_cons, List.not_mem_nil, or_false] at he
        rcases he with rfl | rfl <;> rfl

theorem amove_noget {pc pc' : APc} {l : List Ev} (hm : AMove pc pc' l) : ∀ e ∈ l, e.isGet = false := by
  cases hm <;> simp [Ev.isGet]

/-- the shape of an abstract step, as far as client pcs and `Get` events are concerned -/
theorem astep_shape {w w' : View} (h : AStep w w') :
    (∃ t pc pc' l, w.cl t = pc ∧ CMove w t pc pc' l ∧ w'.cl = updCl w.cl t pc' ∧ w'.log = l ++ w.log) ∨
    (∃ l, w'.log = l ++ w.log ∧ (∀ e ∈ l, e.isGet = false) ∧
      ∀ t0, w'.cl t0 = w.cl t0 ∨ w'.cl t0 = unblockedPc (w.cl t0) ∨ ((w.cl t0).limbo = 0 ∧ (w'.cl t0).got = 0)) := by
  have upd : ∀ (t : Tid) (pc' : CPc), (w.cl t).limbo = 0 → pc'.got = 0 → ∀ t0,
      updCl w.cl t pc' t0 = w.cl t0 ∨ updCl w.cl t pc' t0 = unblockedPc (w.cl t0) ∨
        ((w.cl t0).limbo = 0 ∧ (updCl w.cl t pc' t0).got = 0) := by
    intro t pc' h1 h2 t0
    by_cases ht : t0 = t
    · subst ht; exact Or.inr (Or.inr ⟨h1, by simp [h2]⟩)
    · exact Or.inl (updCl_ne _ _ ht)
  have recv : ∀ {x w1}, Recv w x w1 → w1.log = w.log ∧ ∀ t0, w1.cl t0 = w.cl t0 ∨ w1.cl t0 = unblockedPc (w.cl t0) ∨
      ((w.cl t0).limbo = 0 ∧ (w1.cl t0).got = 0) := by
    intro x w1 hr
    cases hr with
    | plain rest hb hq => exact ⟨rfl, fun t0 => Or.inl rfl⟩
    | unblock rest t1 e q hb hq =>
      refine ⟨rfl, fun t0 => ?_⟩
      by_cases ht : t0 = t1
      · subst ht; exact Or.inr (Or.inl (by simp))
      · exact Or.inl (updCl_ne _ _ ht)
  cases h with
  | client t pc pc' l hpc hm => exact Or.inl ⟨t, pc, pc', l, hpc, hm, rfl, rfl⟩
  | applier pc' l hm =>
    exact Or.inr ⟨l, rfl, amove_noget hm, fun t0 => Or.inl rfl⟩
  | setUpdOk t i e hpc he hc => exact Or.inr ⟨[], rfl, by simp, upd t _ (by rw [hpc]; rfl) rfl⟩
  | delOk t h c e hpc he hc => exact Or.inr ⟨[], rfl, by simp, upd t _ (by rw [hpc]; rfl) rfl⟩
  | sendOk t i hpc => exact Or.inr ⟨[], rfl, by simp, upd t _ (by rw [hpc]; rfl) rfl⟩
  | sendNow t pc e sent blocked hpc hsnd =>
    exact Or.inr ⟨[], rfl, by simp, upd t _ (by rw [hpc]; cases hsnd <;> rfl) (by cases hsnd <;> rfl)⟩
  | sendBlock t pc e sent blocked hpc hsnd =>
    exact Or.inr ⟨[], rfl, by simp, upd t _ (by rw [hpc]; cases hsnd <;> rfl) (by cases hsnd <;> rfl)⟩
  | drainMarker t closing id w1 hpc hr => exact Or.inr ⟨[], (recv hr).1, by simp, (recv hr).2⟩
  | drainItem t closing i w1 hpc hr =>
    refine Or.inr ⟨drainLog i, by rw [← (recv hr).1], ?_, (recv hr).2⟩
    unfold drainLog; split <;> simp [Ev.isGet]
  | selItem x w1 happ hr => exact Or.inr ⟨[], (recv hr).1, by simp, (recv hr).2⟩
  | clrShard t closing k ks pc' hpc hord hpc' =>
    exact Or.inr ⟨_, rfl, evLog_noget _ _, upd t _ (by rw [hpc]; rfl) (by rcases hpc' with rfl | rfl <;> rfl)⟩
  | clrRestart t closing pc' l hpc hpc' =>
    refine Or.inr ⟨l, rfl, ?_, upd t _ (by rw [hpc]; rfl) (by rcases hpc' with ⟨rfl, _⟩ | ⟨rfl, _⟩ <;> rfl)⟩
    rcases hpc' with ⟨_, rfl⟩ | ⟨_, rfl⟩ <;> simp [Ev.isGet]
  | clsFinish t hpc => exact Or.inr ⟨[.closeRet t], rfl, by simp [Ev.isGet], upd t _ (by rw [hpc]; rfl) rfl⟩
  | selStop t pc' happ hpc' =>
    refine Or.inr ⟨[], rfl, by simp, upd t _ ?_ ?_⟩
    · rcases hpc' with ⟨closing, h1, _⟩ | ⟨h1, _⟩ <;> rw [h1] <;> rfl
    · rcases hpc' with ⟨closing, _, rfl⟩ | ⟨_, rfl⟩ <;> rfl
  | done t pc' happ hpc' =>
    refine Or.inr ⟨[], rfl, by simp, upd t _ ?_ ?_⟩
    · rcases hpc' with ⟨closing, h1, _⟩ | ⟨h1, _⟩ <;> rw [h1] <;> rfl
    · rcases hpc' with ⟨closing, _, rfl⟩ | ⟨_, rfl⟩ <;> rfl
  | addedOk i vs st' happ hst => exact Or.inr ⟨[], rfl, by simp, fun t0 => Or.inl rfl⟩
  | victims h cost rest st' c v happ hd => exact Or.inr ⟨[], rfl, by simp, fun t0 => Or.inl rfl⟩
  | tombPolicy i st' c v happ hd => exact Or.inr ⟨[], rfl, by simp, fun t0 => Or.inl rfl⟩
  | swKeyDel now k c bs e happ he hc => exact Or.inr ⟨[], rfl, by simp, fun t0 => Or.inl rfl⟩
  | tick => exact Or.inr ⟨[], rfl, by simp, fun t0 => Or.inl rfl⟩


/-! ### the `Get` window -/

structure GetWin (w : View) : Prop where
  cl : ∀ t, (w.cl t).got ≠ 0 → Ev.exit (w.cl t).got ∉ beforeCall t w.log
  log : ∀ newer rest t h c v, w.log = newer ++ Ev.getRet t h c (some v) :: rest → v ≠ 0 →
    Ev.exit v ∉ beforeCall t rest

theorem getwin_upd {w w' : View} (g : GetWin w) (l : List Ev) (hlog : w'.log = l ++ w.log)
    (hcall : ∀ e ∈ l, ∀ t, isGetCall t e = true → (w'.cl t).got = 0)
    (hcl : ∀ t, (w'.cl t).got ≠ 0 → (w'.cl t).got = (w.cl t).got ∨ Ev.exit (w'.cl t).got ∉ w.log)
    (hret : ∀ t h c v, Ev.getRet t h c (some v) ∈ l → v ≠ 0 → l = [Ev.getRet t h c (some v)] ∧ (w.cl t).got = v) :
    GetWin w' := by
  constructor
  · intro t hg
    have hno : ∀ e ∈ l, isGetCall t e = false := by
      intro e he
      cases hc : isGetCall t e
      · rfl
      · exact absurd (hcall e he t hc) hg
    rw [hlog, beforeCall_append hno]
    rcases hcl t hg with h1 | h1
    · rw [h1]; exact g.cl t (h1 ▸ hg)
    · exact fun hm => h1 (beforeCall_subset _ _ hm)
  · intro newer rest t h c v hsplit hv
    rw [hlog] at hsplit
    rcases List.append_eq_append_iff.mp hsplit with ⟨a', _, h'⟩ | ⟨c', h', h''⟩
    · exact g.log a' rest t h c v h' hv
    · cases c' with
      | nil =>
        simp only [List.nil_append] at h''
        exact g.log [] rest t h c v h''.symm hv
      | cons x c'' =>
        simp only [List.cons_append, List.cons.injEq] at h''
        obtain ⟨rfl, h3⟩ := h''
        have hmem : Ev.getRet t h c (some v) ∈ l := by rw [h']; simp
        obtain ⟨hl, hgot⟩ := hret t h c v hmem hv
        rw [hl] at h'
        have hc'' : c'' = [] := by
          have := congrArg List.length h'
          simp at this
          cases c'' with
          | nil => rfl
          | cons y ys => simp at this; omega
        subst hc''
        simp only [List.nil_append] at h3
        subst h3
        have := g.cl t (by rw [hgot]; exact hv)
        rw [hgot] at this
        exact this

theorem own_no_exit {w : View} {v : Val} (hv : v ≠ 0) (ho : Own v w) {h : Hash} {e : Entry}
    (hl : w.store.lookup h = some e) (he : e.value = v) : Ev.exit v ∉ w.log := by
  intro hm
  have h1 := storeCnt_pos_of_lookup hl he
  have h2 := exitCnt_pos hm
  have h3 := deadCnt_split hv w.log
  have := ho.1
  unfold View.cnt at this
  omega

theorem cmove_get {w : View} {t : Tid} {pc pc' : CPc} {l : List Ev} (hm : CMove w t pc pc' l) :
    (∀ e ∈ l, ∀ t', isGetCall t' e = true → t' = t ∧ pc'.got = 0) ∧
    (pc'.got ≠ 0 → pc'.got = pc.got ∨ ∃ h e, w.store.lookup h = some e ∧ pc'.got = e.value) ∧
    (∀ t' h c v, Ev.getRet t' h c (some v) ∈ l → l = [Ev.getRet t' h c (some v)] ∧ t' = t ∧ pc.got = v) := by
  cases hm
  case getRead h c =>
    refine ⟨by simp, fun hg => Or.inr ?_, by simp⟩
    cases hl : w.store.lookup h with
    | none => simp [hl, CPc.got] at hg
    | some e => exact ⟨h, e, hl, by simp [CPc.got]⟩
  case getCheck h c e now =>
    refine ⟨by simp, fun hg => Or.inl ?_, by simp⟩
    cases hr : getResult c e now with
    | none => simp [hr, CPc.got] at hg
    | some v =>
      obtain ⟨e', rfl, rfl, _⟩ := getResult_some hr
      simp [CPc.got]
  case getMetric h c r =>
    refine ⟨by simp [isGetCall], fun hg => absurd rfl hg, ?_⟩
    intro t' h' c' v hm
    simp only [List.mem_cons, List.not_mem_nil, or_false, Ev.getRet.injEq] at hm
    obtain ⟨rfl, rfl, rfl, rfl⟩ := hm
    exact ⟨rfl, rfl, rfl⟩
  case spGet h c now =>
    refine ⟨?_, fun hg => absurd rfl hg, by simp⟩
    intro e he t' hc
    simp only [List.mem_cons, List.not_mem_nil, or_false] at he
    subst he
    simp only [isGetCall, beq_iff_eq] at hc
    exact ⟨hc.symm, rfl⟩
  all_goals exact ⟨by simp [isGetCall], fun hg => absurd rfl hg, by simp⟩

theorem isGetCall_of_not_isGet {e : Ev} (h : e.isGet = false) (t : Tid) : isGetCall t e = false := by
  cases e <;> simp [Ev.isGet] at h <;> rfl

theorem getwin_step {w w' : View} (h : AStep w w') (ho : ∀ v, v ≠ 0 → Own v w) (g : GetWin w) : GetWin w' := by
  rcases astep_shape h with ⟨t, pc, pc', l, hpc, hm, hcl, hlog⟩ | ⟨l, hlog, hno, hcl⟩
  · obtain ⟨h1, h2, h3⟩ := cmove_get hm
    refine getwin_upd g l hlog ?_ ?_ ?_
    · intro e he t' hc
      obtain ⟨rfl, hg⟩ := h1 e he t' hc
      rw [hcl]; simpa using hg
    · intro t' hg
      rw [hcl] at hg ⊢
      by_cases ht : t' = t
      · subst ht
        simp only [updCl_self] at hg ⊢
        rcases h2 hg with h4 | ⟨hh, e, hl, h4⟩
        · exact Or.inl (by rw [h4, hpc])
        · right; rw [h4]
          exact own_no_exit (h4 ▸ hg) (ho _ (h4 ▸ hg)) hl rfl
      · exact Or.inl (by rw [updCl_ne _ _ ht])
    · intro t' h' c' v hmem hv
      obtain ⟨h4, rfl, h5⟩ := h3 t' h' c' v hmem
      exact ⟨h4, by rw [hpc]; exact h5⟩
  · refine getwin_upd g l hlog ?_ ?_ ?_
    · intro e he t hc
      rw [isGetCall_of_not_isGet (hno e he) t] at hc; cases hc
    · intro t hg
      rcases hcl t with h1 | h1 | ⟨_, h1⟩
      · exact Or.inl (by rw [h1])
      · exact Or.inl (by rw [h1, unblockedPc_got])
      · exact absurd h1 hg
    · intro t h' c v hmem
      have := hno _ hmem
      simp [Ev.isGet] at this

theorem getwin_init (cfg : Cfg) (now : Time) : GetWin (init cfg now).view := by
  constructor
  · intro t hg; exact absurd rfl hg
  · intro newer rest t h c v hl; simp [State.view, init] at hl

theorem getwin_reach {cfg : Cfg} {s : State} (h : Reach cfg s) (hf : Fresh s.log) : GetWin s.view := by
  refine Reach.induction (P := fun s => Fresh s.log → GetWin s.view) (fun now _ => getwin_init cfg now)
    (fun s a s' hr hp hs hf' => ?_) h hf
  have ha := astep_of_step hs
  obtain ⟨l, hl, _⟩ := astep_log ha
  have hl' : s'.log = l ++ s.log := hl
  have hf0 : Fresh s.log := Fresh.of_append (hl' ▸ hf')
  exact getwin_step ha (fun v hv => own_reach hr hv hf0) (hp hf0)

/-! ### once in limbo, gone for good -/

/-- `v` has been removed from the store by a client that has not called `OnExit` yet, or `OnExit(v)` was called -/
def Past (v : Val) (w : View) : Prop := (∃ t, (w.cl t).limbo = v) ∨ Ev.exit v ∈ w.log

theorem past_step {w w' : View} {v : Val} (hv : v ≠ 0) (h : AStep w w') (hp : Past v w) : Past v w' := by
  obtain ⟨l0, hl0, _⟩ := astep_log h
  rcases hp with ⟨t0, ht0⟩ | hex
  · rcases astep_shape h with ⟨t, pc, pc', l, hpc, hm, hcl, hlog⟩ | ⟨l, hlog, hno, hcl⟩
    · by_cases ht : t0 = t
      · subst ht
        rw [hpc] at ht0
        have : Ev.exit v ∈ l ∨ pc'.limbo = v := by
          cases hm <;> simp only [CPc.limbo] at ht0 <;> first
            | exact absurd ht0.symm hv
            | (subst ht0; left; simp)
        rcases this with h1 | h1
        · exact Or.inr (by rw [hlog]; exact List.mem_append_left _ h1)
        · exact Or.inl ⟨t0, by rw [hcl]; simpa using h1⟩
      · exact Or.inl ⟨t0, by rw [hcl, updCl_ne _ _ ht]; exact ht0⟩
    · rcases hcl t0 with h1 | h1 | ⟨h1, _⟩
      · exact Or.inl ⟨t0, by rw [h1]; exact ht0⟩
      · exact Or.inl ⟨t0, by rw [h1, unblockedPc_limbo]; exact ht0⟩
      · exact absurd (h1.symm.trans ht0).symm hv
  · exact Or.inr (by rw [hl0]; exact List.mem_append_right _ hex)

theorem past_run {cfg : Cfg} {v : Val} (hv : v ≠ 0) {acts : List Action} :
    ∀ {s s2 : State}, run cfg s acts = some s2 → Past v s.view → Past v s2.view := by
  induction acts with
  | nil => intro s s2 hr hp; simp [run] at hr; subst hr; exact hp
  | cons a as ih =>
    intro s s2 hr hp
    simp only [run] at hr
    cases hs : step cfg s a with
    | none => simp [hs] at hr
    | some s1 =>
      simp only [hs] at hr
      exact ih hr (past_step hv (astep_of_step hs) hp)

theorem reach_run {cfg : Cfg} {acts : List Action} :
    ∀ {s s2 : State}, Reach cfg s → run cfg s acts = some s2 → Reach cfg s2 := by
  induction acts with
  | nil => intro s s2 hr h; simp [run] at h; subst h; exact hr
  | cons a as ih =>
    intro s s2 hr h
    simp only [run] at h
    cases hs : step cfg s a with
    | none => simp [hs] at h
    | some s1 =>
      simp only [hs] at h
      exact ih (hr.of_step hs) h

/-- a value in limbo or exited is not in the store (under `Own`) -/
theorem past_not_stored {w : View} {v : Val} (hv : v ≠ 0) (ho : Own v w) (hp : Past v w) {h : Hash} {e : Entry}
    (hl : w.store.lookup h = some e) : e.value ≠ v := by
  intro he
  rcases hp with ⟨t, ht⟩ | hex
  · have hown : (w.cl t).own = v := by
      cases hpc : w.cl t <;> rw [hpc] at ht <;> simp only [CPc.limbo] at ht <;> first
        | exact absurd ht.symm hv
        | exact ht
    have h0 := (ho.2 t hown).1
    have h1 := storeCnt_pos_of_lookup hl he
    unfold View.cnt at h0; omega
  · exact own_no_exit hv ho hl he hex

end RV.Cache

namespace RV.Cache
open Gen.Cache

/-! ### `Clear`'s per-shard step releases everything it finds -/

theorem mem_evLog {st : Store} {ks : List Hash} {h : Hash} {e : Entry} (hk : h ∈ ks) (hl : st.lookup h = some e) :
    Ev.exit e.value ∈ evLog st ks ∧ Ev.evict h e.conflict e.value 0 ∈ evLog st ks := by
  induction ks with
  | nil => cases hk
  | cons k rest ih =>
    unfold evLog
    rcases List.mem_cons.mp hk with rfl | hk'
    · rw [hl]; simp
    · exact ⟨List.mem_append_left _ (ih hk').1, List.mem_append_left _ (ih hk').2⟩

theorem lookup_eraseAll_mem {st : Store} {ks : List Hash} {h : Hash} (hk : h ∈ ks) : (eraseAll st ks).lookup h = none := by
  induction ks generalizing st with
  | nil => cases hk
  | cons k rest ih =>
    unfold eraseAll
    rcases List.mem_cons.mp hk with rfl | hk'
    · cases hc : (eraseAll (st.erase h) rest).lookup h with
      | none => rfl
      | some e => have := lookup_eraseAll hc; simp at this
    · exact ih hk'

/-- one shard step of `Clear`/`Close`: every entry of the shard is passed to `OnEvict` and `OnExit` and is
removed from the store, in the same atomic step -/
theorem clrShard_releases {s s' : State} {t : Tid} {closing : Bool} {k : Nat} {ch : Choice}
    (hs : stClrShard s t closing k ch = some s') {h : Hash} {e : Entry} (hl : s.store.lookup h = some e)
    (hk : shardIdx h = k) :
    Ev.exit e.value ∈ s'.log ∧ Ev.evict h e.conflict e.value 0 ∈ s'.log ∧ s'.store.lookup h = none := by
  unfold stClrShard at hs
  split at hs
  · rename_i ks
    split at hs
    · simp at hs
    · split at hs
      · simp at hs
      · rename_i hord
        simp only [Option.some.injEq] at hs; subst hs
        have hord' : isShardOrder s.store k ks = true := by simpa using hord
        unfold isShardOrder at hord'
        simp only [Bool.and_eq_true, beq_iff_eq, List.all_eq_true, List.contains_iff_mem] at hord'
        have hmem : h ∈ ks := by
          apply hord'.2
          unfold shardKeys
          exact List.mem_filter.mpr ⟨AMap.mem_keys_of_lookup hl, by simpa using hk⟩
        have hv := evictAll_view s s.store ks
        have hlog : (evictAll s s.store ks).log = evLog s.store ks ++ s.log := congrArg View.log hv
        have hst : (evictAll s s.store ks).store = s.store := evictAll_store s s.store ks
        refine ⟨?_, ?_, ?_⟩
        · show Ev.exit e.value ∈ (evictAll s s.store ks).log
          rw [hlog]; exact List.mem_append_left _ (mem_evLog hmem hl).1
        · show Ev.evict h e.conflict e.value 0 ∈ (evictAll s s.store ks).log
          rw [hlog]; exact List.mem_append_left _ (mem_evLog hmem hl).2
        · show (eraseAll (evictAll s s.store ks).store ks).lookup h = none
          rw [hst]; exact lookup_eraseAll_mem hmem
  · simp at hs

/-- one iteration of `Clear`'s drain loop: a buffered new item is passed to `OnEvict` and `OnExit` -/
theorem clrDrain_releases {s s1 : State} {t : Tid} {closing : Bool} {i : Item}
    (hr : recvBuf s = some (.item i, s1)) (hf : i.flag ≠ .upd) :
    Ev.exit i.value ∈ (stClrDrain s t closing).log ∧ Ev.evict i.key i.conflict i.value i.cost ∈ (stClrDrain s t closing).log := by
  unfold stClrDrain
  rw [hr]
  simp only
  rw [if_pos ((flag_clearEvicts _).mpr hf)]
  simp

end RV.Cache
