import RV.Proofs.TreeInv
/-!
# Geometry of the backing buffer: the pages in use fit the data, the data fits the buffer

`Tree.newNode` is the only place that moves the frontier; before it uses page `p` it makes sure
`(p+1)*pageSize <= len(t.data)` by `Buffer.AllocateOffset` (growth rule of `Buffer.Grow`:
generated comparisons).  `Geo cfg a a'` relates two allocator states such that the frontier and
the capacity only grow and `AllocFits` is carried over (as long as the sizes stay below 2^61,
i.e. fit a Go `int` with room to spare).
-/
namespace RV.Tree
open Gen.Tree

theorem w_add_one (n : Nat) : w n + 1#64 = w (n + 1) := by
  unfold w; rw [BitVec.ofNat_add]
theorem w_mul (a b : Nat) : w a * w b = w (a * b) := by
  unfold w; rw [BitVec.ofNat_mul]

/-- the pages in use fit the mapped data, the data fits the buffer / file behind its padding -/
def AllocFits (cfg : Cfg) (a : Alloc) : Prop :=
  a.nextPage * cfg.pageSize ≤ a.dataLen ∧ a.dataLen + 8 ≤ a.curSz

theorem w_add (a b : Nat) : w a + w b = w (a + b) := by unfold w; rw [BitVec.ofNat_add]

theorem w_sub {a b : Nat} (h : b ≤ a) (ha : a < 2 ^ 64) : w a - w b = w (a - b) := by
  apply BitVec.eq_of_toNat_eq
  rw [BitVec.toNat_sub, w_toNat ha, w_toNat (by omega), w_toNat (by omega)]
  omega

theorem bufAllocate_fits (a : Alloc) (n : Nat) (h : a.dataLen + 8 ≤ a.curSz) (hb : a.curSz < 2 ^ 61) (hn : n < 2 ^ 61) :
    (bufAllocate a n).dataLen = a.dataLen + n ∧ (bufAllocate a n).dataLen + 8 ≤ (bufAllocate a n).curSz ∧
    (bufAllocate a n).nextPage = a.nextPage := by
  refine ⟨rfl, ?_, rfl⟩
  unfold bufAllocate
  dsimp only
  unfold growNotNeeded
  rw [w_add, w_slt (by omega) (by omega)]
  by_cases h1 : a.dataLen + 8 + n < a.curSz
  · simp only [h1, decide_true, if_true]; omega
  · simp only [h1, decide_false, Bool.false_eq_true, if_false]
    unfold growBy growCapped growAtLeast
    rw [w_add]
    have h30 : (1073741824#64 : BitVec 64) = w 1073741824 := rfl
    rw [h30, w_slt (by omega) (by omega)]
    by_cases h2 : 1073741824 < a.curSz + n
    · simp only [h2, decide_true, if_true]
      have h30' : (1 <<< 30 : Nat) = 1073741824 := by decide
      rw [h30', w_slt (by omega) (by omega)]
      by_cases h3 : 1073741824 < n
      · simp only [h3, decide_true, if_true]; rw [w_toNat (by omega)]; omega
      · simp only [h3, decide_false, Bool.false_eq_true, if_false]; rw [w_toNat (by omega)]; omega
    · simp only [h2, decide_false, Bool.false_eq_true, if_false]
      rw [w_slt (by omega) (by omega)]
      have h3 : ¬ (a.curSz + n < n) := by omega
      simp only [h3, decide_false, Bool.false_eq_true, if_false]
      rw [w_toNat (by omega)]; omega

/-- `newNode` grows the buffer before it hands out the frontier page: the pages in use keep
fitting the data, and the data keeps fitting the buffer. -/
theorem newNode_fits (cfg : Cfg) (a : Alloc) (h : AllocFits cfg a) (hb1 : a.curSz < 2 ^ 61)
    (hb2 : (a.nextPage + 1) * cfg.pageSize < 2 ^ 61) : AllocFits cfg (newNode cfg a).2 := by
  unfold newNode
  dsimp only
  split
  · split <;> exact h
  · dsimp only
    unfold newNodeReqSize newNodeOffset
    rw [w_mul, w_add]
    have hreq : a.nextPage * cfg.pageSize + cfg.pageSize = (a.nextPage + 1) * cfg.pageSize := by
      rw [Nat.add_mul]; omega
    rw [growNeeded_eq_fast, growAmount_eq_fast]
    unfold growNeededFast growAmountFast
    have hd : a.dataLen < 2 ^ 61 := by have := h.2; omega
    rw [w_slt (by omega) (by omega)]
    by_cases hg : a.dataLen < a.nextPage * cfg.pageSize + cfg.pageSize
    · simp only [hg, decide_true, if_true]
      rw [w_sub (by omega) (by omega), w_toNat (by omega)]
      obtain ⟨b1, b2, b3⟩ := bufAllocate_fits { a with nextPage := a.nextPage + 1 }
        (a.nextPage * cfg.pageSize + cfg.pageSize - a.dataLen) h.2 hb1 (by omega)
      refine ⟨?_, b2⟩
      rw [b3, b1]; simp only; omega
    · simp only [hg, decide_false, Bool.false_eq_true, if_false]
      exact ⟨by simp only; omega, h.2⟩


theorem AllocFits.fileOk_fits {cfg : Cfg} {a : Alloc} (h : AllocFits cfg a) :
    a.nextPage * cfg.pageSize ≤ a.curSz - 8 := by
  have := h.1; have := h.2; omega


/-- the sizes fit a Go `int` with room to spare -/
def Bounded (cfg : Cfg) (a : Alloc) : Prop := a.curSz < 2 ^ 61 ∧ a.nextPage * cfg.pageSize < 2 ^ 61

structure Geo (cfg : Cfg) (a a' : Alloc) : Prop where
  np : a.nextPage ≤ a'.nextPage
  sz : a.curSz ≤ a'.curSz
  fits : Bounded cfg a' → AllocFits cfg a → AllocFits cfg a'

theorem Geo.same {cfg : Cfg} {a a' : Alloc} (h1 : a'.nextPage = a.nextPage) (h2 : a'.dataLen = a.dataLen)
    (h3 : a'.curSz = a.curSz) : Geo cfg a a' :=
  ⟨by omega, by omega, fun _ h => by unfold AllocFits at *; rw [h1, h2, h3]; exact h⟩

theorem Geo.trans {cfg : Cfg} {a a' a'' : Alloc} (h1 : Geo cfg a a') (h2 : Geo cfg a' a'') : Geo cfg a a'' := by
  refine ⟨by have := h1.1; have := h2.1; omega, by have := h1.2; have := h2.2; omega, fun hb hf => ?_⟩
  apply h2.3 hb
  apply h1.3 _ hf
  refine ⟨by have := hb.1; have := h2.2; omega, ?_⟩
  have : a'.nextPage * cfg.pageSize ≤ a''.nextPage * cfg.pageSize := Nat.mul_le_mul_right _ h2.1
  have := hb.2; omega

theorem bufAllocate_curSz_le (a : Alloc) (n : Nat) : a.curSz ≤ (bufAllocate a n).curSz := by
  unfold bufAllocate
  dsimp only
  split
  · exact Nat.le_refl _
  · omega

/-- `newNode` keeps the geometry: it either reuses a free page or grows the buffer first. -/
theorem newNode_geo (cfg : Cfg) (a : Alloc) : Geo cfg a (newNode cfg a).2 := by
  by_cases hu : newNodeUseFree (w a.freeHead) = true
  · have e : (newNode cfg a).2.nextPage = a.nextPage ∧ (newNode cfg a).2.dataLen = a.dataLen ∧
        (newNode cfg a).2.curSz = a.curSz := by
      unfold newNode
      simp only [hu, if_true]
      split <;> exact ⟨rfl, rfl, rfl⟩
    exact Geo.same e.1 e.2.1 e.2.2
  · have e : (newNode cfg a).2.nextPage = a.nextPage + 1 ∧ a.curSz ≤ (newNode cfg a).2.curSz := by
      unfold newNode
      simp only [hu, Bool.false_eq_true, if_false]
      split
      · exact ⟨rfl, bufAllocate_curSz_le _ _⟩
      · exact ⟨rfl, Nat.le_refl _⟩
    refine ⟨by omega, e.2, fun hb hf => ?_⟩
    apply newNode_fits cfg a hf (by have := hb.1; omega)
    have := hb.2
    rw [e.1] at this
    exact this

end RV.Tree
