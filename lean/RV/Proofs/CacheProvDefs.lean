import RV.Proofs.CacheProvSim
namespace RV.Cache
open Gen.Cache

/-- a logged `SetWithTTL(h, c, v)` call -/
def Src (log : List Ev) (h : Hash) (c : Conf) (v : Val) : Prop :=
  ∃ t cost ttl, Ev.setCall t h c v cost ttl ∈ log
/-- `v` is the zero value or was supplied by a logged `Set` call -/
def VSrc (log : List Ev) (v : Val) : Prop := v = 0 ∨ ∃ h c, Src log h c v
/-- some `Set` call was made for hash `h` under a conflict compatible with `c` -/
def KeySrc (log : List Ev) (h : Hash) (c : Conf) : Prop := ∃ cw v, Src log h cw v ∧ (c = 0#64 ∨ c = cw)
/-- a read value was supplied by a `Set` of hash `h` under a conflict compatible with `c` -/
def ValSrc (log : List Ev) (h : Hash) (c : Conf) (v : Val) : Prop := ∃ cw, Src log h cw v ∧ (c = 0#64 ∨ c = cw)

def ItemOk (log : List Ev) (i : Item) : Prop :=
  (i.flag = .del ∧ i.value = 0) ∨ Src log i.key i.conflict i.value

def ElemOk (log : List Ev) : BufElem → Prop
  | .item i => ItemOk log i
  | .marker _ => True

def APcOk (log : List Ev) : APc → Prop
  | .item i => ItemOk log i
  | .costed i => ItemOk log i
  | .tombPolicy i => ItemOk log i
  | .added i _ _ => Src log i.key i.conflict i.value
  | .victimEvict h _ c v _ => (c = 0#64 ∧ v = 0) ∨ Src log h c v
  | .tombStore v => VSrc log v
  | .swStoreDel _ k c _ v _ => ValSrc log k c v
  | .swPolDel _ k c _ _ v _ => ValSrc log k c v
  | _ => True

def CPcOk (log : List Ev) : CPc → Prop
  | .setStart h c v _ _ => Src log h c v
  | .setUpd i => Src log i.key i.conflict i.value
  | .setSend i => Src log i.key i.conflict i.value
  | .setRetTrue i => Src log i.key i.conflict i.value
  | .setRetDrop i => Src log i.key i.conflict i.value
  | .setExit i prev => Src log i.key i.conflict i.value ∧ VSrc log prev
  | .delExit _ _ prev => VSrc log prev
  | .getCheck h _ e => ∀ e', e = some e' → Src log h e'.conflict e'.value
  | .getMetric h c r => ∀ v, r = some v → ValSrc log h c v
  | .ttlCheck h _ e => ∀ e', e = some e' → Src log h e'.conflict e'.value
  | .ttlExp h c => KeySrc log h c
  | .ttlNow h c _ => KeySrc log h c
  | .ttlUntil h c _ => KeySrc log h c
  | _ => True

/-- what an event needs from the events older than it -/
def EvOk (older : List Ev) : Ev → Prop
  | .getRet _ h cg r => ∀ v, r = some v → ValSrc older h cg v
  | .ttlRet _ h cg _ ok => ok = true → KeySrc older h cg
  | .exit v => VSrc older v
  | .evict _ _ v _ => VSrc older v
  | .reject _ _ v _ => VSrc older v
  | .drop _ v => VSrc older v
  | .setRet _ v _ => VSrc older v
  | _ => True

def LogOk : List Ev → Prop
  | [] => True
  | e :: older => EvOk older e ∧ LogOk older

/-! ### monotonicity in the log -/
section mono
variable {log log' : List Ev} (hsub : log ⊆ log')
include hsub

theorem Src.mono {h c v} (hs : Src log h c v) : Src log' h c v := by
  obtain ⟨t, cost, ttl, hm⟩ := hs; exact ⟨t, cost, ttl, hsub hm⟩
theorem VSrc.mono {v} (hs : VSrc log v) : VSrc log' v := by
  rcases hs with h0 | ⟨h, c, hs⟩
  · exact Or.inl h0
  · exact Or.inr ⟨h, c, hs.mono hsub⟩
theorem KeySrc.mono {h c} (hs : KeySrc log h c) : KeySrc log' h c := by
  obtain ⟨cw, v, hs, hc⟩ := hs; exact ⟨cw, v, hs.mono hsub, hc⟩
theorem ValSrc.mono {h c v} (hs : ValSrc log h c v) : ValSrc log' h c v := by
  obtain ⟨cw, hs, hc⟩ := hs; exact ⟨cw, hs.mono hsub, hc⟩
theorem ItemOk.mono {i} (hs : ItemOk log i) : ItemOk log' i := by
  rcases hs with h0 | hs
  · exact Or.inl h0
  · exact Or.inr (hs.mono hsub)
theorem ElemOk.mono {x} (hs : ElemOk log x) : ElemOk log' x := by
  cases x with
  | item i => exact ItemOk.mono hsub hs
  | marker id => trivial
theorem APcOk.mono {pc} (hs : APcOk log pc) : APcOk log' pc := by
  cases pc <;> simp only [APcOk] at hs ⊢
  case item => exact hs.mono hsub
  case costed => exact hs.mono hsub
  case tombPolicy => exact hs.mono hsub
  case added => exact hs.mono hsub
  case victimEvict => exact hs.imp id (Src.mono hsub)
  case tombStore => exact hs.mono hsub
  case swStoreDel => exact hs.mono hsub
  case swPolDel => exact hs.mono hsub
theorem CPcOk.mono {pc} (hs : CPcOk log pc) : CPcOk log' pc := by
  cases pc <;> simp only [CPcOk] at hs ⊢
  case setStart => exact hs.mono hsub
  case setUpd => exact hs.mono hsub
  case setSend => exact hs.mono hsub
  case setRetTrue => exact hs.mono hsub
  case setRetDrop => exact hs.mono hsub
  case setExit => exact ⟨hs.1.mono hsub, hs.2.mono hsub⟩
  case delExit => exact hs.mono hsub
  case getCheck => exact fun e' he => (hs e' he).mono hsub
  case getMetric => exact fun v hv => (hs v hv).mono hsub
  case ttlCheck => exact fun e' he => (hs e' he).mono hsub
  case ttlExp => exact hs.mono hsub
  case ttlNow => exact hs.mono hsub
  case ttlUntil => exact hs.mono hsub
theorem EvOk.mono {e} (hs : EvOk log e) : EvOk log' e := by
  cases e <;> simp only [EvOk] at hs ⊢
  case getRet => exact fun v hv => (hs v hv).mono hsub
  case ttlRet => exact fun hv => (hs hv).mono hsub
  case exit => exact hs.mono hsub
  case evict => exact hs.mono hsub
  case reject => exact hs.mono hsub
  case drop => exact hs.mono hsub
  case setRet => exact hs.mono hsub
end mono

theorem logOk_append {log l : List Ev} (h : LogOk log) (hl : ∀ e ∈ l, EvOk log e) : LogOk (l ++ log) := by
  induction l with
  | nil => exact h
  | cons e l ih =>
    refine ⟨(hl e (by simp)).mono (List.subset_append_right _ _), ih (fun e' he' => hl e' (by simp [he']))⟩

theorem logOk_split {newer older : List Ev} {e : Ev} (h : LogOk (newer ++ e :: older)) : EvOk older e := by
  induction newer with
  | nil => exact h.1
  | cons x newer ih => exact ih h.2

end RV.Cache
