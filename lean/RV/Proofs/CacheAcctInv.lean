import RV.Proofs.CacheAcctPol
/-!
# The accounting invariant `Acct` of every reachable state (C03 cache part, C17 cost/keys)

Outside *Clear's window* (a client between `policy.Clear` and `Metrics.Clear`, i.e. at
`clrShard`/`clrEm`/`clrMetrics`) the policy is well-formed and the metrics agree with it
(`PM`); inside the window the policy is empty (nobody else can touch it: the applier is
stopped, `handshake_reach`).
-/
namespace RV.Cache
open RV

/-- the client is between `policy.Clear` and `Metrics.Clear` -/
def CPc.inWin : CPc → Bool
  | .clrShard .. => true | .clrEm _ => true | .clrMetrics _ => true | _ => false

/-- some client is inside Clear's window -/
def InWin (s : State) : Prop := ∃ t, (s.cl t).inWin = true

/-- number of keys already accounted by the policy whose `keyAdd` increment is still pending -/
def APc.pend : APc → BitVec 64
  | .added _ _ true => 1
  | _ => 0

/-- the counters the accounting relations talk about -/
def Met.acct (m : Met) : BitVec 64 × BitVec 64 × BitVec 64 × BitVec 64 :=
  (m.costAdd, m.costEvict, m.keyAdd, m.keyEvict)

structure Acct (cfg : Cfg) (s : State) : Prop where
  wf : PolWf s.pol
  win : InWin s → s.pol.costs = AMap.empty ∧ s.pol.used = 0
  pm : ¬ InWin s → PM cfg.metricsOn s.pol s.met s.app.pend

@[simp] theorem unblockedPc_inWin (pc : CPc) : (unblockedPc pc).inWin = pc.inWin := by cases pc <;> rfl

theorem CPc.inWin_busy {pc : CPc} (h : pc.inWin = true) : pc.busy = true := by
  cases pc <;> simp [CPc.inWin] at h <;> rfl

theorem PM_congr {on : Bool} {p p' : Pol} {m m' : Met} {d d' : BitVec 64} (h : PM on p m d)
    (hc : p'.costs = p.costs) (hu : p'.used = p.used) (hm : m'.acct = m.acct) (hd : d' = d) : PM on p' m' d' := by
  simp only [Met.acct, Prod.mk.injEq] at hm
  obtain ⟨h1, h2, h3, h4⟩ := hm
  subst hd
  refine ⟨⟨by rw [hu, hc]; exact h.wf.sum, by rw [hc]; exact h.wf.nodup⟩, ?_, ?_⟩
  · intro hon; rw [h1, h2, hu]; exact h.cost hon
  · intro hon; rw [h3, h4, hc]; exact h.keys hon

theorem inWin_congr {s s' : State} (hwin : ∀ t, (s'.cl t).inWin = (s.cl t).inWin) : InWin s' ↔ InWin s :=
  ⟨fun ⟨t, h⟩ => ⟨t, by rw [← hwin]; exact h⟩, fun ⟨t, h⟩ => ⟨t, by rw [hwin]; exact h⟩⟩

/-- frame: the step changed neither the accounted costs, nor the four counters, nor the pending
increment, nor who is inside the window -/
theorem acct_frame {cfg : Cfg} {s s' : State} (h : Acct cfg s)
    (hc : s'.pol.costs = s.pol.costs) (hu : s'.pol.used = s.pol.used) (hm : s'.met.acct = s.met.acct)
    (hd : s'.app.pend = s.app.pend) (hwin : ∀ t, (s'.cl t).inWin = (s.cl t).inWin) : Acct cfg s' := by
  have hw := inWin_congr hwin
  refine ⟨⟨by rw [hu, hc]; exact h.wf.sum, by rw [hc]; exact h.wf.nodup⟩, ?_, ?_⟩
  · intro hi; rw [hc, hu]; exact h.win (hw.mp hi)
  · intro hi; exact PM_congr (h.pm (fun x => hi (hw.mpr x))) hc hu hm hd

/-- the applier is stopped while somebody is inside the window -/
theorem inWin_dead {s : State} (hh : Handshake s) (h : InWin s) : s.app = .dead := by
  obtain ⟨t, ht⟩ := h
  exact hh.busy t (CPc.inWin_busy ht)

open Lean in
/-- `acct_cl stX`: client step `stX` of thread `t` with `hpc : s.cl t = …` in the context is a frame -/
macro "acct_cl " f:ident : tactic => do
  let n := f.getId
  let clne := mkIdent (n.appendAfter "_cl_ne")
  let pol := mkIdent (n.appendAfter "_pol")
  let met := mkIdent (n.appendAfter "_met")
  let app := mkIdent (n.appendAfter "_app")
  `(tactic| (refine acct_frame ‹Acct _ _› (by rw [$pol:ident]) (by rw [$pol:ident]) (by rw [$met:ident]) (by rw [$app:ident]) (cls_congr _ (fun _ hne => $clne (hne := hne) ..) ?_); (unfold $f; try unfold sendBlocking); (try dsimp only); (repeat' split) <;> simp [*, CPc.inWin]))

theorem acct_clientStep {cfg : Cfg} {s s' : State} {t : Tid} {ch : Choice}
    (hh : Handshake s) (h : Acct cfg s) (hs : clientStep cfg s t ch = some s') : Acct cfg s' := by
  apply clientStep_cases hs (motive := Acct cfg)
  case setStart => intros; acct_cl stSetStart
  case setUpd => intros; acct_cl stSetUpd
  case setExit => intros; acct_cl stSetExit
  case setSend => intros; acct_cl stSetSend
  case setRetTrue => intros; acct_cl stSetRetTrue
  case delStart => intros; acct_cl stDelStart
  case delExit => intros; acct_cl stDelExit
  case delSend => intros; acct_cl stDelSend
  case delSent => intros; acct_cl stDelSent
  case waitStart => intros; acct_cl stWaitStart
  case waitSend => intros; acct_cl stWaitSend
  case waitDone => intros; acct_cl stWaitDone
  case getRead => intros; acct_cl stGetRead
  case getCheck => intros; acct_cl stGetCheck
  case ttlRead => intros; acct_cl stTtlRead
  case ttlCheck => intros; acct_cl stTtlCheck
  case ttlExp => intros; acct_cl stTtlExp
  case ttlNow => intros; acct_cl stTtlNow
  case ttlUntil => intros; acct_cl stTtlUntil
  case iterStart => intros; acct_cl stIterStart
  case clrStart => intros; acct_cl stClrStart
  case clrEm => intros; acct_cl stClrEm
  case clrRestart =>
    intro closing hpc _
    have hdead := hh.busy t (by simp [hpc, CPc.busy])
    refine acct_frame h (by rw [stClrRestart_pol]) (by rw [stClrRestart_pol]) (by rw [stClrRestart_met]) ?_
      (cls_congr _ (fun _ hne => stClrRestart_cl_ne (hne := hne) ..) ?_)
    · rw [hdead]; unfold stClrRestart; dsimp only; split <;> rfl
    · unfold stClrRestart; dsimp only; split <;> simp [hpc, CPc.inWin]
  case clsFinish =>
    intro hpc _
    have hdead := hh.busy t (by simp [hpc, CPc.busy])
    refine acct_frame h (by rw [stClsFinish_pol]) (by rw [stClsFinish_pol]) (by rw [stClsFinish_met]) ?_
      (cls_congr _ (fun _ hne => stClsFinish_cl_ne (hne := hne) ..) ?_)
    · rw [hdead]; rfl
    · unfold stClsFinish; simp [hpc, CPc.inWin]
  case readMax => intros; acct_cl stReadMax
  case readRem => intros; acct_cl stReadRem
  case setRetDrop =>
    intro i hpc _
    refine acct_frame h (by rw [stSetRetDrop_pol]) (by rw [stSetRetDrop_pol]) ?_ (by rw [stSetRetDrop_app])
      (cls_congr _ (fun _ hne => stSetRetDrop_cl_ne (hne := hne) ..) ?_)
    · unfold stSetRetDrop; split
      · rfl
      · simp only [logEv_met, setCl_met, metAdd_met]; split <;> rfl
    · unfold stSetRetDrop; split <;> simp [hpc, CPc.inWin]
  case getMetric =>
    intro h' c r hpc _
    refine acct_frame h (by rw [stGetMetric_pol]) (by rw [stGetMetric_pol]) ?_ (by rw [stGetMetric_app])
      (cls_congr _ (fun _ hne => stGetMetric_cl_ne (hne := hne) ..) ?_)
    · unfold stGetMetric
      simp only [logEv_met, setCl_met, metAdd_met]
      split
      · split <;> rfl
      · rfl
    · unfold stGetMetric; simp [hpc, CPc.inWin]
  case updMax =>
    intro m hpc _
    refine acct_frame h rfl rfl (by rw [stUpdMax_met]) (by rw [stUpdMax_app])
      (cls_congr _ (fun _ hne => stUpdMax_cl_ne (hne := hne) ..) ?_)
    unfold stUpdMax; simp [hpc, CPc.inWin]
  case waitRecv =>
    intro id hpc _ hr
    refine acct_frame h (by rw [stWaitRecv_pol _ _ _ hr]) (by rw [stWaitRecv_pol _ _ _ hr])
      (by rw [stWaitRecv_met _ _ _ hr]) (by rw [stWaitRecv_app _ _ _ hr])
      (cls_congr _ (fun _ hne => stWaitRecv_cl_ne _ _ _ hr hne) ?_)
    unfold stWaitRecv at hr; split at hr
    · simp only [Option.some.injEq] at hr; subst hr; simp [hpc, CPc.inWin]
    · simp at hr
  case getStart =>
    intro h' c hpc hr
    have hne := (stGetStart_frame hr).1
    rcases stGetStart_cases hr with ⟨_, rfl⟩ | ⟨_, rfl⟩ | ⟨_, kept, n, _, _, rfl⟩
    · exact acct_frame h rfl rfl rfl rfl (cls_congr _ hne (by simp [hpc, CPc.inWin]))
    · exact acct_frame h rfl rfl rfl rfl (cls_congr _ hne (by simp [hpc, CPc.inWin]))
    · refine acct_frame h (by simp) (by simp) ?_ (by simp) (cls_congr _ hne (by simp [hpc, CPc.inWin]))
      simp only [setCl_met, metAdd_met]
      split
      · cases kept <;> rfl
      · rfl
  case iterShard =>
    intro k n seen hpc hr
    have hne := (stIterShard_frame hr).1
    obtain ⟨ks, _, _, _, hcase⟩ := stIterShard_cases hr
    rcases hcase with ⟨_, rfl⟩ | ⟨_, rfl⟩
    · exact acct_frame h rfl rfl rfl rfl (cls_congr _ hne (by simp [hpc, CPc.inWin]))
    · exact acct_frame h rfl rfl rfl rfl (cls_congr _ hne (by simp [hpc, CPc.inWin]))
  case clrDrain =>
    intro closing hpc _
    rcases stClrDrain_cases s t closing with ⟨_, e⟩ | ⟨id, s1, hr, e⟩ | ⟨i, s1, hr, _, e⟩ | ⟨i, s1, hr, _, e⟩ <;> rw [e]
    · exact acct_frame h rfl rfl rfl rfl
        (cls_congr _ (fun _ hne => setCl_cl_ne _ _ _ hne) (by simp [hpc, CPc.inWin]))
    · exact acct_frame h (by simp [recvBuf_pol hr]) (by simp [recvBuf_pol hr]) (by simp [recvBuf_met hr])
        (by simp [recvBuf_app hr]) (cls_recv (s1 := s1) _ unblockedPc_inWin hr)
    · exact acct_frame h (by simp [recvBuf_pol hr]) (by simp [recvBuf_pol hr]) (by simp [recvBuf_met hr])
        (by simp [recvBuf_app hr]) (by simpa using cls_recv _ unblockedPc_inWin hr)
    · exact acct_frame h (by simp [recvBuf_pol hr]) (by simp [recvBuf_pol hr]) (by simp [recvBuf_met hr])
        (by simp [recvBuf_app hr]) (cls_recv _ unblockedPc_inWin hr)
  case clrShard =>
    intro closing k hpc hr
    obtain ⟨ks, _, _, _, rfl⟩ := stClrShard_cases hr
    refine acct_frame h (by simp [evictAll_pol]) (by simp [evictAll_pol]) (by simp [evictAll_met])
      (by simp [evictAll_app]) (cls_congr (t := t) _ (fun _ hne => by simp [setCl_cl_ne _ _ _ hne, evictAll_cl]) ?_)
    simp only [setCl_cl_self, hpc]; split <;> rfl
  case clrPolicy =>
    intro closing hpc _
    have hin : InWin (stClrPolicy s t closing) := ⟨t, by simp [stClrPolicy, CPc.inWin]⟩
    refine ⟨⟨rfl, AMap.nodup_empty⟩, fun _ => ⟨rfl, rfl⟩, fun hn => absurd hin hn⟩
  case clrMetrics =>
    intro closing hpc _
    have hin : InWin s := ⟨t, by simp [hpc, CPc.inWin]⟩
    obtain ⟨hc, hu⟩ := h.win hin
    have hdead := inWin_dead hh hin
    have hact : (s.cl t).active = true := by simp [hpc, CPc.active, CPc.busy]
    have hout : ¬ InWin (stClrMetrics cfg s t closing) := by
      rintro ⟨t', ht'⟩
      by_cases e : t' = t
      · subst e; simp [stClrMetrics, CPc.inWin] at ht'
      · rw [stClrMetrics_cl_ne _ _ _ _ e] at ht'
        have := hh.unique t' t (by simp [CPc.active, CPc.inWin_busy ht']) hact
        exact e this
    refine ⟨by rw [stClrMetrics_pol]; exact h.wf, fun hi => absurd hi hout, fun _ => ?_⟩
    rw [stClrMetrics_pol, stClrMetrics_app, hdead]
    refine ⟨h.wf, ?_, ?_⟩
    · intro hon; simp only [stClrMetrics, hon, if_true, setCl_met, hu]; rfl
    · intro hon; simp only [stClrMetrics, hon, if_true, setCl_met, hc]; rfl

theorem acct_of_pm {cfg : Cfg} {s' : State} (hnw : ¬ InWin s')
    (h : PM cfg.metricsOn s'.pol s'.met s'.app.pend) : Acct cfg s' :=
  ⟨h.wf, fun hi => absurd hi hnw, fun _ => h⟩

theorem afterVictims_pend (vs : List (Hash × Int)) : (afterVictims vs).pend = 0 := by
  unfold afterVictims; split <;> rfl

theorem acct_applierStep {cfg : Cfg} {s s' : State} {ch : Choice}
    (hh : Handshake s) (h : Acct cfg s) (hs : applierStep cfg s ch = some s') : Acct cfg s' := by
  have hnw : s.app ≠ .dead → ¬ InWin s := fun hne hi => hne (inWin_dead hh hi)
  apply applierStep_cases hs (motive := Acct cfg)
  case idle =>
    intro hpc hr
    rcases apIdle_cases hr with ⟨id, s1, _, hrecv, rfl⟩ | ⟨i, s1, _, hrecv, rfl⟩ | ⟨_, rfl⟩ | ⟨t, _, hstop⟩
    · exact acct_frame h (by simp [recvBuf_pol hrecv]) (by simp [recvBuf_pol hrecv]) (by simp [recvBuf_met hrecv])
        (by simp [hpc, APc.pend]) (cls_recv (s1 := s1) _ unblockedPc_inWin hrecv)
    · exact acct_frame h (by simp [recvBuf_pol hrecv]) (by simp [recvBuf_pol hrecv]) (by simp [recvBuf_met hrecv])
        (by simp [hpc, APc.pend]) (cls_recv (s1 := s1) _ unblockedPc_inWin hrecv)
    · exact acct_frame h rfl rfl rfl (by simp [hpc, APc.pend]) (fun _ => rfl)
    · rcases apSelStop_cases hstop with ⟨closing, hpc', rfl⟩ | ⟨hpc', rfl⟩
      · exact acct_frame h rfl rfl rfl (by simp [hpc, APc.pend])
          (cls_congr (t := t) _ (fun _ hne => setCl_cl_ne _ _ _ hne) (by simp [hpc', CPc.inWin]))
      · exact acct_frame h rfl rfl rfl (by simp [hpc, APc.pend])
          (cls_congr (t := t) _ (fun _ hne => setCl_cl_ne _ _ _ hne) (by simp [hpc', CPc.inWin]))
  case marker =>
    intro id hpc _
    exact acct_frame h rfl rfl rfl (by simp [hpc, apMarker, APc.pend]) (fun _ => rfl)
  case item =>
    intro i hpc _
    exact acct_frame h rfl rfl rfl (by simp [hpc, apItem, APc.pend]) (fun _ => rfl)
  case costed =>
    intro i hpc hr
    have hn := hnw (by simp [hpc])
    have hpm := h.pm hn
    rw [hpc] at hpm
    rcases apCosted_cases hr with ⟨victims, added, pm, _, _, hp, rfl⟩ | ⟨_, _, rfl⟩ | ⟨_, _, rfl⟩
    · refine acct_of_pm hn ?_
      have := polAdd_pm hpm hp
      cases added <;> exact this
    · exact acct_of_pm hn (polUpdate_pm _ _ _ _ _ hpm)
    · exact acct_of_pm hn (polDel_pm _ _ _ _ hpm)
  case added =>
    intro i victims ok hpc _
    have hn := hnw (by simp [hpc])
    have hpm := h.pm hn
    rw [hpc] at hpm
    refine acct_of_pm (s' := apAdded cfg s i victims ok) (by rw [inWin_congr (s := s)]; exact hn; intro t; rw [apAdded_cl]) ?_
    rw [apAdded_pol]
    unfold apAdded
    split
    · rename_i hok; subst hok
      simp only [afterVictims_pend]
      refine ⟨hpm.wf, ?_, ?_⟩
      · intro hon; simp only [metAdd_met, hon, if_true]; exact hpm.cost hon
      · intro hon; simp only [metAdd_met, hon, if_true]
        have := hpm.keys hon
        simp only [APc.pend] at this
        simpa using this
    · rename_i hok
      have hok' : ok = false := by simpa using hok
      subst hok'
      simp only [afterVictims_pend, cbReject_met]
      exact hpm
  case victims =>
    intro vs hpc _ hr
    obtain ⟨h', cost, rest, _, rfl⟩ := apVictims_cases hr
    exact acct_frame h rfl rfl rfl (by simp [hpc, APc.pend]) (fun _ => rfl)
  case victimEvict =>
    intro h' cost c v rest hpc _
    exact acct_frame h rfl rfl rfl (by show (afterVictims rest).pend = _; rw [afterVictims_pend, hpc]; rfl) (fun _ => rfl)
  case tombPolicy =>
    intro i hpc _
    exact acct_frame h rfl rfl rfl (by simp [hpc, apTombPolicy, APc.pend]) (fun _ => rfl)
  case tombStore =>
    intro v hpc _
    exact acct_frame h rfl rfl rfl (by simp [hpc, apTombStore, APc.pend]) (fun _ => rfl)
  case tick =>
    intro hpc _
    exact acct_frame h rfl rfl rfl (by simp [hpc, apTick, APc.pend]) (fun _ => rfl)
  case sweep =>
    intro now bs hpc hr
    rcases apSweep_cases hr with ⟨_, rfl⟩ | ⟨b, rest, k, c, _, _, rfl⟩
    · exact acct_frame h rfl rfl rfl (by simp [hpc, APc.pend]) (fun _ => rfl)
    · exact acct_frame h rfl rfl rfl (by simp [hpc, APc.pend]) (fun _ => rfl)
  case swKey =>
    intro now k c bs hpc _
    refine acct_frame h (by rw [apSwKey_pol]) (by rw [apSwKey_pol]) (by rw [apSwKey_met]) ?_ (fun _ => by rw [apSwKey_cl])
    rw [hpc]; unfold apSwKey; dsimp only; split <;> rfl
  case swStoreDel =>
    intro now k c expr v bs hpc _
    have hn := hnw (by simp [hpc])
    have hpm := h.pm hn
    rw [hpc] at hpm
    exact acct_of_pm hn (polDel_pm _ _ _ _ hpm)
  case swPolDel =>
    intro now k c expr cost v bs hpc _
    exact acct_frame h rfl rfl rfl (by simp [hpc, apSwPolDel, APc.pend]) (fun _ => rfl)

theorem acct_init (cfg : Cfg) (now : Time) : Acct cfg (init cfg now) := by
  refine acct_of_pm (by rintro ⟨t, ht⟩; simp [init, CPc.inWin] at ht) ?_
  refine ⟨⟨rfl, AMap.nodup_empty⟩, fun _ => by simp [init, w64], fun _ => by simp [init, APc.pend, AMap.size, AMap.empty]⟩

theorem acct_step {cfg : Cfg} {s s' : State} {a : Action} (hh : Handshake s) (h : Acct cfg s)
    (hs : step cfg s a = some s') : Acct cfg s' := by
  cases a with
  | spawn t c =>
    have hs' : spawnStep s t c = some s' := hs
    have hidle := spawnStep_idle hs'
    refine acct_frame h (by rw [spawnStep_pol _ _ _ hs']) (by rw [spawnStep_pol _ _ _ hs'])
      (by rw [spawnStep_met _ _ _ hs']) (by rw [spawnStep_app _ _ _ hs'])
      (cls_congr _ (fun _ hne => spawnStep_cl_ne _ _ _ hs' hne) ?_)
    rw [hidle]
    unfold spawnStep at hs'; rw [hidle] at hs'; dsimp only at hs'
    split at hs' <;> (simp only [Option.some.injEq] at hs'; subst hs'; simp [CPc.inWin])
  | client t ch => exact acct_clientStep hh h hs
  | applier ch => exact acct_applierStep hh h hs
  | done t =>
    have hs' : doneStep s t = some s' := hs
    obtain ⟨happ, hcase⟩ := doneStep_cases hs'
    rcases hcase with ⟨closing, hpc, rfl⟩ | ⟨hpc, rfl⟩
    · exact acct_frame h rfl rfl rfl (by simp [happ, APc.pend])
        (cls_congr (t := t) _ (fun _ hne => setCl_cl_ne _ _ _ hne) (by simp [hpc, CPc.inWin]))
    · exact acct_frame h rfl rfl rfl (by simp [happ, APc.pend])
        (cls_congr (t := t) _ (fun _ hne => setCl_cl_ne _ _ _ hne) (by simp [hpc, CPc.inWin]))
  | tick d =>
    simp only [step, Option.some.injEq] at hs; subst hs
    exact acct_frame h rfl rfl rfl rfl (fun _ => rfl)

/-- The accounting invariant holds in every reachable state. -/
theorem acct_reach {cfg : Cfg} {s : State} (h : Reach cfg s) : Acct cfg s :=
  Reach.induction (acct_init cfg) (fun _ _ _ hr hp hs => acct_step (handshake_reach hr) hp hs) h

end RV.Cache
