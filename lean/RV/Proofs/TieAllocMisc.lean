import RV.Proofs.TieAllocBase
import RV.Proofs.AllocMem
/-!
# The other functions of z/allocator.go, generated whole, against the model:
the bounds-check section of `Allocate`, `TrimTo`, `Size`, `Allocated`, `log2`, `NewAllocator`,
`AllocateAligned`.
-/
namespace RV.TieAlloc
open Gen.AM Gen.AllocM Gen.Alloc RV.Alloc

/-! ## `Allocate`, section `vpAllocAdded` (parse, bounds check, slice) -/

/-- what the bounds-check section did, read as the model's `Checked`; the chunk index of a slice
is taken from the observation `verifObserve(vpAllocDone, bufIdx, posIdx)` the section logged -/
def checkedOf : Res Allocator (Allocator × Allocate_Out) → Checked
  | .ok (_, .vpAllocBeforeLock _ b) => .beyond b
  | .ok (a', .ret r) =>
      match a'.log with
      | .obs _ b _ :: _ => .slice ⟨b.toNat, r.off, r.len⟩
      | _ => .panic
  | _ => .panic

theorem check_spec (a : Allocator) (hw : WfA a) (sz pos : W) :
    checkedOf (Allocate_vpAllocAdded a sz pos) = checkPos (chunksOf a) sz pos := by
  unfold Allocate_vpAllocAdded checkPos
  simp only [Gen.AllocM.parse, Gen.Alloc.parse, Res.lift, Res.bind, length_chunksOf, chunkLen_chunksOf]
  generalize pos >>> 32 = b
  generalize pos &&& 4294967295#64 = p
  obtain ⟨ho, hc, hl⟩ := hw.whole b.toNat
  unfold rd
  by_cases hb : b.toNat < a.buffers.size
  · have hnb : ¬ a.buffers.size ≤ b.toNat := by omega
    simp only [hb, hnb, if_true, if_false, allocBeyond, size_bufOfLen]
    by_cases hbey : (BitVec.ofNat 64 a.buffers[b.toNat]!.len).slt p = true
    · simp [hbey, checkedOf]
    · simp only [hbey, if_false, allocSliceLo, Bool.or_false, Bool.false_eq_true]
      generalize p - sz = lo
      have e3 : p.toInt ≤ (a.buffers[b.toNat]!.len : Int) := by
        have : ¬ (BitVec.ofNat 64 a.buffers[b.toNat]!.len).toInt < p.toInt := fun h => hbey ((slt_iff _ _).mpr h)
        rw [toInt_ofNat_small _ hl] at this
        omega
      by_cases hy : (0 ≤ lo.toInt ∧ lo.toInt ≤ p.toInt ∧ p.toInt ≤ (a.buffers[b.toNat]!.cap : Int))
      · rw [slice_ok _ _ _ _ hy]
        have h1 : ¬ (lo.slt 0#64 = true) := by rw [slt_iff]; simp; omega
        have h2 : ¬ (p.slt lo = true) := by rw [slt_iff]; omega
        simp only [h1, h2, checkedOf, Bool.or_false, Bool.false_eq_true, if_false, ho, Nat.zero_add]
        have := toNat_of_toInt_nonneg lo hy.1
        have := toNat_of_toInt_nonneg p (by omega)
        congr 2
        rw [BitVec.toNat_sub]; omega
      · rw [slice_panic _ _ _ _ hy]
        rw [hc] at hy
        have : (lo.slt 0#64 = true) ∨ (p.slt lo = true) := by
          rw [slt_iff, slt_iff]; simp; omega
        rcases this with h | h <;> simp [h, checkedOf]
  · have hnb : a.buffers.size ≤ b.toNat := by omega
    simp [hb, hnb, checkedOf]
/-! ## TrimTo -/

theorem trim_loop_spec (max : W) :
    ∀ (rem i : Nat) (a : Allocator) (alloc : W), i + rem = a.buffers.size → a.buffers.size < 2 ^ 64 →
      ∃ a' alloc', forRangeGo (TrimTo_loop1 max) rem i (a, alloc) = .ok (.done (a', alloc')) ∧
        chunksOf a' = (chunksOf a).take i ++ trimFrom max ((chunksOf a).drop i) alloc ∧
        a'.compIdx = a.compIdx ∧ a'.locked = a.locked ∧ a'.Ref = a.Ref ∧
        a'.buffers.size = a.buffers.size ∧ (WfA a → WfA a') := by
  intro rem
  induction rem with
  | zero =>
    intro i a alloc hi _
    refine ⟨a, alloc, rfl, ?_, rfl, rfl, rfl, rfl, id⟩
    have : (chunksOf a).length ≤ i := by rw [length_chunksOf]; omega
    rw [List.drop_eq_nil_of_le this, List.take_of_length_le this]
    simp [trimFrom]
  | succ rem ih =>
    intro i a alloc hi hn
    have hlt : i < a.buffers.size := by omega
    have hlt' : i < (chunksOf a).length := by rw [length_chunksOf]; exact hlt
    have hdrop : (chunksOf a).drop i = (a.buffers[i]!).len :: (chunksOf a).drop (i + 1) := by
      rw [List.drop_eq_getElem_cons hlt', chunksOf_getElem]
    unfold forRangeGo
    simp only [TrimTo_loop1]
    rw [rd_ok _ _ _ (by rw [ofNat_toNat_lt i (by omega)]; exact hlt), ofNat_toNat_lt i (by omega)]
    simp only [bind_ok]
    rw [hdrop]
    unfold trimFrom
    simp only [trimStop, trimKeep, size_bufOfLen]
    by_cases hs : (BitVec.ofNat 64 a.buffers[i]!.len == 0#64) = true
    · simp only [hs, if_true]
      refine ⟨a, alloc, rfl, ?_, rfl, rfl, rfl, rfl, id⟩
      rw [← hdrop, List.take_append_drop]
    · simp only [hs, if_false, Bool.false_eq_true]
      by_cases hk : (alloc + BitVec.ofNat 64 a.buffers[i]!.len).slt max = true
      · simp only [hk, if_true]
        obtain ⟨a', alloc', he, hc, h1, h2, h3, h4, h5⟩ := ih (i + 1) a (alloc + BitVec.ofNat 64 a.buffers[i]!.len) (by omega) hn
        refine ⟨a', alloc', he, ?_, h1, h2, h3, h4, h5⟩
        rw [hc, List.take_succ_eq_append_getElem hlt', chunksOf_getElem]
        simp
      · simp only [hk, if_false, Bool.false_eq_true]
        rw [wr_ok _ _ _ _ (by rw [ofNat_toNat_lt i (by omega)]; exact hlt), ofNat_toNat_lt i (by omega)]
        simp only [bind_ok]
        obtain ⟨a', alloc', he, hc, h1, h2, h3, h4, h5⟩ := ih (i + 1)
          { a with log := Eff.free a.buffers[i]! :: a.log, buffers := a.buffers.set! i Bytes.nil }
          (alloc + BitVec.ofNat 64 a.buffers[i]!.len) (by simp [Array.set!]; omega) (by simpa [Array.set!] using hn)
        refine ⟨a', alloc', he, ?_, h1, h2, h3, by simpa [Array.set!] using h4, ?_⟩
        · rw [hc]
          have hset : chunksOf { a with log := Eff.free a.buffers[i]! :: a.log, buffers := a.buffers.set! i Bytes.nil }
              = (chunksOf a).set i 0 := chunksOf_set { a with log := Eff.free a.buffers[i]! :: a.log } i Bytes.nil
          rw [hset, List.take_succ_eq_append_getElem (by simpa using hlt')]
          simp [List.take_set_of_le, List.drop_set_of_lt]
        · intro hw
          apply h5
          exact wfA_set (a := { a with log := Eff.free a.buffers[i]! :: a.log }) (wfA_congr hw rfl) i 0 (by decide)
theorem trimTo_spec (a : Allocator) (max : W) (hn : a.buffers.size < 2 ^ 64) :
    ∃ a', TrimTo a max = .ok (a', ()) ∧ chunksOf a' = trimTo max (chunksOf a) ∧
      a'.compIdx = a.compIdx ∧ a'.locked = a.locked ∧ a'.Ref = a.Ref ∧
      a'.buffers.size = a.buffers.size ∧ (WfA a → WfA a') := by
  obtain ⟨a', alloc', he, hc, h⟩ := trim_loop_spec max a.buffers.size 0 a 0#64 (by omega) hn
  refine ⟨a', ?_, ?_, h⟩
  · unfold TrimTo forRange
    simp only [he]; rfl
  · rw [hc]; simp [trimTo]
/-! ## Size, Allocated -/

/-- `s + Σ cs` in Go `int` arithmetic (wrapping) -/
def sumFrom (s : W) (cs : List Nat) : W := cs.foldl (fun s c => s + BitVec.ofNat 64 c) s

theorem slt_ofNat_iff (i : Nat) (b : W) (hi : i < 2 ^ 63) (hb : b.toNat < 2 ^ 63) :
    ((BitVec.ofNat 64 i).slt b = true) ↔ i < b.toNat := by
  rw [slt_iff, toInt_ofNat_small i hi, toInt_of_toNat_small b hb]
  omega

theorem size_loop_spec (a : Allocator) (hw : WfA a) (bi pi : W) (hbi : bi.toNat < 2 ^ 63) :
    ∀ (rem i : Nat) (sz : W), i + rem = a.buffers.size → i ≤ bi.toNat →
      (bi.toNat < a.buffers.size →
        forRangeGo (Size_loop1 a bi pi) rem i sz =
          .ok (.ret (a, sumFrom sz (((chunksOf a).take bi.toNat).drop i) + pi))) ∧
      (a.buffers.size ≤ bi.toNat → ∃ sz', forRangeGo (Size_loop1 a bi pi) rem i sz = .ok (.done sz')) := by
  intro rem
  induction rem with
  | zero =>
    intro i sz hi hle
    exact ⟨fun h => by omega, fun _ => ⟨sz, rfl⟩⟩
  | succ rem ih =>
    intro i sz hi hle
    have hn := hw.size_lt
    have hlt : i < a.buffers.size := by omega
    have hlt' : i < (chunksOf a).length := by rw [length_chunksOf]; exact hlt
    unfold forRangeGo
    simp only [Size_loop1]
    rw [rd_ok _ _ _ (by rw [ofNat_toNat_lt i (by omega)]; exact hlt), ofNat_toNat_lt i (by omega)]
    simp only [bind_ok]
    by_cases hc : (BitVec.ofNat 64 i).slt bi = true
    · have hib : i < bi.toNat := (slt_ofNat_iff i bi (by omega) hbi).mp hc
      simp only [hc, if_true]
      have := ih (i + 1) (sz + BitVec.ofNat 64 a.buffers[i]!.len) (by omega) (by omega)
      refine ⟨fun h => ?_, this.2⟩
      rw [this.1 h]
      have hd : ((chunksOf a).take bi.toNat).drop i = (a.buffers[i]!).len :: ((chunksOf a).take bi.toNat).drop (i + 1) := by
        have hl : i < ((chunksOf a).take bi.toNat).length := by simp; omega
        rw [List.drop_eq_getElem_cons hl]
        simp [chunksOf_getElem a i hlt']
      rw [hd]
      simp [sumFrom]
    · have hib : ¬ i < bi.toNat := fun h => hc ((slt_ofNat_iff i bi (by omega) hbi).mpr h)
      have hieq : i = bi.toNat := by omega
      simp only [hc, if_false, Bool.false_eq_true]
      refine ⟨fun _ => ?_, fun h => by omega⟩
      have : ((chunksOf a).take bi.toNat).drop i = [] := by
        apply List.drop_eq_nil_of_le; simp; omega
      rw [this]
      simp [sumFrom]

theorem size_spec (a : Allocator) (hw : WfA a) :
    Size a =
      if (Gen.Alloc.parse a.compIdx).1.toNat < a.buffers.size then
        .ok (a, sumFrom 0#64 ((chunksOf a).take (Gen.Alloc.parse a.compIdx).1.toNat) + (Gen.Alloc.parse a.compIdx).2)
      else .panic .user a := by
  have hbi : (Gen.Alloc.parse a.compIdx).1.toNat < 2 ^ 63 := by
    rw [parse_fst]; have := a.compIdx.isLt; omega
  have h := size_loop_spec a hw _ (Gen.Alloc.parse a.compIdx).2 hbi a.buffers.size 0 0#64 (by omega) (by omega)
  unfold Size forRange
  simp only [Gen.AllocM.parse, lift_ok, bind_ok]
  unfold Gen.Alloc.parse at h hbi ⊢
  simp only at h hbi ⊢
  split
  · rename_i hlt
    rw [h.1 hlt]
    simp
  · rename_i hge
    obtain ⟨sz', he⟩ := h.2 (by omega)
    rw [he]
    rfl

/-- `s + Σ cap` -/
def sumCaps (s : W) (bs : List Bytes) : W := bs.foldl (fun s b => s + BitVec.ofNat 64 b.cap) s

theorem allocated_loop_spec (a : Allocator) (hn : a.buffers.size < 2 ^ 64) :
    ∀ (rem i : Nat) (s : W), i + rem = a.buffers.size →
      forRangeGo (Allocated_loop1 a) rem i s = .ok (.done (sumCaps s (a.buffers.toList.drop i))) := by
  intro rem
  induction rem with
  | zero =>
    intro i s hi
    have : a.buffers.toList.drop i = [] := by apply List.drop_eq_nil_of_le; simp; omega
    rw [this]; rfl
  | succ rem ih =>
    intro i s hi
    have hlt : i < a.buffers.size := by omega
    unfold forRangeGo
    simp only [Allocated_loop1]
    rw [rd_ok _ _ _ (by rw [ofNat_toNat_lt i (by omega)]; exact hlt), ofNat_toNat_lt i (by omega)]
    simp only [bind_ok]
    rw [ih (i + 1) _ (by omega)]
    have hd : a.buffers.toList.drop i = a.buffers[i]! :: a.buffers.toList.drop (i + 1) := by
      rw [List.drop_eq_getElem_cons (by simpa using hlt)]
      simp [hlt]
    rw [hd]
    simp [sumCaps]

theorem allocated_spec (a : Allocator) (hn : a.buffers.size < 2 ^ 64) :
    Allocated a = .ok (a, sumCaps 0#64 a.buffers.toList) := by
  unfold Allocated forRange
  simp only [allocated_loop_spec a hn a.buffers.size 0 0#64 (by omega)]
  rfl
/-! ## log2, NewAllocator -/

theorem sshiftRight_one_toNat (x : W) (h : x.toNat < 2 ^ 63) :
    (BitVec.sshiftRight x 1).toNat = x.toNat / 2 := by
  rw [BitVec.sshiftRight_eq_of_msb_false]
  · simp [Nat.shiftRight_eq_div_pow]
  · rw [BitVec.msb_eq_decide]; simp; omega

theorem log2_loop_spec :
    ∀ (f : Nat) (sz pow : W) (g : Nat), sz.toNat < 2 ^ 63 → sz.toNat < 2 ^ f → f < g →
      ∃ sz', loop (σ := Unit) (ρ := W) (fun _ => ()) log2_loop1 g (sz, pow) = .ok (.done (sz', log2Loop f sz pow)) := by
  intro f
  induction f with
  | zero =>
    intro sz pow g h63 hf hg
    obtain ⟨g, rfl⟩ : ∃ g', g = g' + 1 := ⟨g - 1, by omega⟩
    have : sz = 0#64 := by apply BitVec.eq_of_toNat_eq; simp; omega
    subst this
    exact ⟨0#64, rfl⟩
  | succ f ih =>
    intro sz pow g h63 hf hg
    obtain ⟨g, rfl⟩ : ∃ g', g = g' + 1 := ⟨g - 1, by omega⟩
    unfold loop log2Loop
    simp only [log2_loop1, log2More]
    by_cases hm : (1#64).slt sz = true
    · simp only [hm, if_true]
      have e : (BitVec.ofNat 64 1).toNat = 1 := by decide
      rw [e]
      have hs := sshiftRight_one_toNat sz h63
      exact ih _ _ g (by omega) (by rw [hs]; omega) (by omega)
    · simp only [hm, if_false, Bool.false_eq_true]
      exact ⟨sz, rfl⟩

theorem sshiftRight_ten_toNat (x : W) (h : x.toNat < 2 ^ 63) :
    (BitVec.sshiftRight x 10).toNat = x.toNat / 1024 := by
  rw [BitVec.sshiftRight_eq_of_msb_false]
  · simp [Nat.shiftRight_eq_div_pow]
  · rw [BitVec.msb_eq_decide]; simp; omega

theorem log2_spec (sz : W) (fuel : Nat) (h : 0 ≤ sz.toInt) (hf : 65 ≤ fuel) :
    Gen.AllocM.log2 fuel log2Table sz = .ok (RV.Alloc.log2 sz) := by
  have h63 : sz.toNat < 2 ^ 63 := by
    have := toNat_of_toInt_nonneg sz h
    have := BitVec.toInt_lt (x := sz)
    omega
  unfold Gen.AllocM.log2 RV.Alloc.log2 log2InTable
  by_cases ht : sz.slt (BitVec.ofNat 64 log2Table.size) = true
  · simp only [ht, if_true]
    have hsz : log2Table.size = 1025 := by simp [log2Table]
    have : sz.toNat < log2Table.size := by
      rw [slt_iff, toInt_of_toNat_small sz h63, hsz] at ht
      rw [hsz]
      have : (BitVec.ofNat 64 1025).toInt = 1025 := by decide
      omega
    rw [rd_ok _ _ _ this]
    rfl
  · simp only [ht, if_false, Bool.false_eq_true]
    have e : (BitVec.ofNat 64 10).toNat = 10 := by decide
    rw [e]
    have hs := sshiftRight_ten_toNat sz h63
    obtain ⟨sz', he⟩ := log2_loop_spec 64 (BitVec.sshiftRight sz 10) 10#64 fuel (by omega) (by omega) (by omega)
    simp only [he]
    rfl

theorem log2_negative (sz : W) (fuel : Nat) (tbl : Array W) (h : sz.toInt < 0) (ht : tbl.size < 2 ^ 63) :
    Gen.AllocM.log2 fuel tbl sz = .panic .bounds () := by
  unfold Gen.AllocM.log2
  have : sz.slt (BitVec.ofNat 64 tbl.size) = true := by
    rw [slt_iff, toInt_ofNat_small _ ht]; omega
  simp only [this, if_true]
  rw [rd_panic]
  · rfl
  · rw [BitVec.toInt_eq_toNat_cond] at h
    split at h <;> omega
theorem wfA_nil (k : Nat) (r : W) (hk : k < 2 ^ 63) :
    WfA { buffers := Array.replicate k Bytes.nil, Ref := r } := by
  constructor
  · simpa using hk
  · intro i
    rw [getElem!_def]
    by_cases hi : i < k
    · simp [hi, Bytes.nil]
    · simp [hi, default_bytes]

theorem onesCount_gt (x : W) : ((1#64).slt (onesCount64 x) = true) ↔ popCount x > 1 := by
  unfold onesCount64 popCount
  have hle : (List.countP (fun i => x.getLsbD i) (List.range 64)) ≤ 64 := by
    have := List.countP_le_length (p := fun i => x.getLsbD i) (l := List.range 64)
    simpa using this
  rw [slt_iff, toInt_ofNat_small (List.countP (fun i => x.getLsbD i) (List.range 64)) (by omega)]
  have : (1#64 : W).toInt = 1 := by decide
  rw [this]
  omega

theorem newAllocator_spec (sz allocRef : W) (fuel n : Nat) (hf : 65 ≤ fuel) (hc : chunk0Len sz < 2 ^ 63) :
    ∃ a, NewAllocator fuel allocRef log2Table sz = .ok a ∧
      chunksOf a = (RV.Alloc.newAllocator sz n).chunks ∧ a.compIdx = (RV.Alloc.newAllocator sz n).compIdx ∧
      a.locked = false ∧ a.log = [] ∧ a.Ref = allocRef + 1#64 ∧ WfA a := by
  unfold NewAllocator
  unfold chunk0Len newTooSmall newChunkLen at hc
  simp only at hc
  have hnn : 0 ≤ (if sz.slt 512#64 = true then 512#64 else sz).toInt := by
    split
    · decide
    · rename_i h
      have : ¬ sz.toInt < (512#64 : W).toInt := fun h' => h ((slt_iff _ _).mpr h')
      have e : (512#64 : W).toInt = 512 := by decide
      omega
  have hms : makeSlots () (64#64 : W) = .ok (Array.replicate 64 Bytes.nil) := by
    unfold makeSlots; rfl
  simp only [hms, bind_ok, log2_spec _ fuel hnn hf]
  generalize hsz' : (if sz.slt 512#64 = true then 512#64 else sz) = sz' at *
  have hl2 : (if (1#64).slt (onesCount64 sz') = true then RV.Alloc.log2 sz' + 1#64 else RV.Alloc.log2 sz') =
      (if popCount sz' > 1 then RV.Alloc.log2 sz' + 1#64 else RV.Alloc.log2 sz') := by
    by_cases h : popCount sz' > 1
    · rw [if_pos ((onesCount_gt sz').mpr h), if_pos h]
    · rw [if_neg (fun h' => h ((onesCount_gt sz').mp h')), if_neg h]
  rw [hl2]
  generalize hl : (if popCount sz' > 1 then RV.Alloc.log2 sz' + 1#64 else RV.Alloc.log2 sz') = l2 at *
  have hcal : calloc () (1#64 <<< l2.toNat) = .ok ⟨0, (1#64 <<< l2.toNat).toNat, (1#64 <<< l2.toNat).toNat⟩ := by
    unfold calloc
    rw [if_neg]
    rw [toInt_of_toNat_small _ hc]; omega
  rw [hcal]
  simp only [bind_ok]
  have hwr : wr () (Array.replicate 64 Bytes.nil) 0#64 ⟨0, (1#64 <<< l2.toNat).toNat, (1#64 <<< l2.toNat).toNat⟩ =
      .ok ((Array.replicate 64 Bytes.nil).set! 0 ⟨0, (1#64 <<< l2.toNat).toNat, (1#64 <<< l2.toNat).toNat⟩) := by
    rw [wr_ok]; rfl; simp
  simp only [hwr, bind_ok]
  refine ⟨_, rfl, ?_, rfl, rfl, rfl, rfl, ?_⟩
  · subst hl; subst hsz'
    simp only [RV.Alloc.newAllocator, RV.Alloc.init, chunk0Len, newTooSmall, newChunkLen, numSlots]
    simp [chunksOf, Array.set!, Bytes.nil]
    congr
  · exact wfA_set (a := { buffers := Array.replicate 64 Bytes.nil, Ref := allocRef + 1#64 }) (wfA_nil 64 _ (by decide)) 0 _ hc
/-! ## AllocateAligned -/

theorem aligned_entry_spec (a : Allocator) (sz : W) :
    AllocateAligned_entry a sz = .ok (a, .call_Allocate (alignedTotal sz) sz) := rfl

theorem aligned_after_spec (a : Allocator) (sz base : W) (r : Region) (out : Bytes)
    (ho : out.off = r.off) (hl : out.len = r.len) (hcap : out.len ≤ out.cap)
    (hlen : r.len = sz.toNat + 7) (haddr : base.toNat + r.off + r.len < 2 ^ 64) (hsz : sz.toNat < 2 ^ 62) :
    ∃ res, AllocateAligned_after_Allocate a sz out base =
        .ok ({ a with log := .zeroOut out 0#64 (BitVec.ofNat 64 out.len) :: a.log }, .ret res) ∧
      (⟨r.chunk, res.off, res.len⟩ : Region) = alignedSub base r sz := by
  obtain ⟨_, _, s3, s4, s5⟩ := alignedSub_spec base r sz hlen haddr
  unfold AllocateAligned_after_Allocate addrOf
  have h0 : (0#64 : W).toNat < out.len := by rw [hl, hlen]; simp
  simp only [h0, if_true, bind_ok]
  have e0 : out.off + (0#64 : W).toNat = r.off := by rw [ho]; simp
  rw [e0]
  unfold alignedSub at s3 s4 s5 ⊢
  simp only [alignedAddr, alignedStart, alignedEnd] at s3 s4 s5 ⊢
  generalize hst : ((base + BitVec.ofNat 64 r.off + 7#64) &&& 18446744073709551608#64) - (base + BitVec.ofNat 64 r.off) = start at *
  have hs7 : start.toNat ≤ 7 := by omega
  have hadd : (start + sz).toNat = start.toNat + sz.toNat := by
    rw [BitVec.toNat_add]; omega
  have hy : 0 ≤ start.toInt ∧ start.toInt ≤ (start + sz).toInt ∧ (start + sz).toInt ≤ (out.cap : Int) := by
    rw [toInt_of_toNat_small start (by omega), toInt_of_toNat_small (start + sz) (by omega), hadd]
    omega
  rw [slice_ok _ _ _ _ hy]
  refine ⟨_, rfl, ?_⟩
  simp only [ho, hadd, s5]
  congr 1
  omega
end RV.TieAlloc
