import RV.Proofs.TieTreeWrite
import RV.Proofs.TreeSet
/-!
# `Tree.set` without a split: the structural side

`SetPath cfg k v n`: on the way of key `k` down from `n` every inner node has a routing entry with a
child page for `k`, the leaf has room (it is not full afterwards), no node on the way is full — so
`Tree.set` neither creates a child nor splits anything; exactly one leaf page changes.
`setPathNode` is the tree afterwards; under `SetPath` the structural model's `setNode` computes it
(`setNode_path`) without touching the allocator.
-/
namespace RV.TreeFlat
open RV.Tree RV.NodeFlat Gen.TreeM

mutual
def SetPath (cfg : Cfg) (k : Key) (v : Val) : Node → Prop
  | .null => False
  | .leaf _ es => ∃ es' added, nodeSet cfg.maxKeys es k v = some (es', added) ∧ es'.length < cfg.maxKeys
  | .inner _ es => es.length < cfg.maxKeys ∧ SetPathEnts cfg k v es
def SetPathEnts (cfg : Cfg) (k : Key) (v : Val) : List (Key × Node) → Prop
  | [] => False
  | (ki, c) :: rest =>
    (Gen.Tree.searchHit ki k = true → ki ≠ 0#64 ∧ SetPath cfg k v c) ∧
    (Gen.Tree.searchHit ki k = false → SetPathEnts cfg k v rest)
end

mutual
/-- the tree after `Tree.set(k, v)` on the no-split path, and `numAdded` -/
def setPathNode (mk : Nat) (k : Key) (v : Val) : Node → Node × Nat
  | .null => (.null, 0)
  | .leaf p es =>
    match nodeSet mk es k v with
    | some (es', added) => (.leaf p es', added)
    | none => (.leaf p es, 0)
  | .inner p es => (.inner p (setPathEnts mk k v es).1, (setPathEnts mk k v es).2)
def setPathEnts (mk : Nat) (k : Key) (v : Val) : List (Key × Node) → List (Key × Node) × Nat
  | [] => ([], 0)
  | (ki, c) :: rest =>
    if Gen.Tree.searchHit ki k then ((ki, (setPathNode mk k v c).1) :: rest, (setPathNode mk k v c).2)
    else ((ki, c) :: (setPathEnts mk k v rest).1, (setPathEnts mk k v rest).2)
end

mutual
theorem setPathNode_pid (mk : Nat) (k : Key) (v : Val) : ∀ n : Node, (setPathNode mk k v n).1.pid = n.pid
  | .null => rfl
  | .leaf p es => by
    rw [setPathNode]; cases nodeSet mk es k v with
    | none => rfl
    | some r => rfl
  | .inner p es => by rw [setPathNode]; rfl
end

theorem setPathEnts_length (mk : Nat) (k : Key) (v : Val) : ∀ es : List (Key × Node),
    (setPathEnts mk k v es).1.length = es.length
  | [] => rfl
  | (ki, c) :: rest => by
    rw [setPathEnts]
    by_cases h : Gen.Tree.searchHit ki k = true
    · simp [h]
    · simp [h, setPathEnts_length mk k v rest]

/-- the value words of an inner node do not change: the child keeps its page -/
theorem setPathEnts_words (mk : Nat) (k : Key) (v : Val) : ∀ es : List (Key × Node),
    entWords (setPathEnts mk k v es).1 = entWords es
  | [] => rfl
  | (ki, c) :: rest => by
    rw [setPathEnts]
    by_cases h : Gen.Tree.searchHit ki k = true
    · simp [h, entWords, childWord, setPathNode_pid]
    · simp [h, entWords, setPathEnts_words mk k v rest]

theorem setPathEnts_search (cfg : Cfg) (k : Key) (v : Val) : ∀ es : List (Key × Node),
    SetPathEnts cfg k v es → search es k < es.length
  | [], h => by rw [SetPathEnts] at h; exact h.elim
  | (ki, c) :: rest, h => by
    rw [SetPathEnts] at h
    rw [search]
    by_cases hh : Gen.Tree.searchHit ki k = true
    · simp [hh]
    · have := setPathEnts_search cfg k v rest (h.2 (by simpa using hh))
      simp [hh]; omega

/-- by index: the entry `search es k` is the one that is replaced -/
theorem setPathEnts_index (cfg : Cfg) (k : Key) (v : Val) : ∀ es : List (Key × Node),
    SetPathEnts cfg k v es →
    ∃ e, es[search es k]? = some e ∧ e.1 ≠ 0#64 ∧ SetPath cfg k v e.2 ∧
      (setPathEnts cfg.maxKeys k v es).1 = es.set (search es k) (e.1, (setPathNode cfg.maxKeys k v e.2).1) ∧
      (setPathEnts cfg.maxKeys k v es).2 = (setPathNode cfg.maxKeys k v e.2).2
  | [], h => by rw [SetPathEnts] at h; exact h.elim
  | (ki, c) :: rest, h => by
    rw [SetPathEnts] at h
    rw [search, setPathEnts]
    by_cases hh : Gen.Tree.searchHit ki k = true
    · obtain ⟨h1, h2⟩ := h.1 hh
      exact ⟨(ki, c), by simp [hh], h1, h2, by simp [hh], by simp [hh]⟩
    · obtain ⟨e, he, h1, h2, h3, h4⟩ := setPathEnts_index cfg k v rest (h.2 (by simpa using hh))
      refine ⟨e, by simp [hh, he], h1, h2, ?_, ?_⟩
      · simp [hh, h3]
      · simp [hh, h4]

/-! ## the structural model computes it -/

mutual
theorem setNode_path (cfg : Cfg) (hmk : cfg.maxKeys < 2 ^ 31) (k : Key) (v : Val) : ∀ (n : Node) (a : Alloc),
    SetPath cfg k v n →
    setNode cfg n k v a = ((setPathNode cfg.maxKeys k v n).1,
      { a with leafKeys := a.leafKeys + ((setPathNode cfg.maxKeys k v n).2 : Nat) }) ∧
    (setPathNode cfg.maxKeys k v n).1.len < cfg.maxKeys
  | .null, _, h => by rw [SetPath] at h; exact h.elim
  | .leaf p es, a, h => by
    rw [SetPath] at h
    obtain ⟨es', added, h1, h2⟩ := h
    rw [setNode, leafSet, setPathNode, h1]
    exact ⟨rfl, h2⟩
  | .inner p es, a, h => by
    rw [SetPath] at h
    obtain ⟨hlen, hpe⟩ := h
    have hs := setPathEnts_search cfg k v es hpe
    obtain ⟨h1, h2⟩ := setEnts_path cfg hmk k v es a hpe
    rw [setNode, setPathNode]
    have hnp : Gen.Tree.setIdxPanic (w (search es k)) (w cfg.maxKeys) = false := by
      unfold Gen.Tree.setIdxPanic
      rw [w_sle (by omega) (by omega)]; simp; omega
    rw [hnp, h1]
    simp only [Bool.false_eq_true, if_false]
    have hl : (Node.inner p (setPathEnts cfg.maxKeys k v es).1).len < cfg.maxKeys := by
      simp only [Node.len]; omega
    first | exact ⟨rfl, hl⟩ | exact ⟨trivial, hl⟩
theorem setEnts_path (cfg : Cfg) (hmk : cfg.maxKeys < 2 ^ 31) (k : Key) (v : Val) :
    ∀ (es : List (Key × Node)) (a : Alloc), SetPathEnts cfg k v es →
    setEnts cfg es k v a = ((setPathEnts cfg.maxKeys k v es).1,
      { a with leafKeys := a.leafKeys + ((setPathEnts cfg.maxKeys k v es).2 : Nat) }, none) ∧
    (setPathEnts cfg.maxKeys k v es).1.length = es.length
  | [], _, h => by rw [SetPathEnts] at h; exact h.elim
  | (ki, c) :: rest, a, h => by
    rw [SetPathEnts] at h
    refine ⟨?_, setPathEnts_length _ _ _ _⟩
    by_cases hh : Gen.Tree.searchHit ki k = true
    · obtain ⟨hk0, hc⟩ := h.1 hh
      obtain ⟨h1, h2⟩ := setNode_path cfg hmk k v c a hc
      have hse : Gen.Tree.setSlotEmpty ki = false := by
        unfold Gen.Tree.setSlotEmpty; simpa using hk0
      have hnf : Node.isFull cfg (setPathNode cfg.maxKeys k v c).1 = false := by
        rw [Node.isFull_eq cfg _ (by omega) (by omega)]; simp; omega
      cases c with
      | null => rw [SetPath] at hc; exact hc.elim
      | leaf q ces =>
        rw [setEnts, setPathEnts]
        · simp only [hh, if_true, hse, Bool.false_eq_true, if_false, h1, afterChild, hnf]
        · intro hcn; cases hcn
      | inner q ces =>
        rw [setEnts, setPathEnts]
        · simp only [hh, if_true, hse, Bool.false_eq_true, if_false, h1, afterChild, hnf]
        · intro hcn; cases hcn
    · have hh' : Gen.Tree.searchHit ki k = false := by simpa using hh
      obtain ⟨h1, _⟩ := setEnts_path cfg hmk k v rest a (h.2 hh')
      cases c with
      | null =>
        rw [setEnts, setPathEnts]
        simp only [hh', Bool.false_eq_true, if_false, h1]
      | leaf q ces =>
        rw [setEnts, setPathEnts]
        · simp only [hh', Bool.false_eq_true, if_false, h1]
        · intro hcn; cases hcn
      | inner q ces =>
        rw [setEnts, setPathEnts]
        · simp only [hh', Bool.false_eq_true, if_false, h1]
        · intro hcn; cases hcn
end

end RV.TreeFlat
