import RV.Proofs.AllocReplay
/-!
Allocator (C12): a sufficient condition for `NoCarry` in terms of the number of
goroutines and the request sizes.
-/
namespace RV.Alloc
open Gen.Alloc

/-! ## A sufficient condition for `NoCarry` -/

/-- Bytes a goroutine has added to the offset of chunk `b` that will be thrown away: it is
beyond every possible chunk (`M` bounds all chunk lengths) or already waits for the mutex. -/
def pendB (M b : Nat) (th : Thread) : Nat :=
  match th.pc with
  | .added sz pos => if (parse pos).1.toNat = b ∧ M < (parse pos).2.toNat then sz.toNat else 0
  | .needGrow sz c => if c.toNat = b then sz.toNat else 0
  | _ => 0

def pendSum (M : Nat) (s : State) : Nat := (s.threads.map (pendB M (B s))).sum

def szOf (th : Thread) : Nat :=
  match th.pc with
  | .toAdd sz => sz.toNat
  | .added sz _ => sz.toNat
  | .needGrow sz _ => sz.toNat
  | _ => 0

theorem pendB_le_szOf (M b : Nat) (th : Thread) : pendB M b th ≤ szOf th := by
  unfold pendB szOf
  cases th.pc with
  | added sz pos => simp only; split <;> omega
  | needGrow sz c => simp only; split <;> omega
  | idle => simp
  | toAdd sz => simp
  | panicked k => simp
  | hung => simp

structure Quant (M S : Nat) (s : State) : Prop where
  chunkLe : ∀ c ∈ s.chunks, c ≤ M
  sizes : ∀ (t : Nat) (th : Thread), s.threads[t]? = some th → szOf th ≤ S
  bound : s.lockHeld = false → P s ≤ M + pendSum M s

theorem sum_map_set {α : Type} (f : α → Nat) (l : List α) (t : Nat) (x : α) (ht : t < l.length) :
    ((l.set t x).map f).sum + f l[t] = (l.map f).sum + f x := by
  induction l generalizing t with
  | nil => simp at ht
  | cons a l ih =>
    cases t with
    | zero => simp; omega
    | succ t =>
      simp only [List.set_cons_succ, List.map_cons, List.sum_cons, List.getElem_cons_succ]
      have := ih t (by simpa using ht)
      omega

theorem sum_le_of_zero {α : Type} (f : α → Nat) (l : List α) (t : Nat) (S : Nat) (ht : t < l.length)
    (h0 : f l[t] = 0) (hle : ∀ x ∈ l, f x ≤ S) : (l.map f).sum ≤ (l.length - 1) * S := by
  induction l generalizing t with
  | nil => simp at ht
  | cons a l ih =>
    have hall : ∀ (l' : List α), (∀ x ∈ l', f x ≤ S) → (l'.map f).sum ≤ l'.length * S := by
      intro l' h'
      induction l' with
      | nil => simp
      | cons b l' ih' =>
        simp only [List.map_cons, List.sum_cons, List.length_cons]
        have := ih' (fun x hx => h' x (List.mem_cons_of_mem _ hx))
        have := h' b (List.mem_cons_self ..)
        rw [Nat.add_mul]; omega
    cases t with
    | zero =>
      simp only [List.getElem_cons_zero] at h0
      simp only [List.map_cons, List.sum_cons, h0, List.length_cons, Nat.add_sub_cancel, Nat.zero_add]
      exact hall l (fun x hx => hle x (List.mem_cons_of_mem _ hx))
    | succ t =>
      simp only [List.getElem_cons_succ] at h0
      have h1 := ih t (by simpa using ht) h0 (fun x hx => hle x (List.mem_cons_of_mem _ hx))
      have h2 := hle a (List.mem_cons_self ..)
      simp only [List.map_cons, List.sum_cons, List.length_cons, Nat.add_sub_cancel]
      have hl : 1 ≤ l.length := by simp at ht; omega
      have : l.length * S = (l.length - 1) * S + S := by
        rw [← Nat.succ_mul]; congr 1; omega
      omega

theorem getElem_of_getElem? {l : List Thread} {t : Nat} {th : Thread} (h : l[t]? = some th) :
    ∃ ht : t < l.length, l[t] = th := by
  obtain ⟨ht, he⟩ := List.getElem?_eq_some_iff.mp h
  exact ⟨ht, he⟩

/-- How the sum changes when one thread is replaced and the chunk index stays. -/
theorem pendSum_set {M : Nat} {s s' : State} {t : Nat} {th x : Thread} (hth : s.threads[t]? = some th)
    (hT : s'.threads = s.threads.set t x) (hB : B s' = B s) :
    pendSum M s' + pendB M (B s) th = pendSum M s + pendB M (B s) x := by
  obtain ⟨ht, he⟩ := getElem_of_getElem? hth
  unfold pendSum
  rw [hT, hB, ← he]
  exact sum_map_set _ _ _ _ ht

theorem noCarry_of_quant {M S n : Nat} {s : State} (hQ : Quant M S s) (hlen : s.threads.length = n)
    (hb : M + n * S < 2 ^ 32) (hl : s.lockHeld = false) (a : Action) : NoCarry s a := by
  cases a with
  | add t =>
    intro th sz hth hpc
    obtain ⟨ht, he⟩ := getElem_of_getElem? hth
    have hsz : sz.toNat ≤ S := by
      have := hQ.sizes t th hth
      simpa [szOf, hpc] using this
    have h0 : pendB M (B s) s.threads[t] = 0 := by rw [he]; simp [pendB, hpc]
    have hsum := sum_le_of_zero (pendB M (B s)) s.threads t S ht h0 (by
      intro x hx
      obtain ⟨i, hi, hxi⟩ := List.getElem_of_mem hx
      have := hQ.sizes i x (by rw [List.getElem?_eq_getElem hi, hxi])
      exact Nat.le_trans (pendB_le_szOf _ _ _) this)
    have hbound := hQ.bound hl
    unfold pendSum at hbound
    show (pi s).toNat + sz.toNat < 2 ^ 32
    have hP : (pi s).toNat = P s := rfl
    rw [hP, hlen] at *
    have hn : 1 ≤ n := by omega
    have : n * S = (n - 1) * S + S := by
      rw [← Nat.succ_mul]; congr 1; omega
    omega
  | start t op => trivial
  | check t => trivial
  | grow t => trivial
  | reset => trivial
  | trim mx => trivial


/-- Requests are at most `S` bytes (non-negative Go ints). -/
def GoodStart (S : Nat) : Action → Prop
  | .start _ op => op.inner.toNat ≤ S
  | _ => True

theorem chunkLen_le {cs : List Nat} {M : Nat} (h : ∀ c ∈ cs, c ≤ M) (i : Nat) : chunkLen cs i ≤ M := by
  unfold chunkLen
  rw [List.getD_eq_getElem?_getD]
  cases hi : cs[i]? with
  | none => simp
  | some c => simpa using h c (List.mem_of_getElem? hi)

theorem pageSizeFor_le {prev : Nat} {m p : W} (h : pageSizeFor prev m = some p)
    (hm0 : 0 < m.toNat) (hm : m.toNat < 2 ^ 63) : p.toNat ≤ 2 ^ 30 := by
  simp only [pageSizeFor] at h
  split at h
  · exact absurd h (by simp)
  · rename_i q hq
    simp only [Option.some.injEq] at h
    have h1 := not_slt_pos (doubleUntil_some hq) hm0 hm
    split at h
    · subst h; simp [maxAlloc]
    · rename_i ho
      subst h
      simp only [growOverMax] at ho
      rw [slt_small _ _ (by decide) h1.1] at ho
      simpa using ho

theorem addBufferAt_le {cs cs' : List Nat} {i m : W} {M : Nat} (h : addBufferAt cs i m = .ok cs')
    (hle : ∀ c ∈ cs, c ≤ M) (hM : 2 ^ 30 ≤ M) (hm0 : 0 < m.toNat) (hm : m.toNat < 2 ^ 63) :
    ∀ c ∈ cs', c ≤ M := by
  simp only [addBufferAt] at h
  split at h
  · exact absurd h (by simp)
  · simp only [GrowRes.ok.injEq] at h; subst h; exact hle
  · split at h
    · exact absurd h (by simp)
    · rename_i p hp
      simp only [GrowRes.ok.injEq] at h
      subst h
      intro c hc
      rcases List.mem_or_eq_of_mem_set hc with h1 | h1
      · exact hle c h1
      · have := pageSizeFor_le hp hm0 hm; omega

theorem quant_setThread {M S : Nat} {s s' : State} {t : Nat} {th x : Thread} (hQ : Quant M S s)
    (hth : s.threads[t]? = some th) (hT : s'.threads = s.threads.set t x) (hc : s'.chunks = s.chunks)
    (hw : s'.compIdx = s.compIdx) (hx : szOf x ≤ S) (hlk : s'.lockHeld = false → s.lockHeld = false)
    (hp : pendB M (B s) th ≤ pendB M (B s) x) : Quant M S s' := by
  have hB : B s' = B s := by rw [B_def, B_def, hw]
  have hP : P s' = P s := by rw [P_def, P_def, hw]
  refine ⟨by rw [hc]; exact hQ.chunkLe, ?_, ?_⟩
  · intro u uh hu
    rw [hT] at hu
    rcases get_set hu with ⟨_, rfl⟩ | ⟨_, hu'⟩
    · exact hx
    · exact hQ.sizes u uh hu'
  · intro hl
    have h1 := hQ.bound (hlk hl)
    have h2 := pendSum_set (M := M) hth hT hB
    rw [hP]; omega

theorem quant_step {M S : Nat} {s s' : State} {a : Action} (hI : Inv s) (hQ : Quant M S s)
    (hM : 2 ^ 30 ≤ M) (hG : GoodStart S a) (hN : NoCarry s a) (h : step s a = some s') :
    Quant M S s' := by
  cases a with
  | start t op =>
    obtain ⟨th, hth, hpc, h1 | h1 | h1⟩ := step_start h
    · obtain ⟨_, rfl⟩ := h1; exact hQ
    · obtain ⟨_, _, rfl⟩ := h1; exact hQ
    · obtain ⟨_, _, rfl⟩ := h1
      refine quant_setThread hQ hth rfl rfl rfl ?_ id ?_
      · simpa [szOf, GoodStart] using hG
      · simp [pendB, hpc]
  | add t =>
    obtain ⟨th, sz, hth, hpc, hs'⟩ := step_add h
    have hnc : P s + sz.toNat < 4294967296 := by
      have := hN th sz hth hpc
      simpa [P] using this
    have hpar := add_parse s.compIdx sz (by rw [← P_def]; exact hnc)
    have hw : s'.compIdx = s.compIdx + sz := by rw [hs', addend_eq]
    have hT : s'.threads = s.threads.set t { th with pc := .added sz (s.compIdx + sz) } := by
      rw [hs', addend_eq]
    have hc : s'.chunks = s.chunks := by rw [hs']
    have hlk : s'.lockHeld = s.lockHeld := by rw [hs']
    have hB : B s' = B s := by rw [B_def, B_def, hw, ← parse_fst]; exact hpar.1
    have hP : P s' = P s + sz.toNat := by rw [P_def, P_def, hw, ← parse_snd]; exact hpar.2
    have hszS : sz.toNat ≤ S := by
      have := hQ.sizes t th hth
      simpa [szOf, hpc] using this
    refine ⟨by rw [hc]; exact hQ.chunkLe, ?_, ?_⟩
    · intro u uh hu
      rw [hT] at hu
      rcases get_set hu with ⟨_, rfl⟩ | ⟨_, hu'⟩
      · simpa [szOf] using hszS
      · exact hQ.sizes u uh hu'
    · intro hl
      have h1 := hQ.bound (by rw [← hlk]; exact hl)
      have h2 := pendSum_set (M := M) hth hT hB
      have h3 : pendB M (B s) th = 0 := by simp [pendB, hpc]
      have h4 : pendB M (B s) { th with pc := .added sz (s.compIdx + sz) } =
          if M < P s + sz.toNat then sz.toNat else 0 := by
        simp only [pendB, hpar.1, hpar.2, ← B_def, ← P_def, true_and]
      rw [hP]
      rw [h3, h4] at h2
      split at h2 <;> omega
  | check t =>
    obtain ⟨th, sz, pos, hth, hpc, h1 | h1 | h1⟩ := step_check h
    · obtain ⟨b, hb, rfl⟩ := h1
      have hbe := checkPos_beyond hb
      refine quant_setThread hQ hth rfl rfl rfl ?_ id ?_
      · have := hQ.sizes t th hth
        simpa [szOf, hpc] using this
      · simp only [pendB, hpc, hbe]
        split <;> split <;> simp_all
    · obtain ⟨hpanic, _⟩ := h1
      obtain ⟨_, _, a3, a4, _⟩ := hI.added t th sz pos hth hpc
      have := hI.biLt
      exact absurd hpanic (checkPos_no_panic (by omega) a4 hI.chunkLt)
    · obtain ⟨r, hr, hs'⟩ := h1
      obtain ⟨_, _, a3, a4, _⟩ := hI.added t th sz pos hth hpc
      obtain ⟨_, hin⟩ := checkPos_slice hr a4 hI.chunkLt
      have hle := chunkLen_le hQ.chunkLe (parse pos).1.toNat
      refine quant_setThread (x := {}) hQ hth (by rw [hs']) (by rw [hs']) (by rw [hs']) (by simp [szOf])
        (by rw [hs']; exact id) ?_
      have : ¬ M < (parse pos).2.toNat := by omega
      simp [pendB, hpc, this]
  | grow t =>
    obtain ⟨hl0, th, sz, b, hth, hpc, h1 | h1 | h1 | h1⟩ := step_grow h
    · obtain ⟨hm, rfl⟩ := h1
      refine quant_setThread hQ hth rfl rfl rfl ?_ id ?_
      · have := hQ.sizes t th hth
        simpa [szOf, hpc] using this
      · have hne : b.toNat ≠ B s := by
          intro e
          have : bi s = b := BitVec.eq_of_toNat_eq (by rw [e]; rfl)
          simp [allocMoved, this] at hm
        simp [pendB, hpc, hne]
    · obtain ⟨_, _, hs'⟩ := h1
      refine ⟨by rw [hs']; exact hQ.chunkLe, ?_, by rw [hs']; intro h; simp at h⟩
      intro u uh hu
      rw [hs'] at hu
      rcases get_set hu with ⟨_, rfl⟩ | ⟨_, hu'⟩
      · simp [szOf]
      · exact hQ.sizes u uh hu'
    · obtain ⟨_, _, hs'⟩ := h1
      refine ⟨by rw [hs']; exact hQ.chunkLe, ?_, by rw [hs']; intro h; simp at h⟩
      intro u uh hu
      rw [hs'] at hu
      rcases get_set hu with ⟨_, rfl⟩ | ⟨_, hu'⟩
      · simp [szOf]
      · exact hQ.sizes u uh hu'
    · obtain ⟨cs, hm, hadd, hs'⟩ := h1
      obtain ⟨g1, g2, g3, g4⟩ := hI.needGrow t th sz b hth hpc
      have hb : bi s = b := moved_false hm
      have hbB : b.toNat = B s := by rw [← hb]; rfl
      have hBlt := hI.biLt
      have hlen := hI.lenLt
      have hst := store_parse b (by omega)
      have hP : P s' = 0 := by rw [hs', P_def, ← parse_snd]; exact hst.2
      refine ⟨?_, ?_, fun _ => by rw [hP]; omega⟩
      · rw [hs']; exact addBufferAt_le hadd hQ.chunkLe hM g1 (by omega)
      · intro u uh hu
        rw [hs'] at hu
        rcases get_set hu with ⟨_, rfl⟩ | ⟨_, hu'⟩
        · have := hQ.sizes t th hth
          simpa [szOf, hpc] using this
        · exact hQ.sizes u uh hu'
  | reset =>
    obtain ⟨_, rfl⟩ := step_reset h
    refine ⟨hQ.chunkLe, hQ.sizes, fun _ => ?_⟩
    have : P { s with compIdx := 0#64, grants := [] } = 0 := by simp [P_def]
    rw [this]; omega
  | trim mx =>
    obtain ⟨_, hs'⟩ := step_trim h
    refine ⟨?_, by rw [hs']; exact hQ.sizes, ?_⟩
    · rw [hs']
      intro c hc
      rcases trimFrom_mem hc with h0 | h0
      · omega
      · exact hQ.chunkLe c h0
    · intro hl
      have h1 := hQ.bound (by rw [hs'] at hl; exact hl)
      have hB : B s' = B s := by rw [hs']; rfl
      have hP : P s' = P s := by rw [hs']; rfl
      have hS : pendSum M s' = pendSum M s := by unfold pendSum; rw [hB, hs']
      rw [hP, hS]; exact h1


/-- Runs in which every request is at most `S` bytes and steps are only taken while nobody
has died inside the critical section. -/
inductive ReachOK (S : Nat) (s0 : State) : State → Prop where
  | init : ReachOK S s0 s0
  | step {s s' : State} (a : Action) : ReachOK S s0 s → s.lockHeld = false → GoodStart S a →
      step s a = some s' → ReachOK S s0 s'

theorem quant_init (c0 n M S : Nat) (hc : c0 ≤ M) : Quant M S (init c0 n) := by
  refine ⟨?_, ?_, ?_⟩
  · intro c hc'
    simp only [init, List.mem_cons, List.mem_replicate] at hc'
    omega
  · intro t th ht
    have := List.mem_of_getElem? ht
    simp only [init, List.mem_replicate] at this
    rw [this.2]; simp [szOf]
  · intro _
    have : P (init c0 n) = 0 := by simp [P_def, init]
    rw [this]; omega

/-- With `n` goroutines, requests of at most `S` bytes and chunks of at most `M` bytes
(`M ≥ maxAlloc`, first chunk `≤ M`), `M + n·S < 2^32` rules out every carry. -/
theorem nowrap_sufficient {c0 n M S : Nat} (hc : c0 ≤ M) (hM : 2 ^ 30 ≤ M) (hb : M + n * S < 2 ^ 32)
    {s : State} (h : ReachOK S (init c0 n) s) :
    ReachNW (init c0 n) s ∧ Inv s ∧ Quant M S s ∧ s.threads.length = n := by
  induction h with
  | init =>
    exact ⟨ReachNW.init, inv_init c0 n (by omega), quant_init c0 n M S hc, by simp [init]⟩
  | step a _ hl hG hs ih =>
    obtain ⟨r, hI, hQ, hlen⟩ := ih
    have hN := noCarry_of_quant hQ hlen hb hl a
    exact ⟨ReachNW.step a r hN hs, inv_step hI hN hs, quant_step hI hQ hM hG hN hs,
      (threads_length_step hs).trans hlen⟩

/-! ## the critical section does not spin -/

theorem tooSmall_iff (p m : W) (hp : p.toNat < 2 ^ 63) (hm : m.toNat < 2 ^ 63) :
    growTooSmall p m = decide (p.toNat < m.toNat) := by
  simp only [growTooSmall]; exact slt_small _ _ hp hm

theorem doubleUntil_ne_none (m : W) (f : Nat) (p : W) (hp0 : 0 < p.toNat) (hp : p.toNat < 2 ^ 62)
    (hm : m.toNat ≤ 2 ^ 32) (hf : m.toNat ≤ p.toNat * 2 ^ f) : doubleUntil m f p ≠ none := by
  induction f generalizing p with
  | zero =>
    simp only [doubleUntil]
    rw [tooSmall_iff _ _ (by omega) (by omega)]
    have : ¬ p.toNat < m.toNat := by omega
    simp [this]
  | succ f ih =>
    simp only [doubleUntil]
    rw [tooSmall_iff _ _ (by omega) (by omega)]
    by_cases hlt : p.toNat < m.toNat
    · simp only [hlt, decide_true, ↓reduceIte]
      have h2 : (p * 2#64).toNat = 2 * p.toNat := by
        simp only [BitVec.toNat_mul]
        have : (2#64 : W).toNat = 2 := rfl
        rw [this]; omega
      apply ih
      · omega
      · omega
      · rw [h2, Nat.pow_succ] at *
        calc m.toNat ≤ p.toNat * (2 ^ f * 2) := hf
          _ = 2 * p.toNat * 2 ^ f := by rw [Nat.mul_comm (2 ^ f) 2, ← Nat.mul_assoc, Nat.mul_comm p.toNat 2]
    · simp [hlt]

theorem pageSizeFor_ne_none (prev : Nat) (m : W) (h0 : 0 < prev) (hprev : prev ≤ 2 ^ 60)
    (hm : m.toNat ≤ 2 ^ 32) : pageSizeFor prev m ≠ none := by
  have hfs : (growFirstSize (bufOfLen prev)).toNat = 2 * prev := by
    simp only [growFirstSize, size_bufOfLen, BitVec.toNat_mul, BitVec.toNat_ofNat]
    omega
  have := doubleUntil_ne_none m 64 (growFirstSize (bufOfLen prev)) (by omega) (by omega) hm (by
    rw [hfs]
    have : (1 : Nat) ≤ 2 * prev := by omega
    calc m.toNat ≤ 2 ^ 32 := hm
      _ ≤ 1 * 2 ^ 64 := by decide
      _ ≤ 2 * prev * 2 ^ 64 := Nat.mul_le_mul_right _ this)
  simp only [pageSizeFor]
  split
  · rename_i h; exact absurd h this
  · simp

/-- The slot before the one `addBufferAt` allocates into was visited and found non-empty,
unless it is the very first slot looked at. -/
theorem findSlot_prev {cs : List Nat} {m : W} {f : Nat} {i idx : W}
    (h : findSlot cs m f i = .allocAt idx) (hlt : ∀ c ∈ cs, c < 2 ^ 63) (hi : i.toNat + f < 2 ^ 64) :
    idx = i ∨ (i.toNat < idx.toNat ∧ chunkLen cs (idx.toNat - 1) ≠ 0) := by
  induction f generalizing i with
  | zero => simp [findSlot] at h
  | succ f ih =>
    simp only [findSlot] at h
    split at h
    · exact absurd h (by simp)
    · split at h
      · simp only [Slot.allocAt.injEq] at h; exact Or.inl h.symm
      · rename_i he
        split at h
        · exact absurd h (by simp)
        · have h1 : (i + 1#64).toNat = i.toNat + 1 := by
            simp only [BitVec.toNat_add]
            have : (1#64 : W).toNat = 1 := rfl
            rw [this]; omega
          rw [slotEmpty_iff _ (chunkLen_lt hlt (by decide) _)] at he
          have he' : chunkLen cs i.toNat ≠ 0 := by simpa using he
          rcases ih h (by rw [h1]; omega) with h2 | h2
          · subst h2
            refine Or.inr ⟨by omega, ?_⟩
            rw [h1]; simpa using he'
          · rw [h1] at h2
            exact Or.inr ⟨by omega, h2.2⟩

/-- While every chunk up to the current one exists (`Live`, broken only by a `TrimTo` that frees
the current or the first chunk), the critical section never spins. -/
theorem no_hang {s s' : State} {t : Nat} (hI : Inv s) (hL : Live s) (hle : ∀ c ∈ s.chunks, c ≤ 2 ^ 60)
    (h : step s (.grow t) = some s') : ∀ th, s'.threads[t]? = some th → th.pc ≠ .hung := by
  obtain ⟨_, th, sz, b, hth, hpc, h1 | h1 | h1 | h1⟩ := step_grow h
  · obtain ⟨_, rfl⟩ := h1
    intro x hx
    rcases get_set hx with ⟨_, rfl⟩ | ⟨hne, _⟩
    · simp
    · exact absurd rfl hne
  · obtain ⟨_, _, rfl⟩ := h1
    intro x hx
    rcases get_set hx with ⟨_, rfl⟩ | ⟨hne, _⟩
    · simp
    · exact absurd rfl hne
  · obtain ⟨hm, hadd, _⟩ := h1
    exfalso
    obtain ⟨g1, g2, g3, g4⟩ := hI.needGrow t th sz b hth hpc
    have hb : bi s = b := moved_false hm
    have hbB : b.toNat = B s := by rw [← hb]; rfl
    have hBlt := hI.biLt
    have hlen := hI.lenLt
    have hnext := nextIdx_toNat b (by omega)
    simp only [addBufferAt] at hadd
    split at hadd
    · exact absurd hadd (by simp)
    · exact absurd hadd (by simp)
    · rename_i idx hf
      split at hadd
      · rename_i hp
        have hprev : chunkLen s.chunks (idx.toNat - 1) ≠ 0 := by
          rcases findSlot_prev hf hI.chunkLt (by omega) with h2 | h2
          · rw [h2, hnext]
            exact hL _ (by omega)
          · exact h2.2
        exact pageSizeFor_ne_none _ sz (by omega) (chunkLen_le hle _) (by omega) hp
      · exact absurd hadd (by simp)
  · obtain ⟨cs, _, _, rfl⟩ := h1
    intro x hx
    rcases get_set hx with ⟨_, rfl⟩ | ⟨hne, _⟩
    · simp
    · exact absurd rfl hne

end RV.Alloc
