import RV.Proofs.CacheAcctClear
/-!
# `Hits + Misses` / `SetsDropped` along a run: step-indexed counters and the log reading after `Clear`

* `segCounts cfg s acts c`: walk the run; reset the pair of counters at a `Metrics.Clear` step
  (`isMetClear`), add one to the first at a `Get`'s metric step, one to the second at a refused new item.
  `segCounts_run`: the two metric counters of the final state are these numbers (mod 2^64), for every run.
* `winRun cfg s acts (w, q)`: `w` — some client stands between `Metrics.Clear` and the restart of the
  applier (the *window* of its `Clear`); `q` — no `Get` metric step / new-item drop has been taken inside a
  window so far.  `win_run`: the invariant `Win` along every run from a reachable state; `inWindow_iff`
  relates the flag to the pcs of the final state (uses the handshake invariant: at most one client is busy).
-/
namespace RV.Cache
open RV Gen.Cache

/-! ### step-indexed counters -/

def segStep (s : State) (a : Action) (c : Nat × Nat) : Nat × Nat :=
  if isMetClear s a then (0, 0)
  else (c.1 + (if isGetMetric s a then 1 else 0), c.2 + (if isNewDrop s a then 1 else 0))

/-- (number of `Get` metric steps, number of refused new items) since the last `Metrics.Clear` step of the
run `acts` from `s`, starting the count at `c` -/
def segCounts (cfg : Cfg) : State → List Action → Nat × Nat → Nat × Nat
  | _, [], c => c
  | s, a :: as, c =>
    match step cfg s a with
    | none => c
    | some s' => segCounts cfg s' as (segStep s a c)

theorem segStep_hmd {cfg : Cfg} {s s' : State} {a : Action} (hs : step cfg s a = some s')
    (hon : cfg.metricsOn = true) {c : Nat × Nat} (h : hmd s = (BitVec.ofNat 64 c.1, BitVec.ofNat 64 c.2)) :
    hmd s' = (BitVec.ofNat 64 (segStep s a c).1, BitVec.ofNat 64 (segStep s a c).2) := by
  rw [(step_fx hs).met hon]
  unfold segStep
  split
  · rfl
  · rw [h]
    cases isGetMetric s a <;> cases isNewDrop s a <;>
      simp only [Bool.false_eq_true, ↓reduceIte, Nat.add_zero, BitVec.add_zero, ofNat_succ64, BitVec.zero_add]

theorem segCounts_run {cfg : Cfg} {s s' : State} {acts : List Action} (hr : run cfg s acts = some s')
    (hon : cfg.metricsOn = true) {c : Nat × Nat} (h : hmd s = (BitVec.ofNat 64 c.1, BitVec.ofNat 64 c.2)) :
    hmd s' = (BitVec.ofNat 64 (segCounts cfg s acts c).1, BitVec.ofNat 64 (segCounts cfg s acts c).2) := by
  induction acts generalizing s c with
  | nil => simp only [run, Option.some.injEq] at hr; subst hr; exact h
  | cons a as ih =>
    simp only [run] at hr
    cases hs : step cfg s a with
    | none => simp [hs] at hr
    | some s1 =>
      simp only [hs] at hr
      simp only [segCounts, hs]
      exact ih hr (segStep_hmd hs hon h)

theorem hmd_init (cfg : Cfg) (now : Time) : hmd (init cfg now) = (BitVec.ofNat 64 0, BitVec.ofNat 64 0) := rfl

/-! ### the window of a `Clear` -/

/-- the window flag after the step of `a` in `s` -/
def winFlag (s : State) (a : Action) (w : Bool) : Bool :=
  if isMetClear s a then true else if isRestartStep s a then false else w

/-- "no counted step inside a window so far" after the step of `a` in `s` -/
def winQuiet (s : State) (a : Action) (w q : Bool) : Bool := q && !(w && (isGetMetric s a || isNewDrop s a))

def winRun (cfg : Cfg) : State → List Action → Bool × Bool → Bool × Bool
  | _, [], wq => wq
  | s, a :: as, wq =>
    match step cfg s a with
    | none => wq
    | some s' => winRun cfg s' as (winFlag s a wq.1, winQuiet s a wq.1 wq.2)

/-- after the run, some client stands between `Metrics.Clear` and the restart of the applier -/
def inWindow (cfg : Cfg) (s : State) (acts : List Action) : Bool := (winRun cfg s acts (false, true)).1

/-- no `Get` metric step and no new-item drop of the run was taken inside a window
`[Metrics.Clear, restart of the applier)` of some `Clear` -/
def windowQuiet (cfg : Cfg) (s : State) (acts : List Action) : Bool := (winRun cfg s acts (false, true)).2

structure Win (cfg : Cfg) (s : State) (w q : Bool) : Prop where
  flag : w = true ↔ ∃ t, (s.cl t).isRestart = true
  op : NoClose s.log → Open s
  zero : cfg.metricsOn = true → NoClose s.log → q = true → w = true → hmd s = (0#64, 0#64)
  cnt : cfg.metricsOn = true → NoClose s.log → q = true → w = false →
    hmd s = (BitVec.ofNat 64 ((sinceClearRet s.log).countP Ev.isGetRet),
             BitVec.ofNat 64 ((sinceClearRet s.log).countP Ev.isDrop))

theorem active_of_isRestart {pc : CPc} (h : pc.isRestart = true) : pc.active = true := by
  cases pc <;> simp_all [CPc.isRestart, CPc.active, CPc.busy]

theorem win_init (cfg : Cfg) (now : Time) : Win cfg (init cfg now) false true := by
  refine ⟨⟨fun h => (by cases h), fun ⟨t, ht⟩ => (by simp [init, CPc.isRestart] at ht)⟩, fun _ => ⟨rfl, fun _ => rfl⟩,
    fun _ _ _ h => (by cases h), fun _ _ _ _ => rfl⟩

theorem win_step {cfg : Cfg} {s s' : State} {a : Action} {w q : Bool} (hh : Handshake s) (h : Win cfg s w q)
    (fx : Fx cfg s a s') : Win cfg s' (winFlag s a w) (winQuiet s a w q) := by
  obtain ⟨evs, hext⟩ := fx.ext
  have hnc : NoClose s'.log → NoClose s.log := fun hn => noClose_of_append (by rw [← hext]; exact hn)
  have hmet := fx.met
  have hlog := fx.log
  have hrst := fx.rst
  rcases kind_cases s a with ⟨k1, k2, k3, k4⟩ | ⟨k1, k2, k3, k4⟩ | ⟨k1, k2, k3, k4⟩ | ⟨k1, k2, k3, k4⟩ | ⟨k1, k2, k3, k4⟩ <;>
    simp only [k1, k2, k3, k4, Bool.false_eq_true, ↓reduceIte, BitVec.add_zero, Prod.eta] at hmet hlog hrst <;>
    simp only [winFlag, winQuiet, k1, k2, k3, k4, Bool.false_eq_true, ↓reduceIte, Bool.or_false, Bool.and_false,
      Bool.not_false, Bool.and_true, Bool.or_true]
  · -- any other step
    refine ⟨?_, fun hn => fx.op (h.op (hnc hn)) hn, fun hon hn hq hw => ?_, fun hon hn hq hw => ?_⟩
    · simp only [hrst]; exact h.flag
    · rw [hmet hon]; exact h.zero hon (hnc hn) hq hw
    · obtain ⟨evs', he, hqv⟩ := hlog (h.op (hnc hn))
      rw [he, sinceClearRet_append (fun e hm => seg_isClearRet (hqv e hm)), List.countP_append, List.countP_append,
        countP_zero_of (fun e hm => seg_isGetRet (hqv e hm)), countP_zero_of (fun e hm => seg_isDrop (hqv e hm)),
        Nat.zero_add, Nat.zero_add, hmet hon]
      exact h.cnt hon (hnc hn) hq hw
  · -- Metrics.Clear
    exact ⟨⟨fun _ => hrst, fun _ => rfl⟩, fun hn => fx.op (h.op (hnc hn)) hn, fun hon _ _ _ => hmet hon,
      fun _ _ _ hw => (by cases hw)⟩
  · -- the restart step of Clear (logs `clearRet`)
    obtain ⟨t, ht, ht', hne⟩ := hrst
    refine ⟨⟨fun hw => (by cases hw), fun ⟨t', hr'⟩ => ?_⟩, fun hn => fx.op (h.op (hnc hn)) hn,
      fun _ _ _ hw => (by cases hw), fun hon hn hq _ => ?_⟩
    · by_cases e : t' = t
      · subst e; rw [ht'] at hr'; cases hr'
      · rw [hne t' e] at hr'
        exact absurd (hh.unique t' t (active_of_isRestart hr') (active_of_isRestart ht)) e
    · obtain ⟨t1, he⟩ := hlog (h.op (hnc hn))
      rw [he, sinceClearRet_clearRet, hmet hon]
      exact h.zero hon (hnc hn) hq (h.flag.mpr ⟨t, ht⟩)
  · -- a Get's metric step
    refine ⟨?_, fun hn => fx.op (h.op (hnc hn)) hn, fun _ _ hq hw => ?_, fun hon hn hq hw => ?_⟩
    · simp only [hrst]; exact h.flag
    · subst hw; simp at hq
    · subst hw
      obtain ⟨t1, h1, c1, r1, he⟩ := hlog (h.op (hnc hn))
      have hq' : q = true := by simpa using hq
      have := h.cnt hon (hnc hn) hq' rfl
      rw [he, sinceClearRet_cons rfl, hmet hon, this]
      simp only [List.countP_cons, Ev.isGetRet, Ev.isDrop, Bool.false_eq_true, ↓reduceIte, Nat.add_zero, ofNat_succ64, BitVec.zero_add]
  · -- a refused new item
    refine ⟨?_, fun hn => fx.op (h.op (hnc hn)) hn, fun _ _ hq hw => ?_, fun hon hn hq hw => ?_⟩
    · simp only [hrst]; exact h.flag
    · subst hw; simp at hq
    · subst hw
      obtain ⟨t1, v1, he⟩ := hlog (h.op (hnc hn))
      have hq' : q = true := by simpa using hq
      have := h.cnt hon (hnc hn) hq' rfl
      rw [he, sinceClearRet_cons rfl, sinceClearRet_cons rfl, hmet hon, this]
      simp only [List.countP_cons, Ev.isGetRet, Ev.isDrop, Bool.false_eq_true, ↓reduceIte, Nat.add_zero, ofNat_succ64, BitVec.zero_add]

theorem win_run {cfg : Cfg} {s s' : State} {acts : List Action} {w q : Bool} (hreach : Reach cfg s)
    (h : Win cfg s w q) (hr : run cfg s acts = some s') :
    Win cfg s' (winRun cfg s acts (w, q)).1 (winRun cfg s acts (w, q)).2 := by
  induction acts generalizing s w q with
  | nil => simp only [run, Option.some.injEq] at hr; subst hr; exact h
  | cons a as ih =>
    simp only [run] at hr
    cases hs : step cfg s a with
    | none => simp [hs] at hr
    | some s1 =>
      simp only [hs] at hr
      simp only [winRun, hs]
      exact ih (hreach.of_step hs) (win_step (handshake_reach hreach) h (step_fx hs)) hr

/-- the invariant at the end of a run from the initial state -/
theorem win_of_run {cfg : Cfg} {now : Time} {s : State} {acts : List Action}
    (hr : run cfg (init cfg now) acts = some s) :
    Win cfg s (inWindow cfg (init cfg now) acts) (windowQuiet cfg (init cfg now) acts) :=
  win_run (Reach.of_init cfg now) (win_init cfg now) hr

/-- the window flag computed along the run says what it should: some client is at `.clrRestart _` -/
theorem inWindow_iff {cfg : Cfg} {now : Time} {s : State} {acts : List Action}
    (hr : run cfg (init cfg now) acts = some s) :
    inWindow cfg (init cfg now) acts = true ↔ ∃ t, (s.cl t).isRestart = true := (win_of_run hr).flag

theorem inWindow_false {cfg : Cfg} {now : Time} {s : State} {acts : List Action}
    (hr : run cfg (init cfg now) acts = some s) (hno : ∀ t, (s.cl t).isRestart = false) :
    inWindow cfg (init cfg now) acts = false := by
  cases hw : inWindow cfg (init cfg now) acts
  · rfl
  · obtain ⟨t, ht⟩ := (inWindow_iff hr).mp hw
    rw [hno t] at ht; cases ht

/-- `Hits + Misses` and `SetsDropped` read off the log after the last `clearRet`, for runs without `Close`
whose windows are quiet, in states outside every window -/
theorem hmd_after_clear {cfg : Cfg} {now : Time} {s : State} {acts : List Action}
    (hr : run cfg (init cfg now) acts = some s) (hon : cfg.metricsOn = true) (hnc : NoClose s.log)
    (hq : windowQuiet cfg (init cfg now) acts = true) (hno : ∀ t, (s.cl t).isRestart = false) :
    hmd s = (BitVec.ofNat 64 ((sinceClearRet s.log).countP Ev.isGetRet),
             BitVec.ofNat 64 ((sinceClearRet s.log).countP Ev.isDrop)) :=
  (win_of_run hr).cnt hon hnc hq (inWindow_false hr hno)

/-- in a state inside a window (quiet so far) both counters are zero -/
theorem hmd_in_window {cfg : Cfg} {now : Time} {s : State} {acts : List Action}
    (hr : run cfg (init cfg now) acts = some s) (hon : cfg.metricsOn = true) (hnc : NoClose s.log)
    (hq : windowQuiet cfg (init cfg now) acts = true) {t : Tid} (ht : (s.cl t).isRestart = true) :
    hmd s = (0#64, 0#64) :=
  (win_of_run hr).zero hon hnc hq ((inWindow_iff hr).mpr ⟨t, ht⟩)

/-- while `Close` has not been called the cache is open and nobody runs `Close` -/
theorem open_of_noClose {cfg : Cfg} {s : State} (h : Reach cfg s) (hnc : NoClose s.log) : Open s := by
  obtain ⟨now, acts, hr⟩ := h
  exact (win_of_run hr).op hnc

/-! ### helpers for concrete runs -/

/-- nobody is inside a window after a run from the initial state that names only the threads `ts`, none of
which ends at `.clrRestart _` -/
theorem noRestart_of_run {cfg : Cfg} {now : Time} {s : State} {acts : List Action} (ts : List Tid)
    (hr : run cfg (init cfg now) acts = some s)
    (hts : (acts.all fun a => a.tids.all fun t => ts.contains t) = true)
    (h : ts.all (fun t => !(s.cl t).isRestart) = true) : ∀ t, (s.cl t).isRestart = false := by
  intro t
  by_cases ht : t ∈ ts
  · have := List.all_eq_true.mp h t ht
    simpa using this
  · rw [run_init_idle ts hr hts ht]; rfl

theorem noClose_of_all {l : List Ev} (h : l.all (fun e => !e.isCloseCall) = true) : NoClose l := by
  intro e he
  have := List.all_eq_true.mp h e he
  simpa using this

/-- read a projection of the final state of a concrete run off an evaluated `Option.map` -/
theorem run_facts {α : Type} {cfg : Cfg} {s0 : State} {acts : List Action} {f : State → α} {x : α}
    (h : (run cfg s0 acts).map f = some x) : ∃ s, run cfg s0 acts = some s ∧ f s = x := by
  cases hr : run cfg s0 acts with
  | none => rw [hr] at h; cases h
  | some s => rw [hr] at h; exact ⟨s, rfl, by simpa using h⟩

end RV.Cache
