import RV.Proofs.TieTree2Init
import RV.Proofs.TieTree2Root
/-!
# The tree on flat memory: `Tree.Set` (generated whole) refines the structural `set` — all paths

`set_cases`: the structural `Tree.set` on a legal key, when it does not fault, is `setNode` on the
root, followed — iff the root is full afterwards — by the explicit root split.  `Set_refines`: for a
represented well-formed tree (`TreeInv`) whose pages are live, the generated `Tree.Set` returns, the
structural result is represented, the allocator corresponds, pages outside are framed.  Composes
`set_refines` (TieTree2Set) and `SetRootSplit_refines` (TieTree2Root).
-/
namespace RV.TreeFlat
open RV.Tree RV.NodeFlat Gen.TreeM

theorem fail_fault (a : Alloc) (m : String) : (a.fail m).fault ≠ none := by
  unfold Alloc.fail; cases h : a.fault <;> simp [h]

/-- the structural `Tree.set` when it does not fault -/
theorem set_cases (cfg : Cfg) (tr : Tree) (k : Key) (v : Val) (hk : Gen.Tree.setKeyPanic k = false)
    (hnf : (RV.Tree.set cfg tr k v).a.fault = none) :
    (Node.isFull cfg (setNode cfg tr.root k v tr.a).1 = false ∧
      RV.Tree.set cfg tr k v = { root := (setNode cfg tr.root k v tr.a).1, a := (setNode cfg tr.root k v tr.a).2 }) ∨
    (Node.isFull cfg (setNode cfg tr.root k v tr.a).1 = true ∧ ∃ rp es es1 ad1 es2,
      (setNode cfg tr.root k v tr.a).1 = .inner rp es ∧
      nodeSet cfg.maxKeys ([] : List (Key × Node))
        (Node.inner (RV.Tree.newNode cfg (RV.Tree.newNode cfg (setNode cfg tr.root k v tr.a).2).2).1
          (splitLeft cfg.maxKeys es)).maxKey
        (Node.inner (RV.Tree.newNode cfg (RV.Tree.newNode cfg (setNode cfg tr.root k v tr.a).2).2).1
          (splitLeft cfg.maxKeys es)) = some (es1, ad1) ∧
      nodeSet cfg.maxKeys es1
        (Node.inner (RV.Tree.newNode cfg (setNode cfg tr.root k v tr.a).2).1 (splitRight cfg.maxKeys es)).maxKey
        (Node.inner (RV.Tree.newNode cfg (setNode cfg tr.root k v tr.a).2).1 (splitRight cfg.maxKeys es)) =
          some (es2, 1) ∧
      RV.Tree.set cfg tr k v =
        { root := .inner rp es2,
          a := (RV.Tree.newNode cfg (RV.Tree.newNode cfg (setNode cfg tr.root k v tr.a).2).2).2 }) := by
  unfold RV.Tree.set at hnf ⊢
  simp only [hk, Bool.false_eq_true, if_false] at hnf ⊢
  generalize setNode cfg tr.root k v tr.a = res at hnf ⊢
  obtain ⟨root, a⟩ := res
  simp only [] at hnf ⊢
  by_cases hf : root.isFull cfg = true
  · right
    simp only [hf, if_true, true_and] at hnf ⊢
    cases root with
    | null => exact absurd hnf (fail_fault _ _)
    | leaf q es => exact absurd hnf (fail_fault _ _)
    | inner rp es =>
      simp only [splitNode, Node.withPid] at hnf ⊢
      cases h1 : nodeSet cfg.maxKeys ([] : List (Key × Node))
          (Node.inner (RV.Tree.newNode cfg (RV.Tree.newNode cfg a).2).1 (splitLeft cfg.maxKeys es)).maxKey
          (Node.inner (RV.Tree.newNode cfg (RV.Tree.newNode cfg a).2).1 (splitLeft cfg.maxKeys es)) with
      | none =>
        simp only [h1] at hnf
        exact absurd hnf (fail_fault _ _)
      | some r1 =>
        obtain ⟨es1, ad1⟩ := r1
        simp only [h1] at hnf ⊢
        cases h2 : nodeSet cfg.maxKeys es1
            (Node.inner (RV.Tree.newNode cfg a).1 (splitRight cfg.maxKeys es)).maxKey
            (Node.inner (RV.Tree.newNode cfg a).1 (splitRight cfg.maxKeys es)) with
        | none =>
          simp only [h2] at hnf
          exact absurd hnf (fail_fault _ _)
        | some r2 =>
          obtain ⟨es2, ad2⟩ := r2
          simp only [h2] at hnf ⊢
          by_cases had : (ad2 == 1) = true
          · have : ad2 = 1 := by simpa using had
            subst this
            simp only [BEq.rfl, if_true] at hnf ⊢
            refine ⟨rp, es, es1, ad1, es2, rfl, ?_, ?_, ?_⟩ <;> first | rfl | exact h2 | exact h1
          · simp only [had, Bool.false_eq_true, if_false] at hnf
            exact absurd hnf (fail_fault _ _)
  · left
    have hf' : root.isFull cfg = false := by simpa using hf
    simp only [hf', Bool.false_eq_true, if_false, true_and]

/-- `Tree.Set(k, v)` on a represented well-formed tree, all paths. -/
theorem Set_refines {cfg : Cfg} (hc : CfgFlat cfg) (hok : CfgOk cfg) (t : St) (tr : Tree)
    (hti : TreeInv cfg tr) (hroot : tr.root.pid = 1) (hr : TreeFlat.Repr cfg t.data tr.root)
    (hinv : AllocInv cfg t tr.a) (hlive : Live tr.a tr.root) (k : Key) (v : Val)
    (hk : Gen.Tree.setKeyPanic k = false)
    (hb : ((RV.Tree.set cfg tr k v).a.nextPage + 2) * pw cfg < 2 ^ 40)
    (fuel : Nat) (hfuel : height tr.root ≤ fuel) :
    ∃ t', Gen.TreeM.Set (w cfg.pageSize) (w cfg.maxKeys) fuel t k v = some t' ∧
      TreeFlat.Repr cfg t'.data (RV.Tree.set cfg tr k v).root ∧ AllocInv cfg t' (RV.Tree.set cfg tr k v).a ∧
      Live (RV.Tree.set cfg tr k v).a (RV.Tree.set cfg tr k v).root ∧
      t.data.size ≤ t'.data.size ∧
      (∀ r, r ∉ pids tr.root → r ∉ tr.a.free → r < tr.a.nextPage → (r + 1) * pw cfg ≤ t.data.size →
        pageOf cfg t'.data r = pageOf cfg t.data r) := by
  have hmk := hc.mkLt
  have hge := hok.ge4
  obtain ⟨hk1, hk2⟩ := legal_key hk
  obtain ⟨hinv', _, hcons, _, hpid', _⟩ := set_spec hok tr k v hti hk
  obtain ⟨n1, n2, _, n4, _, n6, _, _⟩ := setNode_spec hok tr.root 0#64 Gen.Tree.absoluteMax k v tr.a hti.ok hk1 hk2 hti.nofault
  -- liveness of the results
  obtain ⟨hY1, hY2, _, _, _⟩ := live_of_cons hcons hlive.nodup hlive.live hinv.nodup hinv.below
  have hliveOut : Live (RV.Tree.set cfg tr k v).a (RV.Tree.set cfg tr k v).root := ⟨hY1, hY2⟩
  obtain ⟨hZ1, hZ2, _, _, hout⟩ := live_of_cons n6 hlive.nodup hlive.live hinv.nodup hinv.below
  have hlive1 : Live (setNode cfg tr.root k v tr.a).2 (setNode cfg tr.root k v tr.a).1 := ⟨hZ1, hZ2⟩
  have hnp1 : tr.a.nextPage ≤ (setNode cfg tr.root k v tr.a).2.nextPage := n6.np
  rcases set_cases cfg tr k v hk hinv'.nofault with ⟨hfull, hset⟩ | ⟨hfull, rp, es, es1, ad1, es2, hroot1, h1, h2, hset⟩
  · -- no root split
    rw [hset] at hb ⊢
    simp only [] at hb
    have hb1 : ((setNode cfg tr.root k v tr.a).2.nextPage + 1) * pw cfg < 2 ^ 40 := by
      have : ((setNode cfg tr.root k v tr.a).2.nextPage + 1) * pw cfg ≤
          ((setNode cfg tr.root k v tr.a).2.nextPage + 2) * pw cfg := Nat.mul_le_mul_right _ (by omega)
      omega
    obtain ⟨t1, hrec, hr1, hinv1, hsz1, hfr1⟩ :=
      set_refines hc hok k v fuel tr.root 0#64 Gen.Tree.absoluteMax t tr.a hti.ok hk1 hk2 hr hinv hlive hb1 hfuel
    rw [Set_unfold]
    have hk' : ((k == 18446744073709551615#64) || (k == 0#64)) = false := hk
    rw [hk']
    simp only [Bool.false_eq_true, if_false]
    rw [show (1#64 : BitVec 64) = w tr.root.pid from by rw [hroot], hrec]
    simp only [Option.bind_some]
    rw [hset] at hliveOut
    obtain ⟨lf, kv, hpg, hlen, _⟩ := repr_pageOf _ (okNode_ne_null n2) hr1
    rw [n4] at hpg
    have hps := hpg.ok.1
    have hisf : Gen.Node.isFull (pageOf cfg t1.data tr.root.pid) (w cfg.maxKeys) = some false := by
      rw [isFull_w hps (by omega) (by omega), ← ents_length, hpg.ents, hlen]
      have hl := okNode_len n2
      rw [Node.isFull_eq cfg _ (by omega) (by omega)] at hfull
      rw [hfull]
    rw [rdNode_refOf t1 tr.root.pid hpg.fit, hisf]
    simp only [Option.bind_some, Bool.false_eq_true, if_false]
    exact ⟨t1, rfl, hr1, hinv1, hliveOut, hsz1, hfr1⟩
  · -- root split
    rw [hset] at hb ⊢
    simp only [] at hb
    have hmono1 := (newNode_cons cfg (setNode cfg tr.root k v tr.a).2).np
    have hmono2 := (newNode_cons cfg (RV.Tree.newNode cfg (setNode cfg tr.root k v tr.a).2).2).np
    have hb1 : ((setNode cfg tr.root k v tr.a).2.nextPage + 1) * pw cfg < 2 ^ 40 := by
      have : ((setNode cfg tr.root k v tr.a).2.nextPage + 1) * pw cfg ≤
          ((RV.Tree.newNode cfg (RV.Tree.newNode cfg (setNode cfg tr.root k v tr.a).2).2).2.nextPage + 2) * pw cfg :=
        Nat.mul_le_mul_right _ (by omega)
      omega
    have hb2 : ((setNode cfg tr.root k v tr.a).2.nextPage + 2) * pw cfg < 2 ^ 40 := by
      have : ((setNode cfg tr.root k v tr.a).2.nextPage + 2) * pw cfg ≤
          ((RV.Tree.newNode cfg (RV.Tree.newNode cfg (setNode cfg tr.root k v tr.a).2).2).2.nextPage + 2) * pw cfg :=
        Nat.mul_le_mul_right _ (by omega)
      omega
    obtain ⟨t1, hrec, hr1, hinv1, hsz1, hfr1⟩ :=
      set_refines hc hok k v fuel tr.root 0#64 Gen.Tree.absoluteMax t tr.a hti.ok hk1 hk2 hr hinv hlive hb1 hfuel
    have hrp : rp = 1 := by
      have := n4; rw [hroot1, hroot] at this; exact this
    subst hrp
    rw [hroot1] at hr1 hlive1 hfull n2
    have hl := okNode_len n2
    have hesfull : es.length = cfg.maxKeys := by
      rw [Node.isFull_eq cfg _ (by simp only [Node.len]; simp only [Node.len] at hl; omega) (by omega)] at hfull
      have := of_decide_eq_true hfull
      simpa [Node.len] using this
    obtain ⟨t2, hsplit, hr2, hinv2, hsz2, hfr2⟩ :=
      SetRootSplit_refines hc (by omega) t1 (setNode cfg tr.root k v tr.a).2 hinv1 hb2 es hr1 hesfull hlive1
        es1 es2 ad1 1 h1 h2
    rw [Set_unfold]
    have hk' : ((k == 18446744073709551615#64) || (k == 0#64)) = false := hk
    rw [hk']
    simp only [Bool.false_eq_true, if_false]
    rw [show (1#64 : BitVec 64) = w tr.root.pid from by rw [hroot], hrec]
    simp only [Option.bind_some]
    have hpg := (repr_inner hr1).1
    have hps := hpg.ok.1
    have hisf : Gen.Node.isFull (pageOf cfg t1.data 1) (w cfg.maxKeys) = some true := by
      rw [isFull_w hps (by omega) (by omega), ← ents_length, hpg.ents, entWords_length, hesfull]
      simp
    rw [hroot, rdNode_refOf t1 1 hpg.fit, hisf]
    simp only [Option.bind_some, if_true]
    rw [hsplit]
    simp only [Option.bind_some]
    refine ⟨t2, rfl, hr2, hinv2, ?_, by omega, ?_⟩
    · rw [hset] at hliveOut; exact hliveOut
    · intro r hr hrf hrl hrfit
      have ho := hout r hr hrf hrl
      rw [hroot1] at ho
      have hr1ne : r ≠ 1 := fun e => ho.1 (by rw [e]; simp [pids])
      have hrn1 : r ≠ (RV.Tree.newNode cfg (setNode cfg tr.root k v tr.a).2).1 := by
        rcases newNode_which cfg (setNode cfg tr.root k v tr.a).2 with hw | hw
        · exact fun e => ho.2 (e ▸ hw)
        · rw [hw]; omega
      have hrn2 : r ≠ (RV.Tree.newNode cfg (RV.Tree.newNode cfg (setNode cfg tr.root k v tr.a).2).2).1 := by
        rcases newNode_which cfg (RV.Tree.newNode cfg (setNode cfg tr.root k v tr.a).2).2 with hw | hw
        · intro e
          have : r ∈ (setNode cfg tr.root k v tr.a).2.free := by
            rcases newNode_free cfg (setNode cfg tr.root k v tr.a).2 with e2 | e2
            · rw [e2] at hw; exact e ▸ hw
            · rw [e2] at hw; exact List.mem_of_mem_tail (e ▸ hw)
          exact ho.2 this
        · rw [hw]; omega
      rw [hfr2 r hr1ne hrn1 hrn2 (by omega)]
      exact hfr1 r hr hrf hrl hrfit

end RV.TreeFlat
