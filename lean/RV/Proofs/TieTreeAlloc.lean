import RV.Proofs.TieTreeWrite
import RV.Proofs.NodeFlatCompact
/-!
# The tree on flat memory: `Tree.newNode` (generated whole)

`newNode` = *choose the page* (pop the free list: the link is word 0 of the free page; or take the
frontier page and grow the buffer when it does not fit) then *initialise it* (`zeroOut`, `setBit`,
page id).  `nnHead` / `nnTail` are the two halves of the generated text (`newNode_split : … := rfl`
fails when the generated function changes shape).
-/
namespace RV.TreeFlat
open RV.Tree RV.NodeFlat Gen.TreeM

/-- the page `newNode` leaves behind: an empty well-formed node of the requested kind that knows its id -/
structure FreshPage (cfg : Cfg) (leaf : Bool) (q : Nat) (pg : Words) : Prop where
  size : pg.size = pw cfg
  ok : PageOk cfg.maxKeys pg
  ents : ents cfg.maxKeys pg = []
  pid : pidW cfg.maxKeys pg = w q
  isLeaf : leafBit cfg.maxKeys pg = leaf
  kind : kindBits cfg.maxKeys pg = kindOf leaf
  metaEq : metaW cfg.maxKeys pg = metaWord leaf 0

/-- the kind argument of `newNode`: `bitLeaf` or 0 -/
def kindWord (leaf : Bool) : BitVec 64 := if leaf then Gen.Tree.bitLeaf else 0#64

/-! ## the two halves of the generated function -/

/-- first half: which page, and make room for it -/
def nnHead (pageSize : BitVec 64) (t : St) : Option (St × BitVec 64) :=
  let freePage_2 : BitVec 64 := t.freePage
  (if (BitVec.ult 0#64 freePage_2) then
      let freePage_3 : BitVec 64 := t.freePage
      let pageId_4 : BitVec 64 := freePage_3
      let t_5 : St := { t with numPagesFree := (t.numPagesFree - 1#64) }
      some (t_5, pageId_4)
    else
      let nextPage_6 : BitVec 64 := t.nextPage
      let pageId_7 : BitVec 64 := nextPage_6
      let t_8 : St := { t with nextPage := (t.nextPage + 1#64) }
      let offset_9 : BitVec 64 := (pageId_7 * pageSize)
      let reqSize_10 : BitVec 64 := (offset_9 + pageSize)
      (if (BitVec.slt (Gen.TreeM.dataLen t_8) reqSize_10) then
          (Gen.TreeM.bufAllocateOffset t_8 (reqSize_10 - (Gen.TreeM.dataLen t_8))).bind fun t_11 =>
          (Gen.TreeM.bufBytes t_11).bind fun t_12 =>
          some t_12
        else
          some t_8).bind fun t_13 =>
      some (t_13, pageId_7))

/-- second half: pop the free list if that is where the page came from, wipe, set kind and id -/
def nnTail (pageSize maxKeys bit : BitVec 64) (t_14 : St) (pageId_15 : BitVec 64) : Option (St × NodeRef) :=
  (node pageSize maxKeys t_14 pageId_15).bind fun w_16 =>
  let n_17 : NodeRef := w_16
  let freePage_18 : BitVec 64 := t_14.freePage
  (if (BitVec.ult 0#64 freePage_18) then
      (Gen.TreeM.rdNode t_14 n_17 (fun p => Gen.Node.uint64 p 0#64)).bind fun x_19 =>
      let t_20 : St := { t_14 with freePage := x_19 }
      some t_20
    else
      some t_14).bind fun t_21 =>
  (Gen.TreeM.wrNode t_21 n_17 (fun p => Gen.Node.zeroOut p)).bind fun t_22 =>
  (Gen.TreeM.wrNode t_22 n_17 (fun p => Gen.Node.setBit p maxKeys bit)).bind fun t_23 =>
  (Gen.TreeM.wrNode t_23 n_17 (fun p => Gen.Node.setAt p (Gen.Tree.keyOffset maxKeys) pageId_15)).bind fun t_24 =>
  some (t_24, n_17)

theorem newNode_split (pageSize maxKeys : BitVec 64) (t : St) (bit : BitVec 64) :
    newNode pageSize maxKeys t bit = (nnHead pageSize t).bind fun x => nnTail pageSize maxKeys bit x.1 x.2 := rfl

/-! ## the second half -/

theorem zeroOut_page {cfg : Cfg} (pg : Words) (hs : pg.size = pw cfg) (h63 : pg.size < 2 ^ 63) :
    Gen.Node.zeroOut pg = some (zeroPage cfg.maxKeys) := by
  obtain ⟨d', h1, h2, h3⟩ := zeroOut_w pg h63
  rw [h1]; congr 1
  apply words_ext
  · rw [h2, hs]; simp [zeroPage, pw]
  · intro i hi
    rw [h3 i (by omega)]
    unfold zeroPage
    rw [getElem!_pos _ i (by simp; rw [h2, hs] at hi; unfold pw at hi; omega)]; simp

theorem nnTail_eq {cfg : Cfg} (hc : CfgFlat cfg) (t : St) (hsmall : t.data.size < 2 ^ 40) (q : Nat) (hq : 0 < q)
    (hfit : (q + 1) * pw cfg ≤ t.data.size) (leaf : Bool) :
    ∃ pg, FreshPage cfg leaf q pg ∧
      nnTail (w cfg.pageSize) (w cfg.maxKeys) (kindWord leaf) t (w q) =
        some ({ t with data := setPage cfg t.data q pg,
                       freePage := if BitVec.ult 0#64 t.freePage then (pageOf cfg t.data q)[0]! else t.freePage },
              refOf cfg t q) := by
  have hmk := hc.mkLt
  have hpw := hc.pw_lt
  have hpwd : pw cfg = 2 * (cfg.maxKeys + 1) := rfl
  obtain ⟨p1, p2, hb, hid, hok, hents, hpid, hleaf, hmeta⟩ := newNode_page (mk := cfg.maxKeys) (by omega) leaf (w q)
  have hzs : (zeroPage cfg.maxKeys).size = pw cfg := by simp [zeroPage, pw]
  have hp2s : p2.size = pw cfg := by rw [hok.1]; rfl
  have hp1s : p1.size = pw cfg := by
    have := setAt_w (p := p1) (j := 2 * cfg.maxKeys) (w q)
    -- sizes: setBit and setAt keep the size
    obtain ⟨p1', h1, hs1, _, _⟩ := setBit_w (p := zeroPage cfg.maxKeys) (mk := cfg.maxKeys) (by simp [zeroPage])
      (by simp [zeroPage]; omega) (if leaf then Gen.Tree.bitLeaf else 0#64) (by cases leaf <;> decide)
    rw [hb] at h1; cases h1; rw [hs1, hzs]
  refine ⟨p2, ⟨hp2s, hok, hents, hpid, hleaf, ?_, hmeta⟩, ?_⟩
  · unfold kindBits; rw [hmeta]; cases leaf <;> decide
  · unfold nnTail
    rw [node_w hc t q hq hfit hsmall]
    simp only [Option.bind_some, refOf]
    -- the state after the optional pop
    have hpop : ∀ (b : Bool), b = BitVec.ult 0#64 t.freePage →
        (if b = true then
            (rdNode t (NodeRef.win (q * pw cfg) (pw cfg) t.epoch) fun p => Gen.Node.uint64 p 0#64).bind fun x_19 =>
              some { t with freePage := x_19 }
          else some t) =
        some { t with freePage := if b = true then (pageOf cfg t.data q)[0]! else t.freePage } := by
      intro b _
      cases b
      · simp
      · simp only [if_true]
        rw [rdNode_win t q _ rfl hfit]
        have h0 : 0 < (pageOf cfg t.data q).size := by rw [pageOf_size _ _ hfit]; exact pw_pos cfg
        have := uint64_w (p := pageOf cfg t.data q) (j := 0) h0 (by rw [pageOf_size _ _ hfit]; omega)
        rw [show (w 0 : BitVec 64) = 0#64 from rfl] at this
        rw [this]; rfl
    rw [hpop _ rfl]
    simp only [Option.bind_some]
    generalize (if BitVec.ult 0#64 t.freePage = true then (pageOf cfg t.data q)[0]! else t.freePage) = fp
    -- three writes to the same page
    rw [wrNode_win (cfg := cfg) { t with freePage := fp } q t.epoch rfl hfit _ (zeroPage cfg.maxKeys)
      (zeroOut_page _ (pageOf_size _ _ hfit) (by rw [pageOf_size _ _ hfit]; omega)) hzs]
    simp only [Option.bind_some]
    have hfit1 : (q + 1) * pw cfg ≤ (setPage cfg t.data q (zeroPage cfg.maxKeys)).size := by
      rw [setPage_size]; exact hfit
    rw [wrNode_win (cfg := cfg) { t with freePage := fp, data := setPage cfg t.data q (zeroPage cfg.maxKeys) }
      q t.epoch rfl hfit1 _ p1 (by simp only []; rw [pageOf_setPage_self _ _ _ hfit hzs]; exact hb) hp1s]
    simp only [Option.bind_some]
    have hfit2 : (q + 1) * pw cfg ≤ (setPage cfg (setPage cfg t.data q (zeroPage cfg.maxKeys)) q p1).size := by
      rw [setPage_size]; exact hfit1
    rw [wrNode_win (cfg := cfg)
      { t with freePage := fp, data := setPage cfg (setPage cfg t.data q (zeroPage cfg.maxKeys)) q p1 }
      q t.epoch rfl hfit2 _ p2 (by simp only []; rw [pageOf_setPage_self _ _ _ hfit1 hp1s]; exact hid) hp2s]
    simp only [Option.bind_some, setPage_setPage _ _ _ _ hfit1 hp1s hp2s, setPage_setPage _ _ _ _ hfit hzs hp2s]

/-! ## the allocator state -/

/-- the scalar part of the allocator: flat fields against the structural `Alloc` -/
structure AllocScal (t : St) (a : Alloc) : Prop where
  nextPage : t.nextPage = w a.nextPage
  freePage : t.freePage = w a.freeHead
  leafKeys : t.numLeafKeys = BitVec.ofInt 64 a.leafKeys
  pagesFree : t.numPagesFree = BitVec.ofInt 64 a.pagesFree
  dataLen : 8 * t.data.size = a.dataLen
  curSz : t.bufCurSz = w a.curSz
  bufOffset : t.bufOffset = w (a.dataLen + 8)
  fault : a.fault = none

/-- the free pages are chained through word 0, the last link is 0 -/
def FreeChain (cfg : Cfg) (d : Words) : List Nat → Prop
  | [] => True
  | p :: rest => 0 < p ∧ (p + 1) * pw cfg ≤ d.size ∧ (pageOf cfg d p)[0]! = w (rest.headD 0) ∧ FreeChain cfg d rest

theorem freeChain_frame {cfg : Cfg} {d d' : Words} (hsz : d.size ≤ d'.size) : ∀ (l : List Nat),
    (∀ q ∈ l, (q + 1) * pw cfg ≤ d.size → pageOf cfg d' q = pageOf cfg d q) → FreeChain cfg d l → FreeChain cfg d' l
  | [], _, _ => trivial
  | p :: rest, hf, h => by
    obtain ⟨h1, h2, h3, h4⟩ := h
    exact ⟨h1, by omega, by rw [hf p (by simp) h2]; exact h3,
      freeChain_frame hsz rest (fun q hq => hf q (by simp [hq])) h4⟩

theorem freeHead_eq (a : Alloc) : a.freeHead = a.free.headD 0 := by
  unfold Alloc.freeHead; cases a.free <;> rfl

/-! ## the first half -/

theorem nnHead_recycled (ps : BitVec 64) (t : St) (f : Nat) (hf : t.freePage = w f) (hpos : 0 < f) (hlt : f < 2 ^ 64) :
    nnHead ps t = some ({ t with numPagesFree := t.numPagesFree - 1#64 }, w f) := by
  unfold nnHead
  have : BitVec.ult 0#64 (w f) = true := by
    have := w_ult (a := 0) (b := f) (by omega) hlt
    rw [show (w 0 : BitVec 64) = 0#64 from rfl] at this; rw [this]; simpa using hpos
  simp only [hf, this, if_true]

theorem bufGrow_nextPage (t : St) (x n : BitVec 64) :
    bufGrow { t with nextPage := x } n = { bufGrow t n with nextPage := x } := by
  unfold bufGrow
  by_cases h : Gen.Tree.growNotNeeded t.bufOffset n t.bufCurSz = true <;> simp [h]

/-- extending the data with zero words: the old pages read as before -/
theorem pageOf_append {cfg : Cfg} (d z : Words) (q : Nat) (hfit : (q + 1) * pw cfg ≤ d.size) :
    pageOf cfg (d ++ z) q = pageOf cfg d q := by
  have e := succ_mul_pw cfg q
  apply words_ext
  · rw [pageOf_size _ _ (by simp; omega), pageOf_size _ _ hfit]
  · intro i hi
    rw [pageOf_size _ _ (by simp; omega)] at hi
    rw [pageOf_get _ _ _ (by simp; omega) hi, pageOf_get _ _ _ hfit hi]
    rw [getElem!_pos _ _ (by simp; omega), getElem!_pos _ _ (by omega)]
    exact Array.getElem_append_left (by omega)

theorem nnHead_fresh {cfg : Cfg} (hc : CfgFlat cfg) (t : St) (np : Nat) (hnp : t.nextPage = w np)
    (h0 : t.freePage = 0#64) (hoff : t.bufOffset = w (8 * t.data.size + 8))
    (hb1 : (np + 1) * pw cfg < 2 ^ 40) (hb2 : t.data.size < 2 ^ 40) :
    ∃ t14, nnHead (w cfg.pageSize) t = some (t14, w np) ∧
      t14.nextPage = w (np + 1) ∧ t14.freePage = 0#64 ∧ t14.numLeafKeys = t.numLeafKeys ∧
      t14.numPagesFree = t.numPagesFree ∧
      t14.data = t.data ++ Array.replicate ((np + 1) * pw cfg - t.data.size) 0#64 ∧
      t14.bufOffset = w (8 * t14.data.size + 8) ∧
      t14.bufCurSz =
        (if Gen.Tree.newNodeGrow (w (8 * ((np + 1) * pw cfg))) (dataArr (8 * t.data.size)) then
          (bufGrow t (w (8 * ((np + 1) * pw cfg)) - w (8 * t.data.size))).bufCurSz else t.bufCurSz) := by
  have hpw := hc.pw_lt
  have hpos := pw_pos cfg
  have e1 := succ_mul_pw cfg np
  unfold nnHead
  have hnot : BitVec.ult 0#64 t.freePage = false := by rw [h0]; decide
  simp only [hnot, Bool.false_eq_true, if_false, hnp]
  have hmul : w np * w cfg.pageSize = w (8 * (np * pw cfg)) := by
    rw [hc.ps_eq]; simp only [w, ← BitVec.ofNat_mul]; congr 1
    rw [Nat.mul_comm np, Nat.mul_assoc, Nat.mul_comm (pw cfg) np]
  have hadd : w (8 * (np * pw cfg)) + w cfg.pageSize = w (8 * ((np + 1) * pw cfg)) := by
    rw [hc.ps_eq, w_add]; congr 1; rw [e1]; omega
  rw [hmul, hadd]
  have hdl : ∀ x : BitVec 64, Gen.TreeM.dataLen { t with nextPage := x } = w (8 * t.data.size) := fun _ => rfl
  rw [hdl]
  have hslt : BitVec.slt (w (8 * t.data.size)) (w (8 * ((np + 1) * pw cfg))) =
      decide (8 * t.data.size < 8 * ((np + 1) * pw cfg)) := w_slt (by omega) (by omega)
  have hgrowK : Gen.Tree.newNodeGrow (w (8 * ((np + 1) * pw cfg))) (dataArr (8 * t.data.size)) =
      decide (8 * t.data.size < 8 * ((np + 1) * pw cfg)) := by
    unfold Gen.Tree.newNodeGrow dataArr; simp only [Array.size_replicate]; exact hslt
  rw [hslt, hgrowK]
  by_cases hg : 8 * t.data.size < 8 * ((np + 1) * pw cfg)
  · -- the buffer grows
    simp only [hg, decide_true, if_true]
    unfold bufAllocateOffset bufBytes
    simp only [Option.bind_some]
    rw [bufGrow_nextPage]
    have hbo : (bufGrow t (w (8 * ((np + 1) * pw cfg)) - w (8 * t.data.size))).bufOffset = t.bufOffset := by
      unfold bufGrow; split <;> rfl
    have hbd : (bufGrow t (w (8 * ((np + 1) * pw cfg)) - w (8 * t.data.size))).data = t.data := by
      unfold bufGrow; split <;> rfl
    have hbf : (bufGrow t (w (8 * ((np + 1) * pw cfg)) - w (8 * t.data.size))).freePage = t.freePage := by
      unfold bufGrow; split <;> rfl
    have hbl : (bufGrow t (w (8 * ((np + 1) * pw cfg)) - w (8 * t.data.size))).numLeafKeys = t.numLeafKeys := by
      unfold bufGrow; split <;> rfl
    have hbp : (bufGrow t (w (8 * ((np + 1) * pw cfg)) - w (8 * t.data.size))).numPagesFree = t.numPagesFree := by
      unfold bufGrow; split <;> rfl
    have hnew : t.bufOffset + (w (8 * ((np + 1) * pw cfg)) - w (8 * t.data.size)) = w (8 * ((np + 1) * pw cfg) + 8) := by
      rw [hoff]
      apply BitVec.eq_of_toNat_eq
      simp only [BitVec.toNat_add, BitVec.toNat_sub, w_toNat (show 8 * t.data.size + 8 < 2 ^ 64 by omega),
        w_toNat (show 8 * ((np + 1) * pw cfg) < 2 ^ 64 by omega), w_toNat (show 8 * t.data.size < 2 ^ 64 by omega),
        w_toNat (show 8 * ((np + 1) * pw cfg) + 8 < 2 ^ 64 by omega)]
      omega
    simp only [hbo, hbd, hnew, w_toNat (show 8 * ((np + 1) * pw cfg) + 8 < 2 ^ 64 by omega)]
    rw [if_pos (by omega)]
    have hn : (8 * ((np + 1) * pw cfg) + 8 - 8) / 8 = (np + 1) * pw cfg := by omega
    simp only [Option.bind_some, hn]
    rw [if_neg (by omega)]
    refine ⟨_, rfl, ?_, ?_, hbl, hbp, rfl, ?_, rfl⟩
    · simp only []; rw [w_add_one]
    · simp only []; rw [hbf]; exact h0
    · simp only [Array.size_append, Array.size_replicate]
      congr 1; omega
  · simp only [hg, decide_false, Bool.false_eq_true, if_false, Option.bind_some]
    refine ⟨_, rfl, by simp only []; rw [w_add_one], h0, rfl, rfl, ?_, hoff, rfl⟩
    simp only []
    rw [show (np + 1) * pw cfg - t.data.size = 0 by omega]
    simp

/-! ## `newNode` refines the structural allocator -/

/-- what a caller of `newNode` learns: the new state, the page handed out and the frame -/
structure NewNodeOut (cfg : Cfg) (leaf : Bool) (t : St) (a : Alloc) (t' : St) (p : Nat) (a' : Alloc) : Prop where
  scal : AllocScal t' a'
  chain : FreeChain cfg t'.data a'.free
  pos : 0 < p
  fit : (p + 1) * pw cfg ≤ t'.data.size
  fresh : FreshPage cfg leaf p (pageOf cfg t'.data p)
  grow : t.data.size ≤ t'.data.size
  small : t'.data.size < 2 ^ 40
  frame : ∀ q, q ≠ p → (q + 1) * pw cfg ≤ t.data.size → pageOf cfg t'.data q = pageOf cfg t.data q
  which : p ∈ a.free ∨ (p = a.nextPage ∧ a'.nextPage = a.nextPage + 1)
  nextMono : a.nextPage ≤ a'.nextPage
  freeSub : ∀ q ∈ a'.free, q ∈ a.free
  notFree : p ∉ a'.free

theorem ofInt_sub_one (x : Int) : BitVec.ofInt 64 x - 1#64 = BitVec.ofInt 64 (x - 1) := by
  rw [Int.sub_eq_add_neg, BitVec.ofInt_add, BitVec.sub_eq_add_neg]; rfl

theorem bufGrow_curSz (t : St) (a : Alloc) (n : BitVec 64) (hoff : t.bufOffset = w (a.dataLen + 8))
    (hcur : t.bufCurSz = w a.curSz) :
    (bufGrow t n).bufCurSz = w (bufAllocate a n.toNat).curSz := by
  unfold bufGrow bufAllocate
  simp only [hoff, hcur, show w n.toNat = n from BitVec.ofNat_toNat 64 n |>.trans (by simp)]
  by_cases h : Gen.Tree.growNotNeeded (w (a.dataLen + 8)) n (w a.curSz) = true
  · simp [h, hcur]
  · simp only [h, Bool.false_eq_true, if_false]
    rw [← w_add]; congr 1
    simp [w]

theorem newNode_refines {cfg : Cfg} (hc : CfgFlat cfg) (t : St) (a : Alloc) (hs : AllocScal t a)
    (hch : FreeChain cfg t.data a.free) (hnd : a.free.Nodup) (hfl : ∀ q ∈ a.free, q < a.nextPage)
    (hnp : 0 < a.nextPage) (hb1 : (a.nextPage + 1) * pw cfg < 2 ^ 40) (hb2 : t.data.size < 2 ^ 40) (leaf : Bool) :
    ∃ t', newNode (w cfg.pageSize) (w cfg.maxKeys) t (kindWord leaf) =
        some (t', refOf cfg t' (RV.Tree.newNode cfg a).1) ∧
      NewNodeOut cfg leaf t a t' (RV.Tree.newNode cfg a).1 (RV.Tree.newNode cfg a).2 := by
  have hpos := pw_pos cfg
  rw [newNode_split]
  cases hfree : a.free with
  | cons f rest =>
    rw [hfree] at hch hnd hfl
    obtain ⟨hf0, hffit, hlink, hrest⟩ := hch
    have hflt : f < 2 ^ 40 := by
      rcases Nat.lt_or_ge f (2 ^ 40) with h | h
      · exact h
      · have : 2 ^ 40 * 1 ≤ f * pw cfg := Nat.mul_le_mul h hpos
        have := succ_mul_pw cfg f
        omega
    have hhead : a.freeHead = f := by rw [freeHead_eq, hfree]; rfl
    have hfp : t.freePage = w f := by rw [hs.freePage, hhead]
    have hult : BitVec.ult 0#64 (w f) = true := by
      have := w_ult (a := 0) (b := f) (by omega) (by omega)
      rw [show (w 0 : BitVec 64) = 0#64 from rfl] at this; rw [this]; simpa using hf0
    -- the structural side
    have hmodel : RV.Tree.newNode cfg a = (f, { a with pagesFree := a.pagesFree - 1, free := rest }) := by
      unfold RV.Tree.newNode
      simp only [hhead, Gen.Tree.newNodeUseFree, Gen.Tree.newNodePopFree, hult, if_true, hfree, List.tail_cons]
    rw [hmodel]
    rw [nnHead_recycled _ t f hfp hf0 (by omega)]
    simp only [Option.bind_some]
    obtain ⟨pg, hpg, htail⟩ := nnTail_eq hc { t with numPagesFree := t.numPagesFree - 1#64 } hb2 f hf0 hffit leaf
    rw [htail]
    refine ⟨_, rfl, ?_⟩
    simp only [hfp, hult, if_true]
    have hne : ∀ q ∈ rest, q ≠ f := by
      intro q hq e; subst e; exact (List.nodup_cons.mp hnd).1 hq
    refine ⟨⟨hs.nextPage, ?_, hs.leafKeys, ?_, ?_, hs.curSz, hs.bufOffset, hs.fault⟩, ?_, hf0, ?_, ?_, ?_, ?_, ?_,
      Or.inl (by rw [hfree]; simp), Nat.le_refl _, fun q hq => by rw [hfree]; simp only [] at hq; simp [hq],
      (List.nodup_cons.mp hnd).1⟩
    · simp only [freeHead_eq]; exact hlink
    · simp only []; rw [hs.pagesFree, ofInt_sub_one]
    · simp only [setPage_size]; exact hs.dataLen
    · simp only []
      exact freeChain_frame (by rw [setPage_size]; exact Nat.le_refl _) rest
        (fun q hq hfq => pageOf_setPage_ne _ _ _ _ (hne q hq) hffit hfq hpg.size) hrest
    · simp only [setPage_size]; exact hffit
    · simp only []; rw [pageOf_setPage_self _ _ _ hffit hpg.size]; exact hpg
    · simp only [setPage_size]; exact Nat.le_refl _
    · simp only [setPage_size]; exact hb2
    · intro q hq hfq; simp only []
      exact pageOf_setPage_ne _ _ _ _ hq hffit hfq hpg.size
  | nil =>
    have hhead : a.freeHead = 0 := by rw [freeHead_eq, hfree]; rfl
    have hfp : t.freePage = 0#64 := by rw [hs.freePage, hhead]
    have hoff : t.bufOffset = w (8 * t.data.size + 8) := by rw [hs.bufOffset, hs.dataLen]
    obtain ⟨t14, hh, h14n, h14f, h14l, h14p, h14d, h14o, h14c⟩ :=
      nnHead_fresh hc t a.nextPage hs.nextPage hfp hoff hb1 hb2
    rw [hh]
    simp only [Option.bind_some]
    have e1 := succ_mul_pw cfg a.nextPage
    have h14s : t14.data.size = t.data.size + ((a.nextPage + 1) * pw cfg - t.data.size) := by
      rw [h14d]; simp
    have hfit14 : (a.nextPage + 1) * pw cfg ≤ t14.data.size := by omega
    have hsm14 : t14.data.size < 2 ^ 40 := by omega
    obtain ⟨pg, hpg, htail⟩ := nnTail_eq hc t14 hsm14 a.nextPage hnp hfit14 leaf
    rw [htail]
    -- the structural side
    have hult0 : BitVec.ult 0#64 (w 0) = false := by decide
    have hreq : Gen.Tree.newNodeReqSize (Gen.Tree.newNodeOffset (w a.nextPage) (w cfg.pageSize)) (w cfg.pageSize) =
        w (8 * ((a.nextPage + 1) * pw cfg)) := by
      unfold Gen.Tree.newNodeReqSize Gen.Tree.newNodeOffset
      rw [hc.ps_eq]; simp only [w, ← BitVec.ofNat_mul, ← BitVec.ofNat_add]; congr 1
      rw [e1]; rw [Nat.mul_add, Nat.mul_comm a.nextPage, Nat.mul_assoc, Nat.mul_comm (pw cfg)]
    have hmodel : RV.Tree.newNode cfg a = (a.nextPage,
        if growNeeded (w (8 * ((a.nextPage + 1) * pw cfg))) a.dataLen then
          bufAllocate { a with nextPage := a.nextPage + 1 }
            (growAmount (w (8 * ((a.nextPage + 1) * pw cfg))) a.dataLen).toNat
        else { a with nextPage := a.nextPage + 1 }) := by
      unfold RV.Tree.newNode
      simp only [hhead, Gen.Tree.newNodeUseFree, hult0, Bool.false_eq_true, if_false, hreq]
    rw [hmodel]
    refine ⟨_, rfl, ?_⟩
    have hfp14 : BitVec.ult 0#64 t14.freePage = false := by rw [h14f]; decide
    simp only [hfp14, Bool.false_eq_true, if_false]
    have hgn : growNeeded (w (8 * ((a.nextPage + 1) * pw cfg))) a.dataLen =
        Gen.Tree.newNodeGrow (w (8 * ((a.nextPage + 1) * pw cfg))) (dataArr (8 * t.data.size)) := by
      unfold growNeeded; rw [hs.dataLen]
    have hslt : Gen.Tree.newNodeGrow (w (8 * ((a.nextPage + 1) * pw cfg))) (dataArr (8 * t.data.size)) =
        decide (8 * t.data.size < 8 * ((a.nextPage + 1) * pw cfg)) := by
      unfold Gen.Tree.newNodeGrow dataArr; simp only [Array.size_replicate]
      exact w_slt (by omega) (by omega)
    have hamt : (growAmount (w (8 * ((a.nextPage + 1) * pw cfg))) a.dataLen) =
        w (8 * ((a.nextPage + 1) * pw cfg)) - w (8 * t.data.size) := by
      unfold growAmount Gen.Tree.newNodeGrowBy dataArr; simp only [Array.size_replicate]; rw [hs.dataLen]
    have hfreeNil : ∀ (b : Bool), (if b then bufAllocate { a with nextPage := a.nextPage + 1 }
          (growAmount (w (8 * ((a.nextPage + 1) * pw cfg))) a.dataLen).toNat
        else { a with nextPage := a.nextPage + 1 }).free = [] := by
      intro b; cases b <;> simp [bufAllocate, hfree]
    refine ⟨?_, ?_, hnp, ?_, ?_, ?_, ?_, ?_, Or.inr ⟨rfl, ?_⟩, ?_, ?_, by rw [hfreeNil]; simp⟩
    · -- the scalars
      by_cases hg : 8 * t.data.size < 8 * ((a.nextPage + 1) * pw cfg)
      · have hgrow : Gen.Tree.newNodeGrow (w (8 * ((a.nextPage + 1) * pw cfg))) (dataArr (8 * t.data.size)) = true := by
          rw [hslt]; simpa using hg
        rw [hgrow] at h14c
        rw [hgn, hgrow]
        simp only [if_true] at h14c ⊢
        have hn : (w (8 * ((a.nextPage + 1) * pw cfg)) - w (8 * t.data.size)).toNat =
            8 * ((a.nextPage + 1) * pw cfg) - 8 * t.data.size := by
          simp only [BitVec.toNat_sub, w_toNat (show 8 * ((a.nextPage + 1) * pw cfg) < 2 ^ 64 by omega),
            w_toNat (show 8 * t.data.size < 2 ^ 64 by omega)]
          omega
        refine ⟨?_, ?_, ?_, ?_, ?_, ?_, ?_, ?_⟩
        · simp only [bufAllocate]; exact h14n
        · simp only [bufAllocate, freeHead_eq, hfree]; exact h14f
        · simp only [bufAllocate]; rw [h14l]; exact hs.leafKeys
        · simp only [bufAllocate]; rw [h14p]; exact hs.pagesFree
        · simp only [setPage_size, bufAllocate, hamt, hn]
          rw [h14s, ← hs.dataLen]; omega
        · simp only []; rw [h14c, hamt]
          exact bufGrow_curSz t { a with nextPage := a.nextPage + 1 } _ hs.bufOffset hs.curSz
        · simp only [bufAllocate, hamt, hn]; rw [h14o]; congr 1
          rw [h14s, ← hs.dataLen]; omega
        · simp only [bufAllocate]; exact hs.fault
      · have hgrow : Gen.Tree.newNodeGrow (w (8 * ((a.nextPage + 1) * pw cfg))) (dataArr (8 * t.data.size)) = false := by
          rw [hslt]; simpa using hg
        rw [hgrow] at h14c
        rw [hgn, hgrow]
        simp only [Bool.false_eq_true, if_false] at h14c ⊢
        refine ⟨h14n, ?_, ?_, ?_, ?_, ?_, ?_, hs.fault⟩
        · simp only [freeHead_eq, hfree]; exact h14f
        · rw [h14l]; exact hs.leafKeys
        · rw [h14p]; exact hs.pagesFree
        · simp only [setPage_size]; rw [h14s, ← hs.dataLen]; omega
        · simp only []; rw [h14c]; exact hs.curSz
        · simp only []; rw [h14o, ← hs.dataLen]; congr 1; rw [h14s]; omega
    · -- the free list is empty
      have : ∀ (b : Bool), (if b then bufAllocate { a with nextPage := a.nextPage + 1 }
            (growAmount (w (8 * ((a.nextPage + 1) * pw cfg))) a.dataLen).toNat
          else { a with nextPage := a.nextPage + 1 }).free = [] := by
        intro b; cases b <;> simp [bufAllocate, hfree]
      rw [this]; trivial
    · simp only [setPage_size]; exact hfit14
    · simp only []; rw [pageOf_setPage_self _ _ _ hfit14 hpg.size]; exact hpg
    · simp only [setPage_size]; omega
    · simp only [setPage_size]; exact hsm14
    · intro q hq hfq; simp only []
      rw [pageOf_setPage_ne _ _ _ _ hq hfit14 (by omega) hpg.size, h14d]
      exact pageOf_append _ _ _ hfq
    · have : ∀ (b : Bool), (if b then bufAllocate { a with nextPage := a.nextPage + 1 }
            (growAmount (w (8 * ((a.nextPage + 1) * pw cfg))) a.dataLen).toNat
          else { a with nextPage := a.nextPage + 1 }).nextPage = a.nextPage + 1 := by
        intro b; cases b <;> simp [bufAllocate]
      rw [this]
    · have : ∀ (b : Bool), (if b then bufAllocate { a with nextPage := a.nextPage + 1 }
            (growAmount (w (8 * ((a.nextPage + 1) * pw cfg))) a.dataLen).toNat
          else { a with nextPage := a.nextPage + 1 }).nextPage = a.nextPage + 1 := by
        intro b; cases b <;> simp [bufAllocate]
      rw [this]; omega
    · have : ∀ (b : Bool), (if b then bufAllocate { a with nextPage := a.nextPage + 1 }
            (growAmount (w (8 * ((a.nextPage + 1) * pw cfg))) a.dataLen).toNat
          else { a with nextPage := a.nextPage + 1 }).free = [] := by
        intro b; cases b <;> simp [bufAllocate, hfree]
      rw [this]; intro q hq; simp at hq

end RV.TreeFlat
