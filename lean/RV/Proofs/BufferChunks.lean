import RV.Proofs.BufferSort
/-!
The first loop of `SortSliceBetween` (chunk offsets) and `sortSmall`.
-/
namespace RV.Buffer
open Gen.Buffer

/-- what the first loop records: the offset of every slice whose running count is a
multiple of 1024 (the stride in buffer.go: `k_sortChunkStart`) -/
def marks (c off : Nat) : List Bytes → List Nat
  | [] => []
  | s :: ss => (if c % 1024 = 0 then [off] else []) ++ marks (c + 1) (off + 8 + s.length) ss

theorem chunkOffsets_spec (b : Buf) (h : WF b) (post : Bytes) (e : Nat) :
    ∀ (S : List Bytes) (pre : Bytes) (fuel c : Nat),
      b.data = pre ++ encAll S ++ post →
      pre.length + (encAll S).length = e →
      S.length < fuel → (S ≠ [] ∨ post ≠ []) → c + S.length < 2 ^ 62 →
      chunkOffsets b e fuel (some pre.length) c = .ok (marks c pre.length S) := by
  have hcap := h.cap; have hcur := h.curSmall; have hlen := h.len
  intro S
  induction S with
  | nil =>
    intro pre fuel c hd he hfuel hne _
    have hp : post ≠ [] := by rcases hne with h | h; exact absurd rfl h; exact h
    cases fuel with
    | zero => omega
    | succ f =>
      simp only [encAll_nil, List.length_nil, Nat.add_zero] at he
      have hl : b.data.length = pre.length + post.length := by rw [hd]; simp [encAll_nil]
      unfold chunkOffsets
      rw [k_sortWalkCond_some _ _ (by omega) (by omega)]
      simp [he, marks, encAll_nil]
  | cons s ss ih =>
    intro pre fuel c hd he hfuel _ hc
    cases fuel with
    | zero => omega
    | succ f =>
      have hlenS : (encAll (s :: ss)).length = 8 + s.length + (encAll ss).length := by
        rw [encAll_cons, List.length_append, enc_length]
      have hl : b.data.length = pre.length + (encAll (s :: ss)).length + post.length := by
        rw [hd]; simp only [List.length_append]
      have hd' : b.data = pre ++ enc s ++ (encAll ss ++ post) := by rw [hd, encAll_cons]; simp
      unfold chunkOffsets
      rw [k_sortWalkCond_some _ _ (by omega) (by omega)]
      have hlt : pre.length < e := by omega
      simp only [hlt, decide_true, Bool.not_true, Bool.false_eq_true, if_false, slice_at b h pre s _ hd']
      rw [k_sortChunkStart _ (by simp at hc; omega)]
      by_cases hr : encAll ss ++ post = []
      · have hss : ss = [] := encAll_eq_nil (List.append_eq_nil_iff.mp hr).1
        subst hss
        simp only [hr, if_true]
        cases f with
        | zero => simp at hfuel
        | succ f' =>
          unfold chunkOffsets
          rw [k_sortWalkCond_none]
          by_cases hm : c % 1024 = 0 <;> simp [marks, hm]
      · simp only [hr, if_false]
        have hpre : (pre ++ enc s).length = pre.length + 8 + s.length := by
          rw [List.length_append, enc_length]; omega
        have := ih (pre ++ enc s) f (c + 1) (by rw [hd']; simp) (by rw [hpre]; omega)
          (by simp at hfuel; omega)
          (by
            by_cases hss : ss = []
            · right; subst hss; simpa [encAll_nil] using hr
            · left; exact hss)
          (by simp at hc; omega)
        rw [hpre] at this
        rw [this]
        by_cases hm : c % 1024 = 0 <;> simp [marks, hm]

theorem marks_lt : ∀ (S : List Bytes) (c off x : Nat), x ∈ marks c off S → x < off + (encAll S).length := by
  intro S
  induction S with
  | nil => intro c off x hx; simp [marks] at hx
  | cons s ss ih =>
    intro c off x hx
    rw [encAll_cons, List.length_append, enc_length]
    simp only [marks, List.mem_append] at hx
    rcases hx with hx | hx
    · split at hx
      · simp at hx; omega
      · simp at hx
    · have := ih _ _ _ hx; omega

theorem marks_skip : ∀ (T : List Bytes) (c off : Nat), 0 < c % 1024 → c % 1024 + T.length ≤ 1024 →
    marks c off T = [] := by
  intro T
  induction T with
  | nil => intro c off _ _; rfl
  | cons s ss ih =>
    intro c off h1 h2
    simp only [List.length_cons] at h2
    have hne : ¬ c % 1024 = 0 := by omega
    simp only [marks, hne, if_false, List.nil_append]
    cases ss with
    | nil => rfl
    | cons s2 ss2 =>
      simp only [List.length_cons] at h2
      exact ih (c + 1) _ (by omega) (by simp only [List.length_cons]; omega)

theorem marks_append : ∀ (T U : List Bytes) (c off : Nat),
    marks c off (T ++ U) = marks c off T ++ marks (c + T.length) (off + (encAll T).length) U := by
  intro T
  induction T with
  | nil => intro U c off; simp [marks, encAll_nil]
  | cons s ss ih =>
    intro U c off
    simp only [List.cons_append, marks, ih, List.append_assoc, List.length_cons, encAll_cons, List.length_append,
      enc_length]
    congr 3 <;> omega

theorem marks_chunk (T : List Bytes) (c off : Nat) (hc : c % 1024 = 0) (hT : T ≠ []) (hl : T.length ≤ 1024) :
    marks c off T = [off] := by
  cases T with
  | nil => exact absurd rfl hT
  | cons s ss =>
    simp only [marks, hc, if_true]
    simp only [List.length_cons] at hl
    cases ss with
    | nil => rfl
    | cons s2 ss2 =>
      rw [marks_skip _ (c + 1) _ (by omega) (by simp only [List.length_cons] at hl ⊢; omega)]
      rfl

/-- consecutive chunks of at most `n` slices -/
def chunks (n : Nat) : Nat → List Bytes → List (List Bytes)
  | 0, _ => []
  | f + 1, l => if l = [] then [] else l.take n :: chunks n f (l.drop n)

theorem chunks_flatten (n : Nat) (hn : 0 < n) : ∀ (fuel : Nat) (l : List Bytes), l.length ≤ fuel →
    (chunks n fuel l).flatten = l := by
  intro fuel
  induction fuel with
  | zero => intro l hl; simp at hl; subst hl; rfl
  | succ f ih =>
    intro l hl
    unfold chunks
    by_cases he : l = []
    · simp [he]
    · simp only [he, if_false, List.flatten_cons]
      have hpos : 0 < l.length := List.length_pos_iff.mpr he
      rw [ih (l.drop n) (by rw [List.length_drop]; omega), List.take_append_drop]

theorem chunks_nonempty (n : Nat) (hn : 0 < n) : ∀ (fuel : Nat) (l : List Bytes),
    ∀ c ∈ chunks n fuel l, c ≠ [] ∧ c.length ≤ n := by
  intro fuel
  induction fuel with
  | zero => intro l c hc; simp [chunks] at hc
  | succ f ih =>
    intro l c hc
    unfold chunks at hc
    by_cases he : l = []
    · simp [he] at hc
    · simp only [he, if_false, List.mem_cons] at hc
      rcases hc with rfl | hc
      · constructor
        · intro h
          have := congrArg List.length h
          rw [List.length_take, List.length_nil] at this
          have hpos : 0 < l.length := List.length_pos_iff.mpr he
          omega
        · rw [List.length_take]; omega
      · exact ih _ c hc

/-- The recorded offsets plus `end` are the boundaries of the 1024-slice chunks. -/
theorem marks_boundaries : ∀ (fuel : Nat) (l : List Bytes) (c off : Nat), c % 1024 = 0 → l.length ≤ fuel →
    marks c off l ++ [off + (encAll l).length] = boundaries off (chunks 1024 fuel l) := by
  intro fuel
  induction fuel with
  | zero =>
    intro l c off _ hl
    simp at hl; subst hl
    simp [marks, chunks, boundaries, encAll_nil]
  | succ f ih =>
    intro l c off hc hl
    unfold chunks
    by_cases he : l = []
    · subst he; simp [marks, boundaries, encAll_nil]
    · simp only [he, if_false, boundaries]
      have hpos : 0 < l.length := List.length_pos_iff.mpr he
      have hT : l.take 1024 ≠ [] := by
        intro h; have := congrArg List.length h; rw [List.length_take, List.length_nil] at this; omega
      have hsplit : l = l.take 1024 ++ l.drop 1024 := (List.take_append_drop 1024 l).symm
      have hlenE : (encAll l).length = (encAll (l.take 1024)).length + (encAll (l.drop 1024)).length := by
        conv => lhs; rw [hsplit, encAll_append, List.length_append]
      have hgoal : marks c off l ++ [off + (encAll l).length] =
          marks c off (l.take 1024 ++ l.drop 1024) ++ [off + (encAll l).length] := by rw [← hsplit]
      rw [hgoal, marks_append, marks_chunk _ c off hc hT (by rw [List.length_take]; omega)]
      by_cases hU : l.drop 1024 = []
      · rw [hU] at hlenE ⊢
        simp only [marks, List.append_nil, encAll_nil, List.length_nil, Nat.add_zero] at hlenE ⊢
        have : chunks 1024 f [] = [] := by cases f <;> simp [chunks]
        rw [this, boundaries, hlenE]
        rfl
      · have hlong : 1024 ≤ l.length := by
          rcases Nat.lt_or_ge l.length 1024 with h | h
          · exact absurd (List.drop_eq_nil_of_le (by omega)) hU
          · exact h
        have hTl : (l.take 1024).length = 1024 := by rw [List.length_take]; omega
        have hmod : (c + 1024) % 1024 = 0 := by omega
        have hdl : (l.drop 1024).length ≤ f := by rw [List.length_drop]; omega
        have := ih (l.drop 1024) (c + 1024) (off + (encAll (l.take 1024)).length) hmod hdl
        rw [hTl, List.cons_append, List.nil_append, hlenE, ← Nat.add_assoc]
        exact congrArg (List.cons off) this

end RV.Buffer
